/-
  C10 — Limited-memory QR and Anderson acceleration match their least-squares definition.

  The index arithmetic and scalar formulas (`lmqrSucc`, `lmqrPred`, `circInc`, `circDec`,
  `lmqrAddIdx`, `lmqrRemoveIdx`, `aaAlpha0/Mid/Last`, `aaMem`, …) are regenerated from /repo's C++ on
  every run (`Alpaqa/Gen/C10.lean`); the loop skeletons (`Alpaqa/Model/C10.lean`) are tied to the real
  `alpaqa::LimitedMemoryQR<EigenConfigd>` / `alpaqa::AndersonAccel<EigenConfigd>` by a bit-exact
  op-sequence correspondence (`checks/c10.py`).  All theorems hold over every linearly ordered field,
  for every capacity `m ≥ 1`, dimension `n`, and every operation history within capacity (no bound).

  What "R upper triangular, QR = A" means here: `get_R()` of the C++ returns the *upper-triangular
  view* of the ring-ordered `q_idx × q_idx` block of the raw storage (entries below the diagonal are
  stale by design: `remove_column` never zeroes them).  `LMQR.getR` is that view, `getR_upper` says
  it is upper triangular, and `Represents s A` says `Q · get_R() = A` on rows `< n`.  So the content
  of "R stays upper triangular" is that no operation ever relies on a below-diagonal entry.

  Oracles: `std::sqrt` with `SqrtLaw` (`sqrt a · sqrt a = a` for `a ≥ 0`) and `SqrtNonneg` (`sqrt a ≥ 0`).
  `giv` = `Eigen::JacobiRotation::makeGivens`: the theorems are stated for any `giv` meeting the contract
  `GivensOK` (`GivensOK0` = the contract plus "no rotation on (0,0)", needed once dead columns exist), and
  `givensEigen_meets_contract` / `…_contract0` prove both for `givensEigen`, the line-by-line port the driver
  executes (bit-exact against Eigen on every run) — so every `giv`-theorem holds for the executed function
  (`*_executed` corollaries, and all examples use `givensEigen`).

  Dependent columns.  `add_column` has no side condition: `r(q_idx) = norm_q; if (norm_q > 0) q /= norm_q;
  else q.setZero();`.  `QR = A` and the ring refinement hold after EVERY history (`history_invariant`:
  `Reach.add` takes any column).  In exact arithmetic `norm_q > 0` is *exactly* "the new column is not in
  the span of the window" (`addColumn_norm_pos_of_independent`); `ReachI` / `AReachI` are the histories of
  independent additions and nonzero rescalings, for which `Q` is orthonormal and the pivots are nonzero
  (`reachI_reach` / `areachI_areach`) — no `n × K` matrix with orthonormal columns represents a dependent
  window, so this is the hypothesis under which "orthonormal Q" can hold at all.  For every history `Q` is
  *partially* orthonormal (`history_partial_orthonormal`: pairwise orthogonal columns of norm 1 or 0, the
  row of `R` of a zero column is zero).

  `solve_col` and the pivot threshold (`history_solve_least_squares`, EVERY history, every `tol ≥ 0`):
  components whose pivot is not above the threshold are 0 (`|R(r,r)| <= tol`: an exactly zero pivot is
  never divided by), the other rows of `R x = Qᵀ b` hold, this determines `x` uniquely, and `x` is a
  least-squares minimiser for the *deflated* window `A' = A − Σ_{r skipped} q_r·(row r of R)`.  `A' = A` when
  every skipped pivot belongs to a zero column (`history_solve_least_squares_dead`) or nothing is skipped
  (`…_no_truncation`: the unique minimiser; `…_independent` for `tol ≤ 0`).  In general `x` is NOT the
  minimiser of `‖A z − b‖` over `{z_r = 0, r skipped}` (`truncated_solve_is_not_the_constrained_minimiser`).

  Partial (see the comment at `history_orthonormal_partial`): the benefit of the *re*orthogonalisation loop
  and `min_eig` / `max_eig` are modelled and carried through every proof, but nothing is proved about
  conditioning in floating point; in exact arithmetic reorthogonalisation is a no-op on an orthonormal
  `Q` and the bookkeeping identity holds for any number of passes.
-/
import Alpaqa.Proofs.C10History
import Alpaqa.Proofs.C10Eig
import Mathlib.Analysis.Real.Sqrt
import Mathlib.Tactic.NormNum

namespace Alpaqa.Props.C10
open Finset Alpaqa Alpaqa.Gen Alpaqa.C10
set_option linter.unusedSectionVars false
set_option linter.unusedVariables false

section
variable {α : Type} [Field α] [LinearOrder α] [IsStrictOrderedRing α] [RealLike α]

/-! ### 1. Ring refinement (index arithmetic regenerated from the C++) -/

/-- `r_succ` / `r_pred` are `+1` / `−1` modulo the capacity and invert each other. -/
theorem ring_succ_pred {m i : ℕ} (hi : i < m) :
    lmqrSucc m i = (i + 1) % m ∧ lmqrPred m i = (i + m - 1) % m ∧
    lmqrPred m (lmqrSucc m i) = i ∧ lmqrSucc m (lmqrPred m i) = i :=
  ⟨lmqrSucc_eq hi, lmqrPred_eq hi, lmqrPred_succ hi, lmqrSucc_pred hi⟩

/-- `CircularIndexIterator::operator++ / --` on a valid circular index. -/
theorem circ_iterator_steps {max zb ci : ℕ} (hc : ci < max) :
    circInc max zb ci = (zb + 1, (ci + 1) % max) ∧ circDec max zb ci = (zb - 1, (ci + max - 1) % max) :=
  ⟨circInc_eq hc, circDec_eq hc⟩

/-- `ring_iter()` yields logical `j ↦` storage `(r_idx_start + j) mod m` for `j < q_idx`. -/
theorem ring_iter_logical (s : LMQR α) (h : RingInv s) :
    s.ringFwd = (List.range s.qIdx).map fun j => (j, (s.rStart + j) % s.m) := ringFwd_eq s h

/-- `ring_reverse_iter()` is the reverse of `ring_iter()`. -/
theorem ring_reverse_iter_reverse (s : LMQR α) (h : RingInv s) : s.ringRev = s.ringFwd.reverse :=
  ringRev_eq s h

/-- the storage columns of one window are pairwise distinct (also when the ring is full) -/
theorem ring_slots_distinct (s : LMQR α) (h : RingInv s) {a b : ℕ} (hab : a < b) (hb : b < s.qIdx) :
    s.slot a ≠ s.slot b := by
  unfold LMQR.slot; exact slot_inj hab (by have := h.cap; omega)

/-! ### 2. Single operations -/

/-- `get_R()` is upper triangular. -/
theorem getR_upper_triangular (s : LMQR α) {i k : ℕ} (h : k < i) : s.getR i k = 0 := getR_upper s h

/-- `add_column`, for EVERY column `v`: the indices advance as the ring refinement demands, and
    `[A v] = Q'R'` — a bookkeeping identity of Modified Gram–Schmidt that holds regardless of the
    orthogonality of `Q` and of the number of reorthogonalisation passes.  When `v` is in the span of the
    window (`norm_q = 0`, so `q = 0`: lawful nonnegative `sqrt`) the code stores a zero column with a zero
    pivot, and the identity still holds. -/
theorem addColumn_QR (hs : SqrtLaw α) (hsn : SqrtNonneg α) (fuel : ℕ) (s : LMQR α) (h : RingInv s)
    (hK : s.qIdx < s.m) (v : ℕ → α) (A : ℕ → ℕ → α) (hA : Represents s A) :
    RingInv (s.addColumn fuel v) ∧ (s.addColumn fuel v).qIdx = s.qIdx + 1 ∧
    Represents (s.addColumn fuel v) (fun k => if k = s.qIdx then v else A k) :=
  ⟨addColumn_ring fuel s h hK v, (addColumn_idx fuel s v).1,
    addColumn_represents hs hsn fuel s h hK v A hA⟩

/-- `add_column` keeps `QᵀQ = I` when `norm_q > 0` (exact arithmetic; lawful `sqrt`); `norm_q > 0` holds
    exactly when `v` is not in the span of the window (`addColumn_norm_pos_of_independent`). -/
theorem addColumn_orthonormal (hs : SqrtLaw α) (fuel : ℕ) (s : LMQR α) (h : RingInv s)
    (hK : s.qIdx < s.m) (v : ℕ → α) (hnz : 0 < (addCore fuel s v).2.2.1) (hO : Orth s) :
    Orth (s.addColumn fuel v) := addColumn_orth hs fuel s h hK v hnz hO

/-- `remove_column`: under the Givens contract, `Q'R'` = `A` without its first column, using only the
    upper triangle of `R'` (Hessenberg invariant through the sweep), and the ring head advances. -/
theorem removeColumn_QR (giv : α → α → α × α × α) (hg : GivensOK giv) (s : LMQR α) (h : RingInv s)
    (hK : 0 < s.qIdx) (A : ℕ → ℕ → α) (hA : Represents s A) :
    RingInv (s.removeColumn giv) ∧ (s.removeColumn giv).qIdx = s.qIdx - 1 ∧
    (s.removeColumn giv).rStart = (s.rStart + 1) % s.m ∧
    Represents (s.removeColumn giv) (fun k => A (k + 1)) :=
  ⟨removeColumn_ring giv s h hK, (removeColumn_idx giv s h hK).1, (removeColumn_idx giv s h hK).2.1,
    removeColumn_represents giv hg s h hK A hA⟩

/-- the Givens sweep keeps the remaining columns of `Q` orthonormal -/
theorem removeColumn_orthonormal (giv : α → α → α × α × α) (hg : GivensOK giv) (s : LMQR α)
    (h : RingInv s) (hK : 0 < s.qIdx) (hO : Orth s) : Orth (s.removeColumn giv) :=
  removeColumn_orth giv hg s h hK hO

/-- **The executed Givens function meets the contract**: `givensEigen` — the line-by-line port of Eigen's
    real-scalar `JacobiRotation::makeGivens` that `Driver/C10.lean` runs (special cases `q = 0`, `p = 0`;
    branches `|p| > |q|` / else with `u = ±√(1 + t²)` and Eigen's sign conventions) — satisfies `GivensOK`
    over every ordered field with a lawful square root. -/
theorem givensEigen_meets_contract (hs : SqrtLaw α) : GivensOK (givensEigen : α → α → α × α × α) :=
  givensEigen_ok hs

/-- `remove_column` as executed (with `givensEigen`). -/
theorem removeColumn_QR_executed (hs : SqrtLaw α) (s : LMQR α) (h : RingInv s)
    (hK : 0 < s.qIdx) (A : ℕ → ℕ → α) (hA : Represents s A) :
    RingInv (s.removeColumn givensEigen) ∧ (s.removeColumn givensEigen).qIdx = s.qIdx - 1 ∧
    (s.removeColumn givensEigen).rStart = (s.rStart + 1) % s.m ∧
    Represents (s.removeColumn givensEigen) (fun k => A (k + 1)) :=
  removeColumn_QR givensEigen (givensEigen_ok hs) s h hK A hA

theorem removeColumn_orthonormal_executed (hs : SqrtLaw α) (s : LMQR α) (h : RingInv s)
    (hK : 0 < s.qIdx) (hO : Orth s) : Orth (s.removeColumn givensEigen) :=
  removeColumn_orth givensEigen (givensEigen_ok hs) s h hK hO

/-- `remove_column` keeps the pivots nonzero: the new diagonal entry is `r = ±√(p² + q²)` with `q` an old
    pivot. -/
theorem removeColumn_pivots_nonzero (giv : α → α → α × α × α) (hg : GivensOK giv) (s : LMQR α)
    (h : RingInv s) (hK : 0 < s.qIdx) (hP : PivNZ s) : PivNZ (s.removeColumn giv) :=
  removeColumn_pivnz giv hg s h hK hP

/-- **`norm_q ≠ 0` ⇔ independence** (the direction the theorems need): on a state with orthonormal `Q`
    and nonzero pivots representing `A`, the `norm_q` that `add_column(v)` divides by is nonzero whenever
    `v` is not a linear combination of the columns of `A` (exact arithmetic, lawful `sqrt`). -/
theorem addColumn_norm_ne_zero_of_independent (hs : SqrtLaw α) (fuel : ℕ) (s : LMQR α) (h : RingInv s)
    (A : ℕ → ℕ → α) (hA : Represents s A) (hO : Orth s) (hP : PivNZ s) (v : ℕ → α)
    (hind : ¬ ∃ z : ℕ → α, ∀ j < s.n, v j = ∑ k ∈ range s.qIdx, A k j * z k) :
    (addCore fuel s v).2.2.1 ≠ 0 := addCore_norm_ne_zero hs fuel s h A hA hO hP v hind

theorem addColumn_norm_pos_of_independent (hs : SqrtLaw α) (hsn : SqrtNonneg α) (fuel : ℕ) (s : LMQR α)
    (h : RingInv s) (A : ℕ → ℕ → α) (hA : Represents s A) (hO : Orth s) (hP : PivNZ s) (v : ℕ → α)
    (hind : ¬ ∃ z : ℕ → α, ∀ j < s.n, v j = ∑ k ∈ range s.qIdx, A k j * z k) :
    0 < (addCore fuel s v).2.2.1 :=
  lt_of_le_of_ne (addCore_norm_nonneg hsn fuel s v)
    (Ne.symm (addCore_norm_ne_zero hs fuel s h A hA hO hP v hind))

/-- … and a state with orthonormal `Q` and nonzero pivots represents a linearly independent window. -/
theorem window_linearly_independent (s : LMQR α) (A : ℕ → ℕ → α) (hA : Represents s A) (hO : Orth s)
    (hP : PivNZ s) (z : ℕ → α) (hz : ∀ j < s.n, ∑ k ∈ range s.qIdx, A k j * z k = 0) :
    ∀ k < s.qIdx, z k = 0 := window_independent s A hA hO hP z hz

/-- the executed Givens function also never rotates on `(0, 0)` (`GivensOK0`: the contract plus
    `makeGivens(0,0).s = 0`) — what `remove_column` needs in the presence of dead (zero) columns -/
theorem givensEigen_meets_contract0 (hs : SqrtLaw α) : GivensOK0 (givensEigen : α → α → α × α × α) :=
  givensEigen_ok0 hs

/-- **Dependent columns: partial orthonormality is kept by every operation.**  `POrth s`: the columns of
    `Q` are pairwise orthogonal, each of squared norm 1 or 0 (a zero column = a dependent column was
    added), and the row of `get_R()` belonging to a zero column is zero. -/
theorem addColumn_partial_orthonormal (hs : SqrtLaw α) (hsn : SqrtNonneg α) (fuel : ℕ) (s : LMQR α)
    (h : RingInv s) (hK : s.qIdx < s.m) (v : ℕ → α) (hO : POrth s) : POrth (s.addColumn fuel v) :=
  addColumn_porth hs hsn fuel s h hK v hO

theorem removeColumn_partial_orthonormal (giv : α → α → α × α × α) (hg : GivensOK0 giv) (s : LMQR α)
    (h : RingInv s) (hK : 0 < s.qIdx) (hO : POrth s) : POrth (s.removeColumn giv) :=
  removeColumn_porth giv hg s h hK hO

/-- `POrth` with nonzero pivots is `Orth`, and `Orth` is `POrth` -/
theorem partial_orthonormal_iff (s : LMQR α) (hP : PivNZ s) : POrth s ↔ Orth s :=
  ⟨fun h => h.orth hP, fun h => h.porth⟩

/-- `scale_R(c)`: every entry of `get_R()` is multiplied once, so the window is scaled by `c`. -/
theorem scaleR_QR (s : LMQR α) (h : RingInv s) (c : α) (A : ℕ → ℕ → α) (hA : Represents s A) :
    RingInv (s.scaleR c) ∧ (∀ i, ∀ k < s.qIdx, (s.scaleR c).getR i k = s.getR i k * c) ∧
    Represents (s.scaleR c) (fun k j => A k j * c) :=
  ⟨scaleR_ring s h c, fun i k hk => scaleR_getR s h c hk, scaleR_represents s h c A hA⟩

/-- `solve_col`: back substitution over the ring.  Rows whose pivot passes the threshold satisfy
    their row of `R x = Qᵀ b` (pivot nonzero — automatic for `tol > 0`), rows below the threshold get
    `x = 0`, entries `≥ q_idx` are untouched. -/
theorem solveCol_backsubst (s : LMQR α) (h : RingInv s) (b x0 : ℕ → α) (tol : α) :
    (∀ k, s.qIdx ≤ k → s.solveCol b x0 tol k = x0 k) ∧
    ∀ r < s.qIdx,
      (|s.getR r r| ≤ tol → s.solveCol b x0 tol r = 0) ∧
      (¬ |s.getR r r| ≤ tol → s.getR r r ≠ 0 →
        ∑ k ∈ range s.qIdx, s.getR r k * s.solveCol b x0 tol k = ∑ j ∈ range s.n, s.Q.get j r * b j) :=
  Alpaqa.C10.solveCol_backsubst s h b x0 tol

/-- `QᵀQ = I`, `A = QR`, `R x = Qᵀ b` ⇒ `x` minimises `‖A z − b‖²` (normal equations; sums of
    squares only, no square root). -/
theorem ls_optimal (n K : ℕ) (Q Ru A : ℕ → ℕ → α)
    (hA : ∀ k < K, ∀ j < n, ∑ i ∈ range K, Q j i * Ru i k = A k j)
    (hO : ∀ a < K, ∀ c < K, ∑ j ∈ range n, Q j a * Q j c = if a = c then 1 else 0)
    (b x : ℕ → α) (hx : ∀ r < K, ∑ k ∈ range K, Ru r k * x k = ∑ j ∈ range n, Q j r * b j) :
    ∀ z : ℕ → α, ∑ j ∈ range n, (∑ k ∈ range K, A k j * x k - b j) ^ 2 ≤
                  ∑ j ∈ range n, (∑ k ∈ range K, A k j * z k - b j) ^ 2 :=
  Alpaqa.C10.ls_optimal n K Q Ru A hA hO b x hx

/-- … and with `R` nonsingular upper triangular the minimiser is unique. -/
theorem ls_unique (n K : ℕ) (Q Ru A : ℕ → ℕ → α)
    (hA : ∀ k < K, ∀ j < n, ∑ i ∈ range K, Q j i * Ru i k = A k j)
    (hO : ∀ a < K, ∀ c < K, ∑ j ∈ range n, Q j a * Q j c = if a = c then 1 else 0)
    (b x : ℕ → α) (hx : ∀ r < K, ∑ k ∈ range K, Ru r k * x k = ∑ j ∈ range n, Q j r * b j)
    (hd : ∀ r < K, Ru r r ≠ 0) (hU : ∀ i k, k < i → Ru i k = 0) (z : ℕ → α)
    (hz : ∑ j ∈ range n, (∑ k ∈ range K, A k j * z k - b j) ^ 2 ≤
          ∑ j ∈ range n, (∑ k ∈ range K, A k j * x k - b j) ^ 2) :
    ∀ k < K, z k = x k :=
  Alpaqa.C10.ls_unique n K Q Ru A hA hO hd hU b x hx z hz

/-- **`solve_col` for arbitrary pivots** (orthonormal `Q`; every pivot that passes the threshold nonzero —
    automatic for `tol > 0`).  `x = solve_col(b, ·, tol)` satisfies
    1. `x r = 0` for every pivot below the threshold;
    2. `q_rᵀ (A x − b) = 0` for every other pivot (row `r` of `R x = Qᵀ b`);
    3. `x` is a least-squares minimiser of `‖A' z − b‖` for the deflated window
       `A' = deflated s tol = A − Σ_{r skipped} q_r·(row r of R)` (`deflated_window_eq`);
    4. 1 and 2 determine `x` on the `q_idx` entries `solve_col` writes. -/
theorem solveCol_any_pivots (s : LMQR α) (h : RingInv s) (A : ℕ → ℕ → α) (hA : Represents s A)
    (hO : Orth s) (b x0 : ℕ → α) (tol : α)
    (hnz : ∀ r < s.qIdx, ¬ |s.getR r r| ≤ tol → s.getR r r ≠ 0) :
    (∀ r < s.qIdx, |s.getR r r| ≤ tol → s.solveCol b x0 tol r = 0) ∧
    (∀ r < s.qIdx, ¬ |s.getR r r| ≤ tol →
      ∑ j ∈ range s.n, s.Q.get j r * (∑ k ∈ range s.qIdx, A k j * s.solveCol b x0 tol k - b j) = 0) ∧
    (∀ z : ℕ → α,
      ∑ j ∈ range s.n, (∑ k ∈ range s.qIdx, deflated s tol k j * s.solveCol b x0 tol k - b j) ^ 2 ≤
      ∑ j ∈ range s.n, (∑ k ∈ range s.qIdx, deflated s tol k j * z k - b j) ^ 2) ∧
    ∀ z : ℕ → α, (∀ r < s.qIdx, |s.getR r r| ≤ tol → z r = 0) →
      (∀ r < s.qIdx, ¬ |s.getR r r| ≤ tol →
        ∑ j ∈ range s.n, s.Q.get j r * (∑ k ∈ range s.qIdx, A k j * z k - b j) = 0) →
      ∀ k < s.qIdx, z k = s.solveCol b x0 tol k := by
  obtain ⟨t1, t2, t3⟩ := solveCol_truncated s h A hA hO b x0 tol hnz
  exact ⟨t1, t2, t3, fun z hz0 hz1 => solveCol_truncated_unique s h A hA hO b x0 tol hnz z hz0 hz1⟩

/-- the deflated window, entry by entry: `A` minus the skipped `q`-directions; it is `A` when nothing is
    skipped -/
theorem deflated_window_eq (s : LMQR α) (tol : α) (A : ℕ → ℕ → α) (hA : Represents s A) {k j : ℕ}
    (hk : k < s.qIdx) (hj : j < s.n) :
    deflated s tol k j =
      A k j - ∑ i ∈ range s.qIdx, (if |s.getR i i| ≤ tol then s.Q.get j i * s.getR i k else 0) ∧
    ((∀ r < s.qIdx, ¬ |s.getR r r| ≤ tol) → deflated s tol k j = A k j) :=
  ⟨deflated_eq_sub s tol A hA hk hj, fun hp => deflated_eq_of_no_trunc s tol A hA hp hk hj⟩

/-! ### 3. All operation histories within capacity -/

/-- States reachable from the constructor `LimitedMemoryQR(n, m)` by `add_column` (below capacity, ANY
    column), `remove_column` (non-empty), `reset`, `scale_R`, together with the window of columns
    (oldest first) the history defines. -/
inductive Reach (fuel : ℕ) (giv : α → α → α × α × α) (inf : α) (n m : ℕ) :
    LMQR α → List (ℕ → α) → Prop
  | new : Reach fuel giv inf n m (LMQR.new inf n m) []
  | add {s A} (v : ℕ → α) : Reach fuel giv inf n m s A → s.qIdx < m →
      Reach fuel giv inf n m (s.addColumn fuel v) (A ++ [v])
  | remove {s A} : Reach fuel giv inf n m s A → 0 < s.qIdx →
      Reach fuel giv inf n m (s.removeColumn giv) A.tail
  | reset {s A} : Reach fuel giv inf n m s A → Reach fuel giv inf n m (s.reset inf) []
  | scale {s A} (c : α) : Reach fuel giv inf n m s A →
      Reach fuel giv inf n m (s.scaleR c) (A.map fun col j => col j * c)

/-- **Ring refinement + `QR = A` for every history**: sizes are kept, `q_idx` is the window length,
    `r_idx_end = (r_idx_start + q_idx) mod m` with `r_idx_start < m`, `q_idx ≤ m`, and
    `Q · get_R()` is the window. -/
theorem history_invariant (hs : SqrtLaw α) (hsn : SqrtNonneg α) {fuel : ℕ} {giv : α → α → α × α × α}
    (hg : GivensOK giv) {inf : α}
    {n m : ℕ} (hm : 0 < m) {s : LMQR α} {A : List (ℕ → α)} (h : Reach fuel giv inf n m s A) :
    s.n = n ∧ s.m = m ∧ s.qIdx = A.length ∧ s.qIdx ≤ m ∧ s.rStart < m ∧
    s.rEnd = (s.rStart + s.qIdx) % m ∧ Represents s (winFn A) := by
  have key : QRInv n m s A := by
    induction h with
    | new => exact QRInv.new inf n m hm
    | add v _ hK ih => exact ih.add hs hsn fuel hK v
    | remove _ hK ih => exact ih.remove giv hg hK
    | reset _ ih => exact ih.reset inf
    | scale c _ ih => exact ih.scale c
  refine ⟨key.hn, key.hm, key.len, ?_, ?_, ?_, key.repr⟩
  · rw [← key.hm]; exact key.ring.cap
  · rw [← key.hm]; exact key.ring.start_lt
  · rw [← key.hm]; exact key.ring.end_eq

theorem history_qrinv (hs : SqrtLaw α) (hsn : SqrtNonneg α) {fuel : ℕ} {giv : α → α → α × α × α}
    (hg : GivensOK giv) {inf : α}
    {n m : ℕ} (hm : 0 < m) {s : LMQR α} {A : List (ℕ → α)} (h : Reach fuel giv inf n m s A) :
    QRInv n m s A := by
  induction h with
  | new => exact QRInv.new inf n m hm
  | add v _ hK ih => exact ih.add hs hsn fuel hK v
  | remove _ hK ih => exact ih.remove giv hg hK
  | reset _ ih => exact ih.reset inf
  | scale c _ ih => exact ih.scale c

/-- `Reach` histories described by their **inputs only**: every added column is linearly independent of
    the current window, every rescaling is by a nonzero factor (`remove_column`, `reset` unrestricted). -/
inductive ReachI (fuel : ℕ) (giv : α → α → α × α × α) (inf : α) (n m : ℕ) :
    LMQR α → List (ℕ → α) → Prop
  | new : ReachI fuel giv inf n m (LMQR.new inf n m) []
  | add {s A} (v : ℕ → α) : ReachI fuel giv inf n m s A → s.qIdx < m →
      (¬ ∃ z : ℕ → α, ∀ j < n, v j = ∑ k ∈ range A.length, winFn A k j * z k) →
      ReachI fuel giv inf n m (s.addColumn fuel v) (A ++ [v])
  | remove {s A} : ReachI fuel giv inf n m s A → 0 < s.qIdx →
      ReachI fuel giv inf n m (s.removeColumn giv) A.tail
  | reset {s A} : ReachI fuel giv inf n m s A → ReachI fuel giv inf n m (s.reset inf) []
  | scale {s A} (c : α) : c ≠ 0 → ReachI fuel giv inf n m s A →
      ReachI fuel giv inf n m (s.scaleR c) (A.map fun col j => col j * c)

/-- A `ReachI` history is a `Reach` history in which every `norm_q` is positive; it has orthonormal `Q` and
    nonzero pivots. -/
theorem reachI_reach (hs : SqrtLaw α) (hsn : SqrtNonneg α) {fuel : ℕ} {giv : α → α → α × α × α}
    (hg : GivensOK giv) {inf : α}
    {n m : ℕ} (hm : 0 < m) {s : LMQR α} {A : List (ℕ → α)} (h : ReachI fuel giv inf n m s A) :
    Reach fuel giv inf n m s A ∧ Orth s ∧ PivNZ s := by
  induction h with
  | new => exact ⟨Reach.new, fun a ha => by rw [(new_idx inf n m).1] at ha; omega, new_pivnz inf n m⟩
  | @add s A v _ hK hind ih =>
    obtain ⟨hr, hO, hP⟩ := ih
    have hq := history_qrinv hs hsn hg hm hr
    have hnz : (addCore fuel s v).2.2.1 ≠ 0 := by
      apply addCore_norm_ne_zero hs fuel s hq.ring _ hq.repr hO hP
      rw [hq.hn, hq.len]; exact hind
    have hpos : 0 < (addCore fuel s v).2.2.1 :=
      lt_of_le_of_ne (addCore_norm_nonneg hsn fuel s v) (Ne.symm hnz)
    have hK' : s.qIdx < s.m := by rw [hq.hm]; exact hK
    exact ⟨Reach.add v hr hK, addColumn_orth hs fuel s hq.ring hK' v hpos hO,
      addColumn_pivnz fuel s hq.ring hK' v hnz hP⟩
  | @remove s A _ hK ih =>
    obtain ⟨hr, hO, hP⟩ := ih
    have hq := history_qrinv hs hsn hg hm hr
    exact ⟨Reach.remove hr hK, removeColumn_orth giv hg s hq.ring hK hO,
      removeColumn_pivnz giv hg s hq.ring hK hP⟩
  | reset _ ih => exact ⟨Reach.reset ih.1, reset_orth inf _, reset_pivnz inf _⟩
  | @scale s A c hc _ ih =>
    obtain ⟨hr, hO, hP⟩ := ih
    exact ⟨Reach.scale c hr, scaleR_orth _ c hO,
      scaleR_pivnz s (history_qrinv hs hsn hg hm hr).ring hc hP⟩

/-- **`QᵀQ = I` for every history of linearly independent additions** (exact arithmetic).  [A column in
    the span of the window is stored as a zero column of `Q` — no `n × K` matrix with orthonormal columns
    exists when `K > n` — so independence is exactly the hypothesis under which `Q` can be orthonormal.]
    PARTIAL with respect to the property's "all column values incl. nearly dependent ones": this is
    the real-number statement.  In binary64 the loss of orthogonality of MGS on nearly dependent
    columns, and its repair by the reorthogonalisation loop (`while norm_q < η·norm_v`), is numerical;
    it is not proved, only monitored (`‖QᵀQ − I‖ ≤ 1e-10` on windows with condition number ≤ 1e5).
    Full statement that is *not* proved: for binary64 inputs with cond(A) ≤ κ, the computed `Q`
    satisfies `‖QᵀQ − I‖ ≤ c(n, m)·ε` after any history. -/
theorem history_orthonormal_partial (hs : SqrtLaw α) (hsn : SqrtNonneg α) {fuel : ℕ}
    {giv : α → α → α × α × α} (hg : GivensOK giv) {inf : α} {n m : ℕ} (hm : 0 < m) {s : LMQR α}
    {A : List (ℕ → α)} (h : ReachI fuel giv inf n m s A) : Orth s :=
  (reachI_reach hs hsn hg hm h).2.1

/-- conversely the window of a `ReachI` history is linearly independent -/
theorem history_window_independent (hs : SqrtLaw α) (hsn : SqrtNonneg α) {fuel : ℕ}
    {giv : α → α → α × α × α} (hg : GivensOK giv) {inf : α} {n m : ℕ} (hm : 0 < m) {s : LMQR α} {A : List (ℕ → α)}
    (h : ReachI fuel giv inf n m s A) (z : ℕ → α)
    (hz : ∀ j < n, ∑ k ∈ range A.length, winFn A k j * z k = 0) : ∀ k < A.length, z k = 0 := by
  obtain ⟨hr, hO, hP⟩ := reachI_reach hs hsn hg hm h
  have hq := history_qrinv hs hsn hg hm hr
  have := window_independent s (winFn A) hq.repr hO hP z (by rw [hq.hn, hq.len]; exact hz)
  rw [hq.len] at this
  exact this

/-- **Every history of independent additions, every threshold** (also `tol < 0`): `x = solve_col(b, ·, tol)`
    has `x r = 0` for every pivot not above the threshold ("components with pivots below the threshold set
    to zero"), satisfies row `r` of the normal equations `q_rᵀ(A x − b) = 0` for every other pivot, is the
    only vector doing both, and is a least-squares minimiser of `‖A' z − b‖` over the deflated window
    `A' = A − Σ_{r skipped} q_r·(row r of R)` (`deflated_window_eq`).  No side condition on the pivots: they
    are nonzero on `ReachI` histories, and `solve_col` never divides by a zero pivot when `tol ≥ 0`
    (`solveCol_any_pivots` + `pivot_ne_zero_of_nonneg_tol`).
    The least-squares minimiser of `‖A z − b‖` itself is obtained when no pivot is skipped
    (`history_solve_least_squares_no_truncation`); with skipped pivots `x` is in general NOT the minimiser
    over `{z_r = 0, r skipped}` (`truncated_solve_is_not_the_constrained_minimiser`).
    Histories with dependent columns: `history_solve_least_squares`. -/
theorem history_solve_least_squares_independent_columns (hs : SqrtLaw α) (hsn : SqrtNonneg α) {fuel : ℕ}
    {giv : α → α → α × α × α} (hg : GivensOK giv) {inf : α} {n m : ℕ} (hm : 0 < m) {s : LMQR α}
    {A : List (ℕ → α)} (h : ReachI fuel giv inf n m s A) (b x0 : ℕ → α) (tol : α) :
    (∀ r < A.length, |s.getR r r| ≤ tol → s.solveCol b x0 tol r = 0) ∧
    (∀ r < A.length, ¬ |s.getR r r| ≤ tol →
      ∑ j ∈ range n, s.Q.get j r *
        (∑ k ∈ range A.length, winFn A k j * s.solveCol b x0 tol k - b j) = 0) ∧
    (∀ z : ℕ → α,
      ∑ j ∈ range n, (∑ k ∈ range A.length, deflated s tol k j * s.solveCol b x0 tol k - b j) ^ 2 ≤
      ∑ j ∈ range n, (∑ k ∈ range A.length, deflated s tol k j * z k - b j) ^ 2) ∧
    ∀ z : ℕ → α, (∀ r < A.length, |s.getR r r| ≤ tol → z r = 0) →
      (∀ r < A.length, ¬ |s.getR r r| ≤ tol →
        ∑ j ∈ range n, s.Q.get j r * (∑ k ∈ range A.length, winFn A k j * z k - b j) = 0) →
      ∀ k < A.length, z k = s.solveCol b x0 tol k := by
  obtain ⟨hr, hO, hP⟩ := reachI_reach hs hsn hg hm h
  have hq := history_qrinv hs hsn hg hm hr
  have := solveCol_any_pivots s hq.ring (winFn A) hq.repr hO b x0 tol (fun r hr _ => hP r hr)
  rw [hq.hn, hq.len] at this
  exact this

/-- **Partial orthonormality after EVERY history** (dependent columns, zero rescalings included). -/
theorem history_partial_orthonormal (hs : SqrtLaw α) (hsn : SqrtNonneg α) {fuel : ℕ}
    {giv : α → α → α × α × α} (hg : GivensOK0 giv) {inf : α} {n m : ℕ} (hm : 0 < m) {s : LMQR α}
    {A : List (ℕ → α)} (h : Reach fuel giv inf n m s A) : POrth s := by
  induction h with
  | new => exact (reset_orth inf _).porth
  | @add s A v hr hK ih =>
    have hq := history_qrinv hs hsn hg.1 hm hr
    exact addColumn_porth hs hsn fuel s hq.ring (by rw [hq.hm]; exact hK) v ih
  | @remove s A hr hK ih =>
    exact removeColumn_porth giv hg s (history_qrinv hs hsn hg.1 hm hr).ring hK ih
  | reset _ _ => exact reset_porth inf _
  | @scale s A c hr ih => exact scaleR_porth s (history_qrinv hs hsn hg.1 hm hr).ring c ih

/-- **End to end, EVERY history (dependent columns included) and every threshold `tol ≥ 0`**:
    `x = solve_col(b, ·, tol)` has `x r = 0` for every pivot not above the threshold ("components with
    pivots below the threshold set to zero" — in particular for the zero pivot of a dependent column, also
    when `tol = 0`), satisfies `q_rᵀ(A x − b) = 0` for every other pivot, is the only vector doing both, and
    is a least-squares minimiser of `‖A' z − b‖` over the deflated window
    `A' = A − Σ_{r skipped} q_r·(row r of R)`.  (For `tol < 0` nothing is skipped and nonzero pivots are
    needed: `PivNZ`, true on `ReachI` histories.)
    `A' = A` — so `x` minimises `‖A z − b‖` itself — when every skipped pivot belongs to a zero column of `Q`
    (`history_solve_least_squares_dead`) and in particular when nothing is skipped; in general `x` is NOT
    the minimiser over `{z_r = 0, r skipped}` (`truncated_solve_is_not_the_constrained_minimiser`; after a
    dependent column followed by `remove_column` this can happen with an exactly zero pivot). -/
theorem history_solve_least_squares (hs : SqrtLaw α) (hsn : SqrtNonneg α) {fuel : ℕ}
    {giv : α → α → α × α × α} (hg : GivensOK0 giv) {inf : α} {n m : ℕ} (hm : 0 < m) {s : LMQR α}
    {A : List (ℕ → α)} (h : Reach fuel giv inf n m s A) (b x0 : ℕ → α) (tol : α)
    (hpz : 0 ≤ tol ∨ PivNZ s) :
    (∀ r < A.length, |s.getR r r| ≤ tol → s.solveCol b x0 tol r = 0) ∧
    (∀ r < A.length, ¬ |s.getR r r| ≤ tol →
      ∑ j ∈ range n, s.Q.get j r *
        (∑ k ∈ range A.length, winFn A k j * s.solveCol b x0 tol k - b j) = 0) ∧
    (∀ z : ℕ → α,
      ∑ j ∈ range n, (∑ k ∈ range A.length, deflated s tol k j * s.solveCol b x0 tol k - b j) ^ 2 ≤
      ∑ j ∈ range n, (∑ k ∈ range A.length, deflated s tol k j * z k - b j) ^ 2) ∧
    ∀ z : ℕ → α, (∀ r < A.length, |s.getR r r| ≤ tol → z r = 0) →
      (∀ r < A.length, ¬ |s.getR r r| ≤ tol →
        ∑ j ∈ range n, s.Q.get j r * (∑ k ∈ range A.length, winFn A k j * z k - b j) = 0) →
      ∀ k < A.length, z k = s.solveCol b x0 tol k := by
  have hq := history_qrinv hs hsn hg.1 hm h
  have hO := history_partial_orthonormal hs hsn hg hm h
  have hnz : ∀ r < s.qIdx, ¬ |s.getR r r| ≤ tol → s.getR r r ≠ 0 := by
    intro r hr ht
    rcases hpz with hpos | hP
    · exact pivot_ne_zero_of_nonneg_tol hpos ht
    · exact hP r hr
  obtain ⟨t1, t2, t3⟩ := solveCol_truncated_p s hq.ring (winFn A) hq.repr hO b x0 tol hnz
  have t4 := solveCol_truncated_unique_p s hq.ring (winFn A) hq.repr hO b x0 tol hnz
  rw [hq.hn, hq.len] at t2 t3 t4
  rw [hq.len] at t1
  exact ⟨t1, t2, t3, t4⟩

/-- **Every skipped pivot belongs to a zero column of `Q` ⇒ least-squares minimiser of `‖A z − b‖`**, for
    every history (e.g. a window with dependent columns, `tol = 0`, before a removal mixes the zero column
    into the others). -/
theorem history_solve_least_squares_dead (hs : SqrtLaw α) (hsn : SqrtNonneg α) {fuel : ℕ}
    {giv : α → α → α × α × α} (hg : GivensOK0 giv) {inf : α} {n m : ℕ} (hm : 0 < m) {s : LMQR α}
    {A : List (ℕ → α)} (h : Reach fuel giv inf n m s A) (b x0 : ℕ → α) (tol : α)
    (hpz : 0 ≤ tol ∨ PivNZ s)
    (hp : ∀ r < A.length, |s.getR r r| ≤ tol → ∑ j ∈ range n, s.Q.get j r * s.Q.get j r = 0) :
    ∀ z : ℕ → α,
      ∑ j ∈ range n, (∑ k ∈ range A.length, winFn A k j * s.solveCol b x0 tol k - b j) ^ 2 ≤
      ∑ j ∈ range n, (∑ k ∈ range A.length, winFn A k j * z k - b j) ^ 2 := by
  have hq := history_qrinv hs hsn hg.1 hm h
  obtain ⟨_, _, t3, _⟩ := history_solve_least_squares hs hsn hg hm h b x0 tol hpz
  have hdef : ∀ k < A.length, ∀ j < n, deflated s tol k j = winFn A k j := by
    intro k hk j hj
    exact deflated_eq_of_dead s tol (winFn A) hq.repr
      (by rw [hq.len, hq.hn]; exact hp) (by rw [hq.len]; exact hk) (by rw [hq.hn]; exact hj)
  have hsum : ∀ y : ℕ → α,
      ∑ j ∈ range n, (∑ k ∈ range A.length, deflated s tol k j * y k - b j) ^ 2 =
      ∑ j ∈ range n, (∑ k ∈ range A.length, winFn A k j * y k - b j) ^ 2 := by
    intro y
    apply Finset.sum_congr rfl; intro j hj; rw [Finset.mem_range] at hj
    congr 2
    apply Finset.sum_congr rfl; intro k hk; rw [Finset.mem_range] at hk
    rw [hdef k hk j hj]
  intro z
  rw [← hsum, ← hsum]; exact t3 z

/-- **No pivot skipped ⇒ the least-squares minimiser of `‖A z − b‖`, and the only one.**
    (Independent columns; then `A' = A`.) -/
theorem history_solve_least_squares_no_truncation (hs : SqrtLaw α) (hsn : SqrtNonneg α) {fuel : ℕ}
    {giv : α → α → α × α × α} (hg : GivensOK giv) {inf : α} {n m : ℕ} (hm : 0 < m) {s : LMQR α}
    {A : List (ℕ → α)} (h : ReachI fuel giv inf n m s A) (b x0 : ℕ → α) (tol : α)
    (hp : ∀ r < A.length, ¬ |s.getR r r| ≤ tol) :
    (∀ z : ℕ → α,
      ∑ j ∈ range n, (∑ k ∈ range A.length, winFn A k j * s.solveCol b x0 tol k - b j) ^ 2 ≤
      ∑ j ∈ range n, (∑ k ∈ range A.length, winFn A k j * z k - b j) ^ 2) ∧
    ∀ z : ℕ → α,
      ∑ j ∈ range n, (∑ k ∈ range A.length, winFn A k j * z k - b j) ^ 2 ≤
        ∑ j ∈ range n, (∑ k ∈ range A.length, winFn A k j * s.solveCol b x0 tol k - b j) ^ 2 →
      ∀ k < A.length, z k = s.solveCol b x0 tol k := by
  obtain ⟨hr, hO, hP⟩ := reachI_reach hs hsn hg hm h
  have hq := history_qrinv hs hsn hg hm hr
  obtain ⟨_, _, t3, _⟩ := history_solve_least_squares_independent_columns hs hsn hg hm h b x0 tol
  have hdef : ∀ k < A.length, ∀ j < n, deflated s tol k j = winFn A k j := by
    intro k hk j hj
    exact deflated_eq_of_no_trunc s tol (winFn A) hq.repr (by rw [hq.len]; exact hp)
      (by rw [hq.len]; exact hk) (by rw [hq.hn]; exact hj)
  have hsum : ∀ y : ℕ → α,
      ∑ j ∈ range n, (∑ k ∈ range A.length, deflated s tol k j * y k - b j) ^ 2 =
      ∑ j ∈ range n, (∑ k ∈ range A.length, winFn A k j * y k - b j) ^ 2 := by
    intro y
    apply Finset.sum_congr rfl; intro j hj; rw [Finset.mem_range] at hj
    congr 2
    apply Finset.sum_congr rfl; intro k hk; rw [Finset.mem_range] at hk
    rw [hdef k hk j hj]
  have hp' : ∀ r < s.qIdx, ¬ |s.getR r r| ≤ tol ∧ s.getR r r ≠ 0 :=
    fun r hr => ⟨hp r (by rw [← hq.len]; exact hr), hP r hr⟩
  refine ⟨fun z => by rw [← hsum, ← hsum]; exact t3 z, fun z hz => ?_⟩
  have := solveCol_ls_unique s hq.ring (winFn A) hq.repr hO b x0 tol hp' z
    (by rw [hq.hn, hq.len]; exact hz)
  rw [hq.len] at this
  exact this

/-- **Threshold off (`tol ≤ 0`, e.g. the default `tol = 0` of `solve`)**: after any history of
    independent additions, nonzero rescalings, removals and resets nothing is skipped, and `solve_col`
    returns the unique least-squares minimiser of `‖A z − b‖`. -/
theorem history_solve_least_squares_independent (hs : SqrtLaw α) (hsn : SqrtNonneg α) {fuel : ℕ}
    {giv : α → α → α × α × α} (hg : GivensOK giv) {inf : α} {n m : ℕ} (hm : 0 < m) {s : LMQR α}
    {A : List (ℕ → α)} (h : ReachI fuel giv inf n m s A) (b x0 : ℕ → α) {tol : α} (ht : tol ≤ 0) :
    (∀ z : ℕ → α,
      ∑ j ∈ range n, (∑ k ∈ range A.length, winFn A k j * s.solveCol b x0 tol k - b j) ^ 2 ≤
      ∑ j ∈ range n, (∑ k ∈ range A.length, winFn A k j * z k - b j) ^ 2) ∧
    ∀ z : ℕ → α,
      ∑ j ∈ range n, (∑ k ∈ range A.length, winFn A k j * z k - b j) ^ 2 ≤
        ∑ j ∈ range n, (∑ k ∈ range A.length, winFn A k j * s.solveCol b x0 tol k - b j) ^ 2 →
      ∀ k < A.length, z k = s.solveCol b x0 tol k := by
  obtain ⟨hr, _, hP⟩ := reachI_reach hs hsn hg hm h
  have hq := history_qrinv hs hsn hg hm hr
  exact history_solve_least_squares_no_truncation hs hsn hg hm h b x0 tol
    (fun r hr hle => absurd (lt_of_lt_of_le (abs_pos.mpr (hP r (by rw [hq.len]; exact hr)))
      (le_trans hle ht)) (lt_irrefl _))

/-- **`get_min_eig()` / `get_max_eig()` after EVERY history** are the smallest / largest diagonal entry of the
    current `get_R()` (`diagMin` / `diagMax`: folds of `min` / `max` over the pivots of the current window,
    started at `±inf<config_t>`; `eig_bounds_are_extreme_pivots`): `add_column` updates them incrementally,
    `remove_column` and `scale_R` recompute them (`update_eig_bounds`), `reset` restores `(+inf, −inf)`. -/
theorem history_eig_bounds (hs : SqrtLaw α) (hsn : SqrtNonneg α) {fuel : ℕ} {giv : α → α → α × α × α}
    (hg : GivensOK giv) {inf : α} {n m : ℕ} (hm : 0 < m) {s : LMQR α} {A : List (ℕ → α)}
    (h : Reach fuel giv inf n m s A) :
    s.minEig = diagMin s ∧ s.maxEig = diagMax s ∧ s.infc = inf := by
  have key : EigOK s ∧ s.infc = inf := by
    induction h with
    | new => exact new_eig inf n m
    | @add s A v hr hK ih =>
      have hq := history_qrinv hs hsn hg hm hr
      obtain ⟨e1, e2⟩ := addColumn_eig fuel s hq.ring (by rw [hq.hm]; exact hK) v ih.1
      exact ⟨e1, e2.trans ih.2⟩
    | @remove s A hr hK ih =>
      obtain ⟨e1, e2⟩ := removeColumn_eig giv s (history_qrinv hs hsn hg hm hr).ring hK
      exact ⟨e1, e2.trans ih.2⟩
    | @reset s A _ ih => exact reset_eig inf s ih.2
    | @scale s A c hr ih =>
      obtain ⟨e1, e2⟩ := scaleR_eig s (history_qrinv hs hsn hg hm hr).ring c
      exact ⟨e1, e2.trans ih.2⟩
  exact ⟨key.1.1, key.1.2, key.2⟩

/-- `diagMax` / `diagMin` are the extreme pivots: they bound every pivot and (non-empty window, `−inf` / `+inf`
    below / above the pivots) are attained. -/
theorem eig_bounds_are_extreme_pivots (s : LMQR α) :
    ((∀ k < s.qIdx, s.getR k k ≤ diagMax s) ∧
      (0 < s.qIdx → (∀ k < s.qIdx, -s.infc ≤ s.getR k k) → ∃ k < s.qIdx, diagMax s = s.getR k k)) ∧
    ((∀ k < s.qIdx, diagMin s ≤ s.getR k k) ∧
      (0 < s.qIdx → (∀ k < s.qIdx, s.getR k k ≤ s.infc) → ∃ k < s.qIdx, diagMin s = s.getR k k)) :=
  ⟨diagMax_spec s, diagMin_spec s⟩

/-! ### 4. Anderson acceleration -/

/-- `m_AA = min(n, memory)` (anderson.hpp `resize`), and that is the capacity of the QR and of `G`. -/
theorem anderson_memory (inf : α) (memory : ℕ) (mdf : α) (n : ℕ) :
    aaMem n memory = min n memory ∧ (AA.new inf memory mdf n).qr.m = min n memory ∧
    (AA.new inf memory mdf n).qr.n = n :=
  ⟨rfl, (AA.new_sizes inf memory mdf n).2.2, (AA.new_sizes inf memory mdf n).2.1⟩

/-- `Σ αᵢ = 1`: the coefficients `α₀ = γ₀`, `αᵢ = γᵢ − γᵢ₋₁`, `α_K = 1 − γ_{K−1}` exactly as computed in
    anderson-helpers.hpp (regenerated) telescope. -/
theorem anderson_coeff_sum_one (gam : ℕ → α) (K : ℕ) (hK : 0 < K) :
    ∑ i ∈ range (K + 1), aaCoef gam K i = 1 := aaCoef_sum gam K hK

/-- `anderson_affine` at storage level: `xₖ_aa = Σ_{i<K} αᵢ G(:, slot i) + α_K gₖ`, `Σ αᵢ = 1`. -/
theorem anderson_affine (fuel : ℕ) (giv : α → α → α × α × α) (a : AA α) (gk rk : ℕ → α)
    (hR : RingInv (a.qrNext fuel giv rk)) (hK : 0 < (a.qrNext fuel giv rk).qIdx) :
    (∑ i ∈ range ((a.qrNext fuel giv rk).qIdx + 1),
        aaCoef (readV (a.computeCore fuel giv gk rk).1.gamLS) (a.qrNext fuel giv rk).qIdx i = 1) ∧
    ∀ j < a.n, readV (a.computeCore fuel giv gk rk).2 j =
      ∑ i ∈ range (a.qrNext fuel giv rk).qIdx,
          aaCoef (readV (a.computeCore fuel giv gk rk).1.gamLS) (a.qrNext fuel giv rk).qIdx i *
            a.G.get j ((a.qrNext fuel giv rk).slot i) +
        aaCoef (readV (a.computeCore fuel giv gk rk).1.gamLS) (a.qrNext fuel giv rk).qIdx
            (a.qrNext fuel giv rk).qIdx * gk j :=
  computeCore_affine fuel giv a gk rk hR hK

/-- States of `AndersonAccel(params, n)` reachable by `initialize`, `compute` (ANY data), `reset`,
    `scale_R`, with the abstract history: `W` = residual differences in the window (oldest first), `gs` =
    the function values that go with them (one more than `W`; the last is the newest), `rl` = last
    residual. -/
inductive AReach (fuel : ℕ) (giv : α → α → α × α × α) (inf : α) (memory : ℕ) (mdf : α) (n : ℕ) :
    AA α → List (ℕ → α) → List (ℕ → α) → (ℕ → α) → Prop
  | init (g0 r0 : ℕ → α) :
      AReach fuel giv inf memory mdf n ((AA.new inf memory mdf n).initialize inf g0 r0) [] [g0] r0
  | reinit {a W gs rl} (g0 r0 : ℕ → α) : AReach fuel giv inf memory mdf n a W gs rl →
      AReach fuel giv inf memory mdf n (a.initialize inf g0 r0) [] [g0] r0
  | compute {a W gs rl} (g r : ℕ → α) : AReach fuel giv inf memory mdf n a W gs rl →
      AReach fuel giv inf memory mdf n (a.computeCore fuel giv g r).1
        (aaNextW (min n memory) W rl r) (aaNextG (min n memory) W gs g) r
  | reset {a W gs rl} : AReach fuel giv inf memory mdf n a W gs rl →
      AReach fuel giv inf memory mdf n (a.reset inf) [] [winFn gs W.length] rl
  | scale {a W gs rl} (c : α) : AReach fuel giv inf memory mdf n a W gs rl →
      AReach fuel giv inf memory mdf n (a.scaleR c) (W.map fun col j => col j * c) gs rl

/-- **Every Anderson history**: the QR inside represents the window of residual differences with a
    valid ring, and the `G` ring stays aligned with the `R` ring (the `G.col(ring_tail) = gₖ` store and
    the copy in `reset`). -/
theorem anderson_history (hs : SqrtLaw α) (hsn : SqrtNonneg α) {fuel : ℕ} {giv : α → α → α × α × α}
    (hg : GivensOK giv) {inf : α}
    {memory : ℕ} {mdf : α} {n : ℕ} (hm : 0 < min n memory) {a : AA α} {W gs : List (ℕ → α)}
    {rl : ℕ → α} (h : AReach fuel giv inf memory mdf n a W gs rl) :
    AAInv n (min n memory) a W gs rl := by
  induction h with
  | init g0 r0 =>
    obtain ⟨e1, e2, e3⟩ := AA.new_sizes inf memory mdf n
    exact AAInv.initialize inf hm _ e1 e2 e3 g0 r0
  | reinit g0 r0 _ ih => exact AAInv.initialize inf hm _ ih.an ih.qr.hn ih.qr.hm g0 r0
  | compute g r _ ih => exact ih.compute hs hsn fuel giv hg g r
  | reset _ ih => exact ih.reset inf
  | scale c _ ih => exact ih.scale c

/-- the number of residual differences used is `min(k, memory, n)`: each `compute` lengthens the
    window by one up to the capacity `min(n, memory)` -/
theorem anderson_window_length (hs : SqrtLaw α) (hsn : SqrtNonneg α) {fuel : ℕ}
    {giv : α → α → α × α × α} (hg : GivensOK giv) {inf : α}
    {memory : ℕ} {mdf : α} {n : ℕ} (hm : 0 < min n memory) {a : AA α} {W gs : List (ℕ → α)}
    {rl : ℕ → α} (h : AReach fuel giv inf memory mdf n a W gs rl) (r : ℕ → α) :
    W.length ≤ min n memory ∧
    (aaNextW (min n memory) W rl r).length = min (W.length + 1) (min n memory) := by
  have hi := anderson_history hs hsn hg hm h
  have hcap : W.length ≤ min n memory := by rw [← hi.qr.len, ← hi.qr.hm]; exact hi.qr.ring.cap
  exact ⟨hcap, aaNextW_length _ hm W hcap rl r⟩

/-- **Output of `compute` after ANY history and for ANY data** = `Σᵢ αᵢ gᵢ` over the last `K' + 1` function
    values (`K'` = new window length), with `Σ αᵢ = 1`. -/
theorem anderson_output_affine (hs : SqrtLaw α) (hsn : SqrtNonneg α) {fuel : ℕ}
    {giv : α → α → α × α × α} (hg : GivensOK giv) {inf : α}
    {memory : ℕ} {mdf : α} {n : ℕ} (hm : 0 < min n memory) {a : AA α} {W gs : List (ℕ → α)}
    {rl : ℕ → α} (h : AReach fuel giv inf memory mdf n a W gs rl) (g r : ℕ → α) :
    (∑ i ∈ range ((aaNextW (min n memory) W rl r).length + 1),
        aaCoef (readV (a.computeCore fuel giv g r).1.gamLS) (aaNextW (min n memory) W rl r).length i
      = 1) ∧
    ∀ j < n, readV (a.computeCore fuel giv g r).2 j =
      ∑ i ∈ range ((aaNextW (min n memory) W rl r).length + 1),
        aaCoef (readV (a.computeCore fuel giv g r).1.gamLS) (aaNextW (min n memory) W rl r).length i *
          winFn (aaNextG (min n memory) W gs g) i j :=
  (anderson_history hs hsn hg hm h).compute_output hs hsn fuel giv hg g r

/-- `AReach` histories in which every `compute(g, r)` brings a residual difference `r − r_last` that is
    linearly independent of the residual differences staying in the window, and every rescaling is by a
    nonzero factor. -/
inductive AReachI (fuel : ℕ) (giv : α → α → α × α × α) (inf : α) (memory : ℕ) (mdf : α) (n : ℕ) :
    AA α → List (ℕ → α) → List (ℕ → α) → (ℕ → α) → Prop
  | init (g0 r0 : ℕ → α) :
      AReachI fuel giv inf memory mdf n ((AA.new inf memory mdf n).initialize inf g0 r0) [] [g0] r0
  | reinit {a W gs rl} (g0 r0 : ℕ → α) : AReachI fuel giv inf memory mdf n a W gs rl →
      AReachI fuel giv inf memory mdf n (a.initialize inf g0 r0) [] [g0] r0
  | compute {a W gs rl} (g r : ℕ → α) : AReachI fuel giv inf memory mdf n a W gs rl →
      (¬ ∃ z : ℕ → α, ∀ j < n, r j - rl j =
        ∑ k ∈ range (if W.length = min n memory then W.tail else W).length,
          winFn (if W.length = min n memory then W.tail else W) k j * z k) →
      AReachI fuel giv inf memory mdf n (a.computeCore fuel giv g r).1
        (aaNextW (min n memory) W rl r) (aaNextG (min n memory) W gs g) r
  | reset {a W gs rl} : AReachI fuel giv inf memory mdf n a W gs rl →
      AReachI fuel giv inf memory mdf n (a.reset inf) [] [winFn gs W.length] rl
  | scale {a W gs rl} (c : α) : c ≠ 0 → AReachI fuel giv inf memory mdf n a W gs rl →
      AReachI fuel giv inf memory mdf n (a.scaleR c) (W.map fun col j => col j * c) gs rl

/-- the `norm_q` of the next `compute` is positive when its residual difference is independent -/
theorem anderson_norm_pos (hs : SqrtLaw α) (hsn : SqrtNonneg α) {fuel : ℕ} {giv : α → α → α × α × α}
    (hg : GivensOK giv) {n mAA : ℕ} {a : AA α} {W gs : List (ℕ → α)} {rl : ℕ → α}
    (hi : AAInv n mAA a W gs rl) (hO : Orth a.qr) (hP : PivNZ a.qr) (r : ℕ → α)
    (hind : ¬ ∃ z : ℕ → α, ∀ j < n, r j - rl j =
      ∑ k ∈ range (if W.length = mAA then W.tail else W).length,
        winFn (if W.length = mAA then W.tail else W) k j * z k) :
    0 < (addCore fuel (a.qr1 giv) (fun j => r j - readV a.rLast j)).2.2.1 :=
  lt_of_le_of_ne (addCore_norm_nonneg hsn fuel _ _)
    (Ne.symm (hi.compute_hnz hs fuel giv hg r hO hP hind))

/-- An `AReachI` history is an `AReach` history with orthonormal `Q` and nonzero pivots. -/
theorem areachI_areach (hs : SqrtLaw α) (hsn : SqrtNonneg α) {fuel : ℕ} {giv : α → α → α × α × α}
    (hg : GivensOK giv)
    {inf : α} {memory : ℕ} {mdf : α} {n : ℕ} (hm : 0 < min n memory) {a : AA α} {W gs : List (ℕ → α)}
    {rl : ℕ → α} (h : AReachI fuel giv inf memory mdf n a W gs rl) :
    AReach fuel giv inf memory mdf n a W gs rl ∧ Orth a.qr ∧ PivNZ a.qr := by
  induction h with
  | init g0 r0 => exact ⟨AReach.init g0 r0, reset_orth inf _, reset_pivnz inf _⟩
  | reinit g0 r0 _ ih => exact ⟨AReach.reinit g0 r0 ih.1, reset_orth inf _, reset_pivnz inf _⟩
  | @compute a W gs rl g r _ hind ih =>
    obtain ⟨hr, hO, hP⟩ := ih
    have hi := anderson_history hs hsn hg hm hr
    have hpos := anderson_norm_pos hs hsn (fuel := fuel) hg hi hO hP r hind
    exact ⟨AReach.compute g r hr, hi.compute_orth hs fuel giv hg g r hpos hO,
      hi.compute_pivnz fuel giv hg g r (ne_of_gt hpos) hP⟩
  | reset _ ih => exact ⟨AReach.reset ih.1, reset_orth inf _, reset_pivnz inf _⟩
  | @scale a W gs rl c hc _ ih =>
    obtain ⟨hr, hO, hP⟩ := ih
    exact ⟨AReach.scale c hr, scaleR_orth _ c hO,
      scaleR_pivnz a.qr (anderson_history hs hsn hg hm hr).qr.ring hc hP⟩

/-- orthonormality of the `Q` inside the accelerator after any history of independent residual
    differences (exact arithmetic) -/
theorem anderson_orthonormal (hs : SqrtLaw α) (hsn : SqrtNonneg α) {fuel : ℕ}
    {giv : α → α → α × α × α} (hg : GivensOK giv)
    {inf : α} {memory : ℕ} {mdf : α} {n : ℕ} (hm : 0 < min n memory) {a : AA α}
    {W gs : List (ℕ → α)} {rl : ℕ → α} (h : AReachI fuel giv inf memory mdf n a W gs rl) : Orth a.qr :=
  (areachI_areach hs hsn hg hm h).2.1

/-- partial orthonormality of the `Q` inside the accelerator after EVERY history (repeated residuals,
    dependent residual differences, zero rescalings included) -/
theorem anderson_partial_orthonormal (hs : SqrtLaw α) (hsn : SqrtNonneg α) {fuel : ℕ}
    {giv : α → α → α × α × α} (hg : GivensOK0 giv)
    {inf : α} {memory : ℕ} {mdf : α} {n : ℕ} (hm : 0 < min n memory) {a : AA α}
    {W gs : List (ℕ → α)} {rl : ℕ → α} (h : AReach fuel giv inf memory mdf n a W gs rl) : POrth a.qr := by
  induction h with
  | init g0 r0 => exact reset_porth inf _
  | reinit g0 r0 _ _ => exact reset_porth inf _
  | compute g r hr ih =>
    exact (anderson_history hs hsn hg.1 hm hr).compute_porth hs hsn fuel giv hg g r ih
  | reset _ _ => exact reset_porth inf _
  | @scale a W gs rl c hr ih =>
    exact scaleR_porth a.qr (anderson_history hs hsn hg.1 hm hr).qr.ring c ih

/-- **γ_LS after EVERY Anderson history, for ANY data** (`r = r_last` and dependent residual differences
    included): with the threshold `tol = max_eig · min_div_fac ≥ 0` (or nonzero pivots), the components of
    γ_LS whose pivot is not above `tol` are 0 — in particular those of dependent residual differences —,
    for every other pivot `k` the residual `ΔR γ − rₖ` is orthogonal to `q_k`, and γ_LS is a least-squares
    minimiser of `‖ΔR' γ − rₖ‖` over the deflated window `ΔR'` of the last `min(k, memory, n)` residual
    differences (see `history_solve_least_squares`). -/
theorem anderson_gamma_least_squares (hs : SqrtLaw α) (hsn : SqrtNonneg α) {fuel : ℕ}
    {giv : α → α → α × α × α}
    (hg : GivensOK0 giv) {inf : α} {memory : ℕ} {mdf : α} {n : ℕ} (hm : 0 < min n memory) {a : AA α}
    {W gs : List (ℕ → α)} {rl : ℕ → α} (h : AReach fuel giv inf memory mdf n a W gs rl) (g r : ℕ → α)
    (hpz : 0 ≤ aaTol (a.qrNext fuel giv r).maxEig a.minDivFac ∨ PivNZ (a.qrNext fuel giv r)) :
    (∀ k < (aaNextW (min n memory) W rl r).length,
      |(a.qrNext fuel giv r).getR k k| ≤ aaTol (a.qrNext fuel giv r).maxEig a.minDivFac →
        readV (a.computeCore fuel giv g r).1.gamLS k = 0) ∧
    (∀ k < (aaNextW (min n memory) W rl r).length,
      ¬ |(a.qrNext fuel giv r).getR k k| ≤ aaTol (a.qrNext fuel giv r).maxEig a.minDivFac →
        ∑ j ∈ range n, (a.qrNext fuel giv r).Q.get j k *
          (∑ i ∈ range (aaNextW (min n memory) W rl r).length,
            winFn (aaNextW (min n memory) W rl r) i j * readV (a.computeCore fuel giv g r).1.gamLS i
              - r j) = 0) ∧
    ∀ z : ℕ → α,
      ∑ j ∈ range n, (∑ k ∈ range (aaNextW (min n memory) W rl r).length,
          deflated (a.qrNext fuel giv r) (aaTol (a.qrNext fuel giv r).maxEig a.minDivFac) k j *
            readV (a.computeCore fuel giv g r).1.gamLS k - r j) ^ 2 ≤
      ∑ j ∈ range n, (∑ k ∈ range (aaNextW (min n memory) W rl r).length,
          deflated (a.qrNext fuel giv r) (aaTol (a.qrNext fuel giv r).maxEig a.minDivFac) k j * z k
            - r j) ^ 2 := by
  have hi := anderson_history hs hsn hg.1 hm h
  have hlen : (a.qrNext fuel giv r).qIdx = (aaNextW (min n memory) W rl r).length :=
    (hi.compute hs hsn fuel giv hg.1 g r).qr.len
  apply hi.compute_trunc_p hs hsn fuel giv hg g r (anderson_partial_orthonormal hs hsn hg hm h)
  intro k hk ht
  rcases hpz with hpos | hP
  · exact pivot_ne_zero_of_nonneg_tol hpos ht
  · exact hP k (by rw [hlen]; exact hk)

/-- the bounds inside the accelerator, after EVERY Anderson history -/
theorem anderson_eig_bounds (hs : SqrtLaw α) (hsn : SqrtNonneg α) {fuel : ℕ} {giv : α → α → α × α × α}
    (hg : GivensOK giv) {inf : α} {memory : ℕ} {mdf : α} {n : ℕ} (hm : 0 < min n memory) {a : AA α}
    {W gs : List (ℕ → α)} {rl : ℕ → α} (h : AReach fuel giv inf memory mdf n a W gs rl) :
    EigOK a.qr ∧ a.qr.infc = inf := by
  induction h with
  | init g0 r0 => exact reset_eig inf _ (new_eig inf _ _).2
  | @reinit a W gs rl g0 r0 _ ih => exact reset_eig inf _ ih.2
  | @compute a W gs rl g r hr ih =>
    have hi := anderson_history hs hsn hg hm hr
    have h1 : EigOK (a.qr1 giv) ∧ (a.qr1 giv).infc = inf := by
      unfold AA.qr1
      split_ifs with hf
      · have hfull : W.length = min n memory := by
          simpa [aaFull, lmqrNumColumns, hi.qr.len, hi.qr.hm] using hf
        obtain ⟨e1, e2⟩ := removeColumn_eig giv a.qr hi.qr.ring (by rw [hi.qr.len, hfull]; exact hm)
        exact ⟨e1, e2.trans ih.2⟩
      · exact ih
    obtain ⟨e1, e2⟩ := addColumn_eig fuel (a.qr1 giv) (aa_qr1 giv hg hi).ring (aa_qr1_lt giv hg hi)
      (fun j => r j - readV a.rLast j) h1.1
    exact ⟨e1, e2.trans h1.2⟩
  | @reset a W gs rl _ ih => exact reset_eig inf _ ih.2
  | @scale a W gs rl c hr ih =>
    obtain ⟨e1, e2⟩ := scaleR_eig a.qr (anderson_history hs hsn hg hm hr).qr.ring c
    exact ⟨e1, e2.trans ih.2⟩

/-- **Anderson's pivot threshold is `min_div_fac ×` the largest pivot of the window it solves over** — the
    documented "minimum divisor …, scaled by the maximum eigenvalue of R" for the CURRENT `R`, after every
    history (no stale bound from columns that left the window). -/
theorem anderson_threshold_current (hs : SqrtLaw α) (hsn : SqrtNonneg α) {fuel : ℕ}
    {giv : α → α → α × α × α} (hg : GivensOK giv) {inf : α} {memory : ℕ} {mdf : α} {n : ℕ}
    (hm : 0 < min n memory) {a : AA α} {W gs : List (ℕ → α)} {rl : ℕ → α}
    (h : AReach fuel giv inf memory mdf n a W gs rl) (g r : ℕ → α) :
    aaTol (a.qrNext fuel giv r).maxEig a.minDivFac = diagMax (a.qrNext fuel giv r) * a.minDivFac :=
  by
    have := (anderson_eig_bounds hs hsn hg hm (AReach.compute g r h)).1.2
    show aaTol (a.computeCore fuel giv g r).1.qr.maxEig a.minDivFac = _
    rw [this]; rfl

/-- `min_div_fac` is never changed -/
theorem anderson_min_div_fac {fuel : ℕ} {giv : α → α → α × α × α} {inf : α} {memory : ℕ} {mdf : α}
    {n : ℕ} {a : AA α} {W gs : List (ℕ → α)} {rl : ℕ → α}
    (h : AReach fuel giv inf memory mdf n a W gs rl) : a.minDivFac = mdf := by
  induction h with
  | init g0 r0 => rfl
  | reinit g0 r0 _ ih => exact ih
  | compute g r _ ih => exact ih
  | reset _ ih => exact ih
  | scale c _ ih => exact ih

/-- **Anderson's pivot threshold is never negative**: `compute` calls `add_column` right before `solve_col`,
    so `max_eig ≥` the new pivot `norm_q ≥ 0`, whatever `scale_R` did to `max_eig` before; hence
    `max_eig · min_div_fac ≥ 0` for `min_div_fac ≥ 0`, and `solve_col` skips every exactly zero pivot. -/
theorem anderson_threshold_nonneg (hsn : SqrtNonneg α) (fuel : ℕ) (giv : α → α → α × α × α) (a : AA α)
    (r : ℕ → α) (hmdf : 0 ≤ a.minDivFac) :
    0 ≤ aaTol (a.qrNext fuel giv r).maxEig a.minDivFac := by
  unfold aaTol
  apply mul_nonneg _ hmdf
  have : (a.qrNext fuel giv r).maxEig =
      max (a.qr1 giv).maxEig (addCore fuel (a.qr1 giv) (fun j => r j - readV a.rLast j)).2.2.1 := by
    rw [AA.qrNext_eq]
    simp [LMQR.addColumn, lmqrAddEig, lmqrAddIdx]
  rw [this]
  exact le_trans (addCore_norm_nonneg hsn fuel _ _) (le_max_right _ _)

/-- **γ_LS after EVERY Anderson history for ANY data, `min_div_fac ≥ 0`** — `anderson_gamma_least_squares`
    with its side condition discharged by `anderson_threshold_nonneg`. -/
theorem anderson_gamma_least_squares_every (hs : SqrtLaw α) (hsn : SqrtNonneg α) {fuel : ℕ}
    {giv : α → α → α × α × α}
    (hg : GivensOK0 giv) {inf : α} {memory : ℕ} {mdf : α} (hmdf : 0 ≤ mdf) {n : ℕ}
    (hm : 0 < min n memory) {a : AA α}
    {W gs : List (ℕ → α)} {rl : ℕ → α} (h : AReach fuel giv inf memory mdf n a W gs rl) (g r : ℕ → α) :
    (∀ k < (aaNextW (min n memory) W rl r).length,
      |(a.qrNext fuel giv r).getR k k| ≤ aaTol (a.qrNext fuel giv r).maxEig a.minDivFac →
        readV (a.computeCore fuel giv g r).1.gamLS k = 0) ∧
    (∀ k < (aaNextW (min n memory) W rl r).length,
      ¬ |(a.qrNext fuel giv r).getR k k| ≤ aaTol (a.qrNext fuel giv r).maxEig a.minDivFac →
        ∑ j ∈ range n, (a.qrNext fuel giv r).Q.get j k *
          (∑ i ∈ range (aaNextW (min n memory) W rl r).length,
            winFn (aaNextW (min n memory) W rl r) i j * readV (a.computeCore fuel giv g r).1.gamLS i
              - r j) = 0) ∧
    ∀ z : ℕ → α,
      ∑ j ∈ range n, (∑ k ∈ range (aaNextW (min n memory) W rl r).length,
          deflated (a.qrNext fuel giv r) (aaTol (a.qrNext fuel giv r).maxEig a.minDivFac) k j *
            readV (a.computeCore fuel giv g r).1.gamLS k - r j) ^ 2 ≤
      ∑ j ∈ range n, (∑ k ∈ range (aaNextW (min n memory) W rl r).length,
          deflated (a.qrNext fuel giv r) (aaTol (a.qrNext fuel giv r).maxEig a.minDivFac) k j * z k
            - r j) ^ 2 :=
  anderson_gamma_least_squares hs hsn hg hm h g r
    (Or.inl (anderson_threshold_nonneg hsn fuel giv a r (by rw [anderson_min_div_fac h]; exact hmdf)))

/-- **γ_LS after any Anderson history of independent residual differences, any pivots**: the threshold is
    `tol = max_eig · min_div_fac`.  Components of γ_LS whose pivot is not above it are 0; for every other
    pivot `k` the residual `ΔR γ − rₖ` is orthogonal to `q_k`; γ_LS is a least-squares minimiser of
    `‖ΔR' γ − rₖ‖` over the deflated window `ΔR'` of the last `min(k, memory, n)` residual differences (see
    `history_solve_least_squares`).  No side condition on the pivots. -/
theorem anderson_gamma_least_squares_independent (hs : SqrtLaw α) (hsn : SqrtNonneg α) {fuel : ℕ}
    {giv : α → α → α × α × α}
    (hg : GivensOK giv) {inf : α} {memory : ℕ} {mdf : α} {n : ℕ} (hm : 0 < min n memory) {a : AA α}
    {W gs : List (ℕ → α)} {rl : ℕ → α} (h : AReachI fuel giv inf memory mdf n a W gs rl) (g r : ℕ → α)
    (hind : ¬ ∃ z : ℕ → α, ∀ j < n, r j - rl j =
      ∑ k ∈ range (if W.length = min n memory then W.tail else W).length,
        winFn (if W.length = min n memory then W.tail else W) k j * z k) :
    (∀ k < (aaNextW (min n memory) W rl r).length,
      |(a.qrNext fuel giv r).getR k k| ≤ aaTol (a.qrNext fuel giv r).maxEig a.minDivFac →
        readV (a.computeCore fuel giv g r).1.gamLS k = 0) ∧
    (∀ k < (aaNextW (min n memory) W rl r).length,
      ¬ |(a.qrNext fuel giv r).getR k k| ≤ aaTol (a.qrNext fuel giv r).maxEig a.minDivFac →
        ∑ j ∈ range n, (a.qrNext fuel giv r).Q.get j k *
          (∑ i ∈ range (aaNextW (min n memory) W rl r).length,
            winFn (aaNextW (min n memory) W rl r) i j * readV (a.computeCore fuel giv g r).1.gamLS i
              - r j) = 0) ∧
    ∀ z : ℕ → α,
      ∑ j ∈ range n, (∑ k ∈ range (aaNextW (min n memory) W rl r).length,
          deflated (a.qrNext fuel giv r) (aaTol (a.qrNext fuel giv r).maxEig a.minDivFac) k j *
            readV (a.computeCore fuel giv g r).1.gamLS k - r j) ^ 2 ≤
      ∑ j ∈ range n, (∑ k ∈ range (aaNextW (min n memory) W rl r).length,
          deflated (a.qrNext fuel giv r) (aaTol (a.qrNext fuel giv r).maxEig a.minDivFac) k j * z k
            - r j) ^ 2 := by
  obtain ⟨hr, hO, hP⟩ := areachI_areach hs hsn hg hm h
  have hi := anderson_history hs hsn hg hm hr
  have hpos := anderson_norm_pos hs hsn (fuel := fuel) hg hi hO hP r hind
  have hP' : PivNZ (a.qrNext fuel giv r) := hi.compute_pivnz fuel giv hg g r (ne_of_gt hpos) hP
  have hlen : (a.qrNext fuel giv r).qIdx = (aaNextW (min n memory) W rl r).length :=
    (hi.compute hs hsn fuel giv hg g r).qr.len
  apply hi.compute_trunc hs hsn fuel giv hg g r hpos hO
  intro k hk _
  exact hP' k (by rw [hlen]; exact hk)

/-- **No pivot skipped ⇒ γ_LS minimises `‖ΔR γ − rₖ‖²`** over the last `min(k, memory, n)` residual
    differences. -/
theorem anderson_gamma_least_squares_no_truncation (hs : SqrtLaw α) (hsn : SqrtNonneg α) {fuel : ℕ}
    {giv : α → α → α × α × α} (hg : GivensOK giv) {inf : α} {memory : ℕ} {mdf : α} {n : ℕ}
    (hm : 0 < min n memory) {a : AA α} {W gs : List (ℕ → α)} {rl : ℕ → α}
    (h : AReachI fuel giv inf memory mdf n a W gs rl) (g r : ℕ → α)
    (hind : ¬ ∃ z : ℕ → α, ∀ j < n, r j - rl j =
      ∑ k ∈ range (if W.length = min n memory then W.tail else W).length,
        winFn (if W.length = min n memory then W.tail else W) k j * z k)
    (hp : ∀ k < (aaNextW (min n memory) W rl r).length,
      ¬ |(a.qrNext fuel giv r).getR k k| ≤ aaTol (a.qrNext fuel giv r).maxEig a.minDivFac) :
    ∀ z : ℕ → α,
      ∑ j ∈ range n, (∑ k ∈ range (aaNextW (min n memory) W rl r).length,
          winFn (aaNextW (min n memory) W rl r) k j * readV (a.computeCore fuel giv g r).1.gamLS k
            - r j) ^ 2 ≤
      ∑ j ∈ range n, (∑ k ∈ range (aaNextW (min n memory) W rl r).length,
          winFn (aaNextW (min n memory) W rl r) k j * z k - r j) ^ 2 := by
  obtain ⟨hr, hO, hP⟩ := areachI_areach hs hsn hg hm h
  have hi := anderson_history hs hsn hg hm hr
  have hpos := anderson_norm_pos hs hsn (fuel := fuel) hg hi hO hP r hind
  have hP' : PivNZ (a.qrNext fuel giv r) := hi.compute_pivnz fuel giv hg g r (ne_of_gt hpos) hP
  have hlen : (a.qrNext fuel giv r).qIdx = (aaNextW (min n memory) W rl r).length :=
    (hi.compute hs hsn fuel giv hg g r).qr.len
  apply hi.compute_ls hs hsn fuel giv hg g r hpos hO
  intro k hk
  exact ⟨hp k hk, hP' k (by rw [hlen]; exact hk)⟩

end

/-! ### 5. Non-vacuity: the hypotheses are satisfiable, the histories are inhabited -/

section examples

/-- `ℝ` with `Real.sqrt` as the model's `sqrt`. -/
noncomputable instance realLikeReal : RealLike ℝ := ⟨Real.sqrt, fun _ => false, fun _ => true⟩

/-- `SqrtLaw` holds over `ℝ`. -/
theorem sqrtLaw_real : SqrtLaw ℝ := fun _ ha => Real.mul_self_sqrt ha

/-- `SqrtNonneg` holds over `ℝ`. -/
theorem sqrtNonneg_real : SqrtNonneg ℝ := fun a _ => Real.sqrt_nonneg a

/-- a total real Givens rotation (`c = p/h`, `s = −q/h`, `r = h = √(p²+q²)`; identity for `h = 0`) -/
noncomputable def givR (p q : ℝ) : ℝ × ℝ × ℝ :=
  if Real.sqrt (p * p + q * q) = 0 then (1, 0, 0)
  else (p / Real.sqrt (p * p + q * q), -q / Real.sqrt (p * p + q * q), Real.sqrt (p * p + q * q))

/-- … it meets the `makeGivens` contract, so `GivensOK` is satisfiable. -/
theorem givR_ok : GivensOK givR := by
  intro p q
  unfold givR
  have hnn : 0 ≤ p * p + q * q := by nlinarith [mul_self_nonneg p, mul_self_nonneg q]
  split_ifs with h
  · have h0 : p * p + q * q = 0 := (Real.sqrt_eq_zero hnn).mp h
    have hp : p = 0 := by nlinarith [mul_self_nonneg p, mul_self_nonneg q]
    have hq : q = 0 := by nlinarith [mul_self_nonneg p, mul_self_nonneg q]
    subst hp; subst hq; norm_num
  · have hs : Real.sqrt (p * p + q * q) * Real.sqrt (p * p + q * q) = p * p + q * q :=
      Real.mul_self_sqrt hnn
    generalize Real.sqrt (p * p + q * q) = w at h hs
    have e1 : p / w * (p / w) + -q / w * (-q / w) = (p * p + q * q) / (w * w) := by
      field_simp
    have e2 : p / w * p - -q / w * q = (p * p + q * q) / w := by field_simp; ring
    have e3 : -q / w * p + p / w * q = 0 := by field_simp; ring
    refine ⟨?_, ?_, e3⟩
    · show p / w * (p / w) + -q / w * (-q / w) = 1
      rw [e1, ← hs, div_self (mul_ne_zero h h)]
    · show w = p / w * p - -q / w * q
      rw [e2, ← hs, mul_div_assoc, div_self h, mul_one]

/-! #### A wrapped ring over `ℝ` with the executed Givens function

    Capacity `m = 3`, dimension `n = 3`, `giv = givensEigen`, `sqrt = Real.sqrt`: add `v₁ v₂ v₃` (ring full),
    remove, remove, add `v₄`.  The window is `[v₃, v₄]`, the head is storage column `2`, the two logical
    columns live in storage columns `2, 0` (wrapped), the tail is `1`.  Every hypothesis of the property
    theorems (`RingInv`, `Represents`, `Orth`, `PivNZ`, `GivensOK`, `SqrtLaw`, `hnz`, capacity) is
    instantiated on this state below. -/

def vR (a b c : ℝ) : ℕ → ℝ := fun j => if j = 0 then a else if j = 1 then b else if j = 2 then c else 0

/-- the function the driver executes, at `ℝ` -/
noncomputable abbrev gE : ℝ → ℝ → ℝ × ℝ × ℝ := givensEigen

theorem gE_ok : GivensOK gE := givensEigen_ok sqrtLaw_real

theorem gE_ok0 : GivensOK0 gE := givensEigen_ok0 sqrtLaw_real

theorem reachI_len {s : LMQR ℝ} {A : List (ℕ → ℝ)} (h : ReachI 8 gE 1000 3 3 s A) :
    s.qIdx = A.length ∧ s.m = 3 ∧ s.n = 3 ∧ RingInv s :=
  have hq := history_qrinv sqrtLaw_real sqrtNonneg_real gE_ok (by norm_num) (reachI_reach sqrtLaw_real sqrtNonneg_real gE_ok (by norm_num) h).1
  ⟨hq.len, hq.hm, hq.hn, hq.ring⟩

/-- closes `¬ ∃ z, ∀ j < 3, v j = Σ_k A_k j · z k` for concrete `v`, `A` by looking at the three rows -/
macro "indep3" : tactic => `(tactic| (
  rintro ⟨z, hz⟩
  have h0 := hz 0 (by norm_num)
  have h1 := hz 1 (by norm_num)
  have h2 := hz 2 (by norm_num)
  simp [winFn, vR, Finset.sum_range_succ] at h0 h1 h2
  try linarith))

def sW0 : LMQR ℝ := LMQR.new 1000 3 3
noncomputable def sW3 : LMQR ℝ := ((sW0.addColumn 8 (vR 1 0 0)).addColumn 8 (vR 1 1 0)).addColumn 8 (vR 1 1 1)
noncomputable def sW5 : LMQR ℝ := (sW3.removeColumn gE).removeColumn gE
/-- the wrapped state: window `[v₃, v₄] = [(1,1,1), (0,1,0)]` -/
noncomputable def sW : LMQR ℝ := sW5.addColumn 8 (vR 0 1 0)

theorem sW3_reach : ReachI 8 gE 1000 3 3 sW3 [vR 1 0 0, vR 1 1 0, vR 1 1 1] := by
  have r1 : ReachI 8 gE 1000 3 3 (sW0.addColumn 8 (vR 1 0 0)) [vR 1 0 0] :=
    ReachI.add (vR 1 0 0) ReachI.new (by rw [(new_idx _ _ _).1]; norm_num) (by indep3)
  have r2 : ReachI 8 gE 1000 3 3 ((sW0.addColumn 8 (vR 1 0 0)).addColumn 8 (vR 1 1 0))
      [vR 1 0 0, vR 1 1 0] :=
    ReachI.add (vR 1 1 0) r1 (by rw [(reachI_len r1).1]; simp) (by indep3)
  exact ReachI.add (vR 1 1 1) r2 (by rw [(reachI_len r2).1]; simp) (by indep3)

theorem sW5_reach : ReachI 8 gE 1000 3 3 sW5 [vR 1 1 1] := by
  have r4 : ReachI 8 gE 1000 3 3 (sW3.removeColumn gE) [vR 1 1 0, vR 1 1 1] :=
    ReachI.remove sW3_reach (by rw [(reachI_len sW3_reach).1]; simp)
  exact ReachI.remove r4 (by rw [(reachI_len r4).1]; simp)

theorem sW_reach : ReachI 8 gE 1000 3 3 sW [vR 1 1 1, vR 0 1 0] :=
  ReachI.add (vR 0 1 0) sW5_reach (by rw [(reachI_len sW5_reach).1]; simp) (by indep3)

/-- the ring of `sW` has wrapped: `q_idx = 2`, head `r_idx_start = 2`, tail `r_idx_end = 1`, logical columns
    `0, 1` in storage columns `2, 0` -/
theorem sW_wrapped : sW.qIdx = 2 ∧ sW.rStart = 2 ∧ sW.rEnd = 1 ∧ sW.m = 3 ∧ sW.n = 3 ∧
    sW.ringFwd = [(0, 2), (1, 0)] ∧ sW.ringRev = [(1, 0), (0, 2)] := by
  have h0 : sW0.rStart = 0 := by simp [sW0, LMQR.new, LMQR.reset, lmqrResetIdx, lmqrResetEig]
  have h3 : sW3.rStart = 0 := by
    unfold sW3; rw [(addColumn_idx _ _ _).2.1, (addColumn_idx _ _ _).2.1, (addColumn_idx _ _ _).2.1, h0]
  have r4 : ReachI 8 gE 1000 3 3 (sW3.removeColumn gE) [vR 1 1 0, vR 1 1 1] :=
    ReachI.remove sW3_reach (by rw [(reachI_len sW3_reach).1]; simp)
  have h4 : (sW3.removeColumn gE).rStart = 1 := by
    rw [(removeColumn_idx gE sW3 (reachI_len sW3_reach).2.2.2
      (by rw [(reachI_len sW3_reach).1]; simp)).2.1, h3, (reachI_len sW3_reach).2.1]
  have h5 : sW5.rStart = 2 := by
    unfold sW5
    rw [(removeColumn_idx gE _ (reachI_len r4).2.2.2 (by rw [(reachI_len r4).1]; simp)).2.1, h4,
      (reachI_len r4).2.1]
  have hs : sW.rStart = 2 := by unfold sW; rw [(addColumn_idx _ _ _).2.1, h5]
  obtain ⟨l1, l2, l3, l4⟩ := reachI_len sW_reach
  have hq : sW.qIdx = 2 := by rw [l1]; rfl
  have he : sW.rEnd = 1 := by rw [l4.end_eq, hs, hq, l2]
  refine ⟨hq, hs, he, l2, l3, ?_, ?_⟩
  · rw [ring_iter_logical sW l4, hq, hs, l2]; rfl
  · rw [ring_reverse_iter_reverse sW l4, ring_iter_logical sW l4, hq, hs, l2]; rfl

theorem sW_facts : Reach 8 gE 1000 3 3 sW [vR 1 1 1, vR 0 1 0] ∧ RingInv sW ∧
    Represents sW (winFn [vR 1 1 1, vR 0 1 0]) ∧ Orth sW ∧ PivNZ sW := by
  obtain ⟨hr, hO, hP⟩ := reachI_reach sqrtLaw_real sqrtNonneg_real gE_ok (by norm_num) sW_reach
  have hq := history_qrinv sqrtLaw_real sqrtNonneg_real gE_ok (by norm_num) hr
  exact ⟨hr, hq.ring, hq.repr, hO, hP⟩

/-- the new column `(1,0,0)` is independent of the window `[(1,1,1), (0,1,0)]`, so `norm_q > 0` -/
theorem sW_add_hnz : 0 < (addCore 8 sW (vR 1 0 0)).2.2.1 := by
  obtain ⟨_, hR, hA, hO, hP⟩ := sW_facts
  apply addColumn_norm_pos_of_independent sqrtLaw_real sqrtNonneg_real 8 sW hR _ hA hO hP
  rw [sW_wrapped.1, sW_wrapped.2.2.2.2.1]
  indep3

/-- ring lemmas on the wrapped state: logical columns 0, 1 sit in distinct storage columns 2, 0 -/
example : sW.slot 0 = 2 ∧ sW.slot 1 = 0 ∧ sW.slot 0 ≠ sW.slot 1 := by
  refine ⟨?_, ?_, ring_slots_distinct sW sW_facts.2.1 (by norm_num) (by rw [sW_wrapped.1]; norm_num)⟩
  · unfold LMQR.slot; rw [sW_wrapped.2.1, sW_wrapped.2.2.2.1]
  · unfold LMQR.slot; rw [sW_wrapped.2.1, sW_wrapped.2.2.2.1]

/-- `addColumn_QR`, `addColumn_orthonormal` on the wrapped state (the ring becomes full: columns 2, 0, 1) -/
example : RingInv (sW.addColumn 8 (vR 1 0 0)) ∧ (sW.addColumn 8 (vR 1 0 0)).qIdx = 3 ∧
    Represents (sW.addColumn 8 (vR 1 0 0))
      (fun k => if k = sW.qIdx then vR 1 0 0 else winFn [vR 1 1 1, vR 0 1 0] k) ∧
    Orth (sW.addColumn 8 (vR 1 0 0)) := by
  obtain ⟨_, hR, hA, hO, hP⟩ := sW_facts
  have hK : sW.qIdx < sW.m := by rw [sW_wrapped.1, sW_wrapped.2.2.2.1]; norm_num
  obtain ⟨a1, a2, a3⟩ := addColumn_QR sqrtLaw_real sqrtNonneg_real 8 sW hR hK (vR 1 0 0) _ hA
  exact ⟨a1, by rw [a2, sW_wrapped.1], a3, addColumn_orthonormal sqrtLaw_real 8 sW hR hK _ sW_add_hnz hO⟩

/-- `removeColumn_QR`, `removeColumn_orthonormal`, `removeColumn_pivots_nonzero` on the wrapped state, with
    the executed Givens function: the head wraps from storage column 2 to 0 -/
example : RingInv (sW.removeColumn gE) ∧ (sW.removeColumn gE).qIdx = 1 ∧ (sW.removeColumn gE).rStart = 0 ∧
    Represents (sW.removeColumn gE) (fun k => winFn [vR 1 1 1, vR 0 1 0] (k + 1)) ∧
    Orth (sW.removeColumn gE) ∧ PivNZ (sW.removeColumn gE) := by
  obtain ⟨_, hR, hA, hO, hP⟩ := sW_facts
  have hK : 0 < sW.qIdx := by rw [sW_wrapped.1]; norm_num
  obtain ⟨a1, a2, a3, a4⟩ := removeColumn_QR_executed sqrtLaw_real sW hR hK _ hA
  exact ⟨a1, by rw [a2, sW_wrapped.1], by rw [a3, sW_wrapped.2.1, sW_wrapped.2.2.2.1], a4,
    removeColumn_orthonormal_executed sqrtLaw_real sW hR hK hO,
    removeColumn_pivots_nonzero gE gE_ok sW hR hK hP⟩

/-- `scaleR_QR` on the wrapped state -/
example : Represents (sW.scaleR (-2)) (fun k j => winFn [vR 1 1 1, vR 0 1 0] k j * (-2)) :=
  (scaleR_QR sW sW_facts.2.1 (-2) _ sW_facts.2.2.1).2.2

/-- `history_invariant`, `history_orthonormal_partial` on the wrapped history -/
example : sW.n = 3 ∧ sW.m = 3 ∧ sW.qIdx = 2 ∧ sW.qIdx ≤ 3 ∧ sW.rStart < 3 ∧
    sW.rEnd = (sW.rStart + sW.qIdx) % 3 ∧ Represents sW (winFn [vR 1 1 1, vR 0 1 0]) ∧ Orth sW :=
  have h := history_invariant sqrtLaw_real sqrtNonneg_real gE_ok (by norm_num) sW_facts.1
  ⟨h.1, h.2.1, h.2.2.1, h.2.2.2.1, h.2.2.2.2.1, h.2.2.2.2.2.1, h.2.2.2.2.2.2,
    history_orthonormal_partial sqrtLaw_real sqrtNonneg_real gE_ok (by norm_num) sW_reach⟩

/-- `solveCol_backsubst`, `solveCol_any_pivots`, `history_solve_least_squares` (threshold `1 > 0`),
    `…_no_truncation` and `…_independent` (threshold `0`), `ls_optimal`, `ls_unique` on the wrapped state:
    every hypothesis is instantiated; `b = (1, 2, 3)` -/
example : True := by
  obtain ⟨hr, hR, hA, hO, hP⟩ := sW_facts
  have e1 := solveCol_backsubst sW hR (vR 1 2 3) (fun _ => 7) 1
  have e2 := solveCol_any_pivots sW hR _ hA hO (vR 1 2 3) (fun _ => 7) 1 (fun r hr _ => hP r hr)
  have e3 := history_solve_least_squares_independent_columns sqrtLaw_real sqrtNonneg_real gE_ok
    (by norm_num) sW_reach (vR 1 2 3) (fun _ => 7) 1
  have hp0 : ∀ r < [vR 1 1 1, vR 0 1 0].length, ¬ |sW.getR r r| ≤ 0 :=
    fun r hr => not_le.mpr (abs_pos.mpr (hP r (by rw [sW_wrapped.1]; exact hr)))
  have e4 := history_solve_least_squares_no_truncation sqrtLaw_real sqrtNonneg_real gE_ok (by norm_num)
    sW_reach (vR 1 2 3) (fun _ => 7) 0 hp0
  have e5 := history_solve_least_squares_independent sqrtLaw_real sqrtNonneg_real gE_ok (by norm_num)
    sW_reach (vR 1 2 3) (fun _ => 7) (le_refl (0 : ℝ))
  -- the generic normal-equation theorems, instantiated with the factorisation of the wrapped state
  have hx : ∀ r < sW.qIdx, ∑ k ∈ range sW.qIdx, sW.getR r k * sW.solveCol (vR 1 2 3) (fun _ => 7) 0 k =
      ∑ j ∈ range sW.n, sW.Q.get j r * vR 1 2 3 j :=
    fun r hr => ((solveCol_backsubst sW hR (vR 1 2 3) (fun _ => 7) 0).2 r hr).2
      (not_le.mpr (abs_pos.mpr (hP r hr))) (hP r hr)
  have e6 := ls_optimal sW.n sW.qIdx sW.Q.get sW.getR _ hA hO (vR 1 2 3) _ hx
  have e7 := fun z hz => ls_unique sW.n sW.qIdx sW.Q.get sW.getR _ hA hO (vR 1 2 3) _ hx hP
    (fun i k hik => getR_upper_triangular sW hik) z hz
  trivial

/-- `history_eig_bounds` on the wrapped state and on the dependent-column history -/
example : sW.minEig = diagMin sW ∧ sW.maxEig = diagMax sW ∧ sW.infc = 1000 :=
  history_eig_bounds sqrtLaw_real sqrtNonneg_real gE_ok (by norm_num) sW_facts.1

/-! #### A history with a DEPENDENT column over `ℝ` (every-history theorems)

    Capacity 3, `n = 3`: add `v₁ = (1,0,0)`, add `v₁` again (dependent: stored as a zero column with a zero
    pivot), add `(1,1,1)`, remove (the head wraps to storage column 1).  `Reach` has no side condition but
    the capacity, so every hypothesis of `history_invariant`, `history_partial_orthonormal`,
    `history_solve_least_squares` (`tol = 0`) is instantiated. -/

noncomputable def sD : LMQR ℝ :=
  ((((LMQR.new 1000 3 3).addColumn 8 (vR 1 0 0)).addColumn 8 (vR 1 0 0)).addColumn 8 (vR 1 1 1)).removeColumn gE

theorem sD_reach : Reach 8 gE 1000 3 3 sD [vR 1 0 0, vR 1 1 1] := by
  have r1 : Reach 8 gE 1000 3 3 ((LMQR.new 1000 3 3).addColumn 8 (vR 1 0 0)) [vR 1 0 0] :=
    Reach.add (vR 1 0 0) Reach.new (by rw [(new_idx _ _ _).1]; norm_num)
  have q1 := (history_invariant sqrtLaw_real sqrtNonneg_real gE_ok (by norm_num) r1).2.2.1
  have r2 : Reach 8 gE 1000 3 3 (((LMQR.new 1000 3 3).addColumn 8 (vR 1 0 0)).addColumn 8 (vR 1 0 0))
      [vR 1 0 0, vR 1 0 0] := Reach.add (vR 1 0 0) r1 (by rw [q1]; simp)
  have q2 := (history_invariant sqrtLaw_real sqrtNonneg_real gE_ok (by norm_num) r2).2.2.1
  have r3 : Reach 8 gE 1000 3 3
      ((((LMQR.new 1000 3 3).addColumn 8 (vR 1 0 0)).addColumn 8 (vR 1 0 0)).addColumn 8 (vR 1 1 1))
      [vR 1 0 0, vR 1 0 0, vR 1 1 1] := Reach.add (vR 1 1 1) r2 (by rw [q2]; simp)
  have q3 := (history_invariant sqrtLaw_real sqrtNonneg_real gE_ok (by norm_num) r3).2.2.1
  exact Reach.remove r3 (by rw [q3]; simp)

example : sD.qIdx = 2 ∧ Represents sD (winFn [vR 1 0 0, vR 1 1 1]) ∧ POrth sD := by
  have h := history_invariant sqrtLaw_real sqrtNonneg_real gE_ok (by norm_num) sD_reach
  exact ⟨h.2.2.1, h.2.2.2.2.2.2,
    history_partial_orthonormal sqrtLaw_real sqrtNonneg_real gE_ok0 (by norm_num) sD_reach⟩

example : True := by
  have e1 := history_solve_least_squares sqrtLaw_real sqrtNonneg_real gE_ok0 (by norm_num) sD_reach
    (vR 1 2 3) (fun _ => 7) 0 (Or.inl (le_refl _))
  have e2 := fun hp => history_solve_least_squares_dead sqrtLaw_real sqrtNonneg_real gE_ok0 (by norm_num)
    sD_reach (vR 1 2 3) (fun _ => 7) 0 (Or.inl (le_refl _)) hp
  trivial

/-! #### Anderson over `ℝ`: memory 2, `n = 3` (`m_AA = 2`), three `compute`s — the third one removes the oldest
    column, so the ring of the QR inside has wrapped (head = storage column 1) -/

noncomputable def aW0 : AA ℝ := (AA.new 1000 2 (1/1000) 3).initialize 1000 (vR 1 2 3) (vR 0 0 0)
noncomputable def aW1 : AA ℝ := (aW0.computeCore 8 gE (vR 2 0 1) (vR 1 0 0)).1
noncomputable def aW2 : AA ℝ := (aW1.computeCore 8 gE (vR 0 1 1) (vR 1 1 0)).1
noncomputable def aW : AA ℝ := (aW2.computeCore 8 gE (vR 3 1 2) (vR 1 1 1)).1

noncomputable def dW1 : List (ℕ → ℝ) := aaNextW (min 3 2) [] (vR 0 0 0) (vR 1 0 0)
noncomputable def dW2 : List (ℕ → ℝ) := aaNextW (min 3 2) dW1 (vR 1 0 0) (vR 1 1 0)
noncomputable def dW3 : List (ℕ → ℝ) := aaNextW (min 3 2) dW2 (vR 1 1 0) (vR 1 1 1)
noncomputable def gW1 : List (ℕ → ℝ) := aaNextG (min 3 2) [] [vR 1 2 3] (vR 2 0 1)
noncomputable def gW2 : List (ℕ → ℝ) := aaNextG (min 3 2) dW1 gW1 (vR 0 1 1)
noncomputable def gW3 : List (ℕ → ℝ) := aaNextG (min 3 2) dW2 gW2 (vR 3 1 2)

/-- like `indep3`, for the residual differences of the Anderson runs -/
macro "indepA" : tactic => `(tactic| (
  rintro ⟨z, hz⟩
  have h0 := hz 0 (by norm_num)
  have h1 := hz 1 (by norm_num)
  have h2 := hz 2 (by norm_num)
  simp [dW3, dW2, dW1, aaNextW, winFn, vR, Finset.sum_range_succ] at h0 h1 h2
  try linarith))

theorem aW_reach : AReachI 8 gE 1000 2 (1/1000) 3 aW dW3 gW3 (vR 1 1 1) := by
  have r0 : AReachI 8 gE 1000 2 (1/1000) 3 aW0 [] [vR 1 2 3] (vR 0 0 0) := AReachI.init _ _
  have r1 : AReachI 8 gE 1000 2 (1/1000) 3 aW1 dW1 gW1 (vR 1 0 0) :=
    AReachI.compute (vR 2 0 1) (vR 1 0 0) r0 (by indepA)
  have r2 : AReachI 8 gE 1000 2 (1/1000) 3 aW2 dW2 gW2 (vR 1 1 0) :=
    AReachI.compute (vR 0 1 1) (vR 1 1 0) r1 (by indepA)
  exact AReachI.compute (vR 3 1 2) (vR 1 1 1) r2 (by indepA)

/-- the next residual `(2,1,1)`: its difference `(1,0,0)` with `r_last = (1,1,1)` is independent of the
    residual difference `(0,0,1)` that stays in the (full) window -/
theorem aW_next_indep : ¬ ∃ z : ℕ → ℝ, ∀ j < 3, vR 2 1 1 j - vR 1 1 1 j =
    ∑ k ∈ range (if dW3.length = min 3 2 then dW3.tail else dW3).length,
      winFn (if dW3.length = min 3 2 then dW3.tail else dW3) k j * z k := by indepA

/-- the window of `aW` has 2 columns and its ring has wrapped (head = storage column 1) -/
theorem aW_wrapped : dW3.length = 2 ∧ aW.qr.qIdx = 2 ∧ aW.qr.m = 2 ∧ aW.qr.rStart = 1 := by
  obtain ⟨hr, _, _⟩ := areachI_areach sqrtLaw_real sqrtNonneg_real gE_ok (by norm_num) aW_reach
  have hi := anderson_history sqrtLaw_real sqrtNonneg_real gE_ok (by norm_num) hr
  have hl : dW3.length = 2 := by simp [dW3, dW2, dW1, aaNextW]
  refine ⟨hl, by rw [hi.qr.len, hl], hi.qr.hm, ?_⟩
  -- third compute: the ring was full, so `remove_column` advanced the head from 0 to 1
  have r2 : AReachI 8 gE 1000 2 (1/1000) 3 aW2 dW2 gW2 (vR 1 1 0) := by
    have r0 : AReachI 8 gE 1000 2 (1/1000) 3 aW0 [] [vR 1 2 3] (vR 0 0 0) := AReachI.init _ _
    have r1 : AReachI 8 gE 1000 2 (1/1000) 3 aW1 dW1 gW1 (vR 1 0 0) :=
      AReachI.compute (vR 2 0 1) (vR 1 0 0) r0 (by indepA)
    exact AReachI.compute (vR 0 1 1) (vR 1 1 0) r1 (by indepA)
  have hi2 := anderson_history sqrtLaw_real sqrtNonneg_real gE_ok (by norm_num) (areachI_areach sqrtLaw_real sqrtNonneg_real gE_ok (by norm_num) r2).1
  have hl2 : dW2.length = 2 := by simp [dW2, dW1, aaNextW]
  have hq2 : aW2.qr.qIdx = 2 := by rw [hi2.qr.len, hl2]
  have hm2 : aW2.qr.m = 2 := hi2.qr.hm
  have hs0 : aW0.qr.rStart = 0 := by
    simp [aW0, AA.initialize, AA.new, LMQR.new, LMQR.reset, lmqrResetIdx, lmqrResetEig]
  have hq0 : aW0.qr.qIdx = 0 := by
    simp [aW0, AA.initialize, AA.new, LMQR.new, LMQR.reset, lmqrResetIdx, lmqrResetEig]
  have hm0 : aW0.qr.m = 2 := by
    simp [aW0, AA.initialize, AA.new, LMQR.new, LMQR.reset, lmqrResetIdx, lmqrResetEig, aaMem]
  -- compute 1 and 2 do not remove: the head stays 0
  have hs1 : aW1.qr.rStart = 0 := by
    show (aW0.qrNext 8 gE (vR 1 0 0)).rStart = 0
    unfold AA.qrNext
    rw [(addColumn_idx _ _ _).2.1, if_neg (by simp [aaFull, lmqrNumColumns, hq0, hm0]), hs0]
  have r1 : AReachI 8 gE 1000 2 (1/1000) 3 aW1 dW1 gW1 (vR 1 0 0) :=
    AReachI.compute (vR 2 0 1) (vR 1 0 0) (AReachI.init _ _) (by indepA)
  have hi1 := anderson_history sqrtLaw_real sqrtNonneg_real gE_ok (by norm_num) (areachI_areach sqrtLaw_real sqrtNonneg_real gE_ok (by norm_num) r1).1
  have hq1 : aW1.qr.qIdx = 1 := by rw [hi1.qr.len]; simp [dW1, aaNextW]
  have hm1 : aW1.qr.m = 2 := hi1.qr.hm
  have hs2 : aW2.qr.rStart = 0 := by
    show (aW1.qrNext 8 gE (vR 1 1 0)).rStart = 0
    unfold AA.qrNext
    rw [(addColumn_idx _ _ _).2.1, if_neg (by simp [aaFull, lmqrNumColumns, hq1, hm1]), hs1]
  show (aW2.qrNext 8 gE (vR 1 1 1)).rStart = 1
  unfold AA.qrNext
  rw [(addColumn_idx _ _ _).2.1, if_pos (by simp [aaFull, lmqrNumColumns, hq2, hm2]),
    (removeColumn_idx gE _ hi2.qr.ring (by rw [hq2]; norm_num)).2.1, hs2, hm2]

/-- `anderson_history`, `anderson_window_length`, `anderson_orthonormal`, `anderson_output_affine`,
    `anderson_affine`, `anderson_gamma_least_squares` (+ `_no_truncation`) on the wrapped accelerator: every
    hypothesis instantiated for a fourth `compute(g, r)` with `g = (1,1,1)`, `r = (2,1,1)` -/
example : True := by
  obtain ⟨hr, hO, hP⟩ := areachI_areach sqrtLaw_real sqrtNonneg_real gE_ok (by norm_num) aW_reach
  have e1 := anderson_history sqrtLaw_real sqrtNonneg_real gE_ok (by norm_num) hr
  have e2 := anderson_window_length sqrtLaw_real sqrtNonneg_real gE_ok (by norm_num) hr (vR 2 1 1)
  have e3 := anderson_orthonormal sqrtLaw_real sqrtNonneg_real gE_ok (by norm_num) aW_reach
  have e4 := anderson_norm_pos sqrtLaw_real sqrtNonneg_real (fuel := 8) gE_ok e1 hO hP (vR 2 1 1)
    aW_next_indep
  have e5 := anderson_output_affine sqrtLaw_real sqrtNonneg_real gE_ok (by norm_num) hr (vR 1 1 1)
    (vR 2 1 1)
  have hnext := e1.compute sqrtLaw_real sqrtNonneg_real 8 gE gE_ok (vR 1 1 1) (vR 2 1 1)
  have e6 := anderson_affine 8 gE aW (vR 1 1 1) (vR 2 1 1) hnext.qr.ring
    (by rw [show (aW.qrNext 8 gE (vR 2 1 1)).qIdx = _ from hnext.qr.len]; simp [aaNextW])
  have e7 := anderson_gamma_least_squares_independent sqrtLaw_real sqrtNonneg_real gE_ok (by norm_num)
    aW_reach (vR 1 1 1) (vR 2 1 1) aW_next_indep
  have e8 := fun hp => anderson_gamma_least_squares_no_truncation sqrtLaw_real sqrtNonneg_real gE_ok
    (by norm_num) aW_reach (vR 1 1 1) (vR 2 1 1) aW_next_indep hp
  trivial

/-- the formerly excluded point of Anderson, on the wrapped accelerator: `compute(g, r)` with `r = r_last`
    (zero residual difference).  `AReach` has no side condition and `min_div_fac = 1/1000 ≥ 0`: every
    hypothesis of `anderson_partial_orthonormal`, `anderson_output_affine`,
    `anderson_gamma_least_squares_every` is instantiated. -/
example : True := by
  obtain ⟨hr, _, _⟩ := areachI_areach sqrtLaw_real sqrtNonneg_real gE_ok (by norm_num) aW_reach
  have e1 := anderson_partial_orthonormal sqrtLaw_real sqrtNonneg_real gE_ok0 (by norm_num) hr
  have e2 := anderson_output_affine sqrtLaw_real sqrtNonneg_real gE_ok (by norm_num) hr (vR 5 5 5)
    (vR 1 1 1)
  have e3 := anderson_gamma_least_squares_every sqrtLaw_real sqrtNonneg_real gE_ok0
    (by norm_num : (0 : ℝ) ≤ 1 / 1000) (by norm_num) hr (vR 5 5 5) (vR 1 1 1)
  trivial

/-! Kernel-evaluated runs of the model over `ℚ`.  `sqrt` is a stand-in that is a true square
    root on the pivots these runs produce (`√1 = 1`, `√(1/4) = 1/2`); it is used only to show that concrete histories —
    including a ring wrap-around, a Givens sweep over two columns and an Anderson update on a full
    ring — satisfy the side conditions (capacity) of `Reach` / `AReach`, and what the model does at the formerly
    excluded point (a column in the span of the window). -/
section rat
/-- `√(1/4) = 1/2`, identity elsewhere (a true square root on `0`, `1/4`, `1`) -/
local instance ratRealLike : RealLike ℚ :=
  ⟨fun x => if x = 1/4 then 1/2 else x, fun _ => false, fun _ => true⟩

def cQ (a b c : ℚ) : ℕ → ℚ := fun j => if j = 0 then a else if j = 1 then b else if j = 2 then c else 0

example : Reach 4 givensEigen 1000 3 2
    ((((LMQR.new (1000 : ℚ) 3 2).addColumn 4 (cQ 1 0 0)).addColumn 4 (cQ 1 1 0)).removeColumn givensEigen
      |>.addColumn 4 (cQ 0 0 1))
    [cQ 1 1 0, cQ 0 0 1] :=
  Reach.add (cQ 0 0 1)
    (Reach.remove
      (Reach.add (cQ 1 1 0) (Reach.add (cQ 1 0 0) Reach.new (by decide +kernel)) (by decide +kernel))
      (by decide +kernel))
    (by decide +kernel)

/-- the ring has wrapped: after add, add, remove, add with capacity 2 the head is at storage column 1
    and the tail at 1 (full ring: tail = head) -/
example :
    let s := ((((LMQR.new (1000 : ℚ) 3 2).addColumn 4 (cQ 1 0 0)).addColumn 4 (cQ 1 1 0)).removeColumn
      givensEigen).addColumn 4 (cQ 0 0 1)
    (s.qIdx, s.rStart, s.rEnd) = (2, 1, 1) ∧ s.ringFwd = [(0, 1), (1, 0)] ∧
      s.ringRev = [(1, 0), (0, 1)] := by decide +kernel

example : AReach 4 givensEigen 1000 2 (1/1000) 3
    ((((AA.new (1000 : ℚ) 2 (1/1000) 3).initialize 1000 (cQ 1 2 3) (cQ 1 0 0)).computeCore 4 givensEigen
        (cQ 2 2 2) (cQ 0 0 0)).1.computeCore 4 givensEigen (cQ 0 1 0) (cQ 0 1 0)).1
    (aaNextW (min 3 2) (aaNextW (min 3 2) [] (cQ 1 0 0) (cQ 0 0 0)) (cQ 0 0 0) (cQ 0 1 0))
    (aaNextG (min 3 2) (aaNextW (min 3 2) [] (cQ 1 0 0) (cQ 0 0 0))
      (aaNextG (min 3 2) [] [cQ 1 2 3] (cQ 2 2 2)) (cQ 0 1 0))
    (cQ 0 1 0) :=
  AReach.compute (cQ 0 1 0) (cQ 0 1 0)
    (AReach.compute (cQ 2 2 2) (cQ 0 0 0) (AReach.init (cQ 1 2 3) (cQ 1 0 0)))

/-- **The formerly excluded point**: `new 2 3; add (1,0); add (2,0)` (a dependent column) `; add (1,1)`.  The
    dependent column is stored as a zero column of `Q` with a zero pivot, `Q·get_R()` is still the window,
    nothing is NaN, and `solve_col(b, ·, 0)` skips exactly the zero pivot and returns the least-squares
    solution `(−1, 0, 2)` of `‖A x − b‖` for `b = (1, 2)` (here `A x = b`). -/
example :
    (∀ k < 3, ∀ j < 2,
      colSum (((LMQR.new (1000 : ℚ) 2 3).addColumn 4 (cQ 1 0 0)).addColumn 4 (cQ 2 0 0)
        |>.addColumn 4 (cQ 1 1 0)) k j = winFn [cQ 1 0 0, cQ 2 0 0, cQ 1 1 0] k j) ∧
    (∀ j < 2, (((LMQR.new (1000 : ℚ) 2 3).addColumn 4 (cQ 1 0 0)).addColumn 4 (cQ 2 0 0)
        |>.addColumn 4 (cQ 1 1 0)).Q.get j 1 = 0) ∧
    (((LMQR.new (1000 : ℚ) 2 3).addColumn 4 (cQ 1 0 0)).addColumn 4 (cQ 2 0 0)
        |>.addColumn 4 (cQ 1 1 0)).getR 1 1 = 0 ∧
    (List.range 3).map ((((LMQR.new (1000 : ℚ) 2 3).addColumn 4 (cQ 1 0 0)).addColumn 4 (cQ 2 0 0)
        |>.addColumn 4 (cQ 1 1 0)).solveCol (cQ 1 2 0) (fun _ => 7) 0) = [-1, 0, 2] := by
  decide +kernel

/-- window `[(1/2, 0), (1, 1)]`: `Q = I`, `R = [[1/2, 1], [0, 1]]` -/
def sT : LMQR ℚ := ((LMQR.new (1000 : ℚ) 2 2).addColumn 4 (cQ (1/2) 0 0)).addColumn 4 (cQ 1 1 0)

/-- **A skipped pivot does not give the constrained least-squares minimiser.**  On the state `sT`
    (orthonormal `Q`, `QR = A`, `A = [(1/2, 0), (1, 1)]`) with `b = (0, 1)` and threshold `3/4`: pivot 0
    (`= 1/2`) is skipped, pivot 1 (`= 1`) is not; `solve_col` returns `x = (0, 1)` with `‖A x − b‖² = 1`, but
    `z = (0, 1/2)` — also with `z₀ = 0` — has `‖A z − b‖² = 1/2`.  So "least-squares minimiser … (components
    with pivots below the threshold set to zero)" holds only in the sense of `history_solve_least_squares`
    (deflated window), not as a minimiser of `‖A z − b‖` over `{z₀ = 0}`. -/
theorem truncated_solve_is_not_the_constrained_minimiser :
    (∀ a < 2, ∀ c < 2, ∑ j ∈ range 2, sT.Q.get j a * sT.Q.get j c = if a = c then 1 else 0) ∧
    (∀ k < 2, ∀ j < 2, colSum sT k j = winFn [cQ (1/2) 0 0, cQ 1 1 0] k j) ∧
    |sT.getR 0 0| ≤ 3/4 ∧ ¬ |sT.getR 1 1| ≤ 3/4 ∧
    sT.solveCol (cQ 0 1 0) (fun _ => 7) (3/4) 0 = 0 ∧ sT.solveCol (cQ 0 1 0) (fun _ => 7) (3/4) 1 = 1 ∧
    ∑ j ∈ range 2, (∑ k ∈ range 2, winFn [cQ (1/2) 0 0, cQ 1 1 0] k j *
        (if k = 1 then (1/2 : ℚ) else 0) - cQ 0 1 0 j) ^ 2 <
      ∑ j ∈ range 2, (∑ k ∈ range 2, winFn [cQ (1/2) 0 0, cQ 1 1 0] k j *
        sT.solveCol (cQ 0 1 0) (fun _ => 7) (3/4) k - cQ 0 1 0 j) ^ 2 := by
  decide +kernel

/-- index lemmas at the wrap-around point of a capacity-3 ring -/
example : lmqrSucc 3 2 = 0 ∧ lmqrPred 3 0 = 2 ∧ circInc 3 5 2 = (6, 0) ∧ circDec 3 5 0 = (4, 2) :=
  ⟨((ring_succ_pred (m := 3) (i := 2) (by norm_num)).1).trans rfl,
   ((ring_succ_pred (m := 3) (i := 0) (by norm_num)).2.1).trans rfl,
   ((circ_iterator_steps (max := 3) (zb := 5) (ci := 2) (by norm_num)).1).trans rfl,
   ((circ_iterator_steps (max := 3) (zb := 5) (ci := 0) (by norm_num)).2).trans rfl⟩

/-- the telescoped coefficients for `γ = (3, 5)`, `K = 2` are `(3, 2, −4)`, summing to 1 -/
example : (List.range 3).map (aaCoef (fun i => if i = 0 then (3 : ℚ) else 5) 2) = [3, 2, -4] := by
  decide +kernel

end rat
end examples

end Alpaqa.Props.C10
