/-
  C19 (FISTA) — `stop()` interrupts promptly, leaving valid results.

  The stop flag is the oracle `stop : Nat → Bool` (a function of the number of oracle calls made so
  far); FISTA polls it at one place only, the loop-head check `check_all_stop_conditions`.
  * `fista_stop_at_head_exits`: a request visible at a loop-head check ends the solve *there*: the
    main loop returns the exit block of that very head — no further iteration, no further
    gradient evaluation; after the deciding check at most two more oracle calls happen (the final
    progress callback and, in the fixed-step mode, the late `eval_ψx̂` of the exit block).
  * `fista_stop_before_pass_exits` (monotone flag): a request raised before a pass of the loop body
    starts ends the solve at that pass's head — so a request raised at *any* time costs at most the
    remainder of the current pass, one extrapolation + gradient evaluation, and one more
    prox / backtracking stage.  (The backtracking `while` itself does not poll the flag; it is
    bounded by `L < L_max`.)
  * `fista_interrupted_or_natural`: with the flag visible the status is `Interrupted` unless one of
    the natural exits (Converged, MaxTime, MaxIter, NotFinite, NoProgress) takes precedence.
  * valid results: `Props/C03_Fista.fista_exit_contract` already quantifies over all stop
    schedules (an `Interrupted` exit always writes x̂, ŷ(x̂), err_z consistently).
  Not modelled: data-race freedom of the flag (C++ memory model).
-/
import Alpaqa.Proofs.FistaInv
import Alpaqa.Props.C03_Fista
import Alpaqa.Props.C06

namespace Alpaqa.Props.C19_Fista
open Alpaqa Alpaqa.Fista Alpaqa.Gen Alpaqa.Props.C03_Fista
set_option linter.unusedSectionVars false

variable {α : Type} [Add α] [Sub α] [Mul α] [Div α] [Neg α] [LT α] [LE α] [DecidableLT α]
  [DecidableLE α] [BEq α] [RealLike α] [NatCast α] [OfScientific α]
  [OfNat α 0] [OfNat α 1] [OfNat α 2] [OfNat α 4] [OfNat α 100]

/-- With the flag visible at the check, the loop-head status is not `Busy`. -/
theorem head_not_busy_of_stop (P : Problem α) (pr : Params α) (stop : Nat → Bool) (oot : Bool)
    (s : St α) (hs : stop (headStep P pr stop oot s).1.tick = true) :
    (headStep P pr stop oot s).2.2 ≠ .Busy := by
  have e : (headStep P pr stop oot s).2.2 =
      statusChain pr.tolerance pr.maxIter pr.maxNoProgress s.k (epsOf P pr s.curr)
        (noProgressUpdate s.noProgress s.k pr.maxNoProgress (s.curr.xhat == s.prev)) oot
        (stop (headStep P pr stop oot s).1.tick) := by
    unfold headStep statusOf; simp only []
  rw [e, hs]
  exact C06.stop_requested_not_busy _ _ _ _ _ _ _

/-- **A stop request visible at a loop-head check ends the solve there.** -/
theorem fista_stop_at_head_exits (P : Problem α) (pr : Params α) (stop : Nat → Bool) (oot : Bool)
    (x0 y Sig errz0 : Vec α) (fuel : Nat) (s : St α)
    (hs : stop (headStep P pr stop oot (proxStage P pr s)).1.tick = true) :
    mainLoop P pr stop oot x0 y Sig errz0 (fuel + 1) s =
      exitBlock P pr (headStep P pr stop oot (proxStage P pr s)).1
        (headStep P pr stop oot (proxStage P pr s)).2.1
        (headStep P pr stop oot (proxStage P pr s)).2.2 x0 y Sig errz0 ∧
    (mainLoop P pr stop oot x0 y Sig errz0 (fuel + 1) s).stats.iterations = s.k ∧
    (mainLoop P pr stop oot x0 y Sig errz0 (fuel + 1) s).ticks ≤
      (headStep P pr stop oot (proxStage P pr s)).1.tick + 2 := by
  have hb := head_not_busy_of_stop P pr stop oot (proxStage P pr s) hs
  have hne : ((headStep P pr stop oot (proxStage P pr s)).2.2 != SolverStatus.Busy) = true := by
    simp [hb]
  have e : mainLoop P pr stop oot x0 y Sig errz0 (fuel + 1) s =
      exitBlock P pr (headStep P pr stop oot (proxStage P pr s)).1
        (headStep P pr stop oot (proxStage P pr s)).2.1
        (headStep P pr stop oot (proxStage P pr s)).2.2 x0 y Sig errz0 := by
    rw [mainLoop]; simp only [hne, if_true]
  refine ⟨e, ?_, ?_⟩
  · rw [e, (exitBlock_fields P pr _ _ _ x0 y Sig errz0).2.2.1, (headStep_curr P pr stop oot _).2.1,
      (proxStage_k P pr s).1]
  · rw [e]; exact (exitBlock_fields P pr _ _ _ x0 y Sig errz0).2.2.2.2.2.1

/-- Monotone flag: a request raised before a pass starts ends the solve at that pass's head. -/
theorem fista_stop_before_pass_exits (P : Problem α) (pr : Params α) (stop : Nat → Bool) (oot : Bool)
    (x0 y Sig errz0 : Vec α) (fuel : Nat) (s : St α)
    (hmono : ∀ a b, a ≤ b → stop a = true → stop b = true) (hs : stop s.tick = true) :
    (mainLoop P pr stop oot x0 y Sig errz0 (fuel + 1) s).stats.iterations = s.k ∧
    (mainLoop P pr stop oot x0 y Sig errz0 (fuel + 1) s).stats.status ≠ .Busy := by
  have hs' := hmono _ _ (head_tick_le P pr stop oot s) hs
  have h := fista_stop_at_head_exits P pr stop oot x0 y Sig errz0 fuel s hs'
  refine ⟨h.2.1, ?_⟩
  rw [h.1, (exitBlock_fields P pr _ _ _ x0 y Sig errz0).2.1]
  exact head_not_busy_of_stop P pr stop oot (proxStage P pr s) hs'

/-- With the flag visible, the status is `Interrupted` unless a natural exit takes precedence. -/
theorem fista_interrupted_or_natural (P : Problem α) (pr : Params α) (stop : Nat → Bool) (oot : Bool)
    (s : St α) (hs : stop (headStep P pr stop oot s).1.tick = true) :
    (headStep P pr stop oot s).2.2 = .Interrupted ∨ (headStep P pr stop oot s).2.2 = .Converged ∨
    (headStep P pr stop oot s).2.2 = .MaxTime ∨ (headStep P pr stop oot s).2.2 = .MaxIter ∨
    (headStep P pr stop oot s).2.2 = .NotFinite ∨ (headStep P pr stop oot s).2.2 = .NoProgress := by
  have e : (headStep P pr stop oot s).2.2 =
      statusChain pr.tolerance pr.maxIter pr.maxNoProgress s.k (epsOf P pr s.curr)
        (noProgressUpdate s.noProgress s.k pr.maxNoProgress (s.curr.xhat == s.prev)) oot
        (stop (headStep P pr stop oot s).1.tick) := by
    unfold headStep statusOf; simp only []
  rw [e, hs]
  unfold statusChain
  simp only []
  split_ifs <;> simp

/-! ### Non-vacuity: the concrete run of `Props/C03_Fista`, interrupted from the first callback -/

local instance instRealLikeRatC19F : RealLike ℚ := ⟨id, fun _ => false, fun _ => true⟩

def exP3 : Problem ℚ := { exP with prox := fun _ _ _ => (0, [1/2], [1]) }

/-- flag raised at tick 3 (during iteration 0): the solve ends at the next head with
    `Interrupted`, one iteration, outputs written. -/
example : (run exP3 { exPr with maxIter := 50, tolerance := 1/1000, alwaysOverwrite := false }
      (fun t => decide (t ≥ 3)) false [2] [1] [2] [0] [] 0 0).stats.status = .Interrupted ∧
    (run exP3 { exPr with maxIter := 50, tolerance := 1/1000, alwaysOverwrite := false }
      (fun t => decide (t ≥ 3)) false [2] [1] [2] [0] [] 0 0).stats.iterations = 1 ∧
    (run exP3 { exPr with maxIter := 50, tolerance := 1/1000, alwaysOverwrite := false }
      (fun t => decide (t ≥ 3)) false [2] [1] [2] [0] [] 0 0).x = [1/2] := by
  decide +kernel

end Alpaqa.Props.C19_Fista
