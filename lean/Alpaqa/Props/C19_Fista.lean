/-
  C19 (FISTA) — `stop()` interrupts promptly, leaving valid results.

  The stop flag is the oracle `stop : Nat → Bool` (a function of the number of oracle calls made so
  far); FISTA polls it at the loop-head check `check_all_stop_conditions` and in the condition of
  its step-size backtracking loop `while (!stop_requested() && L < L_max && qub_violated(…))`.
  * `fista_stop_at_head_exits`: a request visible at a loop-head check ends the solve *there*: the
    main loop returns the exit block of that very head — no further iteration, no further
    gradient evaluation; after the deciding check at most two more oracle calls happen (the final
    progress callback and, in the fixed-step mode, the late `eval_ψx̂` of the exit block).
  * `fista_stop_before_pass_exits` (monotone flag): a request raised before a pass of the loop body
    starts ends the solve at that pass's head.
  * `fista_backtrack_noop`: once the flag is visible the backtracking loop makes no further call;
    `fista_pass_ticks_after_stop`, `fista_ticks_after_stop` (monotone flag, visible from tick `t₀`):
    the prox / backtracking stage of a pass that starts at tick `t` ends at tick
    `≤ max (t + 3) (t₀ + 2)`, and the whole solve at tick `≤ max 8 (t₀ + 7)` — independent of the
    number of step-size halvings the quadratic upper bound would still ask for.
  * `fista_interrupted_or_natural`: with the flag visible the status is `Interrupted` unless one of
    the natural exits (Converged, MaxTime, MaxIter, NotFinite, NoProgress) takes precedence.
  * valid results: `Props/C03_Fista.fista_exit_contract` already quantifies over all stop
    schedules (an `Interrupted` exit always writes x̂, ŷ(x̂), err_z consistently).
  Not modelled: data-race freedom of the flag (C++ memory model).
-/
import Alpaqa.Proofs.FistaInv
import Alpaqa.Props.C03_Fista
import Alpaqa.Props.C06

namespace Alpaqa.Props.C19_Fista
open Alpaqa Alpaqa.Fista Alpaqa.Gen Alpaqa.Props.C03_Fista
set_option linter.unusedSectionVars false

variable {α : Type} [Add α] [Sub α] [Mul α] [Div α] [Neg α] [LT α] [LE α] [DecidableLT α]
  [DecidableLE α] [BEq α] [RealLike α] [NatCast α] [OfScientific α]
  [OfNat α 0] [OfNat α 1] [OfNat α 2] [OfNat α 4] [OfNat α 100]

/-- With the flag visible at the check, the loop-head status is not `Busy`. -/
theorem head_not_busy_of_stop (P : Problem α) (pr : Params α) (stop : Nat → Bool) (oot : Bool)
    (s : St α) (hs : stop (headStep P pr stop oot s).1.tick = true) :
    (headStep P pr stop oot s).2.2 ≠ .Busy := by
  have e : (headStep P pr stop oot s).2.2 =
      statusChain pr.tolerance pr.maxIter pr.maxNoProgress s.k (epsOf P pr s.curr)
        (noProgressUpdate s.noProgress s.k pr.maxNoProgress (s.curr.xhat == s.prev)) oot
        (stop (headStep P pr stop oot s).1.tick) := by
    unfold headStep statusOf; simp only []
  rw [e, hs]
  exact C06.stop_requested_not_busy _ _ _ _ _ _ _

/-- **A stop request visible at a loop-head check ends the solve there.** -/
theorem fista_stop_at_head_exits (P : Problem α) (pr : Params α) (stop : Nat → Bool) (oot : Bool)
    (x0 y Sig errz0 : Vec α) (fuel : Nat) (s : St α)
    (hs : stop (headStep P pr stop oot (proxStage P pr stop s)).1.tick = true) :
    mainLoop P pr stop oot x0 y Sig errz0 (fuel + 1) s =
      exitBlock P pr (headStep P pr stop oot (proxStage P pr stop s)).1
        (headStep P pr stop oot (proxStage P pr stop s)).2.1
        (headStep P pr stop oot (proxStage P pr stop s)).2.2 x0 y Sig errz0 ∧
    (mainLoop P pr stop oot x0 y Sig errz0 (fuel + 1) s).stats.iterations = s.k ∧
    (mainLoop P pr stop oot x0 y Sig errz0 (fuel + 1) s).ticks ≤
      (headStep P pr stop oot (proxStage P pr stop s)).1.tick + 2 := by
  have hb := head_not_busy_of_stop P pr stop oot (proxStage P pr stop s) hs
  have hne : ((headStep P pr stop oot (proxStage P pr stop s)).2.2 != SolverStatus.Busy) = true := by
    simp [hb]
  have e : mainLoop P pr stop oot x0 y Sig errz0 (fuel + 1) s =
      exitBlock P pr (headStep P pr stop oot (proxStage P pr stop s)).1
        (headStep P pr stop oot (proxStage P pr stop s)).2.1
        (headStep P pr stop oot (proxStage P pr stop s)).2.2 x0 y Sig errz0 := by
    rw [mainLoop]; simp only [hne, if_true]
  refine ⟨e, ?_, ?_⟩
  · rw [e, (exitBlock_fields P pr _ _ _ x0 y Sig errz0).2.2.1, (headStep_curr P pr stop oot _).2.1,
      (proxStage_k P pr stop s).1]
  · rw [e]; exact (exitBlock_fields P pr _ _ _ x0 y Sig errz0).2.2.2.2.2.1

/-- Monotone flag: a request raised before a pass starts ends the solve at that pass's head. -/
theorem fista_stop_before_pass_exits (P : Problem α) (pr : Params α) (stop : Nat → Bool) (oot : Bool)
    (x0 y Sig errz0 : Vec α) (fuel : Nat) (s : St α)
    (hmono : ∀ a b, a ≤ b → stop a = true → stop b = true) (hs : stop s.tick = true) :
    (mainLoop P pr stop oot x0 y Sig errz0 (fuel + 1) s).stats.iterations = s.k ∧
    (mainLoop P pr stop oot x0 y Sig errz0 (fuel + 1) s).stats.status ≠ .Busy := by
  have hs' := hmono _ _ (head_tick_le P pr stop oot s) hs
  have h := fista_stop_at_head_exits P pr stop oot x0 y Sig errz0 fuel s hs'
  refine ⟨h.2.1, ?_⟩
  rw [h.1, (exitBlock_fields P pr _ _ _ x0 y Sig errz0).2.1]
  exact head_not_busy_of_stop P pr stop oot (proxStage P pr stop s) hs'

/-! ### The backtracking loop polls the flag -/

/-- **Once the flag is visible the backtracking loop makes no further call.** -/
theorem fista_backtrack_noop (P : Problem α) (pr : Params α) (stop : Nat → Bool) (f : Nat)
    (c : Iterate α) (t b : Nat) (h : stop t = true) :
    qubLoop P pr stop (f + 1) c t b = (c, t, b, false) :=
  qubLoop_stop_noop P pr stop f c t b h

/-- Monotone flag visible from tick `t₀` on: the prox / backtracking stage of a pass that starts at
    tick `t` ends at tick `≤ max (t + 3) (t₀ + 2)` (`3` = prox step, `ψ(x̂)`, `∇ψ(x̂)`; `t₀ + 2` = the
    halving in flight, then `∇ψ(x̂)`). -/
theorem fista_pass_ticks_after_stop (P : Problem α) (pr : Params α) (stop : Nat → Bool)
    (hmono : ∀ a b, a ≤ b → stop a = true → stop b = true) (t0 : Nat) (h0 : stop t0 = true)
    (s : St α) : (proxStage P pr stop s).tick ≤ max (s.tick + 3) (t0 + 2) := by
  have h1 : firstTick pr s ≤ s.tick + 2 := by unfold firstTick; split_ifs <;> omega
  have h2 := qubLoop_tick_bound P pr stop hmono t0 h0 pr.qubFuel (firstStep P pr s) (firstTick pr s)
    s.backtracks
  unfold proxStage
  simp only []
  split_ifs <;> omega

/-- Tick bound for the main loop: with a monotone flag visible from tick `t₀` on, a solve that is at
    the top of a pass at tick `s.tick` ends at tick `≤ max (s.tick + 6) (t₀ + 7)`.
    `6` = prox stage (`≤ 3`), the criterion's unit step, final callback, late `ψ(x̂)`;
    `7`: a pass whose head polled the flag at a tick `≤ t₀ − 1` is followed by the progress callback
    and `ψ, ∇ψ` at the next point (`≤ t₀ + 1`), the next pass's prox step, `ψ(x̂)` (its backtracking
    loop then does nothing), `∇ψ(x̂)`, the criterion's unit step (`≤ t₀ + 5`), the final callback and
    the late `ψ(x̂)`. -/
theorem fista_mainLoop_ticks_after_stop (P : Problem α) (pr : Params α) (stop : Nat → Bool)
    (hmono : ∀ a b, a ≤ b → stop a = true → stop b = true) (t0 : Nat) (h0 : stop t0 = true)
    (oot : Bool) (x0 y Sig errz0 : Vec α) (fuel : Nat) (s : St α) :
    (mainLoop P pr stop oot x0 y Sig errz0 fuel s).ticks ≤ max (s.tick + 6) (t0 + 7) := by
  induction fuel generalizing s with
  | zero =>
    have := (exitBlock_fields P pr s (0 : α) .Exception x0 y Sig errz0).2.2.2.2.2.1
    simp only [mainLoop]
    omega
  | succ f ih =>
    have hp := fista_pass_ticks_after_stop P pr stop hmono t0 h0 s
    have hht : (headStep P pr stop oot (proxStage P pr stop s)).1.tick
        ≤ (proxStage P pr stop s).tick + 1 := by
      have : epsTicks pr.stopCrit ≤ 1 := by cases pr.stopCrit <;> simp [epsTicks]
      unfold headStep; simp only []; omega
    by_cases hst : stop (headStep P pr stop oot (proxStage P pr stop s)).1.tick = true
    · have := (fista_stop_at_head_exits P pr stop oot x0 y Sig errz0 f s hst).2.2
      omega
    · have hlt : (headStep P pr stop oot (proxStage P pr stop s)).1.tick < t0 := by
        apply Nat.lt_of_not_le
        intro hc
        exact hst (hmono t0 _ hc h0)
      unfold mainLoop
      simp only []
      split_ifs with hb
      · have := (exitBlock_fields P pr (headStep P pr stop oot (proxStage P pr stop s)).1
          (headStep P pr stop oot (proxStage P pr stop s)).2.1
          (headStep P pr stop oot (proxStage P pr stop s)).2.2 x0 y Sig errz0).2.2.2.2.2.1
        omega
      · have hadv : (advance P pr (headStep P pr stop oot (proxStage P pr stop s)).1
            (headStep P pr stop oot (proxStage P pr stop s)).2.1).tick
            = (headStep P pr stop oot (proxStage P pr stop s)).1.tick + 2 := by
          unfold advance; simp only []
        have := ih (advance P pr (headStep P pr stop oot (proxStage P pr stop s)).1
          (headStep P pr stop oot (proxStage P pr stop s)).2.1)
        omega

/-- **At most one further pass's worth of evaluations after `stop()`, wherever it lands** (the
    backtracking loop included): if the flag, never lowered, is visible from tick `t₀` on, the solve
    ends at tick `≤ max 8 (t₀ + 7)` — `8` = a request already visible at the first poll
    (initialisation `≤ 2` calls, then `≤ 6` as above). -/
theorem fista_ticks_after_stop (P : Problem α) (pr : Params α) (stop : Nat → Bool)
    (hmono : ∀ a b, a ≤ b → stop a = true → stop b = true) (t0 : Nat) (h0 : stop t0 = true)
    (oot : Bool) (x0 y Sig errz0 gV : Vec α) (nan inf : α) :
    (run P pr stop oot x0 y Sig errz0 gV nan inf).ticks ≤ max 8 (t0 + 7) := by
  have hit : (initIterate P pr x0 gV nan).2 ≤ 2 := by
    unfold initIterate; simp only []; split_ifs <;> simp
  unfold run
  cases hi : initState P pr x0 gV nan with
  | inl t =>
    simp only []
    unfold initState at hi
    simp only [] at hi
    split_ifs at hi
    injection hi with hi
    omega
  | inr s =>
    simp only []
    have hs : s.tick ≤ 2 := by
      unfold initState at hi
      simp only [] at hi
      split_ifs at hi
      injection hi with hi
      subst hi
      exact hit
    have := fista_mainLoop_ticks_after_stop P pr stop hmono t0 h0 oot x0 y Sig errz0 (pr.maxIter + 2) s
    omega

/-- **With the flag visible at a loop-head check, the status is `Interrupted`, or it is the natural status
    whose own condition held at that head**: `Converged ∧ ε ≤ tol'`, `MaxTime ∧ out of time`,
    `MaxIter ∧ k = max_iter`, `NotFinite ∧ ε not finite`, `NoProgress ∧ counter > max_no_progress`
    (ε, k, counter = the values handed to `check_all_stop_conditions` at that head). -/
theorem fista_interrupted_or_natural (P : Problem α) (pr : Params α) (stop : Nat → Bool) (oot : Bool)
    (s : St α) (hs : stop (headStep P pr stop oot s).1.tick = true) :
    (headStep P pr stop oot s).2.2 = .Interrupted ∨
    ((headStep P pr stop oot s).2.2 = .Converged ∧ (headStep P pr stop oot s).2.1 ≤ C06.effTol pr.tolerance) ∨
    ((headStep P pr stop oot s).2.2 = .MaxTime ∧ oot = true) ∨
    ((headStep P pr stop oot s).2.2 = .MaxIter ∧ s.k = pr.maxIter) ∨
    ((headStep P pr stop oot s).2.2 = .NotFinite ∧ RealLike.isFinite (headStep P pr stop oot s).2.1 = false) ∨
    ((headStep P pr stop oot s).2.2 = .NoProgress ∧
      (headStep P pr stop oot s).1.noProgress > pr.maxNoProgress) := by
  have e : (headStep P pr stop oot s).2.2 =
      statusChain pr.tolerance pr.maxIter pr.maxNoProgress s.k (epsOf P pr s.curr)
        (noProgressUpdate s.noProgress s.k pr.maxNoProgress (s.curr.xhat == s.prev)) oot
        (stop (headStep P pr stop oot s).1.tick) := by
    unfold headStep statusOf; simp only []
  have e1 : (headStep P pr stop oot s).2.1 = epsOf P pr s.curr := by unfold headStep; rfl
  have e2 : (headStep P pr stop oot s).1.noProgress =
      noProgressUpdate s.noProgress s.k pr.maxNoProgress (s.curr.xhat == s.prev) := by unfold headStep; rfl
  rw [e, hs, e1, e2]
  exact C06.stop_gives_interrupted_or_natural _ _ _ _ _ _ _

/-! ### Non-vacuity: the concrete run of `Props/C03_Fista`, interrupted from the first callback -/

local instance instRealLikeRatC19F : RealLike ℚ := ⟨id, fun _ => false, fun _ => true⟩

def exP3 : Problem ℚ := { exP with prox := fun _ _ _ => (0, [1/2], [1]) }

/-- flag raised at tick 3 (during iteration 0): the solve ends at the next head with
    `Interrupted`, one iteration, outputs written. -/
example : (run exP3 { exPr with maxIter := 50, tolerance := 1/1000, alwaysOverwrite := false }
      (fun t => decide (t ≥ 3)) false [2] [1] [2] [0] [] 0 0).stats.status = .Interrupted ∧
    (run exP3 { exPr with maxIter := 50, tolerance := 1/1000, alwaysOverwrite := false }
      (fun t => decide (t ≥ 3)) false [2] [1] [2] [0] [] 0 0).stats.iterations = 1 ∧
    (run exP3 { exPr with maxIter := 50, tolerance := 1/1000, alwaysOverwrite := false }
      (fun t => decide (t ≥ 3)) false [2] [1] [2] [0] [] 0 0).x = [1/2] := by
  decide +kernel

/-- an instance whose first backtracking loop runs to `L_max` (`ψ(x̂)` huge, `L_0 = 1`,
    `L_max = 16`: 4 halvings); a request landing inside it (flag visible from tick 4, i.e. during
    the first halving) ends the loop after that halving, and the head of that pass returns
    `Interrupted` at tick 6 ≤ max 8 (4 + 7) with the single final callback -/
example :
    let r := fun k : Nat => run { exP with psi := fun _ => (1000, [3]), prox := fun _ _ _ => (0, [1/2], [1]) }
      { exPr with L0 := 1, Lmin := 1/2, Lmax := 16, maxIter := 5, tolerance := 1/1000 }
      (fun t => k != 0 && t ≥ k) false [2] [1] [2] [0] [] 0 0
    (r 0).stats.stepsizeBacktracks = 4 ∧ (r 0).ticks = 32 ∧
    (r 4).stats.stepsizeBacktracks = 1 ∧ (r 4).ticks = 6 ∧ (r 4).stats.status = .Interrupted ∧
    (r 4).stats.iterations = 0 ∧ (r 4).callbacks.length = 1 ∧ (r 4).fuelOut = false := by
  decide +kernel

end Alpaqa.Props.C19_Fista
