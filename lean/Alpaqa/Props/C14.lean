/-
  C14 — Sparsity-format conversions preserve the matrix.

  The theorems are about `Alpaqa.C14.convert` (`Alpaqa/Model/C14.lean`): one function per
  `SparsityConverter<From, To>` specialisation, whose triangle tests, scatter targets, index
  offsets, loop conditions, nnz formulas and result flags are the definitions of
  `Alpaqa/Gen/C14.lean`, regenerated from sparsity-conversions.hpp / sparsity.hpp /
  sparse-ops.hpp on every run.  The hand-written loop skeletons are tied to the real code by the
  correspondence run (`checks/c14.py`).  Everything holds for all dimensions (0×N and N×0
  included), all patterns, all index bases, all value types `β` and all value vectors.

  Reading of the property (DESIGN §6 C14): a representation *denotes* a matrix (`denote`) when its
  index structure is well formed, symmetric ⇒ square, every entry is in range and in the stored
  triangle, and entries are pairwise distinct (the library `assert`s uniqueness).  A successful
  conversion denotes the same matrix; conversions that materialise entries (to dense) reject the
  invalidities the property lists; sparse → sparse conversions never change the denotation, valid
  or not; unsupported requests throw.

  Eight of the nine conversions can succeed in this build; COO→CSC and CSC sorting are compiled out
  by the missing `std::views::zip` and are proved to always return an error
  (`cooToCsc_never_ok`, `unsupported_compiled_out`), so `convert_preserves` & co. say nothing about
  COO→CSC here (their hypothesis `convert … = .ok cv` is unsatisfiable for that pair).

  Not covered by any theorem: inputs on which the C++ has undefined behaviour (out-of-range
  indices in a conversion to dense, malformed outer pointers, index vectors of different
  length — `Err.ub` in the model), overflow of index-width casts, and the C++23 sorting paths
  that this toolchain compiles out (`Err.notModelled`).
-/
import Alpaqa.Proofs.C14

namespace Alpaqa.Props.C14
open Alpaqa Alpaqa.C14

variable {β : Type}

/-! ### Predicates used in the statements -/

/-- The index structure is well formed (outer pointers: `cols+1` of them, from 0, non-decreasing,
    up to nnz; coordinate lists of equal length).  These are the library's `assert`ed preconditions. -/
def StructWF : Sparsity → Prop
  | .dense _ => True
  | r => r.entries? ≠ none

/-- Every stored index is inside the matrix. -/
def InRange (r : Sparsity) : Prop :=
  ∀ es, r.entries? = some es → ∀ e ∈ es, inBounds r.rows r.cols e = true

/-- Some stored entry lies in the triangle that must stay empty. -/
def WrongTriangle (r : Sparsity) : Prop :=
  ∃ es, r.entries? = some es ∧ ∃ e ∈ es, triangleOk r.sym e = false

def NonSquareSymmetric (r : Sparsity) : Prop := r.sym ≠ .unsym ∧ r.rows ≠ r.cols

/-- No two stored entries address the same cell. -/
def NoDuplicates (r : Sparsity) : Prop := ∀ es, r.entries? = some es → es.Nodup

def IsSparse : Sparsity → Prop
  | .dense _ => False
  | _ => True

/-! ### 1. Conversions preserve the matrix -/

/-- **convert_preserves.**  If the pattern conversion succeeds and the source denotes a matrix `M`,
    then `convert_values` succeeds on every value vector and the converted representation with the
    converted values denotes the same `M` — same dimensions, same cell values (the permutation /
    scatter of the values is the one `convert_values` applies), symmetric entries mirrored. -/
theorem convert_preserves (z : β) (r : Sparsity) (t : Target) (req : Request) (v : List β) (M : Mat β)
    (hM : denote z r v = some M) {cv : Conv β} (hc : convert z r t req = .ok cv) :
    ∃ v', cv.vals v = .ok v' ∧ denote z cv.out v' = some M := by
  cases r with
  | dense d =>
    cases t with
    | dense =>
      simp only [convert, denseToDense] at hc
      split at hc
      · cases hc
      · cases hc; exact ⟨v, rfl, hM⟩
    | csc ity =>
      obtain ⟨hlow, hsq⟩ := dense_accepts (by simp) hc
      obtain ⟨s', f, v', hconv, hf, hden, _⟩ := denseToCsc_correct z d ity v hlow hsq
      simp only [convert] at hc
      rw [hconv] at hc; cases hc
      exact ⟨v', hf, by rw [hden]; exact hM⟩
    | coo ity =>
      obtain ⟨hlow, hsq⟩ := dense_accepts (by simp) hc
      obtain ⟨s', f, v', hconv, hf, hden, _⟩ := denseToCoo_correct z d ity req v hlow hsq
      simp only [convert] at hc
      rw [hconv] at hc; cases hc
      exact ⟨v', hf, by rw [hden]; exact hM⟩
  | csc s =>
    obtain ⟨es, hes, hval, rfl⟩ := denote_csc hM
    cases t with
    | dense =>
      obtain ⟨hconv, v', hv', _, _, hden⟩ := cscToDense_correct z s v hes hval
      simp only [convert] at hc
      rw [hconv] at hc; cases hc
      exact ⟨v', hv', hden⟩
    | csc ity =>
      obtain ⟨s', ho, hvals, hent, hr, hcl, hsy, _⟩ := cscToCsc_correct s ity req hc
      refine ⟨v, by rw [hvals]; rfl, ?_⟩
      rw [ho]; simp only [denote, hent, hes, hr, hcl, hsy, Option.bind_some]
      exact sparseMat_eq_some.mpr ⟨hval, rfl⟩
    | coo ity =>
      obtain ⟨s', hconv, hent, hr, hcl, hsy, _⟩ := cscToCoo_correct (β := β) s ity req hes
      simp only [convert] at hc
      rw [hconv] at hc; cases hc
      refine ⟨v, rfl, ?_⟩
      simp only [denote, hent, hr, hcl, hsy, Option.bind_some]
      exact sparseMat_eq_some.mpr ⟨hval, rfl⟩
  | coo s =>
    obtain ⟨es, hes, hval, rfl⟩ := denote_coo hM
    cases t with
    | dense =>
      obtain ⟨hconv, v', hv', _, _, hden⟩ := cooToDense_correct z s v hes hval
      simp only [convert] at hc
      rw [hconv] at hc; cases hc
      exact ⟨v', hv', hden⟩
    | csc ity => exact absurd hc (cooToCsc_never_ok (s := s) (ity := ity) (req := req))
    | coo ity =>
      obtain ⟨s', ho, hvals, hent, hr, hcl, hsy, _⟩ := cooToCoo_correct s ity req hc
      refine ⟨v, by rw [hvals]; rfl, ?_⟩
      rw [ho]; simp only [denote, hent, hes, hr, hcl, hsy, Option.bind_some]
      exact sparseMat_eq_some.mpr ⟨hval, rfl⟩

/-- **Symmetric entries mirrored in the dense target.**  After a sparse → dense conversion *every*
    cell of the column-major buffer (read without regard to the symmetry tag) holds the value of
    the denoted matrix: both triangles are filled, untouched cells are zero. -/
theorem toDense_fills_every_cell (z : β) (r : Sparsity) (hr : IsSparse r) (req : Request) (v : List β)
    (M : Mat β) (hM : denote z r v = some M) {cv : Conv β} (hc : convert z r .dense req = .ok cv) :
    ∃ v', cv.vals v = .ok v' ∧ v'.length = r.rows * r.cols ∧ denseRaw z r.rows r.cols v' = M := by
  cases r with
  | dense d => exact absurd hr (by simp [IsSparse])
  | csc s =>
    obtain ⟨es, hes, hval, rfl⟩ := denote_csc hM
    obtain ⟨hconv, v', hv', hl, hraw, _⟩ := cscToDense_correct z s v hes hval
    simp only [convert] at hc
    rw [hconv] at hc; cases hc
    exact ⟨v', hv', hl, hraw⟩
  | coo s =>
    obtain ⟨es, hes, hval, rfl⟩ := denote_coo hM
    obtain ⟨hconv, v', hv', hl, hraw, _⟩ := cooToDense_correct z s v hes hval
    simp only [convert] at hc
    rw [hconv] at hc; cases hc
    exact ⟨v', hv', hl, hraw⟩

/-! ### 2. Requested ordering and index base honoured; dimensions and symmetry kept -/

/-- **request_honoured.**  A successful conversion returns the requested format and index type
    with the dimensions and symmetry tag of the source; a COO target has exactly the requested
    `first_index` (default: 0, or the source's when the source is COO); a CSC target for which
    `SortedRows` was requested is tagged `SortedRows`. -/
theorem request_honoured (z : β) (r : Sparsity) (t : Target) (req : Request) {cv : Conv β}
    (hc : convert z r t req = .ok cv) :
    cv.out.rows = r.rows ∧ cv.out.cols = r.cols ∧ cv.out.sym = r.sym ∧
    (match t with
     | .dense => ∃ d, cv.out = .dense d
     | .csc ity => ∃ s', cv.out = .csc s' ∧ s'.ity = ity ∧
         (req.order = some .sortedRows → s'.order = .sortedRows)
     | .coo ity => ∃ s', cv.out = .coo s' ∧ s'.ity = ity ∧
         s'.firstIndex = req.firstIndex.getD (match r with | .coo s => s.firstIndex | _ => 0)) := by
  cases r with
  | dense d =>
    cases t with
    | dense =>
      simp only [convert, denseToDense] at hc
      split at hc
      · cases hc
      · cases hc; exact ⟨rfl, rfl, rfl, d, rfl⟩
    | csc ity =>
      obtain ⟨hlow, hsq⟩ := dense_accepts (by simp) hc
      obtain ⟨s', f, v', hconv, _, _, h1, h2, h3, h4, h5, _⟩ := denseToCsc_correct z d ity [] hlow hsq
      simp only [convert] at hc
      rw [hconv] at hc; cases hc
      exact ⟨h1, h2, h3, s', rfl, h4, fun _ => h5⟩
    | coo ity =>
      obtain ⟨hlow, hsq⟩ := dense_accepts (by simp) hc
      obtain ⟨s', f, v', hconv, _, _, h1, h2, h3, h4, h5, _⟩ := denseToCoo_correct z d ity req [] hlow hsq
      simp only [convert] at hc
      rw [hconv] at hc; cases hc
      exact ⟨h1, h2, h3, s', rfl, h4, h5⟩
  | csc s =>
    cases t with
    | dense =>
      simp only [convert, cscToDense] at hc
      split at hc
      · cases hc
      · cases hc; exact ⟨rfl, rfl, rfl, _, rfl⟩
    | csc ity =>
      obtain ⟨s', ho, _, _, hr, hcl, hsy, hity, hord, _⟩ := cscToCsc_correct s ity req hc
      rw [ho]
      exact ⟨hr, hcl, hsy, s', rfl, hity, fun h => (hord h).1⟩
    | coo ity =>
      obtain ⟨s', ho, hr, hcl, hsy, hity, hfi⟩ := cscToCoo_flags hc
      rw [ho]
      exact ⟨hr, hcl, hsy, s', rfl, hity, hfi⟩
  | coo s =>
    cases t with
    | dense =>
      simp only [convert, cooToDense] at hc
      split at hc
      · cases hc
      · cases hc; exact ⟨rfl, rfl, rfl, _, rfl⟩
    | csc ity => exact absurd hc (cooToCsc_never_ok (s := s) (ity := ity) (req := req))
    | coo ity =>
      obtain ⟨s', ho, _, _, hr, hcl, hsy, hity, hfi, _⟩ := cooToCoo_correct s ity req hc
      rw [ho]
      exact ⟨hr, hcl, hsy, s', rfl, hity, hfi⟩

/-- **Order tags stay truthful.**  If the source's order tag is truthful (and its index structure
    well formed) then so is the tag of the converted pattern: a result tagged `SortedRows` /
    `SortedByColsAndRows` / `SortedByColsOnly` … really is sorted that way. -/
theorem order_truthful (z : β) (r : Sparsity) (t : Target) (req : Request) (hwf : StructWF r)
    (htr : OrderTruthful r) {cv : Conv β} (hc : convert z r t req = .ok cv) :
    OrderTruthful cv.out := by
  cases r with
  | dense d =>
    cases t with
    | dense =>
      simp only [convert, denseToDense] at hc
      split at hc
      · cases hc
      · cases hc; trivial
    | csc ity =>
      obtain ⟨hlow, hsq⟩ := dense_accepts (by simp) hc
      obtain ⟨s', f, v', hconv, _, _, _, _, _, _, _, htr'⟩ := denseToCsc_correct z d ity [] hlow hsq
      simp only [convert] at hc
      rw [hconv] at hc; cases hc; exact htr'
    | coo ity =>
      obtain ⟨hlow, hsq⟩ := dense_accepts (by simp) hc
      obtain ⟨s', f, v', hconv, _, _, _, _, _, _, _, _, htr'⟩ := denseToCoo_correct z d ity req [] hlow hsq
      simp only [convert] at hc
      rw [hconv] at hc; cases hc; exact htr'
  | csc s =>
    cases t with
    | dense =>
      simp only [convert, cscToDense] at hc
      split at hc
      · cases hc
      · cases hc; trivial
    | csc ity =>
      obtain ⟨s', ho, _, hent, _, _, _, _, hord1, hord2⟩ := cscToCsc_correct s ity req hc
      rw [ho]
      intro es hes
      rw [hent] at hes
      have hsrc := htr es hes
      by_cases hreq : req.order = some .sortedRows
      · obtain ⟨h1, h2⟩ := hord1 hreq
        rw [h1]; rw [h2] at hsrc; exact hsrc
      · rw [hord2 hreq]; exact hsrc
    | coo ity =>
      cases hes : cscEntriesSpec s with
      | none => exact absurd hes hwf
      | some es =>
        obtain ⟨s', hconv, _, _, _, _, _, _, _, htr'⟩ := cscToCoo_correct (β := β) s ity req hes
        simp only [convert] at hc
        rw [hconv] at hc; cases hc
        exact htr' htr
  | coo s =>
    cases t with
    | dense =>
      simp only [convert, cooToDense] at hc
      split at hc
      · cases hc
      · cases hc; trivial
    | csc ity => exact absurd hc (cooToCsc_never_ok (s := s) (ity := ity) (req := req))
    | coo ity =>
      obtain ⟨s', ho, _, hent, _, _, _, _, _, hord⟩ := cooToCoo_correct s ity req hc
      rw [ho]
      intro es hes
      rw [hent] at hes
      rw [hord]; exact htr es hes

/-! ### 3. Invalid inputs are rejected by the conversions that materialise entries -/

/-- **toDense_rejects_invalid.**  A representation that is symmetric but not square, or that has an
    entry in the wrong triangle (indices in range, index structure well formed), is rejected with
    `std::invalid_argument` by the conversion to dense — by the constructor (shape) or by
    `convert_values` (triangle) — for every value vector. -/
theorem toDense_rejects_invalid (z : β) (r : Sparsity) (req : Request) (v : List β)
    (hb : InRange r) (hbad : NonSquareSymmetric r ∨ WrongTriangle r) :
    convertAll z r .dense req v = .error .invalidArgument := by
  by_cases hns : NonSquareSymmetric r
  · obtain ⟨h1, h2⟩ := hns
    cases r with
    | dense d =>
      simp only [Sparsity.sym, Sparsity.rows, Sparsity.cols] at h1 h2
      simp [convertAll, convert, denseToDense, Gen.C14.denseDenseRejectsShape, rejectsShape_true h1 h2]
    | csc s =>
      simp only [Sparsity.sym, Sparsity.rows, Sparsity.cols] at h1 h2
      simp [convertAll, convert, cscToDense, Gen.C14.cscDenseRejectsShape, rejectsShape_true h1 h2]
    | coo s =>
      simp only [Sparsity.sym, Sparsity.rows, Sparsity.cols] at h1 h2
      simp [convertAll, convert, cooToDense, Gen.C14.cooDenseRejectsShape, rejectsShape_true h1 h2]
  · have hsq : r.sym ≠ .unsym → r.rows = r.cols := by
      intro hs; by_contra hne; exact hns ⟨hs, hne⟩
    rcases hbad with h | ⟨es, hes, hbad⟩
    · exact absurd h hns
    · cases r with
      | dense d => simp [Sparsity.entries?] at hes
      | csc s =>
        simp only [Sparsity.sym, Sparsity.rows, Sparsity.cols, Sparsity.entries?] at hsq hes hbad
        have hb' := hb es (by simpa [Sparsity.entries?] using hes)
        simp only [Sparsity.rows, Sparsity.cols] at hb'
        obtain ⟨hwalk, hlen⟩ := cscWalk_of_spec hes
        have := scatter_rejects_triangle (cscDense_scatterSpec s.sym) hsq es hb' hbad v z 0
          (List.replicate (s.rows * s.cols) z)
        simp [convertAll, convert, cscToDense, Gen.C14.cscDenseRejectsShape, rejectsShape_false hsq,
          cscDenseVals, hwalk, hlen, this]
      | coo s =>
        simp only [Sparsity.sym, Sparsity.rows, Sparsity.cols, Sparsity.entries?] at hsq hes hbad
        have hb' := hb es (by simpa [Sparsity.entries?] using hes)
        simp only [Sparsity.rows, Sparsity.cols] at hb'
        have hwalk := cooWalk_of_spec hes
        have := scatter_rejects_triangle (cooDense_scatterSpec s.sym) hsq es hb' hbad v z 0
          (List.replicate (s.rows * s.cols) z)
        simp [convertAll, convert, cooToDense, Gen.C14.cooDenseRejectsShape, rejectsShape_false hsq,
          cooDenseVals, hwalk, this]

/-- **Whatever is converted to dense was valid.**  If pattern and value conversion to dense both
    succeed (on a well-formed structure without duplicate entries) then the source denotes a matrix:
    no invalid input is ever converted to a dense matrix. -/
theorem toDense_ok_valid (z : β) (r : Sparsity) (req : Request) (v : List β) (hwf : StructWF r)
    (hnd : NoDuplicates r) {out : Sparsity} {v' : List β}
    (hc : convertAll z r .dense req v = .ok (out, v')) : (denote z r v).isSome = true := by
  cases r with
  | dense d =>
    simp only [convertAll, convert, denseToDense] at hc
    split at hc
    · simp at hc
    · rename_i hrej
      simp only [denote, denseMat]
      have : ¬ (d.sym ≠ .unsym ∧ d.rows ≠ d.cols) := by
        rintro ⟨h1, h2⟩
        simp [Gen.C14.denseDenseRejectsShape, rejectsShape_true h1 h2] at hrej
      simp [this]
  | csc s =>
    cases hes : cscEntriesSpec s with
    | none => exact absurd hes hwf
    | some es =>
      obtain ⟨hwalk, hlen⟩ := cscWalk_of_spec hes
      by_cases hrej : Gen.C14.cscDenseRejectsShape s.sym.code s.rows s.cols = true
      · simp [convertAll, convert, cscToDense, hrej] at hc
      · have hsq : s.sym ≠ .unsym → s.rows = s.cols := by
          intro h1; by_contra h2
          exact hrej (by rw [Gen.C14.cscDenseRejectsShape]; exact rejectsShape_true h1 h2)
        simp only [convertAll, convert, cscToDense, hrej, Bool.false_eq_true, if_false, cscDenseVals,
          hwalk, hlen, gt_iff_lt, Nat.lt_irrefl] at hc
        cases hT : scatterGo (Gen.C14.cscDenseThrows s.sym.code) (Gen.C14.cscDenseWrites s.sym.code)
            s.rows s.cols v z es 0 (List.replicate (s.rows * s.cols) z) with
        | error e => rw [hT] at hc; simp at hc
        | ok T =>
          obtain ⟨hinb, htri⟩ := scatter_ok_valid (cscDense_scatterSpec s.sym) hT
          have hval : ValidEntries s.rows s.cols s.sym es :=
            ⟨hsq, hinb, htri, hnd es (by simpa [Sparsity.entries?] using hes)⟩
          simp only [denote, hes, Option.bind_some]
          rw [sparseMat_eq_some.mpr ⟨hval, rfl⟩]; rfl
  | coo s =>
    cases hes : cooEntriesSpec s with
    | none => exact absurd hes hwf
    | some es =>
      have hwalk := cooWalk_of_spec hes
      by_cases hrej : Gen.C14.cooDenseRejectsShape s.sym.code s.rows s.cols = true
      · simp [convertAll, convert, cooToDense, hrej] at hc
      · have hsq : s.sym ≠ .unsym → s.rows = s.cols := by
          intro h1; by_contra h2
          exact hrej (by rw [Gen.C14.cooDenseRejectsShape]; exact rejectsShape_true h1 h2)
        simp only [convertAll, convert, cooToDense, hrej, Bool.false_eq_true, if_false, cooDenseVals,
          hwalk] at hc
        cases hT : scatterGo (Gen.C14.cooDenseThrows s.sym.code) (Gen.C14.cooDenseWrites s.sym.code)
            s.rows s.cols v z es 0 (List.replicate (s.rows * s.cols) z) with
        | error e => rw [hT] at hc; simp at hc
        | ok T =>
          obtain ⟨hinb, htri⟩ := scatter_ok_valid (cooDense_scatterSpec s.sym) hT
          have hval : ValidEntries s.rows s.cols s.sym es :=
            ⟨hsq, hinb, htri, hnd es (by simpa [Sparsity.entries?] using hes)⟩
          simp only [denote, hes, Option.bind_some]
          rw [sparseMat_eq_some.mpr ⟨hval, rfl⟩]; rfl

/-! ### 4. Unsupported requests are rejected -/

/-- This build (feature macros of the harness' compiler, read by the translator) has no COO→CSC
    conversion and no CSC sorting. -/
theorem this_build_lacks_coo_csc : Gen.C14.haveCooCscConversions = false := by decide

/-- **unsupported_rejected (dense lower-triangular sources).** -/
theorem unsupported_dense_lower (z : β) (d : Dense) (hd : d.sym = .lower) (ity : IdxTy) (req : Request) :
    convert z (.dense d) (.coo ity) req = .error .invalidArgument ∧
    convert z (.dense d) (.csc ity) req = .error .invalidArgument := by
  obtain ⟨h1, h2⟩ := denseRejects_true d (Or.inl hd)
  simp [convert, denseToCoo, denseToCsc, h1, h2]

/-- **unsupported_rejected (non-square symmetric dense source → sparse).** -/
theorem dense_nonsquare_symmetric_rejected (z : β) (d : Dense) (hs : d.sym ≠ .unsym)
    (hne : d.rows ≠ d.cols) (t : Target) (req : Request) :
    convert z (.dense d) t req = .error .invalidArgument := by
  cases t with
  | dense =>
    simp [convert, denseToDense, Gen.C14.denseDenseRejectsShape, rejectsShape_true hs hne]
  | csc ity =>
    have hbad : d.sym = .lower ∨ (d.sym = .upper ∧ d.rows ≠ d.cols) := by
      cases h : d.sym
      · exact absurd h hs
      · exact Or.inr ⟨rfl, hne⟩
      · exact Or.inl rfl
    simp [convert, denseToCsc, (denseRejects_true d hbad).2]
  | coo ity =>
    have hbad : d.sym = .lower ∨ (d.sym = .upper ∧ d.rows ≠ d.cols) := by
      cases h : d.sym
      · exact absurd h hs
      · exact Or.inr ⟨rfl, hne⟩
      · exact Or.inl rfl
    simp [convert, denseToCoo, (denseRejects_true d hbad).1]

/-- **unsupported_rejected (converters compiled out).**  Without `std::views::zip/enumerate`
    COO→CSC throws `std::runtime_error` for every input, and so does CSC→CSC when sorting of an
    unsorted source is requested. -/
theorem unsupported_compiled_out (z : β) (hbuild : Gen.C14.haveCooCscConversions = false) :
    (∀ (s : COO) (ity : IdxTy) (req : Request),
      convert z (.coo s) (.csc ity) req = .error .runtimeError) ∧
    (∀ (s : CSC) (ity : IdxTy) (req : Request), req.order = some .sortedRows → s.order = .unsorted →
      convert z (.csc s) (.csc ity) req = .error .runtimeError) := by
  constructor
  · intro s ity req
    have : Err.ofName Gen.C14.cooCscFallbackThrows = .runtimeError := by decide
    simp [convert, cooToCsc, hbuild, this]
  · intro s ity req h1 h2
    have : Err.ofName Gen.C14.cscCscSortFallbackThrows = .runtimeError := by decide
    simp [convert, cscToCsc, hbuild, h1, h2, this]

/-! ### 5. Sparse → sparse conversions never change the denotation -/

/-- **sparse_to_sparse_passthrough.**  Values are copied unchanged and the converted pattern has
    the same denotation as the source, whether that is a matrix or `none` (an invalid pattern is
    passed through unchanged, never turned into a different matrix).  The only structural
    precondition is well-formed outer pointers for CSC → COO (the loop walks them). -/
theorem sparse_to_sparse_passthrough (z : β) (r : Sparsity) (t : Target) (req : Request) (v : List β)
    (hr : IsSparse r) (ht : t ≠ .dense)
    (hwf : ∀ s ity, r = .csc s → t = .coo ity → StructWF r)
    {cv : Conv β} (hc : convert z r t req = .ok cv) :
    cv.vals v = .ok v ∧ denote z cv.out v = denote z r v := by
  cases r with
  | dense d => exact absurd hr (by simp [IsSparse])
  | csc s =>
    cases t with
    | dense => exact absurd rfl ht
    | csc ity =>
      obtain ⟨s', ho, hvals, hent, hr', hcl, hsy, _⟩ := cscToCsc_correct s ity req hc
      refine ⟨by rw [hvals]; rfl, ?_⟩
      rw [ho]; simp only [denote, hent, hr', hcl, hsy]
    | coo ity =>
      cases hes : cscEntriesSpec s with
      | none => exact absurd hes (hwf s ity rfl rfl)
      | some es =>
        obtain ⟨s', hconv, hent, hr', hcl, hsy, _⟩ := cscToCoo_correct (β := β) s ity req hes
        simp only [convert] at hc
        rw [hconv] at hc; cases hc
        refine ⟨rfl, ?_⟩
        simp only [denote, hent, hes, hr', hcl, hsy]
  | coo s =>
    cases t with
    | dense => exact absurd rfl ht
    | csc ity => exact absurd hc (cooToCsc_never_ok (s := s) (ity := ity) (req := req))
    | coo ity =>
      obtain ⟨s', ho, hvals, hent, hr', hcl, hsy, _⟩ := cooToCoo_correct s ity req hc
      refine ⟨by rw [hvals]; rfl, ?_⟩
      rw [ho]; simp only [denote, hent, hr', hcl, hsy]

/-! ### 6. Tables regenerated from the source -/

/-- Every (from, to) pair of the three formats has a `SparsityConverter` specialisation. -/
theorem converters_complete :
    ∀ f ∈ ["Dense", "SparseCSC", "SparseCOO"], ∀ t ∈ ["Dense", "SparseCSC", "SparseCOO"],
      (f, t) ∈ Gen.C14.converterPairs := by decide

/-- The enumerator values the model's `code` functions (and the harness protocol) assume. -/
theorem enum_codes :
    Gen.C14.symmetryEnum = [("Unsymmetric", 0), ("Upper", 1), ("Lower", 2)] ∧
    Gen.C14.cscOrderEnum = [("Unsorted", 0), ("SortedRows", 1)] ∧
    Gen.C14.cooOrderEnum = [("Unsorted", 0), ("SortedByColsAndRows", 1), ("SortedByColsOnly", 2),
      ("SortedByRowsAndCols", 3), ("SortedByRowsOnly", 4)] := by decide

/-- The variant `Sparsity<Conf>` holds exactly the seven formats the model's `Sparsity` × `IdxTy`
    cover. -/
theorem variant_alternatives :
    Gen.C14.variantAlternatives =
      [("Dense", ""), ("SparseCSC", "int"), ("SparseCSC", "long"), ("SparseCSC", "long long"),
       ("SparseCOO", "int"), ("SparseCOO", "long"), ("SparseCOO", "long long")] ∧
    Gen.C14.hasVariantWrapper = true := by decide

/-- The simple converters copy the values unchanged (`from(to);`), as the model does. -/
theorem copy_converters :
    Gen.C14.denseDenseValuesCopy = true ∧ Gen.C14.cscCooValuesCopy = true ∧
    Gen.C14.cooCooValuesCopy = true := by decide

/-! ### 7. Non-vacuity: the hypotheses are satisfiable and the conclusions have content

(values over `Int`, zero = 0; evaluated by kernel reduction of the model) -/
section examples

/-- 2×3 unsymmetric COO with Fortran indices: `A = [[10, 0, 30], [0, 20, 0]]`. -/
def coo23 : Sparsity :=
  .coo { rows := 2, cols := 3, sym := .unsym, rowIdx := [1, 2, 1], colIdx := [1, 2, 3],
         order := .colsAndRows, firstIndex := 1, ity := .int }

/-- symmetric 3×3, upper triangle in CSC: `A = [[1, 2, 0], [2, 3, 0], [0, 0, 4]]`. -/
def csc33 : Sparsity :=
  .csc { rows := 3, cols := 3, sym := .upper, inner := [0, 0, 1, 2], outer := [0, 1, 3, 4],
         order := .sortedRows, ity := .long }

/-- the same structure tagged lower-triangular: entry (0, 1) is in the wrong triangle. -/
def csc33bad : Sparsity :=
  .csc { rows := 3, cols := 3, sym := .lower, inner := [0, 0, 1, 2], outer := [0, 1, 3, 4],
         order := .sortedRows, ity := .long }

/-- a 2×3 pattern tagged symmetric. -/
def coo23sym : Sparsity :=
  .coo { rows := 2, cols := 3, sym := .upper, rowIdx := [0], colIdx := [1],
         order := .unsorted, firstIndex := 0, ity := .int }

-- the hypotheses of `convert_preserves` / `toDense_fills_every_cell` hold …
example : (denote (0 : Int) coo23 [10, 20, 30]).isSome = true := by rfl
example : (denote (0 : Int) csc33 [1, 2, 3, 4]).isSome = true := by rfl
example : StructWF csc33 ∧ StructWF coo23 := by
  constructor
  · show csc33.entries? ≠ none
    have h' : csc33.entries? = some [(0, 0), (0, 1), (1, 1), (2, 2)] := rfl
    rw [h']; simp
  · show coo23.entries? ≠ none
    have h' : coo23.entries? = some [(0, 0), (1, 1), (0, 2)] := rfl
    rw [h']; simp
-- … and the conversions produce what one expects (column-major; mirrored cells filled)
example : convertAll (0 : Int) coo23 .dense {} [10, 20, 30] =
    .ok (.dense { rows := 2, cols := 3, sym := .unsym }, [10, 0, 0, 20, 30, 0]) := by rfl
example : convertAll (0 : Int) csc33 .dense {} [1, 2, 3, 4] =
    .ok (.dense { rows := 3, cols := 3, sym := .upper }, [1, 2, 0, 2, 3, 0, 0, 0, 4]) := by rfl
example : convertAll (0 : Int) csc33 (.coo .int) { firstIndex := some 1 } [1, 2, 3, 4] =
    .ok (.coo { rows := 3, cols := 3, sym := .upper, rowIdx := [1, 1, 2, 3], colIdx := [1, 2, 2, 3],
                order := .colsAndRows, firstIndex := 1, ity := .int }, [1, 2, 3, 4]) := by rfl
example : convertAll (0 : Int) coo23 (.coo .longlong) { firstIndex := some 0 } [10, 20, 30] =
    .ok (.coo { rows := 2, cols := 3, sym := .unsym, rowIdx := [0, 1, 0], colIdx := [0, 1, 2],
                order := .colsAndRows, firstIndex := 0, ity := .longlong }, [10, 20, 30]) := by rfl
-- dense symmetric source: the upper triangle is extracted (values 11 … 33 stored column-major)
example : convertAll (0 : Int) (.dense { rows := 3, cols := 3, sym := .upper }) (.coo .int)
      { firstIndex := some 1 } [11, 21, 31, 12, 22, 32, 13, 23, 33] =
    .ok (.coo { rows := 3, cols := 3, sym := .upper, rowIdx := [1, 1, 2, 1, 2, 3],
                colIdx := [1, 2, 2, 3, 3, 3], order := .colsAndRows, firstIndex := 1, ity := .int },
         [11, 12, 22, 13, 23, 33]) := by rfl
example : convertAll (0 : Int) (.dense { rows := 2, cols := 3, sym := .unsym }) (.csc .int) {}
      [1, 2, 3, 4, 5, 6] =
    .ok (.csc { rows := 2, cols := 3, sym := .unsym, inner := [0, 1, 0, 1, 0, 1], outer := [0, 2, 4, 6],
                order := .sortedRows, ity := .int }, [1, 2, 3, 4, 5, 6]) := by rfl
-- empty shapes
example : convertAll (0 : Int) (.dense { rows := 0, cols := 3, sym := .unsym }) (.csc .int) {} [] =
    .ok (.csc { rows := 0, cols := 3, sym := .unsym, inner := [], outer := [0, 0, 0, 0],
                order := .sortedRows, ity := .int }, []) := by rfl
-- the hypotheses of `toDense_rejects_invalid` hold for concrete invalid inputs, which are rejected
example : WrongTriangle csc33bad ∧ InRange csc33bad ∧ ¬ NonSquareSymmetric csc33bad := by
  refine ⟨⟨[(0, 0), (0, 1), (1, 1), (2, 2)], rfl, (0, 1), by simp, rfl⟩, ?_, by simp [NonSquareSymmetric, csc33bad, Sparsity.rows, Sparsity.cols]⟩
  intro es hes
  have : es = [(0, 0), (0, 1), (1, 1), (2, 2)] := by
    have h : csc33bad.entries? = some [(0, 0), (0, 1), (1, 1), (2, 2)] := rfl
    rw [h] at hes; exact (Option.some.inj hes).symm
  subst this
  decide
example : convertAll (0 : Int) csc33bad .dense {} [1, 2, 3, 4] = .error .invalidArgument := by rfl
example : NonSquareSymmetric coo23sym := by
  simp [NonSquareSymmetric, coo23sym, Sparsity.sym, Sparsity.rows, Sparsity.cols]
example : convertAll (0 : Int) coo23sym .dense {} [7] = .error .invalidArgument := by rfl
-- sparse → sparse passes the invalid pattern through unchanged (denotation `none` on both sides)
example : convertAll (0 : Int) coo23sym (.coo .long) { firstIndex := some 1 } [7] =
    .ok (.coo { rows := 2, cols := 3, sym := .upper, rowIdx := [1], colIdx := [2],
                order := .unsorted, firstIndex := 1, ity := .long }, [7]) := by rfl
example : (denote (0 : Int) coo23sym [7]).isNone = true := by rfl
-- unsupported requests in this build
example : convertAll (0 : Int) coo23 (.csc .int) {} [10, 20, 30] = .error .runtimeError := by rfl
example : convertAll (0 : Int) (.dense { rows := 2, cols := 2, sym := .lower }) (.coo .int) {}
    [1, 2, 3, 4] = .error .invalidArgument := by rfl
-- order tags
example : OrderTruthful csc33 := by
  intro es hes
  have h : cscEntriesSpec
      { rows := 3, cols := 3, sym := .upper, inner := [0, 0, 1, 2], outer := [0, 1, 3, 4],
        order := .sortedRows, ity := .long } = some [(0, 0), (0, 1), (1, 1), (2, 2)] := rfl
  rw [h] at hes; cases hes
  show List.Pairwise _ _
  decide

-- identity-format conversions, symmetric (Upper / Lower) sources, theorems applied to instances
/-- the symmetric matrix of `csc33`, lower triangle in COO with C indices. -/
def coo33low : Sparsity :=
  .coo { rows := 3, cols := 3, sym := .lower, rowIdx := [0, 1, 1, 2], colIdx := [0, 0, 1, 2],
         order := .colsAndRows, firstIndex := 0, ity := .int }

-- `.ok` for the two identity-format conversions (values copied, tags kept / index type changed)
example : convertAll (0 : Int) (.dense { rows := 2, cols := 3, sym := .unsym }) .dense {} [1, 2, 3, 4, 5, 6] =
    .ok (.dense { rows := 2, cols := 3, sym := .unsym }, [1, 2, 3, 4, 5, 6]) := by rfl
example : convertAll (0 : Int) (.dense { rows := 2, cols := 2, sym := .lower }) .dense {} [1, 2, 9, 3] =
    .ok (.dense { rows := 2, cols := 2, sym := .lower }, [1, 2, 9, 3]) := by rfl
example : convertAll (0 : Int) csc33 (.csc .int) {} [1, 2, 3, 4] =
    .ok (.csc { rows := 3, cols := 3, sym := .upper, inner := [0, 0, 1, 2], outer := [0, 1, 3, 4],
                order := .sortedRows, ity := .int }, [1, 2, 3, 4]) := by rfl
example : convertAll (0 : Int) csc33 (.csc .longlong) { order := some .sortedRows } [1, 2, 3, 4] =
    .ok (.csc { rows := 3, cols := 3, sym := .upper, inner := [0, 0, 1, 2], outer := [0, 1, 3, 4],
                order := .sortedRows, ity := .longlong }, [1, 2, 3, 4]) := by rfl
-- a lower-triangular source is mirrored into both triangles of the dense target
example : convertAll (0 : Int) coo33low .dense {} [1, 2, 3, 4] =
    .ok (.dense { rows := 3, cols := 3, sym := .lower }, [1, 2, 0, 2, 3, 0, 0, 0, 4]) := by rfl

/-- `convert_preserves` with both hypotheses discharged by evaluation: the source denotes a matrix
    and the pattern conversion succeeds, hence the value conversion succeeds and the result denotes
    the same matrix. -/
theorem convert_preserves_instance {β : Type} (z : β) (r : Sparsity) (t : Target) (req : Request) (v : List β)
    (h1 : (denote z r v).isSome = true) (h2 : ∃ cv, convert z r t req = .ok cv) :
    ∃ M cv v', denote z r v = some M ∧ convert z r t req = .ok cv ∧ cv.vals v = .ok v' ∧
      denote z cv.out v' = some M := by
  obtain ⟨M, hM⟩ := Option.isSome_iff_exists.mp h1
  obtain ⟨cv, hc⟩ := h2
  obtain ⟨v', hv, hd⟩ := convert_preserves z r t req v M hM hc
  exact ⟨M, cv, v', hM, hc, hv, hd⟩

-- symmetric sources: Upper (CSC, dense) and Lower (COO), into every target that this build supports
example := convert_preserves_instance (0 : Int) csc33 .dense {} [1, 2, 3, 4] rfl ⟨_, rfl⟩
example := convert_preserves_instance (0 : Int) csc33 (.coo .int) { firstIndex := some 1 } [1, 2, 3, 4] rfl ⟨_, rfl⟩
example := convert_preserves_instance (0 : Int) csc33 (.csc .int) {} [1, 2, 3, 4] rfl ⟨_, rfl⟩
example := convert_preserves_instance (0 : Int) coo33low .dense {} [1, 2, 3, 4] rfl ⟨_, rfl⟩
example := convert_preserves_instance (0 : Int) coo33low (.coo .long) { firstIndex := some 1 } [1, 2, 3, 4] rfl ⟨_, rfl⟩
example := convert_preserves_instance (0 : Int) (.dense { rows := 3, cols := 3, sym := .upper }) (.csc .int) {}
  [11, 21, 31, 12, 22, 32, 13, 23, 33] rfl ⟨_, rfl⟩
example := convert_preserves_instance (0 : Int) (.dense { rows := 3, cols := 3, sym := .upper }) (.coo .int) {}
  [11, 21, 31, 12, 22, 32, 13, 23, 33] rfl ⟨_, rfl⟩
example := convert_preserves_instance (0 : Int) (.dense { rows := 2, cols := 2, sym := .lower }) .dense {}
  [1, 2, 9, 3] rfl ⟨_, rfl⟩
-- unsymmetric source (the 2×3 COO)
example := convert_preserves_instance (0 : Int) coo23 .dense {} [10, 20, 30] rfl ⟨_, rfl⟩
/-- `toDense_fills_every_cell`, both hypotheses discharged by evaluation. -/
theorem toDense_fills_instance {β : Type} (z : β) (r : Sparsity) (hr : IsSparse r) (req : Request) (v : List β)
    (h1 : (denote z r v).isSome = true) (h2 : ∃ cv, convert z r .dense req = .ok cv) :
    ∃ M cv v', denote z r v = some M ∧ convert z r .dense req = .ok cv ∧ cv.vals v = .ok v' ∧
      v'.length = r.rows * r.cols ∧ denseRaw z r.rows r.cols v' = M := by
  obtain ⟨M, hM⟩ := Option.isSome_iff_exists.mp h1
  obtain ⟨cv, hc⟩ := h2
  obtain ⟨v', hv, hl, hd⟩ := toDense_fills_every_cell z r hr req v M hM hc
  exact ⟨M, cv, v', hM, hc, hv, hl, hd⟩
example := toDense_fills_instance (0 : Int) coo33low trivial {} [1, 2, 3, 4] rfl ⟨_, rfl⟩
example := toDense_fills_instance (0 : Int) csc33 trivial {} [1, 2, 3, 4] rfl ⟨_, rfl⟩

end examples

end Alpaqa.Props.C14
