/-
  DIRS — the loop-level theorems of C05 and C01 closed with the REAL direction providers
  (audit round 2, #8).

  `Proofs/PanocSized.DirSized n dir d₀` is the provider's size contract *on the states PANOC reaches*
  (`DirReach`); `Props/Directions.lean` §5 discharges it for the models of the four shipped
  providers (`dirSized_noop`, `dirSized_lbfgs`, `dirSized_slbfgs`, `dirSized_anderson`).  Here:

  * `panoc_inner_contract_{noop,lbfgs,slbfgs,anderson}` — `Props/C01_Alm.panoc_satisfies_inner_contract`
    with no provider hypothesis left (`memory ≥ 1`; for the structured provider: the argument checks of
    `initialize` pass);
  * `descent_loop_box_{lbfgs,slbfgs,anderson}` — `Props/C05.accepted_step_descent_loop_box` likewise;
  * a concrete PANOC + `LBFGSDirection` run over ℚ on a 2-dimensional box problem in which iteration 1
    accepts the quasi-Newton step (`τ = 1`), with the descent chain of C05 instantiated on it; and the
    ALM inner contract instantiated with `LBFGSDirection` on the closed-form problem of `Props/C01_Alm`,
    with a `Converged` run.
-/
import Alpaqa.Props.Directions
import Alpaqa.Props.C05
import Alpaqa.Props.C01_Alm

namespace Alpaqa.Props.DirectionsLoop
open Alpaqa Alpaqa.Gen Alpaqa.Panoc Alpaqa.Directions Alpaqa.Props.Directions Alpaqa.Props.C05
  Alpaqa.Props.C01Alm
set_option linter.unusedSectionVars false
set_option linter.unusedVariables false

section
variable {α : Type} [Field α] [LinearOrder α] [IsStrictOrderedRing α]
  [RealLike α] [PowLike α] [HasNaN α] [Alpaqa.Proofs.C07.NoNaN α]

/-! ### C01: the inner-solver contract of ALM, PANOC with each shipped provider -/

theorem panoc_inner_contract_noop (pb : ProblemCF α) (n m : Nat)
    (Pf : Vec α → Vec α → Panoc.Problem α) (hO : OracleContract pb n m Pf)
    (d0 : Latch Noop.State) (pr : Panoc.Params α) (hp : ParamsOK pr) (nf K : Nat) (hF : FuelOK pr nf K)
    (hcrit : pr.stopCrit = .ApproxKKT)
    (stop : C07.InnerCall α → Nat → Bool) (hmono : ∀ c, StopMono (stop c))
    (oot clock almStop : C07.InnerCall α → Bool) (gV : Vec α) (gS iS : α) :
    InnerContract pb n m (panocInner Pf noopDir d0 pr stop oot clock almStop gV gS iS) :=
  panoc_satisfies_inner_contract pb n m Pf hO noopDir d0 (dirSized_noop n d0) pr hp nf K hF hcrit stop
    hmono oot clock almStop gV gS iS

/-- **PANOC with `LBFGSDirection` satisfies ALM's inner-solver contract** — for every L-BFGS parameter
    set with `memory ≥ 1`, rescaling on or off, any initial provider state. -/
theorem panoc_inner_contract_lbfgs (pb : ProblemCF α) (n m : Nat)
    (Pf : Vec α → Vec α → Panoc.Problem α) (hO : OracleContract pb n m Pf)
    (c : LbfgsCfg α) (hm : 1 ≤ c.accel.memory) (d0 : Latch (Lbfgs.State α))
    (pr : Panoc.Params α) (hp : ParamsOK pr) (nf K : Nat) (hF : FuelOK pr nf K)
    (hcrit : pr.stopCrit = .ApproxKKT)
    (stop : C07.InnerCall α → Nat → Bool) (hmono : ∀ c, StopMono (stop c))
    (oot clock almStop : C07.InnerCall α → Bool) (gV : Vec α) (gS iS : α) :
    InnerContract pb n m (panocInner Pf (lbfgsDir c n) d0 pr stop oot clock almStop gV gS iS) :=
  panoc_satisfies_inner_contract pb n m Pf hO (lbfgsDir c n) d0 (dirSized_lbfgs c hm n d0) pr hp nf K hF
    hcrit stop hmono oot clock almStop gV gS iS

/-- … with `StructuredLBFGSDirection` (forced pairs of any curvature, either failure policy). -/
theorem panoc_inner_contract_slbfgs (pb : ProblemCF α) (m : Nat) (P : SProblem α)
    (Pf : Vec α → Vec α → Panoc.Problem α) (hO : OracleContract pb P.n m Pf)
    (c : SCfg α) (hm : 1 ≤ c.accel.memory)
    (hok : slbfgsInitThrows c.hvf c.fd c.fullAug P.provInactive P.provHessL P.provHessPsi P.provBoxD
      P.provGradGi = false)
    (d0 : Latch (SLbfgs.State α))
    (pr : Panoc.Params α) (hp : ParamsOK pr) (nf K : Nat) (hF : FuelOK pr nf K)
    (hcrit : pr.stopCrit = .ApproxKKT)
    (stop : C07.InnerCall α → Nat → Bool) (hmono : ∀ c, StopMono (stop c))
    (oot clock almStop : C07.InnerCall α → Bool) (gV : Vec α) (gS iS : α) :
    InnerContract pb P.n m (panocInner Pf (slbfgsDir P c) d0 pr stop oot clock almStop gV gS iS) :=
  panoc_satisfies_inner_contract pb P.n m Pf hO (slbfgsDir P c) d0 (dirSized_slbfgs P c hm hok d0) pr hp
    nf K hF hcrit stop hmono oot clock almStop gV gS iS

/-- … with `AndersonDirection`. -/
theorem panoc_inner_contract_anderson (pb : ProblemCF α) (n m : Nat)
    (Pf : Vec α → Vec α → Panoc.Problem α) (hO : OracleContract pb n m Pf)
    (c : AndersonCfg α) (y' Sig' : Vec α) (d0 : Latch (Anderson.State α))
    (pr : Panoc.Params α) (hp : ParamsOK pr) (nf K : Nat) (hF : FuelOK pr nf K)
    (hcrit : pr.stopCrit = .ApproxKKT)
    (stop : C07.InnerCall α → Nat → Bool) (hmono : ∀ c, StopMono (stop c))
    (oot clock almStop : C07.InnerCall α → Bool) (gV : Vec α) (gS iS : α) :
    InnerContract pb n m (panocInner Pf (andersonDir c n y' Sig') d0 pr stop oot clock almStop gV gS iS) :=
  panoc_satisfies_inner_contract pb n m Pf hO (andersonDir c n y' Sig') d0
    (dirSized_anderson c n y' Sig' d0) pr hp nf K hF hcrit stop hmono oot clock almStop gV gS iS

/-! ### C05: descent along the reported iterates, box / box+ℓ1 problems, each shipped provider -/

/-- **Descent along the reported iterates of PANOC + `LBFGSDirection`** on the box / box+ℓ1 problem
    class: `accepted_step_descent_loop_box` with no provider hypothesis left. -/
theorem descent_loop_box_lbfgs {n m : Nat} (l1 lb ub : Vec α) (hB : BoxData n l1 lb ub)
    (P : Panoc.Problem α) (hprox : ∀ γ x g, P.prox γ x g = Alpaqa.C15.proxGradStep l1 γ x g lb ub)
    (hS : SmoothSized n m P) (c : LbfgsCfg α) (hm : 1 ≤ c.accel.memory) (d0 : Latch (Lbfgs.State α))
    (pr : Panoc.Params α) (hp : ParamsOK pr) (hrec : pr.recomputeLastProx = false) (stop : Nat → Bool)
    (hmo : StopMono stop) (nf K : Nat) (hF : FuelOK pr nf K) (oot : Bool)
    (x0 y Sig errz0 gV : Vec α) (gS iS : α) (hx0 : x0.length = n) :
    List.IsChain (fun a b : Callback α => DescTo pr a b.fbe)
      (run P (lbfgsDir c n) d0 pr stop oot x0 y Sig errz0 gV gS iS).callbacks ∧
    ∀ cb ∈ (run P (lbfgsDir c n) d0 pr stop oot x0 y Sig errz0 gV gS iS).callbacks,
      cb.fbe = cb.it.fbe ∧ (cb.status = .Busy → 0 ≤ cb.tau) :=
  accepted_step_descent_loop_box l1 lb ub hB P hprox hS (lbfgsDir c n) d0 (dirSized_lbfgs c hm n d0) pr hp
    hrec stop hmo nf K hF oot x0 y Sig errz0 gV gS iS hx0

theorem descent_loop_box_slbfgs {m : Nat} (Ps : SProblem α) (l1 lb ub : Vec α)
    (hB : BoxData Ps.n l1 lb ub)
    (P : Panoc.Problem α) (hprox : ∀ γ x g, P.prox γ x g = Alpaqa.C15.proxGradStep l1 γ x g lb ub)
    (hS : SmoothSized Ps.n m P) (c : SCfg α) (hm : 1 ≤ c.accel.memory)
    (hok : slbfgsInitThrows c.hvf c.fd c.fullAug Ps.provInactive Ps.provHessL Ps.provHessPsi Ps.provBoxD
      Ps.provGradGi = false)
    (d0 : Latch (SLbfgs.State α))
    (pr : Panoc.Params α) (hp : ParamsOK pr) (hrec : pr.recomputeLastProx = false) (stop : Nat → Bool)
    (hmo : StopMono stop) (nf K : Nat) (hF : FuelOK pr nf K) (oot : Bool)
    (x0 y Sig errz0 gV : Vec α) (gS iS : α) (hx0 : x0.length = Ps.n) :
    List.IsChain (fun a b : Callback α => DescTo pr a b.fbe)
      (run P (slbfgsDir Ps c) d0 pr stop oot x0 y Sig errz0 gV gS iS).callbacks ∧
    ∀ cb ∈ (run P (slbfgsDir Ps c) d0 pr stop oot x0 y Sig errz0 gV gS iS).callbacks,
      cb.fbe = cb.it.fbe ∧ (cb.status = .Busy → 0 ≤ cb.tau) :=
  accepted_step_descent_loop_box l1 lb ub hB P hprox hS (slbfgsDir Ps c) d0
    (dirSized_slbfgs Ps c hm hok d0) pr hp hrec stop hmo nf K hF oot x0 y Sig errz0 gV gS iS hx0

theorem descent_loop_box_anderson {n m : Nat} (l1 lb ub : Vec α) (hB : BoxData n l1 lb ub)
    (P : Panoc.Problem α) (hprox : ∀ γ x g, P.prox γ x g = Alpaqa.C15.proxGradStep l1 γ x g lb ub)
    (hS : SmoothSized n m P) (c : AndersonCfg α) (y' Sig' : Vec α) (d0 : Latch (Anderson.State α))
    (pr : Panoc.Params α) (hp : ParamsOK pr) (hrec : pr.recomputeLastProx = false) (stop : Nat → Bool)
    (hmo : StopMono stop) (nf K : Nat) (hF : FuelOK pr nf K) (oot : Bool)
    (x0 y Sig errz0 gV : Vec α) (gS iS : α) (hx0 : x0.length = n) :
    List.IsChain (fun a b : Callback α => DescTo pr a b.fbe)
      (run P (andersonDir c n y' Sig') d0 pr stop oot x0 y Sig errz0 gV gS iS).callbacks ∧
    ∀ cb ∈ (run P (andersonDir c n y' Sig') d0 pr stop oot x0 y Sig errz0 gV gS iS).callbacks,
      cb.fbe = cb.it.fbe ∧ (cb.status = .Busy → 0 ≤ cb.tau) :=
  accepted_step_descent_loop_box l1 lb ub hB P hprox hS (andersonDir c n y' Sig') d0
    (dirSized_anderson c n y' Sig' d0) pr hp hrec stop hmo nf K hF oot x0 y Sig errz0 gV gS iS hx0

end

/-! ### Non-vacuity: PANOC + LBFGSDirection over ℚ, an accepted quasi-Newton step -/

section examples
open Alpaqa.Panoc.Example

local instance instPowLikeRat : PowLike ℚ := ⟨fun x _ => x⟩
local instance instHasNaNRat : HasNaN ℚ := ⟨0⟩
local instance : Alpaqa.Proofs.C07.NoNaN ℚ := ⟨fun _ => rfl⟩

/-- `ψ(x) = ½‖x‖²` on the box `[-10,10]²` through the shipped prox step (`C15.proxGradStep`). -/
def Pbox2 : Problem ℚ where
  psiGradPsi x := (sqNorm x / 2, x, [])
  psi x := (sqNorm x / 2, [])
  gradPsi x := x
  gradL x _ := x
  prox γ x g := C15.proxGradStep [] γ x g [-10, -10] [10, 10]

/-- `LBFGSDirection`, memory 2, default (curvature) scaling, `min_div_fac = min_abs_s = 0` -/
def cL2 : LbfgsCfg ℚ :=
  { accel := { memory := 2, minDivFac := 0, minAbsS := 0, cbfgsAlpha := 1, cbfgsEps := 0,
               forcePosDef := true, curvature := true }, rescale := false }

def d0L : Latch (Lbfgs.State ℚ) := ⟨Lbfgs.fresh, false⟩

/-- the run from `x₀ = (1, 2)` -/
def rL : Result ℚ (Latch (Lbfgs.State ℚ)) :=
  run Pbox2 (lbfgsDir cL2 2) d0L prq (stopAt none) false [1, 2] [] [] [] [] 0 0

/-- **Iteration 0 is a proximal-gradient step (`τ = 0`, no pair stored yet), iteration 1 accepts the
    quasi-Newton step with `τ = 1`** and lands on the minimiser `(0, 0)`; the pair
    `s = x₁ − x₀`, `y = p₀ − p₁ = γ s` passed the curvature test; no provider call threw. -/
example : rL.stats.status = .Converged ∧ rL.stats.iterations = 2 ∧ rL.fuelOut = false ∧
    rL.callbacks.map (fun c => (c.k, c.tau, c.it.x, c.q)) =
      [(0, 0, [1, 2], []), (1, 1, [21/40, 21/20], [-21/40, -21/20]), (2, -1, [0, 0], [])] ∧
    rL.x = [0, 0] ∧ rL.stats.tau1Accepted = 1 ∧ rL.stats.lbfgsRejected = 0 ∧ rL.dfinal.threw = false := by
  decide +kernel

theorem boxData_ex2 : BoxData 2 ([] : Vec ℚ) [-10, -10] [10, 10] := by
  refine ⟨?_, ?_, Or.inl (by simp)⟩
  · intro i hi
    have : i = 0 ∨ i = 1 := by omega
    rcases this with rfl | rfl <;> norm_num [vget]
  · intro i _; simp [Alpaqa.Props.C15.lamAt]

/-- `descent_loop_box_lbfgs` on that run, every hypothesis discharged: the prox contract by
    `proxSpec_box`, the provider's contract by `dirSized_lbfgs`, sizes, parameters, fuel. -/
example : List.IsChain (fun a b : Callback ℚ => DescTo prq a b.fbe) rL.callbacks :=
  (descent_loop_box_lbfgs (n := 2) (m := 0) [] [-10, -10] [10, 10] boxData_ex2 Pbox2 (fun _ _ _ => rfl)
    ⟨fun x h => h, fun _ _ => rfl, fun _ _ => rfl, fun x h => h, fun x _ h _ => h⟩
    cL2 (by decide) d0L prq paramsOK_prq rfl (stopAt none) (stopAt_mono none) 1 9 fuelOK_prq
    false [1, 2] [] [] [] [] 0 0 rfl).1

/-- … the link for the accepted quasi-Newton step (`τ₁ = 1 > 0`):
    `φ₂ ≤ φ₁ − β(1−γL)/(2γ)·‖p₁‖²` -/
example : ∀ a b c, rL.callbacks = [a, b, c] →
    c.fbe ≤ b.fbe - prq.lsStrictness * (1 - b.it.gamma * b.it.L) / (2 * b.it.gamma) * b.it.pTp +
      (1 + |b.fbe|) * prq.lsTol := by
  intro a b c habc
  have h := (descent_loop_box_lbfgs (n := 2) (m := 0) [] [-10, -10] [10, 10] boxData_ex2 Pbox2
    (fun _ _ _ => rfl) ⟨fun x h => h, fun _ _ => rfl, fun _ _ => rfl, fun x h => h, fun x _ h _ => h⟩
    cL2 (by decide) d0L prq paramsOK_prq rfl (stopAt none) (stopAt_mono none) 1 9 fuelOK_prq
    false [1, 2] [] [] [] [] 0 0 rfl).1
  have hr : run Pbox2 (lbfgsDir cL2 2) d0L prq (stopAt none) false [1, 2] [] [] [] [] 0 0 = rL := rfl
  rw [hr, habc] at h
  have h2 := (List.isChain_cons_cons.mp (List.isChain_cons_cons.mp h).2).1
  have hτ : b.tau = 1 := by
    have : (rL.callbacks.map (·.tau)) = [0, 1, -1] := by decide +kernel
    rw [habc] at this
    simpa using (List.cons.inj (List.cons.inj this).2).1
  exact h2.1 (by rw [hτ]; norm_num) rfl

/-- `panoc_lbfgs_direction` on that run: at the head of iteration 1 the buffer is `resize 2` followed by
    one un-forced `update` (stored: positive curvature), and the direction offered is the dense BFGS
    operator of that one-pair history applied to `p₁` — here `H p₁ = −x₁`. -/
example : (runHeads Pbox2 (lbfgsDir cL2 2) d0L prq (stopAt none) false [1, 2] [] 0 0).map
      (fun s => (s.k, (directionStage (lbfgsDir cL2 2) s).2.2.2.1, (directionStage (lbfgsDir cL2 2) s).2.2.1,
        s.d.st.abs)) =
    [(0, 0, [], []), (1, 1, [-21/40, -21/20], [([-19/40, -19/20], [-361/1600, -361/800])])] := by
  decide +kernel

/-- the ALM inner contract with `LBFGSDirection` on the closed-form problem `pbEx` of `Props/C01_Alm`,
    no hypothesis left … -/
theorem panocEx_contract_lbfgs :
    InnerContract pbEx 1 1
      (panocInner (cfProblem pbEx psiEx) (lbfgsDir cL2 1) d0L prEx (fun _ _ => false) (fun _ => false)
        (fun _ => false) (fun _ => false) [] 0 0) :=
  panoc_inner_contract_lbfgs pbEx 1 1 (cfProblem pbEx psiEx) pbEx_contract cL2 (by decide) d0L prEx
    ⟨by norm_num [prEx, prq], by norm_num [prEx, prq], by norm_num [prEx, prq], by norm_num [prEx, prq]⟩
    1 9 (by refine ⟨?_, ?_, ?_, ?_, ?_, by norm_num, ?_, ?_⟩ <;> norm_num [prEx, prq, Lstart])
    rfl (fun _ _ => false) (fun _ s t _ h => by cases h) (fun _ => false) (fun _ => false) (fun _ => false) [] 0 0

/-- … and not vacuous: from `x = 1/2` PANOC + L-BFGS reports `Converged` at the solution `x = 1`, `y = 2`. -/
example :
    let r := panocInner (cfProblem pbEx psiEx) (lbfgsDir cL2 1) d0L prEx (fun _ _ => false) (fun _ => false)
      (fun _ => false) (fun _ => false) [] 0 0 ⟨[1/2], [2], [1], [7], ⟨true, 1/10, 0, false⟩⟩
    r.status = .Converged ∧ r.x = [1] ∧ r.y = [2] := by
  decide +kernel

end examples

end Alpaqa.Props.DirectionsLoop
