/-
  C04 — Augmented-Lagrangian evaluations equal their definition for every provider mix.

  Objects:
  * `Gen.C04.calc_yhat_dTyhat`, `Gen.C04.default_eval_*` — regenerated from
    `type-erased-problem.tpp` on every run (`gen/gen_c04.py`), parameterised by the vtable record
    `C04.VTable` (calls through the vtable are oracle calls);
  * `C04.resolve B P` — the vtable the `ProblemVTable` constructor builds for a problem with basic
    functions `B` that supplies exactly the optional functions in `P : Provided` (hand model, tied
    by the correspondence run over all provider masks);
  * closed forms `C04.specPsi`, `yhatSpec`, `dsqSpec`, `specGradPsi`, … built from `f ∇f g ∇g·y`
    and the projection difference only.

  All algebraic theorems hold over every linearly ordered field (ℚ, ℝ, …), any `n`, `m`
  (`m = 0` included), `Σ` a vector or one shared factor, bounds with infinite sides (`Option`) and
  equal bounds.  IEEE rounding is not modelled (the Float instance is tied bit-for-bit by
  `checks/c04.py`, and measured against the exact closed forms by its monitors).
-/
import Alpaqa.Proofs.C04Resolve
import Alpaqa.Proofs.C04Box
import Alpaqa.Proofs.C04Deriv

namespace Alpaqa.Props.C04
open Alpaqa Alpaqa.C04 Alpaqa.Gen.C04
set_option linter.unusedSectionVars false
set_option linter.unusedVariables false

section algebra
variable {α : Type} [Field α] [LinearOrder α] [IsStrictOrderedRing α]

/-! ### `calc_ŷ_dᵀŷ`: both branches -/

/-- `calc_ŷ_dᵀŷ(g, y, Σ)` returns `ŷ = Σ ⊙ d` and `dᵀŷ = Σ_i d_i Σ_i d_i` with
    `d = eval_proj_diff_g(g + Σ⁻¹y)`, whichever branch (`Σ.size() == 1` or vector) runs. -/
theorem calc_closed (vt : VTable α) (g y Sig : Vec α) (m : Nat) (hg : g.length = m)
    (hy : y.length = m) (hS : Sig.length = 1 ∨ Sig.length = m)
    (hpd : ∀ z : Vec α, z.length = m → (vt.eval_proj_diff_g z).length = m) :
    calc_yhat_dTyhat vt g y Sig
      = (dsqSpec vt.eval_proj_diff_g g y Sig, yhatSpec vt.eval_proj_diff_g g y Sig) :=
  Alpaqa.C04.calc_closed vt g y Sig m hg hy hS hpd

/-- The `Σ.size() == 1` branch equals the vector branch at the constant penalty vector. -/
theorem scalar_sigma_branch_eq (vt : VTable α) (g y : Vec α) (σ : α) (hg : g.length = y.length)
    (hpd : ∀ z : Vec α, z.length = y.length → (vt.eval_proj_diff_g z).length = y.length) :
    calc_yhat_dTyhat vt g y [σ] = calc_yhat_dTyhat vt g y (List.replicate y.length σ) :=
  calc_scalar_eq_vector vt g y σ hg hpd

/-- `ŷ_i = Σ_i (ζ_i − Π_D ζ_i)`, `ζ_i = g_i + y_i/Σ_i`, for a box `D` with optional (infinite)
    sides; `Σ` a vector or one shared factor. -/
theorem yhat_closed (vt : VTable α) (D : BoxD α) (g y Sig : Vec α) (m : Nat)
    (hvt : vt.eval_proj_diff_g = boxProjDiff D) (hD : D.length = m) (hg : g.length = m)
    (hy : y.length = m) (hS : Sig.length = 1 ∨ Sig.length = m) (i : Nat) (hi : i < m) :
    vget (calc_yhat_dTyhat vt g y Sig).2 i
      = sigmaAt Sig i * (zetaAt g y Sig i - proj1 (lbAt D i) (ubAt D i) (zetaAt g y Sig i)) := by
  have hpd : ∀ z : Vec α, z.length = m → (vt.eval_proj_diff_g z).length = m := by
    intro z hz; rw [hvt, length_boxProjDiff, hz, hD]; simp
  rw [Alpaqa.C04.calc_closed vt g y Sig m hg hy hS hpd]
  simp only [yhatSpec]
  rw [vget_map_range _ _ _ (by omega), hvt,
    vget_boxProjDiff D _ i (by rw [length_zetaV]; omega) (by omega)]
  unfold zetaV
  rw [vget_map_range _ _ _ (by omega)]
  rfl

/-- `dᵀŷ = Σ_i Σ_i (ζ_i − Π_D ζ_i)²` (so `ψ = f + ½ dᵀŷ = f + ½ dist_Σ²(ζ, D)`). -/
theorem dTyhat_closed (vt : VTable α) (D : BoxD α) (g y Sig : Vec α) (m : Nat)
    (hvt : vt.eval_proj_diff_g = boxProjDiff D) (hD : D.length = m) (hg : g.length = m)
    (hy : y.length = m) (hS : Sig.length = 1 ∨ Sig.length = m) :
    (calc_yhat_dTyhat vt g y Sig).1
      = ((List.range m).map fun i =>
          sigmaAt Sig i * (zetaAt g y Sig i - proj1 (lbAt D i) (ubAt D i) (zetaAt g y Sig i)) ^ 2).sum := by
  have hpd : ∀ z : Vec α, z.length = m → (vt.eval_proj_diff_g z).length = m := by
    intro z hz; rw [hvt, length_boxProjDiff, hz, hD]; simp
  rw [Alpaqa.C04.calc_closed vt g y Sig m hg hy hS hpd]
  simp only [dsqSpec]
  rw [sumL_eq_sum, hy]
  congr 1
  apply List.map_congr_left
  intro i hi
  have hi' : i < m := List.mem_range.mp hi
  rw [hvt, vget_boxProjDiff D _ i (by rw [length_zetaV]; omega) (by omega)]
  unfold zetaV
  rw [vget_map_range _ _ _ (by omega)]
  unfold pd1
  ring

/-- The closed-form sum *is* the squared `Σ`-distance to the box: `Π_D ζ ∈ D` and no `w ∈ D`
    is closer, for `Σ ≥ 0` and every non-empty box (infinite sides, equal bounds). -/
theorem weighted_dist_min (σ : α) (l u : Bnd α) (hσ : 0 ≤ σ) (hok : BndOK l u) (ζ w : α)
    (hw : InBnd l u w) :
    InBnd l u (proj1 l u ζ) ∧ σ * (ζ - proj1 l u ζ) ^ 2 ≤ σ * (ζ - w) ^ 2 :=
  ⟨proj1_in l u hok ζ, mul_le_mul_of_nonneg_left (proj1_closest l u hok ζ w hw) hσ⟩

/-! ### the constructor's vtable: defaults call back through the final vtable -/

/-- Each optional slot of `resolve B P` holds the user's function when supplied and otherwise the
    generated default *applied to the final vtable itself* — exactly the C++ situation where a
    default receives `const ProblemVTable &vtable` at call time.  (The staged definition of
    `resolve` is only a way to write this fixpoint down; this theorem fails to compile if a
    regenerated default starts reading a slot of a later stage.) -/
theorem resolve_fixpoint (B : Basic α) (P : Provided α) :
    (resolve B P).eval_f_grad_f
        = (match P.f_grad_f with | some u => u | none => default_eval_f_grad_f (resolve B P)) ∧
    (resolve B P).eval_f_g
        = (match P.f_g with | some u => u | none => default_eval_f_g (resolve B P)) ∧
    (resolve B P).eval_grad_f_grad_g_prod
        = (match P.grad_f_grad_g_prod with
            | some u => u | none => default_eval_grad_f_grad_g_prod (resolve B P)) ∧
    (resolve B P).eval_grad_L
        = (match P.grad_L with | some u => u | none => default_eval_grad_L (resolve B P)) ∧
    (resolve B P).eval_psi
        = (match P.psi with
            | some u => fun x y S _ => u x y S | none => default_eval_psi (resolve B P)) ∧
    (resolve B P).eval_grad_psi
        = (match P.grad_psi with | some u => u | none => default_eval_grad_psi (resolve B P)) ∧
    (resolve B P).eval_psi_grad_psi
        = (match P.psi_grad_psi with
            | some u => u | none => default_eval_psi_grad_psi (resolve B P)) ∧
    (resolve B P).eval_hess_L_prod
        = (match P.hess_L_prod with
            | some h => fun x y s w => some (h x y s w)
            | none => default_eval_hess_L_prod (resolve B P)) ∧
    (resolve B P).eval_hess_L
        = (match P.hess_L with
            | some h => fun x y s => some (h x y s) | none => default_eval_hess_L (resolve B P)) ∧
    (resolve B P).eval_hess_psi_prod
        = (match P.hess_psi_prod with
            | some h => fun x y S s w => some (h x y S s w)
            | none => default_eval_hess_psi_prod (resolve B P)) ∧
    (resolve B P).eval_hess_psi
        = (match P.hess_psi with
            | some h => fun x y S s => some (h x y S s)
            | none => default_eval_hess_psi (resolve B P)) := by
  obtain ⟨a1, a2, a3, a4, a5, a6, a7, a8, a9, a10, a11⟩ := P
  refine ⟨?_, ?_, ?_, ?_, ?_, ?_, ?_, ?_, ?_, ?_, ?_⟩
  · cases a1 <;> rfl
  · cases a2 <;> rfl
  · cases a3 <;> rfl
  · cases a4 <;> rfl
  · cases a5 <;> rfl
  · cases a6 <;> rfl
  · cases a7 <;> rfl
  · cases a8 <;> rfl
  · cases a9 <;> rfl
  · cases a10 <;> rfl
  · cases a11 <;> rfl

/-- Required slots, dimensions and `provides` flags of the constructed vtable. -/
theorem resolve_required (B : Basic α) (P : Provided α) :
    (resolve B P).eval_f = B.f ∧ (resolve B P).eval_grad_f = B.grad_f ∧
    (resolve B P).eval_g = B.g ∧ (resolve B P).eval_grad_g_prod = B.grad_g_prod ∧
    (resolve B P).eval_proj_diff_g = B.proj_diff_g ∧ (resolve B P).n = B.n ∧
    (resolve B P).m = B.m ∧
    (resolve B P).p_eval_hess_L_prod = P.hess_L_prod.isSome ∧
    (resolve B P).p_eval_hess_L = P.hess_L.isSome ∧
    (resolve B P).p_eval_hess_psi_prod = P.hess_psi_prod.isSome ∧
    (resolve B P).p_eval_hess_psi = P.hess_psi.isSome :=
  ⟨rfl, rfl, rfl, rfl, rfl, rfl, rfl, rfl, rfl, rfl, rfl⟩

/-! ### every provider mix gives the closed forms -/

/-- **Main theorem.** If every optional function the problem *supplies* equals its closed form
    (that is what supplying it means), then *every* entry of the constructed vtable equals its
    closed form built from `f, ∇f, g, ∇g·y` and the projection difference alone — for all 2⁷
    subsets of `{f_grad_f, f_g, grad_f_grad_g_prod, grad_L, ψ, grad_ψ, ψ_grad_ψ}` at once, for all
    `x ∈ ℝⁿ`, `y ∈ ℝᵐ`, `Σ` a vector or one shared factor, `m = 0` included:
    `ψ = f + ½ Σ_i d_i Σ_i d_i`, `ŷ = Σ ⊙ d`, `∇ψ = ∇f + ∇g·ŷ`, `ψ_grad_ψ = (ψ, ∇ψ)`,
    `∇L = ∇f + ∇g·y`, `f_g = (f, g)`, `f_grad_f = (f, ∇f)`. -/
theorem resolve_correct (B : Basic α) (hB : WF B) (P : Provided α) (hP : P.Sound B) :
    (resolve B P).Sound B where
  calcY := fun g y Sig hg hy hS => by
    have := Alpaqa.C04.calc_closed (resolve B P) g y Sig B.m hg hy hS (by simpa using hB.len_pd)
    simpa using this
  f_grad_f := fun x hx => stage1_f_grad_f B P hP x hx
  f_g := fun x hx => stage1_f_g B P hP x hx
  grad_f_grad_g_prod := fun x y hx hy => stage1_gfggp B P hP x y hx hy
  grad_L := fun x y hx hy => resolve_grad_L B hB P hP x y hx hy
  psi := fun x y Sig yh ha hyh => resolve_psi B hB P hP x y Sig yh ha hyh
  grad_psi := fun x y Sig ha => resolve_grad_psi B hB P hP x y Sig ha
  psi_grad_psi := fun x y Sig ha => resolve_psi_grad_psi B hB P hP x y Sig ha

/-- `ψ = f + ½ Σ_i Σ_i (ζ_i − Π_D ζ_i)²` through the interface, for a box-constrained problem. -/
theorem psi_closed (B : Basic α) (hB : WF B) (P : Provided α) (hP : P.Sound B) (D : BoxD α)
    (hD : B.proj_diff_g = boxProjDiff D) (hDl : D.length = B.m) (x y Sig yh : Vec α)
    (ha : Args B x y Sig) (hyh : yh.length = B.m) :
    ((resolve B P).eval_psi x y Sig yh).1
      = B.f x + 1 / 2 * ((List.range B.m).map fun i =>
          sigmaAt Sig i * (zetaAt (B.g x) y Sig i
            - proj1 (lbAt D i) (ubAt D i) (zetaAt (B.g x) y Sig i)) ^ 2).sum := by
  rw [resolve_psi B hB P hP x y Sig yh ha hyh]
  obtain ⟨hx, hy, hS⟩ := ha
  have h := dTyhat_closed (resolve B P) D (B.g x) y Sig B.m (by simpa using hD) hDl
    (hB.len_g x hx) hy hS
  rw [Alpaqa.C04.calc_closed (resolve B P) (B.g x) y Sig B.m (hB.len_g x hx) hy hS
    (by simpa using hB.len_pd)] at h
  simp only [resolve_pd] at h
  simp only [specPsi]
  rw [h]; ring

/-- `∇ψ = ∇f + ∇g·ŷ` through the interface (`eval_grad_ψ`). -/
theorem grad_psi_closed (B : Basic α) (hB : WF B) (P : Provided α) (hP : P.Sound B)
    (x y Sig : Vec α) (ha : Args B x y Sig) :
    (resolve B P).eval_grad_psi x y Sig
      = vadd (B.grad_f x) (B.grad_g_prod x (yhatSpec B.proj_diff_g (B.g x) y Sig)) :=
  resolve_grad_psi B hB P hP x y Sig ha

/-- `∇L = ∇f + ∇g·y` through the interface (`eval_grad_L`). -/
theorem grad_L_closed (B : Basic α) (hB : WF B) (P : Provided α) (hP : P.Sound B) (x y : Vec α)
    (hx : x.length = B.n) (hy : y.length = B.m) :
    (resolve B P).eval_grad_L x y = vadd (B.grad_f x) (B.grad_g_prod x y) :=
  resolve_grad_L B hB P hP x y hx hy

/-- `eval_ψ_grad_ψ = (ψ, ∇ψ)`: the combined evaluation agrees with the two separate ones, and
    `eval_ψ`'s `ŷ` is the vector `eval_grad_ψ` multiplies `∇g` with. -/
theorem psi_grad_psi_consistent (B : Basic α) (hB : WF B) (P : Provided α) (hP : P.Sound B)
    (x y Sig yh : Vec α) (ha : Args B x y Sig) (hyh : yh.length = B.m) :
    (resolve B P).eval_psi_grad_psi x y Sig
      = (((resolve B P).eval_psi x y Sig yh).1, (resolve B P).eval_grad_psi x y Sig) ∧
    (resolve B P).eval_grad_psi x y Sig
      = (resolve B P).eval_grad_L x ((resolve B P).eval_psi x y Sig yh).2 := by
  rw [resolve_psi_grad_psi B hB P hP x y Sig ha, resolve_psi B hB P hP x y Sig yh ha hyh,
    resolve_grad_psi B hB P hP x y Sig ha]
  refine ⟨rfl, ?_⟩
  rw [resolve_grad_L B hB P hP x _ ha.1 (by simp only [specPsi]; rw [length_yhatSpec, ha.2.1])]
  rfl

/-- `m = 0`: `ψ = f`, `∇ψ = ∇L = ∇f`, for every provider mix. -/
theorem m_zero_shortcuts (B : Basic α) (hB : WF B) (P : Provided α) (hP : P.Sound B)
    (hm : B.m = 0) (x Sig : Vec α) (hx : x.length = B.n)
    (hS : Sig.length = 1 ∨ Sig.length = B.m) :
    (resolve B P).eval_psi x [] Sig [] = (B.f x, []) ∧
    (resolve B P).eval_grad_psi x [] Sig = B.grad_f x ∧
    (resolve B P).eval_grad_L x [] = B.grad_f x ∧
    (resolve B P).eval_psi_grad_psi x [] Sig = (B.f x, B.grad_f x) := by
  have ha : Args B x [] Sig := ⟨hx, by simp [hm], hS⟩
  have hz : vadd (B.grad_f x) (B.grad_g_prod x []) = B.grad_f x := by
    rw [hB.ggp_nil hm x hx, vadd_replicate_zero _ _ (hB.len_grad_f x hx)]
  refine ⟨?_, ?_, ?_, ?_⟩
  · rw [resolve_psi B hB P hP x [] Sig [] ha (by simp [hm])]
    simp [specPsi, dsqSpec, yhatSpec, sumL_nil]
  · rw [resolve_grad_psi B hB P hP x [] Sig ha]
    simp only [specGradPsi, specGradL, yhatSpec, List.length_nil, List.range_zero, List.map_nil]
    exact hz
  · rw [resolve_grad_L B hB P hP x [] hx (by simp [hm])]; exact hz
  · rw [resolve_psi_grad_psi B hB P hP x [] Sig ha]
    simp only [specPsiGradPsi, specPsi, specGradPsi, specGradL, dsqSpec, yhatSpec, List.length_nil,
      List.range_zero, List.map_nil, sumL_nil]
    rw [hz]; simp

/-! ### Hessian(-vector product) of ψ: available exactly when `supports_…` says so -/

/-- `eval_hess_ψ_prod` through the interface: the user's function if supplied; otherwise, for
    `m = 0`, the user's `eval_hess_L_prod` (ψ = f, so ∇²ψ = ∇²L); otherwise `not_implemented`. -/
theorem hess_psi_prod_resolved (B : Basic α) (P : Provided α) (x y Sig : Vec α) (s : α)
    (v : Vec α) :
    (resolve B P).eval_hess_psi_prod x y Sig s v
      = (match P.hess_psi_prod with
          | some h => some (h x y Sig s v)
          | none => if B.m = 0 then (match P.hess_L_prod with
                      | some h => some (h x y s v) | none => none) else none) := by
  obtain ⟨a1, a2, a3, a4, a5, a6, a7, a8, a9, a10, a11⟩ := P
  cases a10 with
  | some h => rfl
  | none =>
    cases a8 with
    | some h' =>
      by_cases hm : B.m = 0
      · simp [resolve, stage2, stage1, stage0, default_eval_hess_psi_prod, hm]
      · simp [resolve, stage2, stage1, stage0, default_eval_hess_psi_prod, hm]
    | none =>
      by_cases hm : B.m = 0
      · simp [resolve, stage2, stage1, stage0, default_eval_hess_psi_prod, hm]
      · simp [resolve, stage2, stage1, stage0, default_eval_hess_psi_prod, hm]

theorem hess_psi_resolved (B : Basic α) (P : Provided α) (x y Sig : Vec α) (s : α) :
    (resolve B P).eval_hess_psi x y Sig s
      = (match P.hess_psi with
          | some h => some (h x y Sig s)
          | none => if B.m = 0 then (match P.hess_L with
                      | some h => some (h x y s) | none => none) else none) := by
  obtain ⟨a1, a2, a3, a4, a5, a6, a7, a8, a9, a10, a11⟩ := P
  cases a11 with
  | some h => rfl
  | none =>
    cases a9 with
    | some h' =>
      by_cases hm : B.m = 0
      · simp [resolve, stage2, stage1, stage0, default_eval_hess_psi, hm]
      · simp [resolve, stage2, stage1, stage0, default_eval_hess_psi, hm]
    | none =>
      by_cases hm : B.m = 0
      · simp [resolve, stage2, stage1, stage0, default_eval_hess_psi, hm]
      · simp [resolve, stage2, stage1, stage0, default_eval_hess_psi, hm]

/-- `supports_eval_hess_ψ_prod()` (generated from the header) is true exactly when the call does
    not throw. -/
theorem supports_hess_psi_prod_iff (B : Basic α) (P : Provided α) (x y Sig : Vec α) (s : α)
    (v : Vec α) :
    supports_eval_hess_psi_prod (resolve B P) = true ↔
      (resolve B P).eval_hess_psi_prod x y Sig s v ≠ none := by
  rw [hess_psi_prod_resolved]
  obtain ⟨a1, a2, a3, a4, a5, a6, a7, a8, a9, a10, a11⟩ := P
  cases a10 <;> cases a8 <;> by_cases hm : B.m = 0 <;>
    simp [supports_eval_hess_psi_prod, resolve, stage2, stage1, stage0, hm]

theorem supports_hess_psi_iff (B : Basic α) (P : Provided α) (x y Sig : Vec α) (s : α) :
    supports_eval_hess_psi (resolve B P) = true ↔
      (resolve B P).eval_hess_psi x y Sig s ≠ none := by
  rw [hess_psi_resolved]
  obtain ⟨a1, a2, a3, a4, a5, a6, a7, a8, a9, a10, a11⟩ := P
  cases a11 <;> cases a9 <;> by_cases hm : B.m = 0 <;>
    simp [supports_eval_hess_psi, resolve, stage2, stage1, stage0, hm]

/-! ### error-form lemmas (reused by C01) -/

/-- `(ŷ_i − y_i)/Σ_i = g_i − Π_D ζ_i`. -/
theorem yhat_errz (σ : α) (l u : Bnd α) (g y : α) (hσ : σ ≠ 0) :
    (yhat1 σ l u g y - y) / σ = g - proj1 l u (g + y / σ) := yhat1_errz σ l u g y hσ

/-- `ŷ_i > 0` ⇒ the upper bound is finite and `e_i = g_i − ub_i`. -/
theorem yhat_pos_ub_active (σ : α) (l u : Bnd α) (g y : α) (hσ : 0 < σ)
    (h : 0 < yhat1 σ l u g y) :
    ∃ b, u = some b ∧ proj1 l u (g + y / σ) = b ∧ (yhat1 σ l u g y - y) / σ = g - b :=
  yhat1_pos σ l u g y hσ h

/-- `ŷ_i < 0` ⇒ the lower bound is finite and `e_i = g_i − lb_i`. -/
theorem yhat_neg_lb_active (σ : α) (l u : Bnd α) (g y : α) (hσ : 0 < σ) (hok : BndOK l u)
    (h : yhat1 σ l u g y < 0) :
    ∃ a, l = some a ∧ proj1 l u (g + y / σ) = a ∧ (yhat1 σ l u g y - y) / σ = g - a :=
  yhat1_neg σ l u g y hσ hok h

/-- both sides infinite ⇒ `ŷ_i = 0`. -/
theorem yhat_free_zero (σ g y : α) : yhat1 σ none none g y = 0 := yhat1_free σ g y

/-- `|e_i| ≤ δ` ⇒ `dist(g_i, D_i) ≤ δ`. -/
theorem errz_bounds_dist (σ : α) (l u : Bnd α) (g y δ : α) (hσ : σ ≠ 0) (hok : BndOK l u)
    (h : |(yhat1 σ l u g y - y) / σ| ≤ δ) : ∃ w, InBnd l u w ∧ |g - w| ≤ δ :=
  errz_dist σ l u g y δ hσ hok h

/-- the interface's `ŷ_i` is the kernel the error-form lemmas are about. -/
theorem yhat_closed_kernel (vt : VTable α) (D : BoxD α) (g y Sig : Vec α) (m : Nat)
    (hvt : vt.eval_proj_diff_g = boxProjDiff D) (hD : D.length = m) (hg : g.length = m)
    (hy : y.length = m) (hS : Sig.length = 1 ∨ Sig.length = m) (i : Nat) (hi : i < m) :
    vget (calc_yhat_dTyhat vt g y Sig).2 i
      = yhat1 (sigmaAt Sig i) (lbAt D i) (ubAt D i) (vget g i) (vget y i) :=
  yhat_closed vt D g y Sig m hvt hD hg hy hS i hi

end algebra

/-! ### ∇ψ is the derivative of ψ (over ℝ) -/

/-- `d/dζ ½σ(ζ − Π_[l,u]ζ)² = σ(ζ − Π_[l,u]ζ)` at every `ζ`, kinks and infinite sides included. -/
theorem half_sq_dist_hasDerivAt (σ : ℝ) (l u : Bnd ℝ) (ζ : ℝ) :
    HasDerivAt (fun s => 1 / 2 * σ * (s - proj1 l u s) ^ 2) (σ * (ζ - proj1 l u ζ)) ζ :=
  half_sq_dist_hasDerivAt_aux σ l u ζ

/-- With `f` and the components of `g` Fréchet-differentiable at `x` (the property presupposes
    that `∇f`, `∇g` are their derivatives), the closed-form `ψ` is Fréchet-differentiable at `x`
    with derivative `∇f + Σ_i ŷ_i ∇g_i` — i.e. `∇ψ = ∇f + ∇g·ŷ` *is* the derivative of `ψ`,
    for every box (infinite sides, equal bounds), every `y`, every `Σ`, at every `x` (also where
    some `ζ_i` sits exactly on a bound). -/
theorem grad_psi_is_derivative {E : Type} [NormedAddCommGroup E] [NormedSpace ℝ E] {m : ℕ}
    (f : E → ℝ) (g : Fin m → E → ℝ) (f' : E →L[ℝ] ℝ) (g' : Fin m → E →L[ℝ] ℝ) (x : E)
    (hf : HasFDerivAt f f' x) (hg : ∀ i, HasFDerivAt (g i) (g' i) x)
    (σ y : Fin m → ℝ) (l u : Fin m → Bnd ℝ) :
    HasFDerivAt
      (fun z => f z + ∑ i, 1 / 2 * σ i * ((g i z + y i / σ i) - proj1 (l i) (u i) (g i z + y i / σ i)) ^ 2)
      (f' + ∑ i, yhat1 (σ i) (l i) (u i) (g i x) (y i) • g' i) x := by
  apply hf.add
  apply HasFDerivAt.fun_sum
  intro i _
  have h1 := half_sq_dist_hasDerivAt (σ i) (l i) (u i) (g i x + y i / σ i)
  have h2 : HasFDerivAt (fun z => g i z + y i / σ i) (g' i) x := (hg i).add_const _
  have h3 := HasDerivAt.comp_hasFDerivAt (h₂ := fun s => 1 / 2 * σ i * (s - proj1 (l i) (u i) s) ^ 2) x h1 h2
  exact h3

/-! ### tables regenerated from the headers -/

/-- every optional slot is initialised with `default_<slot>`, the constructor visits the required
    and optional slots exactly in declaration order, every `provides_X` compares slot `X` with its
    own default, and the slots the model has are slots of the C++ vtable. -/
def slotTablesOK : Bool :=
  optionalSlots.all (fun e => e.2.1 == "default_" ++ e.1) &&
  (ctorRequired == requiredSlots.map (·.1)) &&
  (ctorOptional == optionalSlots.map (·.1)) &&
  (providesTable == optionalSlots.map fun e => (e.1, e.1, e.2.1)) &&
  modelledRequired.all (fun s => (requiredSlots.map (·.1)).contains s) &&
  modelledOptional.all (fun s => (optionalSlots.map (·.1)).contains s) &&
  (["default_eval_hess_L_prod", "default_eval_hess_L"].all pureThrowDefaults.contains) &&
  (["default_eval_hess_ψ_prod", "default_eval_hess_ψ"].all throwingDefaults.contains) &&
  (["default_eval_f_grad_f", "default_eval_f_g", "default_eval_grad_f_grad_g_prod",
    "default_eval_grad_L", "default_eval_ψ", "default_eval_grad_ψ", "default_eval_ψ_grad_ψ"].all
      fun d => !throwingDefaults.contains d)

theorem slot_tables : slotTablesOK = true := by decide

/-- `ALPAQA_TE_REQUIRED_METHOD` assigns the member's own wrapper; `ALPAQA_TE_OPTIONAL_METHOD`
    assigns it only when the member exists and (if present) `provides_<member>()` is true. -/
theorem macros_ok : macroFacts.all (·.2) = true := by decide

/-- C-ABI forwarding: every `DLProblem::X` forwards to `functions->X`, passes its arguments in the
    order of the typedef in `dl-problem.h` (`D.lowerbound` as `zl` before `D.upperbound` as `zu`),
    and declares its own parameters in the order of the vtable signature. -/
def dlOrdersOK : Bool :=
  dlForward.all fun e =>
    e.1 == e.2.1 && dlTypedef.lookup e.2.1 == some e.2.2.2 && teSignature.lookup e.1 == some e.2.2.1

def casadiRename (s : String) : String :=
  if s == "param" then "p" else if s == "scale" then "s" else if s == "grad_fx" then "grad_f" else s

def casadiDim (s : String) : String :=
  if s == "x" || s == "v" then "n" else if s == "p" then "p" else if s == "s" then "1" else "m"

/-- CasADi: every call site passes its inputs in the documented order of the generator
    (`x, p, y, Σ, [s,] zl, zu[, v]`), multi-output functions list their outputs in the documented
    order, the loader's dimension lists match the documented names, and `grad_g_prod` is the only
    loaded function the generator does not document. -/
def casadiOrdersOK : Bool :=
  (casadiSites.all fun e =>
    match casadiLoad.lookup e.1 with
    | none => false
    | some ld =>
      match casadiDoc.lookup ld.1 with
      | none => ld.1 == "grad_g_prod"
      | some doc =>
        e.2.1.map casadiRename == doc.1 && e.2.2.length == doc.2.length &&
        (e.2.2.length ≤ 1 || e.2.2.map casadiRename == doc.2) &&
        doc.1.map casadiDim == ld.2.1) &&
  (casadiLoad.all fun e => (casadiSites.map (·.1)).contains e.1)

theorem abi_orders : dlOrdersOK = true ∧ casadiOrdersOK = true := by decide

/-! ### non-vacuity: concrete instances over ℚ -/

/-- `n = 2`, `m = 2`, one two-sided row `[0,1]` and one row bounded below only. -/
def exD : BoxD ℚ := [(some 0, some 1), (some (-1), none)]
def exB : Basic ℚ where
  n := 2
  m := 2
  f := fun x => vget x 0 * vget x 0 + vget x 1
  grad_f := fun x => [2 * vget x 0, 1]
  g := fun x => [vget x 0 + vget x 1, vget x 0 * vget x 1]
  grad_g_prod := fun x y => [vget y 0 + vget x 1 * vget y 1, vget y 0 + vget x 0 * vget y 1]
  proj_diff_g := boxProjDiff exD

/-- the same problem supplying `ψ` and `grad_L` itself (as their closed forms). -/
def exP : Provided ℚ := { psi := some (specPsi exB), grad_L := some (specGradL exB) }

example : WF exB where
  len_g := fun _ _ => rfl
  len_grad_f := fun _ _ => rfl
  len_pd := fun z hz => by
    show (boxProjDiff exD z).length = 2
    rw [length_boxProjDiff, hz]; rfl
  ggp_nil := fun h => by cases h

example : exP.Sound exB where
  f_grad_f := fun u h => by cases h
  f_g := fun u h => by cases h
  grad_f_grad_g_prod := fun u h => by cases h
  grad_L := fun u h x y _ _ => by cases h; rfl
  psi := fun u h x y Sig _ => by cases h; rfl
  grad_psi := fun u h => by cases h
  psi_grad_psi := fun u h => by cases h

/-- an `m = 0` problem (`∇g·y` is the zero vector). -/
def exB0 : Basic ℚ where
  n := 2
  m := 0
  f := fun x => vget x 0 * vget x 0 + vget x 1
  grad_f := fun x => [2 * vget x 0, 1]
  g := fun _ => []
  grad_g_prod := fun _ _ => [0, 0]
  proj_diff_g := fun z => z

example : WF exB0 where
  len_g := fun _ _ => rfl
  len_grad_f := fun _ _ => rfl
  len_pd := fun z hz => hz
  ggp_nil := fun _ _ _ => rfl

/-- kernel values: upper bound active, lower bound active, interior, free. -/
example : yhat1 (2 : ℚ) (some 0) (some 1) 3 (-1) = 3 ∧ yhat1 (2 : ℚ) (some 0) (some 1) (-1) 1 = -1 ∧
    yhat1 (2 : ℚ) (some 0) (some 1) (1 / 2) (1 / 2) = 0 ∧ yhat1 (2 : ℚ) none none 5 7 = 0 ∧
    yhat1 (4 : ℚ) (some 1) (some 1) 3 2 = 10 := by
  simp only [yhat1, pd1, proj1, maxLb, minUb, emax, emin]
  norm_num

example : BndOK (some (1 : ℚ)) (some 1) ∧ BndOK (some (0 : ℚ)) none ∧ InBnd (some (0 : ℚ)) none 3 := by
  refine ⟨?_, ?_, ?_, ?_⟩
  · intro a b ha hb; cases ha; cases hb; exact le_refl _
  · intro a b ha hb; cases hb
  · intro a ha; cases ha; norm_num
  · intro b hb; cases hb

end Alpaqa.Props.C04
