/-
  C18 — Parameter strings set exactly the addressed field, or are rejected.

  Part A (tables): theorems by `decide` over `Alpaqa/Gen/C18.lean`, which is regenerated from
  /repo (structs.ipp, the parameter struct / enum definitions, params.cpp, duration-parse.hpp) on
  every run.  A table line removed, a key duplicated, an alias pointing at another member, a unit
  factor changed … make these stop compiling.

  Part B (machinery): theorems for *all* option strings, tables, stores and parse oracles about
  the hand model `Alpaqa/Model/C18.lean` (tied to the C++ by the correspondence run of
  `checks/c18.py`).  `no_half_write` holds without side conditions: every leaf setter assigns
  only after all its checks have passed (repairs `fixes/C18-half-write-*.diff`).
  The recursion budgets of the model are chosen from the input by the model itself and are proved
  sufficient (`setParams_never_fuel`): no statement below has an "or the budget ran out" case.
-/
import Alpaqa.Model.C18
import Alpaqa.Gen.C18
import Alpaqa.Proofs.C18
import Mathlib.Algebra.Order.Floor.Ring
import Mathlib.Algebra.Order.Round
import Mathlib.Tactic.Linarith
import Mathlib.Tactic.Ring
import Mathlib.Tactic.NormNum
import Mathlib.Data.Rat.Floor

namespace Alpaqa.Props.C18
open Alpaqa.C18 Alpaqa.Gen.C18
open Alpaqa.Proofs.C18 (NoEmptyKey FromCharsConsumes)
set_option linter.unusedSectionVars false
set_option linter.unusedVariables false
set_option linter.unusedSimpArgs false

/-! ## Part A — the generated tables -/

/-- Members of a parameter struct that its `PARAMS_TABLE` may omit: none.
    (`StructuredLBFGSDirectionParams::failure_policy` was listed here until
    `fixes/C18-failure_policy-settable.diff`.) -/
def knownMissingFields : List (String × String) := []

/-- Enumerators that an `ENUM_TABLE` may omit: none.  (`PANOCStopCrit::Ipopt` and `::LBFGSBpp`
    were listed here until `fixes/C18-enum-table-PANOCStopCrit.diff`.) -/
def knownMissingEnumerators : List (String × String) := []

def tableOf (s : String) : List (String × String) :=
  ((paramTables.find? (·.1 == s)).map (·.2)).getD []
def enumTableOf (s : String) : List String :=
  ((enumTables.find? (·.1 == s)).map (·.2)).getD []
def fieldsOf (s : String) : List FieldDecl :=
  ((structDecls.find? (·.name == s)).map (·.fields)).getD []
def hasTable (s : String) : Bool := paramTables.any (·.1 == s)
def hasEnumTable (s : String) : Bool := enumTables.any (·.1 == s)

/-- Every member of every parameter struct is the target of an entry of its table
    (except the members listed in `knownMissingFields`). -/
def fieldsCovered : Bool :=
  structDecls.all fun sd => sd.fields.all fun f =>
    (tableOf sd.name).any (fun e => e.2 == f.name) || knownMissingFields.contains (sd.name, f.name)

theorem tables_cover_fields : fieldsCovered = true := by decide +kernel

/-- Every struct with a table has a definition, and every definition read has a table. -/
theorem tables_match_definitions :
    (paramTables.map (·.1) = structDecls.map (·.name)) ∧ (enumTables.map (·.1) = enumDecls.map (·.name)) := by
  decide

/-- Every non-deprecated enumerator of every table-driven enum is in its `ENUM_TABLE`
    (except those in `knownMissingEnumerators`); deprecated enumerators are aliases of a listed one. -/
def enumeratorsCovered : Bool :=
  enumDecls.all fun ed => ed.enumerators.all fun e =>
    (enumTableOf ed.name).contains e.1 || knownMissingEnumerators.contains (ed.name, e.1) ||
    (e.2.2 && ed.enumerators.any fun e' => !e'.2.2 && e'.2.1 == e.2.1)

theorem enumerators_covered : enumeratorsCovered = true := by decide

/-- Keys are unique per table (a `std::map` would silently keep the first of two equal keys),
    tables are unique per type. -/
def keysUnique : Bool :=
  paramTables.all (fun t => decide ((t.2.map (·.1)).Nodup)) &&
  enumTables.all (fun t => decide (t.2.Nodup)) &&
  decide ((paramTables.map (·.1)).Nodup) && decide ((enumTables.map (·.1)).Nodup)

theorem keys_unique : keysUnique = true := by decide +kernel

/-- Each entry's key is the name of the member it writes, the member exists in the struct
    definition and is of a settable kind, and each listed enumerator exists; no key is empty or
    contains a delimiter (such a key could never be addressed). -/
def entriesWellFormed : Bool :=
  paramTables.all (fun t => t.2.all fun e =>
    e.1 == e.2 && (fieldsOf t.1).any (fun f => f.name == e.2 &&
      match f.kind with | .other _ => false | _ => true) &&
    !e.1.isEmpty && !e.1.toList.contains '.' && !e.1.toList.contains '=') &&
  enumTables.all (fun t => t.2.all fun n =>
    !n.isEmpty &&
    (((enumDecls.find? (·.name == t.1)).map (·.enumerators)).getD []).any (·.1 == n))

theorem entries_well_formed : entriesWellFormed = true := by decide +kernel

/-- Aliases resolve: the struct has a table, the alias target is a key of it, the alias is
    neither a key nor another alias, and it is the ASCII transliteration of its target
    (`alpha ↦ α`, `L_gamma_factor ↦ Lγ_factor` …). -/
def aliasesResolve : Bool :=
  aliasTables.all fun t =>
    hasTable t.1 && decide ((t.2.map (·.1)).Nodup) &&
    t.2.all fun a =>
      (tableOf t.1).any (·.1 == a.2) && !(tableOf t.1).any (·.1 == a.1) &&
      translit a.2 == translit a.1

theorem aliases_resolve : aliasesResolve = true := by decide

/-- Every struct type used as a nested member has a table, every enum-typed member has an
    `ENUM_TABLE`; every table is reachable: its type is explicitly instantiated in params.cpp or
    is a nested member of a struct with a table. -/
def nestedHaveTables : Bool :=
  structDecls.all (fun sd => sd.fields.all fun f =>
    match f.kind with
    | .struct n => hasTable n
    | .enum n => hasEnumTable n
    | _ => true) &&
  paramTables.all (fun t => instList.contains t.1 ||
    structDecls.any fun sd => sd.fields.any fun f => f.kind == .struct t.1) &&
  enumTables.all (fun t => instList.contains t.1)

theorem nested_have_tables : nestedHaveTables = true := by decide

/-- The dispatch environment the model runs on is the tables above with the member kinds. -/
theorem env_is_tables :
    env.structs.map (fun t => (t.1, t.2.map fun e => (e.key, e.member))) = paramTables ∧
    env.enums.map (fun t => (t.1, t.2.map (·.1))) = enumTables := by decide

/-! ### Every declared field is addressed by exactly one key, with its declared kind

`structDecls` is read from the `struct … {…}` definitions in the headers (member name, C++ type,
kind of that type) — independently of `structs.ipp`; `env` is what the model dispatches on (the
`PARAMS_TABLE` entries in source order).  A member missing from its table, a key listed twice, an
entry whose key differs from the member it writes, a table entry for something that is not a
member, a member of a type without a setter: each makes `every_field_addressed_once` false. -/

/-- Kinds some `set_param` overload exists for (everything but `.other`). -/
def Kind.settable : Kind → Bool
  | .other _ => false
  | _ => true

/-- The one table entry a declared member must have: key = member name, kind = declared kind. -/
def declEntry (f : FieldDecl) : Entry := { key := f.name, member := f.name, kind := f.kind }

def fieldAddressedOnce (sd : StructDecl) (f : FieldDecl) : Bool :=
  Kind.settable f.kind &&
  env.find sd.name f.name.toList == some (declEntry f) &&
  (env.table sd.name).filter (fun e => e.key == f.name) == [declEntry f] &&
  (env.table sd.name).filter (fun e => e.member == f.name) == [declEntry f]

def everyFieldAddressedOnce : Bool :=
  decide ((structDecls.map (·.name)).Nodup) &&
  structDecls.all fun sd =>
    decide ((sd.fields.map (·.name)).Nodup) &&
    sd.fields.all (fieldAddressedOnce sd) &&
    (env.table sd.name).length == sd.fields.length

theorem every_field_addressed_once : everyFieldAddressedOnce = true := by decide +kernel

/-- **Coverage, per struct.**  For every parameter struct definition and every member declared in
    it: the member's type has a setter; looking its name up in the struct's table (as
    `set_param_default` does) finds the entry that writes *that* member with *its declared kind*;
    exactly one entry has that key and exactly one entry writes that member; and the table has no
    further entries (as many entries as declared members, member names distinct). -/
theorem every_declared_field_addressed_once (sd : StructDecl) (hsd : sd ∈ structDecls)
    (f : FieldDecl) (hf : f ∈ sd.fields) :
    Kind.settable f.kind = true ∧
    env.find sd.name f.name.toList = some (declEntry f) ∧
    (env.table sd.name).filter (fun e => e.key == f.name) = [declEntry f] ∧
    (env.table sd.name).filter (fun e => e.member == f.name) = [declEntry f] ∧
    (env.table sd.name).length = sd.fields.length ∧ (sd.fields.map (·.name)).Nodup := by
  have h := every_field_addressed_once
  simp only [everyFieldAddressedOnce, Bool.and_eq_true, List.all_eq_true, decide_eq_true_eq] at h
  obtain ⟨⟨hnd, hfs⟩, hlen⟩ := h.2 sd hsd
  have hf' := hfs f hf
  simp only [fieldAddressedOnce, Bool.and_eq_true, beq_iff_eq] at hf'
  obtain ⟨⟨⟨h1, h2⟩, h3⟩, h4⟩ := hf'
  exact ⟨h1, h2, h3, h4, by simpa using hlen, hnd⟩

/-- Declared leaves of a struct, through nested parameter structs, in declaration order:
    member path and declared kind.  `none` when a nested struct type has no definition in
    `structDecls` or the nesting is deeper than the budget (so neither can make the theorem
    below vacuously true). -/
def declLeaves : Nat → String → Path → Option (List (Path × Kind))
  | 0, _, _ => none
  | d + 1, s, pre =>
    match structDecls.find? (·.name == s) with
    | none => none
    | some sd =>
      sd.fields.foldr (fun f acc =>
        match acc with
        | none => none
        | some rest =>
          match f.kind with
          | .struct n =>
            match declLeaves d n (pre ++ [f.name]) with
            | none => none
            | some sub => some (sub ++ rest)
          | k => some ((pre ++ [f.name], k) :: rest)) (some [])

/-- The option key `a.b.c` for the member path `[a, b, c]`. -/
def keyOf (p : Path) : Str := (".".intercalate p).toList

/-- Parameter structs `set_params` is instantiated for (params.cpp) that have a table. -/
def topStructs : List String := instList.filter hasTable

def leafAddressed (top : String) (pk : Path × Kind) : Bool :=
  Kind.settable pk.2 && (match pk.2 with | .struct _ => false | _ => true) &&
  !(keyOf pk.1).contains '=' &&
  addressed env (keyFuel (keyOf pk.1)) (.struct top) [] (keyOf pk.1) == some (pk.1, pk.2, [])

def everyLeafAddressed : Bool :=
  topStructs.all fun top =>
    match declLeaves 8 top [] with
    | none => false
    | some ls => !ls.isEmpty && ls.all (leafAddressed top) && decide ((ls.map (·.1)).Nodup)

theorem every_leaf_addressed : everyLeafAddressed = true := by decide +kernel

/-- **Coverage, per option key.**  For every instantiated parameter struct `top` and every leaf
    declared in its definition (through nested structs): the key `path.to.field` resolves —
    through the generated tables, with the budget `set_params` uses — to exactly that member path,
    with the member's declared kind and nothing left of the key; distinct leaves have distinct
    paths.  With `set_param_sets` / `set_param_frame`: the option sets that field and no other. -/
theorem every_declared_leaf_addressed (top : String) (htop : top ∈ topStructs) :
    ∃ ls, declLeaves 8 top [] = some ls ∧ ls ≠ [] ∧ (ls.map (·.1)).Nodup ∧
      ∀ p k, (p, k) ∈ ls →
        addressed env (keyFuel (keyOf p)) (.struct top) [] (keyOf p) = some (p, k, []) ∧
        Kind.settable k = true ∧ (∀ n, k ≠ .struct n) ∧ '=' ∉ keyOf p := by
  have h := every_leaf_addressed
  simp only [everyLeafAddressed, List.all_eq_true] at h
  have ht := h top htop
  cases hl : declLeaves 8 top [] with
  | none => simp [hl] at ht
  | some ls =>
    simp only [hl, Bool.and_eq_true, List.all_eq_true, decide_eq_true_eq, Bool.not_eq_true',
      List.isEmpty_eq_false_iff] at ht
    obtain ⟨⟨hne, hall⟩, hnd⟩ := ht
    refine ⟨ls, rfl, hne, hnd, fun p k hpk => ?_⟩
    have := hall (p, k) hpk
    simp only [leafAddressed, Bool.and_eq_true, beq_iff_eq] at this
    obtain ⟨⟨⟨h1, h2⟩, h4⟩, h3⟩ := this
    refine ⟨h3, h1, fun n hn => ?_, by simpa using h4⟩
    subst hn
    simp at h2

/-- Non-vacuity: 17 instantiated structs with 156 declared leaves in total (29 for
    `PANOCOCPParams`, through `Lipschitz` and `lbfgs_params.cbfgs`); instances of both theorems
    with every hypothesis discharged on the generated data. -/
example : topStructs.length = 17 ∧
    (topStructs.map fun t => ((declLeaves 8 t []).map (·.length)).getD 0).sum = 156 := by decide

example : env.find "PANOCParams" "max_time".toList =
    some { key := "max_time", member := "max_time", kind := .dur 1 } :=
  (every_declared_field_addressed_once (structDecls[5]'(by decide)) (List.getElem_mem _)
    { name := "max_time", cxxType := "std::chrono::nanoseconds", kind := .dur 1 } (by decide)).2.1

example : addressed env (keyFuel "lbfgs_params.cbfgs.ϵ".toList) (.struct "PANOCOCPParams") []
    "lbfgs_params.cbfgs.ϵ".toList = some (["lbfgs_params", "cbfgs", "ϵ"], .real, []) := by
  obtain ⟨ls, hls, -, -, h⟩ := every_declared_leaf_addressed "PANOCOCPParams" (by decide)
  have hmem : ((["lbfgs_params", "cbfgs", "ϵ"] : Path), Kind.real) ∈ ls := by
    have : ((declLeaves 8 "PANOCOCPParams" []).getD []).contains
        ((["lbfgs_params", "cbfgs", "ϵ"] : Path), Kind.real) = true := by decide
    rw [hls] at this
    simpa using this
  exact (h _ _ hmem).1

/-- Every non-deprecated enumerator declared in an `enum class` with an `ENUM_TABLE` is found *by
    its name* in the dispatch environment, with its declared value. -/
def enumeratorsByName : Bool :=
  enumDecls.all fun ed => ed.enumerators.all fun e =>
    e.2.2 || (env.enumTable ed.name).find? (·.1.toList == e.1.toList) == some (e.1, e.2.1)

theorem enumerators_by_name : enumeratorsByName = true := by decide

/-- `bool` literals and the duration unit table are the documented ones (SI factors, in ns). -/
theorem bool_strings_documented :
    boolStrings = [("0", false), ("false", false), ("1", true), ("true", true)] := by decide

theorem duration_units_SI :
    durCfg.units = [("s", 1000000000), ("", 1000000000), ("ms", 1000000), ("us", 1000),
                    ("µs", 1000), ("ns", 1), ("min", 60 * 1000000000), ("h", 3600 * 1000000000)] ∧
    durCfg.trim = ['+', ' '] ∧
    durCfg.stop = ['+', '-', '0', '1', '2', '3', '4', '5', '6', '7', '8', '9', '.', ' '] := by decide

/-- Non-vacuity: the covered sets are large (19 struct tables, 140 entries = 140 members,
    3 enum tables with 14 enumerators). -/
example : paramTables.length = 19 ∧ (paramTables.map (·.2.length)).sum = 140 ∧
    (structDecls.map (·.fields.length)).sum = 140 ∧ enumTables.length = 3 ∧
    (enumTables.map (·.2.length)).sum = 14 := by decide

/-! ## Part B — the machinery, for all inputs -/

section machinery
variable {R : Type} [Sub R] [Mul R] [Div R] [LT R] [DecidableLT R] [BEq R] [DurScalar R]
variable (env : Env) (cfg : DurCfg) (pr : Str → NumRes R)

/-! ### Dispatch: `set_param` = leaf setter at the addressed leaf -/

/-- When the key resolves through the tables to a leaf `p` of kind `lk` (remaining key `rem`),
    `set_param` is exactly the leaf setter applied at `p`. -/
theorem setParam_of_addressed (fuel : Nat) (k : Kind) (path : Path) (key value : Str) (st : Store R)
    (p : Path) (lk : Kind) (rem : Str) (h : addressed env fuel k path key = some (p, lk, rem)) :
    setParam env cfg pr fuel k path key value st = applyLeaf st p (setLeaf env cfg pr lk rem value) :=
  Proofs.C18.setParam_addressed env cfg pr fuel k path key value st p lk rem h

/-! ### The recursion budgets are sufficient: `Err.fuel` is never produced

`addressed` / `setParam` recurse through the tables with a budget, `parseDuration` loops with a
budget (Lean needs a termination argument; the C++ has none).  `set_params` (model: `setParams`)
takes `keyFuel key = key.length + 1`, the duration setter takes `value.length`.  The theorems
below show that these budgets are never exhausted and that any larger budget gives the same
result, under two facts:
  * `NoEmptyKey env`: no table has the empty string as a key — proved for the generated tables
    (`generated_env_no_empty_key`); a `PARAMS_MEMBER` needs an identifier;
  * `FromCharsConsumes pr`: a successful `from_chars` consumed at least one character
    ([charconv.from.chars]; without it the C++ loop `while (!s.empty())` would not terminate
    either).  Proved for the integer parser `parseInt` (`parseInt_consumes`). -/

/-- No generated table has an empty key. -/
theorem generated_env_no_empty_key : NoEmptyKey Gen.C18.env := by
  intro name
  have hall : (Gen.C18.env.structs.all fun t => t.2.all fun e => e.key.toList != []) = true := by decide
  simp only [Env.find, Env.table]
  cases hf : Gen.C18.env.structs.find? (·.1 == name) with
  | none => simp
  | some t =>
    have hmem := List.mem_of_find?_eq_some hf
    simp only [List.all_eq_true] at hall
    have ht := hall t hmem
    simp only [List.find?_eq_none]
    intro e he
    have := ht e he
    simpa using this

/-- Any budget above the key length resolves the key the same way. -/
theorem addressed_fuel_suffices (hne : NoEmptyKey env) (fuel : Nat) (k : Kind) (path : Path) (key : Str)
    (hf : key.length < fuel) :
    addressed env fuel k path key = addressed env (keyFuel key) k path key :=
  Proofs.C18.addressed_fuel env hne fuel k path key hf

/-- When the key does not resolve (some component is not a key of the table reached): `Invalid
    key`, nothing written — the budget is not what makes the key unresolved. -/
theorem setParam_of_not_addressed (hne : NoEmptyKey env) (fuel : Nat) (k : Kind) (path : Path)
    (key value : Str) (st : Store R) (hf : key.length < fuel)
    (h : addressed env fuel k path key = none) :
    setParam env cfg pr fuel k path key value st = (st, some .invalidKey) :=
  Proofs.C18.setParam_unaddressed env cfg pr hne fuel k path key value st hf h

/-- Any budget above the key length gives the same `set_param` result. -/
theorem setParam_fuel_suffices (hne : NoEmptyKey env) (fuel : Nat) (k : Kind) (path : Path)
    (key value : Str) (st : Store R) (hf : key.length < fuel) :
    setParam env cfg pr fuel k path key value st =
      setParam env cfg pr (keyFuel key) k path key value st := by
  have hk : key.length < keyFuel key := Nat.lt_succ_self _
  have ha := addressed_fuel_suffices env hne fuel k path key hf
  cases h : addressed env (keyFuel key) k path key with
  | none =>
    rw [setParam_of_not_addressed env cfg pr hne fuel k path key value st hf (ha.trans h),
      setParam_of_not_addressed env cfg pr hne _ k path key value st hk h]
  | some t =>
    obtain ⟨p, lk, rem⟩ := t
    rw [setParam_of_addressed env cfg pr fuel k path key value st p lk rem (ha.trans h),
      setParam_of_addressed env cfg pr _ k path key value st p lk rem h]

/-- Any budget ≥ the string length gives the same `parse_duration` result. -/
theorem parseDuration_fuel_suffices (hpr : FromCharsConsumes pr) (res fuel : Nat) (acc : Int) (s : Str)
    (hf : s.length ≤ fuel) :
    parseDuration cfg res pr fuel acc s = parseDuration cfg res pr s.length acc s :=
  Proofs.C18.parseDuration_fuel cfg pr hpr res fuel acc s hf

theorem parseSingle_err (res : Nat) (acc : Int) (s : Str) (e : Err)
    (h : parseSingle cfg res pr acc s = .error e) : e = .durValue ∨ e = .durUnits :=
  Proofs.C18.parseSingle_err cfg pr res acc s e h

/-- The only exceptions of `parse_duration`: `invalid_duration_value`, `invalid_duration_units`. -/
theorem parseDuration_err (hpr : FromCharsConsumes pr) (res fuel : Nat) (acc : Int) (s : Str) (e : Err)
    (hf : s.length ≤ fuel) (h : (parseDuration cfg res pr fuel acc s).2 = some e) :
    e = .durValue ∨ e = .durUnits :=
  Proofs.C18.parseDuration_err_aux cfg pr hpr res fuel acc s e hf h

theorem setVecElems_err (ps : List Str) (done : List R) (e : Err)
    (h : (setVecElems pr ps done).2 = some e) : e = .numInvalid ∨ e = .numRange ∨ e = .numSuffix := by
  induction ps generalizing done with
  | nil => simp [setVecElems] at h
  | cons p ps ih =>
    simp only [setVecElems] at h
    split at h
    · simp only [Option.some.injEq] at h; simp [← h]
    · simp only [Option.some.injEq] at h; simp [← h]
    · exact ih _ h
    · simp only [Option.some.injEq] at h; simp [← h]

/-- **Every way `set_param(vec_from_file&, …)` can end** (after `assert_key_empty`): it stores the
    parsed vector of an acceptable size and returns; or it throws without touching `v.value`; or —
    only in the direct form (value not starting with `@`) and only while the code engages the
    optional before parsing (`emplaceFirst`) — it throws *after* writing: an empty vector when an
    element is rejected, the complete wrong-sized vector when the size check fails. -/
theorem setVff_outcomes (files : Str → FileRow) (b : Bool) (expected : Int) (value : Str) :
    (∃ xs, setVff files b pr expected value = (some (.o (some xs)), none) ∧ sizeMismatch expected xs.length = false) ∨
    (∃ e, setVff files b pr expected value = (none, some e) ∧
      (e = .fileOpen ∨ e = .fileRead ∨ e = .badSize ∨ e = .numInvalid ∨ e = .numRange ∨ e = .numSuffix)) ∨
    (b = true ∧ value.head? ≠ some '@' ∧
      ((∃ e, setVff files b pr expected value = (some (.o (some [])), some e) ∧
          (e = .numInvalid ∨ e = .numRange ∨ e = .numSuffix)) ∨
       (∃ xs, setVff files b pr expected value = (some (.o (some xs)), some .badSize) ∧
          sizeMismatch expected xs.length = true))) := by
  unfold setVff
  split
  · rename_i path
    split
    · exact Or.inr (Or.inl ⟨_, rfl, by simp⟩)
    · split
      · exact Or.inr (Or.inl ⟨_, rfl, by simp⟩)
      · rename_i xs _
        cases hs : sizeMismatch expected xs.length with
        | true => simp only [↓reduceIte]; exact Or.inr (Or.inl ⟨_, rfl, by simp⟩)
        | false => simp only [Bool.false_eq_true, ↓reduceIte]; exact Or.inl ⟨xs, rfl, hs⟩
  · rename_i hnot
    have hh : value.head? ≠ some '@' := by
      cases value with
      | nil => simp
      | cons c t =>
        simp only [List.head?_cons, ne_eq, Option.some.injEq]
        rintro rfl
        exact hnot t rfl
    split
    · rename_i xs hv
      cases hs : sizeMismatch expected xs.length with
      | false => simp only [Bool.false_eq_true, ↓reduceIte]; exact Or.inl ⟨xs, rfl, hs⟩
      | true =>
        simp only [↓reduceIte]
        cases b with
        | false => exact Or.inr (Or.inl ⟨_, rfl, by simp⟩)
        | true => exact Or.inr (Or.inr ⟨rfl, hh, Or.inr ⟨xs, rfl, hs⟩⟩)
    · rename_i xs e hv
      have he := setVecElems_err pr _ [] e (by rw [hv])
      cases b with
      | false =>
        refine Or.inr (Or.inl ⟨e, rfl, ?_⟩)
        rcases he with h | h | h <;> simp [h]
      | true => exact Or.inr (Or.inr ⟨rfl, hh, Or.inl ⟨e, rfl, he⟩⟩)

/-- No leaf setter ever reports an exhausted budget. -/
theorem setLeaf_never_fuel (hpr : FromCharsConsumes pr) (k : Kind) (key value : Str) :
    (setLeaf env cfg pr k key value).2 ≠ some .fuel := by
  cases k with
  | dur res =>
    simp only [setLeaf]
    split
    · simp
    · split
      · simp
      · rename_i t e he
        intro h
        simp only [Option.some.injEq] at h
        subst h
        have := parseDuration_err cfg pr hpr res value.length 0 value .fuel (Nat.le_refl _) (by rw [he])
        simp at this
  | vec =>
    simp only [setLeaf]
    split
    · simp
    · rename_i xs e he
      intro h
      simp only [Option.some.injEq] at h
      subst h
      have := setVecElems_err pr _ [] .fuel (by rw [he])
      simp at this
  | bool => simp only [setLeaf]; repeat' split
            all_goals simp
  | int lo hi => simp only [setLeaf]; repeat' split
                 all_goals simp
  | real => simp only [setLeaf]; repeat' split
            all_goals simp
  | enum n => simp only [setLeaf]; repeat' split
              all_goals simp
  | struct n => simp [setLeaf]
  | other n => simp [setLeaf]
  | vff x =>
    simp only [setLeaf]
    split
    · simp
    · rcases setVff_outcomes pr env.files env.vffEmplaceFirst x value with
        ⟨xs, h, -⟩ | ⟨e, h, he⟩ | ⟨-, -, ⟨e, h, he⟩ | ⟨xs, h, -⟩⟩
      · rw [h]; simp
      · rw [h]; rcases he with rfl | rfl | rfl | rfl | rfl | rfl <;> simp
      · rw [h]; rcases he with rfl | rfl | rfl <;> simp
      · rw [h]; simp

/-- `set_param` with a budget above the key length never reports an exhausted budget. -/
theorem setParam_never_fuel (hne : NoEmptyKey env) (hpr : FromCharsConsumes pr) (fuel : Nat) (k : Kind)
    (path : Path) (key value : Str) (st : Store R) (hf : key.length < fuel) :
    (setParam env cfg pr fuel k path key value st).2 ≠ some .fuel := by
  cases h : addressed env fuel k path key with
  | none => rw [setParam_of_not_addressed env cfg pr hne fuel k path key value st hf h]; simp
  | some t =>
    obtain ⟨p, lk, rem⟩ := t
    rw [setParam_of_addressed env cfg pr fuel k path key value st p lk rem h,
      Proofs.C18.applyLeaf_err]
    exact setLeaf_never_fuel env cfg pr hpr lk rem value

/-- **`set_params` never reports an exhausted budget**: the function the driver runs picks its
    budgets from the input (`keyFuel`, `value.length`), and they always suffice. -/
theorem setParams_never_fuel (hne : NoEmptyKey env) (hpr : FromCharsConsumes pr) (top : Kind) (pfx : Str)
    (opts : List Str) (st : Store R) :
    (setParams env cfg pr top pfx opts st).2.2 ≠ some .fuel := by
  induction opts generalizing st with
  | nil => simp [setParams]
  | cons kv rest ih =>
    simp only [setParams]
    split
    · exact ih st
    · have hnf := setParam_never_fuel env cfg pr hne hpr (keyFuel (optKey kv)) top [] (optKey kv)
        (optValue kv) st (Nat.lt_succ_self _)
      split
      · rename_i st1 err hs
        rw [hs] at hnf
        simpa using hnf
      · exact ih _

theorem applyLeaf_frame (st : Store R) (p q : Path) (w : Option (Leaf R) × Option Err) (hq : q ≠ p) :
    (applyLeaf st p w).1 q = st q := by
  rcases w with ⟨_ | l, e⟩ <;> simp [applyLeaf, Store.set, hq]

/-- **Frame.** `set_param` with key `key` changes at most the leaf the key addresses:
    every other leaf `q` of the store is equal before and after — whether the call returns or
    throws.  (If the key addresses nothing, nothing changes at all.) -/
theorem set_param_frame (fuel : Nat) (k : Kind) (path : Path) (key value : Str) (st : Store R) (q : Path)
    (hq : ∀ p lk rem, addressed env fuel k path key = some (p, lk, rem) → q ≠ p) :
    (setParam env cfg pr fuel k path key value st).1 q = st q := by
  cases h : addressed env fuel k path key with
  | none => rw [(Proofs.C18.setParam_unaddressed_store env cfg pr fuel k path key value st h).1]
  | some t =>
    obtain ⟨p, lk, rem⟩ := t
    rw [setParam_of_addressed env cfg pr fuel k path key value st p lk rem h]
    exact applyLeaf_frame st p q _ (hq p lk rem h)

/-- The addressed leaf lies below the object the option was applied to. -/
theorem addressed_extends (fuel : Nat) (k : Kind) (path : Path) (key : Str) (p : Path) (lk : Kind) (rem : Str)
    (h : addressed env fuel k path key = some (p, lk, rem)) : path <+: p := by
  induction fuel generalizing k path key with
  | zero => simp [addressed] at h
  | succ n ih =>
    cases k with
    | struct name =>
      simp only [addressed] at h
      cases hf : env.find name (splitKey key).1 with
      | none => simp [hf] at h
      | some e =>
        simp only [hf] at h
        exact (List.prefix_append path [e.member]).trans (ih _ _ _ h)
    | _ =>
      simp only [addressed, Option.some.injEq, Prod.mk.injEq] at h
      obtain ⟨rfl, -, -⟩ := h
      exact List.prefix_refl _

/-- **Success sets the addressed leaf to the parsed value.**  If `set_param` returns normally, the
    key addressed a leaf, the leaf setter produced a value without error, and that value is what
    the store now holds there. -/
theorem set_param_sets (fuel : Nat) (k : Kind) (path : Path) (key value : Str) (st : Store R)
    (hok : (setParam env cfg pr fuel k path key value st).2 = none) :
    ∃ p lk rem l, addressed env fuel k path key = some (p, lk, rem) ∧
      setLeaf env cfg pr lk rem value = (some l, none) ∧
      (setParam env cfg pr fuel k path key value st).1 p = some l := by
  cases h : addressed env fuel k path key with
  | none => exact absurd hok (Proofs.C18.setParam_unaddressed_store env cfg pr fuel k path key value st h).2
  | some t =>
    obtain ⟨p, lk, rem⟩ := t
    rw [setParam_of_addressed env cfg pr fuel k path key value st p lk rem h] at hok ⊢
    refine ⟨p, lk, rem, ?_⟩
    rcases hw : setLeaf env cfg pr lk rem value with ⟨_ | l, e⟩
    · -- every leaf setter that does not throw stores a value
      exfalso
      simp only [hw, applyLeaf] at hok
      subst hok
      cases lk with
      | vff x =>
        simp only [setLeaf] at hw
        split at hw
        · simp at hw
        · rcases setVff_outcomes pr env.files env.vffEmplaceFirst x value with
            ⟨xs, h, -⟩ | ⟨e, h, -⟩ | ⟨-, -, ⟨e, h, -⟩ | ⟨xs, h, -⟩⟩ <;> (rw [h] at hw; simp at hw)
      | _ =>
        simp only [setLeaf] at hw
        (try split at hw) <;> (try split at hw) <;> (try split at hw) <;> simp at hw
    · simp only [hw, applyLeaf] at hok
      subst hok
      exact ⟨l, rfl, rfl, by simp [applyLeaf, Store.set]⟩

/-! ### What the leaf setters store (numbers exactly, booleans, enumerators by name, vectors)

The `leaf_*` statements below are read off the definition of the hand model `setLeaf` (what ties
`setLeaf` to the C++ setters is the correspondence sweep: every leaf of every struct × valid /
malformed values, bit-identical).  The statements with content beyond the definition are the ones
against generated data: `leaf_bool_generated` (literal list of params.cpp),
`declared_enumerator_sets_value` (every declared enumerator, by name, gets its declared value),
`every_declared_leaf_addressed` (which leaf a key reaches) and `duration_field_sum_round`. -/

theorem leaf_bool (key value : Str) (hk : key = []) :
    setLeaf env cfg pr .bool key value =
      if value = "0".toList ∨ value = "false".toList then (some (.b false), none)
      else if value = "1".toList ∨ value = "true".toList then (some (.b true), none)
      else (none, some .badBool) := by
  subst hk
  simp only [setLeaf, List.isEmpty_nil, Bool.not_true, Bool.false_eq_true, ↓reduceIte, Bool.or_eq_true,
    beq_iff_eq]

/-- A real field receives exactly the value `from_chars` produced, provided the whole value
    string was consumed. -/
theorem leaf_real_exact (value : Str) (v : R) (h : pr value = .ok v []) :
    setLeaf env cfg pr .real [] value = (some (.r v), none) := by
  simp [setLeaf, h]

theorem leaf_int_exact (lo hi : Int) (value : Str) (v : Int) (h : parseInt lo hi value = .ok v []) :
    setLeaf env cfg pr (.int lo hi) [] value = (some (.i v), none) := by
  simp [setLeaf, h]

/-- An enum field receives the value of the enumerator whose *name* equals the value string. -/
theorem leaf_enum_by_name (name : String) (value : Str) (p : String × Int)
    (h : (env.enumTable name).find? (·.1.toList == value) = some p) :
    setLeaf env cfg pr (.enum name) [] value = (some (.e p.2), none) := by
  simp [setLeaf, h]

/-- A duration field receives the sum computed by `parse_duration` starting from zero — and
    only if every component was accepted. -/
theorem leaf_duration (res : Nat) (value : Str) (t : Int)
    (h : parseDuration cfg res pr value.length 0 value = (t, none)) :
    setLeaf env cfg pr (.dur res) [] value = (some (.d t), none) := by
  simp [setLeaf, h]

theorem leaf_duration_err (res : Nat) (value : Str) (t : Int) (e : Err)
    (h : parseDuration cfg res pr value.length 0 value = (t, some e)) :
    setLeaf env cfg pr (.dur res) [] value = (none, some e) := by
  simp [setLeaf, h]

theorem setVecElems_ok (ps : List Str) (done vs : List R)
    (h : List.Forall₂ (fun p v => pr p = .ok v []) ps vs) :
    setVecElems pr ps done = (done ++ vs, none) := by
  induction h generalizing done with
  | nil => simp [setVecElems]
  | cons hp _ ih => simp [setVecElems, hp, ih]

/-- A vec receives, element-wise, the values parsed from the comma-separated pieces. -/
theorem leaf_vec_elementwise (key value : Str) (vs : List R)
    (h : List.Forall₂ (fun p v => pr p = .ok v []) (pieces (value.count ',' + 1) value) vs) :
    setLeaf env cfg pr .vec key value = (some (.v vs), none) := by
  simp [setLeaf, setVecElems_ok pr _ [] vs h]

/-- The element count `count(',') + 1` of the `vec` setter is exactly right: the pieces it parses
    are all of the value (joined with `,` they give the value back) and none contains a `,` —
    the loop over `w` neither stops early nor runs past the end of the string. -/
theorem vec_pieces_complete (value : Str) :
    List.intercalate [','] (pieces (value.count ',' + 1) value) = value ∧
    (pieces (value.count ',' + 1) value).length = value.count ',' + 1 ∧
    ∀ p ∈ pieces (value.count ',' + 1) value, ',' ∉ p := by
  obtain ⟨h1, h2⟩ := Proofs.C18.pieces_complete (value.count ',') value rfl
  have hlen : ∀ (n : Nat) (s : Str), (pieces n s).length = n := by
    intro n
    induction n with
    | zero => intro s; rfl
    | succ n ih => intro s; simp [pieces, ih]
  exact ⟨h1, hlen _ _, h2⟩

/-! ### Rejections -/

/-- Unknown key: the first component of the key is not a key of the struct's table. -/
theorem unknown_key_rejected (fuel : Nat) (name : String) (path : Path) (key value : Str) (st : Store R)
    (h : env.find name (splitKey key).1 = none) :
    setParam env cfg pr (fuel + 1) (.struct name) path key value st = (st, some .invalidKey) := by
  simp [setParam, h]

def Kind.isScalar : Kind → Bool
  | .bool | .int _ _ | .real | .enum _ | .dur _ => true
  | _ => false

/-- Indexing into a scalar (`field.sub=value`): rejected, nothing written. -/
theorem index_into_scalar_rejected (fuel : Nat) (k : Kind) (path : Path) (key value : Str) (st : Store R)
    (hk : Kind.isScalar k = true) (hkey : key ≠ []) :
    setParam env cfg pr (fuel + 1) k path key value st = (st, some .indexed) := by
  have : key.isEmpty = false := by cases key <;> simp_all
  cases k <;> simp_all [Kind.isScalar, setParam, setLeaf, applyLeaf]

/-- Unknown enumerator: rejected, nothing written. -/
theorem unknown_enum_rejected (fuel : Nat) (name : String) (path : Path) (value : Str) (st : Store R)
    (h : (env.enumTable name).find? (·.1.toList == value) = none) :
    setParam env cfg pr (fuel + 1) (.enum name) path [] value st = (st, some .badEnum) := by
  simp [setParam, setLeaf, applyLeaf, h]

/-- Trailing characters after a number: rejected with `Invalid suffix`, nothing written
    (`from_chars` stores into a local; the field is assigned after the suffix check). -/
theorem trailing_chars_rejected (fuel : Nat) (path : Path) (value : Str) (st : Store R) (v : R) (c : Char)
    (cs : Str) (h : pr value = .ok v (c :: cs)) :
    setParam env cfg pr (fuel + 1) .real path [] value st = (st, some .numSuffix) := by
  simp [setParam, setLeaf, applyLeaf, h]

theorem trailing_chars_rejected_int (fuel : Nat) (lo hi : Int) (path : Path) (value : Str) (st : Store R)
    (v : Int) (c : Char) (cs : Str) (h : parseInt lo hi value = .ok v (c :: cs)) :
    setParam env cfg pr (fuel + 1) (.int lo hi) path [] value st = (st, some .numSuffix) := by
  simp [setParam, setLeaf, applyLeaf, h]

/-- Out-of-range / unparsable numbers: rejected, nothing written. -/
theorem out_of_range_rejected (fuel : Nat) (path : Path) (value : Str) (st : Store R)
    (h : pr value = .range ∨ pr value = .invalid) :
    (setParam env cfg pr (fuel + 1) .real path [] value st).1 = st ∧
    ((setParam env cfg pr (fuel + 1) .real path [] value st).2 = some .numRange ∨
     (setParam env cfg pr (fuel + 1) .real path [] value st).2 = some .numInvalid) := by
  rcases h with h | h <;> simp [setParam, setLeaf, applyLeaf, h]

theorem out_of_range_rejected_int (fuel : Nat) (lo hi : Int) (path : Path) (value : Str) (st : Store R)
    (h : parseInt lo hi value = .range ∨ parseInt lo hi value = .invalid) :
    (setParam env cfg pr (fuel + 1) (.int lo hi) path [] value st).1 = st ∧
    ((setParam env cfg pr (fuel + 1) (.int lo hi) path [] value st).2 = some .numRange ∨
     (setParam env cfg pr (fuel + 1) (.int lo hi) path [] value st).2 = some .numInvalid) := by
  rcases h with h | h <;> simp [setParam, setLeaf, applyLeaf, h]

/-- Integer `from_chars` really rejects what lies outside the type's range. -/
theorem parseInt_in_range (lo hi : Int) (s : Str) (v : Int) (rest : Str)
    (h : parseInt lo hi s = .ok v rest) : lo ≤ v ∧ v ≤ hi := by
  unfold parseInt at h
  simp only at h
  repeat' split at h
  all_goals first
    | (simp at h; done)
    | (rename_i hr
       simp only [NumRes.ok.injEq] at h
       obtain ⟨h1, -⟩ := h
       simp only [Bool.or_eq_true, decide_eq_true_eq, not_or, not_lt] at hr
       rw [← h1]; exact hr)

/-- Integer `from_chars` consumes at least one character on success. -/
theorem parseInt_consumes (lo hi : Int) : FromCharsConsumes (parseInt lo hi) := by
  intro s v rest h
  unfold parseInt at h
  simp only at h
  split at h
  all_goals
    split at h
    · simp at h
    · rename_i hne
      split at h
      · simp at h
      · simp only [NumRes.ok.injEq] at h
        obtain ⟨-, rfl⟩ := h
        have h1 := Proofs.C18.length_dropWhile_lt Char.isDigit _ (by simpa using hne)
        first
          | omega
          | (have h2 : (List.tail s).length ≤ s.length := by simp
             simp only [List.drop_one] at h1 ⊢
             omega)

theorem digitsVal_toDigits (n : Nat) : digitsVal (Nat.toDigits 10 n) = n := by
  have h := @Nat.ofDigitChars_ten_toDigits n
  rw [Nat.ofDigitChars_eq_foldl] at h
  unfold digitsVal digitVal
  have hf : (fun (a : Nat) (c : Char) => a * 10 + (c.toNat - '0'.toNat)) =
      (fun (sofar : Nat) (c : Char) => 10 * sofar + (c.toNat - '0'.toNat)) := by
    funext a c; rw [Nat.mul_comm]
  rw [hf]; exact h

theorem takeWhile_all {α} (p : α → Bool) (l : List α) (h : ∀ x ∈ l, p x = true) :
    l.takeWhile p = l ∧ l.dropWhile p = [] := by
  have h1 := Proofs.C18.takeWhile_append_of_all p l [] h
  have h2 := Proofs.C18.dropWhile_append_of_all p l [] h
  simpa using And.intro h1 h2

/-- Decimal text of an integer, as `std::to_chars` / `operator<<` / `toString` write it. -/
def decimal : Int → Str
  | .ofNat n => Nat.toDigits 10 n
  | .negSucc n => '-' :: Nat.toDigits 10 (n + 1)

example : decimal (-128) = "-128".toList ∧ decimal 4294967295 = "4294967295".toList ∧
    decimal 0 = "0".toList ∧ ∀ v : Int, (toString v).toList = decimal v := by
  refine ⟨by decide, by decide +kernel, by decide, fun v => ?_⟩
  cases v with
  | ofNat n => simp [decimal, toString, Int.repr, Nat.toList_repr]
  | negSucc n => simp [decimal, toString, Int.repr, Nat.toList_repr, String.toList_append]

/-- **Integers exactly**: for every value `v` of the integral type (`lo ≤ v ≤ hi`), integer
    `from_chars` on the decimal text of `v` returns `v` and consumes everything. -/
theorem parseInt_decimal (lo hi v : Int) (hlo : lo ≤ v) (hhi : v ≤ hi) :
    parseInt lo hi (decimal v) = .ok v [] := by
  cases v with
  | ofNat n =>
    have hd : ∀ c ∈ Nat.toDigits 10 n, Char.isDigit c = true :=
      fun c hc => Nat.isDigit_of_mem_toDigits (by decide) (by decide) hc
    obtain ⟨ht, hdr⟩ := takeWhile_all Char.isDigit _ hd
    have hne : Nat.toDigits 10 n ≠ [] := Nat.toDigits_ne_nil
    have hhead : ((Nat.toDigits 10 n).head? == some '-') = false := by
      cases hl : Nat.toDigits 10 n with
      | nil => exact absurd hl hne
      | cons c t =>
        have : Char.isDigit c = true := hd c (by rw [hl]; simp)
        simp only [List.head?_cons, beq_eq_false_iff_ne, ne_eq, Option.some.injEq]
        rintro rfl
        simp [Char.isDigit] at this
    have hE : (Nat.toDigits 10 n).isEmpty = false := by
      cases hl : Nat.toDigits 10 n with
      | nil => exact absurd hl hne
      | cons _ _ => rfl
    simp only [decimal, parseInt, hhead, Bool.and_false, Bool.false_eq_true, ↓reduceIte, ht, hdr, hE,
      digitsVal_toDigits]
    have h1 : ¬ ((n : Int) < lo) := by simpa using hlo
    have h2 : ¬ (hi < (n : Int)) := by simpa using hhi
    simp [h1, h2]
  | negSucc n =>
    have hd : ∀ c ∈ Nat.toDigits 10 (n + 1), Char.isDigit c = true :=
      fun c hc => Nat.isDigit_of_mem_toDigits (by decide) (by decide) hc
    obtain ⟨ht, hdr⟩ := takeWhile_all Char.isDigit _ hd
    have hne : Nat.toDigits 10 (n + 1) ≠ [] := Nat.toDigits_ne_nil
    have hE : (Nat.toDigits 10 (n + 1)).isEmpty = false := by
      cases hl : Nat.toDigits 10 (n + 1) with
      | nil => exact absurd hl hne
      | cons _ _ => rfl
    have hneg : lo < 0 := lt_of_le_of_lt hlo (Int.negSucc_lt_zero n)
    have hv : -((n + 1 : Nat) : Int) = Int.negSucc n := by simp [Int.negSucc_eq]
    simp only [decimal, parseInt, hneg, decide_true, List.head?_cons, beq_self_eq_true, Bool.and_self,
      ↓reduceIte, List.drop_succ_cons, List.drop_zero, ht, hdr, hE, digitsVal_toDigits, hv]
    have h1 : ¬ (Int.negSucc n < lo) := by simpa using hlo
    have h2 : ¬ (hi < Int.negSucc n) := by simpa using hhi
    simp [h1, h2]

/-- Hence an integer field set to the decimal text of any representable value holds exactly
    that value. -/
theorem int_field_exact (lo hi v : Int) (hlo : lo ≤ v) (hhi : v ≤ hi) :
    setLeaf env cfg pr (.int lo hi) [] (decimal v) = (some (.i v), none) :=
  leaf_int_exact env cfg pr lo hi (decimal v) v (parseInt_decimal lo hi v hlo hhi)

/-- Bad units: the number of the first component parses, the unit token is not in the table. -/
theorem bad_units_rejected (res : Nat) (acc : Int) (s : Str) (v : R) (rest : Str)
    (hne : (s.dropWhile fun c => cfg.trim.contains c).isEmpty = false)
    (hv : pr (s.dropWhile fun c => cfg.trim.contains c) = .ok v rest)
    (hu : cfg.unit? (rest.takeWhile fun c => !cfg.stop.contains c) = none) :
    parseSingle cfg res pr acc s = .error .durUnits := by
  unfold parseSingle
  simp only [hne, Bool.false_eq_true, ↓reduceIte, hv, hu]

/-- Bad units in the first component of a duration field: rejected with `Invalid units`,
    nothing written. -/
theorem bad_units_rejected_field (fuel res : Nat) (path : Path) (c : Char) (cs : Str) (st : Store R) (v : R)
    (rest : Str)
    (hne : ((c :: cs).dropWhile fun c => cfg.trim.contains c).isEmpty = false)
    (hv : pr ((c :: cs).dropWhile fun c => cfg.trim.contains c) = .ok v rest)
    (hu : cfg.unit? (rest.takeWhile fun c => !cfg.stop.contains c) = none) :
    setParam env cfg pr (fuel + 1) (.dur res) path [] (c :: cs) st = (st, some .durUnits) := by
  have := bad_units_rejected cfg pr res 0 (c :: cs) v rest hne hv hu
  simp only [setParam, setLeaf, applyLeaf, parseDuration, this, List.isEmpty_nil, Bool.not_true,
    Bool.false_eq_true, ↓reduceIte, List.length_cons]

/-- A component whose count (in units of the field's resolution) is NaN, infinite or not strictly
    inside the `int64` range, or whose addition would overflow the running sum, is rejected with
    the same exception as an unparsable number (`invalid_duration_value`) — before any rounding. -/
theorem out_of_range_duration_rejected (res : Nat) (acc : Int) (s : Str) (v : R) (rest : Str) (u : Nat)
    (hne : (s.dropWhile fun c => cfg.trim.contains c).isEmpty = false)
    (hv : pr (s.dropWhile fun c => cfg.trim.contains c) = .ok v rest)
    (hu : cfg.unit? (rest.takeWhile fun c => !cfg.stop.contains c) = some u)
    (hr : durAdd u res v acc = none) :
    parseSingle cfg res pr acc s = .error .durValue := by
  unfold parseSingle
  simp only [hne, Bool.false_eq_true, ↓reduceIte, hv, hu, hr]

/-- `durAdd` refuses exactly when the count is outside the open interval `(−2⁶³, 2⁶³)` (this also
    catches NaN: both comparisons are then false) or the sum would leave the `int64` range; and
    when it accepts, the new sum is the old one plus the rounded component, inside the range. -/
theorem durAdd_spec (u res : Nat) (v : R) (acc : Int) (hacc : repMin ≤ acc ∧ acc ≤ repMax) :
    (durAdd u res v acc = none ↔
      ¬ ((DurScalar.ofInt repMin : R) < durCount u res v ∧
          durCount u res v < (DurScalar.ofInt (repMax + 1) : R)) ∨
      ¬ (repMin ≤ acc + chronoRound u res v ∧ acc + chronoRound u res v ≤ repMax)) ∧
    (∀ a, durAdd u res v acc = some a →
      a = acc + chronoRound u res v ∧ repMin ≤ a ∧ a ≤ repMax) := by
  unfold durAdd
  simp only [Bool.and_eq_true, decide_eq_true_eq]
  by_cases hc : (DurScalar.ofInt repMin : R) < durCount u res v ∧
      durCount u res v < (DurScalar.ofInt (repMax + 1) : R)
  · simp only [hc, and_self, ↓reduceIte, not_true_eq_false, false_or]
    by_cases h0 : 0 ≤ chronoRound u res v
    · simp only [h0, ↓reduceIte, decide_eq_true_eq]
      by_cases h1 : acc ≤ repMax - chronoRound u res v
      · simp only [h1, ↓reduceIte, reduceCtorEq, false_iff, not_not, Option.some.injEq]
        exact ⟨by omega, fun a ha => by omega⟩
      · simp only [h1, ↓reduceIte, true_iff, reduceCtorEq, false_imp_iff, implies_true, and_true]
        omega
    · simp only [h0, ↓reduceIte, decide_eq_true_eq]
      by_cases h1 : repMin - chronoRound u res v ≤ acc
      · simp only [h1, ↓reduceIte, reduceCtorEq, false_iff, not_not, Option.some.injEq]
        exact ⟨by omega, fun a ha => by omega⟩
      · simp only [h1, ↓reduceIte, true_iff, reduceCtorEq, false_imp_iff, implies_true, and_true]
        omega
  · simp [hc]

/-! ### No half-written structure -/

/-- Is the kind a `vec_from_file`? -/
def Kind.isVff : Kind → Bool
  | .vff _ => true
  | _ => false

/-- The side condition of the model-level no-half-write theorems (it holds for every call on the
    generated environment, `vff_current`): the call is safe unless the code engages the optional of a
    `vec_from_file` before parsing (`env.vffEmplaceFirst`), the addressed object *is* a
    `vec_from_file`, and the value is in the direct form (does not start with `@`). -/
def HalfWriteSafe (env : Env) (lk : Kind) (value : Str) : Prop :=
  env.vffEmplaceFirst = false ∨ Kind.isVff lk = false ∨ value.head? = some '@'

/-- A leaf setter that throws has not written: every setter parses into a local and assigns the
    field as its last statement — outside the exclusion `HalfWriteSafe` spells out. -/
theorem setLeaf_no_write (lk : Kind) (rem value : Str) (w : Option (Leaf R)) (e : Err)
    (hx : HalfWriteSafe env lk value)
    (h : setLeaf env cfg pr lk rem value = (w, some e)) : w = none := by
  cases lk with
  | vff x =>
    simp only [setLeaf] at h
    split at h
    · simp only [Prod.mk.injEq] at h; exact h.1.symm
    · rcases setVff_outcomes pr env.files env.vffEmplaceFirst x value with
        ⟨xs, h', -⟩ | ⟨e', h', -⟩ | ⟨hb, hh, -⟩
      · rw [h'] at h; simp at h
      · rw [h'] at h; simp only [Prod.mk.injEq] at h; exact h.1.symm
      · rcases hx with hx | hx | hx
        · rw [hx] at hb; simp at hb
        · simp [Kind.isVff] at hx
        · exact absurd hx hh
  | vec =>
    simp only [setLeaf] at h
    split at h <;> simp_all
  | dur res =>
    simp only [setLeaf] at h
    repeat' split at h
    all_goals simp_all
  | bool =>
    simp only [setLeaf] at h
    repeat' split at h
    all_goals simp_all
  | int lo hi =>
    simp only [setLeaf] at h
    repeat' split at h
    all_goals simp_all
  | real =>
    simp only [setLeaf] at h
    repeat' split at h
    all_goals simp_all
  | enum n =>
    simp only [setLeaf] at h
    repeat' split at h
    all_goals simp_all
  | struct n => simp only [setLeaf, Prod.mk.injEq] at h; exact h.1.symm
  | other n => simp only [setLeaf, Prod.mk.injEq] at h; exact h.1.symm

/-- **No half-write.**  If `set_param` throws — whatever the exception, whatever the kind of the
    addressed object (scalar, duration, vec, nested struct member, `vec_from_file` in the `@file`
    form) — the store equals its pre-state.  Only side condition: the exclusion `HalfWriteSafe`
    for the leaf the key addresses (false only for the direct form of a `vec_from_file` while
    `env.vffEmplaceFirst` holds — not the case for the generated environment, `vff_current`). -/
theorem no_half_write (fuel : Nat) (k : Kind) (path : Path) (key value : Str) (st st' : Store R) (e : Err)
    (hx : ∀ p lk rem, addressed env fuel k path key = some (p, lk, rem) → HalfWriteSafe env lk value)
    (h : setParam env cfg pr fuel k path key value st = (st', some e)) : st' = st := by
  cases ha : addressed env fuel k path key with
  | none =>
    have := (Proofs.C18.setParam_unaddressed_store env cfg pr fuel k path key value st ha).1
    rw [h] at this; exact this
  | some t =>
    obtain ⟨p, lk, rem⟩ := t
    rw [setParam_of_addressed env cfg pr fuel k path key value st p lk rem ha] at h
    rcases hw : setLeaf env cfg pr lk rem value with ⟨w, e'⟩
    rw [hw] at h
    cases w with
    | none => simp only [applyLeaf, Prod.mk.injEq] at h; exact h.1.symm
    | some l =>
      simp only [applyLeaf, Prod.mk.injEq] at h
      have := setLeaf_no_write env cfg pr lk rem value (some l) e (hx p lk rem ha) (by rw [hw, h.2])
      simp at this

/-! ### `set_params`: prefix filter, `used` counters, state at a throw -/

/-- Options with a different prefix are ignored: no write, no exception, no count. -/
theorem other_prefix_ignored (top : Kind) (pfx : Str) (opts : List Str) (st : Store R)
    (h : ∀ kv ∈ opts, optPrefix kv ≠ pfx) :
    setParams env cfg pr top pfx opts st = (st, opts.map (fun _ => 0), none) := by
  induction opts generalizing st with
  | nil => rfl
  | cons kv rest ih =>
    have h1 : optPrefix kv ≠ pfx := h kv (by simp)
    have h2 := ih st (fun kv' hk => h kv' (by simp [hk]))
    simp [setParams, h1, h2]

theorem used_length (top : Kind) (pfx : Str) (opts : List Str) (st : Store R) :
    (setParams env cfg pr top pfx opts st).2.1.length = opts.length := by
  induction opts generalizing st with
  | nil => rfl
  | cons kv rest ih =>
    simp only [setParams]
    split
    · simp [ih]
    · split <;> simp [ih]

/-- **Usage is counted per option.**  When `set_params` returns normally, `used[i]` was
    incremented exactly for the options whose prefix matches (once each). -/
theorem used_counts (top : Kind) (pfx : Str) (opts : List Str) (st : Store R)
    (hok : (setParams env cfg pr top pfx opts st).2.2 = none) :
    (setParams env cfg pr top pfx opts st).2.1 =
      opts.map fun kv => if optPrefix kv = pfx then 1 else 0 := by
  induction opts generalizing st with
  | nil => rfl
  | cons kv rest ih =>
    simp only [setParams] at hok ⊢
    by_cases hp : optPrefix kv = pfx
    · simp only [hp, bne_self_eq_false, Bool.false_eq_true, ↓reduceIte] at hok ⊢
      rcases hs : setParam env cfg pr (keyFuel (optKey kv)) top [] (optKey kv) (optValue kv) st with ⟨st1, _ | err⟩
      · simp only [hs] at hok ⊢
        simp [ih st1 hok, hp]
      · simp [hs] at hok
    · have hp' : (optPrefix kv != pfx) = true := by simpa using hp
      simp only [hp', ↓reduceIte] at hok ⊢
      simp [ih st hok, hp]

/-- Also when it throws, no option is counted twice and only matching options are counted. -/
theorem used_le (top : Kind) (pfx : Str) (opts : List Str) (st : Store R) :
    List.Forall₂ (fun u kv => u = 0 ∨ (u = 1 ∧ optPrefix kv = pfx))
      (setParams env cfg pr top pfx opts st).2.1 opts := by
  induction opts generalizing st with
  | nil => exact List.Forall₂.nil
  | cons kv rest ih =>
    simp only [setParams]
    by_cases hp : optPrefix kv = pfx
    · simp only [hp, bne_self_eq_false, Bool.false_eq_true, ↓reduceIte]
      rcases hs : setParam env cfg pr (keyFuel (optKey kv)) top [] (optKey kv) (optValue kv) st with ⟨st1, _ | err⟩
      · exact List.Forall₂.cons (Or.inr ⟨rfl, hp⟩) (ih st1)
      · refine List.Forall₂.cons (Or.inr ⟨rfl, hp⟩) ?_
        clear ih hs
        induction rest with
        | nil => exact List.Forall₂.nil
        | cons a r ihr => exact List.Forall₂.cons (Or.inl rfl) ihr
    · have hp' : (optPrefix kv != pfx) = true := by simpa using hp
      simp only [hp', ↓reduceIte]
      exact List.Forall₂.cons (Or.inl rfl) (ih st)

/-- **State at a throw.**  If `set_params` throws, the object is exactly what the options
    *before* the failing one made it: there is a split `opts = before ++ failing :: after` such
    that applying `before` alone succeeds and yields the very same store.  Side condition: the
    exclusion `HalfWriteSafe` for the leaf each option addresses (see `no_half_write`;
    `vffFree_safe`: it holds for every option when no `vec_from_file` is reachable from `top`). -/
theorem set_params_no_half_write (top : Kind) (pfx : Str) (opts : List Str) (st st' : Store R)
    (u : List Nat) (e : Err)
    (hx : ∀ kv ∈ opts, ∀ p lk rem, addressed env (keyFuel (optKey kv)) top [] (optKey kv) = some (p, lk, rem) →
      HalfWriteSafe env lk (optValue kv))
    (h : setParams env cfg pr top pfx opts st = (st', u, some e)) :
    ∃ before failing after u', opts = before ++ failing :: after ∧
      setParams env cfg pr top pfx before st = (st', u', none) := by
  induction opts generalizing st u with
  | nil => simp [setParams] at h
  | cons kv rest ih =>
    have hx' : ∀ kv' ∈ rest, ∀ p lk rem,
        addressed env (keyFuel (optKey kv')) top [] (optKey kv') = some (p, lk, rem) →
        HalfWriteSafe env lk (optValue kv') := fun kv' hk => hx kv' (by simp [hk])
    simp only [setParams] at h
    by_cases hp : optPrefix kv = pfx
    · simp only [hp, bne_self_eq_false, Bool.false_eq_true, ↓reduceIte] at h
      rcases hs : setParam env cfg pr (keyFuel (optKey kv)) top [] (optKey kv) (optValue kv) st with ⟨st1, _ | err⟩
      · simp only [hs, Prod.mk.injEq] at h
        obtain ⟨b, f, a, u', hsplit, hb⟩ :=
          ih st1 (setParams env cfg pr top pfx rest st1).2.1 hx' (by
            rcases hr : setParams env cfg pr top pfx rest st1 with ⟨s2, u2, e2⟩
            simp only [hr] at h ⊢
            rw [h.1, h.2.2])
        refine ⟨kv :: b, f, a, 1 :: u', by simp [hsplit], ?_⟩
        simp [setParams, hp, hs, hb]
      · simp only [hs, Prod.mk.injEq, Option.some.injEq] at h
        obtain ⟨rfl, -, rfl⟩ := h
        have := no_half_write env cfg pr (keyFuel (optKey kv)) top [] (optKey kv) (optValue kv) st st1 err
          (hx kv (by simp)) hs
        exact ⟨[], kv, rest, [], rfl, by simp [setParams, this]⟩
    · have hp' : (optPrefix kv != pfx) = true := by simpa using hp
      simp only [hp', ↓reduceIte, Prod.mk.injEq] at h
      obtain ⟨b, f, a, u', hsplit, hb⟩ :=
        ih st (setParams env cfg pr top pfx rest st).2.1 hx' (by
          rcases hr : setParams env cfg pr top pfx rest st with ⟨s2, u2, e2⟩
          simp only [hr] at h ⊢
          rw [h.1, h.2.2])
      refine ⟨kv :: b, f, a, 0 :: u', by simp [hsplit], ?_⟩
      simp [setParams, hp', hb]

/-- **Frame for `set_params`.**  A leaf that no option with the right prefix addresses is equal
    before and after (return or throw). -/
theorem set_params_frame (top : Kind) (pfx : Str) (opts : List Str) (st : Store R) (q : Path)
    (hq : ∀ kv ∈ opts, optPrefix kv = pfx →
      ∀ p lk rem, addressed env (keyFuel (optKey kv)) top [] (optKey kv) = some (p, lk, rem) → q ≠ p) :
    (setParams env cfg pr top pfx opts st).1 q = st q := by
  induction opts generalizing st with
  | nil => rfl
  | cons kv rest ih =>
    have hq' : ∀ kv' ∈ rest, optPrefix kv' = pfx →
        ∀ p lk rem, addressed env (keyFuel (optKey kv')) top [] (optKey kv') = some (p, lk, rem) → q ≠ p :=
      fun kv' hk => hq kv' (by simp [hk])
    simp only [setParams]
    by_cases hp : optPrefix kv = pfx
    · simp only [hp, bne_self_eq_false, Bool.false_eq_true, ↓reduceIte]
      have hf := set_param_frame env cfg pr (keyFuel (optKey kv)) top [] (optKey kv) (optValue kv) st q
        (hq kv (by simp) hp)
      rcases hs : setParam env cfg pr (keyFuel (optKey kv)) top [] (optKey kv) (optValue kv) st with ⟨st1, _ | err⟩
      · simp only [hs] at hf ⊢
        rw [ih st1 hq', hf]
      · simp only [hs] at hf ⊢
        exact hf
    · have hp' : (optPrefix kv != pfx) = true := by simpa using hp
      simp only [hp', ↓reduceIte]
      exact ih st hq'

/-! ### Prefix handling, option by option

`set_params` compares the *whole* first key component (up to the first `.` of the part before
`=`) with the requested prefix: `solverx.…`, `solver2=…`, `solver_x.…` are options of another
prefix when `solver` is requested (`optPrefix_ne_of_proper_extension`), wherever they stand in the
list and whatever their key and value look like (`other_prefix_option_ignored`); an option whose
first component *is* the prefix is applied to the object the earlier options produced and
counted exactly once (`matching_option_applied_once`). -/

/-- The first key component: everything before the first `=` or `.`. -/
theorem optPrefix_eq_takeWhile (kv : Str) :
    optPrefix kv = kv.takeWhile (fun c => c != '=' && c != '.') := by
  simp only [optPrefix, splitKey]
  exact Proofs.C18.takeWhile_takeWhile' _ _ kv

/-- A first component that properly extends the requested prefix (`pfx` followed by any character
    other than the two delimiters) is a different prefix — for every `pfx` and continuation. -/
theorem optPrefix_ne_of_proper_extension (pfx : Str) (c : Char) (more : Str)
    (hc : c ≠ '.' ∧ c ≠ '=') : optPrefix (pfx ++ c :: more) ≠ pfx := by
  intro h
  rw [optPrefix_eq_takeWhile] at h
  have := Proofs.C18.takeWhile_append_cons_eq _ pfx c more h
  simp [hc.1, hc.2] at this

/-- `set_params` over a concatenated option list = `set_params` over the first part, then (unless
    that threw) over the second part on the resulting object; `used` entries are concatenated. -/
theorem set_params_append (top : Kind) (pfx : Str) (a b : List Str) (st : Store R) :
    setParams env cfg pr top pfx (a ++ b) st =
      match setParams env cfg pr top pfx a st with
      | (st1, ua, none) =>
        ((setParams env cfg pr top pfx b st1).1, ua ++ (setParams env cfg pr top pfx b st1).2.1,
          (setParams env cfg pr top pfx b st1).2.2)
      | (st1, ua, some e) => (st1, ua ++ b.map (fun _ => 0), some e) := by
  induction a generalizing st with
  | nil =>
    simp only [List.nil_append, setParams, List.nil_append]
  | cons kv rest ih =>
    simp only [List.cons_append, setParams]
    by_cases hp : optPrefix kv = pfx
    · simp only [hp, bne_self_eq_false, Bool.false_eq_true, ↓reduceIte]
      rcases hs : setParam env cfg pr (keyFuel (optKey kv)) top [] (optKey kv) (optValue kv) st with ⟨st1, _ | err⟩
      · simp only [ih st1]
        rcases hr : setParams env cfg pr top pfx rest st1 with ⟨s2, u2, _ | e2⟩ <;> simp
      · simp
    · have hp' : (optPrefix kv != pfx) = true := by simpa using hp
      simp only [hp', ↓reduceIte, ih st]
      rcases hr : setParams env cfg pr top pfx rest st with ⟨s2, u2, _ | e2⟩ <;> simp

/-- **An option with another prefix is ignored, per option**: inserting it anywhere in any option
    list leaves the resulting object and the exception (if any) unchanged, its own `used` entry
    is 0 and every other `used` entry is unchanged.  Nothing is assumed about its key or value
    (they may be unknown / malformed: it is never handed to `set_param`). -/
theorem other_prefix_option_ignored (top : Kind) (pfx : Str) (a b : List Str) (kv : Str) (st : Store R)
    (h : optPrefix kv ≠ pfx) :
    (setParams env cfg pr top pfx (a ++ kv :: b) st).1 = (setParams env cfg pr top pfx (a ++ b) st).1 ∧
    (setParams env cfg pr top pfx (a ++ kv :: b) st).2.2 = (setParams env cfg pr top pfx (a ++ b) st).2.2 ∧
    (setParams env cfg pr top pfx (a ++ kv :: b) st).2.1 =
      (setParams env cfg pr top pfx (a ++ b) st).2.1.take a.length ++
        0 :: (setParams env cfg pr top pfx (a ++ b) st).2.1.drop a.length := by
  have hp' : (optPrefix kv != pfx) = true := by simpa using h
  have hlen := used_length env cfg pr top pfx a st
  rw [set_params_append env cfg pr top pfx a (kv :: b) st, set_params_append env cfg pr top pfx a b st]
  rcases hr : setParams env cfg pr top pfx a st with ⟨st1, ua, _ | e⟩
  · rw [hr] at hlen
    simp only at hlen
    simp only [setParams, hp', ↓reduceIte, true_and]
    rw [List.take_append_of_le_length (by omega), List.drop_append_of_le_length (by omega)]
    simp [← hlen]
  · rw [hr] at hlen
    simp only at hlen
    simp only [true_and, List.map_cons]
    rw [List.take_append_of_le_length (by omega), List.drop_append_of_le_length (by omega)]
    simp [← hlen]

/-- **An option with the requested prefix is applied and counted once**: if the options before it
    ran without exception and produced `st1`, `set_param` is called with its key remainder and
    value on `st1`, its `used` entry is exactly 1, and the remaining options continue from the
    result (or, if it throws, the remaining `used` entries stay 0 and the object is what
    `set_param` left — equal to `st1` by `no_half_write`). -/
theorem matching_option_applied_once (top : Kind) (pfx : Str) (a b : List Str) (kv : Str)
    (st st1 : Store R) (ua : List Nat) (h : optPrefix kv = pfx)
    (ha : setParams env cfg pr top pfx a st = (st1, ua, none)) :
    setParams env cfg pr top pfx (a ++ kv :: b) st =
      match setParam env cfg pr (keyFuel (optKey kv)) top [] (optKey kv) (optValue kv) st1 with
      | (st2, some err) => (st2, ua ++ 1 :: b.map (fun _ => 0), some err)
      | (st2, none) =>
        ((setParams env cfg pr top pfx b st2).1, ua ++ 1 :: (setParams env cfg pr top pfx b st2).2.1,
          (setParams env cfg pr top pfx b st2).2.2) := by
  rw [set_params_append env cfg pr top pfx a (kv :: b) st, ha]
  simp only [setParams, h, bne_self_eq_false, Bool.false_eq_true, ↓reduceIte]
  rcases hs : setParam env cfg pr (keyFuel (optKey kv)) top [] (optKey kv) (optValue kv) st1 with ⟨st2, _ | err⟩ <;> simp

/-! ### Durations: components are summed onto the running value, inside the `int64` range -/

theorem parseSingle_range (res : Nat) (acc : Int) (s : Str) (a : Int) (rest : Str)
    (hacc : repMin ≤ acc ∧ acc ≤ repMax) (h : parseSingle cfg res pr acc s = .ok (a, rest)) :
    repMin ≤ a ∧ a ≤ repMax := by
  unfold parseSingle at h
  simp only at h
  repeat' split at h
  all_goals first
    | (simp at h; done)
    | (simp only [Except.ok.injEq, Prod.mk.injEq] at h
       obtain ⟨rfl, -⟩ := h
       first
        | exact hacc
        | (rename_i hd; exact ((durAdd_spec _ _ _ _ hacc).2 _ hd).2))

/-- **No silent overflow.**  Whatever the value string and the oracle, the count that
    `parse_duration` leaves in `t` (return or throw) is a valid `int64`: a component that does not
    fit is rejected (`out_of_range_duration_rejected`), never wrapped. -/
theorem parseDuration_range (res fuel : Nat) (acc : Int) (s : Str)
    (hacc : repMin ≤ acc ∧ acc ≤ repMax) :
    repMin ≤ (parseDuration cfg res pr fuel acc s).1 ∧ (parseDuration cfg res pr fuel acc s).1 ≤ repMax := by
  induction fuel generalizing acc s with
  | zero => cases s <;> simpa [parseDuration] using hacc
  | succ n ih =>
    cases s with
    | nil => simpa [parseDuration] using hacc
    | cons c cs =>
      simp only [parseDuration]
      cases hs : parseSingle cfg res pr acc (c :: cs) with
      | error e => simpa using hacc
      | ok r =>
        obtain ⟨a, rest⟩ := r
        exact ih a rest (parseSingle_range cfg pr res acc _ a rest hacc hs)

/-- One component: value `v` with unit `u` adds `round(v·u/res)` and continues after the unit. -/
theorem parseDuration_component (res fuel : Nat) (acc : Int) (c : Char) (cs : Str) (v : R) (rest : Str) (u : Nat)
    (hne : ((c :: cs).dropWhile fun c => cfg.trim.contains c).isEmpty = false)
    (hv : pr ((c :: cs).dropWhile fun c => cfg.trim.contains c) = .ok v rest)
    (hu : cfg.unit? (rest.takeWhile fun c => !cfg.stop.contains c) = some u)
    (hacc : repMin ≤ acc ∧ acc ≤ repMax) (a : Int) (ha : durAdd u res v acc = some a) :
    a = acc + chronoRound u res v ∧
    parseDuration cfg res pr (fuel + 1) acc (c :: cs) =
      parseDuration cfg res pr fuel a (rest.dropWhile fun c => !cfg.stop.contains c) := by
  refine ⟨((durAdd_spec u res v acc hacc).2 a ha).1, ?_⟩
  simp only [parseDuration, parseSingle, hne, hv, hu, ha, Bool.false_eq_true, ↓reduceIte]

/-! ### Multi-component durations: the sum of the rounded components, or rejected

`DurComps cfg pr s cs`: the string `s` is a sequence of components — each: optional trim
characters (`+`, blank), a number accepted by `from_chars` (`pr`), then the unit token (everything
up to the next character of the stop set `+-0123456789. `), which must be a unit of the table —
followed by optional trim characters; `cs` lists (value, unit period in ns) in order.
`DurComps.of_syntax` builds it from the concrete syntax `seps ++ number ++ unit ++ more`.
`durSum` is the checked sum: each component goes through `durAdd` (range check of the count,
`std::chrono::round<Duration>` = `chronoRound`, overflow check of the sum).

`parse_duration_sum_round`: `parse_duration` accepts `s` with result `t` **iff** `s` has such a
decomposition and `durSum = some t`; then `t = Σ chronoRound unitᵢ res vᵢ` (`durSum_eq_sum`) and
each summand is the nearest integer to `vᵢ·unitᵢ/res`, ties to even (`duration_rounding`, on the
generated unit table).  Otherwise the setter throws `invalid_duration_value` / `_units` and the
field is untouched (`malformed_duration_rejected`). -/

/-- Well-formed duration string, relative to the number syntax of `from_chars` (`pr`). -/
inductive DurComps : Str → List (R × Nat) → Prop
  | done (s : Str) (h : (s.dropWhile fun c => cfg.trim.contains c) = []) : DurComps s []
  | comp (s : Str) (v : R) (rest : Str) (u : Nat) (cs : List (R × Nat))
      (hne : (s.dropWhile fun c => cfg.trim.contains c) ≠ [])
      (hv : pr (s.dropWhile fun c => cfg.trim.contains c) = .ok v rest)
      (hu : cfg.unit? (rest.takeWhile fun c => !cfg.stop.contains c) = some u)
      (htl : DurComps (rest.dropWhile fun c => !cfg.stop.contains c) cs) : DurComps s ((v, u) :: cs)

/-- The checked sum `parse_duration` computes: every component through `durAdd` (`none` = some
    component's count or the running sum leaves the `int64` range). -/
def durSum (res : Nat) : Int → List (R × Nat) → Option Int
  | acc, [] => some acc
  | acc, (v, u) :: cs =>
    match durAdd u res v acc with
    | none => none
    | some a => durSum res a cs

/-- An accepted sum is the plain integer sum of the rounded components, inside `int64`. -/
theorem durSum_eq_sum (res : Nat) (acc : Int) (cs : List (R × Nat)) (t : Int)
    (hacc : repMin ≤ acc ∧ acc ≤ repMax) (h : durSum res acc cs = some t) :
    t = acc + (cs.map fun c => chronoRound c.2 res c.1).sum ∧ repMin ≤ t ∧ t ≤ repMax := by
  induction cs generalizing acc with
  | nil =>
    simp only [durSum, Option.some.injEq] at h
    subst h
    simpa using hacc
  | cons c cs ih =>
    obtain ⟨v, u⟩ := c
    simp only [durSum] at h
    cases ha : durAdd u res v acc with
    | none => simp [ha] at h
    | some a =>
      simp only [ha] at h
      have hs := (durAdd_spec u res v acc hacc).2 a ha
      obtain ⟨h1, h2⟩ := ih a hs.2 h
      refine ⟨?_, h2⟩
      rw [h1, hs.1]
      simp only [List.map_cons, List.sum_cons]
      omega

/-- On a decomposable string `parse_duration` returns the checked sum, or throws
    `invalid_duration_value` when the checked sum refuses a component. -/
theorem parseDuration_of_comps (hpr : FromCharsConsumes pr) (res : Nat) (s : Str) (cs : List (R × Nat))
    (h : DurComps cfg pr s cs) (acc : Int) :
    (∀ t, durSum res acc cs = some t → parseDuration cfg res pr s.length acc s = (t, none)) ∧
    (durSum res acc cs = none → (parseDuration cfg res pr s.length acc s).2 = some .durValue) := by
  induction h generalizing acc with
  | done s hd =>
    cases s with
    | nil => simp [parseDuration, durSum]
    | cons c cs' =>
      have hs : parseSingle cfg res pr acc (c :: cs') = .ok (acc, []) := by
        unfold parseSingle
        simp only [hd, List.isEmpty_nil, ↓reduceIte]
      simp [parseDuration, hs, Proofs.C18.parseDuration_nil, durSum]
  | comp s v rest u cs hne hv hu htl ih =>
    cases s with
    | nil => simp at hne
    | cons c cs' =>
      have hiE : ((c :: cs').dropWhile fun c => cfg.trim.contains c).isEmpty = false := by
        cases hh : ((c :: cs').dropWhile fun c => cfg.trim.contains c) with
        | nil => exact absurd hh hne
        | cons _ _ => rfl
      cases ha : durAdd u res v acc with
      | none =>
        have hs : parseSingle cfg res pr acc (c :: cs') = .error .durValue := by
          unfold parseSingle
          simp only [hiE, Bool.false_eq_true, ↓reduceIte, hv, hu, ha]
        simp [parseDuration, hs, durSum, ha]
      | some a =>
        have hs : parseSingle cfg res pr acc (c :: cs') =
            .ok (a, rest.dropWhile fun c => !cfg.stop.contains c) := by
          unfold parseSingle
          simp only [hiE, Bool.false_eq_true, ↓reduceIte, hv, hu, ha]
        have hlt := Proofs.C18.parseSingle_rest_lt cfg pr hpr res acc a (c :: cs') _ (by simp) hs
        simp only [List.length_cons] at hlt
        have hfu := Proofs.C18.parseDuration_fuel cfg pr hpr res cs'.length a
          (rest.dropWhile fun c => !cfg.stop.contains c) (by omega)
        simp only [List.length_cons, parseDuration, hs, durSum, ha, hfu]
        exact ih a

/-- Conversely, whenever `parse_duration` returns normally the string decomposes and the result
    is the checked sum of that decomposition (any budget). -/
theorem comps_of_parseDuration (res fuel : Nat) (acc : Int) (s : Str) (t : Int)
    (h : parseDuration cfg res pr fuel acc s = (t, none)) :
    ∃ cs, DurComps cfg pr s cs ∧ durSum res acc cs = some t := by
  induction fuel generalizing acc s with
  | zero =>
    cases s with
    | nil =>
      simp only [parseDuration, Prod.mk.injEq, and_true] at h
      exact ⟨[], .done [] rfl, by simp [durSum, h]⟩
    | cons c cs => simp [parseDuration] at h
  | succ n ih =>
    cases s with
    | nil =>
      simp only [parseDuration, Prod.mk.injEq, and_true] at h
      exact ⟨[], .done [] rfl, by simp [durSum, h]⟩
    | cons c cs' =>
      simp only [parseDuration] at h
      cases hs : parseSingle cfg res pr acc (c :: cs') with
      | error e => simp [hs] at h
      | ok r =>
        obtain ⟨a, rest'⟩ := r
        simp only [hs] at h
        obtain ⟨cs, hc, hsum⟩ := ih a rest' h
        unfold parseSingle at hs
        simp only at hs
        split at hs
        · rename_i hE
          simp only [Except.ok.injEq, Prod.mk.injEq] at hs
          obtain ⟨rfl, rfl⟩ := hs
          cases hc with
          | done _ _ =>
            exact ⟨[], .done _ (by simpa using hE), hsum⟩
          | comp _ v r u cs2 hne _ _ _ => simp at hne
        · rename_i hE
          split at hs
          · simp at hs
          · simp at hs
          · rename_i v r hv
            split at hs
            · simp at hs
            · rename_i u hu
              split at hs
              · simp at hs
              · rename_i a' ha
                simp only [Except.ok.injEq, Prod.mk.injEq] at hs
                obtain ⟨rfl, rfl⟩ := hs
                refine ⟨(v, u) :: cs, .comp _ v r u cs ?_ hv hu hc, by simp [durSum, ha, hsum]⟩
                intro h0
                rw [h0] at hE
                exact hE rfl

/-- Concrete syntax of one more component in front: separators from the trim set, a number not
    starting with a trim character that `from_chars` reads up to the unit, a unit string of the
    table without stop characters, then the end or a stop character (a digit, sign, `.`, blank). -/
theorem DurComps.of_syntax (seps num ustr more : Str) (v : R) (u : Nat) (cs : List (R × Nat))
    (hseps : ∀ c ∈ seps, c ∈ cfg.trim)
    (hnum : ∃ c t, num = c :: t ∧ c ∉ cfg.trim)
    (hpr : pr (num ++ ustr ++ more) = .ok v (ustr ++ more))
    (hunit : cfg.unit? ustr = some u) (hustr : ∀ c ∈ ustr, c ∉ cfg.stop)
    (hmore : more = [] ∨ ∃ c t, more = c :: t ∧ c ∈ cfg.stop)
    (htl : DurComps cfg pr more cs) :
    DurComps cfg pr (seps ++ num ++ ustr ++ more) ((v, u) :: cs) := by
  obtain ⟨c0, t0, rfl, hc0⟩ := hnum
  have hseps' : ∀ c ∈ seps, (fun c => cfg.trim.contains c) c = true := fun c hc => by
    simpa using hseps c hc
  have hdrop : ((seps ++ (c0 :: t0) ++ ustr ++ more).dropWhile fun c => cfg.trim.contains c) =
      (c0 :: t0) ++ ustr ++ more := by
    rw [List.append_assoc, List.append_assoc,
      Proofs.C18.dropWhile_append_of_all _ seps _ hseps']
    simp [List.dropWhile_cons, hc0]
  have hu' : ∀ c ∈ ustr, (fun c => !cfg.stop.contains c) c = true := fun c hc => by
    simpa using hustr c hc
  have htake : ((ustr ++ more).takeWhile fun c => !cfg.stop.contains c) = ustr := by
    rw [Proofs.C18.takeWhile_append_of_all _ ustr more hu']
    rcases hmore with rfl | ⟨c, t, rfl, hc⟩
    · simp
    · simp [List.takeWhile_cons, hc]
  have hdropu : ((ustr ++ more).dropWhile fun c => !cfg.stop.contains c) = more := by
    rw [Proofs.C18.dropWhile_append_of_all _ ustr more hu']
    rcases hmore with rfl | ⟨c, t, rfl, hc⟩
    · simp
    · simp [List.dropWhile_cons, hc]
  refine .comp _ v (ustr ++ more) u cs ?_ ?_ ?_ ?_
  · rw [hdrop]; simp
  · rw [hdrop]; exact hpr
  · rw [htake]; exact hunit
  · rw [hdropu]; exact htl

/-- The decomposition is unique. -/
theorem DurComps.unique (s : Str) (c1 c2 : List (R × Nat)) (h1 : DurComps cfg pr s c1)
    (h2 : DurComps cfg pr s c2) : c1 = c2 := by
  induction h1 generalizing c2 with
  | done s hd =>
    cases h2 with
    | done _ _ => rfl
    | comp _ v rest u cs hne _ _ _ => exact absurd hd hne
  | comp s v rest u cs hne hv hu htl ih =>
    cases h2 with
    | done _ hd => exact absurd hd hne
    | comp _ v' rest' u' cs' hne' hv' hu' htl' =>
      rw [hv] at hv'
      simp only [NumRes.ok.injEq] at hv'
      obtain ⟨rfl, rfl⟩ := hv'
      rw [hu] at hu'
      simp only [Option.some.injEq] at hu'
      subst hu'
      rw [ih _ htl']

/-- **`parse_duration` accepts exactly the decomposable strings whose checked sum exists, with
    that sum as result** (budget `value.length`, as the duration setter uses). -/
theorem parse_duration_sum_round (hpr : FromCharsConsumes pr) (res : Nat) (value : Str) (t : Int) :
    parseDuration cfg res pr value.length 0 value = (t, none) ↔
      ∃ cs, DurComps cfg pr value cs ∧ durSum res 0 cs = some t := by
  constructor
  · exact comps_of_parseDuration cfg pr res value.length 0 value t
  · rintro ⟨cs, hc, hs⟩
    exact (parseDuration_of_comps cfg pr hpr res value cs hc 0).1 t hs

/-- The duration setter on a decomposable value: stores the sum of the rounded components (and
    that sum is inside `int64`), or throws `invalid_duration_value` without writing. -/
theorem leaf_duration_sum (hpr : FromCharsConsumes pr) (res : Nat) (value : Str) (cs : List (R × Nat))
    (hc : DurComps cfg pr value cs) :
    (∀ t, durSum res 0 cs = some t →
      setLeaf env cfg pr (.dur res) [] value = (some (.d t), none) ∧
      t = (cs.map fun c => chronoRound c.2 res c.1).sum ∧ repMin ≤ t ∧ t ≤ repMax) ∧
    (durSum res 0 cs = none → setLeaf env cfg pr (.dur res) [] value = (none, some .durValue)) := by
  have h := parseDuration_of_comps cfg pr hpr res value cs hc 0
  constructor
  · intro t ht
    have h0 : repMin ≤ (0 : Int) ∧ (0 : Int) ≤ repMax := by decide
    have hs := durSum_eq_sum res 0 cs t h0 ht
    refine ⟨by simp [setLeaf, h.1 t ht], by simpa using hs.1, hs.2⟩
  · intro hn
    have := h.2 hn
    rcases hp : parseDuration cfg res pr value.length 0 value with ⟨t', e'⟩
    rw [hp] at this
    simp only at this
    subst this
    simp [setLeaf, hp]

/-- **Rejected otherwise**: a value that has no decomposition with an accepted sum makes the
    duration setter throw (`Invalid value` / `Invalid units`), nothing written. -/
theorem malformed_duration_rejected (hpr : FromCharsConsumes pr) (res : Nat) (value : Str)
    (h : ¬ ∃ cs t, DurComps cfg pr value cs ∧ durSum res 0 cs = some t) :
    setLeaf env cfg pr (.dur res) [] value = (none, some .durValue) ∨
    setLeaf env cfg pr (.dur res) [] value = (none, some .durUnits) := by
  rcases hp : parseDuration cfg res pr value.length 0 value with ⟨t, _ | e⟩
  · exact absurd ((parse_duration_sum_round cfg pr hpr res value t).1 hp)
      (fun ⟨cs, hc, hs⟩ => h ⟨cs, t, hc, hs⟩)
  · have := parseDuration_err cfg pr hpr res value.length 0 value e (Nat.le_refl _) (by rw [hp])
    rcases this with rfl | rfl <;> simp [setLeaf, hp]

/-- Every unit of a decomposition comes from the unit table. -/
theorem DurComps.units_mem (s : Str) (cs : List (R × Nat)) (h : DurComps cfg pr s cs) :
    ∀ c ∈ cs, ∃ name, (name, c.2) ∈ cfg.units := by
  induction h with
  | done s hd => simp
  | comp s v rest u cs hne hv hu htl ih =>
    intro c hc
    simp only [List.mem_cons] at hc
    rcases hc with rfl | hc
    · simp only [DurCfg.unit?, Option.map_eq_some_iff] at hu
      obtain ⟨p, hp, rfl⟩ := hu
      exact ⟨p.1, List.mem_of_find?_eq_some hp⟩
    · exact ih c hc

/-- The `bool` setter restated against the *generated* literal list (`boolStrings`, re-read from
    the `if` chain of `set_param(bool&)` in params.cpp): the value is looked up there.  Ties the
    literals written in the hand model `setLeaf` to the source text. -/
theorem leaf_bool_generated (value : Str) :
    setLeaf env cfg pr .bool [] value =
      match boolStrings.find? (·.1.toList == value) with
      | some p => (some (.b p.2), none)
      | none => (none, some .badBool) := by
  rw [bool_strings_documented]
  simp only [setLeaf, List.isEmpty_nil, Bool.not_true, Bool.false_eq_true, ↓reduceIte, List.find?]
  by_cases h0 : value = "0".toList
  · subst h0; rfl
  · by_cases h1 : value = "false".toList
    · subst h1; rfl
    · by_cases h2 : value = "1".toList
      · subst h2; rfl
      · by_cases h3 : value = "true".toList
        · subst h3; rfl
        · have e0 : (value == "0".toList) = false := by simpa using h0
          have e1 : (value == "false".toList) = false := by simpa using h1
          have e2 : (value == "1".toList) = false := by simpa using h2
          have e3 : (value == "true".toList) = false := by simpa using h3
          have f0 : ("0".toList == value) = false := by simpa using fun h => h0 h.symm
          have f1 : ("false".toList == value) = false := by simpa using fun h => h1 h.symm
          have f2 : ("1".toList == value) = false := by simpa using fun h => h2 h.symm
          have f3 : ("true".toList == value) = false := by simpa using fun h => h3 h.symm
          simp only [e0, e1, e2, e3, f0, f1, f2, f3, Bool.or_self, Bool.false_eq_true, ↓reduceIte]

/-! ### `vec_from_file` (`params/vec-from-file.hpp`, setter in params.cpp)

Only ever a top-level object (`set_params(x0, "x0", opts)` in the driver), never a member of a
registered struct (`generated_env_vff_free`).  `setVff_outcomes` lists every way the setter can
end.  The `@file` form never writes when it throws (`vff_file_rejected`).  The direct form
(`name=1,2,3`) would engage the optional before parsing if `env.vffEmplaceFirst` held and then
leave a half-written object behind a throw (`vff_direct_half_write`; that was finding
`C18-vec_from_file-half-write`); params.cpp now parses into a local first (`vff_current`) and the
same inputs throw without writing (`vff_direct_no_half_write`). -/

theorem setVff_direct (files : Str → FileRow) (b : Bool) (x : Int) (value : Str) (hd : value.head? ≠ some '@') :
    setVff files b pr x value =
      match setVecElems pr (pieces (value.count ',' + 1) value) [] with
      | (xs, none) =>
        if sizeMismatch x xs.length then (if b then some (.o (some xs)) else none, some .badSize)
        else (some (.o (some xs)), none)
      | (_, some e) => (if b then some (.o (some [])) else none, some e) := by
  unfold setVff
  split
  · rename_i path
    simp at hd
  · rfl

/-- Accepted, direct form: every piece a number, size acceptable: the vector is stored. -/
theorem leaf_vff_direct (x : Int) (value : Str) (vs : List R) (hd : value.head? ≠ some '@')
    (h : List.Forall₂ (fun p v => pr p = .ok v []) (pieces (value.count ',' + 1) value) vs)
    (hs : sizeMismatch x vs.length = false) :
    setLeaf env cfg pr (.vff x) [] value = (some (.o (some vs)), none) := by
  simp [setLeaf, setVff_direct pr env.files env.vffEmplaceFirst x value hd, setVecElems_ok pr _ [] vs h, hs]

theorem readRow_ok (toks : List Str) (vs : List R) (h : List.Forall₂ (fun t v => pr t = .ok v []) toks vs) :
    readRow pr toks = some vs := by
  induction h with
  | nil => rfl
  | cons hp _ ih => simp [readRow, hp, ih]

/-- Accepted, `@file` form: the file exists, every token of its first row a number, size acceptable. -/
theorem leaf_vff_file (x : Int) (path : Str) (toks : List Str) (vs : List R)
    (hf : env.files path = .row toks) (h : List.Forall₂ (fun t v => pr t = .ok v []) toks vs)
    (hs : sizeMismatch x vs.length = false) :
    setLeaf env cfg pr (.vff x) [] ('@' :: path) = (some (.o (some vs)), none) := by
  simp [setLeaf, setVff, hf, readRow_ok pr toks vs h, hs]

/-- the `@file` form never writes when it throws, and throws for a missing file, an unreadable
    row, a wrong size -/
theorem vff_file_rejected (x : Int) (path : Str) :
    (env.files path = .missing → setLeaf env cfg pr (.vff x) [] ('@' :: path) = (none, some .fileOpen)) ∧
    (∀ toks, env.files path = .row toks → readRow pr toks = none →
      setLeaf env cfg pr (.vff x) [] ('@' :: path) = (none, some .fileRead)) ∧
    (∀ toks vs, env.files path = .row toks → readRow pr toks = some vs → sizeMismatch x vs.length = true →
      setLeaf env cfg pr (.vff x) [] ('@' :: path) = (none, some .badSize)) := by
  refine ⟨fun h => ?_, fun toks h h2 => ?_, fun toks vs h h2 h3 => ?_⟩
  · simp [setLeaf, setVff, h]
  · simp [setLeaf, setVff, h, h2]
  · simp [setLeaf, setVff, h, h2, h3]

/-- **The half-write, as the code is while `env.vffEmplaceFirst` holds.** -/
theorem vff_direct_half_write (henv : env.vffEmplaceFirst = true) (x : Int) (value : Str)
    (hd : value.head? ≠ some '@') :
    (∀ xs e, setVecElems pr (pieces (value.count ',' + 1) value) [] = (xs, some e) →
      setLeaf env cfg pr (.vff x) [] value = (some (.o (some [])), some e)) ∧
    (∀ xs, setVecElems pr (pieces (value.count ',' + 1) value) [] = (xs, none) →
      sizeMismatch x xs.length = true →
      setLeaf env cfg pr (.vff x) [] value = (some (.o (some xs)), some .badSize)) := by
  refine ⟨fun xs e h => ?_, fun xs h hs => ?_⟩
  · have hd' := setVff_direct pr env.files env.vffEmplaceFirst x value hd
    simp only [setLeaf, List.isEmpty_nil, Bool.not_true, Bool.false_eq_true, ↓reduceIte, hd', h]
    simp [henv]
  · have hd' := setVff_direct pr env.files env.vffEmplaceFirst x value hd
    simp only [setLeaf, List.isEmpty_nil, Bool.not_true, Bool.false_eq_true, ↓reduceIte, hd', h, hs]
    simp [henv]

/-- … and once the code parses into a local first (`env.vffEmplaceFirst = false`) the same inputs
    throw without writing. -/
theorem vff_direct_no_half_write (henv : env.vffEmplaceFirst = false) (x : Int) (value : Str)
    (hd : value.head? ≠ some '@') :
    (∀ xs e, setVecElems pr (pieces (value.count ',' + 1) value) [] = (xs, some e) →
      setLeaf env cfg pr (.vff x) [] value = (none, some e)) ∧
    (∀ xs, setVecElems pr (pieces (value.count ',' + 1) value) [] = (xs, none) →
      sizeMismatch x xs.length = true →
      setLeaf env cfg pr (.vff x) [] value = (none, some .badSize)) := by
  refine ⟨fun xs e h => ?_, fun xs h hs => ?_⟩
  · have hd' := setVff_direct pr env.files env.vffEmplaceFirst x value hd
    simp only [setLeaf, List.isEmpty_nil, Bool.not_true, Bool.false_eq_true, ↓reduceIte, hd', h]
    simp [henv]
  · have hd' := setVff_direct pr env.files env.vffEmplaceFirst x value hd
    simp only [setLeaf, List.isEmpty_nil, Bool.not_true, Bool.false_eq_true, ↓reduceIte, hd', h, hs]
    simp [henv]

/-- No `vec_from_file` is reachable from `top` through the tables. -/
def VffFree (env : Env) (top : Kind) : Prop :=
  Kind.isVff top = false ∧ ∀ t ∈ env.structs, ∀ e ∈ t.2, Kind.isVff e.kind = false

theorem addressed_not_vff (fuel : Nat) (k : Kind) (hv : VffFree env k) (path : Path) (key : Str)
    (p : Path) (lk : Kind) (rem : Str) (h : addressed env fuel k path key = some (p, lk, rem)) :
    Kind.isVff lk = false := by
  induction fuel generalizing k path key with
  | zero => simp [addressed] at h
  | succ n ih =>
    cases k with
    | struct name =>
      simp only [addressed] at h
      cases hf : env.find name (splitKey key).1 with
      | none => simp [hf] at h
      | some e =>
        simp only [hf] at h
        refine ih e.kind ⟨?_, hv.2⟩ _ _ h
        simp only [Env.find, Env.table] at hf
        cases ht : env.structs.find? (·.1 == name) with
        | none => simp [ht] at hf
        | some t =>
          simp only [ht] at hf
          exact hv.2 t (List.mem_of_find?_eq_some ht) e (List.mem_of_find?_eq_some hf)
    | _ =>
      simp only [addressed, Option.some.injEq, Prod.mk.injEq] at h
      obtain ⟨-, rfl, -⟩ := h
      exact hv.1

theorem vffFree_safe (top : Kind) (hv : VffFree env top) (opts : List Str) :
    ∀ kv ∈ opts, ∀ p lk rem, addressed env (keyFuel (optKey kv)) top [] (optKey kv) = some (p, lk, rem) →
      HalfWriteSafe env lk (optValue kv) :=
  fun kv _ p lk rem h => Or.inr (Or.inl (addressed_not_vff env _ top hv [] _ p lk rem h))

/-! ### "Sets that field — and no other": one composed statement -/

theorem opt_parts (pfx key v : Str) (hp : '.' ∉ pfx ∧ '=' ∉ pfx) (hk : '=' ∉ key) :
    optPrefix (pfx ++ '.' :: key ++ '=' :: v) = pfx ∧ optKey (pfx ++ '.' :: key ++ '=' :: v) = key ∧
    optValue (pfx ++ '.' :: key ++ '=' :: v) = v := by
  have h1 : '=' ∉ pfx ++ '.' :: key := by
    simp only [List.mem_append, List.mem_cons, not_or]
    exact ⟨hp.2, by decide, hk⟩
  have e1 : splitKey (pfx ++ '.' :: key ++ '=' :: v) '=' = (pfx ++ '.' :: key, v) := by
    have := Proofs.C18.splitKey_append (pfx ++ '.' :: key) v '=' h1
    simpa [List.append_assoc] using this
  have e2 : splitKey (pfx ++ '.' :: key) '.' = (pfx, key) := Proofs.C18.splitKey_append pfx key '.' hp.1
  simp only [optPrefix, optKey, optValue, e1, e2, and_self]

/-- **Glue for the composed statement** (any tables): after options `a` that ran without exception
    to `st1`, an option with the requested prefix whose key resolves to the leaf `p` of kind `k`
    with nothing left over, and whose value the leaf setter of `k` accepts as `l`, makes
    `set_params` return normally with the store `st1` updated at exactly `p` (every other path
    reads as before) and the option counted once. -/
theorem set_params_sets_exactly (top : Kind) (pfx : Str) (a : List Str) (kv : Str) (st st1 : Store R)
    (ua : List Nat) (p : Path) (k : Kind) (l : Leaf R)
    (ha : setParams env cfg pr top pfx a st = (st1, ua, none))
    (hpfx : optPrefix kv = pfx)
    (haddr : addressed env (keyFuel (optKey kv)) top [] (optKey kv) = some (p, k, []))
    (hl : setLeaf env cfg pr k [] (optValue kv) = (some l, none)) :
    setParams env cfg pr top pfx (a ++ [kv]) st = (st1.set p l, ua ++ [1], none) ∧
    (st1.set p l) p = some l ∧ ∀ q, q ≠ p → (st1.set p l) q = st1 q := by
  refine ⟨?_, by simp [Store.set], fun q hq => by simp [Store.set, hq]⟩
  rw [matching_option_applied_once env cfg pr top pfx a [] kv st st1 ua hpfx ha,
    setParam_of_addressed env cfg pr _ top [] (optKey kv) (optValue kv) st1 p k [] haddr, hl]
  simp [applyLeaf, setParams]

end machinery

/-- An enum field set to the *name* of a declared, non-deprecated enumerator receives that
    enumerator's declared value — for every `enum class` with a table, on the generated data. -/
theorem declared_enumerator_sets_value {R : Type} [Sub R] [Mul R] [Div R] [LT R] [DecidableLT R] [BEq R]
    [DurScalar R] (cfg : DurCfg) (pr : Str → NumRes R) (ed : EnumDecl) (hed : ed ∈ enumDecls)
    (e : String × Int × Bool) (he : e ∈ ed.enumerators) (hdep : e.2.2 = false) :
    setLeaf env cfg pr (.enum ed.name) [] e.1.toList = (some (.e e.2.1), none) := by
  have h := enumerators_by_name
  simp only [enumeratorsByName, List.all_eq_true, Bool.or_eq_true, beq_iff_eq] at h
  rcases h ed hed e he with h1 | h1
  · rw [hdep] at h1; simp at h1
  · exact leaf_enum_by_name env cfg pr ed.name e.1.toList (e.1, e.2.1) h1



/-! ### Generated data: where the no-half-write guarantee holds today, and the composed statement -/

/-- No `PARAMS_TABLE` entry is a `vec_from_file`: from a top that is not one, none is reachable. -/
theorem generated_env_vff_free (top : Kind) (h : Kind.isVff top = false) : VffFree env top :=
  ⟨h, by decide⟩

/-- **Which params.cpp this is**: the direct form of `set_param(vec_from_file&, …)` parses into a
    local vector, checks the size and only then stores into `v.value`; the `@file` form opens,
    reads, checks the size and only then stores (finding `C18-vec_from_file-half-write` fixed). -/
theorem vff_current :
    env.vffEmplaceFirst = false ∧ vffDirectSteps = ["parse", "size", "store"] ∧
    vffFileSteps = ["open", "opencheck", "read", "size", "store", "catch"] := by decide

/-- **No half-written structure, on the generated tables, as the code is now**: for every top-level
    object (every parameter struct, enum, number, duration, vec, `vec_from_file`), every prefix,
    option list, parse oracle and file system: if `set_params` throws, the object is exactly what
    the options before the failing one made it.  No exclusion. -/
theorem generated_no_half_write_current {R : Type} [Sub R] [Mul R] [Div R] [LT R] [DecidableLT R] [BEq R]
    [DurScalar R] (cfg : DurCfg) (pr : Str → NumRes R) (top : Kind)
    (pfx : Str) (opts : List Str) (st st' : Store R) (u : List Nat) (e : Err)
    (h : setParams env cfg pr top pfx opts st = (st', u, some e)) :
    ∃ before failing after u', opts = before ++ failing :: after ∧
      setParams env cfg pr top pfx before st = (st', u', none) :=
  set_params_no_half_write env cfg pr top pfx opts st st' u e
    (fun _ _ _ _ _ _ => Or.inl vff_current.1) h

/-- **The option `prefix.path.to.field=value` sets that field — and no other** (the function the
    driver runs, on the generated tables).  For every instantiated parameter struct `top`, every
    leaf `(p, k)` declared in its definition (`declLeaves`), every prefix without delimiters, every
    value string `v` that the setter of kind `k` accepts with parsed value `l`
    (`hl`; what `l` is for each kind: `leaf_real_exact`, `int_field_exact`, `leaf_bool_generated`,
    `declared_enumerator_sets_value`, `duration_field_sum_round`, `leaf_vec_elementwise`), after
    any options `a` that ran without exception: `set_params` returns normally, the resulting object
    is the previous one updated at exactly `p` with `l` — every other member path reads as before —
    and the option is counted once. -/
theorem option_sets_exactly_the_field {R : Type} [Sub R] [Mul R] [Div R] [LT R] [DecidableLT R] [BEq R]
    [DurScalar R] (cfg : DurCfg) (pr : Str → NumRes R) (top : String) (htop : top ∈ topStructs)
    (ls : List (Path × Kind)) (hls : declLeaves 8 top [] = some ls) (p : Path) (k : Kind) (hpk : (p, k) ∈ ls)
    (pfx v : Str) (hpfx : '.' ∉ pfx ∧ '=' ∉ pfx) (l : Leaf R)
    (hl : setLeaf env cfg pr k [] v = (some l, none))
    (a : List Str) (st st1 : Store R) (ua : List Nat)
    (ha : setParams env cfg pr (.struct top) pfx a st = (st1, ua, none)) :
    setParams env cfg pr (.struct top) pfx (a ++ [pfx ++ '.' :: keyOf p ++ '=' :: v]) st =
      (st1.set p l, ua ++ [1], none) ∧
    (st1.set p l) p = some l ∧ ∀ q, q ≠ p → (st1.set p l) q = st1 q := by
  obtain ⟨ls', hls', -, -, hall⟩ := every_declared_leaf_addressed top htop
  rw [hls] at hls'
  simp only [Option.some.injEq] at hls'
  subst hls'
  obtain ⟨haddr, -, -, hkey⟩ := hall p k hpk
  obtain ⟨e1, e2, e3⟩ := opt_parts pfx (keyOf p) v hpfx hkey
  exact set_params_sets_exactly env cfg pr (.struct top) pfx a _ st st1 ua p k l ha e1
    (by rw [e2]; exact haddr) (by rw [e3]; exact hl)

/-! ### `chrono::round` rounds to the nearest count, ties to even (exact arithmetic) -/

/-- Exact-arithmetic instance used for the rounding theorem (`static_cast<int64>` = truncation). -/
instance : DurScalar ℚ where
  ofInt i := (i : ℚ)
  trunc x := if 0 ≤ x then ⌊x⌋ else ⌈x⌉

theorem floor_fixup (x : ℚ) :
    (if x < ((DurScalar.trunc x : Int) : ℚ) then DurScalar.trunc x - 1 else DurScalar.trunc x) = ⌊x⌋ := by
  simp only [DurScalar.trunc]
  by_cases h0 : 0 ≤ x
  · simp only [h0, ↓reduceIte]
    have := Int.floor_le x
    simp [not_lt.mpr this]
  · simp only [h0, ↓reduceIte]
    by_cases hx : x < (⌈x⌉ : ℚ)
    · simp only [hx, ↓reduceIte]
      have h1 : ⌊x⌋ + 1 = ⌈x⌉ := by
        have hc := Int.ceil_le_floor_add_one x
        have hf : (⌊x⌋ : ℚ) ≤ x := Int.floor_le x
        have : ⌊x⌋ < ⌈x⌉ := by
          have : (⌊x⌋ : ℚ) < ⌈x⌉ := lt_of_le_of_lt hf hx
          exact_mod_cast this
        omega
      omega
    · simp only [hx, ↓reduceIte]
      have hle : (⌈x⌉ : ℚ) ≤ x := not_lt.mp hx
      have hge : x ≤ (⌈x⌉ : ℚ) := Int.le_ceil x
      have hxe : x = (⌈x⌉ : ℚ) := le_antisymm hge hle
      rw [hxe]; simp

/-- Core of `chrono::round` once `t0 = ⌊x⌋`: nearest integer, ties to even. -/
theorem round_core (x : ℚ) (t : Int)
    (ht : t = if x - (⌊x⌋ : ℚ) = ((⌊x⌋ + 1 : Int) : ℚ) - x then (if ⌊x⌋ % 2 = 0 then ⌊x⌋ else ⌊x⌋ + 1)
              else if x - (⌊x⌋ : ℚ) < ((⌊x⌋ + 1 : Int) : ℚ) - x then ⌊x⌋ else ⌊x⌋ + 1) :
    |x - (t : ℚ)| ≤ 1 / 2 ∧ (|x - (t : ℚ)| = 1 / 2 → t % 2 = 0) := by
  have hf : (⌊x⌋ : ℚ) ≤ x := Int.floor_le x
  have hl : x < (⌊x⌋ : ℚ) + 1 := Int.lt_floor_add_one x
  push_cast at ht
  split_ifs at ht with h1 h2 h3
  · subst ht
    have hx : x - ⌊x⌋ = 1 / 2 := by linarith
    refine ⟨by rw [abs_of_nonneg (by linarith)]; linarith, fun _ => h2⟩
  · subst ht
    have hx : x - ⌊x⌋ = 1 / 2 := by linarith
    have : x - ((⌊x⌋ + 1 : Int) : ℚ) = -(1 / 2) := by push_cast; linarith
    refine ⟨by rw [this, abs_neg, abs_of_pos (by norm_num)], fun _ => by omega⟩
  · subst ht
    have hx : x - ⌊x⌋ < 1 / 2 := by linarith
    refine ⟨by rw [abs_of_nonneg (by linarith)]; linarith, fun h => ?_⟩
    rw [abs_of_nonneg (by linarith)] at h; linarith
  · subst ht
    have hx : 1 / 2 < x - ⌊x⌋ := by
      rcases lt_trichotomy (x - ⌊x⌋) (⌊x⌋ + 1 - x) with h | h | h
      · exact absurd h h3
      · exact absurd h h1
      · linarith
    have hneg : x - ((⌊x⌋ + 1 : Int) : ℚ) < 0 := by push_cast; linarith
    refine ⟨by rw [abs_of_neg hneg]; push_cast; linarith, fun h => ?_⟩
    rw [abs_of_neg hneg] at h; push_cast at h; linarith

/-- **Rounded to the field's resolution.**  For a unit at least as coarse as the resolution
    (`res ∣ unit`, e.g. any unit into a `nanoseconds` field — the type of every `max_time`),
    `chronoRound` returns the integer nearest to `v·unit/res`, ties to even.  Exact arithmetic;
    the binary64 run is tied by the correspondence.  Values whose count does not fit `int64` never
    reach the rounding (`durAdd_spec`, `out_of_range_duration_rejected`). -/
theorem chrono_round_nearest_even (unitNs resNs : Nat) (v : ℚ) (hr : 0 < resNs) (hu : 0 < unitNs)
    (hd : resNs ∣ unitNs) :
    |v * unitNs / resNs - (chronoRound unitNs resNs v : ℚ)| ≤ 1 / 2 ∧
    (|v * unitNs / resNs - (chronoRound unitNs resNs v : ℚ)| = 1 / 2 → chronoRound unitNs resNs v % 2 = 0) := by
  obtain ⟨m, rfl⟩ := hd
  have hm : 0 < m := Nat.pos_of_ne_zero (fun h => by simp [h] at hu)
  have hle : resNs ≤ resNs * m := Nat.le_mul_of_pos_right _ hm
  have hx : v * ((resNs * m : Nat) : ℚ) / resNs = v * (m : ℚ) := by
    have : (resNs : ℚ) ≠ 0 := by exact_mod_cast hr.ne'
    push_cast; field_simp
  rw [hx]
  have hdiv : resNs * m / resNs = m := Nat.mul_div_cancel_left m hr
  have key : chronoRound (resNs * m) resNs v =
      if v * (m : ℚ) - (⌊v * (m : ℚ)⌋ : ℚ) = ((⌊v * (m : ℚ)⌋ + 1 : Int) : ℚ) - v * (m : ℚ) then
        (if ⌊v * (m : ℚ)⌋ % 2 = 0 then ⌊v * (m : ℚ)⌋ else ⌊v * (m : ℚ)⌋ + 1)
      else if v * (m : ℚ) - (⌊v * (m : ℚ)⌋ : ℚ) < ((⌊v * (m : ℚ)⌋ + 1 : Int) : ℚ) - v * (m : ℚ) then
        ⌊v * (m : ℚ)⌋ else ⌊v * (m : ℚ)⌋ + 1 := by
    unfold chronoRound
    simp only [hle, ↓reduceIte, hdiv]
    have hof : (DurScalar.ofInt ((m : Nat) : Int) : ℚ) = (m : ℚ) := by simp [DurScalar.ofInt]
    rw [hof]
    have := floor_fixup (v * (m : ℚ))
    simp only [DurScalar.ofInt] at this ⊢
    rw [this]
    simp only [beq_iff_eq]
  exact round_core (v * (m : ℚ)) _ key

/-- The same for a resolution *coarser* than the unit (`unit ∣ res`, e.g. `"90s"` into a
    `std::chrono::minutes` object): the division branch of `duration_cast`. -/
theorem chrono_round_nearest_even_coarse (unitNs resNs : Nat) (v : ℚ) (hu : 0 < unitNs)
    (hd : unitNs ∣ resNs) (hlt : unitNs < resNs) :
    |v * unitNs / resNs - (chronoRound unitNs resNs v : ℚ)| ≤ 1 / 2 ∧
    (|v * unitNs / resNs - (chronoRound unitNs resNs v : ℚ)| = 1 / 2 → chronoRound unitNs resNs v % 2 = 0) := by
  obtain ⟨m, rfl⟩ := hd
  have hm : 0 < m := Nat.pos_of_ne_zero (fun h => by simp [h] at hlt)
  have hmq : (0 : ℚ) < (m : ℚ) := by exact_mod_cast hm
  have hnle : ¬ unitNs * m ≤ unitNs := by omega
  have hx : v * (unitNs : ℚ) / ((unitNs * m : Nat) : ℚ) = v / (m : ℚ) := by
    have : (unitNs : ℚ) ≠ 0 := by exact_mod_cast hu.ne'
    push_cast; field_simp
  rw [hx]
  have hdiv : unitNs * m / unitNs = m := Nat.mul_div_cancel_left m hu
  have hfl := floor_fixup (v / (m : ℚ))
  have hcond : ∀ c : Int, (v < (c : ℚ) * (m : ℚ)) ↔ (v / (m : ℚ) < (c : ℚ)) := fun c => by
    rw [div_lt_iff₀ hmq]
  have key : chronoRound unitNs (unitNs * m) v =
      if v / (m : ℚ) - (⌊v / (m : ℚ)⌋ : ℚ) = ((⌊v / (m : ℚ)⌋ + 1 : Int) : ℚ) - v / (m : ℚ) then
        (if ⌊v / (m : ℚ)⌋ % 2 = 0 then ⌊v / (m : ℚ)⌋ else ⌊v / (m : ℚ)⌋ + 1)
      else if v / (m : ℚ) - (⌊v / (m : ℚ)⌋ : ℚ) < ((⌊v / (m : ℚ)⌋ + 1 : Int) : ℚ) - v / (m : ℚ) then
        ⌊v / (m : ℚ)⌋ else ⌊v / (m : ℚ)⌋ + 1 := by
    unfold chronoRound
    simp only [hnle, ↓reduceIte, hdiv]
    have hof : (DurScalar.ofInt ((m : Nat) : Int) : ℚ) = (m : ℚ) := by simp [DurScalar.ofInt]
    rw [hof]
    simp only [DurScalar.ofInt] at hfl ⊢
    simp only [hcond, hfl, beq_iff_eq]
    have e1 : (v - (⌊v / (m : ℚ)⌋ : ℚ) * (m : ℚ) = ((⌊v / (m : ℚ)⌋ + 1 : Int) : ℚ) * (m : ℚ) - v) ↔
        (v / (m : ℚ) - (⌊v / (m : ℚ)⌋ : ℚ) = ((⌊v / (m : ℚ)⌋ + 1 : Int) : ℚ) - v / (m : ℚ)) := by
      constructor
      · intro h; field_simp; linarith
      · intro h; field_simp at h; linarith
    have e2 : (v - (⌊v / (m : ℚ)⌋ : ℚ) * (m : ℚ) < ((⌊v / (m : ℚ)⌋ + 1 : Int) : ℚ) * (m : ℚ) - v) ↔
        (v / (m : ℚ) - (⌊v / (m : ℚ)⌋ : ℚ) < ((⌊v / (m : ℚ)⌋ + 1 : Int) : ℚ) - v / (m : ℚ)) := by
      rw [sub_lt_sub_iff, sub_lt_sub_iff]
      constructor
      · intro h
        have : v / (m:ℚ) + v / (m:ℚ) = (v + v) / (m : ℚ) := by ring
        rw [this, div_lt_iff₀ hmq]; linarith
      · intro h
        have : v / (m:ℚ) + v / (m:ℚ) = (v + v) / (m : ℚ) := by ring
        rw [this, div_lt_iff₀ hmq] at h; linarith
    simp only [e1, e2]
  exact round_core (v / (m : ℚ)) _ key


/-- Every duration-typed member of every registered parameter struct has nanosecond resolution,
    and every unit of the generated unit table is a positive whole number of nanoseconds. -/
theorem all_duration_fields_ns :
    (structDecls.all fun sd => sd.fields.all fun f =>
      match f.kind with | .dur r => r == 1 | _ => true) = true ∧
    (∀ u ∈ durCfg.units, 0 < u.2) := by decide

/-- Periods, in ns, of the `std::chrono` typedefs ([time.syn]). -/
def chronoTypedefNs : List (String × Nat) :=
  [("std::chrono::nanoseconds", 1), ("std::chrono::microseconds", 1000),
   ("std::chrono::milliseconds", 1000000), ("std::chrono::seconds", 1000000000),
   ("std::chrono::minutes", 60000000000), ("std::chrono::hours", 3600000000000)]

/-- Resolutions of the duration types `set_param` is instantiated for (params.cpp). -/
def instResolutions : List Nat :=
  instList.filterMap fun i => (chronoTypedefNs.find? (·.1 == i)).map (·.2)

/-- Every unit of the generated table and every instantiated resolution are positive and one
    divides the other (so `duration_cast` multiplies or divides by an integer, as modelled). -/
theorem units_vs_resolutions :
    instResolutions = [1, 1000, 1000000, 1000000000, 60000000000, 3600000000000] ∧
    (durCfg.units.all fun u => instResolutions.all fun r =>
      decide (0 < u.2) && decide (0 < r) && (decide (u.2 % r = 0) || decide (r % u.2 = 0))) = true := by
  decide

/-- **Rounded to the field's resolution.**  For every unit of the generated unit table and every
    duration type `set_param` is instantiated for (`nanoseconds` — the type of every registered
    `max_time` — up to `hours`), a component `v<unit>` contributes the integer nearest to
    `v·unit/res`, ties to even: this is what `std::chrono::round<Duration>` of the
    `duration<double, unit>` computes.  Exact arithmetic; the binary64 run is tied by the
    correspondence. -/
theorem duration_rounding (u : String × Nat) (hu : u ∈ durCfg.units) (r : Nat) (hr : r ∈ instResolutions)
    (v : ℚ) :
    |v * u.2 / r - (chronoRound u.2 r v : ℚ)| ≤ 1 / 2 ∧
    (|v * u.2 / r - (chronoRound u.2 r v : ℚ)| = 1 / 2 → chronoRound u.2 r v % 2 = 0) := by
  have h := units_vs_resolutions.2
  simp only [List.all_eq_true, Bool.and_eq_true, Bool.or_eq_true, decide_eq_true_eq] at h
  obtain ⟨⟨hu0, hr0⟩, hdvd⟩ := h u hu r hr
  rcases hdvd with hd | hd
  · exact chrono_round_nearest_even u.2 r v hr0 hu0 (Nat.dvd_of_mod_eq_zero hd)
  · have hd' : u.2 ∣ r := Nat.dvd_of_mod_eq_zero hd
    rcases Nat.lt_or_ge u.2 r with hlt | hge
    · exact chrono_round_nearest_even_coarse u.2 r v hu0 hd' hlt
    · have : u.2 = r := Nat.le_antisymm (Nat.le_of_dvd hr0 hd') hge
      exact chrono_round_nearest_even u.2 r v hr0 hu0 (this ▸ Nat.dvd_refl _)

/-- The registered duration fields (`max_time`, ns): nearest to `v·unit` ns, ties to even. -/
theorem registered_duration_rounding (u : String × Nat) (hu : u ∈ durCfg.units) (v : ℚ) :
    |v * u.2 / (1 : Nat) - (chronoRound u.2 1 v : ℚ)| ≤ 1 / 2 ∧
    (|v * u.2 / (1 : Nat) - (chronoRound u.2 1 v : ℚ)| = 1 / 2 → chronoRound u.2 1 v % 2 = 0) :=
  duration_rounding u hu 1 (by decide) v

/-- **Durations: units summed, each component rounded to the field's resolution** — on the
    generated unit table, for every instantiated resolution `r`.  If the value string decomposes
    into components `(vᵢ, unitᵢ)` (`DurComps`: optional `+` / blanks, a number `from_chars`
    accepts, a unit token of the table, repeated) and the `int64` range is respected
    (`durSum … = some t`), the field receives `t = Σ round(vᵢ·unitᵢ/r)` where each `round` is the
    nearest integer, ties to even, and every `unitᵢ` is an entry of the generated table. -/
theorem duration_field_sum_round (pr : Str → NumRes ℚ) (hpr : FromCharsConsumes pr) (r : Nat)
    (hr : r ∈ instResolutions) (value : Str) (cs : List (ℚ × Nat)) (hc : DurComps durCfg pr value cs)
    (t : Int) (ht : durSum r 0 cs = some t) :
    setLeaf env durCfg pr (.dur r) [] value = (some (.d t), none) ∧
    t = (cs.map fun c => chronoRound c.2 r c.1).sum ∧
    ∀ c ∈ cs, (∃ name, (name, c.2) ∈ durCfg.units) ∧
      |c.1 * c.2 / r - (chronoRound c.2 r c.1 : ℚ)| ≤ 1 / 2 ∧
      (|c.1 * c.2 / r - (chronoRound c.2 r c.1 : ℚ)| = 1 / 2 → chronoRound c.2 r c.1 % 2 = 0) := by
  obtain ⟨h1, h2, -⟩ := (leaf_duration_sum env durCfg pr hpr r value cs hc).1 t ht
  refine ⟨h1, h2, fun c hcm => ?_⟩
  obtain ⟨name, hn⟩ := DurComps.units_mem durCfg pr value cs hc c hcm
  exact ⟨⟨name, hn⟩, duration_rounding (name, c.2) hn r hr c.1⟩

/-! ## Examples: the hypotheses are satisfiable on concrete, non-trivial instances -/

section examples

/-- A small exact-arithmetic oracle for the examples: decimal integers only. -/
def exOracle (s : Str) : NumRes ℚ :=
  match parseInt (-1000000) 1000000 s with
  | .ok v rest => .ok (v : ℚ) rest
  | .invalid => .invalid
  | .range => .range

theorem exOracle_consumes : FromCharsConsumes exOracle := by
  intro s v rest h
  unfold exOracle at h
  split at h
  · rename_i v' rest' hp
    simp only [NumRes.ok.injEq] at h
    rw [← h.2]
    exact parseInt_consumes _ _ s v' rest' hp
  · simp at h
  · simp at h

/-- Decimal oracle for the examples: `digits[.digits]` with at least one digit. -/
def exDecBody (body : Str) : Option (ℚ × Str) :=
  match body.dropWhile Char.isDigit with
  | '.' :: t =>
    if (body.takeWhile Char.isDigit).isEmpty && (t.takeWhile Char.isDigit).isEmpty then none
    else some ((digitsVal (body.takeWhile Char.isDigit) : ℚ) +
      (digitsVal (t.takeWhile Char.isDigit) : ℚ) / 10 ^ (t.takeWhile Char.isDigit).length,
      t.dropWhile Char.isDigit)
  | r1 =>
    if (body.takeWhile Char.isDigit).isEmpty then none
    else some ((digitsVal (body.takeWhile Char.isDigit) : ℚ), r1)

/-- … with an optional leading `-`. -/
def exDec (s : Str) : NumRes ℚ :=
  match s with
  | '-' :: t => match exDecBody t with | some p => .ok (-p.1) p.2 | none => .invalid
  | _ => match exDecBody s with | some p => .ok p.1 p.2 | none => .invalid

theorem exDecBody_consumes (body : Str) (p : ℚ × Str) (h : exDecBody body = some p) :
    p.2.length < body.length := by
  unfold exDecBody at h
  have hle := Proofs.C18.length_dropWhile_le Char.isDigit body
  split at h
  · rename_i t ht
    split at h
    · simp at h
    · simp only [Option.some.injEq] at h
      rw [← h]
      have h3 := Proofs.C18.length_dropWhile_le Char.isDigit t
      have : (body.dropWhile Char.isDigit).length = t.length + 1 := by rw [ht]; simp
      simp only
      omega
  · split at h
    · simp at h
    · rename_i hne
      simp only [Option.some.injEq] at h
      rw [← h]
      have := Proofs.C18.length_dropWhile_lt Char.isDigit body (by simpa using hne)
      simpa using this

theorem exDec_consumes : FromCharsConsumes exDec := by
  intro s v rest h
  unfold exDec at h
  split at h
  · rename_i t
    cases hb : exDecBody t with
    | none => simp [hb] at h
    | some p =>
      simp only [hb, NumRes.ok.injEq] at h
      have := exDecBody_consumes t p hb
      rw [← h.2]
      simp only [List.length_cons]; omega
  · cases hb : exDecBody s with
    | none => simp [hb] at h
    | some p =>
      simp only [hb, NumRes.ok.injEq] at h
      have := exDecBody_consumes s p hb
      rw [← h.2]; exact this

/-- `p.Lipschitz.δ`-style nested addressing resolves through the generated tables. -/
example : addressed env 8 (.struct "PANOCParams") [] "Lipschitz.δ".toList =
    some (["Lipschitz", "δ"], .real, []) := by decide

example : addressed env 8 (.struct "PANOCOCPParams") [] "lbfgs_params.cbfgs.α".toList =
    some (["lbfgs_params", "cbfgs", "α"], .real, []) := by decide

/-- unknown key / alias / index into scalar on the generated tables -/
example : addressed env 8 (.struct "PANOCParams") [] "Lipschitz.delta".toList = none := by decide
example : addressed env 8 (.struct "PANOCParams") [] "max_iter.x".toList =
    some (["max_iter"], .int 0 4294967295, ['x']) := by decide

/-- enumerator by name over the generated enum tables (incl. the nested `FailurePolicy`) -/
example : (env.enumTable "PANOCStopCrit").find? (·.1.toList == "FPRNorm2".toList) = some ("FPRNorm2", 7) := by
  decide
example : (env.enumTable "PANOCStopCrit").find? (·.1.toList == "Ipopt".toList) = some ("Ipopt", 8) := by
  decide
example : addressed env 8 (.struct "StructuredLBFGSDirectionParams") [] "failure_policy".toList =
    some (["failure_policy"], .enum "StructuredLBFGSDirectionParams::FailurePolicy", []) := by decide

/-- integer `from_chars`: value, suffix, range -/
example : parseInt 0 4294967295 "12abc".toList = .ok 12 "abc".toList := by decide
example : parseInt 0 4294967295 "99999999999999999999".toList = .range := by decide
example : parseInt 0 4294967295 "-1".toList = .invalid := by decide
example : parseInt (-128) 127 "-128".toList = .ok (-128) [] := by decide

/-- `used` counts and prefix filter on a concrete option list (model over the generated tables) -/
example :
    (setParams env durCfg exOracle (.struct "PANOCParams") "p".toList
      ["q.max_iter=1".toList, "p.max_iter=7".toList, "pp.max_iter=3".toList, "p.print_interval=2".toList]
      (fun _ => none)).2 = ([0, 1, 0, 1], none) := by decide

/-- rounding: 1.5 s → 2 s, 0.5 s → 0 s, 2.5 s → 2 s (ties to even), −1.5 s → −2 s in a `seconds` field;
    the duration table really sums components -/
example : chronoRound 1000000 1000000000 (1500 : ℚ) = 2 ∧ chronoRound 1000000 1000000000 (500 : ℚ) = 0 ∧
    chronoRound 1000000 1000000000 (2500 : ℚ) = 2 ∧ chronoRound 1000000 1000000000 (-1500 : ℚ) = -2 := by
  refine ⟨?_, ?_, ?_, ?_⟩ <;> (simp only [chronoRound, DurScalar.ofInt, DurScalar.trunc]; norm_num)

/-- the range guard of `parse_single_duration` over exact arithmetic: an ordinary component is
    added; `1e30h` into a ns field and a sum leaving the `int64` range are refused -/
example : durAdd 1000000000 1 (5 : ℚ) 0 = some 5000000000 := by
  simp only [durAdd, durCount, chronoRound, DurScalar.ofInt, DurScalar.trunc, repMin, repMax]; norm_num
example : durAdd 3600000000000 1 ((10 : ℚ) ^ 30) 0 = none := by
  simp only [durAdd, durCount, chronoRound, DurScalar.ofInt, DurScalar.trunc, repMin, repMax]; norm_num
example : durAdd 1 1 (9000000000000000000 : ℚ) 9000000000000000000 = none := by
  simp only [durAdd, durCount, chronoRound, DurScalar.ofInt, DurScalar.trunc, repMin, repMax]; norm_num


/-! ### (f) budgets -/
example : (setParams env durCfg exDec (.struct "PANOCParams") "p".toList
      ["p.max_time=1h30min".toList, "q.x.y.z.w.v.u.t.s.r=1".toList, "p.Lipschitz.δ.a.b.c.d.e.f.g.h.i=3".toList]
      (fun _ => none)).2.2 ≠ some .fuel :=
  setParams_never_fuel env durCfg exDec generated_env_no_empty_key exDec_consumes _ _ _ _

example : (setParams env durCfg exDec (.struct "PANOCParams") "p".toList
      ["p.max_time=1h30min".toList, "q.x.y.z.w.v.u.t.s.r=1".toList, "p.Lipschitz.δ.a.b.c.d.e.f.g.h.i=3".toList]
      (fun _ => none)).2 = ([1, 0, 1], some .indexed) := by decide +kernel

/-- outside the two facts the budgets *can* run out -/
example : (parseDuration durCfg 1 (fun s => NumRes.ok (1 : ℚ) s) 2 0 "5s".toList).2 = some .fuel := by
  decide +kernel

def cyclicEnv : Env :=
  { structs := [("S", [{ key := "", member := "m", kind := .struct "S" }])], enums := [], vffEmplaceFirst := true }
example : (setParam cyclicEnv durCfg exDec (keyFuel []) (.struct "S") [] [] "1".toList (fun _ => none)).2 =
    some .fuel := by decide +kernel


/-- the budget theorems with every hypothesis instantiated: an unknown key below a nested struct
    is `Invalid key` whatever the budget above the key length; the duration loop likewise -/
example : setParam env durCfg exDec 100 (.struct "PANOCParams") [] "Lipschitz.delta".toList "1".toList
    (fun _ => none) = ((fun _ => none), some .invalidKey) :=
  setParam_of_not_addressed env durCfg exDec generated_env_no_empty_key 100 _ _ _ _ _ (by decide)
    (by decide +kernel)

example : setParam env durCfg exDec 100 (.struct "PANOCParams") [] "Lipschitz.δ".toList "1".toList
    (fun _ => none) = setParam env durCfg exDec (keyFuel "Lipschitz.δ".toList) (.struct "PANOCParams") []
      "Lipschitz.δ".toList "1".toList (fun _ => none) :=
  setParam_fuel_suffices env durCfg exDec generated_env_no_empty_key 100 _ _ _ _ _ (by decide)

example : addressed env 100 (.struct "PANOCParams") [] "Lipschitz.δ".toList =
    addressed env (keyFuel "Lipschitz.δ".toList) (.struct "PANOCParams") [] "Lipschitz.δ".toList :=
  addressed_fuel_suffices env generated_env_no_empty_key 100 _ _ _ (by decide)

example : parseDuration durCfg 1 exDec 100 0 "1h30min".toList =
    parseDuration durCfg 1 exDec "1h30min".toList.length 0 "1h30min".toList :=
  parseDuration_fuel_suffices durCfg exDec exDec_consumes 1 100 0 _ (by decide)

example : (parseDuration durCfg 1 exDec 7 0 "1h30xyz".toList).2 = some .durUnits ∧
    (Err.durUnits = .durValue ∨ Err.durUnits = .durUnits) :=
  ⟨by decide +kernel, parseDuration_err durCfg exDec exDec_consumes 1 7 0 "1h30xyz".toList .durUnits
    (by decide) (by decide +kernel)⟩

/-! ### leaf setters on the generated tables -/
example : setLeaf env durCfg exDec (.int (-2147483648) 2147483647) [] "-2147483648".toList =
    (some (.i (-2147483648)), none) := by
  have h := int_field_exact env durCfg exDec (-2147483648) 2147483647 (-2147483648) (by decide) (by decide)
  rwa [show decimal (-2147483648) = "-2147483648".toList from by decide +kernel] at h

example : pieces ("1,2.5,,-3".toList.count ',' + 1) "1,2.5,,-3".toList =
    ["1".toList, "2.5".toList, [], "-3".toList] := by decide

/-- `leaf_vec_elementwise` with its hypothesis instantiated; an empty element is rejected -/
example : setLeaf env durCfg exDec .vec [] "1,2.5,-3".toList = (some (.v [1, 5 / 2, -3]), none) :=
  leaf_vec_elementwise env durCfg exDec [] "1,2.5,-3".toList [1, 5 / 2, -3] (by
    rw [show pieces ("1,2.5,-3".toList.count ',' + 1) "1,2.5,-3".toList =
      ["1".toList, "2.5".toList, "-3".toList] from by decide]
    refine .cons (by decide +kernel) (.cons (by decide +kernel) (.cons (by decide +kernel) .nil)))

example : setLeaf env durCfg exDec .vec [] "1,2.5,,-3".toList = (none, some .numInvalid) := by
  decide +kernel

example : setLeaf env durCfg exDec (.enum "PANOCStopCrit") [] "FPRNorm2".toList = (some (.e 7), none) :=
  declared_enumerator_sets_value durCfg exDec (enumDecls[0]'(by decide)) (List.getElem_mem _)
    ("FPRNorm2", 7, false) (by decide) rfl


example : setLeaf env durCfg exDec .bool [] "true".toList = (some (.b true), none) ∧
    setLeaf env durCfg exDec .bool [] "yes".toList = (none, some .badBool) := by
  constructor <;> (rw [leaf_bool_generated]; decide)

/-! ### (h) a first key component that properly extends the prefix is a different prefix -/

/-- `solverx.…`, `solver2=…`, `solver_x.…`, `solve.…` with prefix `solver`: not applied, not
    counted — even when key or value would be rejected (`solverx.nokey`, `solverx.max_iter=abc`);
    `solver.…` is applied and counted once. -/
example :
    (setParams env durCfg exDec (.struct "PANOCParams") "solver".toList
      ["solverx.max_iter=1".toList, "solver.max_iter=7".toList, "solver2=3".toList,
       "solverx.nokey=1".toList, "solverx.max_iter=abc".toList, "solve.max_iter=5".toList,
       "solver_x.max_iter=4".toList, "solver.print_interval=2".toList]
      (fun _ => none)).2 = ([0, 1, 0, 0, 0, 0, 0, 1], none) ∧
    (setParams env durCfg exDec (.struct "PANOCParams") "solver".toList
      ["solverx.max_iter=1".toList, "solver.max_iter=7".toList, "solver2=3".toList,
       "solverx.nokey=1".toList, "solverx.max_iter=abc".toList, "solve.max_iter=5".toList,
       "solver_x.max_iter=4".toList, "solver.print_interval=2".toList]
      (fun _ => none)).1 ["max_iter"] = some (.i 7) := by decide +kernel

example : optPrefix "solverx.max_iter=1".toList ≠ "solver".toList :=
  optPrefix_ne_of_proper_extension "solver".toList 'x' ".max_iter=1".toList (by decide)

/-- `other_prefix_option_ignored` with every hypothesis instantiated: inserting
    `solverx.max_iter=abc` between two options of prefix `solver` changes nothing but its own
    (zero) `used` entry. -/
example :
    (setParams env durCfg exDec (.struct "PANOCParams") "solver".toList
      (["solver.max_iter=7".toList] ++ "solverx.max_iter=abc".toList :: ["solver.print_interval=2".toList])
      (fun _ => none)).2 = ([1, 0, 1], none) := by
  have h := other_prefix_option_ignored env durCfg exDec (.struct "PANOCParams") "solver".toList
    ["solver.max_iter=7".toList] ["solver.print_interval=2".toList] "solverx.max_iter=abc".toList
    (fun _ => none) (optPrefix_ne_of_proper_extension "solver".toList 'x' ".max_iter=abc".toList (by decide))
  have h0 : (setParams env durCfg exDec (.struct "PANOCParams") "solver".toList
      (["solver.max_iter=7".toList] ++ ["solver.print_interval=2".toList]) (fun _ => none)).2 =
      ([1, 1], none) := by decide +kernel
  rw [Prod.ext_iff]
  exact ⟨by rw [h.2.2, h0]; rfl, by rw [h.2.1, h0]⟩

/-- `matching_option_applied_once` / `set_params_append` with every hypothesis instantiated -/
example :
    setParams env durCfg exDec (.struct "PANOCParams") "solver".toList
      (["solverx.max_iter=1".toList] ++ "solver.max_iter=7".toList :: ["solver.print_interval=2".toList])
      (fun _ => none) =
    match setParam env durCfg exDec (keyFuel "max_iter".toList) (.struct "PANOCParams") []
        "max_iter".toList "7".toList (fun _ => none) with
    | (st2, some err) => (st2, [0] ++ 1 :: [0], some err)
    | (st2, none) =>
      ((setParams env durCfg exDec (.struct "PANOCParams") "solver".toList
          ["solver.print_interval=2".toList] st2).1,
        [0] ++ 1 :: (setParams env durCfg exDec (.struct "PANOCParams") "solver".toList
          ["solver.print_interval=2".toList] st2).2.1,
        (setParams env durCfg exDec (.struct "PANOCParams") "solver".toList
          ["solver.print_interval=2".toList] st2).2.2) :=
  matching_option_applied_once env durCfg exDec (.struct "PANOCParams") "solver".toList
    ["solverx.max_iter=1".toList] ["solver.print_interval=2".toList] "solver.max_iter=7".toList
    (fun _ => none) (fun _ => none) [0] (by decide) (by
      have h := other_prefix_ignored env durCfg exDec (.struct "PANOCParams") "solver".toList
        ["solverx.max_iter=1".toList] (fun _ => none) (by
          intro kv hkv
          simp only [List.mem_singleton] at hkv
          subst hkv
          exact optPrefix_ne_of_proper_extension "solver".toList 'x' ".max_iter=1".toList (by decide))
      simpa using h)

/-! ### (g) multi-component durations -/

example : exDec "2min0.5s".toList = .ok 2 "min0.5s".toList ∧ exDec "0.5s".toList = .ok (1 / 2) "s".toList ∧
    exDec "-12.25x".toList = .ok (-49 / 4) "x".toList ∧ exDec "s".toList = .invalid := by decide +kernel

/-- `"2min0.5s"` is `[2 min, 0.5 s]`, `"1h30min"` is `[1 h, 30 min]`, `" 1min +12s  13ms"` is
    `[1 min, 12 s, 13 ms]` (built with `DurComps.of_syntax`, every hypothesis discharged). -/
theorem ex_comps_2min05s :
    DurComps durCfg exDec "2min0.5s".toList [((2 : ℚ), 60000000000), ((1 / 2 : ℚ), 1000000000)] := by
  have h2 : DurComps durCfg exDec "0.5s".toList [((1 / 2 : ℚ), 1000000000)] :=
    DurComps.of_syntax durCfg exDec [] "0.5".toList "s".toList [] (1 / 2) 1000000000 []
      (by simp) ⟨'0', ".5".toList, by decide, by decide⟩ (by decide +kernel) (by decide) (by decide)
      (Or.inl rfl) (.done [] rfl)
  exact DurComps.of_syntax durCfg exDec [] "2".toList "min".toList "0.5s".toList 2 60000000000 _
    (by simp) ⟨'2', [], by decide, by decide⟩ (by decide +kernel) (by decide) (by decide)
    (Or.inr ⟨'0', ".5s".toList, by decide, by decide⟩) h2

theorem ex_comps_1h30min :
    DurComps durCfg exDec "1h30min".toList [((1 : ℚ), 3600000000000), ((30 : ℚ), 60000000000)] := by
  have h2 : DurComps durCfg exDec "30min".toList [((30 : ℚ), 60000000000)] :=
    DurComps.of_syntax durCfg exDec [] "30".toList "min".toList [] 30 60000000000 []
      (by simp) ⟨'3', "0".toList, by decide, by decide⟩ (by decide +kernel) (by decide) (by decide)
      (Or.inl rfl) (.done [] rfl)
  exact DurComps.of_syntax durCfg exDec [] "1".toList "h".toList "30min".toList 1 3600000000000 _
    (by simp) ⟨'1', [], by decide, by decide⟩ (by decide +kernel) (by decide) (by decide)
    (Or.inr ⟨'3', "0min".toList, by decide, by decide⟩) h2

/-- `duration_field_sum_round` with every hypothesis instantiated, ns field and `seconds` object:
    `2min0.5s` = 120 500 000 000 ns = 2·60e9 + round(0.5·1e9); into `std::chrono::seconds` it is
    120 + round(0.5) = 120 (tie to even); `1h30min` = 5400 s. -/
example : setLeaf env durCfg exDec (.dur 1) [] "2min0.5s".toList = (some (.d 120500000000), none) :=
  (duration_field_sum_round exDec exDec_consumes 1 (by decide) _ _ ex_comps_2min05s 120500000000
    (by decide +kernel)).1

example : setLeaf env durCfg exDec (.dur 1000000000) [] "2min0.5s".toList = (some (.d 120), none) ∧
    (120 : Int) = chronoRound 60000000000 1000000000 (2 : ℚ) + chronoRound 1000000000 1000000000 (1 / 2 : ℚ) := by
  have h := duration_field_sum_round exDec exDec_consumes 1000000000 (by decide) _ _ ex_comps_2min05s 120
    (by decide +kernel)
  exact ⟨h.1, by simpa using h.2.1⟩

example : setLeaf env durCfg exDec (.dur 1000000000) [] "1h30min".toList = (some (.d 5400), none) :=
  (duration_field_sum_round exDec exDec_consumes 1000000000 (by decide) _ _ ex_comps_1h30min 5400
    (by decide +kernel)).1

/-- rejected otherwise: unknown unit in the second component, a letter where a number must
    start, a component that leaves the `int64` range (`leaf_duration_sum`, second part) -/
example : setLeaf env durCfg exDec (.dur 1) [] "1h30x".toList = (none, some .durUnits) ∧
    setLeaf env durCfg exDec (.dur 1) [] "1h min".toList = (none, some .durValue) ∧
    setLeaf env durCfg exDec (.dur 1) [] "1h2600000h".toList = (none, some .durValue) := by
  decide +kernel

example : durSum 1 0 [((1 : ℚ), 3600000000000), ((2600000 : ℚ), 3600000000000)] = none := by
  decide +kernel

/-- `malformed_duration_rejected` with its hypothesis discharged: `"1h30x"` has no decomposition
    (by `parse_duration_sum_round`, since `parse_duration` stops with `Invalid units`) -/
example : setLeaf env durCfg exDec (.dur 1) [] "1h30x".toList = (none, some .durValue) ∨
    setLeaf env durCfg exDec (.dur 1) [] "1h30x".toList = (none, some .durUnits) :=
  malformed_duration_rejected env durCfg exDec exDec_consumes 1 _ (by
    rintro ⟨cs, t, hc, hs⟩
    have h1 := (parse_duration_sum_round durCfg exDec exDec_consumes 1 "1h30x".toList t).2 ⟨cs, hc, hs⟩
    have h2 : (parseDuration durCfg 1 exDec "1h30x".toList.length 0 "1h30x".toList).2 = some .durUnits := by
      decide +kernel
    rw [h1] at h2
    simp at h2)

example : ∀ c2, DurComps durCfg exDec "2min0.5s".toList c2 →
    c2 = [((2 : ℚ), 60000000000), ((1 / 2 : ℚ), 1000000000)] :=
  fun c2 h => DurComps.unique durCfg exDec _ _ _ h ex_comps_2min05s

/-- rounding into a coarser type: `90s` → 2 min (1.5, tie to even), `30s` → 0 min (0.5, tie to
    even), `500ms` → 0 s, `1500ms` → 2 s -/
example : chronoRound 1000000000 60000000000 (90 : ℚ) = 2 ∧ chronoRound 1000000000 60000000000 (30 : ℚ) = 0 ∧
    chronoRound 1000000 1000000000 (500 : ℚ) = 0 ∧ chronoRound 1000000 1000000000 (1500 : ℚ) = 2 := by
  decide +kernel

example : |(90 : ℚ) * (1000000000 : Nat) / (60000000000 : Nat) -
    (chronoRound 1000000000 60000000000 (90 : ℚ) : ℚ)| ≤ 1 / 2 :=
  (chrono_round_nearest_even_coarse 1000000000 60000000000 90 (by decide) (by decide) (by decide)).1

example : |(1500 : ℚ) * (1000000 : Nat) / (1000000000 : Nat) -
    (chronoRound 1000000 1000000000 (1500 : ℚ) : ℚ)| ≤ 1 / 2 :=
  (duration_rounding ("ms", 1000000) (by decide) 1000000000 (by decide) 1500).1


/-! ### `vec_from_file` -/

/-- `vec_from_file` objects for the examples: `value = [1, 2]` at the top-level path `[]` -/
def vffStore : Store ℚ := fun q => if q = [] then some (.o (some [1, 2])) else none

/-- **Rejected `vec_from_file` options leave the object untouched, pinned on the generated
    environment** (finding `C18-vec_from_file-half-write` fixed): from `value = [1, 2]`, `p=3,x`
    throws `Invalid value` and `p=4,5,6` with `expected_size = 2` throws `Incorrect size`; in both
    cases `value` still reads `[1, 2]`. -/
theorem vff_no_half_write_current :
    (setParams env durCfg exDec (.vff (-1)) "p".toList ["p=3,x".toList] vffStore).1 [] = some (.o (some [1, 2])) ∧
    (setParams env durCfg exDec (.vff (-1)) "p".toList ["p=3,x".toList] vffStore).2 = ([1], some .numInvalid) ∧
    (setParams env durCfg exDec (.vff 2) "p".toList ["p=4,5,6".toList] vffStore).1 [] = some (.o (some [1, 2])) ∧
    (setParams env durCfg exDec (.vff 2) "p".toList ["p=4,5,6".toList] vffStore).2 = ([1], some .badSize) := by
  decide +kernel

/-- the general statement behind it, hypotheses discharged on the generated environment -/
example : setLeaf env durCfg exDec (.vff 2) [] "4,5,6".toList = (none, some .badSize) ∧
    setLeaf env durCfg exDec (.vff (-1)) [] "3,x".toList = (none, some .numInvalid) := by
  constructor
  · exact (vff_direct_no_half_write env durCfg exDec vff_current.1 2 "4,5,6".toList
      (by decide)).2 [4, 5, 6] (by decide +kernel) (by decide)
  · exact (vff_direct_no_half_write env durCfg exDec vff_current.1 (-1) "3,x".toList
      (by decide)).1 [3] .numInvalid (by decide +kernel)

/-- what the engage-first order (`set_param(v.value.emplace(), s)`, the code before the fix) did
    with the same inputs: it threw after writing -/
example : setLeaf { env with vffEmplaceFirst := true } durCfg exDec (.vff 2) [] "4,5,6".toList =
    (some (.o (some [4, 5, 6])), some .badSize) :=
  (vff_direct_half_write { env with vffEmplaceFirst := true } durCfg exDec rfl 2 "4,5,6".toList (by decide)).2
    [4, 5, 6] (by decide +kernel) (by decide)

/-- accepted values, direct and `@file` form (a file system with one file `row.csv` = `7,8`) -/
def fsEnv : Env := { env with files := fun p => if p = "row.csv".toList then .row ["7".toList, "8".toList] else .missing }

example : setLeaf env durCfg exDec (.vff 2) [] "4,5".toList = (some (.o (some [4, 5])), none) :=
  leaf_vff_direct env durCfg exDec 2 "4,5".toList [4, 5] (by decide)
    (by
      rw [show pieces ("4,5".toList.count ',' + 1) "4,5".toList = ["4".toList, "5".toList] from by decide]
      exact .cons (by decide +kernel) (.cons (by decide +kernel) .nil))
    (by decide)

example : setLeaf fsEnv durCfg exDec (.vff 2) [] "@row.csv".toList = (some (.o (some [7, 8])), none) :=
  leaf_vff_file fsEnv durCfg exDec 2 "row.csv".toList ["7".toList, "8".toList] [7, 8] (by decide)
    (.cons (by decide +kernel) (.cons (by decide +kernel) .nil)) (by decide)

example : setLeaf fsEnv durCfg exDec (.vff 2) [] "@nofile.csv".toList = (none, some .fileOpen) ∧
    setLeaf fsEnv durCfg exDec (.vff 3) [] "@row.csv".toList = (none, some .badSize) :=
  ⟨(vff_file_rejected fsEnv durCfg exDec 2 "nofile.csv".toList).1 (by decide),
   (vff_file_rejected fsEnv durCfg exDec 3 "row.csv".toList).2.2 ["7".toList, "8".toList] [7, 8] (by decide)
     (by decide +kernel) (by decide)⟩

/-- `no_half_write` with its side condition discharged (here by the `@file` disjunct; on the
    generated environment `Or.inl vff_current.1` discharges it for every call) -/
example (st' : Store ℚ) (e : Err)
    (h : setParam env durCfg exDec 1 (.vff 2) [] [] "@nofile.csv".toList vffStore = (st', some e)) :
    st' = vffStore :=
  no_half_write env durCfg exDec 1 (.vff 2) [] [] "@nofile.csv".toList vffStore st' e
    (fun _ _ _ _ => Or.inr (Or.inr (by decide))) h

example : (setParam env durCfg exDec 1 (.vff 2) [] [] "@nofile.csv".toList vffStore).2 = some .fileOpen := by
  decide +kernel

/-! ### the composed statement, every hypothesis discharged -/

/-- `solver.lbfgs_params.cbfgs.ϵ=0.25` on a `PANOCOCPParams`: the store is updated at exactly
    `["lbfgs_params", "cbfgs", "ϵ"]` with `1/4`, used = `[1]`; then `solver.max_time=1h30min` on top
    of it (the first result is the `ha` of the second application): `max_time` = 5 400 000 000 000 ns
    and `ϵ` still reads `1/4`. -/
example (st : Store ℚ) :
    ∃ st2, setParams env durCfg exDec (.struct "PANOCOCPParams") "solver".toList
        (["solver.lbfgs_params.cbfgs.ϵ=0.25".toList] ++ ["solver.max_time=1h30min".toList]) st =
          (st2, [1, 1], none) ∧
      st2 ["max_time"] = some (.d 5400000000000) ∧ st2 ["lbfgs_params", "cbfgs", "ϵ"] = some (.r (1 / 4)) ∧
      ∀ q, q ≠ ["max_time"] → q ≠ ["lbfgs_params", "cbfgs", "ϵ"] → st2 q = st q := by
  have htop : "PANOCOCPParams" ∈ topStructs := by decide
  obtain ⟨ls, hls, -, -, -⟩ := every_declared_leaf_addressed "PANOCOCPParams" htop
  have hmem : ∀ pk, ((declLeaves 8 "PANOCOCPParams" []).getD []).contains pk = true → pk ∈ ls := by
    intro pk h; rw [hls] at h; simpa using h
  have h1 := option_sets_exactly_the_field durCfg exDec "PANOCOCPParams" htop ls hls
    ["lbfgs_params", "cbfgs", "ϵ"] .real (hmem _ (by decide)) "solver".toList "0.25".toList (by decide)
    (.r (1 / 4)) (leaf_real_exact env durCfg exDec "0.25".toList (1 / 4) (by decide +kernel))
    [] st st [] rfl
  have hdur : setLeaf env durCfg exDec (.dur 1) [] "1h30min".toList = (some (.d 5400000000000), none) :=
    (duration_field_sum_round exDec exDec_consumes 1 (by decide) _ _ ex_comps_1h30min 5400000000000
      (by decide +kernel)).1
  have h2 := option_sets_exactly_the_field durCfg exDec "PANOCOCPParams" htop ls hls
    ["max_time"] (.dur 1) (hmem _ (by decide)) "solver".toList "1h30min".toList (by decide)
    (.d 5400000000000) hdur _ st _ _ h1.1
  have e : ["solver.lbfgs_params.cbfgs.ϵ=0.25".toList] ++ ["solver.max_time=1h30min".toList] =
      ([] ++ ["solver".toList ++ '.' :: keyOf ["lbfgs_params", "cbfgs", "ϵ"] ++ '=' :: "0.25".toList]) ++
        ["solver".toList ++ '.' :: keyOf ["max_time"] ++ '=' :: "1h30min".toList] := by decide
  refine ⟨_, ?_, h2.2.1, ?_, fun q hq1 hq2 => ?_⟩
  · rw [e]; exact h2.1
  · rw [h2.2.2 _ (by decide)]; exact h1.2.1
  · rw [h2.2.2 q hq1, h1.2.2 q hq2]

end examples

end Alpaqa.Props.C18
