/-
  C18 — Parameter strings set exactly the addressed field, or are rejected.

  Part A (tables): theorems by `decide` over `Alpaqa/Gen/C18.lean`, which is regenerated from
  /repo (structs.ipp, the parameter struct / enum definitions, params.cpp, duration-parse.hpp) on
  every run.  A table line removed, a key duplicated, an alias pointing at another member, a unit
  factor changed … make these stop compiling.

  Part B (machinery): theorems for *all* option strings, tables, stores and parse oracles about
  the hand model `Alpaqa/Model/C18.lean` (tied to the C++ by the correspondence run of
  `checks/c18.py`).  `no_half_write` holds without side conditions: every leaf setter assigns
  only after all its checks have passed (repairs `fixes/C18-half-write-*.diff`).
-/
import Alpaqa.Model.C18
import Alpaqa.Gen.C18
import Mathlib.Algebra.Order.Floor.Ring
import Mathlib.Algebra.Order.Round
import Mathlib.Tactic.Linarith
import Mathlib.Tactic.Ring
import Mathlib.Tactic.NormNum
import Mathlib.Data.Rat.Floor

namespace Alpaqa.Props.C18
open Alpaqa.C18 Alpaqa.Gen.C18
set_option linter.unusedSectionVars false
set_option linter.unusedVariables false

/-! ## Part A — the generated tables -/

/-- Members of a parameter struct that its `PARAMS_TABLE` may omit: none.
    (`StructuredLBFGSDirectionParams::failure_policy` was listed here until
    `fixes/C18-failure_policy-settable.diff`.) -/
def knownMissingFields : List (String × String) := []

/-- Enumerators that an `ENUM_TABLE` may omit: none.  (`PANOCStopCrit::Ipopt` and `::LBFGSBpp`
    were listed here until `fixes/C18-enum-table-PANOCStopCrit.diff`.) -/
def knownMissingEnumerators : List (String × String) := []

def tableOf (s : String) : List (String × String) :=
  ((paramTables.find? (·.1 == s)).map (·.2)).getD []
def enumTableOf (s : String) : List String :=
  ((enumTables.find? (·.1 == s)).map (·.2)).getD []
def fieldsOf (s : String) : List FieldDecl :=
  ((structDecls.find? (·.name == s)).map (·.fields)).getD []
def hasTable (s : String) : Bool := paramTables.any (·.1 == s)
def hasEnumTable (s : String) : Bool := enumTables.any (·.1 == s)

/-- Every member of every parameter struct is the target of an entry of its table
    (except the members listed in `knownMissingFields`). -/
def fieldsCovered : Bool :=
  structDecls.all fun sd => sd.fields.all fun f =>
    (tableOf sd.name).any (fun e => e.2 == f.name) || knownMissingFields.contains (sd.name, f.name)

theorem tables_cover_fields : fieldsCovered = true := by decide

/-- Every struct with a table has a definition, and every definition read has a table. -/
theorem tables_match_definitions :
    (paramTables.map (·.1) = structDecls.map (·.name)) ∧ (enumTables.map (·.1) = enumDecls.map (·.name)) := by
  decide

/-- Every non-deprecated enumerator of every table-driven enum is in its `ENUM_TABLE`
    (except those in `knownMissingEnumerators`); deprecated enumerators are aliases of a listed one. -/
def enumeratorsCovered : Bool :=
  enumDecls.all fun ed => ed.enumerators.all fun e =>
    (enumTableOf ed.name).contains e.1 || knownMissingEnumerators.contains (ed.name, e.1) ||
    (e.2.2 && ed.enumerators.any fun e' => !e'.2.2 && e'.2.1 == e.2.1)

theorem enumerators_covered : enumeratorsCovered = true := by decide

/-- Keys are unique per table (a `std::map` would silently keep the first of two equal keys),
    tables are unique per type. -/
def keysUnique : Bool :=
  paramTables.all (fun t => decide ((t.2.map (·.1)).Nodup)) &&
  enumTables.all (fun t => decide (t.2.Nodup)) &&
  decide ((paramTables.map (·.1)).Nodup) && decide ((enumTables.map (·.1)).Nodup)

theorem keys_unique : keysUnique = true := by decide

/-- Each entry's key is the name of the member it writes, the member exists in the struct
    definition and is of a settable kind, and each listed enumerator exists; no key is empty or
    contains a delimiter (such a key could never be addressed). -/
def entriesWellFormed : Bool :=
  paramTables.all (fun t => t.2.all fun e =>
    e.1 == e.2 && (fieldsOf t.1).any (fun f => f.name == e.2 &&
      match f.kind with | .other _ => false | _ => true) &&
    !e.1.isEmpty && !e.1.toList.contains '.' && !e.1.toList.contains '=') &&
  enumTables.all (fun t => t.2.all fun n =>
    !n.isEmpty &&
    (((enumDecls.find? (·.name == t.1)).map (·.enumerators)).getD []).any (·.1 == n))

theorem entries_well_formed : entriesWellFormed = true := by decide

/-- Aliases resolve: the struct has a table, the alias target is a key of it, the alias is
    neither a key nor another alias, and it is the ASCII transliteration of its target
    (`alpha ↦ α`, `L_gamma_factor ↦ Lγ_factor` …). -/
def aliasesResolve : Bool :=
  aliasTables.all fun t =>
    hasTable t.1 && decide ((t.2.map (·.1)).Nodup) &&
    t.2.all fun a =>
      (tableOf t.1).any (·.1 == a.2) && !(tableOf t.1).any (·.1 == a.1) &&
      translit a.2 == translit a.1

theorem aliases_resolve : aliasesResolve = true := by decide

/-- Every struct type used as a nested member has a table, every enum-typed member has an
    `ENUM_TABLE`; every table is reachable: its type is explicitly instantiated in params.cpp or
    is a nested member of a struct with a table. -/
def nestedHaveTables : Bool :=
  structDecls.all (fun sd => sd.fields.all fun f =>
    match f.kind with
    | .struct n => hasTable n
    | .enum n => hasEnumTable n
    | _ => true) &&
  paramTables.all (fun t => instList.contains t.1 ||
    structDecls.any fun sd => sd.fields.any fun f => f.kind == .struct t.1) &&
  enumTables.all (fun t => instList.contains t.1)

theorem nested_have_tables : nestedHaveTables = true := by decide

/-- The dispatch environment the model runs on is the tables above with the member kinds. -/
theorem env_is_tables :
    env.structs.map (fun t => (t.1, t.2.map fun e => (e.key, e.member))) = paramTables ∧
    env.enums.map (fun t => (t.1, t.2.map (·.1))) = enumTables := by decide

/-- `bool` literals and the duration unit table are the documented ones (SI factors, in ns). -/
theorem bool_strings_documented :
    boolStrings = [("0", false), ("false", false), ("1", true), ("true", true)] := by decide

theorem duration_units_SI :
    durCfg.units = [("s", 1000000000), ("", 1000000000), ("ms", 1000000), ("us", 1000),
                    ("µs", 1000), ("ns", 1), ("min", 60 * 1000000000), ("h", 3600 * 1000000000)] ∧
    durCfg.trim = ['+', ' '] ∧
    durCfg.stop = ['+', '-', '0', '1', '2', '3', '4', '5', '6', '7', '8', '9', '.', ' '] := by decide

/-- Non-vacuity: the covered sets are large (19 struct tables, 140 entries = 140 members,
    3 enum tables with 14 enumerators). -/
example : paramTables.length = 19 ∧ (paramTables.map (·.2.length)).sum = 140 ∧
    (structDecls.map (·.fields.length)).sum = 140 ∧ enumTables.length = 3 ∧
    (enumTables.map (·.2.length)).sum = 14 := by decide

/-! ## Part B — the machinery, for all inputs -/

section machinery
variable {R : Type} [Sub R] [Mul R] [Div R] [LT R] [DecidableLT R] [BEq R] [DurScalar R]
variable (env : Env) (cfg : DurCfg) (pr : Str → NumRes R)

/-! ### Dispatch: `set_param` = leaf setter at the addressed leaf -/

/-- When the key resolves through the tables to a leaf `p` of kind `lk` (remaining key `rem`),
    `set_param` is exactly the leaf setter applied at `p`. -/
theorem setParam_of_addressed (fuel : Nat) (k : Kind) (path : Path) (key value : Str) (st : Store R)
    (p : Path) (lk : Kind) (rem : Str) (h : addressed env fuel k path key = some (p, lk, rem)) :
    setParam env cfg pr fuel k path key value st = applyLeaf st p (setLeaf env cfg pr lk rem value) := by
  induction fuel generalizing k path key with
  | zero => simp [addressed] at h
  | succ n ih =>
    cases k with
    | struct name =>
      simp only [addressed] at h
      simp only [setParam]
      cases hf : env.find name (splitKey key).1 with
      | none => simp [hf] at h
      | some e =>
        simp only [hf] at h ⊢
        exact ih _ _ _ h
    | _ =>
      simp only [addressed, Option.some.injEq, Prod.mk.injEq] at h
      obtain ⟨rfl, rfl, rfl⟩ := h
      simp only [setParam]

/-- When the key does not resolve, nothing is written and an exception is raised. -/
theorem setParam_of_not_addressed (fuel : Nat) (k : Kind) (path : Path) (key value : Str) (st : Store R)
    (h : addressed env fuel k path key = none) :
    (setParam env cfg pr fuel k path key value st).1 = st ∧
    ((setParam env cfg pr fuel k path key value st).2 = some .invalidKey ∨
     (setParam env cfg pr fuel k path key value st).2 = some .fuel) := by
  induction fuel generalizing k path key with
  | zero => simp [setParam]
  | succ n ih =>
    cases k with
    | struct name =>
      simp only [addressed] at h
      simp only [setParam]
      cases hf : env.find name (splitKey key).1 with
      | none => simp
      | some e =>
        simp only [hf] at h ⊢
        exact ih _ _ _ h
    | _ => simp [addressed] at h

theorem applyLeaf_frame (st : Store R) (p q : Path) (w : Option (Leaf R) × Option Err) (hq : q ≠ p) :
    (applyLeaf st p w).1 q = st q := by
  rcases w with ⟨_ | l, e⟩ <;> simp [applyLeaf, Store.set, hq]

/-- **Frame.** `set_param` with key `key` changes at most the leaf the key addresses:
    every other leaf `q` of the store is equal before and after — whether the call returns or
    throws.  (If the key addresses nothing, nothing changes at all.) -/
theorem set_param_frame (fuel : Nat) (k : Kind) (path : Path) (key value : Str) (st : Store R) (q : Path)
    (hq : ∀ p lk rem, addressed env fuel k path key = some (p, lk, rem) → q ≠ p) :
    (setParam env cfg pr fuel k path key value st).1 q = st q := by
  cases h : addressed env fuel k path key with
  | none => rw [(setParam_of_not_addressed env cfg pr fuel k path key value st h).1]
  | some t =>
    obtain ⟨p, lk, rem⟩ := t
    rw [setParam_of_addressed env cfg pr fuel k path key value st p lk rem h]
    exact applyLeaf_frame st p q _ (hq p lk rem h)

/-- The addressed leaf lies below the object the option was applied to. -/
theorem addressed_extends (fuel : Nat) (k : Kind) (path : Path) (key : Str) (p : Path) (lk : Kind) (rem : Str)
    (h : addressed env fuel k path key = some (p, lk, rem)) : path <+: p := by
  induction fuel generalizing k path key with
  | zero => simp [addressed] at h
  | succ n ih =>
    cases k with
    | struct name =>
      simp only [addressed] at h
      cases hf : env.find name (splitKey key).1 with
      | none => simp [hf] at h
      | some e =>
        simp only [hf] at h
        exact (List.prefix_append path [e.member]).trans (ih _ _ _ h)
    | _ =>
      simp only [addressed, Option.some.injEq, Prod.mk.injEq] at h
      obtain ⟨rfl, -, -⟩ := h
      exact List.prefix_refl _

/-- **Success sets the addressed leaf to the parsed value.**  If `set_param` returns normally, the
    key addressed a leaf, the leaf setter produced a value without error, and that value is what
    the store now holds there. -/
theorem set_param_sets (fuel : Nat) (k : Kind) (path : Path) (key value : Str) (st : Store R)
    (hok : (setParam env cfg pr fuel k path key value st).2 = none) :
    ∃ p lk rem l, addressed env fuel k path key = some (p, lk, rem) ∧
      setLeaf env cfg pr lk rem value = (some l, none) ∧
      (setParam env cfg pr fuel k path key value st).1 p = some l := by
  cases h : addressed env fuel k path key with
  | none =>
    rcases (setParam_of_not_addressed env cfg pr fuel k path key value st h).2 with h2 | h2 <;>
      simp [h2] at hok
  | some t =>
    obtain ⟨p, lk, rem⟩ := t
    rw [setParam_of_addressed env cfg pr fuel k path key value st p lk rem h] at hok ⊢
    refine ⟨p, lk, rem, ?_⟩
    rcases hw : setLeaf env cfg pr lk rem value with ⟨_ | l, e⟩
    · -- every leaf setter that does not throw stores a value
      exfalso
      simp only [hw, applyLeaf] at hok
      subst hok
      cases lk <;> simp only [setLeaf] at hw <;> (try split at hw) <;> (try split at hw) <;>
        (try split at hw) <;> simp at hw
    · simp only [hw, applyLeaf] at hok
      subst hok
      exact ⟨l, rfl, rfl, by simp [applyLeaf, Store.set]⟩

/-! ### What the leaf setters store (numbers exactly, booleans, enumerators by name, vectors) -/

theorem leaf_bool (key value : Str) (hk : key = []) :
    setLeaf env cfg pr .bool key value =
      if value = "0".toList ∨ value = "false".toList then (some (.b false), none)
      else if value = "1".toList ∨ value = "true".toList then (some (.b true), none)
      else (none, some .badBool) := by
  subst hk
  simp only [setLeaf, List.isEmpty_nil, Bool.not_true, Bool.false_eq_true, ↓reduceIte, Bool.or_eq_true,
    beq_iff_eq]

/-- A real field receives exactly the value `from_chars` produced, provided the whole value
    string was consumed. -/
theorem leaf_real_exact (value : Str) (v : R) (h : pr value = .ok v []) :
    setLeaf env cfg pr .real [] value = (some (.r v), none) := by
  simp [setLeaf, h]

theorem leaf_int_exact (lo hi : Int) (value : Str) (v : Int) (h : parseInt lo hi value = .ok v []) :
    setLeaf env cfg pr (.int lo hi) [] value = (some (.i v), none) := by
  simp [setLeaf, h]

/-- An enum field receives the value of the enumerator whose *name* equals the value string. -/
theorem leaf_enum_by_name (name : String) (value : Str) (p : String × Int)
    (h : (env.enumTable name).find? (·.1.toList == value) = some p) :
    setLeaf env cfg pr (.enum name) [] value = (some (.e p.2), none) := by
  simp [setLeaf, h]

/-- A duration field receives the sum computed by `parse_duration` starting from zero — and
    only if every component was accepted. -/
theorem leaf_duration (res : Nat) (value : Str) (t : Int)
    (h : parseDuration cfg res pr value.length 0 value = (t, none)) :
    setLeaf env cfg pr (.dur res) [] value = (some (.d t), none) := by
  simp [setLeaf, h]

theorem leaf_duration_err (res : Nat) (value : Str) (t : Int) (e : Err)
    (h : parseDuration cfg res pr value.length 0 value = (t, some e)) :
    setLeaf env cfg pr (.dur res) [] value = (none, some e) := by
  simp [setLeaf, h]

theorem setVecElems_ok (ps : List Str) (done vs : List R)
    (h : List.Forall₂ (fun p v => pr p = .ok v []) ps vs) :
    setVecElems pr ps done = (done ++ vs, none) := by
  induction h generalizing done with
  | nil => simp [setVecElems]
  | cons hp _ ih => simp [setVecElems, hp, ih]

/-- A vec receives, element-wise, the values parsed from the comma-separated pieces. -/
theorem leaf_vec_elementwise (key value : Str) (vs : List R)
    (h : List.Forall₂ (fun p v => pr p = .ok v []) (pieces (value.count ',' + 1) value) vs) :
    setLeaf env cfg pr .vec key value = (some (.v vs), none) := by
  simp [setLeaf, setVecElems_ok pr _ [] vs h]

/-! ### Rejections -/

/-- Unknown key: the first component of the key is not a key of the struct's table. -/
theorem unknown_key_rejected (fuel : Nat) (name : String) (path : Path) (key value : Str) (st : Store R)
    (h : env.find name (splitKey key).1 = none) :
    setParam env cfg pr (fuel + 1) (.struct name) path key value st = (st, some .invalidKey) := by
  simp [setParam, h]

def Kind.isScalar : Kind → Bool
  | .bool | .int _ _ | .real | .enum _ | .dur _ => true
  | _ => false

/-- Indexing into a scalar (`field.sub=value`): rejected, nothing written. -/
theorem index_into_scalar_rejected (fuel : Nat) (k : Kind) (path : Path) (key value : Str) (st : Store R)
    (hk : Kind.isScalar k = true) (hkey : key ≠ []) :
    setParam env cfg pr (fuel + 1) k path key value st = (st, some .indexed) := by
  have : key.isEmpty = false := by cases key <;> simp_all
  cases k <;> simp_all [Kind.isScalar, setParam, setLeaf, applyLeaf]

/-- Unknown enumerator: rejected, nothing written. -/
theorem unknown_enum_rejected (fuel : Nat) (name : String) (path : Path) (value : Str) (st : Store R)
    (h : (env.enumTable name).find? (·.1.toList == value) = none) :
    setParam env cfg pr (fuel + 1) (.enum name) path [] value st = (st, some .badEnum) := by
  simp [setParam, setLeaf, applyLeaf, h]

/-- Trailing characters after a number: rejected with `Invalid suffix`, nothing written
    (`from_chars` stores into a local; the field is assigned after the suffix check). -/
theorem trailing_chars_rejected (fuel : Nat) (path : Path) (value : Str) (st : Store R) (v : R) (c : Char)
    (cs : Str) (h : pr value = .ok v (c :: cs)) :
    setParam env cfg pr (fuel + 1) .real path [] value st = (st, some .numSuffix) := by
  simp [setParam, setLeaf, applyLeaf, h]

theorem trailing_chars_rejected_int (fuel : Nat) (lo hi : Int) (path : Path) (value : Str) (st : Store R)
    (v : Int) (c : Char) (cs : Str) (h : parseInt lo hi value = .ok v (c :: cs)) :
    setParam env cfg pr (fuel + 1) (.int lo hi) path [] value st = (st, some .numSuffix) := by
  simp [setParam, setLeaf, applyLeaf, h]

/-- Out-of-range / unparsable numbers: rejected, nothing written. -/
theorem out_of_range_rejected (fuel : Nat) (path : Path) (value : Str) (st : Store R)
    (h : pr value = .range ∨ pr value = .invalid) :
    (setParam env cfg pr (fuel + 1) .real path [] value st).1 = st ∧
    ((setParam env cfg pr (fuel + 1) .real path [] value st).2 = some .numRange ∨
     (setParam env cfg pr (fuel + 1) .real path [] value st).2 = some .numInvalid) := by
  rcases h with h | h <;> simp [setParam, setLeaf, applyLeaf, h]

theorem out_of_range_rejected_int (fuel : Nat) (lo hi : Int) (path : Path) (value : Str) (st : Store R)
    (h : parseInt lo hi value = .range ∨ parseInt lo hi value = .invalid) :
    (setParam env cfg pr (fuel + 1) (.int lo hi) path [] value st).1 = st ∧
    ((setParam env cfg pr (fuel + 1) (.int lo hi) path [] value st).2 = some .numRange ∨
     (setParam env cfg pr (fuel + 1) (.int lo hi) path [] value st).2 = some .numInvalid) := by
  rcases h with h | h <;> simp [setParam, setLeaf, applyLeaf, h]

/-- Integer `from_chars` really rejects what lies outside the type's range. -/
theorem parseInt_in_range (lo hi : Int) (s : Str) (v : Int) (rest : Str)
    (h : parseInt lo hi s = .ok v rest) : lo ≤ v ∧ v ≤ hi := by
  unfold parseInt at h
  simp only at h
  repeat' split at h
  all_goals first
    | (simp at h; done)
    | (rename_i hr
       simp only [NumRes.ok.injEq] at h
       obtain ⟨h1, -⟩ := h
       simp only [Bool.or_eq_true, decide_eq_true_eq, not_or, not_lt] at hr
       rw [← h1]; exact hr)

/-- Bad units: the number of the first component parses, the unit token is not in the table. -/
theorem bad_units_rejected (res : Nat) (acc : Int) (s : Str) (v : R) (rest : Str)
    (hne : (s.dropWhile fun c => cfg.trim.contains c).isEmpty = false)
    (hv : pr (s.dropWhile fun c => cfg.trim.contains c) = .ok v rest)
    (hu : cfg.unit? (rest.takeWhile fun c => !cfg.stop.contains c) = none) :
    parseSingle cfg res pr acc s = .error .durUnits := by
  unfold parseSingle
  simp only [hne, Bool.false_eq_true, ↓reduceIte, hv, hu]

theorem parseSingle_err (res : Nat) (acc : Int) (s : Str) (e : Err)
    (h : parseSingle cfg res pr acc s = .error e) : e = .durValue ∨ e = .durUnits := by
  unfold parseSingle at h
  simp only at h
  repeat' split at h
  all_goals first
    | (simp at h; done)
    | (simp only [Except.error.injEq] at h; subst h; simp)

theorem parseDuration_err (res fuel : Nat) (acc : Int) (s : Str) (e : Err)
    (h : (parseDuration cfg res pr fuel acc s).2 = some e) :
    e = .durValue ∨ e = .durUnits ∨ e = .fuel := by
  induction fuel generalizing acc s with
  | zero =>
    cases s with
    | nil => simp [parseDuration] at h
    | cons c cs => simp only [parseDuration, Option.some.injEq] at h; exact Or.inr (Or.inr h.symm)
  | succ n ih =>
    cases s with
    | nil => simp [parseDuration] at h
    | cons c cs =>
      simp only [parseDuration] at h
      cases hs : parseSingle cfg res pr acc (c :: cs) with
      | error e' =>
        simp only [hs, Option.some.injEq] at h
        subst h
        rcases parseSingle_err cfg pr res acc _ _ hs with h' | h' <;> simp [h']
      | ok r =>
        obtain ⟨a, rest⟩ := r
        simp only [hs] at h
        exact ih _ _ h

/-- Bad units in the first component of a duration field: rejected with `Invalid units`,
    nothing written. -/
theorem bad_units_rejected_field (fuel res : Nat) (path : Path) (c : Char) (cs : Str) (st : Store R) (v : R)
    (rest : Str)
    (hne : ((c :: cs).dropWhile fun c => cfg.trim.contains c).isEmpty = false)
    (hv : pr ((c :: cs).dropWhile fun c => cfg.trim.contains c) = .ok v rest)
    (hu : cfg.unit? (rest.takeWhile fun c => !cfg.stop.contains c) = none) :
    setParam env cfg pr (fuel + 1) (.dur res) path [] (c :: cs) st = (st, some .durUnits) := by
  have := bad_units_rejected cfg pr res 0 (c :: cs) v rest hne hv hu
  simp only [setParam, setLeaf, applyLeaf, parseDuration, this, List.isEmpty_nil, Bool.not_true,
    Bool.false_eq_true, ↓reduceIte, List.length_cons]

/-- A component whose count (in units of the field's resolution) is NaN, infinite or not strictly
    inside the `int64` range, or whose addition would overflow the running sum, is rejected with
    the same exception as an unparsable number (`invalid_duration_value`) — before any rounding. -/
theorem out_of_range_duration_rejected (res : Nat) (acc : Int) (s : Str) (v : R) (rest : Str) (u : Nat)
    (hne : (s.dropWhile fun c => cfg.trim.contains c).isEmpty = false)
    (hv : pr (s.dropWhile fun c => cfg.trim.contains c) = .ok v rest)
    (hu : cfg.unit? (rest.takeWhile fun c => !cfg.stop.contains c) = some u)
    (hr : durAdd u res v acc = none) :
    parseSingle cfg res pr acc s = .error .durValue := by
  unfold parseSingle
  simp only [hne, Bool.false_eq_true, ↓reduceIte, hv, hu, hr]

/-- `durAdd` refuses exactly when the count is outside the open interval `(−2⁶³, 2⁶³)` (this also
    catches NaN: both comparisons are then false) or the sum would leave the `int64` range; and
    when it accepts, the new sum is the old one plus the rounded component, inside the range. -/
theorem durAdd_spec (u res : Nat) (v : R) (acc : Int) (hacc : repMin ≤ acc ∧ acc ≤ repMax) :
    (durAdd u res v acc = none ↔
      ¬ ((DurScalar.ofInt repMin : R) < durCount u res v ∧
          durCount u res v < (DurScalar.ofInt (repMax + 1) : R)) ∨
      ¬ (repMin ≤ acc + chronoRound u res v ∧ acc + chronoRound u res v ≤ repMax)) ∧
    (∀ a, durAdd u res v acc = some a →
      a = acc + chronoRound u res v ∧ repMin ≤ a ∧ a ≤ repMax) := by
  unfold durAdd
  simp only [Bool.and_eq_true, decide_eq_true_eq]
  by_cases hc : (DurScalar.ofInt repMin : R) < durCount u res v ∧
      durCount u res v < (DurScalar.ofInt (repMax + 1) : R)
  · simp only [hc, and_self, ↓reduceIte, not_true_eq_false, false_or]
    by_cases h0 : 0 ≤ chronoRound u res v
    · simp only [h0, ↓reduceIte, decide_eq_true_eq]
      by_cases h1 : acc ≤ repMax - chronoRound u res v
      · simp only [h1, ↓reduceIte, reduceCtorEq, false_iff, not_not, Option.some.injEq]
        exact ⟨by omega, fun a ha => by omega⟩
      · simp only [h1, ↓reduceIte, true_iff, reduceCtorEq, false_imp_iff, implies_true, and_true]
        omega
    · simp only [h0, ↓reduceIte, decide_eq_true_eq]
      by_cases h1 : repMin - chronoRound u res v ≤ acc
      · simp only [h1, ↓reduceIte, reduceCtorEq, false_iff, not_not, Option.some.injEq]
        exact ⟨by omega, fun a ha => by omega⟩
      · simp only [h1, ↓reduceIte, true_iff, reduceCtorEq, false_imp_iff, implies_true, and_true]
        omega
  · simp [hc]

/-! ### No half-written structure -/

/-- A leaf setter that throws has not written: every setter parses into a local and assigns the
    field as its last statement. -/
theorem setLeaf_no_write (lk : Kind) (rem value : Str) (w : Option (Leaf R)) (e : Err)
    (h : setLeaf env cfg pr lk rem value = (w, some e)) : w = none := by
  cases lk with
  | vec =>
    simp only [setLeaf] at h
    split at h <;> simp_all
  | dur res =>
    simp only [setLeaf] at h
    repeat' split at h
    all_goals simp_all
  | bool =>
    simp only [setLeaf] at h
    repeat' split at h
    all_goals simp_all
  | int lo hi =>
    simp only [setLeaf] at h
    repeat' split at h
    all_goals simp_all
  | real =>
    simp only [setLeaf] at h
    repeat' split at h
    all_goals simp_all
  | enum n =>
    simp only [setLeaf] at h
    repeat' split at h
    all_goals simp_all
  | struct n => simp only [setLeaf, Prod.mk.injEq] at h; exact h.1.symm
  | other n => simp only [setLeaf, Prod.mk.injEq] at h; exact h.1.symm

/-- **No half-write.**  If `set_param` throws — whatever the exception, whatever the kind of the
    addressed object (scalar, duration, vec, nested struct member) — the store equals its
    pre-state.  No side condition. -/
theorem no_half_write (fuel : Nat) (k : Kind) (path : Path) (key value : Str) (st st' : Store R) (e : Err)
    (h : setParam env cfg pr fuel k path key value st = (st', some e)) : st' = st := by
  cases ha : addressed env fuel k path key with
  | none =>
    have := (setParam_of_not_addressed env cfg pr fuel k path key value st ha).1
    rw [h] at this; exact this
  | some t =>
    obtain ⟨p, lk, rem⟩ := t
    rw [setParam_of_addressed env cfg pr fuel k path key value st p lk rem ha] at h
    rcases hw : setLeaf env cfg pr lk rem value with ⟨w, e'⟩
    rw [hw] at h
    cases w with
    | none => simp only [applyLeaf, Prod.mk.injEq] at h; exact h.1.symm
    | some l =>
      simp only [applyLeaf, Prod.mk.injEq] at h
      have := setLeaf_no_write env cfg pr lk rem value (some l) e (by rw [hw, h.2])
      simp at this

/-! ### `set_params`: prefix filter, `used` counters, state at a throw -/

/-- Options with a different prefix are ignored: no write, no exception, no count. -/
theorem other_prefix_ignored (fuel : Nat) (top : Kind) (pfx : Str) (opts : List Str) (st : Store R)
    (h : ∀ kv ∈ opts, optPrefix kv ≠ pfx) :
    setParams env cfg pr fuel top pfx opts st = (st, opts.map (fun _ => 0), none) := by
  induction opts generalizing st with
  | nil => rfl
  | cons kv rest ih =>
    have h1 : optPrefix kv ≠ pfx := h kv (by simp)
    have h2 := ih st (fun kv' hk => h kv' (by simp [hk]))
    simp [setParams, h1, h2]

theorem used_length (fuel : Nat) (top : Kind) (pfx : Str) (opts : List Str) (st : Store R) :
    (setParams env cfg pr fuel top pfx opts st).2.1.length = opts.length := by
  induction opts generalizing st with
  | nil => rfl
  | cons kv rest ih =>
    simp only [setParams]
    split
    · simp [ih]
    · split <;> simp [ih]

/-- **Usage is counted per option.**  When `set_params` returns normally, `used[i]` was
    incremented exactly for the options whose prefix matches (once each). -/
theorem used_counts (fuel : Nat) (top : Kind) (pfx : Str) (opts : List Str) (st : Store R)
    (hok : (setParams env cfg pr fuel top pfx opts st).2.2 = none) :
    (setParams env cfg pr fuel top pfx opts st).2.1 =
      opts.map fun kv => if optPrefix kv = pfx then 1 else 0 := by
  induction opts generalizing st with
  | nil => rfl
  | cons kv rest ih =>
    simp only [setParams] at hok ⊢
    by_cases hp : optPrefix kv = pfx
    · simp only [hp, bne_self_eq_false, Bool.false_eq_true, ↓reduceIte] at hok ⊢
      rcases hs : setParam env cfg pr fuel top [] (optKey kv) (optValue kv) st with ⟨st1, _ | err⟩
      · simp only [hs] at hok ⊢
        simp [ih st1 hok, hp]
      · simp [hs] at hok
    · have hp' : (optPrefix kv != pfx) = true := by simpa using hp
      simp only [hp', ↓reduceIte] at hok ⊢
      simp [ih st hok, hp]

/-- Also when it throws, no option is counted twice and only matching options are counted. -/
theorem used_le (fuel : Nat) (top : Kind) (pfx : Str) (opts : List Str) (st : Store R) :
    List.Forall₂ (fun u kv => u = 0 ∨ (u = 1 ∧ optPrefix kv = pfx))
      (setParams env cfg pr fuel top pfx opts st).2.1 opts := by
  induction opts generalizing st with
  | nil => exact List.Forall₂.nil
  | cons kv rest ih =>
    simp only [setParams]
    by_cases hp : optPrefix kv = pfx
    · simp only [hp, bne_self_eq_false, Bool.false_eq_true, ↓reduceIte]
      rcases hs : setParam env cfg pr fuel top [] (optKey kv) (optValue kv) st with ⟨st1, _ | err⟩
      · exact List.Forall₂.cons (Or.inr ⟨rfl, hp⟩) (ih st1)
      · refine List.Forall₂.cons (Or.inr ⟨rfl, hp⟩) ?_
        clear ih hs
        induction rest with
        | nil => exact List.Forall₂.nil
        | cons a r ihr => exact List.Forall₂.cons (Or.inl rfl) ihr
    · have hp' : (optPrefix kv != pfx) = true := by simpa using hp
      simp only [hp', ↓reduceIte]
      exact List.Forall₂.cons (Or.inl rfl) (ih st)

/-- **State at a throw.**  If `set_params` throws, the object is exactly what the options
    *before* the failing one made it: there is a split `opts = before ++ failing :: after` such
    that applying `before` alone succeeds and yields the very same store.  No side condition. -/
theorem set_params_no_half_write (fuel : Nat) (top : Kind) (pfx : Str) (opts : List Str) (st st' : Store R)
    (u : List Nat) (e : Err)
    (h : setParams env cfg pr fuel top pfx opts st = (st', u, some e)) :
    ∃ before failing after u', opts = before ++ failing :: after ∧
      setParams env cfg pr fuel top pfx before st = (st', u', none) := by
  induction opts generalizing st u with
  | nil => simp [setParams] at h
  | cons kv rest ih =>
    simp only [setParams] at h
    by_cases hp : optPrefix kv = pfx
    · simp only [hp, bne_self_eq_false, Bool.false_eq_true, ↓reduceIte] at h
      rcases hs : setParam env cfg pr fuel top [] (optKey kv) (optValue kv) st with ⟨st1, _ | err⟩
      · simp only [hs, Prod.mk.injEq] at h
        obtain ⟨b, f, a, u', hsplit, hb⟩ :=
          ih st1 (setParams env cfg pr fuel top pfx rest st1).2.1 (by
            rcases hr : setParams env cfg pr fuel top pfx rest st1 with ⟨s2, u2, e2⟩
            simp only [hr] at h ⊢
            rw [h.1, h.2.2])
        refine ⟨kv :: b, f, a, 1 :: u', by simp [hsplit], ?_⟩
        simp [setParams, hp, hs, hb]
      · simp only [hs, Prod.mk.injEq, Option.some.injEq] at h
        obtain ⟨rfl, -, rfl⟩ := h
        have := no_half_write env cfg pr fuel top [] (optKey kv) (optValue kv) st st1 err hs
        exact ⟨[], kv, rest, [], rfl, by simp [setParams, this]⟩
    · have hp' : (optPrefix kv != pfx) = true := by simpa using hp
      simp only [hp', ↓reduceIte, Prod.mk.injEq] at h
      obtain ⟨b, f, a, u', hsplit, hb⟩ :=
        ih st (setParams env cfg pr fuel top pfx rest st).2.1 (by
          rcases hr : setParams env cfg pr fuel top pfx rest st with ⟨s2, u2, e2⟩
          simp only [hr] at h ⊢
          rw [h.1, h.2.2])
      refine ⟨kv :: b, f, a, 0 :: u', by simp [hsplit], ?_⟩
      simp [setParams, hp', hb]

/-- **Frame for `set_params`.**  A leaf that no option with the right prefix addresses is equal
    before and after (return or throw). -/
theorem set_params_frame (fuel : Nat) (top : Kind) (pfx : Str) (opts : List Str) (st : Store R) (q : Path)
    (hq : ∀ kv ∈ opts, optPrefix kv = pfx →
      ∀ p lk rem, addressed env fuel top [] (optKey kv) = some (p, lk, rem) → q ≠ p) :
    (setParams env cfg pr fuel top pfx opts st).1 q = st q := by
  induction opts generalizing st with
  | nil => rfl
  | cons kv rest ih =>
    have hq' : ∀ kv' ∈ rest, optPrefix kv' = pfx →
        ∀ p lk rem, addressed env fuel top [] (optKey kv') = some (p, lk, rem) → q ≠ p :=
      fun kv' hk => hq kv' (by simp [hk])
    simp only [setParams]
    by_cases hp : optPrefix kv = pfx
    · simp only [hp, bne_self_eq_false, Bool.false_eq_true, ↓reduceIte]
      have hf := set_param_frame env cfg pr fuel top [] (optKey kv) (optValue kv) st q
        (hq kv (by simp) hp)
      rcases hs : setParam env cfg pr fuel top [] (optKey kv) (optValue kv) st with ⟨st1, _ | err⟩
      · simp only [hs] at hf ⊢
        rw [ih st1 hq', hf]
      · simp only [hs] at hf ⊢
        exact hf
    · have hp' : (optPrefix kv != pfx) = true := by simpa using hp
      simp only [hp', ↓reduceIte]
      exact ih st hq'

/-! ### Durations: components are summed onto the running value, inside the `int64` range -/

theorem parseSingle_range (res : Nat) (acc : Int) (s : Str) (a : Int) (rest : Str)
    (hacc : repMin ≤ acc ∧ acc ≤ repMax) (h : parseSingle cfg res pr acc s = .ok (a, rest)) :
    repMin ≤ a ∧ a ≤ repMax := by
  unfold parseSingle at h
  simp only at h
  repeat' split at h
  all_goals first
    | (simp at h; done)
    | (simp only [Except.ok.injEq, Prod.mk.injEq] at h
       obtain ⟨rfl, -⟩ := h
       first
        | exact hacc
        | (rename_i hd; exact ((durAdd_spec _ _ _ _ hacc).2 _ hd).2))

/-- **No silent overflow.**  Whatever the value string and the oracle, the count that
    `parse_duration` leaves in `t` (return or throw) is a valid `int64`: a component that does not
    fit is rejected (`out_of_range_duration_rejected`), never wrapped. -/
theorem parseDuration_range (res fuel : Nat) (acc : Int) (s : Str)
    (hacc : repMin ≤ acc ∧ acc ≤ repMax) :
    repMin ≤ (parseDuration cfg res pr fuel acc s).1 ∧ (parseDuration cfg res pr fuel acc s).1 ≤ repMax := by
  induction fuel generalizing acc s with
  | zero => cases s <;> simpa [parseDuration] using hacc
  | succ n ih =>
    cases s with
    | nil => simpa [parseDuration] using hacc
    | cons c cs =>
      simp only [parseDuration]
      cases hs : parseSingle cfg res pr acc (c :: cs) with
      | error e => simpa using hacc
      | ok r =>
        obtain ⟨a, rest⟩ := r
        exact ih a rest (parseSingle_range cfg pr res acc _ a rest hacc hs)

/-- One component: value `v` with unit `u` adds `round(v·u/res)` and continues after the unit. -/
theorem parseDuration_component (res fuel : Nat) (acc : Int) (c : Char) (cs : Str) (v : R) (rest : Str) (u : Nat)
    (hne : ((c :: cs).dropWhile fun c => cfg.trim.contains c).isEmpty = false)
    (hv : pr ((c :: cs).dropWhile fun c => cfg.trim.contains c) = .ok v rest)
    (hu : cfg.unit? (rest.takeWhile fun c => !cfg.stop.contains c) = some u)
    (hacc : repMin ≤ acc ∧ acc ≤ repMax) (a : Int) (ha : durAdd u res v acc = some a) :
    a = acc + chronoRound u res v ∧
    parseDuration cfg res pr (fuel + 1) acc (c :: cs) =
      parseDuration cfg res pr fuel a (rest.dropWhile fun c => !cfg.stop.contains c) := by
  refine ⟨((durAdd_spec u res v acc hacc).2 a ha).1, ?_⟩
  simp only [parseDuration, parseSingle, hne, hv, hu, ha, Bool.false_eq_true, ↓reduceIte]

end machinery

/-! ### `chrono::round` rounds to the nearest count, ties to even (exact arithmetic) -/

/-- Exact-arithmetic instance used for the rounding theorem (`static_cast<int64>` = truncation). -/
instance : DurScalar ℚ where
  ofInt i := (i : ℚ)
  trunc x := if 0 ≤ x then ⌊x⌋ else ⌈x⌉

theorem floor_fixup (x : ℚ) :
    (if x < ((DurScalar.trunc x : Int) : ℚ) then DurScalar.trunc x - 1 else DurScalar.trunc x) = ⌊x⌋ := by
  simp only [DurScalar.trunc]
  by_cases h0 : 0 ≤ x
  · simp only [h0, ↓reduceIte]
    have := Int.floor_le x
    simp [not_lt.mpr this]
  · simp only [h0, ↓reduceIte]
    by_cases hx : x < (⌈x⌉ : ℚ)
    · simp only [hx, ↓reduceIte]
      have h1 : ⌊x⌋ + 1 = ⌈x⌉ := by
        have hc := Int.ceil_le_floor_add_one x
        have hf : (⌊x⌋ : ℚ) ≤ x := Int.floor_le x
        have : ⌊x⌋ < ⌈x⌉ := by
          have : (⌊x⌋ : ℚ) < ⌈x⌉ := lt_of_le_of_lt hf hx
          exact_mod_cast this
        omega
      omega
    · simp only [hx, ↓reduceIte]
      have hle : (⌈x⌉ : ℚ) ≤ x := not_lt.mp hx
      have hge : x ≤ (⌈x⌉ : ℚ) := Int.le_ceil x
      have hxe : x = (⌈x⌉ : ℚ) := le_antisymm hge hle
      rw [hxe]; simp

/-- Core of `chrono::round` once `t0 = ⌊x⌋`: nearest integer, ties to even. -/
theorem round_core (x : ℚ) (t : Int)
    (ht : t = if x - (⌊x⌋ : ℚ) = ((⌊x⌋ + 1 : Int) : ℚ) - x then (if ⌊x⌋ % 2 = 0 then ⌊x⌋ else ⌊x⌋ + 1)
              else if x - (⌊x⌋ : ℚ) < ((⌊x⌋ + 1 : Int) : ℚ) - x then ⌊x⌋ else ⌊x⌋ + 1) :
    |x - (t : ℚ)| ≤ 1 / 2 ∧ (|x - (t : ℚ)| = 1 / 2 → t % 2 = 0) := by
  have hf : (⌊x⌋ : ℚ) ≤ x := Int.floor_le x
  have hl : x < (⌊x⌋ : ℚ) + 1 := Int.lt_floor_add_one x
  push_cast at ht
  split_ifs at ht with h1 h2 h3
  · subst ht
    have hx : x - ⌊x⌋ = 1 / 2 := by linarith
    refine ⟨by rw [abs_of_nonneg (by linarith)]; linarith, fun _ => h2⟩
  · subst ht
    have hx : x - ⌊x⌋ = 1 / 2 := by linarith
    have : x - ((⌊x⌋ + 1 : Int) : ℚ) = -(1 / 2) := by push_cast; linarith
    refine ⟨by rw [this, abs_neg, abs_of_pos (by norm_num)], fun _ => by omega⟩
  · subst ht
    have hx : x - ⌊x⌋ < 1 / 2 := by linarith
    refine ⟨by rw [abs_of_nonneg (by linarith)]; linarith, fun h => ?_⟩
    rw [abs_of_nonneg (by linarith)] at h; linarith
  · subst ht
    have hx : 1 / 2 < x - ⌊x⌋ := by
      rcases lt_trichotomy (x - ⌊x⌋) (⌊x⌋ + 1 - x) with h | h | h
      · exact absurd h h3
      · exact absurd h h1
      · linarith
    have hneg : x - ((⌊x⌋ + 1 : Int) : ℚ) < 0 := by push_cast; linarith
    refine ⟨by rw [abs_of_neg hneg]; push_cast; linarith, fun h => ?_⟩
    rw [abs_of_neg hneg] at h; push_cast at h; linarith

/-- **Rounded to the field's resolution.**  For a unit at least as coarse as the resolution
    (`res ∣ unit`, e.g. any unit into a `nanoseconds` field — the type of every `max_time`),
    `chronoRound` returns the integer nearest to `v·unit/res`, ties to even.  Exact arithmetic;
    the binary64 run is tied by the correspondence.  Values whose count does not fit `int64` never
    reach the rounding (`durAdd_spec`, `out_of_range_duration_rejected`). -/
theorem chrono_round_nearest_even (unitNs resNs : Nat) (v : ℚ) (hr : 0 < resNs) (hu : 0 < unitNs)
    (hd : resNs ∣ unitNs) :
    |v * unitNs / resNs - (chronoRound unitNs resNs v : ℚ)| ≤ 1 / 2 ∧
    (|v * unitNs / resNs - (chronoRound unitNs resNs v : ℚ)| = 1 / 2 → chronoRound unitNs resNs v % 2 = 0) := by
  obtain ⟨m, rfl⟩ := hd
  have hm : 0 < m := Nat.pos_of_ne_zero (fun h => by simp [h] at hu)
  have hle : resNs ≤ resNs * m := Nat.le_mul_of_pos_right _ hm
  have hx : v * ((resNs * m : Nat) : ℚ) / resNs = v * (m : ℚ) := by
    have : (resNs : ℚ) ≠ 0 := by exact_mod_cast hr.ne'
    push_cast; field_simp
  rw [hx]
  have hdiv : resNs * m / resNs = m := Nat.mul_div_cancel_left m hr
  have key : chronoRound (resNs * m) resNs v =
      if v * (m : ℚ) - (⌊v * (m : ℚ)⌋ : ℚ) = ((⌊v * (m : ℚ)⌋ + 1 : Int) : ℚ) - v * (m : ℚ) then
        (if ⌊v * (m : ℚ)⌋ % 2 = 0 then ⌊v * (m : ℚ)⌋ else ⌊v * (m : ℚ)⌋ + 1)
      else if v * (m : ℚ) - (⌊v * (m : ℚ)⌋ : ℚ) < ((⌊v * (m : ℚ)⌋ + 1 : Int) : ℚ) - v * (m : ℚ) then
        ⌊v * (m : ℚ)⌋ else ⌊v * (m : ℚ)⌋ + 1 := by
    unfold chronoRound
    simp only [hle, ↓reduceIte, hdiv]
    have hof : (DurScalar.ofInt ((m : Nat) : Int) : ℚ) = (m : ℚ) := by simp [DurScalar.ofInt]
    rw [hof]
    have := floor_fixup (v * (m : ℚ))
    simp only [DurScalar.ofInt] at this ⊢
    rw [this]
    simp only [beq_iff_eq]
  exact round_core (v * (m : ℚ)) _ key

/-- Every duration-typed member of every registered parameter struct has nanosecond resolution,
    and every unit of the generated unit table is a positive whole number of nanoseconds. -/
theorem all_duration_fields_ns :
    (structDecls.all fun sd => sd.fields.all fun f =>
      match f.kind with | .dur r => r == 1 | _ => true) = true ∧
    (∀ u ∈ durCfg.units, 0 < u.2) := by decide

/-- Hence, for every registered duration field and every unit the code accepts, a component
    `v<unit>` contributes the integer nearest to `v·unit` ns, ties to even.
    (`…_partial` in one respect only: resolutions *coarser* than the unit — `"500ms"` into a
    `std::chrono::seconds` object, reachable through `set_params<std::chrono::seconds>` but not
    through any registered struct — go through the division branch of `chronoRound`; for that
    branch the statement `|v·unit/res − t| ≤ ½, ties to even` is exercised by the correspondence
    and the monitor (leaf tops `us … h`) but not proved here.) -/
theorem registered_duration_rounding_partial (u : String × Nat) (hu : u ∈ durCfg.units) (v : ℚ) :
    |v * u.2 / (1 : Nat) - (chronoRound u.2 1 v : ℚ)| ≤ 1 / 2 ∧
    (|v * u.2 / (1 : Nat) - (chronoRound u.2 1 v : ℚ)| = 1 / 2 → chronoRound u.2 1 v % 2 = 0) :=
  chrono_round_nearest_even u.2 1 v Nat.one_pos (all_duration_fields_ns.2 u hu) (Nat.one_dvd _)

/-! ## Examples: the hypotheses are satisfiable on concrete, non-trivial instances -/

section examples

/-- A small exact-arithmetic oracle for the examples: decimal integers only. -/
def exOracle (s : Str) : NumRes ℚ :=
  match parseInt (-1000000) 1000000 s with
  | .ok v rest => .ok (v : ℚ) rest
  | .invalid => .invalid
  | .range => .range

/-- `p.Lipschitz.δ`-style nested addressing resolves through the generated tables. -/
example : addressed env 8 (.struct "PANOCParams") [] "Lipschitz.δ".toList =
    some (["Lipschitz", "δ"], .real, []) := by decide

example : addressed env 8 (.struct "PANOCOCPParams") [] "lbfgs_params.cbfgs.α".toList =
    some (["lbfgs_params", "cbfgs", "α"], .real, []) := by decide

/-- unknown key / alias / index into scalar on the generated tables -/
example : addressed env 8 (.struct "PANOCParams") [] "Lipschitz.delta".toList = none := by decide
example : addressed env 8 (.struct "PANOCParams") [] "max_iter.x".toList =
    some (["max_iter"], .int 0 4294967295, ['x']) := by decide

/-- enumerator by name over the generated enum tables (incl. the nested `FailurePolicy`) -/
example : (env.enumTable "PANOCStopCrit").find? (·.1.toList == "FPRNorm2".toList) = some ("FPRNorm2", 7) := by
  decide
example : (env.enumTable "PANOCStopCrit").find? (·.1.toList == "Ipopt".toList) = some ("Ipopt", 8) := by
  decide
example : addressed env 8 (.struct "StructuredLBFGSDirectionParams") [] "failure_policy".toList =
    some (["failure_policy"], .enum "StructuredLBFGSDirectionParams::FailurePolicy", []) := by decide

/-- integer `from_chars`: value, suffix, range -/
example : parseInt 0 4294967295 "12abc".toList = .ok 12 "abc".toList := by decide
example : parseInt 0 4294967295 "99999999999999999999".toList = .range := by decide
example : parseInt 0 4294967295 "-1".toList = .invalid := by decide
example : parseInt (-128) 127 "-128".toList = .ok (-128) [] := by decide

/-- `used` counts and prefix filter on a concrete option list (model over the generated tables) -/
example :
    (setParams env durCfg exOracle 8 (.struct "PANOCParams") "p".toList
      ["q.max_iter=1".toList, "p.max_iter=7".toList, "pp.max_iter=3".toList, "p.print_interval=2".toList]
      (fun _ => none)).2 = ([0, 1, 0, 1], none) := by decide

/-- rounding: 1.5 s → 2 s, 0.5 s → 0 s, 2.5 s → 2 s (ties to even), −1.5 s → −2 s in a `seconds` field;
    the duration table really sums components -/
example : chronoRound 1000000 1000000000 (1500 : ℚ) = 2 ∧ chronoRound 1000000 1000000000 (500 : ℚ) = 0 ∧
    chronoRound 1000000 1000000000 (2500 : ℚ) = 2 ∧ chronoRound 1000000 1000000000 (-1500 : ℚ) = -2 := by
  refine ⟨?_, ?_, ?_, ?_⟩ <;> (simp only [chronoRound, DurScalar.ofInt, DurScalar.trunc]; norm_num)

/-- the range guard of `parse_single_duration` over exact arithmetic: an ordinary component is
    added; `1e30h` into a ns field and a sum leaving the `int64` range are refused -/
example : durAdd 1000000000 1 (5 : ℚ) 0 = some 5000000000 := by
  simp only [durAdd, durCount, chronoRound, DurScalar.ofInt, DurScalar.trunc, repMin, repMax]; norm_num
example : durAdd 3600000000000 1 ((10 : ℚ) ^ 30) 0 = none := by
  simp only [durAdd, durCount, chronoRound, DurScalar.ofInt, DurScalar.trunc, repMin, repMax]; norm_num
example : durAdd 1 1 (9000000000000000000 : ℚ) 9000000000000000000 = none := by
  simp only [durAdd, durCount, chronoRound, DurScalar.ofInt, DurScalar.trunc, repMin, repMax]; norm_num

end examples

end Alpaqa.Props.C18
