/-
  C01 — the composed end-to-end theorem: ALM `Converged` certifies an approximate KKT point.

  * `InnerContract`: what `Props/C03*` (exit contract) + `Props/C06*` (Converged ⇔ ε ≤ tolerance,
    ε is the generated criterion of the final iterate) + `Props/C04` (oracle closed forms) + `Props/C15`
    (prox = box projection step) give for an inner solver run with the ApproxKKT criterion, stated
    for an arbitrary function `InnerCall → InnerResult` against the user's closed forms `ProblemCF`
    (`g`, `∇L = ∇f + ∇g·y`, boxes `C`, `D`).
  * `alm_converged_certifies_kkt` (`m ≠ 0`) / `alm_m0_converged_certifies_kkt`: for the ALM model
    `Alpaqa.C07.run` (`Props/C07`), any parameters, any clock, any ALM stop oracle, any optional initial penalties, any
    inner solver satisfying the contract: `status = Converged ⇒ KKTCert` for the returned `(x, y)`.
  * `panoc_satisfies_inner_contract`: the PANOC loop model `Alpaqa.Panoc.run`, wrapped as an
    inner-solver function, satisfies the contract (ApproxKKT criterion; lazy and eager gradient
    evaluation) — with the sizes of `x`, `y`, `err_z` proved from the model (`Proofs/PanocSized`) and
    the fuel hypothesis discharged (`Proofs/PanocFuel`); closed examples at the end of the file.
    It is the corollary of `panoc_satisfies_inner_contract_on` (consistency of `eval_ψ_grad_ψ` asked
    on well-sized arguments only, and only of a run with `eager_gradient_eval`: `OracleContractOn`),
    itself the corollary of `panoc_satisfies_inner_contract_grad` (only the gradient half of that
    consistency, nothing about the workspace `work_m`: `OracleContractGrad`); invariants in
    `Proofs/PanocInvOn`, `Proofs/C01PanocOn`.
  The contract speaks about *well-formed* calls only (`WFCall n m`: `x` of size `n`; `y`, `Σ`, the
  `err_z` buffer of size `m`) — ALM only ever makes such calls, which is proved along the loop.
  Real-number semantics (ordered field, no NaN); IEEE rounding is not modelled.
-/
import Alpaqa.Props.C01
import Alpaqa.Props.C04
import Alpaqa.Props.C07
import Alpaqa.Proofs.C01Panoc
import Alpaqa.Proofs.C01PanocOn

namespace Alpaqa.Props.C01Alm
open Alpaqa Alpaqa.Gen Alpaqa.C07 Alpaqa.C04 Alpaqa.Props.C01 Alpaqa.Props.C07
set_option linter.unusedSectionVars false

variable {α A S : Type} [Field α] [LinearOrder α] [IsStrictOrderedRing α] [RealLike α]
  [Alpaqa.Proofs.C07.NoNaN α]

/-- The user's problem as closed forms: the box `C` on `x`, the box `D` on `g(x)` (`none` = infinite
    side), `g`, and `∇L(x, y) = ∇f(x) + ∇g(x)·y` (built from `∇f`, `∇g·y` only — `Props/C04`
    `grad_L_closed`). -/
structure ProblemCF (α : Type) where
  C : List (Option α × Option α)
  D : BoxD α
  g : Vec α → Vec α
  gradL : Vec α → Vec α → Vec α

/-- `ŷ(x; y, Σ)_i = Σ_i (ζ_i − Π_D ζ_i)`, `ζ_i = g_i(x) + y_i/Σ_i` (closed form of `calc_ŷ_dᵀŷ`,
    `Props/C04.yhat_closed_kernel`). -/
def yhatCF (pb : ProblemCF α) (x y Sig : Vec α) : Vec α :=
  (List.range y.length).map fun i =>
    yhat1 (vget Sig i) (lbAt pb.D i) (ubAt pb.D i) (vget (pb.g x) i) (vget y i)

/-- A well-formed inner call for a problem with `n` variables and `m` general constraints: what the
    C++ preconditions of `InnerSolver::operator()` demand (`x` of size `n`; `y`, `Σ`, `err_z` of size
    `m`).  ALM only makes such calls (proved along the loop in `alm_converged_certifies_kkt`). -/
structure WFCall (n m : Nat) (c : InnerCall α) : Prop where
  x : c.x.length = n
  y : c.y.length = m
  sigma : c.sigma.length = m
  errBuf : c.errBuf.length = m

/-- **What C03 + C06 (+ C04 for the oracles) give for every modelled inner solver run with the
    ApproxKKT criterion on a box-constrained problem**: whenever it reports `Converged`,
    * the returned `x` is the forward-backward point `x̂ = x + p`, `p` the projected-gradient step
      of some iterate `(γ > 0, x, ∇ψ(x))` (C03 exit contract + C15 prox = projection step);
    * the reported `ε` is the generated ApproxKKT criterion of that iterate with
      `∇ψ(x̂) = ∇L(x̂, ŷ)` evaluated at the returned pair (C06 `eps_from_final_iterate`);
    * the returned `y` is `ŷ(x̂)` for the multipliers / penalties it was called with, and
      `err_z = (ŷ − y)/Σ` (C03 exit contract);
    * `ε ≤` the tolerance it was given when that is positive (C06 `converged_iff`; for a
      non-positive tolerance the solvers use `1e-8`); `err_z` is only written when it is non-empty;
    * `x`, `y`, `err_z` are written in place (`rvec`): their sizes cannot change;
    all of it for well-formed calls (`WFCall n m`). -/
structure InnerContract (pb : ProblemCF α) (n m : Nat) (inner : InnerCall α → InnerResult α S) :
    Prop where
  conv : ∀ c, WFCall n m c → (inner c).status = .Converged →
    ∃ (γ : α) (x gψ : Vec α), 0 < γ ∧
      (inner c).x = vadd x (projStepVO γ x gψ pb.C) ∧
      (inner c).eps = stopCrit_ApproxKKT (fun _ v _ => (v, v)) (projStepVO γ x gψ pb.C) γ x (inner c).x
        (inner c).y gψ (pb.gradL (inner c).x (inner c).y) ∧
      (inner c).y = yhatCF pb (inner c).x c.y c.sigma ∧
      (0 < c.errBuf.length → (inner c).errz = vdiv (vsub (inner c).y c.y) c.sigma)
  conv_tol : ∀ c, WFCall n m c → 0 < c.opts.tolerance → (inner c).status = .Converged →
    (inner c).eps ≤ c.opts.tolerance
  xSize : ∀ c, WFCall n m c → (inner c).x.length = n
  ySize : ∀ c, WFCall n m c → (inner c).y.length = m
  eSize : ∀ c, WFCall n m c → (inner c).errz.length = m

/-- `x ∈ C`, lists consumed in lock-step. -/
def InBoxV : List α → List (Option α × Option α) → Prop
  | x :: xs, b :: bs => InBox b.1 b.2 x ∧ InBoxV xs bs
  | _, _ => True

theorem vadd_projStepVO_feasible (γ : α) :
    ∀ (x g : List α) (C : List (Option α × Option α)),
      (∀ b ∈ C, ∀ l u, b.1 = some l → b.2 = some u → l ≤ u) →
      InBoxV (vadd x (projStepVO γ x g C)) C
  | x :: xs, g :: gs, b :: bs, hC => by
    simp only [projStepVO, vadd, vzip, List.zipWith_cons_cons, InBoxV]
    exact ⟨projStepO_feasible γ x g b.1 b.2 (hC b (List.mem_cons_self ..)),
      vadd_projStepVO_feasible γ xs gs bs (fun b' hb' => hC b' (List.mem_cons_of_mem _ hb'))⟩
  | [], _, _, _ => by simp [vadd, vzip, InBoxV]
  | _ :: _, [], _, _ => by simp [projStepVO, vadd, vzip, InBoxV]
  | _ :: _, _ :: _, [], _ => by simp [projStepVO, vadd, vzip, InBoxV]

/-- The certificate of the property for a pair `(x, y)`. -/
structure KKTCert (pb : ProblemCF α) (m : Nat) (tol δ : α) (x y : Vec α) : Prop where
  /-- `x = x₀ + p` is a forward-backward point and every coordinate of `−∇L(x, y)` is within
      `tol` of the normal cone of `C` at `x`: `dist∞(−(∇f(x) + ∇g(x)y), N_C(x)) ≤ tol`. -/
  stationarity : ∃ (γ : α) (x₀ g₀ : Vec α), 0 < γ ∧ x = vadd x₀ (projStepVO γ x₀ g₀ pb.C) ∧
    Certified γ tol x₀ g₀ (pb.gradL x y) pb.C
  /-- `x ∈ C` -/
  feasC : InBoxV x pb.C
  /-- `dist∞(g(x), D) ≤ δ` -/
  feasD : ∀ i, i < m → ∃ w, InBnd (lbAt pb.D i) (ubAt pb.D i) w ∧ |vget (pb.g x) i - w| ≤ δ
  /-- `y_i > 0` only where `g_i(x)` is within `δ` of its (finite) upper bound -/
  signPos : ∀ i, i < m → 0 < vget y i → ∃ b, ubAt pb.D i = some b ∧ |vget (pb.g x) i - b| ≤ δ
  /-- `y_i < 0` only where `g_i(x)` is within `δ` of its (finite) lower bound -/
  signNeg : ∀ i, i < m → vget y i < 0 → ∃ a, lbAt pb.D i = some a ∧ |vget (pb.g x) i - a| ≤ δ
  /-- free rows carry no multiplier -/
  free : ∀ i, i < m → lbAt pb.D i = none → ubAt pb.D i = none → vget y i = 0

/-- The inner-solver facts at a converged call yield the certificate (the purely local step). -/
theorem cert_of_converged_call (pb : ProblemCF α) (n m : Nat)
    (inner : InnerCall α → InnerResult α S)
    (hI : InnerContract pb n m inner) (tol δ : α) (c : InnerCall α)
    (hC : ∀ b ∈ pb.C, ∀ l u, b.1 = some l → b.2 = some u → l ≤ u)
    (hD : ∀ i, i < m → BndOK (lbAt pb.D i) (ubAt pb.D i))
    (hwf : WFCall n m c)
    (hpos : ∀ σ ∈ c.sigma, 0 < σ)
    (hconv : (inner c).status = .Converged) (heps : (inner c).eps ≤ tol)
    (herr : normInf (inner c).errz ≤ δ) :
    KKTCert pb m tol δ (inner c).x (inner c).y := by
  have hy := hwf.y
  have hs := hwf.sigma
  have he := hwf.errBuf
  obtain ⟨γ, x₀, g₀, hγ, hx, hee, hyh, hez⟩ := hI.conv c hwf hconv
  have hσ : ∀ i, i < m → 0 < vget c.sigma i := fun i hi =>
    hpos _ (Alpaqa.Proofs.C07.vget_mem c.sigma i (by omega))
  -- components of y and err_z
  have hyi : ∀ i, i < m → vget (inner c).y i =
      yhat1 (vget c.sigma i) (lbAt pb.D i) (ubAt pb.D i) (vget (pb.g (inner c).x) i) (vget c.y i) := by
    intro i hi
    conv_lhs => rw [hyh]
    unfold yhatCF
    rw [Alpaqa.C04.vget_map_range _ _ _ (by omega)]
  have hylen : (inner c).y.length = m := hI.ySize c hwf
  have hei : ∀ i, i < m → vget (inner c).errz i = (vget (inner c).y i - vget c.y i) / vget c.sigma i := by
    intro i hi
    rw [hez (by omega)]
    unfold vdiv vsub vzip
    rw [Alpaqa.C04.vget_zipWith _ _ _ _ (by simp; omega) (by omega),
      Alpaqa.C04.vget_zipWith _ _ _ _ (by omega) (by omega)]
  have hδ0 : 0 ≤ δ := le_trans (normInf_nonneg _) herr
  have hebound : ∀ i, i < m → |(vget (inner c).y i - vget c.y i) / vget c.sigma i| ≤ δ := by
    intro i hi
    rw [← hei i hi]
    have hlen : (inner c).errz.length = m := hI.eSize c hwf
    exact (normInf_le_iff _ _ hδ0).mp herr _ (Alpaqa.Proofs.C07.vget_mem _ i (by omega))
  refine ⟨⟨γ, x₀, g₀, hγ, hx, ?_⟩, ?_, ?_, ?_, ?_, ?_⟩
  · rw [hee] at heps
    exact approxKKT_certifies _ γ tol x₀ (inner c).x (inner c).y g₀ _ pb.C hγ hC heps
  · rw [hx]; exact vadd_projStepVO_feasible γ x₀ g₀ pb.C hC
  · intro i hi
    have := hebound i hi
    rw [hyi i hi] at this
    exact Alpaqa.Props.C04.errz_bounds_dist _ _ _ _ _ δ (hσ i hi).ne' (hD i hi) this
  · intro i hi hp
    rw [hyi i hi] at hp
    obtain ⟨b, hb, _, hq⟩ := Alpaqa.Props.C04.yhat_pos_ub_active _ _ _ _ _ (hσ i hi) hp
    have := hebound i hi
    rw [hyi i hi, hq] at this
    exact ⟨b, hb, this⟩
  · intro i hi hn
    rw [hyi i hi] at hn
    obtain ⟨a, ha, _, hq⟩ := Alpaqa.Props.C04.yhat_neg_lb_active _ _ _ _ _ (hσ i hi) (hD i hi) hn
    have := hebound i hi
    rw [hyi i hi, hq] at this
    exact ⟨a, ha, this⟩
  · intro i hi hl hu
    rw [hyi i hi, hl, hu]; exact Alpaqa.Props.C04.yhat_free_zero _ _ _

/-! ### Composition with the ALM outer loop (`Props/C07`) -/

variable (nan inf : α) (acc0 : A) (accAdd : A → S → A) (P : ALMParams α) (prob : Problem α)
  (x y : Vec α) (Sig0 : Option (Vec α)) (inner : InnerCall α → InnerResult α S)

local notation "RUN" => run nan inf acc0 accAdd P prob x y Sig0 inner
local notation "LOOP" => loop P prob accAdd (Option.isSome Sig0) (Option.getD Sig0 []) inner
local notation "STEP" => mkStep P prob accAdd (Option.isSome Sig0) (Option.getD Sig0 []) inner
local notation "INIT" => almInit P nan inf acc0 prob.m (Option.isSome Sig0) (Option.getD Sig0 []) prob.f0 prob.g0

theorem projMult_length (y : Vec α) (M : α) : (projMult prob y M).length = y.length := by
  unfold projMult C15.projMultipliers; simp

/-- `lenInv_step` of `Proofs/C07Run` with the size fact of the one inner call that is made. -/
theorem lenInv_step_local (i : Nat) (st st' : LoopState α A) (x y : Vec α)
    (h : LenInv prob.m st) (hl : (STEP i st x y).res.errz.length = st.Sig_curr.length)
    (hc : (STEP i st x y).out = .cont st') : LenInv prob.m st' := by
  rw [(Alpaqa.Proofs.C07.step_cont P prob accAdd _ _ inner hc).2.2.2.2]
  exact ⟨by simp only []; rw [Alpaqa.Proofs.C07.upw_length _ _ _ _ _ _ _ _ hl, h.1], h.2.2,
    by rw [hl, h.1]⟩

/-- Every call ALM's loop makes is well-formed when it is entered with `x` of size `n` and `y` of
    size `m`, and the inner solver keeps sizes on well-formed calls. -/
theorem step_call_wf (n : Nat) (i : Nat) (st : LoopState α A) (x y : Vec α)
    (h : LenInv prob.m st) (hx : x.length = n) (hy : y.length = prob.m) :
    WFCall n prob.m (STEP i st x y).call := by
  rw [Alpaqa.Proofs.C07.mkStep_call]
  exact ⟨hx, by simp only []; rw [projMult_length]; exact hy, h.1, h.2.1⟩

/-- **C01, composed.**  Whenever the ALM solver (`m ≠ 0` general constraints, *any* ALM parameters
    with `0 < min_penalty ≤ max_penalty`, any optional initial penalties of the right size, any
    clock, any inner solver satisfying `InnerContract` on well-formed calls — i.e. any of the
    modelled inner solvers with the ApproxKKT criterion) returns `Converged`, the returned pair
    `(x, y)` carries the KKT certificate with `tolerance` and `dual_tolerance`:
    `dist∞(−(∇f(x) + ∇g(x)y), N_C(x)) ≤ tolerance`, `x ∈ C`, `dist∞(g(x), D) ≤ dual_tolerance`,
    `y_i > 0` (`< 0`) only where `g_i(x)` is within `dual_tolerance` of its finite upper (lower)
    bound, free rows have `y_i = 0` — stated with `f, ∇f, g, ∇g·y`, `C`, `D` only (`ProblemCF`). -/
theorem alm_converged_certifies_kkt (pb : ProblemCF α) (n : Nat)
    (hI : InnerContract pb n prob.m inner)
    (hm : prob.m ≠ 0)
    (hC : ∀ b ∈ pb.C, ∀ l u, b.1 = some l → b.2 = some u → l ≤ u)
    (hD : ∀ i, i < prob.m → BndOK (lbAt pb.D i) (ubAt pb.D i))
    (hmin : 0 < P.min_penalty) (hmm : P.min_penalty ≤ P.max_penalty)
    (hlen : SigmaLen prob.m Sig0) (hx : x.length = n) (hy : y.length = prob.m)
    (hconv : (RUN).stats.status = .Converged) :
    KKTCert pb prob.m P.tolerance P.dual_tolerance (RUN).x (RUN).y := by
  rcases run_cases nan inf acc0 accAdd P prob x y Sig0 inner with ⟨_, hr⟩ | ⟨_, hm0, _⟩ | ⟨h0, _, hr⟩
  · rw [hr] at hconv; simp [almMaxIter0] at hconv
  · exact absurd hm0 hm
  · rw [hr] at hconv ⊢
    obtain ⟨init, s, stats, Sg, _, _, _, hsteps, _, hout, hst, _, _, hxo, hy', _⟩ :=
      loop_path_last nan inf acc0 accAdd P prob x y Sig0 inner h0
    have hsmem : s ∈ (LOOP P.max_iter 0 INIT x y).steps := by rw [hsteps]; simp
    -- invariant at every pass: buffer sizes, positive penalties, `x` of size `n`, `y` of size `m`
    obtain ⟨x', y', ⟨hSig, hxl, hyl⟩, hs⟩ := Alpaqa.Proofs.C07.loop_steps_forall P prob accAdd _ _ inner
      (fun _ st xx yy => SigInv Alpaqa.Proofs.C07.AllPos prob.m st ∧ xx.length = n ∧ yy.length = prob.m)
      (fun i st xx yy st' hI' hc => by
        have hwf := step_call_wf accAdd P prob Sig0 inner n i st xx yy hI'.1.1 hI'.2.1 hI'.2.2
        have hres : (STEP i st xx yy).res = inner (STEP i st xx yy).call := rfl
        have hl : (STEP i st xx yy).res.errz.length = st.Sig_curr.length := by
          rw [hres, hI.eSize _ hwf, hI'.1.1.1]
        refine ⟨⟨lenInv_step_local accAdd P prob Sig0 inner i st st' xx yy hI'.1.1 hl hc, ?_⟩,
          by rw [hres]; exact hI.xSize _ hwf, by rw [hres]; exact hI.ySize _ hwf⟩
        rw [(Alpaqa.Proofs.C07.step_cont P prob accAdd _ _ inner hc).2.2.2.2]
        exact Alpaqa.Proofs.C07.upw_pos P _ _ _ _ _ _ _ hl hI'.1.2)
      P.max_iter 0 INIT x y
      ⟨⟨almInit_len nan inf acc0 P prob Sig0 hlen.hlen,
        by rw [almInit_Sig]; exact uniformize_pos P _ (initSig0_pos nan P prob Sig0 hmin hmm)⟩, hx, hy⟩
      s hsmem
    rw [hs] at hout
    have hd := Alpaqa.Proofs.C07.step_done P prob accAdd _ _ inner hout
    rw [← hs] at hd
    rw [hst] at hconv
    -- the last inner solve converged with ε ≤ tolerance, ‖e‖∞ ≤ dual tolerance
    have hconvAll : Alpaqa.Proofs.C07.AlmConv P s.res.status s.res.eps s.res.errz := by
      by_cases hi : s.res.status = .Interrupted
      · rw [hd.2.2.2.2.2.2.2.1 hi] at hconv; cases hconv
      · have h3 := hd.2.2.2.2.2.2.2.2 hi
        by_contra hn
        cases hsp : s.res.stopSeen
        · cases ho : s.res.outOfTime
          · rw [(h3.2.2.2 hn hsp ho).2] at hconv; cases hconv
          · rw [h3.2.2.1 hn hsp ho] at hconv; cases hconv
        · rw [h3.2.1 hn hsp] at hconv; cases hconv
    obtain ⟨heps, hstat, herr⟩ := hconvAll
    have hres : s.res = inner s.call := by rw [hs]; rfl
    have hwf : WFCall n prob.m s.call := by
      rw [hs]; exact step_call_wf accAdd P prob Sig0 inner n s.i s.st x' y' hSig.1 hxl hyl
    have hcs : s.call.sigma = s.st.Sig_curr := by rw [hs]; rfl
    rw [hxo, hy', hres]
    rw [hres] at heps hstat herr
    exact cert_of_converged_call pb n prob.m inner hI _ _ s.call hC hD hwf
      (by rw [hcs]; exact hSig.2) hstat heps herr

/-- **C01, `m = 0`.**  Without general constraints ALM passes the inner solver's status through
    (`Props/C07.m0_single_call`); under the inner contract (`Converged ⇒ ε ≤` the tolerance it was
    given, which on this path is the final `tolerance`) `Converged` certifies stationarity and
    `x ∈ C`; the clauses about `g`, `D`, `y` are void (`m = 0`). -/
theorem alm_m0_converged_certifies_kkt (pb : ProblemCF α) (n : Nat) (hI : InnerContract pb n 0 inner)
    (hm : prob.m = 0) (h0 : P.max_iter ≠ 0)
    (hC : ∀ b ∈ pb.C, ∀ l u, b.1 = some l → b.2 = some u → l ≤ u)
    (htol : 0 < P.tolerance) (hδ : 0 ≤ P.dual_tolerance) (hx : x.length = n) (hy : y.length = prob.m)
    (hconv : (RUN).stats.status = .Converged) :
    KKTCert pb 0 P.tolerance P.dual_tolerance (RUN).x (RUN).y := by
  rcases run_cases nan inf acc0 accAdd P prob x y Sig0 inner with ⟨h, _⟩ | ⟨_, _, hr⟩ | ⟨_, h, _⟩
  · exact absurd h h0
  · rw [hr] at hconv ⊢
    simp only [almM0] at hconv
    have hwf : WFCall n 0 (⟨x, y, [], [], almInnerOptsM0 P⟩ : InnerCall α) :=
      ⟨hx, by simp only []; rw [hy, hm], rfl, rfl⟩
    have hez : (inner ⟨x, y, [], [], almInnerOptsM0 P⟩).errz = [] :=
      List.eq_nil_of_length_eq_zero (hI.eSize _ hwf)
    have herr : normInf (inner ⟨x, y, [], [], almInnerOptsM0 P⟩).errz ≤ P.dual_tolerance := by
      rw [hez]; simpa [normInf, vabs, redux] using hδ
    exact cert_of_converged_call pb n 0 inner hI _ _ ⟨x, y, [], [], almInnerOptsM0 P⟩ hC
      (fun i hi => absurd hi (Nat.not_lt_zero _)) hwf
      (fun σ h => by cases h) hconv (hI.conv_tol _ hwf htol hconv) herr
  · exact absurd hm h

/-! ### The certificate coordinate by coordinate -/

theorem vget_cons_zero_c01 (a : α) (as : List α) : vget (a :: as) 0 = a := by simp [vget]
theorem vget_cons_succ_c01 (a : α) (as : List α) (i : Nat) : vget (a :: as) (i + 1) = vget as i := by
  simp [vget]

/-- `Certified` read coordinate by coordinate: for every index within the four lists,
    `−ĝ_i` is within `tol` of the normal cone of `[lb_i, ub_i]` at `(x + p)_i`. -/
theorem certified_coord (γ tol : α) :
    ∀ (x g gh : List α) (C : List (Option α × Option α)), Certified γ tol x g gh C →
      ∀ i, i < x.length → i < g.length → i < gh.length → i < C.length →
        ∃ n, InNormalCone (C.getD i (none, none)).1 (C.getD i (none, none)).2
            (vget (vadd x (projStepVO γ x g C)) i) n ∧ |(-vget gh i) - n| ≤ tol
  | x :: xs, g :: gs, gh :: ghs, b :: bs, h, i, h1, h2, h3, h4 => by
    cases i with
    | zero =>
      simp only [projStepVO, vadd, vzip, List.zipWith_cons_cons, vget_cons_zero_c01, List.getD_cons_zero]
      exact h.1
    | succ j =>
      simp only [projStepVO, vadd, vzip, List.zipWith_cons_cons, vget_cons_succ_c01, List.getD_cons_succ]
      exact certified_coord γ tol xs gs ghs bs h.2 j (by simpa using h1) (by simpa using h2)
        (by simpa using h3) (by simpa using h4)
  | [], _, _, _, _, i, h1, _, _, _ => absurd h1 (Nat.not_lt_zero _)
  | _ :: _, [], _, _, _, i, _, h2, _, _ => absurd h2 (Nat.not_lt_zero _)
  | _ :: _, _ :: _, [], _, _, i, _, _, h3, _ => absurd h3 (Nat.not_lt_zero _)
  | _ :: _, _ :: _, _ :: _, [], _, i, _, _, _, h4 => absurd h4 (Nat.not_lt_zero _)

/-- `dist∞(−∇L(x, y), N_C(x)) ≤ tol`, coordinate by coordinate, for a certified pair whose `x` has
    as many entries as `C` (and `∇L` returns a vector of that size). -/
theorem KKTCert.stationarity_coord {pb : ProblemCF α} {m : Nat} {tol δ : α} {x y : Vec α}
    (h : KKTCert pb m tol δ x y) (hx : x.length = pb.C.length)
    (hg : (pb.gradL x y).length = pb.C.length) (i : Nat) (hi : i < pb.C.length) :
    ∃ n, InNormalCone (pb.C.getD i (none, none)).1 (pb.C.getD i (none, none)).2 (vget x i) n ∧
      |(-vget (pb.gradL x y) i) - n| ≤ tol := by
  obtain ⟨γ, x₀, g₀, _, hxe, hcert⟩ := h.stationarity
  have hl : x.length = min x₀.length (projStepVO γ x₀ g₀ pb.C).length := by
    rw [hxe]; simp [vadd, vzip]
  have hp : ∀ (a b : List α) (C : List (Option α × Option α)),
      (projStepVO γ a b C).length ≤ b.length := by
    intro a
    induction a with
    | nil => intro b C; simp [projStepVO]
    | cons a as ih =>
      intro b C
      cases b with
      | nil => simp [projStepVO]
      | cons b bs =>
        cases C with
        | nil => simp [projStepVO]
        | cons c cs => simp only [projStepVO, List.length_cons]; have := ih bs cs; omega
  have h1 : i < x₀.length := by omega
  have h2 : i < g₀.length := by have := hp x₀ g₀ pb.C; omega
  have := certified_coord γ tol x₀ g₀ _ pb.C hcert i h1 h2 (by omega) hi
  rw [← hxe] at this
  exact this

/-! ### PANOC satisfies the inner contract -/
section panoc
open Alpaqa.Panoc Alpaqa.Props.C05
variable {Dd : Type}

/-- The problem oracles PANOC is handed (for multipliers `y` and penalties `Σ` of size `m`) equal the
    closed forms on well-sized arguments: `eval_ψ`'s `ŷ` (`Props/C04.yhat_closed_kernel`),
    `eval_grad_L` (`grad_L_closed`), the prox step is the box projection step (`Props/C15`,
    `Props/C01.projStepO_some`); and they return vectors of the right size (`ProblemSized`: prox and
    gradient outputs of size `n`, `ŷ` of size `m`). -/
structure OracleContract (pb : ProblemCF α) (n m : Nat) (Pf : Vec α → Vec α → Panoc.Problem α) :
    Prop where
  yhat : ∀ y Sig x, y.length = m → Sig.length = m → x.length = n →
    ((Pf y Sig).psi x).2 = yhatCF pb x y Sig
  gradL : ∀ y Sig x yh, y.length = m → Sig.length = m → x.length = n → yh.length = m →
    (Pf y Sig).gradL x yh = pb.gradL x yh
  prox : ∀ y Sig γ x g, y.length = m → Sig.length = m → x.length = n → g.length = n →
    ((Pf y Sig).prox γ x g).2.1 = vadd x (projStepVO γ x g pb.C) ∧
    ((Pf y Sig).prox γ x g).2.2 = projStepVO γ x g pb.C
  sized : ∀ y Sig, y.length = m → Sig.length = m → ProblemSized n m (Pf y Sig)
  /-- `eval_ψ_grad_ψ` is consistent with `eval_ψ` / `eval_grad_L` (`Proofs/PanocInv.OracleLaw`; the
      library's own implementation computes `ŷ` into the workspace and `∇L(x, ŷ)` into the gradient).
      Only used with `eager_gradient_eval`. -/
  law : ∀ y Sig, y.length = m → Sig.length = m → OracleLaw (Pf y Sig)

/-- `OracleContract` with the consistency clause **relativised to well-sized arguments and to the mode
    that reads it**: `eval_ψ_grad_ψ` has to be consistent with `eval_ψ` / `eval_grad_L` only at `x` of
    size `n` (`Proofs/PanocInvOn.OracleLawOn`: where the oracles are specified), and only if
    `eager_gradient_eval` is set (`eager`: the value of that parameter; with lazy evaluation PANOC
    never calls `eval_ψ_grad_ψ(x̂)`).  Every other clause is that of `OracleContract` — all of them
    already speak about well-sized arguments only. -/
structure OracleContractOn (pb : ProblemCF α) (n m : Nat) (eager : Bool)
    (Pf : Vec α → Vec α → Panoc.Problem α) : Prop where
  yhat : ∀ y Sig x, y.length = m → Sig.length = m → x.length = n →
    ((Pf y Sig).psi x).2 = yhatCF pb x y Sig
  gradL : ∀ y Sig x yh, y.length = m → Sig.length = m → x.length = n → yh.length = m →
    (Pf y Sig).gradL x yh = pb.gradL x yh
  prox : ∀ y Sig γ x g, y.length = m → Sig.length = m → x.length = n → g.length = n →
    ((Pf y Sig).prox γ x g).2.1 = vadd x (projStepVO γ x g pb.C) ∧
    ((Pf y Sig).prox γ x g).2.2 = projStepVO γ x g pb.C
  sized : ∀ y Sig, y.length = m → Sig.length = m → ProblemSized n m (Pf y Sig)
  lawOn : eager = true → ∀ y Sig, y.length = m → Sig.length = m → OracleLawOn n (Pf y Sig)

/-- the unrestricted contract implies the relativised one, in either mode -/
theorem OracleContract.on {pb : ProblemCF α} {n m : Nat} {Pf : Vec α → Vec α → Panoc.Problem α}
    (h : OracleContract pb n m Pf) (eager : Bool) : OracleContractOn pb n m eager Pf :=
  ⟨h.yhat, h.gradL, h.prox, h.sized, fun _ y Sig hy hS => (h.law y Sig hy hS).on n⟩

/-- the eager contract is the stronger one -/
theorem OracleContractOn.mono {pb : ProblemCF α} {n m : Nat} {Pf : Vec α → Vec α → Panoc.Problem α}
    (h : OracleContractOn pb n m true Pf) (eager : Bool) : OracleContractOn pb n m eager Pf :=
  ⟨h.yhat, h.gradL, h.prox, h.sized, fun _ => h.lawOn rfl⟩

/-- `OracleContractOn` with **nothing demanded about the workspace** of `eval_ψ_grad_ψ`: of the
    consistency law only the gradient half is kept (`Proofs/PanocInvOn.GradLawOn`: the gradient
    `eval_ψ_grad_ψ` returns at `x ∈ ℝⁿ` is `eval_grad_L(x, ŷ(x))`), and only for a run with
    `eager_gradient_eval`.  What `eval_ψ_grad_ψ` leaves in `work_m` is constrained by `sized` alone
    (`ProblemSized.pgp_work`: an `m`-vector). -/
structure OracleContractGrad (pb : ProblemCF α) (n m : Nat) (eager : Bool)
    (Pf : Vec α → Vec α → Panoc.Problem α) : Prop where
  yhat : ∀ y Sig x, y.length = m → Sig.length = m → x.length = n →
    ((Pf y Sig).psi x).2 = yhatCF pb x y Sig
  gradL : ∀ y Sig x yh, y.length = m → Sig.length = m → x.length = n → yh.length = m →
    (Pf y Sig).gradL x yh = pb.gradL x yh
  prox : ∀ y Sig γ x g, y.length = m → Sig.length = m → x.length = n → g.length = n →
    ((Pf y Sig).prox γ x g).2.1 = vadd x (projStepVO γ x g pb.C) ∧
    ((Pf y Sig).prox γ x g).2.2 = projStepVO γ x g pb.C
  sized : ∀ y Sig, y.length = m → Sig.length = m → ProblemSized n m (Pf y Sig)
  gradLaw : eager = true → ∀ y Sig, y.length = m → Sig.length = m → GradLawOn n (Pf y Sig)

/-- the full law on `ℝⁿ` contains its gradient half -/
theorem OracleContractOn.grad {pb : ProblemCF α} {n m : Nat} {e : Bool}
    {Pf : Vec α → Vec α → Panoc.Problem α} (h : OracleContractOn pb n m e Pf) :
    OracleContractGrad pb n m e Pf :=
  ⟨h.yhat, h.gradL, h.prox, h.sized, fun he y Sig hy hS => (h.lawOn he y Sig hy hS).grad⟩

/-- PANOC's parameters for an inner call: tolerance and `always_overwrite_results` from the options -/
def panocParams (pr : Panoc.Params α) (c : InnerCall α) : Panoc.Params α :=
  { pr with tolerance := c.opts.tolerance, alwaysOverwrite := c.opts.always_overwrite_results }

/-- the PANOC run an inner call triggers: tolerance and `always_overwrite_results` from the options,
    `y`, `Σ`, `x`, the `err_z` buffer from the call; stop schedule and clock are arbitrary oracles -/
def panocRun (Pf : Vec α → Vec α → Panoc.Problem α) (dir : Direction Dd α) (d0 : Dd)
    (pr : Panoc.Params α) (stop : InnerCall α → Nat → Bool) (oot : InnerCall α → Bool)
    (gV : Vec α) (gS iS : α) (c : InnerCall α) : Panoc.Result α Dd :=
  Panoc.run (Pf c.y c.sigma) dir d0 (panocParams pr c)
    (stop c) (oot c) c.x c.y c.sigma c.errBuf gV gS iS

/-- `PANOCSolver::operator()` as an inner-solver function of the ALM model.  `stop` is PANOC's own
    flag as a function of the tick, `clock` / `almStop` the two oracle bits ALM reads after the inner
    solve (`time_elapsed > max_time`; ALM's own `stop_signal.stop_requested()`) — arbitrary, and not
    related to `stop`: `ALMSolver::stop()` sets both flags, but a request that PANOC does not
    report (a status that outranks `Interrupted`) is still seen by ALM. -/
def panocInner (Pf : Vec α → Vec α → Panoc.Problem α) (dir : Direction Dd α) (d0 : Dd)
    (pr : Panoc.Params α) (stop : InnerCall α → Nat → Bool) (oot clock almStop : InnerCall α → Bool)
    (gV : Vec α) (gS iS : α) (c : InnerCall α) : InnerResult α (Panoc.Stats α) :=
  let r := panocRun Pf dir d0 pr stop oot gV gS iS c
  ⟨r.stats.status, r.stats.eps, r.x, r.y, r.errz, r.stats, clock c, almStop c⟩

theorem fuelOK_panocParams {pr : Panoc.Params α} {nf K : Nat} (h : FuelOK pr nf K) (c : InnerCall α) :
    FuelOK (panocParams pr c) nf K :=
  ⟨h.lstart_pos, h.clamp, h.lgf, h.minLs, h.lmax, h.K_pos, h.tau, h.fuel⟩

/-- **PANOC satisfies `InnerContract`; of the oracles' mutual consistency only the gradient half is
    used, on well-sized arguments only, in eager mode only** (`OracleContractGrad`, at the run's own
    `eager_gradient_eval`) — the general form of `panoc_satisfies_inner_contract_on` and
    `panoc_satisfies_inner_contract` below.  **Nothing is assumed about what `eval_ψ_grad_ψ` leaves in
    its workspace `work_m`** beyond its size: the PANOC model (as panoc.tpp) treats `ŷx̂` after an eager
    evaluation as workspace and re-evaluates `eval_ψ` where `ŷ` is read (`headEvalYhat`, the exit
    block); the `∇ψ(x̂)`-buffer invariant is therefore carried against `ŷ(x̂)` itself
    (`Proofs/PanocInvOn.GradHatPsiOn`) and the iterate the contract speaks about is the head's one
    with `ŷx̂` replaced by `ŷ(x̂)` — what the exit block writes back; the ApproxKKT residual does not
    read `ŷ`.  The PANOC model only ever evaluates its oracles at vectors of size `n`
    (`Proofs/PanocSized`): the invariants are carried in their relativised forms
    (`Proofs/C01PanocOn.run_exit_inv_on`) together with the size invariant that discharges their side
    condition.  Same hypotheses about provider, parameters, fuel and stop schedule as below; nothing
    is assumed about the run. -/
theorem panoc_satisfies_inner_contract_grad (pb : ProblemCF α) (n m : Nat)
    (Pf : Vec α → Vec α → Panoc.Problem α) (pr : Panoc.Params α)
    (hO : OracleContractGrad pb n m pr.eagerGradientEval Pf)
    (dir : Direction Dd α) (d0 : Dd) (hD : DirSized n dir d0) (hp : ParamsOK pr)
    (nf K : Nat) (hF : FuelOK pr nf K)
    (hcrit : pr.stopCrit = .ApproxKKT)
    (stop : InnerCall α → Nat → Bool) (hmono : ∀ c, StopMono (stop c))
    (oot clock almStop : InnerCall α → Bool) (gV : Vec α) (gS iS : α) :
    InnerContract pb n m (panocInner Pf dir d0 pr stop oot clock almStop gV gS iS) := by
  have hfuel : ∀ c, (panocRun Pf dir d0 pr stop oot gV gS iS c).fuelOut = false := fun c =>
    run_fuel_suffices (Pf c.y c.sigma) dir d0 (panocParams pr c) (stop c) (hmono c) nf K
      (fuelOK_panocParams hF c) (oot c) c.x c.y c.sigma c.errBuf gV gS iS
  have hsize : ∀ c, WFCall n m c → OutSized n m (panocRun Pf dir d0 pr stop oot gV gS iS c) := fun c hwf =>
    run_sized (hO.sized c.y c.sigma hwf.y hwf.sigma) dir d0 hD (panocParams pr c) (stop c) (oot c)
      c.x c.y c.sigma c.errBuf gV gS iS hwf.x hwf.y hwf.sigma hwf.errBuf (hfuel c)
  -- what a converged run looks like
  have key : ∀ c, WFCall n m c → (panocRun Pf dir d0 pr stop oot gV gS iS c).stats.status = .Converged →
      ∃ it : Iterate α, 0 < it.gamma ∧
        it.xhat = vadd it.x (projStepVO it.gamma it.x it.gradPsi pb.C) ∧
        it.p = projStepVO it.gamma it.x it.gradPsi pb.C ∧
        it.yhat = yhatCF pb it.xhat c.y c.sigma ∧
        it.gradPsiHat = pb.gradL it.xhat it.yhat ∧
        (panocRun Pf dir d0 pr stop oot gV gS iS c).x = it.xhat ∧
        (panocRun Pf dir d0 pr stop oot gV gS iS c).y = it.yhat ∧
        (panocRun Pf dir d0 pr stop oot gV gS iS c).stats.eps =
          stopCrit_ApproxKKT (fun _ v _ => (v, v)) it.p it.gamma it.x it.xhat it.yhat it.gradPsi
            it.gradPsiHat ∧
        (0 < c.errBuf.length → (panocRun Pf dir d0 pr stop oot gV gS iS c).errz =
          vdiv (vsub it.yhat c.y) c.sigma) ∧
        (0 < c.opts.tolerance →
          (panocRun Pf dir d0 pr stop oot gV gS iS c).stats.eps ≤ c.opts.tolerance) := by
    intro c hwf hc
    have hf := hfuel c
    have hPs := hO.sized c.y c.sigma hwf.y hwf.sigma
    unfold panocRun at hc hf ⊢
    generalize hpr' : panocParams pr c = pr' at hc hf ⊢
    have hp' : ParamsOK pr' := by subst hpr'; exact ⟨hp.minLs, hp.lgf, hp.lmin, hp.lmax⟩
    have hcrit' : pr'.stopCrit = .ApproxKKT := by subst hpr'; exact hcrit
    have hmode : GradModeOn n (Pf c.y c.sigma) pr' := gradModeOn_of_eager n _ _ (fun he =>
      hO.gradLaw (by subst hpr'; exact he) c.y c.sigma hwf.y hwf.sigma)
    have htol' : pr'.tolerance = c.opts.tolerance := by subst hpr'; rfl
    rcases run_exit_inv_on (Pf c.y c.sigma) hPs dir d0 hD pr' hp' (stop c) (oot c) c.x c.y c.sigma c.errBuf
      gV gS iS hwf.x hf with hnf | ⟨s', hinv, hrun⟩
    · rw [hnf] at hc; cases hc
    · set P := Pf c.y c.sigma with hP
      set sh := (headStep P pr' (stop c) (oot c) s').1 with hsh
      have hgood := (headStep_good_on n P pr' (stop c) (oot c) s' hinv.good).1
      have hgh := headStep_ghp n P pr' (stop c) (oot c) s' hinv.good hinv.sized.xhat hinv.gradPsi
      have hloop := headStep_inv False True P pr' (stop c) (oot c) s' hinv.loop
      have hsz : Sized n m sh.curr := headStep_sized hPs pr' (stop c) (oot c) s' hinv.sized
      have hst := headStep_status P pr' (stop c) (oot c) s'
      rw [hrun] at hc ⊢
      have hfields := exitBlock_fields P pr' sh (headStep P pr' (stop c) (oot c) s').2.1
        (headStep P pr' (stop c) (oot c) s').2.2 c.x c.y c.sigma c.errBuf
      rw [hfields.1] at hc
      have hok := exitBlock_ok_of_proxCons P pr' sh (headStep P pr' (stop c) (oot c) s').2.1
        (headStep P pr' (stop c) (oot c) s').2.2 c.x c.y c.sigma c.errBuf hgood.1
        (headStep_yhatValid_on n P pr' (stop c) (oot c) s' hinv.good hinv.sized.xhat)
      have hw : (exitBlock P pr' sh (headStep P pr' (stop c) (oot c) s').2.1
          (headStep P pr' (stop c) (oot c) s').2.2 c.x c.y c.sigma c.errBuf).wrote = true := by
        rw [hok.2.1, hc]; rfl
      obtain ⟨it, _, hx, hxh, hpp, hg, hgr, hgrh, _, hsame, hwr⟩ := exitBlock_final P pr' sh
        (headStep P pr' (stop c) (oot c) s').2.1 (headStep P pr' (stop c) (oot c) s').2.2
        c.x c.y c.sigma c.errBuf
      -- the iterate written back is the head's one with `ŷx̂ := ŷ(x̂)` (the head's `ŷx̂` may be workspace
      -- content in eager mode); the contract is stated for that iterate
      have hity : it.yhat = (P.psi sh.curr.xhat).2 := by
        have h1 := (hok.1.1 hw).2.1
        rw [(hwr hw).1, (hwr hw).2, hxh] at h1
        exact h1
      have hprox := hO.prox c.y c.sigma sh.curr.gamma sh.curr.x sh.curr.gradPsi hwf.y hwf.sigma hsz.x hsz.g
      have hyl : (P.psi sh.curr.xhat).2.length = m := hPs.psi_yhat _ hsz.xhat
      have hyh : (P.psi sh.curr.xhat).2 = yhatCF pb sh.curr.xhat c.y c.sigma :=
        hO.yhat c.y c.sigma _ hwf.y hwf.sigma hsz.xhat
      have hflag : sh.curr.haveGradHat = true := hgh.2 (by rw [hcrit']; rfl)
      have hgL : sh.curr.gradPsiHat = pb.gradL sh.curr.xhat (P.psi sh.curr.xhat).2 := by
        rw [hgh.1 hmode hsz.xhat hflag, hO.gradL c.y c.sigma _ _ hwf.y hwf.sigma hsz.xhat hyl]
      have heps : (headStep P pr' (stop c) (oot c) s').2.1 =
          stopCrit_ApproxKKT (fun _ v _ => (v, v)) sh.curr.p sh.curr.gamma sh.curr.x sh.curr.xhat
            (P.psi sh.curr.xhat).2 sh.curr.gradPsi sh.curr.gradPsiHat := by
        rw [hst.1]; unfold epsOf; rw [hcrit']; rfl
      refine ⟨{ sh.curr with yhat := (P.psi sh.curr.xhat).2 }, hloop.gok.1, ?_, ?_, hyh, hgL, ?_, ?_, ?_, ?_, ?_⟩
      · show sh.curr.xhat = _
        rw [hgood.1.2.1]; exact hprox.1
      · show sh.curr.p = _
        rw [hgood.1.2.2]; exact hprox.2
      · rw [(hwr hw).1, hxh]
      · rw [(hwr hw).2, hity]
      · rw [hfields.2.1]; exact heps
      · intro hl
        have := (hok.1.1 hw).2.2
        rw [if_pos hl, (hwr hw).2, hity] at this
        exact this
      · intro ht
        rw [hfields.2.1]
        have hconvd : (headStep P pr' (stop c) (oot c) s').2.2 = .Converged := hc
        rw [hst.2] at hconvd
        unfold statusOf at hconvd
        have := (Alpaqa.Props.C06.converged_iff _ _ _ _ _ _ _ _).mp hconvd
        unfold Alpaqa.Props.C06.effTol at this
        rw [htol', if_pos ht] at this
        exact this
  refine ⟨?_, ?_, fun c hwf => (hsize c hwf).x, fun c hwf => (hsize c hwf).y,
    fun c hwf => (hsize c hwf).errz⟩
  · intro c hwf hc
    obtain ⟨it, hγ, hxh, hpp, hyh, hgL, hx, hy, heps, herr, _⟩ := key c hwf hc
    refine ⟨it.gamma, it.x, it.gradPsi, hγ, ?_, ?_, ?_, ?_⟩
    · show (panocRun Pf dir d0 pr stop oot gV gS iS c).x = _
      rw [hx]; exact hxh
    · show (panocRun Pf dir d0 pr stop oot gV gS iS c).stats.eps = stopCrit_ApproxKKT _ _ _ _
        (panocRun Pf dir d0 pr stop oot gV gS iS c).x (panocRun Pf dir d0 pr stop oot gV gS iS c).y _
        (pb.gradL (panocRun Pf dir d0 pr stop oot gV gS iS c).x (panocRun Pf dir d0 pr stop oot gV gS iS c).y)
      rw [heps, hx, hy, ← hgL, ← hpp]
    · show (panocRun Pf dir d0 pr stop oot gV gS iS c).y =
        yhatCF pb (panocRun Pf dir d0 pr stop oot gV gS iS c).x c.y c.sigma
      rw [hy, hx]; exact hyh
    · intro hl
      show (panocRun Pf dir d0 pr stop oot gV gS iS c).errz =
        vdiv (vsub (panocRun Pf dir d0 pr stop oot gV gS iS c).y c.y) c.sigma
      rw [herr hl, hy]
  · intro c hwf ht hc
    obtain ⟨_, _, _, _, _, _, _, _, _, _, htol⟩ := key c hwf hc
    exact htol ht

/-- **PANOC satisfies `InnerContract`, oracle consistency demanded on well-sized arguments only**
    (`OracleContractOn`: the full law `OracleLawOn n`, at the run's own `eager_gradient_eval`) —
    corollary of `panoc_satisfies_inner_contract_grad`, which uses its gradient half only. -/
theorem panoc_satisfies_inner_contract_on (pb : ProblemCF α) (n m : Nat)
    (Pf : Vec α → Vec α → Panoc.Problem α) (pr : Panoc.Params α)
    (hO : OracleContractOn pb n m pr.eagerGradientEval Pf)
    (dir : Direction Dd α) (d0 : Dd) (hD : DirSized n dir d0) (hp : ParamsOK pr)
    (nf K : Nat) (hF : FuelOK pr nf K)
    (hcrit : pr.stopCrit = .ApproxKKT)
    (stop : InnerCall α → Nat → Bool) (hmono : ∀ c, StopMono (stop c))
    (oot clock almStop : InnerCall α → Bool) (gV : Vec α) (gS iS : α) :
    InnerContract pb n m (panocInner Pf dir d0 pr stop oot clock almStop gV gS iS) :=
  panoc_satisfies_inner_contract_grad pb n m Pf pr hO.grad dir d0 hD hp nf K hF hcrit stop hmono oot clock
    almStop gV gS iS

/-- **PANOC satisfies `InnerContract`** for the ApproxKKT criterion (the default; part of the
    property statement), with lazy *and* eager gradient evaluation, for every direction provider
    meeting its size contract on the states PANOC reaches (`DirSized`; proved for the four shipped
    providers in `Props/Directions.lean`), every monotone stop schedule, clock, ALM stop oracle, every `L0`, and parameters with
    `0 ≤ min_linesearch_coefficient`, `0 < Lγ_factor`, `0 < L_min`, `0 < L_max`
    (`Props/C05.ParamsOK`, needed for `γ > 0`) and `FuelOK pr nf K` (`Proofs/PanocFuel`: the model's
    loops provably terminate within their fuel).
    Nothing is assumed about the run itself: which iterate is written back, that `ε` is the
    ApproxKKT criterion of exactly that iterate with `∇ψ(x̂) = ∇L(x̂, ŷ)` (the `∇ψ(x̂)`-buffer
    invariant of `Proofs/C01Panoc.lean`; in eager mode through the consistency of the problem's
    oracles, `OracleContract.law`), `γ > 0`, `y = ŷ(x̂)`, `err_z = (ŷ − y)/Σ`,
    `Converged ⇒ ε ≤ tolerance`, the sizes of `x`, `y`, `err_z` (`Proofs/PanocSized`), and that the
    model's fuel does not run out are all proved from the loop model. -/
theorem panoc_satisfies_inner_contract (pb : ProblemCF α) (n m : Nat)
    (Pf : Vec α → Vec α → Panoc.Problem α) (hO : OracleContract pb n m Pf)
    (dir : Direction Dd α) (d0 : Dd) (hD : DirSized n dir d0) (pr : Panoc.Params α) (hp : ParamsOK pr)
    (nf K : Nat) (hF : FuelOK pr nf K)
    (hcrit : pr.stopCrit = .ApproxKKT)
    (stop : InnerCall α → Nat → Bool) (hmono : ∀ c, StopMono (stop c))
    (oot clock almStop : InnerCall α → Bool) (gV : Vec α) (gS iS : α) :
    InnerContract pb n m (panocInner Pf dir d0 pr stop oot clock almStop gV gS iS) :=
  panoc_satisfies_inner_contract_on pb n m Pf pr (hO.on _) dir d0 hD hp nf K hF hcrit stop hmono oot clock
    almStop gV gS iS

/-! #### The oracles built from the closed forms meet `OracleContract` -/

/-- The problem oracles PANOC is handed, built from the user's closed forms (`ψ` arbitrary: it only
    enters the acceptance tests). -/
def cfProblem (pb : ProblemCF α) (ψ : Vec α → Vec α → Vec α → α) (y Sig : Vec α) : Panoc.Problem α where
  psiGradPsi x := (ψ y Sig x, pb.gradL x (yhatCF pb x y Sig), yhatCF pb x y Sig)
  psi x := (ψ y Sig x, yhatCF pb x y Sig)
  gradPsi x := pb.gradL x (yhatCF pb x y Sig)
  gradL x yh := pb.gradL x yh
  prox γ x g := (0, vadd x (projStepVO γ x g pb.C), projStepVO γ x g pb.C)

theorem projStepVO_length (γ : α) : ∀ (x g : List α) (C : List (Option α × Option α)),
    (projStepVO γ x g C).length = min x.length (min g.length C.length)
  | x :: xs, g :: gs, b :: bs => by
    simp only [projStepVO, List.length_cons, projStepVO_length γ xs gs bs]; omega
  | [], _, _ => by simp [projStepVO]
  | _ :: _, [], _ => by simp [projStepVO]
  | _ :: _, _ :: _, [] => by simp [projStepVO]

theorem yhatCF_length (pb : ProblemCF α) (x y Sig : Vec α) : (yhatCF pb x y Sig).length = y.length := by
  simp [yhatCF]

/-- **`OracleContract` holds for the closed-form oracles** of every problem with `|C| = n` whose
    `∇L` returns vectors of size `n`. -/
theorem cfProblem_contract (pb : ProblemCF α) (ψ : Vec α → Vec α → Vec α → α) (n m : Nat)
    (hC : pb.C.length = n)
    (hgL : ∀ x y, x.length = n → y.length = m → (pb.gradL x y).length = n) :
    OracleContract pb n m (cfProblem pb ψ) := by
  refine ⟨fun _ _ _ _ _ _ => rfl, fun _ _ _ _ _ _ _ _ => rfl, fun _ _ _ _ _ _ _ _ _ => ⟨rfl, rfl⟩, ?_,
    fun _ _ _ _ _ => ⟨rfl, rfl⟩⟩
  intro y Sig hy _
  have hyl : ∀ x, (yhatCF pb x y Sig).length = m := fun x => by rw [yhatCF_length, hy]
  refine ⟨fun x hx => hgL _ _ hx (hyl x), fun x _ => hyl x, fun x _ => hyl x,
    fun x hx => hgL _ _ hx (hyl x), fun x yh hx hyh => hgL _ _ hx hyh, ?_, ?_⟩
  · intro γ x g hx hg
    show (vadd x (projStepVO γ x g pb.C)).length = n
    rw [Alpaqa.Panoc.vadd_length, projStepVO_length, hx, hg, hC]; simp
  · intro γ x g hx hg
    show (projStepVO γ x g pb.C).length = n
    rw [projStepVO_length, hx, hg, hC]; simp

end panoc

/-! ### Non-vacuity -/
section examples

/-- A (poor but honest) inner solver for *any* problem: one projected-gradient step with `γ = 1`
    from the point it is given, `ŷ`, `err_z` and the ApproxKKT residual computed from the closed
    forms; `Converged` iff the residual is within the tolerance (and the sizes fit). -/
def oneStepInner (pb : ProblemCF α) (c : InnerCall α) : InnerResult α Nat :=
  let gψ := pb.gradL c.x (yhatCF pb c.x c.y c.sigma)
  let p := projStepVO 1 c.x gψ pb.C
  let xh := vadd c.x p
  let yh := yhatCF pb xh c.y c.sigma
  let ε := stopCrit_ApproxKKT (fun _ v _ => (v, v)) p 1 c.x xh yh gψ (pb.gradL xh yh)
  let ez := vdiv (vsub yh c.y) c.sigma
  if ε ≤ c.opts.tolerance ∧ xh.length = c.x.length ∧ ez.length = c.errBuf.length then
    ⟨.Converged, ε, xh, yh, ez, 1, false, false⟩
  else ⟨.MaxIter, ε, c.x, c.y, c.errBuf, 1, false, false⟩

/-- `InnerContract` is satisfiable for every problem and all sizes. -/
theorem oneStepInner_contract (pb : ProblemCF α) (n m : Nat) :
    InnerContract pb n m (oneStepInner pb) := by
  refine ⟨?_, ?_, ?_, ?_, ?_⟩
  · intro c _ hc
    unfold oneStepInner at hc ⊢
    simp only [] at hc ⊢
    split_ifs at hc ⊢ with h
    exact ⟨1, c.x, _, one_pos, rfl, rfl, rfl, fun _ => rfl⟩
  · intro c _ _ hc
    unfold oneStepInner at hc ⊢
    simp only [] at hc ⊢
    split_ifs at hc ⊢ with h
    exact h.1
  · intro c hwf
    unfold oneStepInner; simp only []
    split_ifs with h
    · rw [h.2.1]; exact hwf.x
    · exact hwf.x
  · intro c hwf
    unfold oneStepInner; simp only []
    split_ifs with h
    · simp [yhatCF, hwf.y]
    · exact hwf.y
  · intro c hwf
    unfold oneStepInner; simp only []
    split_ifs with h
    · rw [h.2.2]; exact hwf.errBuf
    · exact hwf.errBuf

local instance instRealLikeRat : RealLike ℚ := ⟨id, fun _ => false, fun _ => true⟩
local instance : Alpaqa.Proofs.C07.NoNaN ℚ := ⟨fun _ => rfl⟩

/-- minimise `(x − 2)²` subject to `x ≥ 0` (box `C`) and `g(x) = x ≤ 1` (box `D`);
    `∇L(x, y) = 2x − 4 + y`.  Solution `x = 1`, `y = 2`. -/
def pbEx : ProblemCF ℚ :=
  ⟨[(some 0, none)], [(none, some 1)], fun x => [vget x 0], fun x y => [2 * vget x 0 - 4 + vget y 0]⟩

theorem pbEx_C : ∀ b ∈ pbEx.C, ∀ l u, b.1 = some l → b.2 = some u → l ≤ u := by
  intro b hb l u h1 h2
  simp only [pbEx, List.mem_singleton] at hb
  subst hb; cases h2

theorem pbEx_D : ∀ i, i < 1 → BndOK (lbAt pbEx.D i) (ubAt pbEx.D i) := by
  intro i hi a b ha hb
  have : i = 0 := by omega
  subst this
  simp [pbEx, lbAt] at ha

/-- an inner call at the solution: the one-step solver reports `Converged` with `ε = 0`,
    `x = 1`, `y = 2`, `err_z = 0` -/
example : (oneStepInner pbEx ⟨[1], [2], [1], [0], ⟨true, 1/10, 0, false⟩⟩).status = .Converged ∧
    (oneStepInner pbEx ⟨[1], [2], [1], [0], ⟨true, 1/10, 0, false⟩⟩).x = [1] ∧
    (oneStepInner pbEx ⟨[1], [2], [1], [0], ⟨true, 1/10, 0, false⟩⟩).y = [2] ∧
    (oneStepInner pbEx ⟨[1], [2], [1], [0], ⟨true, 1/10, 0, false⟩⟩).errz = [0] := by
  simp [oneStepInner, pbEx, yhatCF, yhat1, pd1, proj1, maxLb, minUb, emin, emax, lbAt, ubAt, vget,
    projStepVO, projStepO, vadd, vsub, vdiv, vzip, smul, stopCrit_ApproxKKT, normInf, vabs, eabs, redux]
  norm_num

/-- and the certificate it yields is the expected one: `−∇L(1, 2) = 0 ∈ N_C(1)`, `g(1) = 1 ∈ D`,
    `y = 2 > 0` on the active upper bound -/
example : KKTCert pbEx 1 (1/10) (1/100) [1] [2] := by
  have h := cert_of_converged_call pbEx 1 1 (oneStepInner pbEx) (oneStepInner_contract pbEx 1 1) (1/10) (1/100)
    ⟨[1], [2], [1], [0], ⟨true, 1/10, 0, false⟩⟩ pbEx_C pbEx_D ⟨rfl, rfl, rfl, rfl⟩
    (by intro σ hσ; simp at hσ; subst hσ; norm_num)
  have e : oneStepInner pbEx ⟨[1], [2], [1], [0], ⟨true, 1/10, 0, false⟩⟩ =
      ⟨.Converged, 0, [1], [2], [0], 1, false, false⟩ := by
    simp [oneStepInner, pbEx, yhatCF, yhat1, pd1, proj1, maxLb, minUb, emin, emax, lbAt, ubAt, vget,
      projStepVO, projStepO, vadd, vsub, vdiv, vzip, smul, stopCrit_ApproxKKT, normInf, vabs, eabs, redux]
    norm_num
  rw [e] at h
  exact h rfl (by norm_num) (by simp [normInf, vabs, eabs, redux])

/-! #### (i) `alm_converged_certifies_kkt` on a concrete ALM run, `hconv` by evaluation -/

/-- tolerance 1/10, dual tolerance 1/100, Δ = 4, initial penalty 1, M = 16, Σ ≤ 256, 2 outer iterations -/
def almEx : ALMParams ℚ := ⟨1/10, 1/100, 4, 1, 4, 1/10, 1/4, 1/4, 16, 256, 1/1024, 2, false⟩
/-- one constraint row without lower bound (`D = (−∞, 1]`) -/
def probEx : Alpaqa.C07.Problem ℚ := ⟨1, [true], [false], 0, 1, [1]⟩

/-- the ALM run from the solution `x = [1]`, `y = [2]` over the one-step inner solver -/
def almRunEx : Alpaqa.C07.Result ℚ Nat Nat :=
  run (0 : ℚ) 0 (0 : Nat) (· + ·) almEx probEx [1] [2] none (oneStepInner pbEx)

/-- it returns `Converged` (by evaluation in the kernel) … -/
theorem almRunEx_converged : almRunEx.stats.status = .Converged := by decide +kernel

/-- … and **`alm_converged_certifies_kkt`, every hypothesis discharged**, certifies its result -/
example : KKTCert pbEx 1 (1/10) (1/100) almRunEx.x almRunEx.y :=
  alm_converged_certifies_kkt (0 : ℚ) 0 (0 : Nat) (· + ·) almEx probEx [1] [2] none (oneStepInner pbEx)
    pbEx 1 (oneStepInner_contract pbEx 1 1) (by decide) pbEx_C pbEx_D (by norm_num [almEx])
    (by norm_num [almEx]) trivial rfl rfl almRunEx_converged

example : almRunEx.x = [1] ∧ almRunEx.y = [2] := by decide +kernel

/-! #### (ii) `panoc_satisfies_inner_contract` on a concrete problem (`n = 1`, `m = 1`, ℚ) -/

open Alpaqa.Panoc Alpaqa.Panoc.Example Alpaqa.Props.C05 in
/-- `ψ(x) = (x−2)² + Σ·max(x + y/Σ − 1, 0)²/2` — the augmented-Lagrangian cost of `pbEx` -/
def psiEx (y Sig x : Vec ℚ) : ℚ :=
  (vget x 0 - 2) ^ 2 + vget Sig 0 * (max (vget x 0 + vget y 0 / vget Sig 0 - 1) 0) ^ 2 / 2

open Alpaqa.Panoc Alpaqa.Panoc.Example in
/-- PANOC parameters: those of `Proofs/PanocLoopExample` with the ApproxKKT criterion -/
def prEx : Panoc.Params ℚ := { prq with stopCrit := .ApproxKKT }

theorem pbEx_contract : OracleContract pbEx 1 1 (cfProblem pbEx psiEx) :=
  cfProblem_contract pbEx psiEx 1 1 rfl (fun _ _ _ _ => rfl)

open Alpaqa.Panoc Alpaqa.Panoc.Example Alpaqa.Props.C05 in
/-- **the PANOC loop model over the closed-form oracles of `pbEx` satisfies the inner contract** —
    no hypothesis left: oracle contract, size contracts, parameter and fuel conditions, monotone
    flag are all proved for this instance -/
theorem panocEx_contract :
    InnerContract pbEx 1 1
      (panocInner (cfProblem pbEx psiEx) dirNoop () prEx (fun _ _ => false) (fun _ => false)
        (fun _ => false) (fun _ => false) [] 0 0) :=
  panoc_satisfies_inner_contract pbEx 1 1 (cfProblem pbEx psiEx) pbEx_contract
    dirNoop () (dirSized_noop 1 ()) prEx
    ⟨by norm_num [prEx, prq], by norm_num [prEx, prq], by norm_num [prEx, prq], by norm_num [prEx, prq]⟩
    1 9 (by refine ⟨?_, ?_, ?_, ?_, ?_, by norm_num, ?_, ?_⟩ <;> norm_num [prEx, prq, Lstart])
    rfl (fun _ _ => false) (fun _ s t _ h => by cases h) (fun _ => false) (fun _ => false) (fun _ => false) [] 0 0

open Alpaqa.Panoc Alpaqa.Panoc.Example in
/-- the contract is not vacuous there: on the well-formed call at the solution the PANOC model
    reports `Converged` with `x = [1]`, `y = [2]`, `err_z = [0]` -/
example : (panocInner (cfProblem pbEx psiEx) dirNoop () prEx (fun _ _ => false) (fun _ => false)
      (fun _ => false) (fun _ => false) [] 0 0 ⟨[1], [2], [1], [7], ⟨true, 1/10, 0, false⟩⟩).status = .Converged ∧
    (panocInner (cfProblem pbEx psiEx) dirNoop () prEx (fun _ _ => false) (fun _ => false)
      (fun _ => false) (fun _ => false) [] 0 0 ⟨[1], [2], [1], [7], ⟨true, 1/10, 0, false⟩⟩).x = [1] ∧
    (panocInner (cfProblem pbEx psiEx) dirNoop () prEx (fun _ _ => false) (fun _ => false)
      (fun _ => false) (fun _ => false) [] 0 0 ⟨[1], [2], [1], [7], ⟨true, 1/10, 0, false⟩⟩).y = [2] ∧
    (panocInner (cfProblem pbEx psiEx) dirNoop () prEx (fun _ _ => false) (fun _ => false)
      (fun _ => false) (fun _ => false) [] 0 0 ⟨[1], [2], [1], [7], ⟨true, 1/10, 0, false⟩⟩).errz = [0] := by
  decide +kernel

open Alpaqa.Panoc Alpaqa.Panoc.Example Alpaqa.Props.C05 in
/-- the same with `eager_gradient_eval = true`: contract proved, the run from `x = [1/2]` is
    `Converged` after two iterations -/
example :
    InnerContract pbEx 1 1
      (panocInner (cfProblem pbEx psiEx) dirNoop () { prEx with eagerGradientEval := true }
        (fun _ _ => false) (fun _ => false) (fun _ => false) (fun _ => false) [] 0 0) ∧
    (panocInner (cfProblem pbEx psiEx) dirNoop () { prEx with eagerGradientEval := true }
      (fun _ _ => false) (fun _ => false) (fun _ => false) (fun _ => false) [] 0 0
      ⟨[1/2], [2], [1], [7], ⟨true, 1/10, 0, false⟩⟩).status = .Converged :=
  ⟨panoc_satisfies_inner_contract pbEx 1 1 (cfProblem pbEx psiEx) pbEx_contract
    dirNoop () (dirSized_noop 1 ()) { prEx with eagerGradientEval := true }
    ⟨by norm_num [prEx, prq], by norm_num [prEx, prq], by norm_num [prEx, prq], by norm_num [prEx, prq]⟩
    1 9 (by refine ⟨?_, ?_, ?_, ?_, ?_, by norm_num, ?_, ?_⟩ <;> norm_num [prEx, prq, Lstart])
    rfl (fun _ _ => false) (fun _ s t _ h => by cases h) (fun _ => false) (fun _ => false) (fun _ => false) [] 0 0,
   by decide +kernel⟩

open Alpaqa.Panoc Alpaqa.Panoc.Example in
/-- … and **the whole stack, closed**: ALM (`Props/C07` model) over the PANOC loop model on `pbEx`
    returns `Converged`, and `alm_converged_certifies_kkt` with `panocEx_contract` certifies it -/
example : KKTCert pbEx 1 (1/10) (1/100)
    (run (0 : ℚ) 0 (Panoc.stats0 (0:ℚ)) (fun _ s => s) almEx probEx [1] [2] none
      (panocInner (cfProblem pbEx psiEx) dirNoop () prEx (fun _ _ => false) (fun _ => false)
        (fun _ => false) (fun _ => false) [] 0 0)).x
    (run (0 : ℚ) 0 (Panoc.stats0 (0:ℚ)) (fun _ s => s) almEx probEx [1] [2] none
      (panocInner (cfProblem pbEx psiEx) dirNoop () prEx (fun _ _ => false) (fun _ => false)
        (fun _ => false) (fun _ => false) [] 0 0)).y :=
  alm_converged_certifies_kkt (0 : ℚ) 0 (Panoc.stats0 (0:ℚ)) (fun _ s => s) almEx probEx [1] [2] none _
    pbEx 1 panocEx_contract (by decide) pbEx_C pbEx_D (by norm_num [almEx])
    (by norm_num [almEx]) trivial rfl rfl (by decide +kernel)

end examples

end Alpaqa.Props.C01Alm
