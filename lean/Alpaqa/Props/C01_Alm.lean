/-
  C01 — the composed end-to-end theorem: ALM `Converged` certifies an approximate KKT point.

  * `InnerContract`: what `Props/C03*` (exit contract) + `Props/C06*` (Converged ⇔ ε ≤ tolerance,
    ε is the generated criterion of the final iterate) + `Props/C04` (oracle closed forms) + `Props/C15`
    (prox = box projection step) give for an inner solver run with the ApproxKKT criterion, stated
    for an arbitrary function `InnerCall → InnerResult` against the user's closed forms `ProblemCF`
    (`g`, `∇L = ∇f + ∇g·y`, boxes `C`, `D`).
  * `alm_converged_certifies_kkt` (`m ≠ 0`) / `alm_m0_converged_certifies_kkt`: for the ALM model
    `Alpaqa.C07.run` (`Props/C07`), any parameters, any clock, any optional initial penalties, any
    inner solver satisfying the contract: `status = Converged ⇒ KKTCert` for the returned `(x, y)`.
  * `panoc_satisfies_inner_contract_partial`: the PANOC loop model `Alpaqa.Panoc.run`, wrapped as an
    inner-solver function, satisfies the contract (ApproxKKT, lazy gradient evaluation); assumed and
    named: the model's fuel does not run out, and the `rvec` size facts the list model cannot see.
  Real-number semantics (ordered field, no NaN); IEEE rounding is not modelled.
-/
import Alpaqa.Props.C01
import Alpaqa.Props.C04
import Alpaqa.Props.C07
import Alpaqa.Proofs.C01Panoc

namespace Alpaqa.Props.C01Alm
open Alpaqa Alpaqa.Gen Alpaqa.C07 Alpaqa.C04 Alpaqa.Props.C01 Alpaqa.Props.C07
set_option linter.unusedSectionVars false

variable {α A S : Type} [Field α] [LinearOrder α] [IsStrictOrderedRing α] [RealLike α]
  [Alpaqa.Proofs.C07.NoNaN α]

/-- The user's problem as closed forms: the box `C` on `x`, the box `D` on `g(x)` (`none` = infinite
    side), `g`, and `∇L(x, y) = ∇f(x) + ∇g(x)·y` (built from `∇f`, `∇g·y` only — `Props/C04`
    `grad_L_closed`). -/
structure ProblemCF (α : Type) where
  C : List (Option α × Option α)
  D : BoxD α
  g : Vec α → Vec α
  gradL : Vec α → Vec α → Vec α

/-- `ŷ(x; y, Σ)_i = Σ_i (ζ_i − Π_D ζ_i)`, `ζ_i = g_i(x) + y_i/Σ_i` (closed form of `calc_ŷ_dᵀŷ`,
    `Props/C04.yhat_closed_kernel`). -/
def yhatCF (pb : ProblemCF α) (x y Sig : Vec α) : Vec α :=
  (List.range y.length).map fun i =>
    yhat1 (vget Sig i) (lbAt pb.D i) (ubAt pb.D i) (vget (pb.g x) i) (vget y i)

/-- **What C03 + C06 (+ C04 for the oracles) give for every modelled inner solver run with the
    ApproxKKT criterion on a box-constrained problem**: whenever it reports `Converged`,
    * the returned `x` is the forward-backward point `x̂ = x + p`, `p` the projected-gradient step
      of some iterate `(γ > 0, x, ∇ψ(x))` (C03 exit contract + C15 prox = projection step);
    * the reported `ε` is the generated ApproxKKT criterion of that iterate with
      `∇ψ(x̂) = ∇L(x̂, ŷ)` evaluated at the returned pair (C06 `eps_from_final_iterate`);
    * the returned `y` is `ŷ(x̂)` for the multipliers / penalties it was called with, and
      `err_z = (ŷ − y)/Σ` (C03 exit contract);
    * `ε ≤` the tolerance it was given when that is positive (C06 `converged_iff`; for a
      non-positive tolerance the solvers use `1e-8`); `err_z` is only written when it is non-empty;
    * `x`, `y`, `err_z` are written in place (`rvec`): their sizes cannot change. -/
structure InnerContract (pb : ProblemCF α) (inner : InnerCall α → InnerResult α S) : Prop where
  conv : ∀ c, (inner c).status = .Converged →
    ∃ (γ : α) (x gψ : Vec α), 0 < γ ∧
      (inner c).x = vadd x (projStepVO γ x gψ pb.C) ∧
      (inner c).eps = stopCrit_ApproxKKT (fun _ v _ => (v, v)) (projStepVO γ x gψ pb.C) γ x (inner c).x
        (inner c).y gψ (pb.gradL (inner c).x (inner c).y) ∧
      (inner c).y = yhatCF pb (inner c).x c.y c.sigma ∧
      (0 < c.errBuf.length → (inner c).errz = vdiv (vsub (inner c).y c.y) c.sigma)
  conv_tol : ∀ c, 0 < c.opts.tolerance → (inner c).status = .Converged →
    (inner c).eps ≤ c.opts.tolerance
  xSize : ∀ c, (inner c).x.length = c.x.length
  ySize : ∀ c, (inner c).y.length = c.y.length
  eSize : ∀ c, (inner c).errz.length = c.errBuf.length

/-- `x ∈ C`, lists consumed in lock-step. -/
def InBoxV : List α → List (Option α × Option α) → Prop
  | x :: xs, b :: bs => InBox b.1 b.2 x ∧ InBoxV xs bs
  | _, _ => True

theorem vadd_projStepVO_feasible (γ : α) :
    ∀ (x g : List α) (C : List (Option α × Option α)),
      (∀ b ∈ C, ∀ l u, b.1 = some l → b.2 = some u → l ≤ u) →
      InBoxV (vadd x (projStepVO γ x g C)) C
  | x :: xs, g :: gs, b :: bs, hC => by
    simp only [projStepVO, vadd, vzip, List.zipWith_cons_cons, InBoxV]
    exact ⟨projStepO_feasible γ x g b.1 b.2 (hC b (List.mem_cons_self ..)),
      vadd_projStepVO_feasible γ xs gs bs (fun b' hb' => hC b' (List.mem_cons_of_mem _ hb'))⟩
  | [], _, _, _ => by simp [vadd, vzip, InBoxV]
  | _ :: _, [], _, _ => by simp [projStepVO, vadd, vzip, InBoxV]
  | _ :: _, _ :: _, [], _ => by simp [projStepVO, vadd, vzip, InBoxV]

/-- The certificate of the property for a pair `(x, y)`. -/
structure KKTCert (pb : ProblemCF α) (m : Nat) (tol δ : α) (x y : Vec α) : Prop where
  /-- `x = x₀ + p` is a forward-backward point and every coordinate of `−∇L(x, y)` is within
      `tol` of the normal cone of `C` at `x`: `dist∞(−(∇f(x) + ∇g(x)y), N_C(x)) ≤ tol`. -/
  stationarity : ∃ (γ : α) (x₀ g₀ : Vec α), 0 < γ ∧ x = vadd x₀ (projStepVO γ x₀ g₀ pb.C) ∧
    Certified γ tol x₀ g₀ (pb.gradL x y) pb.C
  /-- `x ∈ C` -/
  feasC : InBoxV x pb.C
  /-- `dist∞(g(x), D) ≤ δ` -/
  feasD : ∀ i, i < m → ∃ w, InBnd (lbAt pb.D i) (ubAt pb.D i) w ∧ |vget (pb.g x) i - w| ≤ δ
  /-- `y_i > 0` only where `g_i(x)` is within `δ` of its (finite) upper bound -/
  signPos : ∀ i, i < m → 0 < vget y i → ∃ b, ubAt pb.D i = some b ∧ |vget (pb.g x) i - b| ≤ δ
  /-- `y_i < 0` only where `g_i(x)` is within `δ` of its (finite) lower bound -/
  signNeg : ∀ i, i < m → vget y i < 0 → ∃ a, lbAt pb.D i = some a ∧ |vget (pb.g x) i - a| ≤ δ
  /-- free rows carry no multiplier -/
  free : ∀ i, i < m → lbAt pb.D i = none → ubAt pb.D i = none → vget y i = 0

/-- The inner-solver facts at a converged call yield the certificate (the purely local step). -/
theorem cert_of_converged_call (pb : ProblemCF α) (inner : InnerCall α → InnerResult α S)
    (hI : InnerContract pb inner) (m : Nat) (tol δ : α) (c : InnerCall α)
    (hC : ∀ b ∈ pb.C, ∀ l u, b.1 = some l → b.2 = some u → l ≤ u)
    (hD : ∀ i, i < m → BndOK (lbAt pb.D i) (ubAt pb.D i))
    (hy : c.y.length = m) (hs : c.sigma.length = m) (he : c.errBuf.length = m)
    (hpos : ∀ σ ∈ c.sigma, 0 < σ)
    (hconv : (inner c).status = .Converged) (heps : (inner c).eps ≤ tol)
    (herr : normInf (inner c).errz ≤ δ) :
    KKTCert pb m tol δ (inner c).x (inner c).y := by
  obtain ⟨γ, x₀, g₀, hγ, hx, hee, hyh, hez⟩ := hI.conv c hconv
  have hσ : ∀ i, i < m → 0 < vget c.sigma i := fun i hi =>
    hpos _ (Alpaqa.Proofs.C07.vget_mem c.sigma i (by omega))
  -- components of y and err_z
  have hyi : ∀ i, i < m → vget (inner c).y i =
      yhat1 (vget c.sigma i) (lbAt pb.D i) (ubAt pb.D i) (vget (pb.g (inner c).x) i) (vget c.y i) := by
    intro i hi
    conv_lhs => rw [hyh]
    unfold yhatCF
    rw [Alpaqa.C04.vget_map_range _ _ _ (by omega)]
  have hylen : (inner c).y.length = m := by rw [hI.ySize, hy]
  have hei : ∀ i, i < m → vget (inner c).errz i = (vget (inner c).y i - vget c.y i) / vget c.sigma i := by
    intro i hi
    rw [hez (by omega)]
    unfold vdiv vsub vzip
    rw [Alpaqa.C04.vget_zipWith _ _ _ _ (by simp; omega) (by omega),
      Alpaqa.C04.vget_zipWith _ _ _ _ (by omega) (by omega)]
  have hδ0 : 0 ≤ δ := le_trans (normInf_nonneg _) herr
  have hebound : ∀ i, i < m → |(vget (inner c).y i - vget c.y i) / vget c.sigma i| ≤ δ := by
    intro i hi
    rw [← hei i hi]
    have hlen : (inner c).errz.length = m := by rw [hI.eSize, he]
    exact (normInf_le_iff _ _ hδ0).mp herr _ (Alpaqa.Proofs.C07.vget_mem _ i (by omega))
  refine ⟨⟨γ, x₀, g₀, hγ, hx, ?_⟩, ?_, ?_, ?_, ?_, ?_⟩
  · rw [hee] at heps
    exact approxKKT_certifies _ γ tol x₀ (inner c).x (inner c).y g₀ _ pb.C hγ hC heps
  · rw [hx]; exact vadd_projStepVO_feasible γ x₀ g₀ pb.C hC
  · intro i hi
    have := hebound i hi
    rw [hyi i hi] at this
    exact Alpaqa.Props.C04.errz_bounds_dist _ _ _ _ _ δ (hσ i hi).ne' (hD i hi) this
  · intro i hi hp
    rw [hyi i hi] at hp
    obtain ⟨b, hb, _, hq⟩ := Alpaqa.Props.C04.yhat_pos_ub_active _ _ _ _ _ (hσ i hi) hp
    have := hebound i hi
    rw [hyi i hi, hq] at this
    exact ⟨b, hb, this⟩
  · intro i hi hn
    rw [hyi i hi] at hn
    obtain ⟨a, ha, _, hq⟩ := Alpaqa.Props.C04.yhat_neg_lb_active _ _ _ _ _ (hσ i hi) (hD i hi) hn
    have := hebound i hi
    rw [hyi i hi, hq] at this
    exact ⟨a, ha, this⟩
  · intro i hi hl hu
    rw [hyi i hi, hl, hu]; exact Alpaqa.Props.C04.yhat_free_zero _ _ _

/-! ### Composition with the ALM outer loop (`Props/C07`) -/

variable (nan inf : α) (acc0 : A) (accAdd : A → S → A) (P : ALMParams α) (prob : Problem α)
  (x y : Vec α) (Sig0 : Option (Vec α)) (inner : InnerCall α → InnerResult α S)

local notation "RUN" => run nan inf acc0 accAdd P prob x y Sig0 inner
local notation "LOOP" => loop P prob accAdd (Option.isSome Sig0) (Option.getD Sig0 []) inner
local notation "STEP" => mkStep P prob accAdd (Option.isSome Sig0) (Option.getD Sig0 []) inner
local notation "INIT" => almInit P nan inf acc0 prob.m (Option.isSome Sig0) (Option.getD Sig0 []) prob.f0 prob.g0

theorem projMult_length (y : Vec α) (M : α) : (projMult prob y M).length = y.length := by
  unfold projMult C15.projMultipliers; simp

/-- **C01, composed.**  Whenever the ALM solver (`m ≠ 0` general constraints, *any* ALM parameters
    with `0 < min_penalty ≤ max_penalty`, any optional initial penalties of the right size, any
    clock, any inner solver satisfying `InnerContract` — i.e. any of the modelled inner solvers with
    the ApproxKKT criterion) returns `Converged`, the returned pair `(x, y)` carries the KKT
    certificate with `tolerance` and `dual_tolerance`:
    `dist∞(−(∇f(x) + ∇g(x)y), N_C(x)) ≤ tolerance`, `x ∈ C`, `dist∞(g(x), D) ≤ dual_tolerance`,
    `y_i > 0` (`< 0`) only where `g_i(x)` is within `dual_tolerance` of its finite upper (lower)
    bound, free rows have `y_i = 0` — stated with `f, ∇f, g, ∇g·y`, `C`, `D` only (`ProblemCF`). -/
theorem alm_converged_certifies_kkt (pb : ProblemCF α) (hI : InnerContract pb inner)
    (hm : prob.m ≠ 0)
    (hC : ∀ b ∈ pb.C, ∀ l u, b.1 = some l → b.2 = some u → l ≤ u)
    (hD : ∀ i, i < prob.m → BndOK (lbAt pb.D i) (ubAt pb.D i))
    (hmin : 0 < P.min_penalty) (hmm : P.min_penalty ≤ P.max_penalty)
    (hlen : SigmaLen prob.m Sig0) (hy : y.length = prob.m)
    (hconv : (RUN).stats.status = .Converged) :
    KKTCert pb prob.m P.tolerance P.dual_tolerance (RUN).x (RUN).y := by
  have hin : SizeOK inner := hI.eSize
  rcases run_cases nan inf acc0 accAdd P prob x y Sig0 inner with ⟨_, hr⟩ | ⟨_, hm0, _⟩ | ⟨h0, _, hr⟩
  · rw [hr] at hconv; simp [almMaxIter0] at hconv
  · exact absurd hm0 hm
  · rw [hr] at hconv ⊢
    obtain ⟨init, s, stats, Sg, _, _, _, hsteps, _, hout, hst, _, _, hx, hy', _⟩ :=
      loop_path_last nan inf acc0 accAdd P prob x y Sig0 inner h0
    have hsmem : s ∈ (LOOP P.max_iter 0 INIT x y).steps := by rw [hsteps]; simp
    -- invariant at the last pass: buffer sizes, positive penalties, `y` of size `m`
    obtain ⟨x', y', ⟨hSig, hyl⟩, hs⟩ := Alpaqa.Proofs.C07.loop_steps_forall P prob accAdd _ _ inner
      (fun _ st _ yy => SigInv Alpaqa.Proofs.C07.AllPos prob.m st ∧ yy.length = prob.m)
      (fun i st xx yy st' hI' hc => ⟨sigInv_step accAdd P prob Sig0 inner Alpaqa.Proofs.C07.AllPos
          (fun Δ first e eo ne neo Sg hl h => Alpaqa.Proofs.C07.upw_pos P Δ first e eo ne neo Sg hl h)
          hin i st st' xx yy hI'.1 hc,
        by rw [Alpaqa.Proofs.C07.mkStep_res, hI.ySize, Alpaqa.Proofs.C07.mkStep_call]
           simp only []; rw [projMult_length]; exact hI'.2⟩)
      P.max_iter 0 INIT x y
      ⟨⟨almInit_len nan inf acc0 P prob Sig0 hlen.hlen,
        by rw [almInit_Sig]; exact uniformize_pos P _ (initSig0_pos nan P prob Sig0 hmin hmm)⟩, hy⟩
      s hsmem
    rw [hs] at hout
    have hd := Alpaqa.Proofs.C07.step_done P prob accAdd _ _ inner hout
    rw [← hs] at hd
    rw [hst] at hconv
    -- the last inner solve converged with ε ≤ tolerance, ‖e‖∞ ≤ dual tolerance
    have hconvAll : Alpaqa.Proofs.C07.AlmConv P s.res.status s.res.eps s.res.errz := by
      by_cases hi : s.res.status = .Interrupted
      · rw [hd.2.2.2.2.2.2.2.1 hi] at hconv; cases hconv
      · have h3 := hd.2.2.2.2.2.2.2.2 hi
        by_contra hn
        cases ho : s.res.outOfTime
        · rw [(h3.2.2 hn ho).2] at hconv; cases hconv
        · rw [h3.2.1 hn ho] at hconv; cases hconv
    obtain ⟨heps, hstat, herr⟩ := hconvAll
    have hres : s.res = inner s.call := by rw [hs]; rfl
    have hcy : s.call.y.length = prob.m := by
      rw [hs, Alpaqa.Proofs.C07.mkStep_call]; simp only []; rw [projMult_length]; exact hyl
    have hcs : s.call.sigma = s.st.Sig_curr := by rw [hs]; rfl
    rw [hx, hy', hres]
    rw [hres] at heps hstat herr
    have hce : s.call.errBuf = s.st.error := by rw [hs]; rfl
    exact cert_of_converged_call pb inner hI prob.m _ _ s.call hC hD hcy (by rw [hcs]; exact hSig.1.1)
      (by rw [hce]; exact hSig.1.2.1) (by rw [hcs]; exact hSig.2) hstat heps herr

/-- **C01, `m = 0`.**  Without general constraints ALM passes the inner solver's status through
    (`Props/C07.m0_single_call`); under the inner contract (`Converged ⇒ ε ≤` the tolerance it was
    given, which on this path is the final `tolerance`) `Converged` certifies stationarity and
    `x ∈ C`; the clauses about `g`, `D`, `y` are void (`m = 0`). -/
theorem alm_m0_converged_certifies_kkt (pb : ProblemCF α) (hI : InnerContract pb inner)
    (hm : prob.m = 0) (h0 : P.max_iter ≠ 0)
    (hC : ∀ b ∈ pb.C, ∀ l u, b.1 = some l → b.2 = some u → l ≤ u)
    (htol : 0 < P.tolerance) (hδ : 0 ≤ P.dual_tolerance) (hy : y.length = prob.m)
    (hconv : (RUN).stats.status = .Converged) :
    KKTCert pb 0 P.tolerance P.dual_tolerance (RUN).x (RUN).y := by
  rcases run_cases nan inf acc0 accAdd P prob x y Sig0 inner with ⟨h, _⟩ | ⟨_, _, hr⟩ | ⟨_, h, _⟩
  · exact absurd h h0
  · rw [hr] at hconv ⊢
    simp only [almM0] at hconv
    have hez : (inner ⟨x, y, [], [], almInnerOptsM0 P⟩).errz = [] :=
      List.eq_nil_of_length_eq_zero (by rw [hI.eSize]; rfl)
    have herr : normInf (inner ⟨x, y, [], [], almInnerOptsM0 P⟩).errz ≤ P.dual_tolerance := by
      rw [hez]; simpa [normInf, vabs, redux] using hδ
    exact cert_of_converged_call pb inner hI 0 _ _ ⟨x, y, [], [], almInnerOptsM0 P⟩ hC
      (fun i hi => absurd hi (Nat.not_lt_zero _)) (by simp only []; rw [hy, hm]) rfl rfl
      (fun σ h => by cases h) hconv (hI.conv_tol _ htol hconv) herr
  · exact absurd hm h

/-! ### The certificate coordinate by coordinate -/

theorem vget_cons_zero_c01 (a : α) (as : List α) : vget (a :: as) 0 = a := by simp [vget]
theorem vget_cons_succ_c01 (a : α) (as : List α) (i : Nat) : vget (a :: as) (i + 1) = vget as i := by
  simp [vget]

/-- `Certified` read coordinate by coordinate: for every index within the four lists,
    `−ĝ_i` is within `tol` of the normal cone of `[lb_i, ub_i]` at `(x + p)_i`. -/
theorem certified_coord (γ tol : α) :
    ∀ (x g gh : List α) (C : List (Option α × Option α)), Certified γ tol x g gh C →
      ∀ i, i < x.length → i < g.length → i < gh.length → i < C.length →
        ∃ n, InNormalCone (C.getD i (none, none)).1 (C.getD i (none, none)).2
            (vget (vadd x (projStepVO γ x g C)) i) n ∧ |(-vget gh i) - n| ≤ tol
  | x :: xs, g :: gs, gh :: ghs, b :: bs, h, i, h1, h2, h3, h4 => by
    cases i with
    | zero =>
      simp only [projStepVO, vadd, vzip, List.zipWith_cons_cons, vget_cons_zero_c01, List.getD_cons_zero]
      exact h.1
    | succ j =>
      simp only [projStepVO, vadd, vzip, List.zipWith_cons_cons, vget_cons_succ_c01, List.getD_cons_succ]
      exact certified_coord γ tol xs gs ghs bs h.2 j (by simpa using h1) (by simpa using h2)
        (by simpa using h3) (by simpa using h4)
  | [], _, _, _, _, i, h1, _, _, _ => absurd h1 (Nat.not_lt_zero _)
  | _ :: _, [], _, _, _, i, _, h2, _, _ => absurd h2 (Nat.not_lt_zero _)
  | _ :: _, _ :: _, [], _, _, i, _, _, h3, _ => absurd h3 (Nat.not_lt_zero _)
  | _ :: _, _ :: _, _ :: _, [], _, i, _, _, _, h4 => absurd h4 (Nat.not_lt_zero _)

/-- `dist∞(−∇L(x, y), N_C(x)) ≤ tol`, coordinate by coordinate, for a certified pair whose `x` has
    as many entries as `C` (and `∇L` returns a vector of that size). -/
theorem KKTCert.stationarity_coord {pb : ProblemCF α} {m : Nat} {tol δ : α} {x y : Vec α}
    (h : KKTCert pb m tol δ x y) (hx : x.length = pb.C.length)
    (hg : (pb.gradL x y).length = pb.C.length) (i : Nat) (hi : i < pb.C.length) :
    ∃ n, InNormalCone (pb.C.getD i (none, none)).1 (pb.C.getD i (none, none)).2 (vget x i) n ∧
      |(-vget (pb.gradL x y) i) - n| ≤ tol := by
  obtain ⟨γ, x₀, g₀, _, hxe, hcert⟩ := h.stationarity
  have hl : x.length = min x₀.length (projStepVO γ x₀ g₀ pb.C).length := by
    rw [hxe]; simp [vadd, vzip]
  have hp : ∀ (a b : List α) (C : List (Option α × Option α)),
      (projStepVO γ a b C).length ≤ b.length := by
    intro a
    induction a with
    | nil => intro b C; simp [projStepVO]
    | cons a as ih =>
      intro b C
      cases b with
      | nil => simp [projStepVO]
      | cons b bs =>
        cases C with
        | nil => simp [projStepVO]
        | cons c cs => simp only [projStepVO, List.length_cons]; have := ih bs cs; omega
  have h1 : i < x₀.length := by omega
  have h2 : i < g₀.length := by have := hp x₀ g₀ pb.C; omega
  have := certified_coord γ tol x₀ g₀ _ pb.C hcert i h1 h2 (by omega) hi
  rw [← hxe] at this
  exact this

/-! ### PANOC satisfies the inner contract -/
section panoc
open Alpaqa.Panoc Alpaqa.Props.C05
variable {Dd : Type}

/-- The problem oracles PANOC is handed (for multipliers `y` and penalties `Σ`) equal the closed
    forms: `eval_ψ`'s `ŷ` (`Props/C04.yhat_closed_kernel`), `eval_grad_L` (`grad_L_closed`), and the
    prox step is the box projection step (`Props/C15`, `Props/C01.projStepO_some`). -/
structure OracleContract (pb : ProblemCF α) (Pf : Vec α → Vec α → Panoc.Problem α) : Prop where
  yhat : ∀ y Sig x, ((Pf y Sig).psi x).2 = yhatCF pb x y Sig
  gradL : ∀ y Sig x yh, (Pf y Sig).gradL x yh = pb.gradL x yh
  prox : ∀ y Sig γ x g, ((Pf y Sig).prox γ x g).2.1 = vadd x (projStepVO γ x g pb.C) ∧
    ((Pf y Sig).prox γ x g).2.2 = projStepVO γ x g pb.C

/-- PANOC's parameters for an inner call: tolerance and `always_overwrite_results` from the options -/
def panocParams (pr : Panoc.Params α) (c : InnerCall α) : Panoc.Params α :=
  { pr with tolerance := c.opts.tolerance, alwaysOverwrite := c.opts.always_overwrite_results }

/-- the PANOC run an inner call triggers: tolerance and `always_overwrite_results` from the options,
    `y`, `Σ`, `x`, the `err_z` buffer from the call; stop schedule and clock are arbitrary oracles -/
def panocRun (Pf : Vec α → Vec α → Panoc.Problem α) (dir : Direction Dd α) (d0 : Dd)
    (pr : Panoc.Params α) (stop : InnerCall α → Nat → Bool) (oot : InnerCall α → Bool)
    (gV : Vec α) (gS iS : α) (c : InnerCall α) : Panoc.Result α Dd :=
  Panoc.run (Pf c.y c.sigma) dir d0 (panocParams pr c)
    (stop c) (oot c) c.x c.y c.sigma c.errBuf gV gS iS

/-- `PANOCSolver::operator()` as an inner-solver function of the ALM model. -/
def panocInner (Pf : Vec α → Vec α → Panoc.Problem α) (dir : Direction Dd α) (d0 : Dd)
    (pr : Panoc.Params α) (stop : InnerCall α → Nat → Bool) (oot clock : InnerCall α → Bool)
    (gV : Vec α) (gS iS : α) (c : InnerCall α) : InnerResult α (Panoc.Stats α) :=
  let r := panocRun Pf dir d0 pr stop oot gV gS iS c
  ⟨r.stats.status, r.stats.eps, r.x, r.y, r.errz, r.stats, clock c⟩

/-- **PANOC satisfies `InnerContract`** for the ApproxKKT criterion (the default) with lazy gradient
    evaluation (`eager_gradient_eval = false`, the default), for every direction provider, stop
    schedule, clock, every `L0`, and parameters with `0 ≤ min_linesearch_coefficient`,
    `0 < Lγ_factor`, `0 < L_min`, `0 < L_max` (`Props/C05.ParamsOK`, needed for `γ > 0`).
    `_partial`, because two things are assumed rather than proved:
    * `hfuel` — the model's explicit line-search / loop fuel does not run out (asserted by the trace
      replay on every recorded run; `Props/C19_Panoc` bounds the main loop for monotone stop flags);
    * `hsize` — `x`, `y`, `err_z` keep their sizes: in the C++ they are `rvec`s written in place, the
      list model would need size contracts for every oracle to see it.
    Everything else — which iterate is written back, that `ε` is the ApproxKKT criterion of exactly
    that iterate with `∇ψ(x̂) = ∇L(x̂, ŷ)` (the new `∇ψ(x̂)`-buffer invariant of
    `Proofs/C01Panoc.lean`), `γ > 0`, `y = ŷ(x̂)`, `err_z = (ŷ − y)/Σ`, `Converged ⇒ ε ≤ tolerance` — is
    proved from the loop model, `Props/C03`, `Props/C05`, `Props/C06`. -/
theorem panoc_satisfies_inner_contract_partial (pb : ProblemCF α)
    (Pf : Vec α → Vec α → Panoc.Problem α) (hO : OracleContract pb Pf)
    (dir : Direction Dd α) (d0 : Dd) (pr : Panoc.Params α) (hp : ParamsOK pr)
    (hcrit : pr.stopCrit = .ApproxKKT) (hlazy : pr.eagerGradientEval = false)
    (stop : InnerCall α → Nat → Bool) (oot clock : InnerCall α → Bool) (gV : Vec α) (gS iS : α)
    (hfuel : ∀ c, (panocRun Pf dir d0 pr stop oot gV gS iS c).fuelOut = false)
    (hsize : ∀ c, (panocRun Pf dir d0 pr stop oot gV gS iS c).x.length = c.x.length ∧
      (panocRun Pf dir d0 pr stop oot gV gS iS c).y.length = c.y.length ∧
      (panocRun Pf dir d0 pr stop oot gV gS iS c).errz.length = c.errBuf.length) :
    InnerContract pb (panocInner Pf dir d0 pr stop oot clock gV gS iS) := by
  -- what a converged run looks like
  have key : ∀ c, (panocRun Pf dir d0 pr stop oot gV gS iS c).stats.status = .Converged →
      ∃ it : Iterate α, 0 < it.gamma ∧
        it.xhat = vadd it.x (projStepVO it.gamma it.x it.gradPsi pb.C) ∧
        it.p = projStepVO it.gamma it.x it.gradPsi pb.C ∧
        it.yhat = yhatCF pb it.xhat c.y c.sigma ∧
        it.gradPsiHat = pb.gradL it.xhat it.yhat ∧
        (panocRun Pf dir d0 pr stop oot gV gS iS c).x = it.xhat ∧
        (panocRun Pf dir d0 pr stop oot gV gS iS c).y = it.yhat ∧
        (panocRun Pf dir d0 pr stop oot gV gS iS c).stats.eps =
          stopCrit_ApproxKKT (fun _ v _ => (v, v)) it.p it.gamma it.x it.xhat it.yhat it.gradPsi
            it.gradPsiHat ∧
        (0 < c.errBuf.length → (panocRun Pf dir d0 pr stop oot gV gS iS c).errz =
          vdiv (vsub it.yhat c.y) c.sigma) ∧
        (0 < c.opts.tolerance →
          (panocRun Pf dir d0 pr stop oot gV gS iS c).stats.eps ≤ c.opts.tolerance) := by
    intro c hc
    have hf := hfuel c
    unfold panocRun at hc hf ⊢
    generalize hpr' : panocParams pr c = pr' at hc hf ⊢
    have hp' : ParamsOK pr' := by subst hpr'; exact ⟨hp.minLs, hp.lgf, hp.lmin, hp.lmax⟩
    have hcrit' : pr'.stopCrit = .ApproxKKT := by subst hpr'; exact hcrit
    have hlazy' : pr'.eagerGradientEval = false := by subst hpr'; exact hlazy
    have htol' : pr'.tolerance = c.opts.tolerance := by subst hpr'; rfl
    rcases run_exit_inv (Pf c.y c.sigma) dir d0 pr' hp' (stop c) (oot c) c.x c.y c.sigma c.errBuf gV gS iS hf
      with hnf | ⟨s', hinv, hrun⟩
    · rw [hnf] at hc; cases hc
    · set P := Pf c.y c.sigma with hP
      set sh := (headStep P pr' (stop c) (oot c) s').1 with hsh
      have hgood := (headStep_good P pr' (stop c) (oot c) s' hinv.good).1
      have hgh := headStep_gh P pr' (stop c) (oot c) s' hinv.grad
      have hloop := headStep_inv False True P pr' (stop c) (oot c) s' hinv.loop
      have hst := headStep_status P pr' (stop c) (oot c) s'
      rw [hrun] at hc ⊢
      have hfields := exitBlock_fields P pr' sh (headStep P pr' (stop c) (oot c) s').2.1
        (headStep P pr' (stop c) (oot c) s').2.2 c.x c.y c.sigma c.errBuf
      rw [hfields.1] at hc
      have hok := exitBlock_ok P pr' sh (headStep P pr' (stop c) (oot c) s').2.1
        (headStep P pr' (stop c) (oot c) s').2.2 c.x c.y c.sigma c.errBuf hgood
      have hw : (exitBlock P pr' sh (headStep P pr' (stop c) (oot c) s').2.1
          (headStep P pr' (stop c) (oot c) s').2.2 c.x c.y c.sigma c.errBuf).wrote = true := by
        rw [hok.2.1, hc]; rfl
      obtain ⟨it, _, hx, hxh, hpp, hg, hgr, hgrh, _, hsame, hwr⟩ := exitBlock_final P pr' sh
        (headStep P pr' (stop c) (oot c) s').2.1 (headStep P pr' (stop c) (oot c) s').2.2
        c.x c.y c.sigma c.errBuf
      have hit : it = sh.curr := hsame (by rw [hlazy']; simp)
      have hprox := hO.prox c.y c.sigma sh.curr.gamma sh.curr.x sh.curr.gradPsi
      have hyh : sh.curr.yhat = yhatCF pb sh.curr.xhat c.y c.sigma := by
        rw [hgood.2 hlazy', hO.yhat]
      have hflag : sh.curr.haveGradHat = true := hgh.2 (by rw [hcrit']; rfl)
      have hgL : sh.curr.gradPsiHat = pb.gradL sh.curr.xhat sh.curr.yhat := by
        rw [hgh.1 hlazy' hflag, hO.gradL]
      have heps : (headStep P pr' (stop c) (oot c) s').2.1 =
          stopCrit_ApproxKKT (fun _ v _ => (v, v)) sh.curr.p sh.curr.gamma sh.curr.x sh.curr.xhat
            sh.curr.yhat sh.curr.gradPsi sh.curr.gradPsiHat := by
        rw [hst.1]; unfold epsOf; rw [hcrit']; rfl
      refine ⟨sh.curr, hloop.gok.1, ?_, ?_, hyh, hgL, ?_, ?_, ?_, ?_, ?_⟩
      · rw [hgood.1.2.1]; exact hprox.1
      · rw [hgood.1.2.2]; exact hprox.2
      · rw [(hwr hw).1, hit]
      · rw [(hwr hw).2, hit]
      · rw [hfields.2.1]; exact heps
      · intro hl
        have := (hok.1.1 hw).2.2
        rw [if_pos hl, (hwr hw).2, hit] at this
        exact this
      · intro ht
        rw [hfields.2.1]
        have hconvd : (headStep P pr' (stop c) (oot c) s').2.2 = .Converged := hc
        rw [hst.2] at hconvd
        unfold statusOf at hconvd
        have := (Alpaqa.Props.C06.converged_iff _ _ _ _ _ _ _ _).mp hconvd
        unfold Alpaqa.Props.C06.effTol at this
        rw [htol', if_pos ht] at this
        exact this
  refine ⟨?_, ?_, fun c => (hsize c).1, fun c => (hsize c).2.1, fun c => (hsize c).2.2⟩
  · intro c hc
    obtain ⟨it, hγ, hxh, hpp, hyh, hgL, hx, hy, heps, herr, _⟩ := key c hc
    refine ⟨it.gamma, it.x, it.gradPsi, hγ, ?_, ?_, ?_, ?_⟩
    · show (panocRun Pf dir d0 pr stop oot gV gS iS c).x = _
      rw [hx]; exact hxh
    · show (panocRun Pf dir d0 pr stop oot gV gS iS c).stats.eps = stopCrit_ApproxKKT _ _ _ _
        (panocRun Pf dir d0 pr stop oot gV gS iS c).x (panocRun Pf dir d0 pr stop oot gV gS iS c).y _
        (pb.gradL (panocRun Pf dir d0 pr stop oot gV gS iS c).x (panocRun Pf dir d0 pr stop oot gV gS iS c).y)
      rw [heps, hx, hy, ← hgL, ← hpp]
    · show (panocRun Pf dir d0 pr stop oot gV gS iS c).y =
        yhatCF pb (panocRun Pf dir d0 pr stop oot gV gS iS c).x c.y c.sigma
      rw [hy, hx]; exact hyh
    · intro hl
      show (panocRun Pf dir d0 pr stop oot gV gS iS c).errz =
        vdiv (vsub (panocRun Pf dir d0 pr stop oot gV gS iS c).y c.y) c.sigma
      rw [herr hl, hy]
  · intro c ht hc
    obtain ⟨_, _, _, _, _, _, _, _, _, _, htol⟩ := key c hc
    exact htol ht

end panoc

/-! ### Non-vacuity -/
section examples

/-- A (poor but honest) inner solver for *any* problem: one projected-gradient step with `γ = 1`
    from the point it is given, `ŷ`, `err_z` and the ApproxKKT residual computed from the closed
    forms; `Converged` iff the residual is within the tolerance (and the sizes fit). -/
def oneStepInner (pb : ProblemCF α) (c : InnerCall α) : InnerResult α Nat :=
  let gψ := pb.gradL c.x (yhatCF pb c.x c.y c.sigma)
  let p := projStepVO 1 c.x gψ pb.C
  let xh := vadd c.x p
  let yh := yhatCF pb xh c.y c.sigma
  let ε := stopCrit_ApproxKKT (fun _ v _ => (v, v)) p 1 c.x xh yh gψ (pb.gradL xh yh)
  let ez := vdiv (vsub yh c.y) c.sigma
  if ε ≤ c.opts.tolerance ∧ xh.length = c.x.length ∧ ez.length = c.errBuf.length then
    ⟨.Converged, ε, xh, yh, ez, 1, false⟩
  else ⟨.MaxIter, ε, c.x, c.y, c.errBuf, 1, false⟩

/-- `InnerContract` is satisfiable for every problem. -/
theorem oneStepInner_contract (pb : ProblemCF α) : InnerContract pb (oneStepInner pb) := by
  refine ⟨?_, ?_, ?_, ?_, ?_⟩
  · intro c hc
    unfold oneStepInner at hc ⊢
    simp only [] at hc ⊢
    split_ifs at hc ⊢ with h
    exact ⟨1, c.x, _, one_pos, rfl, rfl, rfl, fun _ => rfl⟩
  · intro c _ hc
    unfold oneStepInner at hc ⊢
    simp only [] at hc ⊢
    split_ifs at hc ⊢ with h
    exact h.1
  · intro c
    unfold oneStepInner; simp only []
    split_ifs with h
    · exact h.2.1
    · rfl
  · intro c
    unfold oneStepInner; simp only []
    split_ifs with h
    · simp [yhatCF]
    · rfl
  · intro c
    unfold oneStepInner; simp only []
    split_ifs with h
    · exact h.2.2
    · rfl

local instance instRealLikeRat : RealLike ℚ := ⟨id, fun _ => false, fun _ => true⟩
local instance : Alpaqa.Proofs.C07.NoNaN ℚ := ⟨fun _ => rfl⟩

/-- minimise `(x − 2)²` subject to `x ≥ 0` (box `C`) and `g(x) = x ≤ 1` (box `D`);
    `∇L(x, y) = 2x − 4 + y`.  Solution `x = 1`, `y = 2`. -/
def pbEx : ProblemCF ℚ :=
  ⟨[(some 0, none)], [(none, some 1)], fun x => [vget x 0], fun x y => [2 * vget x 0 - 4 + vget y 0]⟩

/-- the box hypotheses of `alm_converged_certifies_kkt` hold for it -/
example : (∀ b ∈ pbEx.C, ∀ l u, b.1 = some l → b.2 = some u → l ≤ u) ∧
    (∀ i, i < 1 → BndOK (lbAt pbEx.D i) (ubAt pbEx.D i)) := by
  refine ⟨?_, ?_⟩
  · intro b hb l u h1 h2
    simp only [pbEx, List.mem_singleton] at hb
    subst hb; cases h2
  · intro i hi a b ha hb
    have : i = 0 := by omega
    subst this
    simp [pbEx, lbAt] at ha

/-- an inner call at the solution: the one-step solver reports `Converged` with `ε = 0`,
    `x = 1`, `y = 2`, `err_z = 0` -/
example : (oneStepInner pbEx ⟨[1], [2], [1], [0], ⟨true, 1/10, 0, false⟩⟩).status = .Converged ∧
    (oneStepInner pbEx ⟨[1], [2], [1], [0], ⟨true, 1/10, 0, false⟩⟩).x = [1] ∧
    (oneStepInner pbEx ⟨[1], [2], [1], [0], ⟨true, 1/10, 0, false⟩⟩).y = [2] ∧
    (oneStepInner pbEx ⟨[1], [2], [1], [0], ⟨true, 1/10, 0, false⟩⟩).errz = [0] := by
  simp [oneStepInner, pbEx, yhatCF, yhat1, pd1, proj1, maxLb, minUb, emin, emax, lbAt, ubAt, vget,
    projStepVO, projStepO, vadd, vsub, vdiv, vzip, smul, stopCrit_ApproxKKT, normInf, vabs, eabs, redux]
  norm_num

/-- and the certificate it yields is the expected one: `−∇L(1, 2) = 0 ∈ N_C(1)`, `g(1) = 1 ∈ D`,
    `y = 2 > 0` on the active upper bound -/
example : KKTCert pbEx 1 (1/10) (1/100) [1] [2] := by
  have h := cert_of_converged_call pbEx (oneStepInner pbEx) (oneStepInner_contract pbEx) 1 (1/10) (1/100)
    ⟨[1], [2], [1], [0], ⟨true, 1/10, 0, false⟩⟩
    (by intro b hb l u h1 h2; simp only [pbEx, List.mem_singleton] at hb; subst hb; cases h2)
    (by intro i hi a b ha hb; have : i = 0 := by omega
        subst this; simp [pbEx, lbAt] at ha)
    rfl rfl rfl (by intro σ hσ; simp at hσ; subst hσ; norm_num)
  have e : oneStepInner pbEx ⟨[1], [2], [1], [0], ⟨true, 1/10, 0, false⟩⟩ =
      ⟨.Converged, 0, [1], [2], [0], 1, false⟩ := by
    simp [oneStepInner, pbEx, yhatCF, yhat1, pd1, proj1, maxLb, minUb, emin, emax, lbAt, ubAt, vget,
      projStepVO, projStepO, vadd, vsub, vdiv, vzip, smul, stopCrit_ApproxKKT, normInf, vabs, eabs, redux]
    norm_num
  rw [e] at h
  exact h rfl (by norm_num) (by simp [normInf, vabs, eabs, redux])

end examples

end Alpaqa.Props.C01Alm
