/-
  DIRS — what the PANOC direction providers promise (extra stage of C09).

  The theorems are about
    * `Alpaqa/Gen/Dirs.lean` — every argument list, branch condition and componentwise statement of
      the four wrappers (noop.hpp, lbfgs.hpp, anderson.hpp, structured-lbfgs.hpp/.tpp) and of
      `calc_augmented_lagrangian_hessian_prod_fd`, regenerated from /repo on every run;
    * the hand-written skeleton `Alpaqa/Model/Directions.lean` that connects them to the C09 model of
      `LBFGS`, the C10 model of `AndersonAccel` and C15's `inactiveIndices`
      (tied by bit-exact op-sequence correspondence and by the oracle-free PANOC replay);
    * the PANOC loop model `Alpaqa/Model/Panoc.lean` instantiated with these providers
      (`Alpaqa/Model/DirectionsPanoc.lean`).
  They hold over every linearly ordered field, for every dimension, memory, parameter value,
  problem oracle and history (no bound).

  §0  the generated wrappers in closed form (these stop compiling when a wrapper changes)
  §1  NoopDirection: never a direction; PANOC with it is the proximal-gradient method
  §2  LBFGSDirection: pairs `(xₙ−xₖ, pₖ−pₙ)`, `apply = H·p` with the C09 dense operator,
      `changed_γ` rescales (`H ↦ (γ_old/γ)·H`) or flushes
  §3  StructuredLBFGSDirection: `K`-part `q_K = p_K`, `J`-part = restricted dense operator applied to
      the corrected right-hand side, `J` from C15, failure policy
  §4  AndersonDirection: `q = x_AA − x`, `x_AA` the affine combination of C10 with least-squares
      coefficients; the provider's operations stay inside C10's reachable histories
-/
import Alpaqa.Proofs.Directions
import Alpaqa.Props.C10
import Alpaqa.Props.C15
import Mathlib.Tactic.NormNum

namespace Alpaqa.Props.Directions
open Alpaqa Alpaqa.Gen Alpaqa.C09 Alpaqa.Directions
set_option linter.unusedSectionVars false
set_option linter.unusedVariables false

variable {α : Type} [Field α] [LinearOrder α] [IsStrictOrderedRing α]
  [RealLike α] [PowLike α] [HasNaN α]

/-! ## §0 the generated wrappers in closed form -/

/-- No shipped provider has an initial direction. -/
theorem hasInitial_false :
    noopHasInitial = false ∧ lbfgsDirHasInitial = false ∧ slbfgsHasInitial = false ∧
    andersonDirHasInitial = false := ⟨rfl, rfl, rfl, rfl⟩

/-- `NoopDirection::update` reports success, `apply` failure; `AndersonDirection::update` reports
    success (the accelerator is updated inside `apply`). -/
theorem trivial_flags : noopUpdate = true ∧ noopApply = false ∧ andersonDirUpdate = true :=
  ⟨rfl, rfl, rfl⟩

/-- `LBFGSDirection::update` hands `(xₖ, xₙₑₓₜ, pₖ, pₙₑₓₜ)` to `LBFGS::update` with
    `Sign::Negative`, not forced. -/
theorem lbfgsDirUpdateArgs_eq (γk γn : α) (xk xn pk pn gk gn : Vec α) :
    lbfgsDirUpdateArgs γk γn xk xn pk pn gk gn = (xk, xn, pk, pn, false, false) := rfl

/-- `StructuredLBFGSDirection::update` hands `(xₖ, xₙₑₓₜ, ∇ψₖ, ∇ψₙₑₓₜ)` with `Sign::Positive`,
    forced. -/
theorem slbfgsUpdateArgs_eq (γk γn : α) (xk xn pk pn gk gn : Vec α) :
    slbfgsUpdateArgs γk γn xk xn pk pn gk gn = (xk, xn, gk, gn, true, true) := rfl

/-- `LBFGSDirection::apply` hands `pₖ` and the current step size to `LBFGS::apply`. -/
theorem lbfgsDirApplyArgs_eq (γ : α) (x xh p g q0 : Vec α) :
    lbfgsDirApplyArgs γ x xh p g q0 = (p, γ) := rfl

/-- `changed_γ` of the L-BFGS and Anderson providers: rescale by `γ_new / γ_old` when
    `rescale_on_step_size_changes`, otherwise flush. -/
theorem changedGamma_selector (r : Bool) (γ old : α) :
    lbfgsDirChangedGamma r γ old = (if r then some (γ / old) else none) ∧
    andersonDirChangedGamma r γ old = (if r then some (γ / old) else none) := ⟨rfl, rfl⟩

/-- `AndersonDirection`: `initialize(x̂₀, p₀)`, `compute(x̂ₖ, pₖ, qₖ); qₖ -= xₖ; return true`. -/
theorem andersonDir_args (compute : Vec α → Vec α → Vec α) (y Sig : Vec α) (γ : α)
    (x xh p g q0 : Vec α) :
    andersonDirInitArgs y Sig γ x xh p g = (xh, p) ∧ andersonDirComputeArgs γ x xh p g = (xh, p) ∧
    andersonDirApply compute γ x xh p g q0 = (vsub (compute xh p) x, true) := ⟨rfl, rfl, rfl⟩

/-- The componentwise statements of `StructuredLBFGSDirection::apply`. -/
theorem slbfgs_kernels (γ hvf pj Hj qj : α) (x xh p g q : Vec α) :
    slbfgsRhsFull γ x xh p g = smul (1 / γ) p ∧ slbfgsQInit γ x xh p g = p ∧
    slbfgsRhsJ γ pj = 1 / γ * pj ∧ slbfgsRhsJHess γ hvf pj Hj = 1 / γ * pj - hvf * Hj ∧
    slbfgsFailureScaleJ γ qj = qj * γ ∧ slbfgsFailureScaleFull γ q = smul γ q ∧
    slbfgsFullGamma γ = γ ∧ slbfgsMaskedGamma γ = γ := ⟨rfl, rfl, rfl, rfl, rfl, rfl, rfl, rfl⟩

/-- The branch conditions of `StructuredLBFGSDirection::apply` and of its failure `switch`. -/
theorem slbfgs_branches (nJ n : Nat) (hvf : α) (ok : Bool) :
    slbfgsNoFree nJ n = (nJ == 0) ∧ slbfgsAllFree nJ n = (nJ == n) ∧
    slbfgsHessEnabled hvf = (hvf != 0) ∧
    slbfgsFailureReturn .FallbackToProjectedGradient ok = ok ∧
    slbfgsFailureReturn .UseScaledLBFGSInput ok = true ∧
    slbfgsFailureScales .FallbackToProjectedGradient = false ∧
    slbfgsFailureScales .UseScaledLBFGSInput = true ∧
    slbfgsFailureScaleAll nJ n = (nJ == n) := ⟨rfl, rfl, rfl, rfl, rfl, rfl, rfl, rfl⟩

/-- Which Hessian-vector product `approximate_hessian_vec_term` uses. -/
theorem slbfgs_hv_selection (fd fa hp : Bool) :
    slbfgsHvFD fd fa hp = fd ∧ slbfgsHvLagrangianOnly fd fa hp = !fa ∧
    slbfgsHvUsesHessPsi fd fa hp = hp ∧ slbfgsHvAddsPenalty fd fa hp = fa := ⟨rfl, rfl, rfl, rfl⟩

/-- The penalty loop: `ζ = gᵢ + yᵢ/Σᵢ`, constraint `i` contributes iff `ζ` is *not* strictly inside
    `D`, with `t = Σᵢ·⟨∇gᵢ, q⟩` and `HqK(j) += ∇gᵢ(j)·t`. -/
theorem slbfgs_penalty_kernels (gi yi Si lb ub ζ Hj wj t : α) (w q : Vec α) (b : Bool) :
    slbfgsZeta gi yi Si = gi + yi / Si ∧
    (slbfgsConstrInactive lb ub ζ = true ↔ lb < ζ ∧ ζ < ub) ∧
    slbfgsPenaltySkip b = b ∧ slbfgsPenaltyT Si w q = Si * dot w q ∧
    slbfgsPenaltyAcc Hj wj t = Hj + wj * t := by
  refine ⟨rfl, ?_, ?_, rfl, rfl⟩
  · simp [slbfgsConstrInactive]
  · cases b <;> rfl

/-- `initialize` throws exactly when the inactive-index oracle is missing, or a Hessian-vector
    term is requested (`hessian_vec_factor ≠ 0`) without finite differences and the problem lacks
    the functions the selected variant needs. -/
theorem slbfgsInitThrows_iff (hvf : α) (fd fa pI pL pP pD pG : Bool) :
    slbfgsInitThrows hvf fd fa pI pL pP pD pG = true ↔
      pI = false ∨ (hvf ≠ 0 ∧ fd = false ∧
        ((fa = false ∧ pL = false) ∨
         (fa = true ∧ ((pL = false ∧ pP = false) ∨ (pP = false ∧ (pD = false ∨ pG = false)))))) := by
  unfold slbfgsInitThrows
  by_cases h : hvf = 0
  · subst h; cases pI <;> simp
  · have : (hvf != 0) = true := by simpa using h
    rw [this]
    cases fd <;> cases fa <;> cases pI <;> cases pL <;> cases pP <;> cases pD <;> cases pG <;>
      simp [h]

/-- `calc_augmented_lagrangian_hessian_prod_fd`: forward difference of `∇ψ` with step
    `h = ∛ε·(1 + ‖x‖)`. -/
theorem fdHessProd_eq (gradPsi : Vec α → Vec α) (ce : α) (x g v : Vec α) :
    fdHessProd gradPsi ce x g v =
      vdivs (vsub (gradPsi (vadd x (smul (ce * (1 + norm2 x)) v))) g) (ce * (1 + norm2 x)) := rfl

/-! ## §1 NoopDirection -/

/-- The Noop provider never has a direction: no initial one, `apply` fails for every input and
    leaves `q` alone, `update` always "succeeds", nothing has state. -/
theorem noop_never_has_direction (s : Noop.State) (γ γ' : α) (x xh p g q0 xk xn pk pn gk gn : Vec α) :
    Noop.hasInitial s = false ∧ Noop.apply s γ x xh p g q0 = .done s false q0 ∧
    Noop.update s γ γ' xk xn pk pn gk gn = (s, true) ∧ Noop.changedGamma s γ γ' = s ∧
    Noop.reset s = s := ⟨rfl, rfl, rfl, rfl, rfl⟩

open Alpaqa.Panoc in
/-- In PANOC the Noop provider never offers an accelerated step: `τ_init = 0` in every iteration,
    and the `q` buffer is never written. -/
theorem noop_directionStage (s : St α (Latch Noop.State)) :
    (directionStage noopDir s).2.2.2.1 = 0 ∧ (directionStage noopDir s).2.2.1 = s.q := by
  unfold directionStage noopDir
  simp only [Noop.hasInitial, Noop.apply, latchApply, hasInitial_false.1, trivial_flags.2.1,
    Bool.or_false]
  split_ifs <;> simp_all

open Alpaqa.Panoc in
/-- Invariant of a PANOC run with the Noop provider. -/
def NoTau (s : St α (Latch Noop.State)) : Prop :=
  (∀ cb ∈ s.cbs, cb.status = .Busy → cb.tau = 0) ∧ s.stats.countTau = 0 ∧ s.stats.sumTau = 0 ∧
  s.stats.tau1Accepted = 0

open Alpaqa.Panoc in
theorem noop_iterBody (P : Problem α) (pr : Panoc.Params α) (stop : Nat → Bool)
    (s : St α (Latch Noop.State)) (eps : α) (h : NoTau s) :
    NoTau (iterBody P noopDir pr stop s eps) := by
  obtain ⟨hc, h1, h2, h3⟩ := h
  have hτ := (noop_directionStage s).1
  have hls := iterLs_tau_zero P noopDir pr stop s hτ
  have hst := iterBody_tau_stats P noopDir pr stop s eps
  by_cases hi : stop (iterLs P noopDir pr stop s).tick = true
  · obtain ⟨e1, e2, e3⟩ := hst.1 hi
    refine ⟨?_, by rw [e1, h1], by rw [e2, h2], by rw [e3, h3]⟩
    rw [(iterBody_interrupted P noopDir pr stop s eps hi).2.2.1]
    exact hc
  · have hi' : stop (iterLs P noopDir pr stop s).tick = false := by simpa using hi
    obtain ⟨e1, e2, e3⟩ := hst.2 hi'
    refine ⟨?_, ?_, ?_, ?_⟩
    · obtain ⟨cb, hcb, _, _, _, _, htau, _⟩ := (iterBody_advanced P noopDir pr stop s eps hi').2.2.2.2.1
      rw [hcb]
      intro c hcm hb
      rcases List.mem_cons.mp hcm with rfl | hm
      · rw [htau, hls]
      · exact hc c hm hb
    · rw [e1, h1, hτ]; simp
    · rw [e2, h2, hls]; simp
    · rw [e3, h3, hls]; simp

open Alpaqa.Panoc in
theorem noop_mainLoop (P : Problem α) (pr : Panoc.Params α) (stop : Nat → Bool) (oot : Bool)
    (x0 y Sig errz0 : Vec α) (fuel : Nat) (s : St α (Latch Noop.State)) (h : NoTau s) :
    (∀ cb ∈ (mainLoop P noopDir pr stop oot x0 y Sig errz0 fuel s).callbacks,
        cb.status = .Busy → cb.tau = 0) ∧
    (mainLoop P noopDir pr stop oot x0 y Sig errz0 fuel s).stats.countTau = 0 ∧
    (mainLoop P noopDir pr stop oot x0 y Sig errz0 fuel s).stats.sumTau = 0 ∧
    (mainLoop P noopDir pr stop oot x0 y Sig errz0 fuel s).stats.tau1Accepted = 0 := by
  have exit : ∀ (s' : St α (Latch Noop.State)) (eps : α) (st : SolverStatus), NoTau s' →
      st ≠ .Busy →
      (∀ cb ∈ (exitBlock P pr s' eps st x0 y Sig errz0).callbacks, cb.status = .Busy → cb.tau = 0) ∧
      (exitBlock P pr s' eps st x0 y Sig errz0).stats.countTau = 0 ∧
      (exitBlock P pr s' eps st x0 y Sig errz0).stats.sumTau = 0 ∧
      (exitBlock P pr s' eps st x0 y Sig errz0).stats.tau1Accepted = 0 := by
    intro s' eps st ⟨hc, h1, h2, h3⟩ hne
    obtain ⟨e1, e2, e3⟩ := exitBlock_tau_stats P pr s' eps st x0 y Sig errz0
    refine ⟨?_, by rw [e1, h1], by rw [e2, h2], by rw [e3, h3]⟩
    rw [exitBlock_callbacks]
    intro cb hm hb
    rcases List.mem_append.mp hm with hm | hm
    · exact hc cb (List.mem_reverse.mp hm) hb
    · rw [List.mem_singleton] at hm
      subst hm
      exact absurd hb hne
  induction fuel generalizing s with
  | zero =>
    unfold mainLoop
    exact exit s _ .Exception h (by decide)
  | succ f ih =>
    unfold mainLoop
    simp only []
    have hh : NoTau (headStep P pr stop oot s).1 := by
      obtain ⟨hc, h1, h2, h3⟩ := h
      refine ⟨?_, ?_, ?_, ?_⟩
      · rw [(headStep_fields P pr stop oot s).2.2.1]; exact hc
      · rw [headStep_stats]; exact h1
      · rw [headStep_stats]; exact h2
      · rw [headStep_stats]; exact h3
    split_ifs with hb
    · exact exit _ _ _ hh (by simpa using hb)
    · exact ih _ (noop_iterBody P pr stop _ _ hh)

open Alpaqa.Panoc in
/-- **PANOC with `NoopDirection` is the plain proximal-gradient method**: for every problem, every
    parameter set, every stop schedule, every iteration reports `τ = 0`, no accelerated step is ever
    counted (`count_τ = 0`, `sum_τ = 0`, `τ_1_accepted = 0`). -/
theorem noop_panoc_is_proximal_gradient (P : Problem α) (pr : Panoc.Params α) (stop : Nat → Bool)
    (oot : Bool) (x0 y Sig errz0 gV : Vec α) (gS : α) :
    (∀ cb ∈ (run P noopDir ⟨(), false⟩ pr stop oot x0 y Sig errz0 gV gS).callbacks,
        cb.status = .Busy → cb.tau = 0) ∧
    (run P noopDir ⟨(), false⟩ pr stop oot x0 y Sig errz0 gV gS).stats.countTau = 0 ∧
    (run P noopDir ⟨(), false⟩ pr stop oot x0 y Sig errz0 gV gS).stats.sumTau = 0 ∧
    (run P noopDir ⟨(), false⟩ pr stop oot x0 y Sig errz0 gV gS).stats.tau1Accepted = 0 := by
  unfold run
  cases hi : initState P (⟨(), false⟩ : Latch Noop.State) pr x0 gV gS with
  | inl t => simp [stats0]
  | inr s =>
    simp only []
    apply noop_mainLoop
    unfold initState at hi
    simp only [] at hi
    split_ifs at hi <;> (cases hi; exact ⟨by simp, rfl, rfl, rfl⟩)

open Alpaqa.Panoc in
/-- … and a completed iteration moves to the proximal-gradient point: `x_{k+1} = x̂_k`
    (step size positive with `γ·L = Lγ_factor`, which C05 shows is invariant along a run). -/
theorem noop_step_is_prox_step (P : Problem α) (pr : Panoc.Params α) (stop : Nat → Bool)
    (s : St α (Latch Noop.State)) (eps : α) (hg : GammaOK pr s.curr) (hmin : 0 ≤ pr.minLsCoef)
    (hf : (iterLs P noopDir pr stop s).fuelOut = false)
    (hs : stop (iterLs P noopDir pr stop s).tick = false) :
    (iterBody P noopDir pr stop s eps).curr.x = s.curr.xhat ∧
    (iterBody P noopDir pr stop s eps).curr.psix = s.curr.psixhat := by
  have hd := iterLs_done P noopDir pr stop s hg hmin hf hs
  have hls := iterLs_tau_zero P noopDir pr stop s (noop_directionStage s).1
  rw [(iterBody_advanced P noopDir pr stop s eps hs).2.2.1]
  exact hd.inv.safe (by rw [hd.prev, hls])

/-! ## §2 LBFGSDirection -/

/-- `update` offers the pair `s = xₙₑₓₜ − xₖ`, `y = pₖ − pₙₑₓₜ` to the L-BFGS buffer, un-forced. -/
theorem lbfgs_update_pair (c : LbfgsCfg α) (st : State α) (γk γn : α) (xk xn pk pn gk gn : Vec α) :
    Lbfgs.update c st γk γn xk xn pk pn gk gn =
      updateSy c.accel st (vsub xn xk) (vsub pk pn)
        (if cbfgsEnabled c.accel.cbfgsAlpha c.accel.cbfgsEps then sqNorm pn else 0) false := rfl

/-- … so it is stored exactly when it passes the curvature test `update_valid` (C09 (b)), and a
    rejected pair changes nothing. -/
theorem lbfgs_update_stored_iff (c : LbfgsCfg α) (st : State α) (γk γn : α)
    (xk xn pk pn gk gn : Vec α) :
    ((Lbfgs.update c st γk γn xk xn pk pn gk gn).2 = true ↔
      updateValid c.accel (dot (vsub pk pn) (vsub xn xk)) (sqNorm (vsub xn xk))
        (if cbfgsEnabled c.accel.cbfgsAlpha c.accel.cbfgsEps then sqNorm pn else 0) = true) ∧
    ((Lbfgs.update c st γk γn xk xn pk pn gk gn).2 = false →
      (Lbfgs.update c st γk γn xk xn pk pn gk gn).1 = st) := by
  rw [lbfgs_update_pair]
  refine ⟨?_, Props.C09.not_stored_unchanged _ _ _ _ _ _⟩
  rw [Props.C09.stored_iff]
  simp

/-- `initialize` gives an empty history of `memory` slots (throws iff `memory < 1`). -/
theorem lbfgs_init (c : LbfgsCfg α) (n : Nat) (st : State α) :
    (c.accel.memory < 1 → Lbfgs.init c n st = .threw) ∧
    (1 ≤ c.accel.memory → ∃ s, Lbfgs.init c n st = .ok s ∧ Props.C09.Good c.accel s ∧ s.abs = [] ∧
      s.n = n) := by
  obtain ⟨h1, h2⟩ := Props.C09.resize_spec c.accel n
  constructor
  · intro h; simp [Lbfgs.init, h1 h]
  · intro h
    obtain ⟨s, e, hI, ha, hm, hn⟩ := h2 h
    refine ⟨s, by simp [Lbfgs.init, e], ⟨hI, hm, ?_⟩, ha, hn⟩
    intro cc hcc
    have : s.pairs = [] := by simpa [State.abs] using ha
    simp [this] at hcc

/-- **`apply` returns `q = H·p`**: `H` the dense BFGS inverse Hessian (C09) of the accepted pairs
    currently stored, with the initial scaling `applyGamma` (the external `γ`, or `sᵀy/yᵀy` of the
    newest pair: `applyGamma_curvature`); the history is left as it was. -/
theorem lbfgs_apply_dense (c : LbfgsCfg α) (st : State α) (hG : Props.C09.Good c.accel st)
    (hne : st.isEmpty = false) (γ : α) (x xh p g q0 : Vec α) :
    ∃ st', Lbfgs.apply c st γ x xh p g q0 = .done st' true (H (applyGamma c.accel st γ) st.abs p) ∧
      st'.abs = st.abs ∧ Props.C09.Good c.accel st' := by
  obtain ⟨hI, hm, hρ⟩ := hG
  have h := Props.C09.apply_eq_dense c.accel st hI hρ p γ hne
  refine ⟨(C09.apply c.accel st p γ).1, ?_, Props.C09.apply_abs _ _ _ _,
    ⟨Props.C09.apply_inv _ _ hI _ _, ?_, Props.C09.apply_rhoOK _ _ _ _ hρ⟩⟩
  · simp only [Lbfgs.apply, lbfgsDirApplyArgs_eq]
    rw [h.1, h.2]
  · unfold C09.apply; split_ifs <;> exact hm

/-- With an empty history `apply` fails; it has already copied `pₖ` into `qₖ`. -/
theorem lbfgs_apply_empty (c : LbfgsCfg α) (st : State α) (he : st.isEmpty = true) (γ : α)
    (x xh p g q0 : Vec α) : Lbfgs.apply c st γ x xh p g q0 = .done st false p := by
  simp only [Lbfgs.apply, lbfgsDirApplyArgs_eq, Props.C09.apply_empty _ _ _ _ he]

/-- `changed_γ` with `rescale_on_step_size_changes`: every stored `y` is multiplied by
    `γ_new/γ_old` (a pair `y = pₖ − pₙₑₓₜ` scales with the step size), nothing is dropped. -/
theorem lbfgs_changedGamma_rescale (c : LbfgsCfg α) (hr : c.rescale = true) (st : State α)
    (hG : Props.C09.Good c.accel st) (γ old : α) :
    (Lbfgs.changedGamma c st γ old).abs = st.abs.map (fun sy => (sy.1, smul (γ / old) sy.2)) ∧
    Props.C09.Good c.accel (Lbfgs.changedGamma c st γ old) ∧
    (Lbfgs.changedGamma c st γ old).isEmpty = st.isEmpty := by
  obtain ⟨hI, hm, hρ⟩ := hG
  simp only [Lbfgs.changedGamma, (changedGamma_selector _ _ _).1, hr, if_true]
  refine ⟨Props.C09.scaleY_abs st hI _, ⟨Props.C09.scaleY_inv st hI _, ?_,
    Props.C09.scaleY_rhoOK st hI _ hρ⟩, rfl⟩
  simp only [scaleY, List.length_append, List.length_map, List.length_take, List.length_drop]
  omega

/-- `changed_γ` without it: the buffer is flushed (as `reset`). -/
theorem lbfgs_changedGamma_flush (c : LbfgsCfg α) (hr : c.rescale = false) (st : State α)
    (hG : Props.C09.Good c.accel st) (γ old : α) :
    Lbfgs.changedGamma c st γ old = Lbfgs.reset st ∧ (Lbfgs.reset st).abs = [] ∧
    Props.C09.Good c.accel (Lbfgs.reset st) ∧ (Lbfgs.reset st).isEmpty = true := by
  obtain ⟨hI, hm, hρ⟩ := hG
  refine ⟨?_, Props.C09.reset_abs st, ⟨Props.C09.reset_inv st hI, hm, Props.C09.reset_rhoOK st⟩, rfl⟩
  simp only [Lbfgs.changedGamma, (changedGamma_selector _ _ _).1, hr, Lbfgs.reset]
  rfl

/-- Scaling every `y` of a history by `f ≠ 0` divides the dense operator by `f` and multiplies its
    initial scaling by `f`. -/
theorem H_scale (f : α) (hf : f ≠ 0) (γ0 : α) (hist : List (Vec α × Vec α)) (q : Vec α) :
    H γ0 (hist.map fun sy => (sy.1, smul f sy.2)) q = smul (1 / f) (H (f * γ0) hist q) := by
  unfold H
  rw [← List.map_reverse]
  exact Hrev_scale f hf γ0 _ q

/-- **`apply` after a rescaling `changed_γ`** (`γ_new/γ_old ≠ 0`): the direction is
    `(γ_old/γ_new) · H(f·γ₀′)·p` over the *unscaled* history, where `γ₀′` is the initial scaling the
    rescaled buffer yields. -/
theorem lbfgs_apply_after_rescale (c : LbfgsCfg α) (hr : c.rescale = true) (st : State α)
    (hG : Props.C09.Good c.accel st) (hne : st.isEmpty = false) (γ old : α) (hf : γ / old ≠ 0)
    (γq : α) (x xh p g q0 : Vec α) :
    ∃ st', Lbfgs.apply c (Lbfgs.changedGamma c st γ old) γq x xh p g q0 =
      .done st' true (smul (1 / (γ / old))
        (H (γ / old * applyGamma c.accel (Lbfgs.changedGamma c st γ old) γq) st.abs p)) := by
  obtain ⟨ha, hG', he⟩ := lbfgs_changedGamma_rescale c hr st hG γ old
  obtain ⟨st', h, _, _⟩ := lbfgs_apply_dense c _ hG' (by rw [he]; exact hne) γq x xh p g q0
  exact ⟨st', by rw [h, ha, H_scale _ hf]⟩

/-- With the curvature-based initial scaling (`LBFGSStepSize::BasedOnCurvature`, the default) the
    rescaled buffer's initial scaling is `1/f` times the original one, so **rescaling by
    `f = γ_new/γ_old` multiplies the whole direction by `γ_old/γ_new`** — exactly how
    `H ≈ (∂(−p)/∂x)⁻¹` scales when `p ≈ −γ∇ψ`. -/
theorem lbfgs_rescale_scales_direction (c : LbfgsCfg α) (hr : c.rescale = true)
    (hcv : c.accel.curvature = true) (st : State α) (hG : Props.C09.Good c.accel st)
    (hne : st.isEmpty = false) (γ old : α) (hf : γ / old ≠ 0) (γq : α) (x xh p g q0 : Vec α) :
    ∃ st', Lbfgs.apply c (Lbfgs.changedGamma c st γ old) γq x xh p g q0 =
      .done st' true (smul (1 / (γ / old)) (H (applyGamma c.accel st γq) st.abs p)) := by
  obtain ⟨st', h⟩ := lbfgs_apply_after_rescale c hr st hG hne γ old hf γq x xh p g q0
  refine ⟨st', ?_⟩
  rw [h]
  obtain ⟨ha, hG', he⟩ := lbfgs_changedGamma_rescale c hr st hG γ old
  obtain ⟨sy, hl, e⟩ := Props.C09.applyGamma_curvature c.accel st hG.1 hG.2.2 γq hne
  obtain ⟨sy', hl', e'⟩ := Props.C09.applyGamma_curvature c.accel _ hG'.1 hG'.2.2 γq
    (by rw [he]; exact hne)
  rw [ha, List.getLast?_map, hl] at hl'
  simp only [Option.map_some, Option.some.injEq] at hl'
  subst hl'
  have key : ∀ f : α, f ≠ 0 →
      f * (f * dot sy.2 sy.1 / (f * (f * dot sy.2 sy.2))) = dot sy.2 sy.1 / dot sy.2 sy.2 := by
    intro f hf0
    by_cases hyy : dot sy.2 sy.2 = 0
    · simp [hyy]
    · field_simp
  rw [e, e']
  simp only [hcv, true_or, if_true, dot_smul_left, dot_smul_right]
  rw [key _ hf]

end Alpaqa.Props.Directions
