/-
  DIRS — what the PANOC direction providers promise (extra stage of C09).

  The theorems are about
    * `Alpaqa/Gen/Dirs.lean` — every argument list, branch condition and componentwise statement of
      the four wrappers (noop.hpp, lbfgs.hpp, anderson.hpp, structured-lbfgs.hpp/.tpp) and of
      `calc_augmented_lagrangian_hessian_prod_fd`, regenerated from /repo on every run;
    * the hand-written skeleton `Alpaqa/Model/Directions.lean` that connects them to the C09 model of
      `LBFGS`, the C10 model of `AndersonAccel` and C15's `inactiveIndices`
      (tied by bit-exact op-sequence correspondence and by the oracle-free PANOC replay);
    * the PANOC loop model `Alpaqa/Model/Panoc.lean` instantiated with these providers
      (`Alpaqa/Model/DirectionsPanoc.lean`).
  They hold over every linearly ordered field, for every dimension, memory, parameter value,
  problem oracle and history (no bound).

  §0  the generated wrappers in closed form (these stop compiling when a wrapper changes)
  §1  NoopDirection: never a direction; PANOC with it is the proximal-gradient method
  §2  LBFGSDirection: pairs `(xₙ−xₖ, pₖ−pₙ)`, `apply = H·p` with the C09 dense operator,
      `changed_γ` rescales (`H ↦ (γ_old/γ)·H`) or flushes
  §3  StructuredLBFGSDirection: `K`-part `q_K = p_K`, `J`-part = restricted dense operator applied to
      the corrected right-hand side, `J` from C15, failure policy
  §4  AndersonDirection: `q = x_AA − x`, `x_AA` the affine combination of C10 with least-squares
      coefficients; the provider's operations stay inside C10's reachable histories
-/
import Alpaqa.Proofs.Directions
import Alpaqa.Props.C10
import Alpaqa.Props.C15
import Alpaqa.Proofs.PanocLoopExample
import Mathlib.Tactic.NormNum

namespace Alpaqa.Props.Directions
open Alpaqa Alpaqa.Gen Alpaqa.C09 Alpaqa.Directions
set_option linter.unusedSectionVars false
set_option linter.unusedVariables false

variable {α : Type} [Field α] [LinearOrder α] [IsStrictOrderedRing α]
  [RealLike α] [PowLike α] [HasNaN α]

/-! ## §0 the generated wrappers in closed form -/

/-- No shipped provider has an initial direction. -/
theorem hasInitial_false :
    noopHasInitial = false ∧ lbfgsDirHasInitial = false ∧ slbfgsHasInitial = false ∧
    andersonDirHasInitial = false := ⟨rfl, rfl, rfl, rfl⟩

/-- `NoopDirection::update` reports success, `apply` failure; `AndersonDirection::update` reports
    success (the accelerator is updated inside `apply`). -/
theorem trivial_flags : noopUpdate = true ∧ noopApply = false ∧ andersonDirUpdate = true :=
  ⟨rfl, rfl, rfl⟩

/-- `LBFGSDirection::update` hands `(xₖ, xₙₑₓₜ, pₖ, pₙₑₓₜ)` to `LBFGS::update` with
    `Sign::Negative`, not forced. -/
theorem lbfgsDirUpdateArgs_eq (γk γn : α) (xk xn pk pn gk gn : Vec α) :
    lbfgsDirUpdateArgs γk γn xk xn pk pn gk gn = (xk, xn, pk, pn, false, false) := rfl

/-- `StructuredLBFGSDirection::update` hands `(xₖ, xₙₑₓₜ, ∇ψₖ, ∇ψₙₑₓₜ)` with `Sign::Positive`,
    forced. -/
theorem slbfgsUpdateArgs_eq (γk γn : α) (xk xn pk pn gk gn : Vec α) :
    slbfgsUpdateArgs γk γn xk xn pk pn gk gn = (xk, xn, gk, gn, true, true) := rfl

/-- `LBFGSDirection::apply` hands `pₖ` and the current step size to `LBFGS::apply`. -/
theorem lbfgsDirApplyArgs_eq (γ : α) (x xh p g q0 : Vec α) :
    lbfgsDirApplyArgs γ x xh p g q0 = (p, γ) := rfl

/-- `changed_γ` of the L-BFGS and Anderson providers: rescale by `γ_new / γ_old` when
    `rescale_on_step_size_changes`, otherwise flush. -/
theorem changedGamma_selector (r : Bool) (γ old : α) :
    lbfgsDirChangedGamma r γ old = (if r then some (γ / old) else none) ∧
    andersonDirChangedGamma r γ old = (if r then some (γ / old) else none) := ⟨rfl, rfl⟩

/-- `AndersonDirection`: `initialize(x̂₀, p₀)`, `compute(x̂ₖ, pₖ, qₖ); qₖ -= xₖ; return true`. -/
theorem andersonDir_args (compute : Vec α → Vec α → Vec α) (y Sig : Vec α) (γ : α)
    (x xh p g q0 : Vec α) :
    andersonDirInitArgs y Sig γ x xh p g = (xh, p) ∧ andersonDirComputeArgs γ x xh p g = (xh, p) ∧
    andersonDirApply compute γ x xh p g q0 = (vsub (compute xh p) x, true) := ⟨rfl, rfl, rfl⟩

/-- The componentwise statements of `StructuredLBFGSDirection::apply`. -/
theorem slbfgs_kernels (γ hvf pj Hj qj : α) (x xh p g q : Vec α) :
    slbfgsRhsFull γ x xh p g = smul (1 / γ) p ∧ slbfgsQInit γ x xh p g = p ∧
    slbfgsRhsJ γ pj = 1 / γ * pj ∧ slbfgsRhsJHess γ hvf pj Hj = 1 / γ * pj - hvf * Hj ∧
    slbfgsFailureScaleJ γ qj = qj * γ ∧ slbfgsFailureScaleFull γ q = smul γ q ∧
    slbfgsFullGamma γ = γ ∧ slbfgsMaskedGamma γ = γ := ⟨rfl, rfl, rfl, rfl, rfl, rfl, rfl, rfl⟩

/-- The branch conditions of `StructuredLBFGSDirection::apply` and of its failure `switch`. -/
theorem slbfgs_branches (nJ n : Nat) (hvf : α) (ok : Bool) :
    slbfgsNoFree nJ n = (nJ == 0) ∧ slbfgsAllFree nJ n = (nJ == n) ∧
    slbfgsHessEnabled hvf = (hvf != 0) ∧
    slbfgsFailureReturn .FallbackToProjectedGradient ok = ok ∧
    slbfgsFailureReturn .UseScaledLBFGSInput ok = true ∧
    slbfgsFailureScales .FallbackToProjectedGradient = false ∧
    slbfgsFailureScales .UseScaledLBFGSInput = true ∧
    slbfgsFailureScaleAll nJ n = (nJ == n) := ⟨rfl, rfl, rfl, rfl, rfl, rfl, rfl, rfl⟩

/-- Which Hessian-vector product `approximate_hessian_vec_term` uses. -/
theorem slbfgs_hv_selection (fd fa hp : Bool) :
    slbfgsHvFD fd fa hp = fd ∧ slbfgsHvLagrangianOnly fd fa hp = !fa ∧
    slbfgsHvUsesHessPsi fd fa hp = hp ∧ slbfgsHvAddsPenalty fd fa hp = fa := ⟨rfl, rfl, rfl, rfl⟩

/-- The penalty loop: `ζ = gᵢ + yᵢ/Σᵢ`, constraint `i` contributes iff `ζ` is *not* strictly inside
    `D`, with `t = Σᵢ·⟨∇gᵢ, q⟩` and `HqK(j) += ∇gᵢ(j)·t`. -/
theorem slbfgs_penalty_kernels (gi yi Si lb ub ζ Hj wj t : α) (w q : Vec α) (b : Bool) :
    slbfgsZeta gi yi Si = gi + yi / Si ∧
    (slbfgsConstrInactive lb ub ζ = true ↔ lb < ζ ∧ ζ < ub) ∧
    slbfgsPenaltySkip b = b ∧ slbfgsPenaltyT Si w q = Si * dot w q ∧
    slbfgsPenaltyAcc Hj wj t = Hj + wj * t := by
  refine ⟨rfl, ?_, ?_, rfl, rfl⟩
  · simp [slbfgsConstrInactive]
  · cases b <;> rfl

/-- `initialize` throws exactly when the inactive-index oracle is missing, or a Hessian-vector
    term is requested (`hessian_vec_factor ≠ 0`) without finite differences and the problem lacks
    the functions the selected variant needs. -/
theorem slbfgsInitThrows_iff (hvf : α) (fd fa pI pL pP pD pG : Bool) :
    slbfgsInitThrows hvf fd fa pI pL pP pD pG = true ↔
      pI = false ∨ (hvf ≠ 0 ∧ fd = false ∧
        ((fa = false ∧ pL = false) ∨
         (fa = true ∧ ((pL = false ∧ pP = false) ∨ (pP = false ∧ (pD = false ∨ pG = false)))))) := by
  unfold slbfgsInitThrows
  by_cases h : hvf = 0
  · subst h; cases pI <;> simp
  · have : (hvf != 0) = true := by simpa using h
    rw [this]
    cases fd <;> cases fa <;> cases pI <;> cases pL <;> cases pP <;> cases pD <;> cases pG <;>
      simp [h]

/-- `calc_augmented_lagrangian_hessian_prod_fd`: forward difference of `∇ψ` with step
    `h = ∛ε·(1 + ‖x‖)`. -/
theorem fdHessProd_eq (gradPsi : Vec α → Vec α) (ce : α) (x g v : Vec α) :
    fdHessProd gradPsi ce x g v =
      vdivs (vsub (gradPsi (vadd x (smul (ce * (1 + norm2 x)) v))) g) (ce * (1 + norm2 x)) := rfl

/-! ## §1 NoopDirection -/

/-- The Noop provider never has a direction: no initial one, `apply` fails for every input and
    leaves `q` alone, `update` always "succeeds", nothing has state. -/
theorem noop_never_has_direction (s : Noop.State) (γ γ' : α) (x xh p g q0 xk xn pk pn gk gn : Vec α) :
    Noop.hasInitial s = false ∧ Noop.apply s γ x xh p g q0 = .done s false q0 ∧
    Noop.update s γ γ' xk xn pk pn gk gn = (s, true) ∧ Noop.changedGamma s γ γ' = s ∧
    Noop.reset s = s := ⟨rfl, rfl, rfl, rfl, rfl⟩

open Alpaqa.Panoc in
/-- In PANOC the Noop provider never offers an accelerated step: `τ_init = 0` in every iteration,
    and the `q` buffer is never written. -/
theorem noop_directionStage (s : St α (Latch Noop.State)) :
    (directionStage noopDir s).2.2.2.1 = 0 ∧ (directionStage noopDir s).2.2.1 = s.q := by
  unfold directionStage noopDir
  simp only [Noop.hasInitial, Noop.apply, latchApply, hasInitial_false.1, trivial_flags.2.1,
    Bool.or_false]
  split_ifs <;> simp_all

open Alpaqa.Panoc in
/-- Invariant of a PANOC run with the Noop provider. -/
def NoTau (s : St α (Latch Noop.State)) : Prop :=
  (∀ cb ∈ s.cbs, cb.status = .Busy → cb.tau = 0) ∧ s.stats.countTau = 0 ∧ s.stats.sumTau = 0 ∧
  s.stats.tau1Accepted = 0

open Alpaqa.Panoc in
theorem noop_iterBody (P : Problem α) (pr : Panoc.Params α) (stop : Nat → Bool)
    (s : St α (Latch Noop.State)) (eps : α) (h : NoTau s) :
    NoTau (iterBody P noopDir pr stop s eps) := by
  obtain ⟨hc, h1, h2, h3⟩ := h
  have hτ := (noop_directionStage s).1
  have hls := iterLs_tau_zero P noopDir pr stop s hτ
  have hst := iterBody_tau_stats P noopDir pr stop s eps
  by_cases hi : stop (iterLs P noopDir pr stop s).tick = true
  · obtain ⟨e1, e2, e3⟩ := hst.1 hi
    refine ⟨?_, by rw [e1, h1], by rw [e2, h2], by rw [e3, h3]⟩
    rw [(iterBody_interrupted P noopDir pr stop s eps hi).2.2.1]
    exact hc
  · have hi' : stop (iterLs P noopDir pr stop s).tick = false := by simpa using hi
    obtain ⟨e1, e2, e3⟩ := hst.2 hi'
    refine ⟨?_, ?_, ?_, ?_⟩
    · obtain ⟨cb, hcb, _, _, _, _, htau, _⟩ := (iterBody_advanced P noopDir pr stop s eps hi').2.2.2.2.1
      rw [hcb]
      intro c hcm hb
      rcases List.mem_cons.mp hcm with rfl | hm
      · rw [htau, hls]
      · exact hc c hm hb
    · rw [e1, h1, hτ]; simp
    · rw [e2, h2, hls]; simp
    · rw [e3, h3, hls]; simp

open Alpaqa.Panoc in
theorem noop_mainLoop (P : Problem α) (pr : Panoc.Params α) (stop : Nat → Bool) (oot : Bool)
    (x0 y Sig errz0 : Vec α) (fuel : Nat) (s : St α (Latch Noop.State)) (h : NoTau s) :
    (∀ cb ∈ (mainLoop P noopDir pr stop oot x0 y Sig errz0 fuel s).callbacks,
        cb.status = .Busy → cb.tau = 0) ∧
    (mainLoop P noopDir pr stop oot x0 y Sig errz0 fuel s).stats.countTau = 0 ∧
    (mainLoop P noopDir pr stop oot x0 y Sig errz0 fuel s).stats.sumTau = 0 ∧
    (mainLoop P noopDir pr stop oot x0 y Sig errz0 fuel s).stats.tau1Accepted = 0 := by
  have exit : ∀ (s' : St α (Latch Noop.State)) (eps : α) (st : SolverStatus), NoTau s' →
      st ≠ .Busy →
      (∀ cb ∈ (exitBlock P pr s' eps st x0 y Sig errz0).callbacks, cb.status = .Busy → cb.tau = 0) ∧
      (exitBlock P pr s' eps st x0 y Sig errz0).stats.countTau = 0 ∧
      (exitBlock P pr s' eps st x0 y Sig errz0).stats.sumTau = 0 ∧
      (exitBlock P pr s' eps st x0 y Sig errz0).stats.tau1Accepted = 0 := by
    intro s' eps st ⟨hc, h1, h2, h3⟩ hne
    obtain ⟨e1, e2, e3⟩ := exitBlock_tau_stats P pr s' eps st x0 y Sig errz0
    refine ⟨?_, by rw [e1, h1], by rw [e2, h2], by rw [e3, h3]⟩
    rw [exitBlock_callbacks]
    intro cb hm hb
    rcases List.mem_append.mp hm with hm | hm
    · exact hc cb (List.mem_reverse.mp hm) hb
    · rw [List.mem_singleton] at hm
      subst hm
      exact absurd hb hne
  induction fuel generalizing s with
  | zero =>
    unfold mainLoop
    exact exit s _ .Exception h (by decide)
  | succ f ih =>
    unfold mainLoop
    simp only []
    have hh : NoTau (headStep P pr stop oot s).1 := by
      obtain ⟨hc, h1, h2, h3⟩ := h
      refine ⟨?_, ?_, ?_, ?_⟩
      · rw [(headStep_fields P pr stop oot s).2.2.1]; exact hc
      · rw [headStep_stats]; exact h1
      · rw [headStep_stats]; exact h2
      · rw [headStep_stats]; exact h3
    split_ifs with hb
    · exact exit _ _ _ hh (by simpa using hb)
    · exact ih _ (noop_iterBody P pr stop _ _ hh)

open Alpaqa.Panoc in
/-- **PANOC with `NoopDirection` is the plain proximal-gradient method**: for every problem, every
    parameter set, every stop schedule, every iteration reports `τ = 0`, no accelerated step is ever
    counted (`count_τ = 0`, `sum_τ = 0`, `τ_1_accepted = 0`). -/
theorem noop_panoc_is_proximal_gradient (P : Problem α) (pr : Panoc.Params α) (stop : Nat → Bool)
    (oot : Bool) (x0 y Sig errz0 gV : Vec α) (gS iS : α) :
    (∀ cb ∈ (run P noopDir ⟨(), false⟩ pr stop oot x0 y Sig errz0 gV gS iS).callbacks,
        cb.status = .Busy → cb.tau = 0) ∧
    (run P noopDir ⟨(), false⟩ pr stop oot x0 y Sig errz0 gV gS iS).stats.countTau = 0 ∧
    (run P noopDir ⟨(), false⟩ pr stop oot x0 y Sig errz0 gV gS iS).stats.sumTau = 0 ∧
    (run P noopDir ⟨(), false⟩ pr stop oot x0 y Sig errz0 gV gS iS).stats.tau1Accepted = 0 := by
  unfold run
  cases hi : initState P (⟨(), false⟩ : Latch Noop.State) pr stop x0 gV gS iS with
  | inl t => simp [stats0]
  | inr s =>
    simp only []
    apply noop_mainLoop
    unfold initState at hi
    simp only [] at hi
    split_ifs at hi <;> (cases hi; exact ⟨by simp, rfl, rfl, rfl⟩)

open Alpaqa.Panoc in
/-- … and a completed iteration moves to the proximal-gradient point: `x_{k+1} = x̂_k`
    (step size positive with `γ·L = Lγ_factor`, which C05 shows is invariant along a run). -/
theorem noop_step_is_prox_step (P : Problem α) (pr : Panoc.Params α) (stop : Nat → Bool)
    (s : St α (Latch Noop.State)) (eps : α) (hg : GammaOK pr s.curr) (hmin : 0 ≤ pr.minLsCoef)
    (hf : (iterLs P noopDir pr stop s).fuelOut = false)
    (hs : stop (iterLs P noopDir pr stop s).tick = false) :
    (iterBody P noopDir pr stop s eps).curr.x = s.curr.xhat ∧
    (iterBody P noopDir pr stop s eps).curr.psix = s.curr.psixhat := by
  have hd := iterLs_done P noopDir pr stop s hg hmin hf hs
  have hls := iterLs_tau_zero P noopDir pr stop s (noop_directionStage s).1
  rw [(iterBody_advanced P noopDir pr stop s eps hs).2.2.1]
  exact hd.inv.safe (by rw [hd.prev, hls])

/-! ## §2 LBFGSDirection -/

/-- `update` offers the pair `s = xₙₑₓₜ − xₖ`, `y = pₖ − pₙₑₓₜ` to the L-BFGS buffer, un-forced. -/
theorem lbfgs_update_pair (c : LbfgsCfg α) (st : State α) (γk γn : α) (xk xn pk pn gk gn : Vec α) :
    Lbfgs.update c st γk γn xk xn pk pn gk gn =
      updateSy c.accel st (vsub xn xk) (vsub pk pn)
        (if cbfgsEnabled c.accel.cbfgsAlpha c.accel.cbfgsEps then sqNorm pn else 0) false := rfl

/-- … so it is stored exactly when it passes the curvature test `update_valid` (C09 (b)), and a
    rejected pair changes nothing. -/
theorem lbfgs_update_stored_iff (c : LbfgsCfg α) (st : State α) (γk γn : α)
    (xk xn pk pn gk gn : Vec α) :
    ((Lbfgs.update c st γk γn xk xn pk pn gk gn).2 = true ↔
      updateValid c.accel (dot (vsub pk pn) (vsub xn xk)) (sqNorm (vsub xn xk))
        (if cbfgsEnabled c.accel.cbfgsAlpha c.accel.cbfgsEps then sqNorm pn else 0) = true) ∧
    ((Lbfgs.update c st γk γn xk xn pk pn gk gn).2 = false →
      (Lbfgs.update c st γk γn xk xn pk pn gk gn).1 = st) := by
  rw [lbfgs_update_pair]
  refine ⟨?_, Props.C09.not_stored_unchanged _ _ _ _ _ _⟩
  rw [Props.C09.stored_iff]
  simp

/-- `initialize` gives an empty history of `memory` slots (throws iff `memory < 1`). -/
theorem lbfgs_init (c : LbfgsCfg α) (n : Nat) (st : State α) :
    (c.accel.memory < 1 → Lbfgs.init c n st = .threw) ∧
    (1 ≤ c.accel.memory → ∃ s, Lbfgs.init c n st = .ok s ∧ Props.C09.Good c.accel s ∧ s.abs = [] ∧
      s.n = n) := by
  obtain ⟨h1, h2⟩ := Props.C09.resize_spec c.accel n
  constructor
  · intro h; simp [Lbfgs.init, h1 h]
  · intro h
    obtain ⟨s, e, hI, ha, hm, hn⟩ := h2 h
    refine ⟨s, by simp [Lbfgs.init, e], ⟨hI, hm, ?_⟩, ha, hn⟩
    intro cc hcc
    have : s.pairs = [] := by simpa [State.abs] using ha
    simp [this] at hcc

/-- **`apply` returns `q = H·p`**: `H` the dense BFGS inverse Hessian (C09) of the accepted pairs
    currently stored, with the initial scaling `applyGamma` (the external `γ`, or `sᵀy/yᵀy` of the
    newest pair: `applyGamma_curvature`); the history is left as it was.
    Stated under C09's `GoodC` (every stored curvature `⟨y,s⟩ ≠ 0`, every stored vector `n`-sized)
    and for a `p` of the buffer's dimension, through `apply_eq_dense_bfgs`: `H` *is* the BFGS matrix
    (no `1/0 = 0` convention).  `LBFGSDirection` never forces a pair in, so along its call sequences
    `GoodC` holds whenever `min_div_fac ≥ 0` and no `scale_y` factor is 0
    (`lbfgs_calls_runOK`, `panoc_lbfgs_direction`). -/
theorem lbfgs_apply_dense (c : LbfgsCfg α) (st : State α) (hG : Props.C09.GoodC c.accel st)
    (hne : st.isEmpty = false) (γ : α) (x xh p g q0 : Vec α) (hp : p.length = st.n) :
    ∃ st', Lbfgs.apply c st γ x xh p g q0 = .done st' true (H (applyGamma c.accel st γ) st.abs p) ∧
      st'.abs = st.abs ∧ Props.C09.GoodC c.accel st' ∧ Props.C09.HistCurvOK st.abs := by
  have h := Props.C09.apply_eq_dense_bfgs c.accel st hG p γ hp hne
  have hm : 1 ≤ c.accel.memory := by have := hG.1.1.pos; rw [hG.1.2.1] at this; exact this
  have hG' : Props.C09.GoodC c.accel (C09.apply c.accel st p γ).1 := by
    refine ⟨(Props.C09.step_refines c.accel hm st hG.1 (.apply p γ)).1,
      Props.C09.allPairs_apply _ _ st p γ hG.2.1, ?_⟩
    unfold Props.C09.DimOK; rw [Props.C09.apply_n]
    exact Props.C09.allPairs_apply _ _ st p γ hG.2.2
  refine ⟨(C09.apply c.accel st p γ).1, ?_, Props.C09.apply_abs _ _ _ _, hG', h.2.2.1⟩
  simp only [Lbfgs.apply, lbfgsDirApplyArgs_eq]
  rw [h.1, h.2.1]

/-- With an empty history `apply` fails; it has already copied `pₖ` into `qₖ`. -/
theorem lbfgs_apply_empty (c : LbfgsCfg α) (st : State α) (he : st.isEmpty = true) (γ : α)
    (x xh p g q0 : Vec α) : Lbfgs.apply c st γ x xh p g q0 = .done st false p := by
  simp only [Lbfgs.apply, lbfgsDirApplyArgs_eq, Props.C09.apply_empty _ _ _ _ he]

/-- `changed_γ` with `rescale_on_step_size_changes`: every stored `y` is multiplied by
    `γ_new/γ_old` (a pair `y = pₖ − pₙₑₓₜ` scales with the step size), nothing is dropped. -/
theorem lbfgs_changedGamma_rescale (c : LbfgsCfg α) (hr : c.rescale = true) (st : State α)
    (hG : Props.C09.Good c.accel st) (γ old : α) :
    (Lbfgs.changedGamma c st γ old).abs = st.abs.map (fun sy => (sy.1, smul (γ / old) sy.2)) ∧
    Props.C09.Good c.accel (Lbfgs.changedGamma c st γ old) ∧
    (Lbfgs.changedGamma c st γ old).isEmpty = st.isEmpty := by
  obtain ⟨hI, hm, hρ⟩ := hG
  simp only [Lbfgs.changedGamma, (changedGamma_selector _ _ _).1, hr, if_true]
  refine ⟨Props.C09.scaleY_abs st hI _, ⟨Props.C09.scaleY_inv st hI _, ?_,
    Props.C09.scaleY_rhoOK st hI _ hρ⟩, rfl⟩
  simp only [scaleY, List.length_append, List.length_map, List.length_take, List.length_drop]
  omega

/-- `changed_γ` without it: the buffer is flushed (as `reset`). -/
theorem lbfgs_changedGamma_flush (c : LbfgsCfg α) (hr : c.rescale = false) (st : State α)
    (hG : Props.C09.Good c.accel st) (γ old : α) :
    Lbfgs.changedGamma c st γ old = Lbfgs.reset st ∧ (Lbfgs.reset st).abs = [] ∧
    Props.C09.Good c.accel (Lbfgs.reset st) ∧ (Lbfgs.reset st).isEmpty = true := by
  obtain ⟨hI, hm, hρ⟩ := hG
  refine ⟨?_, Props.C09.reset_abs st, ⟨Props.C09.reset_inv st hI, hm, Props.C09.reset_rhoOK st⟩, rfl⟩
  simp only [Lbfgs.changedGamma, (changedGamma_selector _ _ _).1, hr, Lbfgs.reset]
  rfl

/-- a rescaling `changed_γ` by a non-zero factor keeps C09's `GoodC` -/
theorem lbfgs_changedGamma_goodC (c : LbfgsCfg α) (hr : c.rescale = true) (st : State α)
    (hG : Props.C09.GoodC c.accel st) (γ old : α) (hf : γ / old ≠ 0) :
    Props.C09.GoodC c.accel (Lbfgs.changedGamma c st γ old) := by
  obtain ⟨_, hG', _⟩ := lbfgs_changedGamma_rescale c hr st hG.1 γ old
  simp only [Lbfgs.changedGamma, (changedGamma_selector _ _ _).1, hr, if_true] at hG' ⊢
  refine ⟨hG', Props.C09.allPairs_scaleY _ st hG.1.1 _ hG.2.1 ?_, ?_⟩
  · intro cc hc0
    show dot (smul (γ / old) cc.y) cc.s ≠ 0
    rw [dot_smul_left]; exact mul_ne_zero hf hc0
  · unfold Props.C09.DimOK; rw [Props.C09.scaleY_n]
    exact Props.C09.allPairs_scaleY _ st hG.1.1 _ hG.2.2 (fun cc hc0 => ⟨hc0.1, by simpa using hc0.2⟩)

/-- Scaling every `y` of a history by `f ≠ 0` divides the dense operator by `f` and multiplies its
    initial scaling by `f`. -/
theorem H_scale (f : α) (hf : f ≠ 0) (γ0 : α) (hist : List (Vec α × Vec α)) (q : Vec α) :
    H γ0 (hist.map fun sy => (sy.1, smul f sy.2)) q = smul (1 / f) (H (f * γ0) hist q) := by
  unfold H
  rw [← List.map_reverse]
  exact Hrev_scale f hf γ0 _ q

/-- **`apply` after a rescaling `changed_γ`** (`γ_new/γ_old ≠ 0`): the direction is
    `(γ_old/γ_new) · H(f·γ₀′)·p` over the *unscaled* history, where `γ₀′` is the initial scaling the
    rescaled buffer yields. -/
theorem lbfgs_apply_after_rescale (c : LbfgsCfg α) (hr : c.rescale = true) (st : State α)
    (hG : Props.C09.GoodC c.accel st) (hne : st.isEmpty = false) (γ old : α) (hf : γ / old ≠ 0)
    (γq : α) (x xh p g q0 : Vec α) (hp : p.length = st.n) :
    ∃ st', Lbfgs.apply c (Lbfgs.changedGamma c st γ old) γq x xh p g q0 =
      .done st' true (smul (1 / (γ / old))
        (H (γ / old * applyGamma c.accel (Lbfgs.changedGamma c st γ old) γq) st.abs p)) := by
  obtain ⟨ha, _, he⟩ := lbfgs_changedGamma_rescale c hr st hG.1 γ old
  have hn : (Lbfgs.changedGamma c st γ old).n = st.n := by
    simp only [Lbfgs.changedGamma, (changedGamma_selector _ _ _).1, hr, if_true]; rfl
  obtain ⟨st', h, _, _⟩ := lbfgs_apply_dense c _ (lbfgs_changedGamma_goodC c hr st hG γ old hf)
    (by rw [he]; exact hne) γq x xh p g q0 (by rw [hn]; exact hp)
  exact ⟨st', by rw [h, ha, H_scale _ hf]⟩

/-- With the curvature-based initial scaling (`LBFGSStepSize::BasedOnCurvature`, the default) the
    rescaled buffer's initial scaling is `1/f` times the original one, so **rescaling by
    `f = γ_new/γ_old` multiplies the whole direction by `γ_old/γ_new`** — exactly how
    `H ≈ (∂(−p)/∂x)⁻¹` scales when `p ≈ −γ∇ψ`. -/
theorem lbfgs_rescale_scales_direction (c : LbfgsCfg α) (hr : c.rescale = true)
    (hcv : c.accel.curvature = true) (st : State α) (hG : Props.C09.GoodC c.accel st)
    (hne : st.isEmpty = false) (γ old : α) (hf : γ / old ≠ 0) (γq : α) (x xh p g q0 : Vec α)
    (hp : p.length = st.n) :
    ∃ st', Lbfgs.apply c (Lbfgs.changedGamma c st γ old) γq x xh p g q0 =
      .done st' true (smul (1 / (γ / old)) (H (applyGamma c.accel st γq) st.abs p)) := by
  obtain ⟨st', h⟩ := lbfgs_apply_after_rescale c hr st hG hne γ old hf γq x xh p g q0 hp
  refine ⟨st', ?_⟩
  rw [h]
  obtain ⟨ha, hG', he⟩ := lbfgs_changedGamma_rescale c hr st hG.1 γ old
  obtain ⟨sy, hl, e⟩ := Props.C09.applyGamma_curvature c.accel st hG.1.1 hG.1.2.2 γq hne
  obtain ⟨sy', hl', e'⟩ := Props.C09.applyGamma_curvature c.accel _ hG'.1 hG'.2.2 γq
    (by rw [he]; exact hne)
  rw [ha, List.getLast?_map, hl] at hl'
  simp only [Option.map_some, Option.some.injEq] at hl'
  subst hl'
  have key : ∀ f : α, f ≠ 0 →
      f * (f * dot sy.2 sy.1 / (f * (f * dot sy.2 sy.2))) = dot sy.2 sy.1 / dot sy.2 sy.2 := by
    intro f hf0
    by_cases hyy : dot sy.2 sy.2 = 0
    · simp [hyy]
    · field_simp
  rw [e, e']
  simp only [hcv, true_or, if_true, dot_smul_left, dot_smul_right]
  rw [key _ hf]

/-! ## §3 StructuredLBFGSDirection -/

/-- `update` offers `s = xₙₑₓₜ − xₖ`, `y = ∇ψ(xₙₑₓₜ) − ∇ψ(xₖ)` and *forces* the pair in. -/
theorem slbfgs_update_pair (c : SCfg α) (st : State α) (γk γn : α) (xk xn pk pn gk gn : Vec α) :
    SLbfgs.update c st γk γn xk xn pk pn gk gn =
      updateSy c.accel st (vsub xn xk) (vsub gn gk)
        (if cbfgsEnabled c.accel.cbfgsAlpha c.accel.cbfgsEps then sqNorm gn else 0) true := rfl

/-- … so every pair is stored, whatever its curvature (the acceptance test is re-done per index
    set in `apply_masked`). -/
theorem slbfgs_update_always_stored (c : SCfg α) (st : State α) (γk γn : α)
    (xk xn pk pn gk gn : Vec α) : (SLbfgs.update c st γk γn xk xn pk pn gk gn).2 = true := by
  rw [slbfgs_update_pair, Props.C09.stored_iff]; exact Or.inl rfl

/-- `changed_γ` does nothing (the Hessian approximation of ψ does not depend on the step size);
    `reset` flushes. -/
theorem slbfgs_changedGamma_reset (st : State α) (γ old : α) :
    SLbfgs.changedGamma st γ old = st ∧ (SLbfgs.reset st).abs = [] :=
  ⟨rfl, Props.C09.reset_abs st⟩

/-- `initialize`: throws when the argument checks fail (`slbfgsInitThrows_iff`) or `memory < 1`,
    otherwise an empty history. -/
theorem slbfgs_init (P : SProblem α) (c : SCfg α) (st : State α)
    (hok : slbfgsInitThrows c.hvf c.fd c.fullAug P.provInactive P.provHessL P.provHessPsi P.provBoxD
      P.provGradGi = false) (hm : 1 ≤ c.accel.memory) :
    ∃ s, SLbfgs.init P c st = .ok s ∧ Props.C09.Good c.accel s ∧ s.abs = [] ∧ s.n = P.n := by
  obtain ⟨s, e, hI, ha, hmm, hn⟩ := (Props.C09.resize_spec c.accel P.n).2 hm
  refine ⟨s, by simp [SLbfgs.init, hok, e], ⟨hI, hmm, ?_⟩, ha, hn⟩
  intro cc hcc
  have : s.pairs = [] := by simpa [State.abs] using ha
  simp [this] at hcc

/-- **No inactive index** (`J = ∅`): no Newton-type step is possible, `apply` fails and touches
    neither `q` nor the buffer. -/
theorem slbfgs_apply_no_free (P : SProblem α) (c : SCfg α) (st : State α) (γ : α)
    (x xh p g q0 : Vec α) (hJ : P.inactive γ x g = []) :
    SLbfgs.apply P c st γ x xh p g q0 = .done st false q0 := by
  simp [SLbfgs.apply, hJ, slbfgsNoFree]

/-- **All indices inactive** (`K = ∅`, `n ≠ 0`): plain L-BFGS on `(1/γ)·p` (= `−∇ψ` on inactive
    indices): `q = H·(p/γ)` with the C09 dense operator of the stored pairs.
    Stated under C09's `GoodC` through `apply_eq_dense_bfgs`.  **`GoodC` is a real restriction
    here**: `StructuredLBFGSDirection::update` *forces* every pair in, so a pair with
    `⟨y,s⟩ = 0` (`∇ψ(xₙ) = ∇ψ(xₖ)`: a linear ψ; or a zero step) is stored with `ρ = 1/0`, and this
    branch then returns a non-finite direction in the C++ (PANOC's `q.allFinite()` test rejects it and
    resets the buffer) — the excluded point `RunOK` names (`forced_zero_curvature_breaks`), reachable
    in-tree; see `slbfgs_calls_runOK`, `panoc_slbfgs_direction`. -/
theorem slbfgs_apply_all_free (P : SProblem α) (c : SCfg α) (st : State α)
    (hG : Props.C09.GoodC c.accel st) (hne : st.isEmpty = false) (γ : α) (x xh p g q0 : Vec α)
    (hJ : (P.inactive γ x g).length = P.n) (hn : P.n ≠ 0) (hp : p.length = st.n) :
    ∃ st', SLbfgs.apply P c st γ x xh p g q0 =
        .done st' true (H (applyGamma c.accel st γ) st.abs (smul (1 / γ) p)) ∧ st'.abs = st.abs ∧
      Props.C09.HistCurvOK st.abs := by
  have h := Props.C09.apply_eq_dense_bfgs c.accel st hG (smul (1 / γ) p) γ
    (by rw [length_smul]; exact hp) hne
  refine ⟨(C09.apply c.accel st (smul (1 / γ) p) γ).1, ?_, Props.C09.apply_abs _ _ _ _, h.2.2.1⟩
  have h0 : (P.n == 0) = false := by simpa using hn
  simp only [SLbfgs.apply, slbfgsNoFree, slbfgsAllFree, hJ, h0, beq_self_eq_true, if_true,
    Bool.false_eq_true, if_false, (slbfgs_kernels γ 0 0 0 0 x xh p g q0).1,
    (slbfgs_kernels γ 0 0 0 0 x xh p g q0).2.2.2.2.2.2.1]
  rw [h.1, h.2.1]

/-- … with an empty buffer it fails (no fallback is applied in this branch: the failure policy is
    only consulted after `apply_masked`), leaving `q = p/γ`. -/
theorem slbfgs_apply_all_free_empty (P : SProblem α) (c : SCfg α) (st : State α)
    (he : st.isEmpty = true) (γ : α) (x xh p g q0 : Vec α)
    (hJ : (P.inactive γ x g).length = P.n) (hn : P.n ≠ 0) :
    SLbfgs.apply P c st γ x xh p g q0 = .done st false (smul (1 / γ) p) := by
  have h0 : (P.n == 0) = false := by simpa using hn
  simp only [SLbfgs.apply, slbfgsNoFree, slbfgsAllFree, hJ, h0, beq_self_eq_true, if_true,
    Bool.false_eq_true, if_false, (slbfgs_kernels γ 0 0 0 0 x xh p g q0).1,
    (slbfgs_kernels γ 0 0 0 0 x xh p g q0).2.2.2.2.2.2.1, Props.C09.apply_empty _ _ _ _ he]

/-- The vector whose Hessian product is taken: `p` on the active indices `K`, zero on `J`. -/
theorem slbfgs_hv_input (J : List Nat) (p : Vec α) (hnd : J.Nodup) (hlt : ∀ j ∈ J, j < p.length)
    (j : Nat) : vget (SLbfgs.setJ J (fun _ => (0 : α)) p) j = if j ∈ J then 0 else vget p j := by
  split_ifs with h
  · exact setJ_hit J _ p hnd hlt j h
  · exact setJ_frame J _ p j h

/-- **Fixed part**: on the active indices `K = {j ∉ J}` the right-hand side — and, because
    `apply_masked` only touches `J`, the returned direction — is `q_j = p_j` (the projected-gradient
    step). -/
theorem slbfgs_rhs_K (P : SProblem α) (c : SCfg α) (γ : α) (x xh p g : Vec α) (J : List Nat)
    (j : Nat) (hj : j ∉ J) : vget (SLbfgs.rhs P c γ x xh p g J) j = vget p j := by
  unfold SLbfgs.rhs
  simp only [(slbfgs_kernels γ 0 0 0 0 x xh p g p).2.1]
  split_ifs <;> simp only [setJ_frame _ _ _ _ hj]

/-- **Free part of the right-hand side**: for `j ∈ J`,
    `(1/γ)·p_j − hessian_vec_factor · (∇²ψ q_K)_j` (the correction only when the factor is non-zero);
    `q_K` is `slbfgs_hv_input`, the product `approxHessVec`. -/
theorem slbfgs_rhs_J (P : SProblem α) (c : SCfg α) (γ : α) (x xh p g : Vec α) (J : List Nat)
    (hnd : J.Nodup) (hlt : ∀ j ∈ J, j < p.length) (j : Nat) (hj : j ∈ J) :
    vget (SLbfgs.rhs P c γ x xh p g J) j =
      if c.hvf = 0 then 1 / γ * vget p j
      else 1 / γ * vget p j -
        c.hvf * vget (SLbfgs.approxHessVec P c x g (SLbfgs.setJ J (fun _ => 0) p) J) j := by
  unfold SLbfgs.rhs
  simp only [(slbfgs_kernels γ 0 0 0 0 x xh p g p).2.1, slbfgsHessEnabled]
  by_cases h0 : c.hvf = 0
  · simp only [h0, bne_self_eq_false, Bool.false_eq_true, if_false, if_true]
    rw [setJ_hit J _ p hnd hlt j hj]; rfl
  · have : (c.hvf != 0) = true := by simpa using h0
    simp only [this, if_true, h0, if_false]
    rw [setJ_hit J _ _ hnd (by rw [setJ_length]; exact hlt) j hj]; rfl

theorem slbfgs_rhs_length (P : SProblem α) (c : SCfg α) (γ : α) (x xh p g : Vec α) (J : List Nat) :
    (SLbfgs.rhs P c γ x xh p g J).length = p.length := by
  unfold SLbfgs.rhs
  simp only [(slbfgs_kernels γ 0 0 0 0 x xh p g p).2.1]
  split_ifs <;> simp only [setJ_length]

/-- Which product `approxHessVec` is: finite differences of `∇ψ`, the Lagrangian's Hessian, the
    problem's `eval_hess_ψ_prod`, or the Lagrangian's Hessian plus the penalty terms. -/
theorem slbfgs_approxHessVec_cases (P : SProblem α) (c : SCfg α) (x g v : Vec α) (J : List Nat) :
    SLbfgs.approxHessVec P c x g v J =
      if c.fd then fdHessProd P.gradPsi c.cbrtEps x g v
      else if !c.fullAug then P.hessLProd x v
      else if P.provHessPsi then P.hessPsiProd x v
      else SLbfgs.penaltyLoop P x v J (P.hessLProd x v) := by
  unfold SLbfgs.approxHessVec
  simp only [slbfgs_hv_selection]
  cases c.fd <;> cases hfa : c.fullAug <;> cases P.provHessPsi <;> simp

/-- What the failure `switch` leaves in `q`: nothing changes under
    `FallbackToProjectedGradient`; under `UseScaledLBFGSInput` the `J` entries are multiplied by `γ`
    (so `q_J = p_J − γ·hvf·(∇²ψ q_K)_J` when `apply_masked` had not modified them) and the `K`
    entries stay. -/
theorem slbfgs_fallback (c : SCfg α) (n : Nat) (γ : α) (J : List Nat) (q : Vec α) :
    (c.policy = .FallbackToProjectedGradient → SLbfgs.fallback c n γ J q = q) ∧
    (c.policy = .UseScaledLBFGSInput → J.length ≠ n → J.Nodup → (∀ j ∈ J, j < q.length) →
      (∀ j ∈ J, vget (SLbfgs.fallback c n γ J q) j = vget q j * γ) ∧
      (∀ j, j ∉ J → vget (SLbfgs.fallback c n γ J q) j = vget q j)) := by
  constructor
  · intro h; simp [SLbfgs.fallback, h, slbfgsFailureScales]
  · intro h hn hnd hlt
    have hne : (J.length == n) = false := by simpa using hn
    simp only [SLbfgs.fallback, h, slbfgsFailureScales, slbfgsFailureScaleAll, hne, if_true,
      Bool.false_eq_true, if_false]
    exact ⟨fun j hj => by rw [setJ_hit J _ q hnd hlt j hj]; rfl, fun j hj => setJ_frame J _ q j hj⟩

/-- **Free part of the direction**: with active *and* inactive indices present, CBFGS off, `J`
    duplicate-free and in range, a non-empty buffer: `apply_masked` is called on the corrected
    right-hand side.  It fails iff `maskedFail` — no non-negative step size (curvature policy or
    `γ < 0`) *and* no stored pair valid on `J` (`Props.C09.maskedFail_iff`); it never fails because of
    the sign of a curvature.  On success `q_J = H(γ_m; history restricted to J) · rhs_J` with the
    scaling `γ_m` of the newest pair valid on `J` (of either sign; `maskedGamma_newest_valid`) — the
    masked L-BFGS system of C09 (e) — while `q_K = p_K`.  On failure `apply_masked` has left `q`
    equal to the right-hand side, and the failure policy decides: the returned flag is
    `slbfgsFailureReturn`, `q` is `fallback` of the right-hand side. -/
theorem slbfgs_apply_partial (P : SProblem α) (c : SCfg α) (st : State α) (hI : Inv st)
    (hne : st.isEmpty = false) (γ : α) (x xh p g q0 : Vec α)
    (hcb : cbfgsEnabled c.accel.cbfgsAlpha c.accel.cbfgsEps = false)
    (hnn : ∀ a : α, RealLike.isNaN a = false) (hp : p.length = P.n)
    (hJ0 : P.inactive γ x g ≠ []) (hJn : (P.inactive γ x g).length ≠ P.n)
    (hnd : (P.inactive γ x g).Nodup) (hlt : ∀ j ∈ P.inactive γ x g, j < P.n) :
    ∃ st' q' ok, C09.applyMasked c.accel st (SLbfgs.rhs P c γ x xh p g (P.inactive γ x g)) γ
          (P.inactive γ x g) = .done st' q' ok ∧ st'.abs = st.abs ∧
      ok = !Props.C09.maskedFail c.accel st (SLbfgs.rhs P c γ x xh p g (P.inactive γ x g)) γ
                      (P.inactive γ x g) ∧
      (ok = true →
        SLbfgs.apply P c st γ x xh p g q0 = .done st' true q' ∧
        G false (P.inactive γ x g) q' =
          H (Props.C09.maskedGamma c.accel st (SLbfgs.rhs P c γ x xh p g (P.inactive γ x g)) γ
              (P.inactive γ x g))
            (Props.C09.restrictHist c.accel false (P.inactive γ x g) st.abs)
            (G false (P.inactive γ x g) (SLbfgs.rhs P c γ x xh p g (P.inactive γ x g))) ∧
        ∀ j, j ∉ P.inactive γ x g → vget q' j = vget p j) ∧
      (ok = false →
        q' = SLbfgs.rhs P c γ x xh p g (P.inactive γ x g) ∧
        SLbfgs.apply P c st γ x xh p g q0 =
          .done st' (slbfgsFailureReturn c.policy false)
            (SLbfgs.fallback c P.n γ (P.inactive γ x g)
              (SLbfgs.rhs P c γ x xh p g (P.inactive γ x g)))) := by
  have hlen := slbfgs_rhs_length P c γ x xh p g (P.inactive γ x g)
  have hfJ : ((SLbfgs.rhs P c γ x xh p g (P.inactive γ x g)).length == (P.inactive γ x g).length) = false := by
    rw [hlen, hp]; simpa using fun h => hJn h.symm
  have hJOK : JOK ((SLbfgs.rhs P c γ x xh p g (P.inactive γ x g)).length == (P.inactive γ x g).length)
      (P.inactive γ x g) (SLbfgs.rhs P c γ x xh p g (P.inactive γ x g)).length :=
    fun _ => ⟨hnd, fun j hj => by rw [hlen, hp]; exact hlt j hj⟩
  obtain ⟨q', hout, hfq, hsp⟩ := Props.C09.applyMasked_eq_restricted c.accel st hI _ γ _ hne hcb hnn hJOK
  have h0 : ((P.inactive γ x g).length == 0) = false := by
    simpa using fun h => hJ0 (List.length_eq_zero_iff.mp h)
  have hnn' : ((P.inactive γ x g).length == P.n) = false := by simpa using hJn
  have habs := Props.C09.applyMasked_abs c.accel st (SLbfgs.rhs P c γ x xh p g (P.inactive γ x g)) γ
    (P.inactive γ x g)
  cases hm : C09.applyMasked c.accel st (SLbfgs.rhs P c γ x xh p g (P.inactive γ x g)) γ
      (P.inactive γ x g) with
  | threw => rw [hm] at hout; simp [Props.C09.maskedOut] at hout
  | done st' q'' ok =>
    rw [hm] at hout habs
    simp only [Props.C09.maskedOut, Option.some.injEq, Prod.mk.injEq] at hout
    obtain ⟨rfl, rfl⟩ := hout
    simp only [Props.C09.maskedState] at habs
    refine ⟨st', q'', _, rfl, habs, rfl, ?_, ?_⟩
    · intro hok
      have hγ : Props.C09.maskedFail c.accel st (SLbfgs.rhs P c γ x xh p g (P.inactive γ x g)) γ
          (P.inactive γ x g) = false := by simpa using hok
      obtain ⟨hG, hoff⟩ := hsp hγ
      rw [hfJ] at hG
      refine ⟨?_, hG, fun j hj => ?_⟩
      · simp only [SLbfgs.apply, slbfgsNoFree, slbfgsAllFree, h0, hnn', Bool.false_eq_true, if_false,
          (slbfgs_kernels γ 0 0 0 0 x xh p g q0).2.2.2.2.2.2.2, hm, hok, if_true]
      · rw [hoff hfJ j hj, slbfgs_rhs_K P c γ x xh p g _ j hj]
    · intro hok
      have hγ : Props.C09.maskedFail c.accel st (SLbfgs.rhs P c γ x xh p g (P.inactive γ x g)) γ
          (P.inactive γ x g) = true := by simpa using hok
      have hq := hfq hγ
      refine ⟨hq, ?_⟩
      simp only [SLbfgs.apply, slbfgsNoFree, slbfgsAllFree, h0, hnn', Bool.false_eq_true, if_false,
        (slbfgs_kernels γ 0 0 0 0 x xh p g q0).2.2.2.2.2.2.2, hm, hok, hq]

/-- `apply_masked` with no stored pair valid on `J` and no usable external scaling (curvature
    policy, or `γ < 0`): it fails and has not touched `q`. -/
theorem applyMasked_no_valid (p : C09.Params α) (st : State α) (hI : Inv st) (q : Vec α) (γ : α)
    (J : List Nat) (hne : st.isEmpty = false) (hcb : cbfgsEnabled p.cbfgsAlpha p.cbfgsEps = false)
    (hv : ∀ c ∈ st.pairs, validJ p (q.length == J.length) J c = false)
    (hγ : (if p.curvature then (-1 : α) else γ) < 0) :
    ∃ st', C09.applyMasked p st q γ J = .done st' q false ∧ st'.abs = st.abs := by
  have hmap : (st.revIdx.map fun i => st.slots.getD i default) = st.pairs.reverse :=
    revIdx_map_slot st hI
  have hvi : ∀ i ∈ st.revIdx, validJ p (q.length == J.length) J (st.slots.getD i default) = false := by
    intro i hi
    apply hv
    have : st.slots.getD i default ∈ st.pairs.reverse := by
      rw [← hmap]; exact List.mem_map.mpr ⟨i, hi, rfl⟩
    exact List.mem_reverse.mp this
  have hn : lbfgsMaskedNeedGamma (if p.curvature then (-1 : α) else γ) = true := by
    simp [lbfgsMaskedNeedGamma, hγ]
  have hq := mrev_q_no_valid p (q.length == J.length) J st.slots st.revIdx
    ⟨st.al, List.replicate st.al.length false, q, if p.curvature then -1 else γ, true⟩ hvi
  have hg := mrev_gamma p (q.length == J.length) J st.slots st.revIdx
    ⟨st.al, List.replicate st.al.length false, q, if p.curvature then -1 else γ, true⟩
  rw [hmap, mGamma_no_valid _ _ _ _ _ _ (fun c hc => hv c (List.mem_reverse.mp hc))] at hg
  simp only [] at hq hg
  have hneed := congrArg Prod.fst hg
  simp only [] at hneed
  have key : C09.applyMasked p st q γ J =
      .done { st with al := (st.revIdx.foldl (maskedRevStep p (q.length == J.length) J st.slots)
        ⟨st.al, List.replicate st.al.length false, q, if p.curvature then -1 else γ, true⟩).al } q false := by
    simp only [C09.applyMasked, hne, hcb, Bool.false_eq_true, if_false, hn, lbfgsMaskedFail]
    rw [if_pos hneed, hq]
  exact ⟨_, key, rfl⟩

/-- **Failure policy, the documented case**: active and inactive indices present, no stored pair
    valid on `J` (e.g. no positive curvature there), curvature-based scaling.  `apply_masked`
    fails with `q` still the right-hand side, so
    `FallbackToProjectedGradient` → `apply` fails (PANOC takes the projected-gradient step);
    `UseScaledLBFGSInput` → `apply` succeeds with `q_K = p_K`,
    `q_j = ((1/γ)p_j − hvf·(∇²ψ q_K)_j)·γ` for `j ∈ J` (i.e. `H_JJ ≈ γI`). -/
theorem slbfgs_apply_failure_no_valid (P : SProblem α) (c : SCfg α) (st : State α) (hI : Inv st)
    (hne : st.isEmpty = false) (γ : α) (x xh p g q0 : Vec α)
    (hcb : cbfgsEnabled c.accel.cbfgsAlpha c.accel.cbfgsEps = false) (hp : p.length = P.n)
    (hJ0 : P.inactive γ x g ≠ []) (hJn : (P.inactive γ x g).length ≠ P.n)
    (hv : ∀ cc ∈ st.pairs, validJ c.accel false (P.inactive γ x g) cc = false)
    (hγ : (if c.accel.curvature then (-1 : α) else γ) < 0) :
    ∃ st', SLbfgs.apply P c st γ x xh p g q0 =
      .done st' (slbfgsFailureReturn c.policy false)
        (SLbfgs.fallback c P.n γ (P.inactive γ x g) (SLbfgs.rhs P c γ x xh p g (P.inactive γ x g))) ∧
      st'.abs = st.abs := by
  have hlen := slbfgs_rhs_length P c γ x xh p g (P.inactive γ x g)
  have hfJ : ((SLbfgs.rhs P c γ x xh p g (P.inactive γ x g)).length == (P.inactive γ x g).length) = false := by
    rw [hlen, hp]; simpa using fun h => hJn h.symm
  obtain ⟨st', hm, ha⟩ := applyMasked_no_valid c.accel st hI (SLbfgs.rhs P c γ x xh p g (P.inactive γ x g))
    γ (P.inactive γ x g) hne hcb (by rw [hfJ]; exact hv) hγ
  have h0 : ((P.inactive γ x g).length == 0) = false := by
    simpa using fun h => hJ0 (List.length_eq_zero_iff.mp h)
  have hnn' : ((P.inactive γ x g).length == P.n) = false := by simpa using hJn
  refine ⟨st', ?_, ha⟩
  simp only [SLbfgs.apply, slbfgsNoFree, slbfgsAllFree, h0, hnn', Bool.false_eq_true, if_false,
    (slbfgs_kernels γ 0 0 0 0 x xh p g q0).2.2.2.2.2.2.2, hm]

/-- **`J` / `K` partition of a `BoxConstrProblem`** (from C15): the index list the structured
    provider works with is strictly increasing (so duplicate-free), in range, and contains `i` exactly
    when the C15 kernel says component `i` of the forward step is strictly inside the (ℓ1-shifted)
    box — by `Props.C15.inactiveIndices_iff_locally_shift` exactly the components where the proximal
    mapping is locally a translation. -/
theorem slbfgs_box_partition (l1 lb ub : Vec α) (γ : α) (x g : Vec α) :
    (boxInactive l1 lb ub γ x g).Pairwise (· < ·) ∧ (boxInactive l1 lb ub γ x g).Nodup ∧
    (∀ j ∈ boxInactive l1 lb ub γ x g, j < x.length) ∧
    (∀ i, i ∈ boxInactive l1 lb ub γ x g ↔
      i < x.length ∧ C15.inactiveGeneral (Props.C15.lamAt l1 i) γ (vget lb i) (vget ub i)
        (vget x i - γ * vget g i) = true) ∧
    JOK false (boxInactive l1 lb ub γ x g) x.length := by
  have hs := Props.C15.inactiveIndices_sorted l1 γ x g lb ub
  have hnd : (boxInactive l1 lb ub γ x g).Nodup := hs.imp (fun h => Nat.ne_of_lt h)
  have hm := Props.C15.mem_inactiveIndices_iff l1 γ x g lb ub
  exact ⟨hs, hnd, fun j hj => ((hm j).mp hj).1, hm, fun _ => ⟨hnd, fun j hj => ((hm j).mp hj).1⟩⟩

/-! ## §4 AndersonDirection -/

section anderson
open Finset Alpaqa.C10 Alpaqa.Props.C10

theorem vget_vsub (a b : Vec α) (j : Nat) (ha : j < a.length) (hb : j < b.length) :
    vget (vsub a b) j = vget a j - vget b j := by
  simp [vget, vsub, vzip, List.getD_eq_getElem?_getD, List.getElem?_zipWith, ha, hb]

theorem vget_map_range2 (f : Nat → α) (n j : Nat) (hj : j < n) :
    vget ((List.range n).map f) j = f j := by
  simp [vget, List.getD_eq_getElem?_getD, hj]

/-- **`apply` = `anderson.compute(x̂ₖ, pₖ, ·)` then `− xₖ`**, always reporting success; it throws
    (`std::logic_error`) exactly when the accelerator was never initialised.  The accelerator state
    advances inside `apply` (`update` is a no-op returning `true`). -/
theorem anderson_apply_eq (c : AndersonCfg α) (st : AA α) (γ : α) (x xh p g q0 : Vec α) :
    Anderson.apply c st γ x xh p g q0 =
      if st.initialized then
        .done (st.computeCore c.fuel c.giv (Anderson.fn xh) (Anderson.fn p)).1 true
          (vsub ((List.range st.n).map
            (readV (st.computeCore c.fuel c.giv (Anderson.fn xh) (Anderson.fn p)).2)) x)
      else .threw := by
  have e1 : andersonDirComputeArgs γ x xh p g = (xh, p) := rfl
  have e2 : ∀ compute : Vec α → Vec α → Vec α,
      andersonDirApply compute γ x xh p g q0 = (vsub (compute xh p) x, true) := fun _ => rfl
  have e3 : (st.computeCore c.fuel c.giv (Anderson.fn xh) (Anderson.fn p)).1.n = st.n := rfl
  unfold Anderson.apply
  rw [e1]
  simp only [AA.compute, e2]
  cases st.initialized
  · simp
  · simp only [Bool.not_true, Bool.false_eq_true, if_false, if_true, e3]

theorem anderson_update_noop (st : AA α) (γk γn : α) (xk xn pk pn gk gn : Vec α) :
    Anderson.update st γk γn xk xn pk pn gk gn = (st, true) := rfl

/-- componentwise: `q_j = (x_AA)_j − x_j` -/
theorem anderson_q_component (c : AndersonCfg α) (st : AA α) (hi : st.initialized = true) (γ : α)
    (x xh p g q0 : Vec α) (hx : x.length = st.n) :
    ∃ q, Anderson.apply c st γ x xh p g q0 =
        .done (st.computeCore c.fuel c.giv (Anderson.fn xh) (Anderson.fn p)).1 true q ∧
      ∀ j < st.n, vget q j =
        readV (st.computeCore c.fuel c.giv (Anderson.fn xh) (Anderson.fn p)).2 j - vget x j := by
  refine ⟨_, by rw [anderson_apply_eq, if_pos hi], fun j hj => ?_⟩
  rw [vget_vsub _ _ j (by simpa using hj) (by rw [hx]; exact hj), vget_map_range2 _ _ _ hj]

/-- **The provider's operations stay inside C10's reachable Anderson histories**: `initialize`
    starts one with `g₀ = x̂₀`, `r₀ = p₀`; `changed_γ` either scales the window of residual
    differences by `γ_new/γ_old` (`rescale_on_step_size_changes`) or flushes it keeping the newest
    function value (and, note, the last residual computed with the *old* step size); `reset` flushes. -/
theorem anderson_provider_reach (c : AndersonCfg α) (n : Nat) :
    (∀ st y Sig γ x xh p g, AReach c.fuel c.giv c.inf c.memory c.minDivFac n
        (Anderson.init c n st y Sig γ x xh p g) [] [Anderson.fn xh] (Anderson.fn p)) ∧
    (∀ a W gs rl, AReach c.fuel c.giv c.inf c.memory c.minDivFac n a W gs rl → ∀ γ old : α,
      (c.rescale = true → AReach c.fuel c.giv c.inf c.memory c.minDivFac n
        (Anderson.changedGamma c a γ old) (W.map fun col j => col j * (γ / old)) gs rl) ∧
      (c.rescale = false → AReach c.fuel c.giv c.inf c.memory c.minDivFac n
        (Anderson.changedGamma c a γ old) [] [winFn gs W.length] rl) ∧
      AReach c.fuel c.giv c.inf c.memory c.minDivFac n (Anderson.reset c a) [] [winFn gs W.length] rl) := by
  refine ⟨fun st y Sig γ x xh p g => AReach.init _ _, fun a W gs rl h γ old => ⟨?_, ?_, AReach.reset h⟩⟩
  · intro hr
    simp only [Anderson.changedGamma, (changedGamma_selector _ _ _).2, hr, if_true]
    exact AReach.scale _ h
  · intro hr
    simp only [Anderson.changedGamma, (changedGamma_selector _ _ _).2, hr]
    exact AReach.reset h

/-- **Output relation to the C10 least-squares theorem.**  After ANY history of provider calls
    (`AReach`) and for ANY data — a repeated residual `pₖ = p_last` and linearly dependent residual
    differences included (the repaired `add_column` stores a zero column there): `apply` succeeds,
    moves to the next reachable history (window of residual differences `aaNextW … (pₖ − p_last)`,
    function values `… x̂ₖ`), and
        `q = Σᵢ αᵢ gᵢ − xₖ`,  `Σᵢ αᵢ = 1`,
    over the last `K+1` function values `gᵢ` (the `x̂`'s), `αᵢ` the telescoped coefficients `γ_LS` of
    C10 (`anderson_apply_least_squares`). -/
theorem anderson_apply_affine (c : AndersonCfg α) (hs : SqrtLaw α) (hsn : SqrtNonneg α)
    (hg : GivensOK c.giv) {n : Nat}
    (hm : 0 < min n c.memory) {a : AA α} {W gs : List (ℕ → α)} {rl : ℕ → α}
    (h : AReach c.fuel c.giv c.inf c.memory c.minDivFac n a W gs rl) (γ : α) (x xh p g q0 : Vec α)
    (hx : x.length = n) :
    ∃ st' q, Anderson.apply c a γ x xh p g q0 = .done st' true q ∧
      AReach c.fuel c.giv c.inf c.memory c.minDivFac n st'
        (aaNextW (min n c.memory) W rl (Anderson.fn p)) (aaNextG (min n c.memory) W gs (Anderson.fn xh))
        (Anderson.fn p) ∧
      (∑ i ∈ range ((aaNextW (min n c.memory) W rl (Anderson.fn p)).length + 1),
        aaCoef (readV st'.gamLS) (aaNextW (min n c.memory) W rl (Anderson.fn p)).length i = 1) ∧
      ∀ j < n, vget q j =
        ∑ i ∈ range ((aaNextW (min n c.memory) W rl (Anderson.fn p)).length + 1),
          aaCoef (readV st'.gamLS) (aaNextW (min n c.memory) W rl (Anderson.fn p)).length i *
            winFn (aaNextG (min n c.memory) W gs (Anderson.fn xh)) i j - vget x j := by
  have hi := anderson_history hs hsn hg hm h
  obtain ⟨q, hq, hc⟩ := anderson_q_component c a hi.init γ x xh p g q0 (by rw [hi.an]; exact hx)
  obtain ⟨hsum, haff⟩ := anderson_output_affine hs hsn hg hm h (Anderson.fn xh) (Anderson.fn p)
  refine ⟨_, q, hq, AReach.compute _ _ h, hsum, fun j hj => ?_⟩
  rw [hc j (by rw [hi.an]; exact hj), haff j hj]

/-- … and those coefficients are the least-squares coefficients of C10, after EVERY history and
    for ANY `x̂ₖ`, `pₖ` (`min_div_fac ≥ 0`; `Props.C10.anderson_gamma_least_squares_every` at
    `g = x̂ₖ`, `r = pₖ`): with `tol = max_eig·min_div_fac`, the components of `γ_LS` whose pivot is not
    above `tol` are 0 (in particular those of repeated / dependent residual differences), for every
    other pivot `k` the residual `ΔR γ − pₖ` is orthogonal to `q_k`, and `γ_LS` minimises
    `‖ΔR′ γ − pₖ‖²` over the deflated window `ΔR′`. -/
theorem anderson_apply_least_squares (c : AndersonCfg α) (hs : SqrtLaw α) (hsn : SqrtNonneg α)
    (hg : GivensOK0 c.giv) (hmdf : 0 ≤ c.minDivFac)
    {n : Nat} (hm : 0 < min n c.memory) {a : AA α} {W gs : List (ℕ → α)} {rl : ℕ → α}
    (h : AReach c.fuel c.giv c.inf c.memory c.minDivFac n a W gs rl) (xh p : Vec α) :
    (∀ k < (aaNextW (min n c.memory) W rl (Anderson.fn p)).length,
      |(a.qrNext c.fuel c.giv (Anderson.fn p)).getR k k|
          ≤ aaTol (a.qrNext c.fuel c.giv (Anderson.fn p)).maxEig a.minDivFac →
        readV (a.computeCore c.fuel c.giv (Anderson.fn xh) (Anderson.fn p)).1.gamLS k = 0) ∧
    (∀ k < (aaNextW (min n c.memory) W rl (Anderson.fn p)).length,
      ¬ |(a.qrNext c.fuel c.giv (Anderson.fn p)).getR k k|
          ≤ aaTol (a.qrNext c.fuel c.giv (Anderson.fn p)).maxEig a.minDivFac →
        ∑ j ∈ range n, (a.qrNext c.fuel c.giv (Anderson.fn p)).Q.get j k *
          (∑ i ∈ range (aaNextW (min n c.memory) W rl (Anderson.fn p)).length,
            winFn (aaNextW (min n c.memory) W rl (Anderson.fn p)) i j *
              readV (a.computeCore c.fuel c.giv (Anderson.fn xh) (Anderson.fn p)).1.gamLS i
              - Anderson.fn p j) = 0) ∧
    ∀ z : ℕ → α,
      ∑ j ∈ range n, (∑ k ∈ range (aaNextW (min n c.memory) W rl (Anderson.fn p)).length,
          deflated (a.qrNext c.fuel c.giv (Anderson.fn p))
              (aaTol (a.qrNext c.fuel c.giv (Anderson.fn p)).maxEig a.minDivFac) k j *
            readV (a.computeCore c.fuel c.giv (Anderson.fn xh) (Anderson.fn p)).1.gamLS k
            - Anderson.fn p j) ^ 2 ≤
      ∑ j ∈ range n, (∑ k ∈ range (aaNextW (min n c.memory) W rl (Anderson.fn p)).length,
          deflated (a.qrNext c.fuel c.giv (Anderson.fn p))
              (aaTol (a.qrNext c.fuel c.giv (Anderson.fn p)).maxEig a.minDivFac) k j * z k
            - Anderson.fn p j) ^ 2 :=
  anderson_gamma_least_squares_every hs hsn hg hmdf hm h (Anderson.fn xh) (Anderson.fn p)

/-- The plain least-squares statement: along histories whose residual differences `pₖ − p_last` are
    linearly independent of the ones staying in the window (`AReachI`; nonzero rescaling factors) and
    with no pivot skipped, `γ_LS` minimises `‖ΔR·γ − pₖ‖²` over the window itself. -/
theorem anderson_apply_least_squares_no_truncation (c : AndersonCfg α) (hs : SqrtLaw α)
    (hsn : SqrtNonneg α) (hg : GivensOK c.giv)
    {n : Nat} (hm : 0 < min n c.memory) {a : AA α} {W gs : List (ℕ → α)} {rl : ℕ → α}
    (h : AReachI c.fuel c.giv c.inf c.memory c.minDivFac n a W gs rl) (xh p : Vec α)
    (hind : ¬ ∃ z : ℕ → α, ∀ j < n, Anderson.fn p j - rl j =
      ∑ k ∈ range (if W.length = min n c.memory then W.tail else W).length,
        winFn (if W.length = min n c.memory then W.tail else W) k j * z k)
    (hp : ∀ k < (aaNextW (min n c.memory) W rl (Anderson.fn p)).length,
      ¬ |(a.qrNext c.fuel c.giv (Anderson.fn p)).getR k k|
          ≤ aaTol (a.qrNext c.fuel c.giv (Anderson.fn p)).maxEig a.minDivFac) :
    ∀ z : ℕ → α,
      ∑ j ∈ range n, (∑ k ∈ range (aaNextW (min n c.memory) W rl (Anderson.fn p)).length,
          winFn (aaNextW (min n c.memory) W rl (Anderson.fn p)) k j *
            readV (a.computeCore c.fuel c.giv (Anderson.fn xh) (Anderson.fn p)).1.gamLS k
            - Anderson.fn p j) ^ 2 ≤
      ∑ j ∈ range n, (∑ k ∈ range (aaNextW (min n c.memory) W rl (Anderson.fn p)).length,
          winFn (aaNextW (min n c.memory) W rl (Anderson.fn p)) k j * z k - Anderson.fn p j) ^ 2 :=
  anderson_gamma_least_squares_no_truncation hs hsn hg hm h (Anderson.fn xh) (Anderson.fn p) hind hp

end anderson

/-! ## §5 along PANOC's call sequence: the providers' contracts on the states PANOC reaches -/

section reach
open Alpaqa.Panoc Alpaqa.Props.C09

/-- `NoopDirection` meets the size contract (its `apply` never succeeds). -/
theorem dirSized_noop (n : Nat) (d0 : Latch Noop.State) : DirSized n (noopDir (α := α)) d0 := by
  apply DirSized.of_all
  intro d γ x xh p g q _ _ _ _ h
  exact absurd h (by simp [noopDir, latchApply, Noop.apply, trivial_flags.2.1])

/-! ### LBFGSDirection -/

/-- The operation on the L-BFGS buffer (C09's `Op`) that each call of `LBFGSDirection` on a problem
    of dimension `n` performs. -/
inductive LbfgsCall (c : LbfgsCfg α) (n : Nat) : Op α → Prop
  | init : LbfgsCall c n (.resize n)
  | apply (p : Vec α) (γ : α) : p.length = n → LbfgsCall c n (.apply p γ)
  | update (xk xn pk pn : Vec α) : xk.length = n → xn.length = n → pk.length = n → pn.length = n →
      LbfgsCall c n (.update xk xn pk pn false false)
  | rescale (f : α) : c.rescale = true → LbfgsCall c n (.scaleY f)
  | flush : LbfgsCall c n .reset

theorem LbfgsCall.opDim {c : LbfgsCfg α} {n : Nat} {op : Op α} (h : LbfgsCall c n op) : OpDim n op := by
  cases h <;> simp only [OpDim] <;> first | trivial | exact ⟨‹_›, ‹_›, ‹_›, ‹_›⟩

/-- **Every provider state PANOC reaches is the C09 buffer after `resize n` and a sequence of
    `LbfgsCall`s** — one per provider call, in order: `initialize` ↦ `resize n`,
    `apply` ↦ `apply(pₖ, γₖ)`, `update` ↦ un-forced `update(xₖ, xₙ, pₖ, pₙ, Sign::Negative)`,
    `changed_γ` ↦ `scale_y(γ/γ_old)` or `reset`, `reset` ↦ `reset`. -/
theorem lbfgs_reach_ops (c : LbfgsCfg α) (hm : 1 ≤ c.accel.memory) (n : Nat)
    (d0 d : Latch (Lbfgs.State α)) (h : DirReach n (lbfgsDir c n) d0 d) :
    ∃ (st0 : State α) (ops : List (Op α)), C09.resize c.accel n = some st0 ∧
      d.st = ops.foldl (step c.accel) st0 ∧ ∀ op ∈ ops, LbfgsCall c n op := by
  obtain ⟨st0, h0, _⟩ := (resize_spec c.accel n).2 hm
  have hinit : ∀ e : Latch (Lbfgs.State α), (latchRes e (Lbfgs.init c n e.st)).st = st0 := by
    intro e; simp [latchRes, Lbfgs.init, h0]
  refine ⟨st0, ?_⟩
  induction h with
  | init γ x xh p g _ _ _ _ => exact ⟨[], h0, hinit d0, fun _ h => absurd h (List.not_mem_nil)⟩
  | @reinit d γ x xh p g _ _ _ _ _ ih => exact ⟨[], h0, hinit d, fun _ h => absurd h (List.not_mem_nil)⟩
  | @apply d γ x xh p g q _ _ _ hp _ ih =>
    obtain ⟨ops, _, e, hops⟩ := ih
    refine ⟨ops ++ [Op.apply p γ], h0, ?_, ?_⟩
    · rw [List.foldl_append, ← e]; rfl
    · intro op hop
      rcases List.mem_append.mp hop with h1 | h1
      · exact hops op h1
      · rw [List.mem_singleton] at h1; subst h1; exact LbfgsCall.apply p γ hp
  | @update d γk γn xk xn pk pn gk gn _ h1 h2 h3 h4 _ _ ih =>
    obtain ⟨ops, _, e, hops⟩ := ih
    refine ⟨ops ++ [Op.update xk xn pk pn false false], h0, ?_, ?_⟩
    · rw [List.foldl_append, ← e]; rfl
    · intro op hop
      rcases List.mem_append.mp hop with h5 | h5
      · exact hops op h5
      · rw [List.mem_singleton] at h5; subst h5; exact LbfgsCall.update xk xn pk pn h1 h2 h3 h4
  | @changedGamma d γ old _ ih =>
    obtain ⟨ops, _, e, hops⟩ := ih
    by_cases hr : c.rescale = true
    · refine ⟨ops ++ [Op.scaleY (γ / old)], h0, ?_, ?_⟩
      · rw [List.foldl_append, ← e]
        show Lbfgs.changedGamma c d.st γ old = _
        simp only [Lbfgs.changedGamma, (changedGamma_selector _ _ _).1, hr, if_true, List.foldl_cons,
          List.foldl_nil, step]
      · intro op hop
        rcases List.mem_append.mp hop with h5 | h5
        · exact hops op h5
        · rw [List.mem_singleton] at h5; subst h5; exact LbfgsCall.rescale _ hr
    · refine ⟨ops ++ [Op.reset], h0, ?_, ?_⟩
      · rw [List.foldl_append, ← e]
        show Lbfgs.changedGamma c d.st γ old = _
        have hr' : c.rescale = false := by simpa using hr
        simp only [Lbfgs.changedGamma, (changedGamma_selector _ _ _).1, hr', List.foldl_cons,
          List.foldl_nil, step]
        rfl
      · intro op hop
        rcases List.mem_append.mp hop with h5 | h5
        · exact hops op h5
        · rw [List.mem_singleton] at h5; subst h5; exact LbfgsCall.flush
  | @reset d _ ih =>
    obtain ⟨ops, _, e, hops⟩ := ih
    refine ⟨ops ++ [Op.reset], h0, ?_, ?_⟩
    · rw [List.foldl_append, ← e]; rfl
    · intro op hop
      rcases List.mem_append.mp hop with h5 | h5
      · exact hops op h5
      · rw [List.mem_singleton] at h5; subst h5; exact LbfgsCall.flush

/-- … so it satisfies the size invariant of the buffer. -/
theorem lbfgs_reach_sized (c : LbfgsCfg α) (hm : 1 ≤ c.accel.memory) (n : Nat)
    (d0 d : Latch (Lbfgs.State α)) (h : DirReach n (lbfgsDir c n) d0 d) : SizedSt c.accel n d.st := by
  obtain ⟨st0, ops, h0, e, hops⟩ := lbfgs_reach_ops c hm n d0 d h
  rw [e]
  exact run_sizedSt c.accel hm n ops st0 (resize_sizedSt _ _ _ h0) (fun op ho => (hops op ho).opDim)

/-- **`LBFGSDirection` meets PANOC's size contract on every reachable state** (`memory ≥ 1`; any
    initial state; zero-curvature pairs or not). -/
theorem dirSized_lbfgs (c : LbfgsCfg α) (hm : 1 ≤ c.accel.memory) (n : Nat)
    (d0 : Latch (Lbfgs.State α)) : DirSized n (lbfgsDir c n) d0 := by
  intro d hd γ x xh p g q _ _ hp _ _
  exact apply_length c.accel n d.st (lbfgs_reach_sized c hm n d0 d hd) p hp γ

/-- The side conditions of C09's run theorems hold along a sequence of `LBFGSDirection` calls:
    updates are un-forced, all vectors are `n`-sized; what remains is that no `scale_y` factor is 0
    (none occurs when `rescale_on_step_size_changes` is off, the default). -/
theorem lbfgs_calls_runOK (c : LbfgsCfg α) (hm : 1 ≤ c.accel.memory) (n : Nat) (ops : List (Op α))
    (st : State α) (hs : SizedSt c.accel n st) (hops : ∀ op ∈ ops, LbfgsCall c n op)
    (hf : c.rescale = false ∨ ∀ f, Op.scaleY f ∈ ops → f ≠ 0) : RunOK c.accel st ops := by
  induction ops generalizing st with
  | nil => trivial
  | cons op ops ih =>
    have hop := hops op (List.mem_cons_self)
    refine ⟨?_, ih _ (step_sizedSt c.accel hm n st hs op hop.opDim)
      (fun o ho => hops o (List.mem_cons_of_mem _ ho))
      (hf.imp id (fun h f hfm => h f (List.mem_cons_of_mem _ hfm)))⟩
    cases hop with
    | init => trivial
    | apply p γ _ => trivial
    | update xk xn pk pn h1 h2 h3 h4 =>
      exact ⟨by rw [hs.2.2]; exact h1, by rw [hs.2.2]; exact h2, by rw [hs.2.2]; exact h3,
        by rw [hs.2.2]; exact h4, fun hc => by cases hc⟩
    | rescale f hr =>
      rcases hf with hf | hf
      · rw [hf] at hr; cases hr
      · exact hf f (List.mem_cons_self)
    | flush => trivial

/-- **For every PANOC run with `LBFGSDirection`, every direction handed to the line search is
    `H_k · p_k`**: at every iteration of the run (`runHeads`), whenever an accelerated step is on
    offer, there is the sequence `ops` of buffer operations the provider calls of the run have
    performed so far (`LbfgsCall`s after `resize n`) such that — no `scale_y` factor being 0 — the
    direction is the dense BFGS inverse Hessian `H` (C09) of the history
    `ops.foldl specStep []` of the pairs accepted so far (all of non-zero curvature), with the initial
    scaling `applyGamma`, applied to the current `p_k`.  (`memory ≥ 1`, `min_div_fac ≥ 0`; any
    problem oracles of consistent sizes, parameters, stop schedule.) -/
theorem panoc_lbfgs_direction (c : LbfgsCfg α) (hm : 1 ≤ c.accel.memory) (hmd : 0 ≤ c.accel.minDivFac)
    {n m : Nat} {P : Problem α} (hP : ProblemSized n m P) (d0 : Latch (Lbfgs.State α))
    (pr : Panoc.Params α) (stop : Nat → Bool) (oot : Bool) (x0 y Sig errz0 gV : Vec α) (gS iS : α)
    (hx0 : x0.length = n)
    (hfuel : (run P (lbfgsDir c n) d0 pr stop oot x0 y Sig errz0 gV gS iS).fuelOut = false) :
    ∀ s ∈ runHeads P (lbfgsDir c n) d0 pr stop oot x0 gV gS iS,
      (directionStage (lbfgsDir c n) s).2.2.2.1 ≠ 0 →
      ∃ (st0 : State α) (ops : List (Op α)), C09.resize c.accel n = some st0 ∧
        (∀ op ∈ ops, LbfgsCall c n op) ∧
        ((c.rescale = false ∨ ∀ f, Op.scaleY f ∈ ops → f ≠ 0) →
          HistCurvOK (ops.foldl (specStep c.accel) []) ∧
          (directionStage (lbfgsDir c n) s).2.2.1 =
            H (applyGamma c.accel (ops.foldl (step c.accel) st0) s.curr.gamma)
              (ops.foldl (specStep c.accel) []) s.curr.p) := by
  intro s hs hne
  obtain ⟨hsz, hdk⟩ := runHeads_ok hP (lbfgsDir c n) d0 (dirSized_lbfgs c hm n d0) pr stop oot
    x0 y Sig errz0 gV gS iS hx0 hfuel s hs
  have hdt := directionStage_dt_reach (lbfgsDir c n) d0 s hsz hdk
  obtain ⟨hok, hq⟩ := directionStage_offer (lbfgsDir c n) s hne
  obtain ⟨st0, ops, h0, e, hops⟩ := lbfgs_reach_ops c hm n d0 _ hdt
  refine ⟨st0, ops, h0, hops, fun hf => ?_⟩
  have hrun := lbfgs_calls_runOK c hm n ops st0 (resize_sizedSt _ _ _ h0) hops hf
  set d := (if s.k == 0 then
      ((lbfgsDir c n).init s.d s.curr.gamma s.curr.x s.curr.xhat s.curr.p s.curr.gradPsi, s.tick + 1)
      else (s.d, s.tick)).1 with hd
  have hap : ((lbfgsDir c n).apply d s.curr.gamma s.curr.x s.curr.xhat s.curr.p s.curr.gradPsi s.q).2 =
      ((C09.apply c.accel d.st s.curr.p s.curr.gamma).2.2, (C09.apply c.accel d.st s.curr.p s.curr.gamma).2.1) := rfl
  rw [hap] at hok hq
  simp only [] at hok hq
  have hne' : d.st.isEmpty = false := by
    by_contra hc
    have hc' : d.st.isEmpty = true := by simpa using hc
    rw [apply_empty _ _ _ _ hc'] at hok
    exact absurd hok (by simp)
  rw [e] at hok hq hne'
  have hn : (ops.foldl (step c.accel) st0).n = n :=
    (run_sizedSt c.accel hm n ops st0 (resize_sizedSt _ _ _ h0) (fun op ho => (hops op ho).opDim)).2.2
  have := reachable_apply_dense c.accel hmd n st0 h0 ops hrun s.curr.p s.curr.gamma
    (by rw [hn]; exact hsz.p) hne'
  exact ⟨this.2.1, by rw [hq, this.2.2.1]⟩

/-! ### StructuredLBFGSDirection -/

/-- The operation on the L-BFGS buffer each call of `StructuredLBFGSDirection` on `P` performs:
    `initialize` ↦ `resize n`; `update` ↦ **forced** `update(xₖ, xₙ, ∇ψₖ, ∇ψₙ, Sign::Positive)`;
    `apply` ↦ nothing (`J = ∅`), `apply(p/γ, γ)` (all indices free) or `apply_masked(rhs, γ, J)`;
    `reset` ↦ `reset`; `changed_γ` ↦ nothing. -/
inductive SlbfgsCall (P : SProblem α) : Op α → Prop
  | init : SlbfgsCall P (.resize P.n)
  | applyFull (v : Vec α) (γ : α) : v.length = P.n → SlbfgsCall P (.apply v γ)
  | applyMasked (q : Vec α) (γ : α) (J : List Nat) : SlbfgsCall P (.applyMasked q γ J)
  | update (xk xn gk gn : Vec α) : xk.length = P.n → xn.length = P.n → gk.length = P.n →
      gn.length = P.n → SlbfgsCall P (.update xk xn gk gn true true)
  | flush : SlbfgsCall P .reset

theorem SlbfgsCall.opDim {P : SProblem α} {op : Op α} (h : SlbfgsCall P op) : OpDim P.n op := by
  cases h <;> simp only [OpDim] <;> first | trivial | exact ⟨‹_›, ‹_›, ‹_›, ‹_›⟩

/-- the buffer after `apply`: unchanged, or one `SlbfgsCall` later -/
theorem slbfgs_apply_state (P : SProblem α) (c : SCfg α) (d : Latch (SLbfgs.State α)) (γ : α)
    (x xh p g q : Vec α) (hp : p.length = P.n) :
    ((slbfgsDir P c).apply d γ x xh p g q).1.st = d.st ∨
    ∃ op, SlbfgsCall P op ∧ ((slbfgsDir P c).apply d γ x xh p g q).1.st = step c.accel d.st op := by
  have e : ((slbfgsDir P c).apply d γ x xh p g q).1.st =
      (latchApply d q (SLbfgs.apply P c d.st γ x xh p g q)).1.st := rfl
  rw [e]
  unfold SLbfgs.apply
  simp only []
  split_ifs
  · exact Or.inl rfl
  · exact Or.inr ⟨.apply (slbfgsRhsFull γ x xh p g) (slbfgsFullGamma γ),
      SlbfgsCall.applyFull _ _ (by rw [(slbfgs_kernels γ 0 0 0 0 x xh p g q).1, length_smul]; exact hp), rfl⟩
  · refine Or.inr ⟨.applyMasked (SLbfgs.rhs P c γ x xh p g (P.inactive γ x g)) (slbfgsMaskedGamma γ)
      (P.inactive γ x g), SlbfgsCall.applyMasked _ _ _, ?_⟩
    show _ = maskedState d.st _
    cases C09.applyMasked c.accel d.st (SLbfgs.rhs P c γ x xh p g (P.inactive γ x g))
        (slbfgsMaskedGamma γ) (P.inactive γ x g) with
    | threw => rfl
    | done st' q' ok => cases ok <;> rfl

/-- **Every provider state PANOC reaches is the C09 buffer after `resize n` and a sequence of
    `SlbfgsCall`s** (the argument checks of `initialize` passing, `memory ≥ 1`). -/
theorem slbfgs_reach_ops (P : SProblem α) (c : SCfg α) (hm : 1 ≤ c.accel.memory)
    (hok : slbfgsInitThrows c.hvf c.fd c.fullAug P.provInactive P.provHessL P.provHessPsi P.provBoxD
      P.provGradGi = false)
    (d0 d : Latch (SLbfgs.State α)) (h : DirReach P.n (slbfgsDir P c) d0 d) :
    ∃ (st0 : State α) (ops : List (Op α)), C09.resize c.accel P.n = some st0 ∧
      d.st = ops.foldl (step c.accel) st0 ∧ ∀ op ∈ ops, SlbfgsCall P op := by
  obtain ⟨st0, h0, _⟩ := (resize_spec c.accel P.n).2 hm
  have hinit : ∀ e : Latch (SLbfgs.State α), (latchRes e (SLbfgs.init P c e.st)).st = st0 := by
    intro e; simp [latchRes, SLbfgs.init, hok, h0]
  have snoc : ∀ (ops : List (Op α)) (op : Op α), (∀ o ∈ ops, SlbfgsCall P o) → SlbfgsCall P op →
      ∀ o ∈ ops ++ [op], SlbfgsCall P o := by
    intro ops op h1 h2 o ho
    rcases List.mem_append.mp ho with h5 | h5
    · exact h1 o h5
    · rw [List.mem_singleton] at h5; subst h5; exact h2
  refine ⟨st0, ?_⟩
  induction h with
  | init γ x xh p g _ _ _ _ => exact ⟨[], h0, hinit d0, fun _ h => absurd h (List.not_mem_nil)⟩
  | @reinit d γ x xh p g _ _ _ _ _ ih => exact ⟨[], h0, hinit d, fun _ h => absurd h (List.not_mem_nil)⟩
  | @apply d γ x xh p g q _ _ _ hp _ ih =>
    obtain ⟨ops, _, e, hops⟩ := ih
    rcases slbfgs_apply_state P c d γ x xh p g q hp with hs | ⟨op, hop, hs⟩
    · exact ⟨ops, h0, by rw [hs]; exact e, hops⟩
    · exact ⟨ops ++ [op], h0, by rw [hs, List.foldl_append, ← e]; rfl, snoc ops op hops hop⟩
  | @update d γk γn xk xn pk pn gk gn _ h1 h2 _ _ h5 h6 ih =>
    obtain ⟨ops, _, e, hops⟩ := ih
    exact ⟨ops ++ [Op.update xk xn gk gn true true], h0, by rw [List.foldl_append, ← e]; rfl,
      snoc ops _ hops (SlbfgsCall.update xk xn gk gn h1 h2 h5 h6)⟩
  | @changedGamma d γ old _ ih => exact ih
  | @reset d _ ih =>
    obtain ⟨ops, _, e, hops⟩ := ih
    exact ⟨ops ++ [Op.reset], h0, by rw [List.foldl_append, ← e]; rfl, snoc ops _ hops SlbfgsCall.flush⟩

theorem slbfgs_reach_sized (P : SProblem α) (c : SCfg α) (hm : 1 ≤ c.accel.memory)
    (hok : slbfgsInitThrows c.hvf c.fd c.fullAug P.provInactive P.provHessL P.provHessPsi P.provBoxD
      P.provGradGi = false)
    (d0 d : Latch (SLbfgs.State α)) (h : DirReach P.n (slbfgsDir P c) d0 d) :
    SizedSt c.accel P.n d.st := by
  obtain ⟨st0, ops, h0, e, hops⟩ := slbfgs_reach_ops P c hm hok d0 d h
  rw [e]
  exact run_sizedSt c.accel hm P.n ops st0 (resize_sizedSt _ _ _ h0) (fun op ho => (hops op ho).opDim)

/-- **`StructuredLBFGSDirection` meets PANOC's size contract on every reachable state** (whatever
    the curvatures of the forced pairs, whichever failure policy). -/
theorem dirSized_slbfgs (P : SProblem α) (c : SCfg α) (hm : 1 ≤ c.accel.memory)
    (hok : slbfgsInitThrows c.hvf c.fd c.fullAug P.provInactive P.provHessL P.provHessPsi P.provBoxD
      P.provGradGi = false)
    (d0 : Latch (SLbfgs.State α)) : DirSized P.n (slbfgsDir P c) d0 := by
  intro d hd γ x xh p g q _ _ hp _ hsucc
  have hs := slbfgs_reach_sized P c hm hok d0 d hd
  revert hsucc
  show (latchApply d q (SLbfgs.apply P c d.st γ x xh p g q)).2.1 = true →
    (latchApply d q (SLbfgs.apply P c d.st γ x xh p g q)).2.2.length = P.n
  unfold SLbfgs.apply
  simp only []
  split_ifs with h1 h2
  · intro h; exact absurd h (by simp [latchApply])
  · intro _
    show (C09.apply c.accel d.st (slbfgsRhsFull γ x xh p g) (slbfgsFullGamma γ)).2.1.length = P.n
    exact apply_length c.accel P.n d.st hs _
      (by rw [(slbfgs_kernels γ 0 0 0 0 x xh p g q).1, length_smul]; exact hp) _
  · have hrl := slbfgs_rhs_length P c γ x xh p g (P.inactive γ x g)
    have hfJ : ((SLbfgs.rhs P c γ x xh p g (P.inactive γ x g)).length == (P.inactive γ x g).length) = false := by
      rw [hrl, hp]
      simp only [slbfgsAllFree] at h2
      simpa using fun h => h2 (by simpa using h.symm)
    cases hm' : C09.applyMasked c.accel d.st (SLbfgs.rhs P c γ x xh p g (P.inactive γ x g))
        (slbfgsMaskedGamma γ) (P.inactive γ x g) with
    | threw => intro h; exact absurd h (by simp [latchApply])
    | done st' q' ok =>
      have hl := applyMasked_length _ _ _ _ _ hfJ st' q' ok hm'
      cases ok
      · intro _
        show (SLbfgs.fallback c P.n γ (P.inactive γ x g) q').length = P.n
        unfold SLbfgs.fallback
        split_ifs
        · rw [(slbfgs_kernels γ 0 0 0 0 x xh p g q').2.2.2.2.2.1, length_smul, hl, hrl, hp]
        · rw [setJ_length, hl, hrl, hp]
        · rw [hl, hrl, hp]
      · intro _
        show q'.length = P.n
        rw [hl, hrl, hp]

/-- Along `StructuredLBFGSDirection`'s call sequences C09's side conditions `RunOK` reduce to the
    one thing the wrapper does not guarantee: **no forced pair has zero curvature**
    (`⟨∇ψ(xₙ) − ∇ψ(xₖ), xₙ − xₖ⟩ ≠ 0`).  This is the counted exemption of the check
    (`slbfgs_forced_zero_curvature`). -/
theorem slbfgs_calls_runOK (P : SProblem α) (c : SCfg α) (hm : 1 ≤ c.accel.memory)
    (ops : List (Op α)) (st : State α) (hs : SizedSt c.accel P.n st) (hops : ∀ op ∈ ops, SlbfgsCall P op)
    (hcurv : ∀ xk xn gk gn, Op.update xk xn gk gn true true ∈ ops →
      dot (vsub gn gk) (vsub xn xk) ≠ 0) : RunOK c.accel st ops := by
  induction ops generalizing st with
  | nil => trivial
  | cons op ops ih =>
    have hop := hops op (List.mem_cons_self)
    refine ⟨?_, ih _ (step_sizedSt c.accel hm P.n st hs op hop.opDim)
      (fun o ho => hops o (List.mem_cons_of_mem _ ho))
      (fun xk xn gk gn hmem => hcurv xk xn gk gn (List.mem_cons_of_mem _ hmem))⟩
    cases hop with
    | init => trivial
    | applyFull v γ _ => trivial
    | applyMasked q γ J => trivial
    | update xk xn gk gn h1 h2 h3 h4 =>
      exact ⟨by rw [hs.2.2]; exact h1, by rw [hs.2.2]; exact h2, by rw [hs.2.2]; exact h3,
        by rw [hs.2.2]; exact h4, fun _ => hcurv xk xn gk gn (List.mem_cons_self)⟩
    | flush => trivial

/-- **For every PANOC run with `StructuredLBFGSDirection`**: at every iteration, whenever an
    accelerated step is on offer, it is the vector `SLbfgs.apply` leaves on the buffer
    `ops.foldl step st0` — `ops` the `SlbfgsCall`s the provider calls of the run have performed so far —,
    that buffer satisfies the size invariant (so `slbfgs_apply_partial`'s `Inv` holds), and if no forced
    pair had zero curvature it satisfies `GoodC`, its history is `ops.foldl specStep []`, and in the
    all-free branch the direction is `H·(p/γ)` for the dense BFGS operator of that history. -/
theorem panoc_slbfgs_direction (P : SProblem α) (c : SCfg α) (hm : 1 ≤ c.accel.memory)
    (hmd : 0 ≤ c.accel.minDivFac)
    (hok : slbfgsInitThrows c.hvf c.fd c.fullAug P.provInactive P.provHessL P.provHessPsi P.provBoxD
      P.provGradGi = false)
    {m : Nat} {Pb : Problem α} (hP : ProblemSized P.n m Pb) (d0 : Latch (SLbfgs.State α))
    (pr : Panoc.Params α) (stop : Nat → Bool) (oot : Bool) (x0 y Sig errz0 gV : Vec α) (gS iS : α)
    (hx0 : x0.length = P.n)
    (hfuel : (run Pb (slbfgsDir P c) d0 pr stop oot x0 y Sig errz0 gV gS iS).fuelOut = false) :
    ∀ s ∈ runHeads Pb (slbfgsDir P c) d0 pr stop oot x0 gV gS iS,
      (directionStage (slbfgsDir P c) s).2.2.2.1 ≠ 0 →
      ∃ (st0 : State α) (ops : List (Op α)), C09.resize c.accel P.n = some st0 ∧
        (∀ op ∈ ops, SlbfgsCall P op) ∧ SizedSt c.accel P.n (ops.foldl (step c.accel) st0) ∧
        (∃ st', SLbfgs.apply P c (ops.foldl (step c.accel) st0) s.curr.gamma s.curr.x s.curr.xhat
            s.curr.p s.curr.gradPsi s.q = .done st' true (directionStage (slbfgsDir P c) s).2.2.1) ∧
        ((∀ xk xn gk gn, Op.update xk xn gk gn true true ∈ ops → dot (vsub gn gk) (vsub xn xk) ≠ 0) →
          GoodC c.accel (ops.foldl (step c.accel) st0) ∧
          (ops.foldl (step c.accel) st0).abs = ops.foldl (specStep c.accel) [] ∧
          ((P.inactive s.curr.gamma s.curr.x s.curr.gradPsi).length = P.n → P.n ≠ 0 →
            (directionStage (slbfgsDir P c) s).2.2.1 =
              H (applyGamma c.accel (ops.foldl (step c.accel) st0) s.curr.gamma)
                (ops.foldl (specStep c.accel) []) (smul (1 / s.curr.gamma) s.curr.p))) := by
  intro s hs hne
  obtain ⟨hsz, hdk⟩ := runHeads_ok hP (slbfgsDir P c) d0 (dirSized_slbfgs P c hm hok d0) pr stop oot
    x0 y Sig errz0 gV gS iS hx0 hfuel s hs
  have hdt := directionStage_dt_reach (slbfgsDir P c) d0 s hsz hdk
  obtain ⟨hsucc, hq⟩ := directionStage_offer (slbfgsDir P c) s hne
  obtain ⟨st0, ops, h0, e, hops⟩ := slbfgs_reach_ops P c hm hok d0 _ hdt
  have hsized := run_sizedSt c.accel hm P.n ops st0 (resize_sizedSt _ _ _ h0) (fun op ho => (hops op ho).opDim)
  set d := (if s.k == 0 then
      ((slbfgsDir P c).init s.d s.curr.gamma s.curr.x s.curr.xhat s.curr.p s.curr.gradPsi, s.tick + 1)
      else (s.d, s.tick)).1 with hd
  have hap : (slbfgsDir P c).apply d s.curr.gamma s.curr.x s.curr.xhat s.curr.p s.curr.gradPsi s.q =
      latchApply d s.q (SLbfgs.apply P c d.st s.curr.gamma s.curr.x s.curr.xhat s.curr.p
        s.curr.gradPsi s.q) := rfl
  rw [hap, e] at hsucc hq
  have hdone : ∃ st', SLbfgs.apply P c (ops.foldl (step c.accel) st0) s.curr.gamma s.curr.x
      s.curr.xhat s.curr.p s.curr.gradPsi s.q = .done st' true (directionStage (slbfgsDir P c) s).2.2.1 := by
    cases hres : SLbfgs.apply P c (ops.foldl (step c.accel) st0) s.curr.gamma s.curr.x s.curr.xhat
        s.curr.p s.curr.gradPsi s.q with
    | threw => rw [hres] at hsucc; exact absurd hsucc (by simp [latchApply])
    | done st' ok q' =>
      rw [hres] at hsucc hq
      simp only [latchApply] at hsucc hq
      subst hsucc
      exact ⟨st', by rw [hq]⟩
  refine ⟨st0, ops, h0, hops, hsized, hdone, fun hcurv => ?_⟩
  have hrun := slbfgs_calls_runOK P c hm ops st0 (resize_sizedSt _ _ _ h0) hops hcurv
  obtain ⟨hG0, ha0, _⟩ := resize_goodC c.accel P.n st0 h0
  obtain ⟨hG, habs⟩ := run_goodC c.accel hm hmd ops st0 hG0 hrun
  rw [ha0] at habs
  refine ⟨hG, habs, fun hJ hn => ?_⟩
  obtain ⟨st', hd'⟩ := hdone
  have hne' : (ops.foldl (step c.accel) st0).isEmpty = false := by
    by_contra hc
    have hc' : (ops.foldl (step c.accel) st0).isEmpty = true := by simpa using hc
    rw [slbfgs_apply_all_free_empty P c _ hc' _ _ _ _ _ _ hJ hn] at hd'
    cases hd'
  obtain ⟨st'', h2, _, _⟩ := slbfgs_apply_all_free P c _ hG hne' s.curr.gamma s.curr.x s.curr.xhat
    s.curr.p s.curr.gradPsi s.q hJ hn (by rw [hsized.2.2]; exact hsz.p)
  rw [h2] at hd'
  have hqq := (ApplyRes.done.inj hd').2.2
  rw [← hqq, habs]

/-! ### AndersonDirection -/

open Alpaqa.C10 Alpaqa.Props.C10 in
/-- **Every provider state PANOC reaches is one of C10's reachable Anderson histories** (`AReach`):
    `initialize` starts a fresh one, each `apply` is one `compute(x̂ₖ, pₖ)`, `changed_γ` is `scale_R`
    or `reset`, `update` does nothing. -/
theorem anderson_reach_areach (c : AndersonCfg α) (n : Nat) (y Sig : Vec α)
    (d0 d : Latch (Anderson.State α)) (h : DirReach n (andersonDir c n y Sig) d0 d) :
    ∃ W gs rl, AReach c.fuel c.giv c.inf c.memory c.minDivFac n d.st W gs rl := by
  have hinitd : ∀ {a W gs rl}, AReach c.fuel c.giv c.inf c.memory c.minDivFac n a W gs rl →
      a.initialized = true := by
    intro a W gs rl h
    induction h with
    | init _ _ => rfl
    | reinit _ _ _ _ => rfl
    | compute _ _ _ ih => exact ih
    | reset _ ih => exact ih
    | scale _ _ ih => exact ih
  induction h with
  | init γ x xh p g _ _ _ _ => exact ⟨_, _, _, (anderson_provider_reach c n).1 d0.st y Sig γ x xh p g⟩
  | @reinit d γ x xh p g _ _ _ _ _ _ => exact ⟨_, _, _, (anderson_provider_reach c n).1 d.st y Sig γ x xh p g⟩
  | @apply d γ x xh p g q _ _ _ _ _ ih =>
    obtain ⟨W, gs, rl, hr⟩ := ih
    have e : ((andersonDir c n y Sig).apply d γ x xh p g q).1.st =
        (d.st.computeCore c.fuel c.giv (Anderson.fn xh) (Anderson.fn p)).1 := by
      show (latchApply d q (Anderson.apply c d.st γ x xh p g q)).1.st = _
      rw [anderson_apply_eq, if_pos (hinitd hr)]; rfl
    rw [e]
    exact ⟨_, _, _, AReach.compute (Anderson.fn xh) (Anderson.fn p) hr⟩
  | @update d γk γn xk xn pk pn gk gn _ _ _ _ _ _ _ ih => exact ih
  | @changedGamma d γ old _ ih =>
    obtain ⟨W, gs, rl, hr⟩ := ih
    by_cases hrs : c.rescale = true
    · exact ⟨_, _, _, ((anderson_provider_reach c n).2 _ _ _ _ hr γ old).1 hrs⟩
    · exact ⟨_, _, _, ((anderson_provider_reach c n).2 _ _ _ _ hr γ old).2.1 (by simpa using hrs)⟩
  | @reset d _ ih =>
    obtain ⟨W, gs, rl, hr⟩ := ih
    exact ⟨_, _, _, ((anderson_provider_reach c n).2 _ _ _ _ hr 0 0).2.2⟩

open Alpaqa.C10 in
theorem anderson_reach_n (c : AndersonCfg α) (n : Nat) (y Sig : Vec α)
    (d0 d : Latch (Anderson.State α)) (h : DirReach n (andersonDir c n y Sig) d0 d) : d.st.n = n := by
  induction h with
  | init γ x xh p g _ _ _ _ => rfl
  | @reinit d γ x xh p g _ _ _ _ _ _ => rfl
  | @apply d γ x xh p g q _ _ _ _ _ ih =>
    show (latchApply d q (Anderson.apply c d.st γ x xh p g q)).1.st.n = n
    rw [anderson_apply_eq]
    split_ifs
    · exact ih
    · exact ih
  | @update d γk γn xk xn pk pn gk gn _ _ _ _ _ _ _ ih => exact ih
  | @changedGamma d γ old _ ih =>
    show (Anderson.changedGamma c d.st γ old).n = n
    unfold Anderson.changedGamma
    split <;> exact ih
  | @reset d _ ih => exact ih

open Alpaqa.C10 in
/-- **`AndersonDirection` meets PANOC's size contract on every reachable state.** -/
theorem dirSized_anderson (c : AndersonCfg α) (n : Nat) (y Sig : Vec α)
    (d0 : Latch (Anderson.State α)) : DirSized n (andersonDir c n y Sig) d0 := by
  intro d hd γ x xh p g q hx _ _ _ hsucc
  have hn := anderson_reach_n c n y Sig d0 d hd
  revert hsucc
  show (latchApply d q (Anderson.apply c d.st γ x xh p g q)).2.1 = true →
    (latchApply d q (Anderson.apply c d.st γ x xh p g q)).2.2.length = n
  rw [anderson_apply_eq]
  split_ifs
  · intro _
    show (vsub _ x).length = n
    rw [Panoc.vsub_length, List.length_map, List.length_range, hn, hx]; exact Nat.min_self n
  · intro h; exact absurd h (by simp [latchApply])

open Alpaqa.C10 Alpaqa.Props.C10 Finset in
/-- **PANOC + Anderson, along the run.**  For every head state of a PANOC run with `AndersonDirection`
    (`fuelOut = false`) at which the provider's offer is taken (`τ_init ≠ 0`): the provider's state is
    one of C10's reachable histories (`AReach`, window `W` of residual differences, function values `gs`,
    last residual `rl` — composed from `initialize` and the `apply` / `changed_γ` / `reset` calls of the run
    so far), and the direction handed to the line search is the affine combination
    `q = Σᵢ αᵢ gᵢ − xₖ`, `Σᵢ αᵢ = 1`, of the last function values (the `x̂`'s of the run), with the
    coefficients telescoped from the `γ_LS` of this call (`anderson_apply_least_squares` says which). -/
theorem panoc_anderson_direction (c : AndersonCfg α) (hs : SqrtLaw α) (hsn : SqrtNonneg α)
    (hg : GivensOK c.giv) {n m : Nat} (hm : 0 < min n c.memory)
    {P : Problem α} (hP : ProblemSized n m P) (d0 : Latch (Anderson.State α))
    (pr : Panoc.Params α) (stop : Nat → Bool) (oot : Bool) (x0 y Sig errz0 gV : Vec α) (gS iS : α)
    (hx0 : x0.length = n)
    (hfuel : (run P (andersonDir c n y Sig) d0 pr stop oot x0 y Sig errz0 gV gS iS).fuelOut = false) :
    ∀ s ∈ runHeads P (andersonDir c n y Sig) d0 pr stop oot x0 gV gS iS,
      (directionStage (andersonDir c n y Sig) s).2.2.2.1 ≠ 0 →
      ∃ (a : AA α) (W gs : List (ℕ → α)) (rl : ℕ → α) (st' : AA α),
        AReach c.fuel c.giv c.inf c.memory c.minDivFac n a W gs rl ∧
        Anderson.apply c a s.curr.gamma s.curr.x s.curr.xhat s.curr.p s.curr.gradPsi s.q =
          .done st' true (directionStage (andersonDir c n y Sig) s).2.2.1 ∧
        (∑ i ∈ range ((aaNextW (min n c.memory) W rl (Anderson.fn s.curr.p)).length + 1),
          aaCoef (readV st'.gamLS) (aaNextW (min n c.memory) W rl (Anderson.fn s.curr.p)).length i = 1) ∧
        ∀ j < n, vget (directionStage (andersonDir c n y Sig) s).2.2.1 j =
          ∑ i ∈ range ((aaNextW (min n c.memory) W rl (Anderson.fn s.curr.p)).length + 1),
            aaCoef (readV st'.gamLS) (aaNextW (min n c.memory) W rl (Anderson.fn s.curr.p)).length i *
              winFn (aaNextG (min n c.memory) W gs (Anderson.fn s.curr.xhat)) i j - vget s.curr.x j := by
  intro s hsm hne
  obtain ⟨hsz, hdk⟩ := runHeads_ok hP (andersonDir c n y Sig) d0 (dirSized_anderson c n y Sig d0) pr stop oot
    x0 y Sig errz0 gV gS iS hx0 hfuel s hsm
  have hdt := directionStage_dt_reach (andersonDir c n y Sig) d0 s hsz hdk
  obtain ⟨hok, hq⟩ := directionStage_offer (andersonDir c n y Sig) s hne
  obtain ⟨W, gs, rl, hr⟩ := anderson_reach_areach c n y Sig d0 _ hdt
  obtain ⟨st', q, hap, _, hsum, haff⟩ := anderson_apply_affine c hs hsn hg hm hr s.curr.gamma s.curr.x
    s.curr.xhat s.curr.p s.curr.gradPsi s.q hsz.x
  set d := (if s.k == 0 then
      ((andersonDir c n y Sig).init s.d s.curr.gamma s.curr.x s.curr.xhat s.curr.p s.curr.gradPsi, s.tick + 1)
      else (s.d, s.tick)).1 with hd
  have hq' : (directionStage (andersonDir c n y Sig) s).2.2.1 = q := by
    rw [hq]
    show (latchApply d s.q (Anderson.apply c d.st s.curr.gamma s.curr.x s.curr.xhat s.curr.p
      s.curr.gradPsi s.q)).2.2 = q
    rw [hap]; rfl
  rw [hq']
  exact ⟨_, W, gs, rl, st', hr, hap, hsum, haff⟩

end reach

/-! ## non-vacuity: concrete instances over ℚ -/

section examples
open Alpaqa.Panoc.Example

local instance instPowLikeRat : PowLike ℚ := ⟨fun x _ => x⟩
local instance instHasNaNRat : HasNaN ℚ := ⟨0⟩

/-- flag and vector of an `apply` result -/
def outOf {σ : Type} : ApplyRes σ ℚ → Option (Bool × Vec ℚ)
  | .done _ ok q => some (ok, q)
  | .threw => none

/-- §1: the PANOC run of `Proofs/PanocLoopExample.lean` (ψ = ½‖x‖², x₀ = 1) with the *generated*
    Noop provider: two iterations are reported `Busy` (so `noop_panoc_is_proximal_gradient` speaks
    about a non-empty set of callbacks), both with `τ = 0`, and `x₁ = x̂₀ = 21/40`. -/
example :
    ((Panoc.run Pq noopDir ⟨(), false⟩ prq (stopAt none) false [1] [] [] [] [] 0 0).callbacks.map
      fun cb => (cb.status, cb.tau, cb.it.x, cb.it.xhat)) =
    [(.Busy, 0, [1], [21/40]), (.Busy, 0, [21/40], [441/1600]), (.Converged, -1, [441/1600], [9261/64000])] := by
  decide +kernel

/-- §2: L-BFGS provider, memory 2, default (curvature) scaling, after `initialize(n = 2)` and one
    accepted `update` with `s = (1,1)`, `y = pₖ − pₙₑₓₜ = (1,2)`. -/
def cL : LbfgsCfg ℚ :=
  { accel := { memory := 2, minDivFac := 0, minAbsS := 0, cbfgsAlpha := 1, cbfgsEps := 0,
               forcePosDef := true, curvature := true }, rescale := true }

def stL : C09.State ℚ :=
  (Lbfgs.update cL ((C09.resize cL.accel 2).getD Lbfgs.fresh) 1 1 [0, 0] [1, 1] [1, 2] [0, 0] [] []).1

example : (Lbfgs.update cL ((C09.resize cL.accel 2).getD Lbfgs.fresh) 1 1 [0, 0] [1, 1] [1, 2] [0, 0] [] []).2
    = true ∧ stL.abs = [([1, 1], [1, 2])] ∧ stL.isEmpty = false := by decide +kernel

/-- the hypotheses of `lbfgs_apply_dense` / `lbfgs_rescale_scales_direction` hold for it … -/
example : Props.C09.GoodC cL.accel stL ∧ ([1, 0] : Vec ℚ).length = stL.n ∧ stL.isEmpty = false := by
  refine ⟨?_, by decide +kernel, by decide +kernel⟩
  cases hr : C09.resize cL.accel 2 with
  | none => exact absurd hr (by decide +kernel)
  | some s =>
    obtain ⟨hG, _, hn⟩ := Props.C09.resize_goodC cL.accel 2 s hr
    have hs : (C09.resize cL.accel 2).getD Lbfgs.fresh = s := by rw [hr]; rfl
    unfold stL
    rw [hs, lbfgs_update_pair]
    exact Props.C09.updateSy_goodC cL.accel (le_refl _) s hG _ _ _ false
      ⟨by rw [hn]; rfl, by rw [hn]; rfl, fun h => Bool.noConfusion h⟩

/-- … and `apply` returns the value of C09's dense example, `H(3/5)·(1,0) = (13/15, 1/15)`; after
    `changed_γ(γ = 1/2, γ_old = 1)` with rescaling the direction is doubled. -/
example : outOf (Lbfgs.apply cL stL 1 [] [] [1, 0] [] []) = some (true, [13/15, 1/15]) ∧
    outOf (Lbfgs.apply cL (Lbfgs.changedGamma cL stL (1/2) 1) (1/2) [] [] [1, 0] [] [])
      = some (true, [26/15, 2/15]) ∧
    (1 / 2 : ℚ) / 1 ≠ 0 := by decide +kernel

/-- `H_scale` on that history: `H(1; (s, 2y)) = ½·H(2; (s, y))`. -/
example : H (1 : ℚ) [([1, 1], smul 2 [1, 2])] [1, 0] = smul (1 / 2) (H (2 * 1) [([1, 1], [1, 2])] [1, 0]) :=
  H_scale (2 : ℚ) (by norm_num) 1 [([1, 1], [1, 2])] [1, 0]

/-- without rescaling `changed_γ` flushes and the next `apply` fails with `q = p` -/
example : outOf (Lbfgs.apply { cL with rescale := false }
      (Lbfgs.changedGamma { cL with rescale := false } stL (1/2) 1) (1/2) [] [] [1, 0] [] [7, 7])
    = some (false, [1, 0]) := by decide +kernel

/-- §3: a box problem on `[-1,1]²`, no ℓ1 term, no general constraints; `hessian_vec_factor = 1`
    with the exact Lagrangian Hessian `∇²L v = 2v`. -/
def Pq2 : SProblem ℚ :=
  { n := 2, m := 0, y := [], Sig := [], inactive := boxInactive [] [-1, -1] [1, 1],
    gradPsi := fun x => smul 2 x, hessLProd := fun _ v => smul 2 v, hessPsiProd := fun _ v => smul 2 v,
    g := fun _ => [], gradGi := fun _ _ => [], Dlb := [], Dub := [], provInactive := true,
    provHessL := true, provHessPsi := false, provBoxD := true, provGradGi := false }

def cS (pol : FailurePolicy) : SCfg ℚ :=
  { accel := cL.accel, hvf := 1, fd := false, fullAug := false, policy := pol, cbrtEps := 1/1000 }

/-- the argument checks pass; with `full_augmented_hessian` and no `eval_hess_ψ_prod` /
    `eval_grad_gi` they would throw -/
example : slbfgsInitThrows (cS .UseScaledLBFGSInput).hvf false false Pq2.provInactive Pq2.provHessL
    Pq2.provHessPsi Pq2.provBoxD Pq2.provGradGi = false ∧
    slbfgsInitThrows (1 : ℚ) false true true true false true false = true := by decide +kernel

/-- the forced update stores a pair without curvature on index 0 (`s = y = (0,1)`) -/
def stS : C09.State ℚ :=
  (SLbfgs.update (cS .UseScaledLBFGSInput) ((C09.resize cL.accel 2).getD SLbfgs.fresh) 1 1 [0, 0] [0, 1]
    [] [] [0, 0] [0, 1]).1

/-- J/K partition at `x = (0, 3/2)`, `∇ψ = (1, 1)`, `γ = 1/2`: the forward point is `(−1/2, 1)`,
    index 0 is strictly inside the box (inactive), index 1 sits on the bound (active). -/
example : Pq2.inactive (1/2) [0, 3/2] [1, 1] = [0] ∧ ([0] : List Nat) ≠ [] ∧ ([0] : List Nat).length ≠ Pq2.n ∧
    ([0] : List Nat).Nodup ∧ (∀ j ∈ ([0] : List Nat), j < Pq2.n) ∧ stS.isEmpty = false ∧
    (∀ a : ℚ, RealLike.isNaN a = false) ∧
    cbfgsEnabled (cS .UseScaledLBFGSInput).accel.cbfgsAlpha (cS .UseScaledLBFGSInput).accel.cbfgsEps = false := by
  refine ⟨by decide +kernel, by decide, by decide, by decide, by decide, by decide +kernel, fun _ => rfl,
    by decide +kernel⟩

/-- the right-hand side there: `q_K = p_1 = −1/2` is kept, `q_0 = p_0/γ − 1·(∇²L (0, p_1))_0 = −1 − 0` -/
example : SLbfgs.rhs Pq2 (cS .UseScaledLBFGSInput) (1/2) [0, 3/2] [] [-1/2, -1/2] [1, 1] [0] = [-1, -1/2] := by
  decide +kernel

/-- the stored pair is invalid on `J = {0}` (`s_J = 0`), so `apply_masked` fails
    (`slbfgs_apply_failure_no_valid`): `UseScaledLBFGSInput` returns `q = (−1·γ, p_1) = (−1/2, −1/2)` and
    reports success, `FallbackToProjectedGradient` reports failure. -/
example : (∀ cc ∈ stS.pairs, validJ (cS .UseScaledLBFGSInput).accel false [0] cc = false) ∧
    outOf (SLbfgs.apply Pq2 (cS .UseScaledLBFGSInput) stS (1/2) [0, 3/2] [] [-1/2, -1/2] [1, 1] [9, 9])
      = some (true, [-1/2, -1/2]) ∧
    outOf (SLbfgs.apply Pq2 (cS .FallbackToProjectedGradient) stS (1/2) [0, 3/2] [] [-1/2, -1/2] [1, 1] [9, 9])
      = some (false, [-1, -1/2]) := by decide +kernel

/-- with a pair that has curvature on `J` the masked system is solved: `s = y = (1,1)` gives
    `H_J = 1`, `q_0 = rhs_0 = −1`, `q_1 = p_1` (`slbfgs_apply_partial`, `ok = true`);
    `J = ∅` (both forward components outside) fails without touching `q`; `J` full is plain L-BFGS
    on `p/γ`. -/
example :
    let st := (SLbfgs.update (cS .UseScaledLBFGSInput) ((C09.resize cL.accel 2).getD SLbfgs.fresh) 1 1
      [0, 0] [1, 1] [] [] [0, 0] [1, 1]).1
    outOf (SLbfgs.apply Pq2 (cS .UseScaledLBFGSInput) st (1/2) [0, 3/2] [] [-1/2, -1/2] [1, 1] [9, 9])
      = some (true, [-1, -1/2]) ∧
    outOf (SLbfgs.apply Pq2 (cS .UseScaledLBFGSInput) st (1/2) [2, 3/2] [] [-1, -1/2] [1, 1] [9, 9])
      = some (false, [9, 9]) ∧
    outOf (SLbfgs.apply Pq2 (cS .UseScaledLBFGSInput) st (1/2) [0, 0] [] [-1/2, -1/2] [1, 1] [9, 9])
      = some (true, [-1, -1]) := by decide +kernel

/-- §4: Anderson provider (memory 2, n = 3) over ℚ with Eigen's Givens rotation (`sqrt := id` is a
    true square root on the values this run meets): `apply` before `initialize` throws; after
    `initialize(x̂₀, p₀)` the side condition `norm_q ≠ 0` of `anderson_apply_affine` holds for
    `p₁ ≠ p₀`, and the history is reachable. -/
def cA : AndersonCfg ℚ :=
  { memory := 2, minDivFac := 1/1000, rescale := true, inf := 1000, fuel := 4, giv := C10.givensEigen }

def aA : C10.AA ℚ := Anderson.init cA 3 (Anderson.fresh cA) [] [] 1 [0, 0, 0] [1, 2, 3] [1, 0, 0] []

example : outOf (Anderson.apply cA (Anderson.fresh cA) 1 [0, 0, 0] [1, 2, 3] [1, 0, 0] [] []) = none ∧
    aA.initialized = true ∧ 0 < min 3 cA.memory ∧ 0 ≤ cA.minDivFac := by
  decide +kernel

example : Props.C10.AReach cA.fuel cA.giv cA.inf cA.memory cA.minDivFac 3 aA [] [Anderson.fn [1, 2, 3]]
    (Anderson.fn [1, 0, 0]) := (anderson_provider_reach cA 3).1 _ _ _ _ _ _ _ _

/-- first accelerated point: with one residual difference `Δr = −p₀`, `γ_LS = 0` solves
    `min ‖Δr γ − 0‖`, so `x_AA = g₁ = x̂₁` and `q = x̂₁ − x₁` -/
example : outOf (Anderson.apply cA aA 1 [1, 1, 1] [2, 2, 2] [0, 0, 0] [] []) = some (true, [1, 1, 1]) := by
  decide +kernel

/-- **the formerly excluded point** `pₖ = p_last` (residual difference 0, `norm_q = 0`): the repaired
    `add_column` stores a zero column, `solve_col` skips the zero pivot (`γ_LS = 0`), and the provider
    returns the finite direction `q = x̂ₖ − xₖ` — twice in a row, so also with a dependent column
    already in the window. -/
example :
    (match Anderson.apply cA aA 1 [1, 1, 1] [2, 2, 2] [1, 0, 0] [] [] with
     | .done st ok q => some (ok, q, (List.range 1).map (C10.readV st.gamLS),
         outOf (Anderson.apply cA st 1 [0, 1, 0] [3, 1, 2] [1, 0, 0] [] []))
     | .threw => none) = some (true, [1, 1, 1], [0], some (true, [3, 0, 2])) := by
  decide +kernel

/-- Every hypothesis of `anderson_apply_affine` / `anderson_apply_least_squares` at once, over ℝ with
    `Real.sqrt` and Eigen's Givens rotation (`Props.C10.gE`), at the formerly excluded point: the
    history `initialize(x̂₀, p₀)` followed by `apply` with `pₖ = p₀`. -/
noncomputable def cR : AndersonCfg ℝ :=
  { memory := 2, minDivFac := 1/1000, rescale := true, inf := 1000, fuel := 8, giv := Props.C10.gE }

local instance instPowLikeReal : PowLike ℝ := ⟨fun x _ => x⟩
local instance instHasNaNReal : HasNaN ℝ := ⟨0⟩

example :=
  anderson_apply_affine cR Props.C10.sqrtLaw_real Props.C10.sqrtNonneg_real Props.C10.gE_ok (n := 3)
    (by simp [cR]) ((anderson_provider_reach cR 3).1 (Anderson.fresh cR) [] [] 1 [0, 0, 0] [1, 2, 3] [1, 0, 0] [])
    1 [1, 1, 1] [2, 2, 2] [1, 0, 0] [] [] rfl

example := anderson_apply_least_squares cR Props.C10.sqrtLaw_real Props.C10.sqrtNonneg_real
  Props.C10.gE_ok0 (by norm_num [cR]) (n := 3) (by simp [cR])
  ((anderson_provider_reach cR 3).1 (Anderson.fresh cR) [] [] 1 [0, 0, 0] [1, 2, 3] [1, 0, 0] [])
  [2, 2, 2] [1, 0, 0]

end examples

end Alpaqa.Props.Directions
