/-
  C06 (loop level, PANOC) — iteration count, exit status and reported residual of
  `PANOCSolver::operator()`.

  Objects: the loop model `Alpaqa.Panoc.run` (`Model/Panoc.lean`, tied to panoc.tpp by bit-exact
  trace replay) with the translator-generated `statusChain`, `calcErrorStopCrit`,
  `noProgressUpdate` (`Gen/C06.lean`).  Every theorem quantifies over *all* problem oracles,
  direction providers, stop schedules (any `Nat → Bool`), the time-limit oracle, all budgets
  (`max_iter = 0` included), all ten criteria and *any* carrier (IEEE doubles included): they are
  facts about which value ends up where.  Combined with the chain theorems of `Props/C06.lean`
  they give the property's loop-level clauses.

  Fuel.  The `…_of_fuel` forms hold over any carrier for any stop schedule and assume
  `fuelOut = false` (the model's explicit loop fuel did not run out; asserted by the replay on every
  recorded run).  The main forms (section `fuel`, ordered field) replace that assumption by the
  explicit hypotheses of `Proofs/PanocFuel.run_fuel_suffices`: a monotone stop flag and
  `FuelOK pr n K` (`L_max ≤ L_start·2ⁿ`, `ρᴷ < min_linesearch_coefficient`, `(n+1)(K+1) ≤ lsFuel`).
  `iterations_le_max_iter`, `no_progress_counter_is_npRun` and `early_return` need neither.
-/
import Alpaqa.Proofs.PanocLoop
import Alpaqa.Props.C06
import Alpaqa.Proofs.PanocLoopExample
import Alpaqa.Proofs.PanocFuel
import Alpaqa.Proofs.PanocDoc

namespace Alpaqa.Props.C06Panoc
open Alpaqa Alpaqa.Panoc Alpaqa.Gen Alpaqa.Props.C06
set_option linter.unusedSectionVars false
set_option linter.unusedVariables false

section generic
variable {α D : Type} [Add α] [Sub α] [Mul α] [Div α] [Neg α] [LT α] [LE α] [DecidableLT α]
  [DecidableLE α] [BEq α] [RealLike α] [NatCast α] [OfScientific α]
  [OfNat α 0] [OfNat α 1] [OfNat α 2] [OfNat α 100]

/-! ### Iteration count -/

theorem iterBody_k_le (P : Problem α) (dir : Direction D α) (pr : Params α) (stop : Nat → Bool)
    (s : St α D) (eps : α) : (iterBody P dir pr stop s eps).k ≤ s.k + 1 := by
  by_cases h : stop (iterLs P dir pr stop s).tick = true
  · rw [(iterBody_interrupted P dir pr stop s eps h).1]; exact Nat.le_succ _
  · rw [(iterBody_advanced P dir pr stop s eps (by simpa using h)).1]

/-- A `Busy` head has `k ≠ max_iter` (chain theorem `busy_only_if`). -/
theorem head_busy_k_ne (P : Problem α) (pr : Params α) (stop : Nat → Bool) (oot : Bool) (s : St α D)
    (hb : (headStep P pr stop oot s).2.2 = .Busy) : s.k ≠ pr.maxIter := by
  have h := (headStep_status P pr stop oot s).2
  rw [hb, (headStep_fields P pr stop oot s).1] at h
  exact (busy_only_if _ _ _ _ _ _ _ _ h.symm).2.2.1

theorem mainLoop_iterations_le (P : Problem α) (dir : Direction D α) (pr : Params α)
    (stop : Nat → Bool) (oot : Bool) (x0 y Sig errz0 : Vec α) (fuel : Nat) (s : St α D)
    (hk : s.k ≤ pr.maxIter) :
    (mainLoop P dir pr stop oot x0 y Sig errz0 fuel s).stats.iterations ≤ pr.maxIter := by
  induction fuel generalizing s with
  | zero => simpa [mainLoop, exitBlock] using hk
  | succ f ih =>
    unfold mainLoop
    simp only []
    have hf := headStep_fields P pr stop oot s
    split_ifs with hb
    · rw [(exitBlock_fields P pr _ _ _ x0 y Sig errz0).2.2.1, hf.1]; exact hk
    · have hbusy : (headStep P pr stop oot s).2.2 = .Busy := by simpa using hb
      have hne := head_busy_k_ne P pr stop oot s hbusy
      apply ih
      have := iterBody_k_le P dir pr stop (headStep P pr stop oot s).1 (headStep P pr stop oot s).2.1
      rw [hf.1] at this
      omega

theorem initState_k (P : Problem α) (d0 : D) (pr : Params α) (stop : Nat → Bool) (x0 gV : Vec α)
    (gS iS : α) (s : St α D) (h : initState P d0 pr stop x0 gV gS iS = .inr s) : s.k = 0 ∧ s.noProgress = 0 ∧ s.cbs = [] := by
  unfold initState at h
  simp only [] at h
  split_ifs at h
  all_goals first
    | (injection h with h; subst h; exact ⟨rfl, rfl, rfl⟩)
    | (exact absurd h (by simp))

/-- **The iteration count never exceeds `max_iter`** — for every oracle, stop schedule, budget
    (no fuel hypothesis needed). -/
theorem iterations_le_max_iter (P : Problem α) (dir : Direction D α) (d0 : D) (pr : Params α)
    (stop : Nat → Bool) (oot : Bool) (x0 y Sig errz0 gV : Vec α) (gS iS : α) :
    (run P dir d0 pr stop oot x0 y Sig errz0 gV gS iS).stats.iterations ≤ pr.maxIter := by
  unfold run
  cases hi : initState P d0 pr stop x0 gV gS iS with
  | inl t => simp [stats0]
  | inr s =>
    simp only []
    exact mainLoop_iterations_le P dir pr stop oot x0 y Sig errz0 _ s
      (by rw [(initState_k P d0 pr stop x0 gV gS iS s hi).1]; exact Nat.zero_le _)

/-! ### The exit status is the generated chain at the last loop head -/

/-- State at the last loop head of a solve (after the head's own evaluation of `∇ψ(x̂)`),
    `none` when the solver returned before the main loop (non-finite Lipschitz estimate). -/
def finalHead (P : Problem α) (dir : Direction D α) (d0 : D) (pr : Params α) (stop : Nat → Bool)
    (oot : Bool) (x0 gV : Vec α) (gS iS : α) : Option (St α D) :=
  match initState P d0 pr stop x0 gV gS iS with
  | .inl _ => none
  | .inr s => some (headStep P pr stop oot (lastHead P dir pr stop oot (pr.maxIter + 2) s)).1

/-- The result of a solve that reached the main loop is the exit block applied at the last head,
    with the status and `ε` computed there. -/
theorem run_eq_exit_of_fuel (P : Problem α) (dir : Direction D α) (d0 : D) (pr : Params α)
    (stop : Nat → Bool) (oot : Bool) (x0 y Sig errz0 gV : Vec α) (gS iS : α) (sh : St α D)
    (hfuel : (run P dir d0 pr stop oot x0 y Sig errz0 gV gS iS).fuelOut = false)
    (hh : finalHead P dir d0 pr stop oot x0 gV gS iS = some sh) :
    statusOf pr sh.k (epsOf P pr sh.curr) sh.noProgress oot (stop sh.tick) ≠ .Busy ∧
    run P dir d0 pr stop oot x0 y Sig errz0 gV gS iS =
      exitBlock P pr sh (epsOf P pr sh.curr)
        (statusOf pr sh.k (epsOf P pr sh.curr) sh.noProgress oot (stop sh.tick)) x0 y Sig errz0 := by
  unfold finalHead at hh
  unfold run at hfuel ⊢
  cases hi : initState P d0 pr stop x0 gV gS iS with
  | inl t => rw [hi] at hh; exact absurd hh (by simp)
  | inr s =>
    rw [hi] at hh
    simp only [hi] at hfuel ⊢
    injection hh with hh
    have h := mainLoop_eq_exit P dir pr stop oot x0 y Sig errz0 _ s hfuel
    subst hh
    exact h

/-- **The returned status is the generated chain evaluated at the last loop head** on the final
    current iterate: `status = statusChain tol max_iter max_no_progress k ε no_progress oot stop`
    with `ε` the generated criterion of that iterate, `k` the returned iteration count. -/
theorem final_status_is_chain_of_fuel (P : Problem α) (dir : Direction D α) (d0 : D) (pr : Params α)
    (stop : Nat → Bool) (oot : Bool) (x0 y Sig errz0 gV : Vec α) (gS iS : α) (sh : St α D)
    (hfuel : (run P dir d0 pr stop oot x0 y Sig errz0 gV gS iS).fuelOut = false)
    (hh : finalHead P dir d0 pr stop oot x0 gV gS iS = some sh) :
    (run P dir d0 pr stop oot x0 y Sig errz0 gV gS iS).stats.status =
      statusChain pr.tolerance pr.maxIter pr.maxNoProgress sh.k (epsOf P pr sh.curr) sh.noProgress oot
        (stop sh.tick) ∧
    (run P dir d0 pr stop oot x0 y Sig errz0 gV gS iS).stats.eps = epsOf P pr sh.curr ∧
    (run P dir d0 pr stop oot x0 y Sig errz0 gV gS iS).stats.iterations = sh.k ∧
    (run P dir d0 pr stop oot x0 y Sig errz0 gV gS iS).stats.status ≠ .Busy := by
  have h := run_eq_exit_of_fuel P dir d0 pr stop oot x0 y Sig errz0 gV gS iS sh hfuel hh
  have hf := exitBlock_fields P pr sh (epsOf P pr sh.curr)
    (statusOf pr sh.k (epsOf P pr sh.curr) sh.noProgress oot (stop sh.tick)) x0 y Sig errz0
  rw [h.2]
  exact ⟨hf.1, hf.2.1, hf.2.2.1, by rw [hf.1]; exact h.1⟩

/-- **`Converged` is reported exactly when the reported `ε` is `≤` the requested tolerance**
    (`tolerance' = tolerance` if positive, else `1e-8`), for every solve that reached the main loop. -/
theorem converged_iff_eps_le_tol_of_fuel (P : Problem α) (dir : Direction D α) (d0 : D) (pr : Params α)
    (stop : Nat → Bool) (oot : Bool) (x0 y Sig errz0 gV : Vec α) (gS iS : α) (sh : St α D)
    (hfuel : (run P dir d0 pr stop oot x0 y Sig errz0 gV gS iS).fuelOut = false)
    (hh : finalHead P dir d0 pr stop oot x0 gV gS iS = some sh) :
    (run P dir d0 pr stop oot x0 y Sig errz0 gV gS iS).stats.status = .Converged ↔
      (run P dir d0 pr stop oot x0 y Sig errz0 gV gS iS).stats.eps ≤ effTol pr.tolerance := by
  have h := final_status_is_chain_of_fuel P dir d0 pr stop oot x0 y Sig errz0 gV gS iS sh hfuel hh
  rw [h.1, h.2.1]
  exact converged_iff _ _ _ _ _ _ _ _

/-- The other statuses mean what the chain says, evaluated on the returned statistics:
    `MaxIter ⇒ iterations = max_iter`, `NotFinite ⇒ ε not finite`, `Interrupted ⇒ the stop flag was
    visible at the last head`, `MaxTime ⇒ out of time`; `Exception` is never returned. -/
theorem status_meaning_of_fuel (P : Problem α) (dir : Direction D α) (d0 : D) (pr : Params α)
    (stop : Nat → Bool) (oot : Bool) (x0 y Sig errz0 gV : Vec α) (gS iS : α) (sh : St α D)
    (hfuel : (run P dir d0 pr stop oot x0 y Sig errz0 gV gS iS).fuelOut = false)
    (hh : finalHead P dir d0 pr stop oot x0 gV gS iS = some sh) :
    ((run P dir d0 pr stop oot x0 y Sig errz0 gV gS iS).stats.status = .MaxIter →
      (run P dir d0 pr stop oot x0 y Sig errz0 gV gS iS).stats.iterations = pr.maxIter) ∧
    ((run P dir d0 pr stop oot x0 y Sig errz0 gV gS iS).stats.status = .NotFinite →
      RealLike.isFinite (run P dir d0 pr stop oot x0 y Sig errz0 gV gS iS).stats.eps = false) ∧
    ((run P dir d0 pr stop oot x0 y Sig errz0 gV gS iS).stats.status = .Interrupted →
      stop sh.tick = true) ∧
    ((run P dir d0 pr stop oot x0 y Sig errz0 gV gS iS).stats.status = .MaxTime → oot = true) ∧
    ((run P dir d0 pr stop oot x0 y Sig errz0 gV gS iS).stats.status = .NoProgress →
      sh.noProgress > pr.maxNoProgress) ∧
    (run P dir d0 pr stop oot x0 y Sig errz0 gV gS iS).stats.status ≠ .Exception := by
  have h := final_status_is_chain_of_fuel P dir d0 pr stop oot x0 y Sig errz0 gV gS iS sh hfuel hh
  rw [h.1, h.2.1, h.2.2.1]
  exact ⟨maxIter_only_if _ _ _ _ _ _ _ _, notFinite_only_if _ _ _ _ _ _ _ _,
    interrupted_only_if _ _ _ _ _ _ _ _, maxTime_only_if _ _ _ _ _ _ _ _,
    noProgress_only_if _ _ _ _ _ _ _ _, never_exception _ _ _ _ _ _ _ _⟩

/-! ### The reported ε is the criterion of the iterate that is written back -/

/-- Only the Ipopt criterion reads `ŷ`. -/
theorem crit_yhat_irrelevant (c : PANOCStopCrit) (hc : c ≠ .Ipopt)
    (prox : α → Vec α → Vec α → Vec α × Vec α) (p : Vec α) (γ : α) (x xh yh yh' g gh : Vec α) :
    calcErrorStopCrit c prox p γ x xh yh g gh = calcErrorStopCrit c prox p γ x xh yh' g gh := by
  cases c <;> first | rfl | exact absurd rfl hc

/-- **`ε` in the statistics and in the last callback is `calc_error_stop_crit` of the fields of
    the iterate that is written back**: `(p, γ, x, x̂, ∇ψ(x), ∇ψ(x̂))` of the final iterate `c`
    (whose `x̂` is the returned `x`) and its `ŷ` (only the Ipopt criterion reads `ŷ`, and then the loop
    head has evaluated `ŷ(x̂)` — also with eager evaluation — so that the exit block does not touch it any
    more). The last callback reports exactly the head's iterate, that `ε`, the exit status and the
    returned iteration count. -/
theorem eps_from_final_iterate_of_fuel (P : Problem α) (dir : Direction D α) (d0 : D) (pr : Params α)
    (stop : Nat → Bool) (oot : Bool) (x0 y Sig errz0 gV : Vec α) (gS iS : α) (sh : St α D)
    (hfuel : (run P dir d0 pr stop oot x0 y Sig errz0 gV gS iS).fuelOut = false)
    (hh : finalHead P dir d0 pr stop oot x0 gV gS iS = some sh) :
    ∃ c cb, (run P dir d0 pr stop oot x0 y Sig errz0 gV gS iS).final = some c ∧
      (run P dir d0 pr stop oot x0 y Sig errz0 gV gS iS).stats.eps =
        calcErrorStopCrit pr.stopCrit (fun g x gr => ((P.prox g x gr).2.1, (P.prox g x gr).2.2))
          c.p c.gamma c.x c.xhat sh.curr.yhat c.gradPsi c.gradPsiHat ∧
      (run P dir d0 pr stop oot x0 y Sig errz0 gV gS iS).stats.eps =
          calcErrorStopCrit pr.stopCrit (fun g x gr => ((P.prox g x gr).2.1, (P.prox g x gr).2.2))
            c.p c.gamma c.x c.xhat c.yhat c.gradPsi c.gradPsiHat ∧
      ((run P dir d0 pr stop oot x0 y Sig errz0 gV gS iS).wrote = true →
        (run P dir d0 pr stop oot x0 y Sig errz0 gV gS iS).x = c.xhat ∧
        (run P dir d0 pr stop oot x0 y Sig errz0 gV gS iS).y = c.yhat) ∧
      (run P dir d0 pr stop oot x0 y Sig errz0 gV gS iS).callbacks.getLast? = some cb ∧
      cb.it = sh.curr ∧ cb.eps = (run P dir d0 pr stop oot x0 y Sig errz0 gV gS iS).stats.eps ∧
      cb.status = (run P dir d0 pr stop oot x0 y Sig errz0 gV gS iS).stats.status ∧
      cb.k = (run P dir d0 pr stop oot x0 y Sig errz0 gV gS iS).stats.iterations := by
  have h := run_eq_exit_of_fuel P dir d0 pr stop oot x0 y Sig errz0 gV gS iS sh hfuel hh
  rw [h.2]
  have hf := exitBlock_fields P pr sh (epsOf P pr sh.curr)
    (statusOf pr sh.k (epsOf P pr sh.curr) sh.noProgress oot (stop sh.tick)) x0 y Sig errz0
  have hcb := exitBlock_callbacks P pr sh (epsOf P pr sh.curr)
    (statusOf pr sh.k (epsOf P pr sh.curr) sh.noProgress oot (stop sh.tick)) x0 y Sig errz0
  obtain ⟨c, hc, hx, hxh, hp, hg, hgr, hgrh, hL, hsame, hw⟩ := exitBlock_final P pr sh (epsOf P pr sh.curr)
    (statusOf pr sh.k (epsOf P pr sh.curr) sh.noProgress oot (stop sh.tick)) x0 y Sig errz0
  have heps : epsOf P pr sh.curr =
      calcErrorStopCrit pr.stopCrit (fun g x gr => ((P.prox g x gr).2.1, (P.prox g x gr).2.2))
        c.p c.gamma c.x c.xhat sh.curr.yhat c.gradPsi c.gradPsiHat := by
    rw [hx, hxh, hp, hg, hgr, hgrh]; rfl
  refine ⟨c, { k := sh.k, status := statusOf pr sh.k (epsOf P pr sh.curr) sh.noProgress oot (stop sh.tick),
                 it := sh.curr, fbe := sh.curr.fbe, q := [], tau := -1, eps := epsOf P pr sh.curr },
    hc, ?_, ?_, hw, ?_, rfl, ?_, ?_, ?_⟩
  · rw [hf.2.1]; exact heps
  · rw [hf.2.1, heps]
    by_cases hi : pr.stopCrit = .Ipopt
    · -- the head of an Ipopt run has evaluated ŷ: the exit block leaves the iterate alone
      have hv : sh.yhatValid = true := by
        unfold finalHead at hh
        cases hs : initState P d0 pr stop x0 gV gS iS with
        | inl t => rw [hs] at hh; exact absurd hh (by simp)
        | inr s0 =>
          rw [hs] at hh
          injection hh with hh
          rw [← hh, (headStep_curr P pr stop oot _).2.1]
          unfold headYhatValid headReadsYhat
          rw [hi]; simp
      rw [hsame (by rw [hv]; simp)]
    · exact crit_yhat_irrelevant _ hi _ _ _ _ _ _ _ _ _
  · rw [hcb]; simp
  · rw [hf.2.1]
  · rw [hf.1]
  · rw [hf.2.2.1]

/-! ### The no-progress counter -/

theorem lastHead_np (P : Problem α) (dir : Direction D α) (pr : Params α) (stop : Nat → Bool)
    (oot : Bool) (fuel : Nat) (s : St α D) :
    (lastHead P dir pr stop oot fuel s).noProgress =
      npRun pr.maxNoProgress s.k s.noProgress (stepFlags P dir pr stop oot fuel s) ∧
    (lastHead P dir pr stop oot fuel s).k = s.k + (stepFlags P dir pr stop oot fuel s).length := by
  induction fuel generalizing s with
  | zero => simp [lastHead, stepFlags, npRun]
  | succ f ih =>
    unfold lastHead stepFlags
    simp only []
    split_ifs with hb hk
    · simp [npRun]
    · -- completed iteration
      have hf := headStep_fields P pr stop oot s
      have hi := ih (iterBody P dir pr stop (headStep P pr stop oot s).1 (headStep P pr stop oot s).2.1)
      by_cases hst : stop (iterLs P dir pr stop (headStep P pr stop oot s).1).tick = true
      · have := (iterBody_interrupted P dir pr stop (headStep P pr stop oot s).1
          (headStep P pr stop oot s).2.1 hst).1
        rw [this, hf.1] at hk; omega
      · have hst' : stop (iterLs P dir pr stop (headStep P pr stop oot s).1).tick = false := by
          simpa using hst
        have ha := iterBody_advanced P dir pr stop (headStep P pr stop oot s).1
          (headStep P pr stop oot s).2.1 hst'
        have hfl := iterBody_flag P dir pr stop (headStep P pr stop oot s).1
          (headStep P pr stop oot s).2.1 hst'
        rw [hi.1, hi.2]
        simp only [List.singleton_append, npRun, List.length_cons]
        rw [ha.1, ha.2.1, hf.1, hf.2.1, hfl.1]
        exact ⟨rfl, by omega⟩
    · -- interrupted line search: k, counter unchanged
      have hf := headStep_fields P pr stop oot s
      have hi := ih (iterBody P dir pr stop (headStep P pr stop oot s).1 (headStep P pr stop oot s).2.1)
      by_cases hst : stop (iterLs P dir pr stop (headStep P pr stop oot s).1).tick = true
      · have hint := iterBody_interrupted P dir pr stop (headStep P pr stop oot s).1
          (headStep P pr stop oot s).2.1 hst
        rw [hi.1, hi.2, hint.1, hint.2.1, hf.1, hf.2.1]
        simp
      · have hst' : stop (iterLs P dir pr stop (headStep P pr stop oot s).1).tick = false := by
          simpa using hst
        have := (iterBody_advanced P dir pr stop (headStep P pr stop oot s).1
          (headStep P pr stop oot s).2.1 hst').1
        rw [hf.1] at this
        exact absurd this hk

/-- The "iterate unchanged" flags of the completed iterations of a solve (`xₖ == xₖ₊₁`, the `x`
    reported by callback `k` against the next current `x`). -/
def runFlags (P : Problem α) (dir : Direction D α) (d0 : D) (pr : Params α) (stop : Nat → Bool)
    (oot : Bool) (x0 gV : Vec α) (gS iS : α) : List Bool :=
  match initState P d0 pr stop x0 gV gS iS with
  | .inl _ => []
  | .inr s => stepFlags P dir pr stop oot (pr.maxIter + 2) s

/-- **The model's no-progress counter along a run is `npRun` of the per-iteration
    "iterate unchanged" flags** (one flag per completed iteration, so their number is the returned
    iteration count); hence by `no_progress_counts_consecutive` it never exceeds the number of
    *consecutive* most recent iterations without any change of the iterate. -/
theorem no_progress_counter_is_npRun (P : Problem α) (dir : Direction D α) (d0 : D) (pr : Params α)
    (stop : Nat → Bool) (oot : Bool) (x0 gV : Vec α) (gS iS : α) (sh : St α D)
    (hh : finalHead P dir d0 pr stop oot x0 gV gS iS = some sh) :
    sh.noProgress = npRun pr.maxNoProgress 0 0 (runFlags P dir d0 pr stop oot x0 gV gS iS) ∧
    sh.k = (runFlags P dir d0 pr stop oot x0 gV gS iS).length ∧
    sh.noProgress ≤
      ((runFlags P dir d0 pr stop oot x0 gV gS iS).reverse.takeWhile (· = true)).length := by
  unfold finalHead at hh
  unfold runFlags
  cases hi : initState P d0 pr stop x0 gV gS iS with
  | inl t => rw [hi] at hh; exact absurd hh (by simp)
  | inr s =>
    rw [hi] at hh
    simp only []
    injection hh with hh
    have hk := initState_k P d0 pr stop x0 gV gS iS s hi
    have hl := lastHead_np P dir pr stop oot (pr.maxIter + 2) s
    have hf := headStep_fields P pr stop oot (lastHead P dir pr stop oot (pr.maxIter + 2) s)
    rw [hk.1, hk.2.1] at hl
    have h1 : sh.noProgress = npRun pr.maxNoProgress 0 0 (stepFlags P dir pr stop oot (pr.maxIter + 2) s) := by
      rw [← hh, hf.2.1, hl.1]
    refine ⟨h1, by rw [← hh, hf.1, hl.2]; omega, ?_⟩
    rw [h1]
    exact no_progress_counts_consecutive _ _ _

/-- **`NoProgress` only after more than `max_no_progress` consecutive iterations without any change
    of the iterate.** -/
theorem noProgress_needs_consecutive_of_fuel (P : Problem α) (dir : Direction D α) (d0 : D) (pr : Params α)
    (stop : Nat → Bool) (oot : Bool) (x0 y Sig errz0 gV : Vec α) (gS iS : α) (sh : St α D)
    (hfuel : (run P dir d0 pr stop oot x0 y Sig errz0 gV gS iS).fuelOut = false)
    (hh : finalHead P dir d0 pr stop oot x0 gV gS iS = some sh)
    (hs : (run P dir d0 pr stop oot x0 y Sig errz0 gV gS iS).stats.status = .NoProgress) :
    pr.maxNoProgress <
      ((runFlags P dir d0 pr stop oot x0 gV gS iS).reverse.takeWhile (· = true)).length := by
  have h1 := (status_meaning_of_fuel P dir d0 pr stop oot x0 y Sig errz0 gV gS iS sh hfuel hh).2.2.2.2.1 hs
  have h2 := (no_progress_counter_is_npRun P dir d0 pr stop oot x0 gV gS iS sh hh).2.2
  omega

/-! ### The early return -/

/-- **The early `NotFinite` return** (non-finite initial Lipschitz estimate): status `NotFinite`,
    the reported `ε` is the default `+∞` of the statistics (`infS`), no iteration, no callback,
    nothing written. -/
theorem early_return (P : Problem α) (dir : Direction D α) (d0 : D) (pr : Params α)
    (stop : Nat → Bool) (oot : Bool) (x0 y Sig errz0 gV : Vec α) (gS iS : α)
    (hh : finalHead P dir d0 pr stop oot x0 gV gS iS = none) :
    (run P dir d0 pr stop oot x0 y Sig errz0 gV gS iS).stats.status = .NotFinite ∧
    (run P dir d0 pr stop oot x0 y Sig errz0 gV gS iS).stats.eps = iS ∧
    (run P dir d0 pr stop oot x0 y Sig errz0 gV gS iS).stats.iterations = 0 ∧
    (run P dir d0 pr stop oot x0 y Sig errz0 gV gS iS).wrote = false ∧
    (run P dir d0 pr stop oot x0 y Sig errz0 gV gS iS).callbacks = [] ∧
    (run P dir d0 pr stop oot x0 y Sig errz0 gV gS iS).fuelOut = false := by
  unfold finalHead at hh
  unfold run
  cases hi : initState P d0 pr stop x0 gV gS iS with
  | inl t => exact ⟨rfl, rfl, rfl, rfl, rfl, rfl⟩
  | inr s => rw [hi] at hh; exact absurd hh (by simp)

/-- **`NotFinite` only with a non-finite residual — on both paths** (early return: `ε = +∞`; loop
    head: the chain), provided the `+∞` the statistics are initialised with is not finite. -/
theorem notFinite_residual_of_fuel (P : Problem α) (dir : Direction D α) (d0 : D) (pr : Params α)
    (stop : Nat → Bool) (oot : Bool) (x0 y Sig errz0 gV : Vec α) (gS iS : α)
    (hinf : RealLike.isFinite iS = false)
    (hfuel : (run P dir d0 pr stop oot x0 y Sig errz0 gV gS iS).fuelOut = false)
    (hs : (run P dir d0 pr stop oot x0 y Sig errz0 gV gS iS).stats.status = .NotFinite) :
    RealLike.isFinite (run P dir d0 pr stop oot x0 y Sig errz0 gV gS iS).stats.eps = false := by
  cases hh : finalHead P dir d0 pr stop oot x0 gV gS iS with
  | none => rw [(early_return P dir d0 pr stop oot x0 y Sig errz0 gV gS iS hh).2.1]; exact hinf
  | some sh =>
    exact (status_meaning_of_fuel P dir d0 pr stop oot x0 y Sig errz0 gV gS iS sh hfuel hh).2.1 hs

end generic

/-! ### The same clauses with the fuel hypothesis discharged -/

section fuel
variable {α D : Type} [Field α] [LinearOrder α] [IsStrictOrderedRing α] [RealLike α]

theorem final_status_is_chain (P : Problem α) (dir : Direction D α) (d0 : D) (pr : Params α)
    (stop : Nat → Bool) (hm : StopMono stop) (n K : Nat) (hF : FuelOK pr n K) (oot : Bool)
    (x0 y Sig errz0 gV : Vec α) (gS iS : α) (sh : St α D)
    (hh : finalHead P dir d0 pr stop oot x0 gV gS iS = some sh) :
    (run P dir d0 pr stop oot x0 y Sig errz0 gV gS iS).stats.status =
      statusChain pr.tolerance pr.maxIter pr.maxNoProgress sh.k (epsOf P pr sh.curr) sh.noProgress oot
        (stop sh.tick) ∧
    (run P dir d0 pr stop oot x0 y Sig errz0 gV gS iS).stats.eps = epsOf P pr sh.curr ∧
    (run P dir d0 pr stop oot x0 y Sig errz0 gV gS iS).stats.iterations = sh.k ∧
    (run P dir d0 pr stop oot x0 y Sig errz0 gV gS iS).stats.status ≠ .Busy :=
  final_status_is_chain_of_fuel P dir d0 pr stop oot x0 y Sig errz0 gV gS iS sh
    (run_fuel_suffices P dir d0 pr stop hm n K hF oot x0 y Sig errz0 gV gS iS) hh

/-- **`Converged` is reported exactly when the reported `ε` is `≤` the requested tolerance.** -/
theorem converged_iff_eps_le_tol (P : Problem α) (dir : Direction D α) (d0 : D) (pr : Params α)
    (stop : Nat → Bool) (hm : StopMono stop) (n K : Nat) (hF : FuelOK pr n K) (oot : Bool)
    (x0 y Sig errz0 gV : Vec α) (gS iS : α) (sh : St α D)
    (hh : finalHead P dir d0 pr stop oot x0 gV gS iS = some sh) :
    (run P dir d0 pr stop oot x0 y Sig errz0 gV gS iS).stats.status = .Converged ↔
      (run P dir d0 pr stop oot x0 y Sig errz0 gV gS iS).stats.eps ≤ effTol pr.tolerance :=
  converged_iff_eps_le_tol_of_fuel P dir d0 pr stop oot x0 y Sig errz0 gV gS iS sh
    (run_fuel_suffices P dir d0 pr stop hm n K hF oot x0 y Sig errz0 gV gS iS) hh

/-- A solve never returns `Converged` from the early path, so: **`Converged ⇔ ε ≤ tolerance'`
    whenever `+∞` is not `≤` the tolerance** — for every solve, early return included. -/
theorem converged_iff_eps_le_tol_all (P : Problem α) (dir : Direction D α) (d0 : D) (pr : Params α)
    (stop : Nat → Bool) (hm : StopMono stop) (n K : Nat) (hF : FuelOK pr n K) (oot : Bool)
    (x0 y Sig errz0 gV : Vec α) (gS iS : α) (hinf : ¬ iS ≤ effTol pr.tolerance) :
    (run P dir d0 pr stop oot x0 y Sig errz0 gV gS iS).stats.status = .Converged ↔
      (run P dir d0 pr stop oot x0 y Sig errz0 gV gS iS).stats.eps ≤ effTol pr.tolerance := by
  cases hh : finalHead P dir d0 pr stop oot x0 gV gS iS with
  | none =>
    have h := early_return P dir d0 pr stop oot x0 y Sig errz0 gV gS iS hh
    rw [h.1, h.2.1]
    exact ⟨fun hc => (by cases hc), fun hc => absurd hc hinf⟩
  | some sh => exact converged_iff_eps_le_tol P dir d0 pr stop hm n K hF oot x0 y Sig errz0 gV gS iS sh hh

theorem status_meaning (P : Problem α) (dir : Direction D α) (d0 : D) (pr : Params α)
    (stop : Nat → Bool) (hm : StopMono stop) (n K : Nat) (hF : FuelOK pr n K) (oot : Bool)
    (x0 y Sig errz0 gV : Vec α) (gS iS : α) (sh : St α D)
    (hh : finalHead P dir d0 pr stop oot x0 gV gS iS = some sh) :
    ((run P dir d0 pr stop oot x0 y Sig errz0 gV gS iS).stats.status = .MaxIter →
      (run P dir d0 pr stop oot x0 y Sig errz0 gV gS iS).stats.iterations = pr.maxIter) ∧
    ((run P dir d0 pr stop oot x0 y Sig errz0 gV gS iS).stats.status = .NotFinite →
      RealLike.isFinite (run P dir d0 pr stop oot x0 y Sig errz0 gV gS iS).stats.eps = false) ∧
    ((run P dir d0 pr stop oot x0 y Sig errz0 gV gS iS).stats.status = .Interrupted →
      stop sh.tick = true) ∧
    ((run P dir d0 pr stop oot x0 y Sig errz0 gV gS iS).stats.status = .MaxTime → oot = true) ∧
    ((run P dir d0 pr stop oot x0 y Sig errz0 gV gS iS).stats.status = .NoProgress →
      sh.noProgress > pr.maxNoProgress) ∧
    (run P dir d0 pr stop oot x0 y Sig errz0 gV gS iS).stats.status ≠ .Exception :=
  status_meaning_of_fuel P dir d0 pr stop oot x0 y Sig errz0 gV gS iS sh
    (run_fuel_suffices P dir d0 pr stop hm n K hF oot x0 y Sig errz0 gV gS iS) hh

/-- **`NotFinite` only with a non-finite residual**, every solve (early return included). -/
theorem notFinite_residual (P : Problem α) (dir : Direction D α) (d0 : D) (pr : Params α)
    (stop : Nat → Bool) (hm : StopMono stop) (n K : Nat) (hF : FuelOK pr n K) (oot : Bool)
    (x0 y Sig errz0 gV : Vec α) (gS iS : α) (hinf : RealLike.isFinite iS = false)
    (hs : (run P dir d0 pr stop oot x0 y Sig errz0 gV gS iS).stats.status = .NotFinite) :
    RealLike.isFinite (run P dir d0 pr stop oot x0 y Sig errz0 gV gS iS).stats.eps = false :=
  notFinite_residual_of_fuel P dir d0 pr stop oot x0 y Sig errz0 gV gS iS hinf
    (run_fuel_suffices P dir d0 pr stop hm n K hF oot x0 y Sig errz0 gV gS iS) hs

theorem eps_from_final_iterate (P : Problem α) (dir : Direction D α) (d0 : D) (pr : Params α)
    (stop : Nat → Bool) (hm : StopMono stop) (n K : Nat) (hF : FuelOK pr n K) (oot : Bool)
    (x0 y Sig errz0 gV : Vec α) (gS iS : α) (sh : St α D)
    (hh : finalHead P dir d0 pr stop oot x0 gV gS iS = some sh) :
    ∃ c cb, (run P dir d0 pr stop oot x0 y Sig errz0 gV gS iS).final = some c ∧
      (run P dir d0 pr stop oot x0 y Sig errz0 gV gS iS).stats.eps =
        calcErrorStopCrit pr.stopCrit (fun g x gr => ((P.prox g x gr).2.1, (P.prox g x gr).2.2))
          c.p c.gamma c.x c.xhat sh.curr.yhat c.gradPsi c.gradPsiHat ∧
      (run P dir d0 pr stop oot x0 y Sig errz0 gV gS iS).stats.eps =
          calcErrorStopCrit pr.stopCrit (fun g x gr => ((P.prox g x gr).2.1, (P.prox g x gr).2.2))
            c.p c.gamma c.x c.xhat c.yhat c.gradPsi c.gradPsiHat ∧
      ((run P dir d0 pr stop oot x0 y Sig errz0 gV gS iS).wrote = true →
        (run P dir d0 pr stop oot x0 y Sig errz0 gV gS iS).x = c.xhat ∧
        (run P dir d0 pr stop oot x0 y Sig errz0 gV gS iS).y = c.yhat) ∧
      (run P dir d0 pr stop oot x0 y Sig errz0 gV gS iS).callbacks.getLast? = some cb ∧
      cb.it = sh.curr ∧ cb.eps = (run P dir d0 pr stop oot x0 y Sig errz0 gV gS iS).stats.eps ∧
      cb.status = (run P dir d0 pr stop oot x0 y Sig errz0 gV gS iS).stats.status ∧
      cb.k = (run P dir d0 pr stop oot x0 y Sig errz0 gV gS iS).stats.iterations :=
  eps_from_final_iterate_of_fuel P dir d0 pr stop oot x0 y Sig errz0 gV gS iS sh
    (run_fuel_suffices P dir d0 pr stop hm n K hF oot x0 y Sig errz0 gV gS iS) hh

/-- **`NoProgress` only after more than `max_no_progress` consecutive iterations without any change
    of the iterate.** -/
theorem noProgress_needs_consecutive (P : Problem α) (dir : Direction D α) (d0 : D) (pr : Params α)
    (stop : Nat → Bool) (hm : StopMono stop) (n K : Nat) (hF : FuelOK pr n K) (oot : Bool)
    (x0 y Sig errz0 gV : Vec α) (gS iS : α) (sh : St α D)
    (hh : finalHead P dir d0 pr stop oot x0 gV gS iS = some sh)
    (hs : (run P dir d0 pr stop oot x0 y Sig errz0 gV gS iS).stats.status = .NoProgress) :
    pr.maxNoProgress <
      ((runFlags P dir d0 pr stop oot x0 gV gS iS).reverse.takeWhile (· = true)).length :=
  noProgress_needs_consecutive_of_fuel P dir d0 pr stop oot x0 y Sig errz0 gV gS iS sh
    (run_fuel_suffices P dir d0 pr stop hm n K hF oot x0 y Sig errz0 gV gS iS) hh hs

/-! ### ε is the documented formula, recomputed from the data of the written-back point -/

/-- the documented formulas other than Ipopt's do not mention `ŷ` -/
theorem docCrit_yhat_irrelevant (PC : Vec α → Vec α) (c : PANOCStopCrit) (hc : c ≠ .Ipopt) (γ : α)
    (x xh yh yh' g gh : Vec α) : docCrit PC c γ x xh yh g gh = docCrit PC c γ x xh yh' g gh := by
  cases c <;> first | rfl | exact absurd rfl hc

/-- **The reported `ε` equals the documented formula of the selected criterion recomputed from the
    final iterate data `(x, x̂, γ, ∇ψ(x), ∇ψ(x̂), ŷ)`** — all ten criteria, every solve that reached the
    main loop, every direction provider, monotone stop flag, parameters satisfying `FuelOK`, lazy and
    eager gradient evaluation, also when the last iteration's line search was interrupted.

    For the final iterate `c` (the one whose `x̂`, `ŷ` are written back):
    * `γ > 0`;
    * `c` carries the proximal data of its own point: `x̂ = Π_C(x − γ∇ψ(x))`, `p = x̂ − x`
      (`Consistent`), with `∇ψ`-field `= ∇ψ(x)`;
    * the `∇ψ(x̂)` buffer holds `∇ψ(x̂)` whenever the criterion reads it;
    * the `ŷ`-field is `ŷ(x̂)` whenever it is read or written back: for the Ipopt criterion, with lazy
      evaluation, and whenever the results are written (with eager evaluation and another criterion the
      field handed to the progress callback is the workspace of `eval_ψ_grad_ψ` — documented so in
      `PANOCProgressInfo::ŷ`);
    * hence `stats.ε = docCrit` — `Props/C06`'s independent specification of the documented formulas —
      evaluated at `(γ, x, x̂, ŷ(x̂), ∇ψ(x), ∇ψ(x̂))`, where `x̂`, `ŷ(x̂)` are the returned `x`, `y`.

    Hypotheses on the problem: its prox step is the projection step (`ProxIsProj`) and its oracles are
    consistent with one gradient map (`GradLaw`: `eval_ψ_grad_ψ`, `eval_grad_ψ`, `eval_grad_L(·, ŷ(·))`
    agree).  Nothing is assumed about the workspace of `eval_ψ_grad_ψ` (repaired finding
    `C06-panoc-eager-workspace-as-yhat`: the loop head evaluates `ŷ(x̂)` where it is read).  The loop part
    is the data invariant `Doc` of `Proofs/PanocDoc` (it depends on `take_safe_step` clearing both
    `have_grad_ψx̂` flags and on `eval_ψx̂` resetting the flag after every new step). -/
theorem eps_is_documented (hnn : ∀ a : α, RealLike.isNaN a = false) (PC : Vec α → Vec α)
    (P : Problem α) (hL : GradLaw P)
    (hP : ProxIsProj PC (fun γ x g => ((P.prox γ x g).2.1, (P.prox γ x g).2.2)))
    (dir : Direction D α) (d0 : D) (pr : Params α)
    (stop : Nat → Bool) (hm : StopMono stop) (n K : Nat) (hF : FuelOK pr n K) (oot : Bool)
    (x0 y Sig errz0 gV : Vec α) (gS iS : α) (sh : St α D)
    (hh : finalHead P dir d0 pr stop oot x0 gV gS iS = some sh) :
    ∃ c, (run P dir d0 pr stop oot x0 y Sig errz0 gV gS iS).final = some c ∧
      0 < c.gamma ∧
      Consistent PC c.gamma c.p c.x c.xhat (P.gradPsi c.x) ∧
      c.gradPsi = P.gradPsi c.x ∧
      (requiresGradHat pr.stopCrit = true → c.gradPsiHat = P.gradPsi c.xhat) ∧
      ((pr.stopCrit = .Ipopt ∨ pr.eagerGradientEval = false ∨
          (run P dir d0 pr stop oot x0 y Sig errz0 gV gS iS).wrote = true) →
        c.yhat = (P.psi c.xhat).2) ∧
      ((run P dir d0 pr stop oot x0 y Sig errz0 gV gS iS).wrote = true →
        (run P dir d0 pr stop oot x0 y Sig errz0 gV gS iS).x = c.xhat ∧
        (run P dir d0 pr stop oot x0 y Sig errz0 gV gS iS).y = (P.psi c.xhat).2) ∧
      (run P dir d0 pr stop oot x0 y Sig errz0 gV gS iS).stats.eps =
        docCrit PC pr.stopCrit c.gamma c.x c.xhat (P.psi c.xhat).2 (P.gradPsi c.x) (P.gradPsi c.xhat) := by
  have hfuel := run_fuel_suffices P dir d0 pr stop hm n K hF oot x0 y Sig errz0 gV gS iS
  have hrun := run_eq_exit_of_fuel P dir d0 pr stop oot x0 y Sig errz0 gV gS iS sh hfuel hh
  -- the invariant at the last head
  have hdoc : Doc P pr.eagerGradientEval sh.curr ∧ 0 < sh.curr.gamma ∧
      (requiresGradHat pr.stopCrit = true → sh.curr.haveGradHat = true) ∧
      (sh.yhatValid = true → sh.curr.yhat = (P.psi sh.curr.xhat).2) ∧
      (pr.stopCrit = .Ipopt → sh.yhatValid = true) ∧
      (pr.eagerGradientEval = false → sh.yhatValid = true) := by
    have hi := initState_doc d0 pr hL stop x0 gV gS iS
    have hfi := initState_finv P d0 pr stop x0 gV gS iS n K hF
    unfold finalHead at hh
    cases hs : initState P d0 pr stop x0 gV gS iS with
    | inl t => rw [hs] at hh; exact absurd hh (by simp)
    | inr s =>
      rw [hs] at hh hi hfi
      simp only [] at hi hfi
      injection hh with hh
      have hl := lastHead_doc dir pr hL stop hm n K hF oot (pr.maxIter + 2) s hi.1
        (fun he => Or.inl (by rw [hi.2]; exact he)) hfi.1
      have hd := headStep_doc pr hL stop oot _ hl.1
      have hf := headStep_finv P pr stop oot _ hl.2
      have hyv := (headStep_curr P pr stop oot
        (lastHead P dir pr stop oot (pr.maxIter + 2) s)).2.1
      rw [hh] at hd hf hyv
      refine ⟨hd.1, hf.gok.1, hd.2.1, hd.2.2.1, hd.2.2.2.1, fun he => ?_⟩
      rw [hyv]; unfold headYhatValid; rw [he]; rfl
  obtain ⟨hd, hγ, hflag, hyv, hIp, hlazy⟩ := hdoc
  rw [hrun.2]
  have hf := exitBlock_fields P pr sh (epsOf P pr sh.curr)
    (statusOf pr sh.k (epsOf P pr sh.curr) sh.noProgress oot (stop sh.tick)) x0 y Sig errz0
  obtain ⟨c, hc, hx, hxh, hp, hg, hgr, hgrh, _, hsame, hw⟩ := exitBlock_final P pr sh (epsOf P pr sh.curr)
    (statusOf pr sh.k (epsOf P pr sh.curr) sh.noProgress oot (stop sh.tick)) x0 y Sig errz0
  have hcy := exitBlock_final_yhat P pr sh (epsOf P pr sh.curr)
    (statusOf pr sh.k (epsOf P pr sh.curr) sh.noProgress oot (stop sh.tick)) x0 y Sig errz0 c hc
  -- ŷ of the written-back iterate is ŷ(x̂) whenever it is read or written
  have hyc : (pr.stopCrit = .Ipopt ∨ pr.eagerGradientEval = false ∨
      (exitBlock P pr sh (epsOf P pr sh.curr)
        (statusOf pr sh.k (epsOf P pr sh.curr) sh.noProgress oot (stop sh.tick)) x0 y Sig errz0).wrote = true) →
      c.yhat = (P.psi c.xhat).2 := by
    intro hor
    cases hb : ((exitBlock P pr sh (epsOf P pr sh.curr)
        (statusOf pr sh.k (epsOf P pr sh.curr) sh.noProgress oot (stop sh.tick)) x0 y Sig errz0).wrote &&
        !sh.yhatValid) with
    | true => rw [hcy.1 hb, hxh]
    | false =>
      rw [hcy.2 hb, hxh]
      apply hyv
      rcases hor with h | h | h
      · exact hIp h
      · exact hlazy h
      · rw [h] at hb; simpa using hb
  -- the head's data, restated for `c`
  have hgx : c.gradPsi = P.gradPsi c.x := by rw [hgr, hx]; exact hd.gx
  have hcons : Consistent PC c.gamma c.p c.x c.xhat (P.gradPsi c.x) := by
    have h1 := congrArg Prod.fst (hP c.gamma c.x (P.gradPsi c.x))
    have h2 := congrArg Prod.snd (hP c.gamma c.x (P.gradPsi c.x))
    simp only [] at h1 h2
    have hxx : c.xhat = (P.prox c.gamma c.x (P.gradPsi c.x)).2.1 := by
      rw [hxh, hg, hx, ← hd.gx]; exact hd.prox.2.1
    have hpp : c.p = (P.prox c.gamma c.x (P.gradPsi c.x)).2.2 := by
      rw [hp, hg, hx, ← hd.gx]; exact hd.prox.2.2
    refine ⟨by rw [hxx]; exact h1, ?_⟩
    rw [hpp, h2, ← h1, ← hxx]
  have hgh : requiresGradHat pr.stopCrit = true → c.gradPsiHat = P.gradPsi c.xhat := fun hr => by
    rw [hgrh, hxh]; exact hd.gh (hflag hr)
  refine ⟨c, hc, by rw [hg]; exact hγ, hcons, hgx, hgh, hyc, fun hw' => ?_, ?_⟩
  · have := hw hw'
    exact ⟨this.1, by rw [this.2]; exact hyc (Or.inr (Or.inr hw'))⟩
  · rw [hf.2.1]
    -- ε at the head is the generated criterion of the head's fields = those of `c` (ŷ as the head had it)
    have heps : epsOf P pr sh.curr =
        calcErrorStopCrit pr.stopCrit (fun γ x g => ((P.prox γ x g).2.1, (P.prox γ x g).2.2))
          c.p c.gamma c.x c.xhat sh.curr.yhat (P.gradPsi c.x) c.gradPsiHat := by
      rw [← hgx, hx, hxh, hp, hg, hgr, hgrh]; rfl
    rw [heps]
    -- replace the head's ŷ by ŷ(x̂): it is that for Ipopt, and irrelevant otherwise
    have hyy : calcErrorStopCrit pr.stopCrit (fun γ x g => ((P.prox γ x g).2.1, (P.prox γ x g).2.2))
          c.p c.gamma c.x c.xhat sh.curr.yhat (P.gradPsi c.x) c.gradPsiHat =
        calcErrorStopCrit pr.stopCrit (fun γ x g => ((P.prox γ x g).2.1, (P.prox γ x g).2.2))
          c.p c.gamma c.x c.xhat (P.psi c.xhat).2 (P.gradPsi c.x) c.gradPsiHat := by
      by_cases hi : pr.stopCrit = .Ipopt
      · rw [hyv (hIp hi), hxh]
      · exact crit_yhat_irrelevant _ hi _ _ _ _ _ _ _ _ _
    rw [hyy]
    by_cases hr : requiresGradHat pr.stopCrit = true
    · rw [hgh hr]
      exact calcErrorStopCrit_eq_doc hnn PC _ hP _ _ (by rw [hg]; exact ne_of_gt hγ) _ _ _ _ _ _ hcons
    · have hr' : requiresGradHat pr.stopCrit = false := by simpa using hr
      rw [requires_grad_hat_sound pr.stopCrit hr' _ _ _ _ _ _ _ c.gradPsiHat (P.gradPsi c.xhat)]
      exact calcErrorStopCrit_eq_doc hnn PC _ hP _ _ (by rw [hg]; exact ne_of_gt hγ) _ _ _ _ _ _ hcons

end fuel

/-! ### Non-vacuity: a concrete run over ℚ (`Proofs/PanocLoopExample.lean`) meets the hypotheses -/

section examples
open Alpaqa.Panoc.Example

theorem stopAt_mono (t0 : Option Nat) : StopMono (stopAt t0) := by
  intro s t h hs
  cases t0 with
  | none => simp [stopAt] at hs
  | some t0 => simp only [stopAt, decide_eq_true_eq] at *; omega

/-- `FuelOK` for the example parameters and their variants below (only `L₀`, `L_max`, the line-search
    coefficients and `lsFuel` matter) -/
theorem fuelOK_prq : FuelOK prq 1 9 := by
  refine ⟨?_, ?_, ?_, ?_, ?_, by norm_num, ?_, ?_⟩ <;> norm_num [prq, Lstart]

/-- the run reaches the main loop, does not run out of fuel, converges after two iterations -/
example : (finalHead Pq dirNoop () prq (stopAt none) false [1] [] 0 0).isSome = true ∧
    (rq none).fuelOut = false ∧ (rq none).stats.status = .Converged ∧
    (rq none).stats.iterations = 2 ∧ (rq none).stats.iterations ≤ prq.maxIter ∧
    (rq none).stats.eps ≤ effTol prq.tolerance := by decide +kernel

/-- `converged_iff_eps_le_tol` with every hypothesis discharged -/
example (sh : St ℚ Unit) (hh : finalHead Pq dirNoop () prq (stopAt none) false [1] [] 0 0 = some sh) :
    (rq none).stats.status = .Converged ↔ (rq none).stats.eps ≤ effTol prq.tolerance :=
  converged_iff_eps_le_tol Pq dirNoop () prq (stopAt none) (stopAt_mono none) 1 9 fuelOK_prq false
    [1] [] [] [] [] 0 0 sh hh

/-- `converged_iff_eps_le_tol_all` (early return included) and `eps_from_final_iterate` on that run,
    every hypothesis discharged -/
example : (run Pq dirNoop () prq (stopAt none) false [1] [] [] [] [] 0 1000000).stats.status = .Converged ↔
    (run Pq dirNoop () prq (stopAt none) false [1] [] [] [] [] 0 1000000).stats.eps ≤ effTol prq.tolerance :=
  converged_iff_eps_le_tol_all Pq dirNoop () prq (stopAt none) (stopAt_mono none) 1 9 fuelOK_prq false
    [1] [] [] [] [] 0 1000000 (by norm_num [effTol, prq])

example (sh : St ℚ Unit) (hh : finalHead Pq dirNoop () prq (stopAt none) false [1] [] 0 0 = some sh) :
    ∃ cb, (rq none).callbacks.getLast? = some cb ∧ cb.it = sh.curr ∧ cb.eps = (rq none).stats.eps := by
  obtain ⟨c, cb, _, _, _, _, h5, h6, h7, _⟩ :=
    eps_from_final_iterate Pq dirNoop () prq (stopAt none) (stopAt_mono none) 1 9 fuelOK_prq false
      [1] [] [] [] [] 0 0 sh hh
  exact ⟨cb, h5, h6, h7⟩

/-- its "iterate unchanged" flags: both iterations moved -/
example : runFlags Pq dirNoop () prq (stopAt none) false [1] [] 0 0 = [false, false] := by
  decide +kernel

/-- an interrupted run (flag visible from tick 7) also meets them -/
example : (finalHead Pq dirNoop () prq (stopAt (some 7)) false [1] [] 0 0).isSome = true ∧
    (rq (some 7)).fuelOut = false ∧ (rq (some 7)).stats.status = .Interrupted := by decide +kernel

/-- `n = 1`, `m = 1` (`Pm`): `Converged` after one iteration; with `max_iter = 1` and a tolerance of
    `1/1000` the same run ends **`MaxIter`** with `iterations = max_iter = 1` and `ε = 1/20 > tol` -/
example : (rm prq none).stats.status = .Converged ∧ (rm prq none).stats.iterations = 1 ∧
    (rm { prq with maxIter := 1, tolerance := 1/1000 } none).stats.status = .MaxIter ∧
    (rm { prq with maxIter := 1, tolerance := 1/1000 } none).stats.iterations = 1 ∧
    (rm { prq with maxIter := 1, tolerance := 1/1000 } none).stats.eps = 1/20 ∧
    (rm { prq with maxIter := 1, tolerance := 1/1000 } none).fuelOut = false ∧
    (finalHead Pm dirNoop () { prq with maxIter := 1, tolerance := 1/1000 } (stopAt none) false [1] [] 0 0).isSome
      = true := by decide +kernel

/-- `status_meaning` on the `MaxIter` run, every hypothesis discharged:
    `MaxIter ⇒ iterations = max_iter` -/
example : (rm { prq with maxIter := 1, tolerance := 1/1000 } none).stats.iterations = 1 := by
  have hF : FuelOK { prq with maxIter := 1, tolerance := 1/1000 } 1 9 := by
    refine ⟨?_, ?_, ?_, ?_, ?_, by norm_num, ?_, ?_⟩ <;> norm_num [prq, Lstart]
  cases hh : finalHead Pm dirNoop () { prq with maxIter := 1, tolerance := 1/1000 } (stopAt none) false
      [1] [] 0 0 with
  | none => exact absurd hh (by decide +kernel)
  | some sh =>
    exact (status_meaning Pm dirNoop () _ (stopAt none) (stopAt_mono none) 1 9 hF false [1] [0] [1] [7] [] 0 0
      sh hh).1 (by decide +kernel)

/-- the run that ends **`NoProgress`** (`Pstuck`: the iterate never moves; `max_no_progress = 1`):
    two iterations, both flagged "unchanged", counter `2 > 1` -/
def prStuck : Params ℚ := { prq with maxNoProgress := 1, maxIter := 10 }

example : (run Pstuck dirNoop () prStuck (stopAt none) false [1] [] [] [] [] 0 0).stats.status = .NoProgress ∧
    (run Pstuck dirNoop () prStuck (stopAt none) false [1] [] [] [] [] 0 0).stats.iterations = 2 ∧
    (run Pstuck dirNoop () prStuck (stopAt none) false [1] [] [] [] [] 0 0).fuelOut = false ∧
    runFlags Pstuck dirNoop () prStuck (stopAt none) false [1] [] 0 0 = [true, true] := by
  decide +kernel

/-- `noProgress_needs_consecutive` on it, every hypothesis discharged -/
example : prStuck.maxNoProgress <
    ((runFlags Pstuck dirNoop () prStuck (stopAt none) false [1] [] 0 0).reverse.takeWhile (· = true)).length := by
  have hF : FuelOK prStuck 1 9 := by
    refine ⟨?_, ?_, ?_, ?_, ?_, by norm_num, ?_, ?_⟩ <;> norm_num [prStuck, prq, Lstart]
  cases hh : finalHead Pstuck dirNoop () prStuck (stopAt none) false [1] [] 0 0 with
  | none => exact absurd hh (by decide +kernel)
  | some sh =>
    exact noProgress_needs_consecutive Pstuck dirNoop () prStuck (stopAt none) (stopAt_mono none) 1 9 hF
      false [1] [] [] [] [] 0 0 sh hh (by decide +kernel)

/-! `eps_is_documented`: `ψ = ½‖x‖²`, `C = ℝⁿ` (`Π_C = id`), prox step `(x − γg, (x − γg) − x)`. -/

/-- `Pq` with the step written as `p = x̂ − x` (so that `ProxIsProj id` holds by `rfl`) -/
def Pdoc : Problem ℚ where
  psiGradPsi x := (sqNorm x / 2, x, [])
  psi x := (sqNorm x / 2, [])
  gradPsi x := x
  gradL x _ := x
  prox γ x g := (0, vsub x (smul γ g), vsub (vsub x (smul γ g)) x)

theorem gradLaw_Pdoc : GradLaw Pdoc := ⟨fun _ => rfl, fun _ => rfl⟩

theorem proxIsProj_Pdoc :
    ProxIsProj id (fun γ x g => ((Pdoc.prox γ x g).2.1, (Pdoc.prox γ x g).2.2)) := fun _ _ _ => rfl

/-- the run (ApproxKKT criterion, the default) reaches the main loop and converges -/
example : (finalHead Pdoc dirNoop () { prq with stopCrit := .ApproxKKT } (stopAt none) false [1] [] 0 0).isSome
      = true ∧
    (run Pdoc dirNoop () { prq with stopCrit := .ApproxKKT } (stopAt none) false [1] [] [] [] [] 0 0).stats.status
      = .Converged := by decide +kernel

/-- **`eps_is_documented`, every hypothesis discharged** (for each criterion `crit`): the reported `ε` is
    the documented formula at the written-back point -/
example (crit : PANOCStopCrit) (sh : St ℚ Unit)
    (hh : finalHead Pdoc dirNoop () { prq with stopCrit := crit } (stopAt none) false [1] [] 0 0 = some sh) :
    ∃ c, (run Pdoc dirNoop () { prq with stopCrit := crit } (stopAt none) false [1] [] [] [] [] 0 0).final
        = some c ∧ 0 < c.gamma ∧ c.xhat = vsub c.x (smul c.gamma c.x) ∧ c.p = vsub c.xhat c.x ∧
      (run Pdoc dirNoop () { prq with stopCrit := crit } (stopAt none) false [1] [] [] [] [] 0 0).stats.eps =
        docCrit id crit c.gamma c.x c.xhat [] c.x c.xhat := by
  have hF : FuelOK { prq with stopCrit := crit } 1 9 := by
    refine ⟨?_, ?_, ?_, ?_, ?_, by norm_num, ?_, ?_⟩ <;> norm_num [prq, Lstart]
  obtain ⟨c, hc, hγ, hcons, _, _, _, _, heps⟩ :=
    eps_is_documented (fun _ => rfl) id Pdoc gradLaw_Pdoc proxIsProj_Pdoc dirNoop ()
      { prq with stopCrit := crit } (stopAt none) (stopAt_mono none) 1 9 hF false [1] [] [] [] [] 0 0 sh hh
  exact ⟨c, hc, hγ, hcons.hxh, hcons.hp, heps⟩

/-- the same with `eager_gradient_eval = true` and a stop request landing in the first line search
    (flag visible from tick 7): interrupted line search, eager buffers — still the documented formula -/
example (crit : PANOCStopCrit) (sh : St ℚ Unit)
    (hh : finalHead Pdoc dirNoop () { prq with stopCrit := crit, eagerGradientEval := true }
      (stopAt (some 7)) false [1] [] 0 0 = some sh) :
    ∃ c, (run Pdoc dirNoop () { prq with stopCrit := crit, eagerGradientEval := true } (stopAt (some 7)) false
        [1] [] [] [] [] 0 0).final = some c ∧ 0 < c.gamma ∧
      (run Pdoc dirNoop () { prq with stopCrit := crit, eagerGradientEval := true } (stopAt (some 7)) false
        [1] [] [] [] [] 0 0).stats.eps = docCrit id crit c.gamma c.x c.xhat [] c.x c.xhat := by
  have hF : FuelOK { prq with stopCrit := crit, eagerGradientEval := true } 1 9 := by
    refine ⟨?_, ?_, ?_, ?_, ?_, by norm_num, ?_, ?_⟩ <;> norm_num [prq, Lstart]
  obtain ⟨c, hc, hγ, _, _, _, _, _, heps⟩ :=
    eps_is_documented (fun _ => rfl) id Pdoc gradLaw_Pdoc proxIsProj_Pdoc dirNoop ()
      { prq with stopCrit := crit, eagerGradientEval := true } (stopAt (some 7))
      (stopAt_mono (some 7)) 1 9 hF false [1] [] [] [] [] 0 0 sh hh
  exact ⟨c, hc, hγ, heps⟩

example : (run Pdoc dirNoop () { prq with stopCrit := .ApproxKKT, eagerGradientEval := true }
      (stopAt (some 7)) false [1] [] [] [] [] 0 0).stats.status = .Interrupted ∧
    (finalHead Pdoc dirNoop () { prq with stopCrit := .ApproxKKT, eagerGradientEval := true }
      (stopAt (some 7)) false [1] [] 0 0).isSome = true := by decide +kernel

/-- a problem whose `eval_ψ_grad_ψ` uses its m-workspace as scratch (`[777]`, while `ŷ(x) = [0]`): nothing
    is assumed about that workspace any more -/
def PdocW : Problem ℚ where
  psiGradPsi x := (sqNorm x / 2, x, [777])
  psi x := (sqNorm x / 2, [0])
  gradPsi x := x
  gradL x _ := x
  prox γ x g := (0, vsub x (smul γ g), vsub (vsub x (smul γ g)) x)

/-- eager evaluation, Ipopt criterion, scratch workspace: `ε` is the documented formula with `ŷ(x̂) = [0]`,
    and `[0]` — not the scratch — is written back -/
example (sh : St ℚ Unit)
    (hh : finalHead PdocW dirNoop () { prq with stopCrit := .Ipopt, eagerGradientEval := true }
      (stopAt none) false [1] [] 0 0 = some sh) :
    ∃ c, (run PdocW dirNoop () { prq with stopCrit := .Ipopt, eagerGradientEval := true } (stopAt none) false
        [1] [5] [1] [7] [] 0 0).final = some c ∧ c.yhat = [0] ∧
      (run PdocW dirNoop () { prq with stopCrit := .Ipopt, eagerGradientEval := true } (stopAt none) false
        [1] [5] [1] [7] [] 0 0).stats.eps = docCrit id .Ipopt c.gamma c.x c.xhat [0] c.x c.xhat := by
  have hF : FuelOK { prq with stopCrit := .Ipopt, eagerGradientEval := true } 1 9 := by
    refine ⟨?_, ?_, ?_, ?_, ?_, by norm_num, ?_, ?_⟩ <;> norm_num [prq, Lstart]
  obtain ⟨c, hc, _, _, _, _, hy, _, heps⟩ :=
    eps_is_documented (fun _ => rfl) id PdocW ⟨fun _ => rfl, fun _ => rfl⟩ (fun _ _ _ => rfl) dirNoop ()
      { prq with stopCrit := .Ipopt, eagerGradientEval := true } (stopAt none)
      (stopAt_mono none) 1 9 hF false [1] [5] [1] [7] [] 0 0 sh hh
  exact ⟨c, hc, hy (Or.inl rfl), heps⟩

example : (run PdocW dirNoop () { prq with stopCrit := .Ipopt, eagerGradientEval := true } (stopAt none) false
      [1] [5] [1] [7] [] 0 0).y = [0] ∧
    (finalHead PdocW dirNoop () { prq with stopCrit := .Ipopt, eagerGradientEval := true }
      (stopAt none) false [1] [] 0 0).isSome = true := by decide +kernel

/-! `NotFinite`: a carrier whose `isFinite` is `|q| < 1000` (`rlBounded`; the theorems hold for any
    `RealLike`), `+∞ := 10⁶`. -/
section notFinite
local instance (priority := high) instRlBounded : RealLike ℚ := rlBounded

/-- early return: `L₀ = 5000` is "not finite": status **`NotFinite`**, `ε = +∞`, one oracle call,
    nothing written -/
def rEarly : Result ℚ Unit :=
  run Pq dirNoop () { prq with L0 := 5000 } (stopAt none) false [1] [] [] [] [] 0 1000000

example : rEarly.stats.status = .NotFinite ∧ rEarly.stats.eps = 1000000 ∧ rEarly.stats.iterations = 0 ∧
    rEarly.wrote = false ∧ rEarly.ticks = 1 ∧ RealLike.isFinite rEarly.stats.eps = false ∧
    (finalHead Pq dirNoop () { prq with L0 := 5000 } (stopAt none) false [1] [] 0 1000000).isNone = true := by
  decide +kernel

/-- at a loop head: from `x₀ = 2000` the residual `‖p‖∞/γ = 2000` is "not finite": status
    **`NotFinite`** at iteration 0 through the chain -/
def rHead : Result ℚ Unit := run Pq dirNoop () prq (stopAt none) false [2000] [] [] [] [] 0 1000000

example : rHead.stats.status = .NotFinite ∧ rHead.stats.eps = 2000 ∧ rHead.stats.iterations = 0 ∧
    rHead.fuelOut = false ∧ RealLike.isFinite rHead.stats.eps = false ∧
    (finalHead Pq dirNoop () prq (stopAt none) false [2000] [] 0 1000000).isSome = true := by
  decide +kernel

/-- `notFinite_residual` on both, every hypothesis discharged -/
example : RealLike.isFinite rHead.stats.eps = false ∧ RealLike.isFinite rEarly.stats.eps = false := by
  have hF2 : FuelOK { prq with L0 := 5000 } 0 9 := by
    refine ⟨?_, ?_, ?_, ?_, ?_, by norm_num, ?_, ?_⟩ <;> norm_num [prq, Lstart]
  exact ⟨notFinite_residual Pq dirNoop () prq (stopAt none) (stopAt_mono none) 1 9 fuelOK_prq false
      [2000] [] [] [] [] 0 1000000 (by decide +kernel) (by decide +kernel),
    notFinite_residual Pq dirNoop () { prq with L0 := 5000 } (stopAt none) (stopAt_mono none) 0 9 hF2 false
      [1] [] [] [] [] 0 1000000 (by decide +kernel) (by decide +kernel)⟩

end notFinite

end examples

end Alpaqa.Props.C06Panoc
