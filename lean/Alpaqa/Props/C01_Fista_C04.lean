/-
  C01 for FISTA over the problem it is actually handed: the vtable `resolve B P` built by C04
  (`Props/C01_C04.lean`), for every basic problem `B` and every one of the provider mixes of C04, wrapped
  as FISTA's problem record with its RAW slots (`vtProblemFista`: no guard / completion off the domain,
  arbitrary workspace content).  The analogue of `Props/C01_C04.panoc_on_raw_vtable_satisfies_inner_contract`,
  `Props/C01_Zerofpr_C04.zerofpr_on_raw_vtable_satisfies_inner_contract` and
  `Props/C01_Pantr_C04.pantr_on_raw_vtable_satisfies_inner_contract`.

  * `vtProblemFista vt C W w y Σ` — the `Fista.Problem` whose `eval_ψ`, `eval_grad_ψ`, `eval_grad_L`,
    `eval_ψ_grad_ψ` oracles are the slots of the vtable `vt` at multipliers `y`, penalties `Σ`; the prox
    step is the box projection step for `C` (not a C04 slot; as in `cfProblemFista`); `W x y Σ` is
    whatever `eval_ψ_grad_ψ` leaves in `work_m`; `w` the previous content of the `ŷ` buffer handed to
    `eval_ψ`.
  * `sound_vtable_raw_meets_oracleContractFista` / **`resolve_raw_meets_oracleContractFista`** —
    `OracleContractFista (pbOf B C D) B.n B.m (vtProblemFista (resolve B P) C W w)` for all 2⁷ provider
    mixes.  **Nothing is assumed about `W`, not even its size**: `OracleContractFista` has no consistency
    clause (`law`) and `FistaProblemSized` has no clause about `work_m` (the FISTA loop model never reads
    the third component of `psiGradPsi`).  Nothing is assumed about any slot at arguments of the wrong
    size.
  * `fista_on_raw_vtable_satisfies_inner_contract`, `alm_fista_on_raw_vtable_certifies_kkt` (`m ≠ 0`),
    `alm_m0_fista_on_raw_vtable_certifies_kkt` — the C01 theorems of `Props/C01_Fista` with the oracle
    hypothesis replaced by `WF B`, `P.Sound B` and the box data; every step-size mode, every stop
    schedule.
  * closed instances over ℚ on `exB1` of `Props/C01_C04` (`n = 1`, `m = 1`): the mix `exP1` (problem
    supplies `ψ`, `grad_L`) and the mix `exP2` (user-supplied `eval_ψ_grad_ψ` that is junk off the
    domain) with junk of the WRONG SIZE in `work_m`; `Converged` FISTA runs (backtracking and fixed-step
    mode) and ALM over FISTA certified with every hypothesis discharged (ALM started at the solution:
    ALM-over-FISTA over ℚ from far-away points produces huge rationals).
  Real-number semantics (ordered field, no NaN), as everywhere in C01 / C04.
-/
import Alpaqa.Props.C01_Fista
import Alpaqa.Props.C01_C04

namespace Alpaqa.Props.C01FistaC04
open Alpaqa Alpaqa.Gen Alpaqa.C07 Alpaqa.C04 Alpaqa.Props.C01 Alpaqa.Props.C07 Alpaqa.Props.C01Alm
open Alpaqa.Props.C01C04 Alpaqa.Props.C01Fista Alpaqa.Fista
set_option linter.unusedSectionVars false
set_option linter.unusedVariables false

variable {α A : Type} [Field α] [LinearOrder α] [IsStrictOrderedRing α] [RealLike α]
  [Alpaqa.Proofs.C07.NoNaN α]

/-- The oracles FISTA is handed, **as the raw slots of the vtable `vt`** at multipliers `y` and
    penalties `Σ` (`w`: previous content of the `ŷ` buffer handed to `eval_ψ`; `W x y Σ`: whatever
    `eval_ψ_grad_ψ` leaves in `work_m` — not part of the C04 vtable model).  No completion off the
    domain.  Field by field the record of `Props/C01_C04.vtProblemRaw`, typed as FISTA's problem. -/
def vtProblemFista (vt : VTable α) (C : BoxC α) (W : Vec α → Vec α → Vec α → Vec α) (w y Sig : Vec α) :
    Fista.Problem α where
  psiGradPsi x := ((vt.eval_psi_grad_psi x y Sig).1, (vt.eval_psi_grad_psi x y Sig).2, W x y Sig)
  psi x := vt.eval_psi x y Sig w
  gradPsi x := vt.eval_grad_psi x y Sig
  gradL x yh := vt.eval_grad_L x yh
  prox γ x g := (0, vadd x (projStepVO γ x g C), projStepVO γ x g C)

/-- the same five oracles as PANOC's raw record -/
theorem vtProblemFista_eq_raw (vt : VTable α) (C : BoxC α) (W : Vec α → Vec α → Vec α → Vec α)
    (w y Sig : Vec α) :
    (vtProblemFista vt C W w y Sig).psi = (vtProblemRaw vt C W w y Sig).psi ∧
    (vtProblemFista vt C W w y Sig).gradPsi = (vtProblemRaw vt C W w y Sig).gradPsi ∧
    (vtProblemFista vt C W w y Sig).gradL = (vtProblemRaw vt C W w y Sig).gradL ∧
    (vtProblemFista vt C W w y Sig).prox = (vtProblemRaw vt C W w y Sig).prox ∧
    (vtProblemFista vt C W w y Sig).psiGradPsi = (vtProblemRaw vt C W w y Sig).psiGradPsi :=
  ⟨rfl, rfl, rfl, rfl, rfl⟩

/-- **The raw slots of every sound vtable meet `OracleContractFista`** — whatever produced the vtable,
    whatever `eval_ψ_grad_ψ` leaves in its workspace (`W` arbitrary, no size hypothesis). -/
theorem sound_vtable_raw_meets_oracleContractFista (B : Basic α) (hB : WF B) (C : BoxC α) (D : BoxD α)
    (hbox : IsBoxProblem B C D) (vt : VTable α) (hvt : vt.Sound B)
    (W : Vec α → Vec α → Vec α → Vec α) (w : Vec α) (hw : w.length = B.m) :
    OracleContractFista (pbOf B C D) B.n B.m (vtProblemFista vt C W w) := by
  refine ⟨?_, ?_, fun _ _ _ _ _ _ _ _ _ => ⟨rfl, rfl⟩, ?_⟩
  · intro y Sig x hy hS hx
    exact (sound_sized B hB C D hbox vt hvt w y Sig x hw hy hS hx).1
  · intro y Sig x yh hy hS hx hyh
    show vt.eval_grad_L x yh = specGradL B x yh
    exact hvt.grad_L x yh hx hyh
  · intro y Sig hy hS
    refine ⟨?_, ?_, ?_, ?_, ?_⟩
    · intro x hx
      exact (sound_sized B hB C D hbox vt hvt w y Sig x hw hy hS hx).2.2.2.1
    · intro x hx
      exact (sound_sized B hB C D hbox vt hvt w y Sig x hw hy hS hx).2.1
    · intro x hx
      exact (sound_sized B hB C D hbox vt hvt w y Sig x hw hy hS hx).2.2.1
    · intro γ x g hx hg
      show (vadd x (projStepVO γ x g C)).length = B.n
      rw [fvadd_length, projStepVO_length, hx, hg, hbox.lenC]; simp
    · intro γ x g hx hg
      show (projStepVO γ x g C).length = B.n
      rw [projStepVO_length, hx, hg, hbox.lenC]; simp

/-- **Main theorem: the raw slots of the vtable the `ProblemVTable` constructor builds meet FISTA's
    oracle contract, for every provider mix.**  For every basic problem `B` (`WF`: sizes), boxes `C`, `D`
    (`IsBoxProblem`) and every subset `P` of the seven optional first-order functions supplied by the
    problem class (each supplied one equal to its closed form on well-sized arguments, `P.Sound B`), the
    oracles FISTA is handed equal C01's closed forms `pbOf B C D` on well-sized arguments and return
    vectors of the right size.  `W` (content of `work_m` after `eval_ψ_grad_ψ`) is arbitrary; `w` (the
    previous content of the `ŷ` buffer) is any vector of size `m`. -/
theorem resolve_raw_meets_oracleContractFista (B : Basic α) (hB : WF B) (P : Provided α)
    (hP : P.Sound B) (C : BoxC α) (D : BoxD α) (hbox : IsBoxProblem B C D)
    (W : Vec α → Vec α → Vec α → Vec α) (w : Vec α) (hw : w.length = B.m) :
    OracleContractFista (pbOf B C D) B.n B.m (vtProblemFista (resolve B P) C W w) :=
  sound_vtable_raw_meets_oracleContractFista B hB C D hbox (resolve B P)
    (Alpaqa.Props.C04.resolve_correct B hB P hP) W w hw

/-- **FISTA over the raw slots of the constructed vtable satisfies ALM's inner-solver contract, for
    every provider mix and any workspace content.**  Hypotheses about parameters and fuel as in
    `fista_satisfies_inner_contract` (every step-size mode, every stop schedule); nothing is assumed
    about the run. -/
theorem fista_on_raw_vtable_satisfies_inner_contract (B : Basic α) (hB : WF B) (P : Provided α)
    (hP : P.Sound B) (C : BoxC α) (D : BoxD α) (hbox : IsBoxProblem B C D)
    (W : Vec α → Vec α → Vec α → Vec α) (w : Vec α) (hw : w.length = B.m)
    (pr : Fista.Params α) (hpos : 0 < pr.LgammaFactor) (nL : Nat) (hF : FistaFuelOK pr nL)
    (hcrit : pr.stopCrit = .ApproxKKT)
    (stop : InnerCall α → Nat → Bool) (oot clock almStop : InnerCall α → Bool)
    (gV : Vec α) (nanS infS : α) :
    InnerContract (pbOf B C D) B.n B.m
      (fistaInner (vtProblemFista (resolve B P) C W w) pr stop oot clock almStop gV nanS infS) :=
  fista_satisfies_inner_contract (pbOf B C D) B.n B.m _
    (resolve_raw_meets_oracleContractFista B hB P hP C D hbox W w hw) pr hpos nL hF hcrit
    stop oot clock almStop gV nanS infS

/-- **C01 end to end for ALM over FISTA over the raw vtable (`m ≠ 0`)**: `Converged` only with the KKT
    certificate of the returned pair, stated with `B`'s `f, ∇f, g, ∇g·y`, `C`, `D` only. -/
theorem alm_fista_on_raw_vtable_certifies_kkt (nan inf : α) (acc0 : A)
    (accAdd : A → Fista.Stats α → A)
    (Pa : ALMParams α) (prob : C07.Problem α) (x y : Vec α) (Sig0 : Option (Vec α))
    (B : Basic α) (hB : WF B) (P : Provided α) (hP : P.Sound B) (C : BoxC α) (D : BoxD α)
    (hbox : IsBoxProblem B C D) (hpm : prob.m = B.m)
    (W : Vec α → Vec α → Vec α → Vec α) (w : Vec α) (hw : w.length = B.m)
    (pr : Fista.Params α) (hpos : 0 < pr.LgammaFactor) (nL : Nat) (hF : FistaFuelOK pr nL)
    (hcrit : pr.stopCrit = .ApproxKKT)
    (stop : InnerCall α → Nat → Bool) (oot clock almStop : InnerCall α → Bool)
    (gV : Vec α) (nanS infS : α)
    (hm : prob.m ≠ 0)
    (hC : ∀ b ∈ C, ∀ l u, b.1 = some l → b.2 = some u → l ≤ u)
    (hDb : ∀ i, i < prob.m → BndOK (lbAt D i) (ubAt D i))
    (hmin : 0 < Pa.min_penalty) (hmm : Pa.min_penalty ≤ Pa.max_penalty)
    (hlen : SigmaLen prob.m Sig0) (hx : x.length = B.n) (hy : y.length = prob.m)
    (hconv : (C07.run nan inf acc0 accAdd Pa prob x y Sig0
      (fistaInner (vtProblemFista (resolve B P) C W w) pr stop oot clock almStop gV nanS
        infS)).stats.status = .Converged) :
    KKTCert (pbOf B C D) prob.m Pa.tolerance Pa.dual_tolerance
      (C07.run nan inf acc0 accAdd Pa prob x y Sig0
        (fistaInner (vtProblemFista (resolve B P) C W w) pr stop oot clock almStop gV nanS infS)).x
      (C07.run nan inf acc0 accAdd Pa prob x y Sig0
        (fistaInner (vtProblemFista (resolve B P) C W w) pr stop oot clock almStop gV nanS infS)).y := by
  have hI := fista_on_raw_vtable_satisfies_inner_contract B hB P hP C D hbox W w hw pr hpos nL hF hcrit
    stop oot clock almStop gV nanS infS
  rw [← hpm] at hI
  exact alm_converged_certifies_kkt nan inf acc0 accAdd Pa prob x y Sig0 _ (pbOf B C D) B.n hI hm hC hDb
    hmin hmm hlen hx hy hconv

/-- **… and for `m = 0`** (stationarity and `x ∈ C`; the clauses about `g`, `D`, `y` are void).  The
    `ŷ` buffer handed to `eval_ψ` is the empty vector. -/
theorem alm_m0_fista_on_raw_vtable_certifies_kkt (nan inf : α) (acc0 : A)
    (accAdd : A → Fista.Stats α → A)
    (Pa : ALMParams α) (prob : C07.Problem α) (x y : Vec α) (Sig0 : Option (Vec α))
    (B : Basic α) (hB : WF B) (P : Provided α) (hP : P.Sound B) (C : BoxC α) (D : BoxD α)
    (hbox : IsBoxProblem B C D) (hpm : prob.m = B.m)
    (W : Vec α → Vec α → Vec α → Vec α)
    (pr : Fista.Params α) (hpos : 0 < pr.LgammaFactor) (nL : Nat) (hF : FistaFuelOK pr nL)
    (hcrit : pr.stopCrit = .ApproxKKT)
    (stop : InnerCall α → Nat → Bool) (oot clock almStop : InnerCall α → Bool)
    (gV : Vec α) (nanS infS : α)
    (hm : prob.m = 0) (h0 : Pa.max_iter ≠ 0)
    (hC : ∀ b ∈ C, ∀ l u, b.1 = some l → b.2 = some u → l ≤ u)
    (htol : 0 < Pa.tolerance) (hδ : 0 ≤ Pa.dual_tolerance) (hx : x.length = B.n)
    (hy : y.length = prob.m)
    (hconv : (C07.run nan inf acc0 accAdd Pa prob x y Sig0
      (fistaInner (vtProblemFista (resolve B P) C W []) pr stop oot clock almStop gV nanS
        infS)).stats.status = .Converged) :
    KKTCert (pbOf B C D) 0 Pa.tolerance Pa.dual_tolerance
      (C07.run nan inf acc0 accAdd Pa prob x y Sig0
        (fistaInner (vtProblemFista (resolve B P) C W []) pr stop oot clock almStop gV nanS infS)).x
      (C07.run nan inf acc0 accAdd Pa prob x y Sig0
        (fistaInner (vtProblemFista (resolve B P) C W []) pr stop oot clock almStop gV nanS infS)).y := by
  have hBm : B.m = 0 := by rw [← hpm]; exact hm
  have hI := fista_on_raw_vtable_satisfies_inner_contract B hB P hP C D hbox W [] (by rw [hBm]; rfl)
    pr hpos nL hF hcrit stop oot clock almStop gV nanS infS
  rw [hBm] at hI
  exact alm_m0_converged_certifies_kkt nan inf acc0 accAdd Pa prob x y Sig0 _ (pbOf B C D) B.n hI hm h0 hC
    htol hδ hx hy hconv

/-! ### Closed instances over ℚ: `exB1` of `Props/C01_C04` (`n = 1`, `m = 1`) -/
section examples

local instance : RealLike ℚ := Alpaqa.Props.C01Alm.instRealLikeRat
local instance : Alpaqa.Proofs.C07.NoNaN ℚ := ⟨fun _ => rfl⟩

/-- junk of the WRONG size in `work_m` (a 2-vector where `m = 1`), everywhere -/
def exWJunk : Vec ℚ → Vec ℚ → Vec ℚ → Vec ℚ := fun _ _ _ => [12345, 678]

/-- **the contract theorem applies** to the mix `exP1` (problem supplies `ψ`, `grad_L`; the `grad_ψ`,
    `ψ_grad_ψ` slots FISTA reaches hold the generated defaults), every hypothesis discharged … -/
theorem exVtFista_contract :
    OracleContractFista (pbOf exB1 exC1 exD1) 1 1 (vtProblemFista (resolve exB1 exP1) exC1 exWJunk [0]) :=
  resolve_raw_meets_oracleContractFista exB1 exB1_wf exP1 exP1_sound exC1 exD1 exB1_box exWJunk [0] rfl

/-- … and to the mix `exP2` (user-supplied `eval_ψ_grad_ψ`: closed form on `ℝ¹`, junk of the wrong size
    elsewhere) -/
theorem exVtFista2_contract :
    OracleContractFista (pbOf exB1 exC1 exD1) 1 1 (vtProblemFista (resolve exB1 exP2) exC1 exWJunk [0]) :=
  resolve_raw_meets_oracleContractFista exB1 exB1_wf exP2 exP2_sound exC1 exD1 exB1_box exWJunk [0] rfl

/-- the inner solver: the FISTA loop model over the raw slots of `resolve exB1 P`, junk in `work_m`;
    parameters `pr` (`prFx`: backtracking, `prFxFixed`: fixed step) of `Props/C01_Fista` -/
def exInnerFista (P : Provided ℚ) (pr : Fista.Params ℚ) : InnerCall ℚ → InnerResult ℚ (Fista.Stats ℚ) :=
  fistaInner (vtProblemFista (resolve exB1 P) exC1 exWJunk [0]) pr
    (fun _ _ => false) (fun _ => false) (fun _ => false) (fun _ => false) [] 0 0

/-- **FISTA (backtracking mode) over the raw slots of the constructed vtable satisfies the inner
    contract — no hypothesis left**, for every sound mix over `exB1` -/
theorem exVtFista_inner (P : Provided ℚ) (hP : P.Sound exB1) :
    InnerContract (pbOf exB1 exC1 exD1) 1 1 (exInnerFista P prFx) :=
  fista_on_raw_vtable_satisfies_inner_contract exB1 exB1_wf P hP exC1 exD1 exB1_box exWJunk [0] rfl
    prFx (by norm_num [prFx]) 10 prFx_fuel rfl (fun _ _ => false) (fun _ => false) (fun _ => false)
    (fun _ => false) [] 0 0

/-- … and in the fixed-step mode -/
theorem exVtFistaFixed_inner (P : Provided ℚ) (hP : P.Sound exB1) :
    InnerContract (pbOf exB1 exC1 exD1) 1 1 (exInnerFista P prFxFixed) :=
  fista_on_raw_vtable_satisfies_inner_contract exB1 exB1_wf P hP exC1 exD1 exB1_box exWJunk [0] rfl
    prFxFixed (by norm_num [prFxFixed, prFx]) 0 prFxFixed_fuel rfl (fun _ _ => false) (fun _ => false)
    (fun _ => false) (fun _ => false) [] 0 0

/-- not vacuous: started at the solution the run over the vtable (mix `exP1`) reports `Converged` with
    `x = 1`, `y = 2`, `err_z = 0` (the `err_z` buffer held `7`) … -/
example : (exInnerFista exP1 prFx exCall0).status = .Converged ∧ (exInnerFista exP1 prFx exCall0).x = [1] ∧
    (exInnerFista exP1 prFx exCall0).y = [2] ∧ (exInnerFista exP1 prFx exCall0).errz = [0] := by
  decide +kernel

/-- … from `x = 1/2` it iterates and converges within its budget (backtracking mode, accelerated) … -/
example : (exInnerFista exP1 prFx exCall).status = .Converged ∧
    0 < (exInnerFista exP1 prFx exCall).stats.iterations := by
  decide +kernel

/-- … the same over the mix `exP2` (the junk off the domain is never evaluated, the junk in `work_m`
    never read): same result as over `exP1` … -/
example : (exInnerFista exP2 prFx exCall).status = .Converged ∧
    (exInnerFista exP2 prFx exCall).eps = (exInnerFista exP1 prFx exCall).eps ∧
    (exInnerFista exP2 prFx exCall).x = (exInnerFista exP1 prFx exCall).x ∧
    (exInnerFista exP2 prFx exCall).y = (exInnerFista exP1 prFx exCall).y := by
  decide +kernel

/-- … and in the fixed-step mode -/
example : (exInnerFista exP2 prFxFixed exCall).status = .Converged ∧
    0 < (exInnerFista exP2 prFxFixed exCall).stats.iterations := by
  decide +kernel

/-- **the whole stack, closed**: ALM (`Props/C07` model) over the FISTA loop model over the raw slots
    of the constructed vtable (mix `exP2`, junk in `work_m`) started at the solution returns `Converged`,
    and `alm_fista_on_raw_vtable_certifies_kkt` — every hypothesis discharged — certifies the result. -/
example : KKTCert (pbOf exB1 exC1 exD1) 1 (1/10) (1/100)
    (C07.run (0 : ℚ) 0 (0 : Nat) (fun a _ => a + 1) almEx probEx [1] [2] none
      (exInnerFista exP2 prFx)).x
    (C07.run (0 : ℚ) 0 (0 : Nat) (fun a _ => a + 1) almEx probEx [1] [2] none
      (exInnerFista exP2 prFx)).y :=
  alm_fista_on_raw_vtable_certifies_kkt (0 : ℚ) 0 (0 : Nat) (fun a _ => a + 1) almEx probEx
    [1] [2] none exB1 exB1_wf exP2 exP2_sound exC1 exD1 exB1_box rfl exWJunk [0] rfl
    prFx (by norm_num [prFx]) 10 prFx_fuel rfl (fun _ _ => false) (fun _ => false) (fun _ => false)
    (fun _ => false) [] 0 0
    (by decide) exC1_ok exD1_ok (by norm_num [almEx]) (by norm_num [almEx]) trivial rfl rfl
    (by decide +kernel)

/-- the returned pair -/
example : (C07.run (0 : ℚ) 0 (0 : Nat) (fun a _ => a + 1) almEx probEx [1] [2] none
      (exInnerFista exP2 prFx)).x = [1] ∧
    (C07.run (0 : ℚ) 0 (0 : Nat) (fun a _ => a + 1) almEx probEx [1] [2] none
      (exInnerFista exP2 prFx)).y = [2] := by
  decide +kernel

/-- **the whole stack from a point that is not the solution** (`x = [1/2]`: the inner solve iterates) -/
example : KKTCert (pbOf exB1 exC1 exD1) 1 (1/10) (1/100)
    (C07.run (0 : ℚ) 0 (0 : Nat) (fun a _ => a + 1) almEx probEx [1/2] [2] none
      (exInnerFista exP2 prFx)).x
    (C07.run (0 : ℚ) 0 (0 : Nat) (fun a _ => a + 1) almEx probEx [1/2] [2] none
      (exInnerFista exP2 prFx)).y :=
  alm_fista_on_raw_vtable_certifies_kkt (0 : ℚ) 0 (0 : Nat) (fun a _ => a + 1) almEx probEx
    [1/2] [2] none exB1 exB1_wf exP2 exP2_sound exC1 exD1 exB1_box rfl exWJunk [0] rfl
    prFx (by norm_num [prFx]) 10 prFx_fuel rfl (fun _ _ => false) (fun _ => false) (fun _ => false)
    (fun _ => false) [] 0 0
    (by decide) exC1_ok exD1_ok (by norm_num [almEx]) (by norm_num [almEx]) trivial rfl rfl
    (by decide +kernel)

/-- … and it does not return its starting point -/
example : (C07.run (0 : ℚ) 0 (0 : Nat) (fun a _ => a + 1) almEx probEx [1/2] [2] none
      (exInnerFista exP2 prFx)).x ≠ [1/2] := by
  decide +kernel

end examples

end Alpaqa.Props.C01FistaC04
