/-
  C09 — L-BFGS two-loop recursion equals the dense BFGS inverse Hessian of its history.

  The theorems are about
    * the definitions of `Alpaqa/Gen/C09.lean`, regenerated from lbfgs.tpp / lbfgs.hpp on every run
      (`lbfgsUpdateValid`, `cbfgsEnabled`, `lbfgsSucc`, `lbfgsPred`, `lbfgsCurrentHistory`,
      `lbfgsForeachFwd`, `lbfgsForeachRev`; and the scaling marker of `apply_masked_impl`:
      `lbfgsMaskedNeedGamma`, `lbfgsMaskedSetGamma`, `lbfgsMaskedGammaOfPair`, `lbfgsMaskedFail`), and
    * the hand-written executable model `Alpaqa/Model/C09.lean` (tied by bit-exact correspondence).
  They hold over every linearly ordered field, for every memory size, every dimension and every
  history (induction; no bound).  Vectors are lists; "dimension n" is a length hypothesis.

  THE PROPERTY THEOREMS for `apply` are `apply_eq_dense_bfgs` (state level) and
  `reachable_apply_dense` / `reachable_apply_posdef` (every op history from a freshly constructed
  object).  They carry the invariant `CurvOK`: every stored pair has `⟨y,s⟩ ≠ 0` — exactly the
  condition under which the dense BFGS inverse Hessian of the history exists.  `run_goodC` proves it
  along every run whose operations satisfy `OpOK` (dimensions match; a *forced* update has non-zero
  curvature; `scale_y` factor ≠ 0), for `min_div_fac ≥ 0` (then `update_valid` rejects `⟨y,s⟩ = 0`:
  `stored_curv_ne_zero`).  The excluded points are covered explicitly:
  `forced_zero_curvature_breaks`, `scaleY_zero_breaks` (C++: `ρ = 1/0 = inf`, `apply` returns NaN;
  run on the real code by checks/c09.py).  `apply_eq_dense` / `run_refines` below are the algebraic
  core over a field, where `1/0 = 0`: on a history with a zero-curvature pair their `H` is *not* a
  BFGS matrix (none exists) — do not cite them as the property statement.

  `apply_eq_dense` needs `RhoOK` (every stored `ρ` is `1/⟨y,s⟩`).  Every operation preserves it,
  including `applyMasked` (`applyMasked_rhoOK`) — for the *repaired* `apply_masked_impl`
  (fixes/C09-apply_masked-stored-rho.diff; the shipped code overwrote the stored `ρ`, DESIGN §7-I,
  known-findings `C09-apply-after-apply_masked-stored-rho-overwritten`, status fixed).  On the
  unrepaired code the model and the implementation disagree and the monitors report the violation.

  The masked variant (`applyMasked_eq_restricted`, `maskedFail_iff`, `maskedGamma_newest_valid`,
  `applyMasked_full_eq_apply`) follows the second repair of `apply_masked_impl`
  (fixes/C09-apply_masked-scaling-marker.diff: a separate flag `need_γ` instead of the sign of `γ`
  as the "scaling not yet computed" marker; known-findings
  `C09-apply_masked-negative-curvature-scaling-from-older-pair`, status fixed): the scaling is that
  of the newest pair valid on `J` whatever its sign, the call fails only when no pair is valid on
  `J` (and then leaves `q` untouched), and on the full index set it agrees with `apply`.  On the
  code without that repair the translator stops (`need_γ` not found).
-/
import Alpaqa.Proofs.C09Ring
import Alpaqa.Proofs.C09Masked
import Mathlib.Tactic.NormNum

namespace Alpaqa.Props.C09
open Alpaqa Alpaqa.Gen Alpaqa.C09
set_option linter.unusedSectionVars false
set_option linter.unusedVariables false

variable {α : Type} [Field α] [LinearOrder α] [IsStrictOrderedRing α]
  [RealLike α] [PowLike α] [HasNaN α]

/-- The most recent `m` entries of a history. -/
def lastN {β : Type} (m : Nat) (l : List β) : List β := l.drop (l.length - m)

/-- Every stored `ρ` is the reciprocal curvature of its pair. -/
def RhoOK (st : State α) : Prop := ∀ c ∈ st.pairs, c.rho = 1 / dot c.y c.s

/-! ## (a) ring refinement: `abs : State → History` -/

/-- At most `memory` pairs are stored. -/
theorem abs_length_le (st : State α) (hI : Inv st) : st.abs.length ≤ st.slots.length := by
  simp only [State.abs, List.length_map, pairs_length st hI]
  have := hI.idx_lt
  cases st.full <;> simp <;> omega

/-- `current_history()` is the length of the abstract history. -/
theorem currentHistory_eq_abs_length (st : State α) (hI : Inv st) :
    st.currentHistory = st.abs.length := by
  simp only [State.currentHistory, currentHistory_eq, State.abs, List.length_map,
    pairs_length st hI, State.history]

/-- `foreach_fwd` enumerates the history oldest first … -/
theorem foreach_fwd_enumerates (st : State α) (hI : Inv st) :
    st.fwdIdx.map (fun i => ((st.slot i).s, (st.slot i).y)) = st.abs := by
  rw [State.abs, ← fwdIdx_map_slot st hI, List.map_map]; rfl

/-- … and `foreach_rev` newest first. -/
theorem foreach_rev_enumerates (st : State α) (hI : Inv st) :
    st.revIdx.map (fun i => ((st.slot i).s, (st.slot i).y)) = st.abs.reverse := by
  rw [State.abs, ← List.map_reverse, ← revIdx_map_slot st hI, List.map_map]; rfl

/-- The empty test of `apply` (`idx == 0 && not full`) is emptiness of the history. -/
theorem isEmpty_iff (st : State α) (hI : Inv st) : st.isEmpty = true ↔ st.abs = [] := by
  have hl := pairs_length st hI
  have hp := hI.pos
  rw [State.abs, List.map_eq_nil_iff, ← List.length_eq_zero_iff, hl]
  clear hl
  unfold State.isEmpty
  rcases Bool.eq_false_or_eq_true st.full with hf | hf
  · simp only [hf]; simp
    intro h; rw [h] at hp; simp at hp
  · simp only [hf]; simp

/-- `update_sy`: a stored pair is appended and the history truncated to the last `memory`
    entries (wrap-around of the circular buffer); a rejected pair leaves it alone. -/
theorem updateSy_abs (p : Params α) (st : State α) (hI : Inv st) (s y : Vec α) (pTp : α)
    (forced : Bool) :
    (updateSy p st s y pTp forced).1.abs =
      if (updateSy p st s y pTp forced).2 then lastN st.slots.length (st.abs ++ [(s, y)])
      else st.abs := by
  simp only [updateSy]
  by_cases hc : (!forced && !(updateValid p (dot y s) (sqNorm s) pTp)) = true
  · simp [hc]
  · simp only [hc, if_false, if_true]
    have h := pairs_push st hI ⟨s, y, 1 / dot y s⟩
    refine (congrArg (List.map fun c => (c.s, c.y)) h).trans ?_
    simp [lastN, State.abs, List.map_drop]

theorem updateSy_inv (p : Params α) (st : State α) (hI : Inv st) (s y : Vec α) (pTp : α)
    (forced : Bool) : Inv (updateSy p st s y pTp forced).1 := by
  simp only [updateSy]
  split_ifs
  · exact hI
  · refine ⟨by simpa using hI.pos, ?_, by simpa using hI.al_len⟩
    have := hI.pos
    simp only [List.length_set, State.history, succ_eq]
    split_ifs <;> omega

theorem updateSy_slots_length (p : Params α) (st : State α) (s y : Vec α) (pTp : α)
    (forced : Bool) : (updateSy p st s y pTp forced).1.slots.length = st.slots.length := by
  simp only [updateSy]; split_ifs <;> simp

/-- `update(xₖ, xₙₑₓₜ, pₖ, pₙₑₓₜ, sign, forced)` is `update_sy` on the differences. -/
theorem update_eq_updateSy (p : Params α) (st : State α) (xk xn pk pn : Vec α)
    (positive forced : Bool) :
    update p st xk xn pk pn positive forced =
      updateSy p st (vsub xn xk) (if positive then vsub pn pk else vsub pk pn)
        (if cbfgsEnabled p.cbfgsAlpha p.cbfgsEps then sqNorm pn else 0) forced := rfl

/-- `apply` does not change the history (it only writes the `α` row). -/
theorem apply_abs (p : Params α) (st : State α) (q : Vec α) (γ : α) :
    (apply p st q γ).1.abs = st.abs := by
  unfold C09.apply; split_ifs <;> rfl

theorem apply_inv (p : Params α) (st : State α) (hI : Inv st) (q : Vec α) (γ : α) :
    Inv (apply p st q γ).1 := by
  unfold C09.apply; split_ifs
  · exact hI
  · exact ⟨hI.pos, hI.idx_lt, by simpa [revPass_length] using hI.al_len⟩

/-- `reset` empties the history. -/
theorem reset_abs (st : State α) : (reset st).abs = [] := by
  simp [reset, State.abs, State.pairs]

theorem reset_inv (st : State α) (hI : Inv st) : Inv (reset st) :=
  ⟨hI.pos, hI.pos, hI.al_len⟩

/-- `resize` (and construction) gives an empty history with `memory` slots; it fails exactly
    when `memory < 1`. -/
theorem resize_spec (p : Params α) (n : Nat) :
    (p.memory < 1 → resize p n = none) ∧
    (1 ≤ p.memory → ∃ st, resize p n = some st ∧ Inv st ∧ st.abs = [] ∧
        st.slots.length = p.memory ∧ st.n = n) := by
  constructor
  · intro h; simp [resize, h]
  · intro h
    have : ¬ p.memory < 1 := by omega
    refine ⟨⟨n, List.replicate p.memory ⟨List.replicate n 0, List.replicate n 0, 0⟩,
      List.replicate p.memory 0, 0, false⟩, by simp only [resize, this, if_false],
      ⟨by simp; omega, by simp; omega, by simp⟩, by simp [State.abs, State.pairs], by simp, rfl⟩

/-- `scale_y(f)` scales every stored `y` (and nothing else) … -/
theorem scaleY_abs (st : State α) (hI : Inv st) (f : α) :
    (scaleY st f).abs = st.abs.map fun sy => (sy.1, smul f sy.2) := by
  have hi := hI.idx_lt
  simp only [scaleY, State.abs, State.pairs, State.history]
  rcases Bool.eq_false_or_eq_true st.full with hf | hf
  · simp only [hf, if_true, List.take_length, List.drop_length, List.append_nil]
    simp [List.map_map, Function.comp_def, List.map_drop, List.map_take]
  · simp only [hf, Bool.false_eq_true, if_false]
    rw [List.take_append_of_le_length (by simp <;> omega), List.take_of_length_le (by simp <;> omega)]
    simp [List.map_map, Function.comp_def]

theorem scaleY_inv (st : State α) (hI : Inv st) (f : α) : Inv (scaleY st f) := by
  have h : (scaleY st f).slots.length = st.slots.length := by
    simp only [scaleY, List.length_append, List.length_map, List.length_take, List.length_drop]
    omega
  exact ⟨h ▸ hI.pos, h ▸ hI.idx_lt, h ▸ hI.al_len⟩

/-- … and keeps the stored `ρ` consistent (`ρ·(1/f) = 1/⟨f·y, s⟩`, also for `f = 0` with the
    field convention `1/0 = 0`). -/
theorem scaleY_rhoOK (st : State α) (hI : Inv st) (f : α) (h : RhoOK st) : RhoOK (scaleY st f) := by
  have hi := hI.idx_lt
  have key : (scaleY st f).pairs = st.pairs.map fun c => ⟨c.s, smul f c.y, c.rho * (1 / f)⟩ := by
    simp only [scaleY, State.pairs, State.history]
    rcases Bool.eq_false_or_eq_true st.full with hf | hf
    · simp only [hf, if_true, List.take_length, List.drop_length, List.append_nil]
      simp [List.map_drop, List.map_take]
    · simp only [hf, Bool.false_eq_true, if_false]
      rw [List.take_append_of_le_length (by simp <;> omega), List.take_of_length_le (by simp <;> omega)]
  intro c hc
  rw [key, List.mem_map] at hc
  obtain ⟨c0, hc0, rfl⟩ := hc
  simp only [h c0 hc0, dot_smul_left]
  simp [one_div, mul_inv, mul_comm]

/-! ## (b) stored ⇔ forced ∨ acceptance test -/

/-- A pair is stored exactly when it is forced or passes `update_valid` (the generated kernel)
    evaluated at `⟨y,s⟩`, `⟨s,s⟩`, `pₙₑₓₜᵀpₙₑₓₜ`. -/
theorem stored_iff (p : Params α) (st : State α) (s y : Vec α) (pTp : α) (forced : Bool) :
    (updateSy p st s y pTp forced).2 = true ↔
      (forced = true ∨ updateValid p (dot y s) (sqNorm s) pTp = true) := by
  simp only [updateSy]
  cases forced <;> cases h : updateValid p (dot y s) (sqNorm s) pTp <;> simp [h]

/-- A rejected pair changes nothing. -/
theorem not_stored_unchanged (p : Params α) (st : State α) (s y : Vec α) (pTp : α) (forced : Bool)
    (h : (updateSy p st s y pTp forced).2 = false) : (updateSy p st s y pTp forced).1 = st := by
  simp only [updateSy] at h ⊢
  split_ifs at h ⊢ <;> simp_all

/-- What the documented acceptance test guarantees (read off the generated kernel): `s` is not
    tiny, and the (absolute) curvature exceeds `min_div_fac·‖s‖²`; with CBFGS on, also the
    cautious-update bound. -/
theorem updateValid_spec (p : Params α) (yTs sTs pTp : α) (h : updateValid p yTs sTs pTp = true) :
    p.minAbsS < sTs ∧ RealLike.isFinite yTs = true ∧
    p.minDivFac * sTs < (if p.forcePosDef then yTs else |yTs|) ∧
    (cbfgsEnabled p.cbfgsAlpha p.cbfgsEps = true →
      sTs * p.cbfgsEps * PowLike.pow pTp (p.cbfgsAlpha / 2) ≤ (if p.forcePosDef then yTs else |yTs|)) := by
  unfold updateValid lbfgsUpdateValid at h
  simp only [eabs_eq_abs] at h
  split_ifs at h <;> simp_all

/-- Conversely the test accepts whenever those conditions hold. -/
theorem updateValid_complete (p : Params α) (yTs sTs pTp : α) (h1 : p.minAbsS < sTs)
    (h2 : RealLike.isFinite yTs = true)
    (h3 : p.minDivFac * sTs < (if p.forcePosDef then yTs else |yTs|))
    (h4 : cbfgsEnabled p.cbfgsAlpha p.cbfgsEps = true →
      sTs * p.cbfgsEps * PowLike.pow pTp (p.cbfgsAlpha / 2) ≤ (if p.forcePosDef then yTs else |yTs|)) :
    updateValid p yTs sTs pTp = true := by
  unfold updateValid lbfgsUpdateValid
  simp only [eabs_eq_abs]
  have n1 : ¬ sTs ≤ p.minAbsS := not_le.mpr h1
  have n3 : ¬ (if p.forcePosDef then yTs else |yTs|) ≤ p.minDivFac * sTs := not_le.mpr h3
  by_cases hcb : cbfgsEnabled p.cbfgsAlpha p.cbfgsEps = true
  · have := h4 hcb
    simp [n1, n3, h2, hcb, this]
  · simp [n1, n3, h2, hcb]

/-- With `force_pos_def` and `min_div_fac ≥ 0`, accepted pairs have positive curvature. -/
theorem updateValid_pos (p : Params α) (yTs sTs pTp : α) (h : updateValid p yTs sTs pTp = true)
    (hf : p.forcePosDef = true) (hm : 0 ≤ p.minDivFac) (hs : 0 ≤ sTs) : 0 < yTs := by
  have := (updateValid_spec p yTs sTs pTp h).2.2.1
  rw [hf, if_pos rfl] at this
  have := mul_nonneg hm hs
  linarith

/-- Without it they still have non-zero curvature (the Hessian stays nonsingular). -/
theorem updateValid_ne_zero (p : Params α) (yTs sTs pTp : α) (h : updateValid p yTs sTs pTp = true)
    (hm : 0 ≤ p.minDivFac) (hs : 0 ≤ sTs) : yTs ≠ 0 := by
  have := (updateValid_spec p yTs sTs pTp h).2.2.1
  have h0 := mul_nonneg hm hs
  intro hz
  subst hz
  split_ifs at this
  · linarith
  · rw [abs_zero] at this; linarith

/-- `CBFGSParams::operator bool` is `ϵ > 0`. -/
theorem cbfgsEnabled_iff (a e : α) : cbfgsEnabled a e = true ↔ 0 < e := by
  simp [cbfgsEnabled]

/-! ## (c) two-loop recursion = dense operator -/

/-- Defining equations of the dense operator on histories (oldest first), as in DESIGN A.2. -/
theorem H_nil (γ0 : α) (q : Vec α) : H γ0 [] q = smul γ0 q := rfl

theorem H_snoc (γ0 : α) (hs : List (Vec α × Vec α)) (s y q : Vec α) :
    H γ0 (hs ++ [(s, y)]) q =
      vadd (H γ0 hs (vsub q (smul (1 / dot y s * dot s q) y)))
        (smul (1 / dot y s * dot s q
                - 1 / dot y s * dot y (H γ0 hs (vsub q (smul (1 / dot y s * dot s q) y)))) s) := by
  simp [H, Hrev]

/-- Algebraic core (LEMMA — the property theorem is `apply_eq_dense_bfgs`): the two loops of `apply`
    over the ring compute the operator `H` of the abstract history, with the initial scaling
    `applyGamma` (see `applyGamma_curvature`).  `H` is the dense BFGS inverse Hessian when every
    stored `⟨y,s⟩ ≠ 0` (`CurvOK`); for a stored pair with `⟨y,s⟩ = 0` (only a forced update or
    `scale_y(0)` can produce one) this identity holds through the field convention `1/0 = 0` while
    the C++ computes with `ρ = inf` and returns NaN. -/
theorem apply_eq_dense (p : Params α) (st : State α) (hI : Inv st) (hρ : RhoOK st) (q : Vec α)
    (γ : α) (hne : st.isEmpty = false) :
    (apply p st q γ).2.1 = H (applyGamma p st γ) st.abs q ∧ (apply p st q γ).2.2 = true := by
  unfold C09.apply
  simp only [hne, Bool.false_eq_true, if_false, and_true]
  have hrev : st.revIdx = st.fwdIdx.reverse := foreachRev_eq_reverse _ _ _ hI.idx_lt
  have hnd : st.revIdx.Nodup := by
    rw [hrev, List.nodup_reverse]; exact foreachFwd_nodup _ _ _ hI.idx_lt
  have hlt : ∀ i ∈ st.revIdx, i < st.al.length := by
    intro i hi
    rw [hrev, List.mem_reverse] at hi
    rw [hI.al_len]
    exact foreachFwd_lt _ _ _ hI.idx_lt i hi
  have h1 := passes_eq_twoLoop st.slots (applyGamma p st γ) st.revIdx st.al q hnd hlt
  rw [hrev, List.reverse_reverse, ← hrev] at h1
  rw [h1]
  have h2 : (st.revIdx.map fun i => st.slots.getD i default) = st.pairs.reverse :=
    revIdx_map_slot st hI
  rw [h2, twoLoop_eq_Hrev _ _ _ (fun c hc => hρ c (List.mem_reverse.mp hc))]
  simp [H, State.abs, List.map_reverse]

/-- On an empty history `apply` fails and leaves `q` and the state alone. -/
theorem apply_empty (p : Params α) (st : State α) (q : Vec α) (γ : α) (he : st.isEmpty = true) :
    apply p st q γ = (st, q, false) := by
  simp [C09.apply, he]

/-- `pred(idx)` is the slot of the newest pair. -/
theorem newest_slot (st : State α) (hI : Inv st) (hne : st.isEmpty = false) :
    st.pairs.getLast? = some (st.slot (lbfgsPred st.history st.idx)) := by
  have hi := hI.idx_lt
  unfold State.pairs State.slot State.history
  rw [pred_eq]
  by_cases h0 : 0 < st.idx
  · have hl : (st.slots.take st.idx).getLast? = some (st.slots.getD (st.idx - 1) default) := by
      rw [List.getLast?_eq_getElem?]
      simp only [List.length_take, List.getElem?_take]
      have : min st.idx st.slots.length - 1 = st.idx - 1 := by omega
      rw [this, if_pos (by omega)]
      simp [List.getD_eq_getElem?_getD, show st.idx - 1 < st.slots.length by omega]
    rw [if_pos h0]
    cases st.full
    · simpa using hl
    · simp only [if_true, List.getLast?_append, hl, Option.some_or]
  · have hz : st.idx = 0 := by omega
    have hfull : st.full = true := by
      unfold State.isEmpty at hne
      cases hf : st.full <;> simp_all
    rw [if_neg h0, hfull, hz]
    simp only [if_true, List.drop_zero, List.take_zero, List.append_nil]
    rw [List.getLast?_eq_getElem?]
    have := hI.pos
    simp [List.getD_eq_getElem?_getD, show st.slots.length - 1 < st.slots.length by omega]

/-- The documented initial scaling: the external `γ`, or — with `BasedOnCurvature` or `γ < 0` —
    `sᵀy / yᵀy` of the newest stored pair. -/
theorem applyGamma_curvature (p : Params α) (st : State α) (hI : Inv st) (hρ : RhoOK st) (γ : α)
    (hne : st.isEmpty = false) :
    ∃ sy, st.abs.getLast? = some sy ∧
      applyGamma p st γ = if (p.curvature = true ∨ γ < 0) then dot sy.2 sy.1 / dot sy.2 sy.2 else γ := by
  have hn := newest_slot st hI hne
  refine ⟨((st.slot (lbfgsPred st.history st.idx)).s, (st.slot (lbfgsPred st.history st.idx)).y), ?_, ?_⟩
  · simp [State.abs, List.getLast?_map, hn]
  · have hmem : st.slot (lbfgsPred st.history st.idx) ∈ st.pairs := List.mem_of_getLast? hn
    unfold applyGamma
    simp only [Bool.or_eq_true, decide_eq_true_eq]
    split_ifs
    · rw [hρ _ hmem, sqNorm_eq_dot]
      simp [one_div, mul_inv, div_eq_mul_inv, mul_comm]
    · rfl

/-- `apply` keeps the stored `ρ` (it only writes `α`). -/
theorem apply_rhoOK (p : Params α) (st : State α) (q : Vec α) (γ : α) (h : RhoOK st) :
    RhoOK (apply p st q γ).1 := by
  unfold C09.apply; split_ifs <;> exact h

/-- `update_sy` stores `ρ = 1/⟨y,s⟩` with the pair. -/
theorem updateSy_rhoOK (p : Params α) (st : State α) (hI : Inv st) (s y : Vec α) (pTp : α)
    (forced : Bool) (h : RhoOK st) : RhoOK (updateSy p st s y pTp forced).1 := by
  simp only [updateSy]
  split_ifs
  · exact h
  · intro c hc
    have hp := pairs_push st hI ⟨s, y, 1 / dot y s⟩
    simp only at hp
    rw [hp] at hc
    have := List.mem_of_mem_drop hc
    rcases List.mem_append.mp this with h1 | h1
    · exact h c h1
    · simp only [List.mem_singleton] at h1; subst h1; rfl

theorem reset_rhoOK (st : State α) : RhoOK (reset st) := by
  intro c hc; simp [reset, State.pairs] at hc

/-! ## (d) the dense operator is symmetric, satisfies the secant equation, is positive definite -/

/-- `⟨u, H v⟩ = ⟨H u, v⟩`. -/
theorem H_symm {n : Nat} (γ0 : α) (hist : List (Vec α × Vec α)) (hw : WF n hist) (u v : Vec α)
    (hu : u.length = n) (hv : v.length = n) :
    dot u (H γ0 hist v) = dot (H γ0 hist u) v :=
  Hrev_symm γ0 _ (WF_reverse.mpr hw) u v hu hv

/-- Secant equation for the newest pair: `H y_new = s_new` (needs only `⟨y,s⟩ ≠ 0`). -/
theorem H_secant {n : Nat} (γ0 : α) (hist : List (Vec α × Vec α)) (s y : Vec α)
    (hw : WF n (hist ++ [(s, y)])) (hys : dot y s ≠ 0) :
    H γ0 (hist ++ [(s, y)]) y = s := by
  unfold H
  rw [List.reverse_append, List.reverse_singleton, List.singleton_append]
  have hw' : WF n ((s, y) :: hist.reverse) := by
    have := WF_reverse.mpr hw
    rwa [List.reverse_append, List.reverse_singleton, List.singleton_append] at this
  exact Hrev_secant γ0 s y _ hw' hys

/-- Positive definite when every stored curvature is positive and `γ₀ > 0`. -/
theorem H_posdef {n : Nat} (γ0 : α) (hγ : 0 < γ0) (hist : List (Vec α × Vec α)) (hw : WF n hist)
    (hc : ∀ sy ∈ hist, 0 < dot sy.2 sy.1) (q : Vec α) (hq : q.length = n)
    (hq0 : q ≠ List.replicate n 0) : 0 < dot q (H γ0 hist q) :=
  Hrev_posdef γ0 hγ _ (WF_reverse.mpr hw) (fun sy h => hc sy (List.mem_reverse.mp h)) q hq hq0

/-- The operator preserves the dimension. -/
theorem H_length {n : Nat} (γ0 : α) (hist : List (Vec α × Vec α)) (hw : WF n hist) (q : Vec α)
    (hq : q.length = n) : (H γ0 hist q).length = n :=
  Hrev_length γ0 _ (WF_reverse.mpr hw) q hq

/-- End-to-end: with positive curvature enforced (`force_pos_def`, `min_div_fac ≥ 0`), every pair
    that `update_sy` accepts un-forced has `⟨y,s⟩ > 0` — the hypothesis of `H_posdef`. -/
theorem accepted_curvature_pos (p : Params α) (st : State α) (s y : Vec α) (pTp : α)
    (hst : (updateSy p st s y pTp false).2 = true) (hf : p.forcePosDef = true)
    (hm : 0 ≤ p.minDivFac) : 0 < dot y s := by
  have := (stored_iff p st s y pTp false).mp hst
  simp only [Bool.false_eq_true, false_or] at this
  exact updateValid_pos p _ _ _ this hf hm (by rw [sqNorm_eq_dot]; exact dot_self_nonneg s)

/-! ## (e) the masked variant -/

/-- The state `apply_masked` leaves behind (`threw`: unchanged). -/
def maskedState (st : State α) : MaskedResult α → State α
  | .threw => st
  | .done st' _ _ => st'

/-- The vector left in `q` and the `bool` result (`none`: it threw). -/
def maskedOut : MaskedResult α → Option (Vec α × Bool)
  | .threw => none
  | .done _ q ok => some (q, ok)

/-- `apply_masked` changes nothing of the state but the `α` row. -/
theorem applyMasked_state (p : Params α) (st : State α) (q : Vec α) (γ : α) (J : List Nat) :
    ∃ al, maskedState st (applyMasked p st q γ J) = { st with al := al } ∧
      (st.al.length = st.slots.length → al.length = st.slots.length) := by
  simp only [applyMasked]
  split_ifs <;> first
    | exact ⟨st.al, rfl, id⟩
    | exact ⟨_, rfl, fun h => by rw [(mrev_length _ _ _ _ _ _).1]; exact h⟩

/-- … so the abstract history is the same afterwards, -/
theorem applyMasked_abs (p : Params α) (st : State α) (q : Vec α) (γ : α) (J : List Nat) :
    (maskedState st (applyMasked p st q γ J)).abs = st.abs := by
  obtain ⟨al, h, _⟩ := applyMasked_state p st q γ J
  rw [h]; rfl

theorem applyMasked_inv (p : Params α) (st : State α) (hI : Inv st) (q : Vec α) (γ : α)
    (J : List Nat) : Inv (maskedState st (applyMasked p st q γ J)) := by
  obtain ⟨al, h, hl⟩ := applyMasked_state p st q γ J
  rw [h]; exact ⟨hI.pos, hI.idx_lt, hl hI.al_len⟩

/-- … and the stored `ρ` stay the reciprocal curvatures of the *full* pairs (repaired code). -/
theorem applyMasked_rhoOK (p : Params α) (st : State α) (q : Vec α) (γ : α) (J : List Nat)
    (h : RhoOK st) : RhoOK (maskedState st (applyMasked p st q γ J)) := by
  obtain ⟨al, h', _⟩ := applyMasked_state p st q γ J
  rw [h']; exact h

/-- The acceptance test of a pair restricted to `J` (`pᵀp = 0`, as the code passes it). -/
def validJh (p : Params α) (fJ : Bool) (J : List Nat) (sy : Vec α × Vec α) : Bool :=
  updateValid p (dotJ fJ J sy.1 sy.2) (dotJ fJ J sy.1 sy.1) 0

/-- The history restricted to `J`: pairs invalid on `J` skipped, the others restricted. -/
def restrictHist (p : Params α) (fJ : Bool) (J : List Nat) (hist : List (Vec α × Vec α)) :
    List (Vec α × Vec α) :=
  (hist.filter (validJh p fJ J)).map fun sy => (G fJ J sy.1, G fJ J sy.2)

/-- The step size `apply_masked` starts from: `−1` under the curvature policy, else the argument. -/
def maskedGamma0 (p : Params α) (γ : α) : α := if p.curvature then -1 else γ

/-- The scaling `apply_masked` ends its first loop with (see `maskedGamma_*` below). -/
def maskedGamma (p : Params α) (st : State α) (q : Vec α) (γ : α) (J : List Nat) : α :=
  (mGamma p (q.length == J.length) J st.pairs.reverse
    (lbfgsMaskedNeedGamma (maskedGamma0 p γ)) (maskedGamma0 p γ)).2

/-- The marker `need_γ` after the first loop: the call fails iff it is still set
    (`maskedFail_iff`). -/
def maskedFail (p : Params α) (st : State α) (q : Vec α) (γ : α) (J : List Nat) : Bool :=
  (mGamma p (q.length == J.length) J st.pairs.reverse
    (lbfgsMaskedNeedGamma (maskedGamma0 p γ)) (maskedGamma0 p γ)).1

/-- **Masked variant = the same construction restricted to the index subset.**  With CBFGS off,
    `J` duplicate-free and in range (or full), over a carrier without NaN: `apply_masked` fails
    exactly when `maskedFail` (no non-negative step size supplied *and* no pair valid on `J`:
    `maskedFail_iff`) and then returns `q` **unchanged**; otherwise the entries of the result on `J`
    are the dense BFGS operator of the history restricted to `J` (pairs invalid on `J` skipped),
    with the scaling `maskedGamma` (of either sign), applied to `q` restricted to `J`, and the
    entries outside `J` are untouched. -/
theorem applyMasked_eq_restricted (p : Params α) (st : State α) (hI : Inv st) (q : Vec α) (γ : α)
    (J : List Nat) (hne : st.isEmpty = false)
    (hcb : cbfgsEnabled p.cbfgsAlpha p.cbfgsEps = false)
    (hnn : ∀ x : α, RealLike.isNaN x = false)
    (hJ : JOK (q.length == J.length) J q.length) :
    ∃ q', maskedOut (applyMasked p st q γ J) = some (q', !maskedFail p st q γ J) ∧
      (maskedFail p st q γ J = true → q' = q) ∧
      (maskedFail p st q γ J = false →
        G (q.length == J.length) J q' =
          H (maskedGamma p st q γ J) (restrictHist p (q.length == J.length) J st.abs)
            (G (q.length == J.length) J q) ∧
        ((q.length == J.length) = false → ∀ j, j ∉ J → vget q' j = vget q j)) := by
  simp only [maskedGamma, maskedFail, maskedGamma0, applyMasked, hne, hcb, Bool.false_eq_true, if_false]
  have hrev : st.revIdx = st.fwdIdx.reverse := foreachRev_eq_reverse _ _ _ hI.idx_lt
  have hfwd : st.fwdIdx = st.revIdx.reverse := by rw [hrev, List.reverse_reverse]
  have hnd : st.revIdx.Nodup := by
    rw [hrev, List.nodup_reverse]; exact foreachFwd_nodup _ _ _ hI.idx_lt
  have hlt : ∀ i ∈ st.revIdx,
      i < st.al.length ∧ i < (List.replicate st.al.length false).length := by
    intro i hi
    rw [hrev, List.mem_reverse] at hi
    have := foreachFwd_lt _ _ _ hI.idx_lt i hi
    rw [List.length_replicate, hI.al_len]
    exact ⟨this, this⟩
  have hmap : (st.revIdx.map fun i => st.slots.getD i default) = st.pairs.reverse :=
    revIdx_map_slot st hI
  generalize hγ0 : (if p.curvature then (-1 : α) else γ) = γ0
  set a0 : MaskAcc α := ⟨st.al, List.replicate st.al.length false, q, γ0, lbfgsMaskedNeedGamma γ0⟩
    with ha0
  have hg := mrev_gamma p (q.length == J.length) J st.slots st.revIdx a0
  rw [hmap] at hg
  have hg1 : (mGamma p (q.length == J.length) J st.pairs.reverse (lbfgsMaskedNeedGamma γ0) γ0).1
      = (st.revIdx.foldl (maskedRevStep p (q.length == J.length) J st.slots) a0).need :=
    (congrArg Prod.fst hg).symm
  have hg2 : (mGamma p (q.length == J.length) J st.pairs.reverse (lbfgsMaskedNeedGamma γ0) γ0).2
      = (st.revIdx.foldl (maskedRevStep p (q.length == J.length) J st.slots) a0).γ :=
    (congrArg Prod.snd hg).symm
  have hp := fun g => mpasses_eq_mTwo p (q.length == J.length) J st.slots g hnn st.revIdx a0 hnd hlt
  simp only [hmap, ← hfwd] at hp
  have hhist : ((st.pairs.reverse.filter (validJ p (q.length == J.length) J)).map
      fun c => (G (q.length == J.length) J c.s, G (q.length == J.length) J c.y))
      = (restrictHist p (q.length == J.length) J st.abs).reverse := by
    simp only [restrictHist, State.abs, List.filter_map, List.map_map, List.filter_reverse,
      List.map_reverse]
    rfl
  rw [hg1, hg2]
  simp only [lbfgsMaskedFail]
  cases hneed : (st.revIdx.foldl (maskedRevStep p (q.length == J.length) J st.slots) a0).need with
  | true =>
    simp only [if_true, maskedOut, Bool.not_true]
    refine ⟨_, rfl, fun _ => ?_, fun h => absurd h (by simp)⟩
    -- the marker survived: no visited pair is valid on J, so the loop left q alone
    have hall : ∀ c ∈ st.pairs.reverse, validJ p (q.length == J.length) J c = false := by
      have := (mGamma_need_iff p (q.length == J.length) J st.pairs.reverse
        (lbfgsMaskedNeedGamma γ0) γ0).mp (by rw [hg1, hneed])
      exact this.2
    have hvi : ∀ i ∈ st.revIdx,
        validJ p (q.length == J.length) J (st.slots.getD i default) = false := by
      intro i hi
      apply hall
      rw [← hmap]; exact List.mem_map.mpr ⟨i, hi, rfl⟩
    exact mrev_q_no_valid p (q.length == J.length) J st.slots st.revIdx a0 hvi
  | false =>
    simp only [Bool.false_eq_true, if_false, maskedOut, Bool.not_false]
    refine ⟨_, rfl, fun h => absurd h (by simp), fun _ => ⟨?_, ?_⟩⟩
    · rw [hp, G_mTwo _ _ _ _ _ _ hJ, hhist]
      simp [H]
    · intro hf j hj
      rw [hp, hf]
      exact mTwo_offJ _ _ _ _ _ _ hj

/-- **When `apply_masked` fails**: exactly when no non-negative step size is supplied (curvature
    policy, or `γ < 0`) *and* no stored pair is valid on `J` — never because of the sign of a
    curvature. -/
theorem maskedFail_iff (p : Params α) (st : State α) (q : Vec α) (γ : α) (J : List Nat) :
    maskedFail p st q γ J = true ↔
      maskedGamma0 p γ < 0 ∧ ∀ c ∈ st.pairs, validJ p (q.length == J.length) J c = false := by
  unfold maskedFail
  rw [mGamma_need_iff]
  simp [lbfgsMaskedNeedGamma]

/-- The scaling: an external `γ ≥ 0` (policy `BasedOnExternalStepSize`) is used as is. -/
theorem maskedGamma_external (p : Params α) (st : State α) (q : Vec α) (γ : α) (J : List Nat)
    (hc : p.curvature = false) (hγ : ¬ γ < 0) : maskedGamma p st q γ J = γ := by
  simp only [maskedGamma, maskedGamma0, hc, Bool.false_eq_true, if_false, lbfgsMaskedNeedGamma, hγ,
    decide_false]
  rw [mGamma_of_not_need]

/-- No pair valid on `J`: the scaling stays what was passed in (and the call fails if that is
    negative, `maskedFail_iff`). -/
theorem maskedGamma_none_valid (p : Params α) (st : State α) (q : Vec α) (γ : α) (J : List Nat)
    (h : ∀ c ∈ st.pairs, validJ p (q.length == J.length) J c = false) :
    maskedGamma p st q γ J = maskedGamma0 p γ := by
  unfold maskedGamma
  rw [mGamma_no_valid _ _ _ _ _ _ fun c hc => h c (List.mem_reverse.mp hc)]

/-- **The documented initial scaling on the subset, no side hypothesis** (repaired code): with the
    curvature policy or `γ < 0`, the scaling is `⟨s,y⟩_J/⟨y,y⟩_J` of the newest pair valid on `J` —
    whatever its sign, with or without `force_pos_def` — exactly what `apply` uses on the full
    index set. -/
theorem maskedGamma_newest_valid (p : Params α) (st : State α) (q : Vec α) (γ : α) (J : List Nat)
    (older newer : List (Slot α)) (c : Slot α) (hsplit : st.pairs = older ++ c :: newer)
    (hγ : maskedGamma0 p γ < 0)
    (hnewer : ∀ c' ∈ newer, validJ p (q.length == J.length) J c' = false)
    (hc : validJ p (q.length == J.length) J c = true) :
    maskedGamma p st q γ J = ratioJ (q.length == J.length) J c ∧ maskedFail p st q γ J = false := by
  have hn : lbfgsMaskedNeedGamma (maskedGamma0 p γ) = true := by simp [lbfgsMaskedNeedGamma, hγ]
  simp only [maskedGamma, maskedFail, hn, hsplit, List.reverse_append, List.reverse_cons,
    List.append_assoc, List.singleton_append]
  rw [mGamma_newest_valid _ _ _ _ _ _ _ (fun c' h => hnewer c' (List.mem_reverse.mp h)) hc]
  exact ⟨rfl, rfl⟩

/-- With `force_pos_def` (and `min_div_fac ≥ 0`) a pair valid on `J` has a non-negative ratio, so
    the scaling of the masked variant is then non-negative. -/
theorem ratioJ_nonneg_of_valid (p : Params α) (hfp : p.forcePosDef = true) (hmd : 0 ≤ p.minDivFac)
    (fJ : Bool) (J : List Nat) (c : Slot α) (hc : validJ p fJ J c = true) : 0 ≤ ratioJ fJ J c := by
  have hs : 0 ≤ dotJ fJ J c.s c.s := by rw [dotJ_eq]; exact dot_self_nonneg _
  have := updateValid_pos p _ _ _ hc hfp hmd hs
  rw [dotJ_eq] at this
  exact div_nonneg this.le (dot_self_nonneg _)

/-- A history all of whose pairs are valid on the full index set restricts to itself. -/
theorem restrictHist_full (p : Params α) (J : List Nat) (st : State α)
    (hv : ∀ c ∈ st.pairs, validJ p true J c = true) : restrictHist p true J st.abs = st.abs := by
  have hf : st.abs.filter (validJh p true J) = st.abs := by
    rw [List.filter_eq_self]
    intro sy hsy
    simp only [State.abs, List.mem_map] at hsy
    obtain ⟨c, hc, rfl⟩ := hsy
    exact hv c hc
  simp only [restrictHist, hf, G, if_true]
  simp

/-- **`apply_masked` on the full index set agrees with `apply`** (repaired code): CBFGS off, a
    carrier without NaN, stored `ρ` consistent, every stored pair passes the acceptance test on the
    full vectors (true for un-forced, un-rescaled pairs: they were accepted with the same test).
    Same result vector, both succeed — for every parameter set, in particular without
    `force_pos_def` and with a negative curvature in the newest pair. -/
theorem applyMasked_full_eq_apply (p : Params α) (st : State α) (hI : Inv st) (hρ : RhoOK st)
    (q : Vec α) (γ : α) (J : List Nat) (hne : st.isEmpty = false)
    (hcb : cbfgsEnabled p.cbfgsAlpha p.cbfgsEps = false)
    (hnn : ∀ x : α, RealLike.isNaN x = false) (hfull : J.length = q.length)
    (hv : ∀ c ∈ st.pairs, validJ p true J c = true) :
    maskedOut (applyMasked p st q γ J) = some ((apply p st q γ).2.1, true) ∧
    (apply p st q γ).2.2 = true := by
  have hfJ : (q.length == J.length) = true := by simp [hfull]
  have hJOK : JOK (q.length == J.length) J q.length := by rw [hfJ]; intro h; exact absurd h (by simp)
  obtain ⟨q', hout, hfail, hok⟩ := applyMasked_eq_restricted p st hI q γ J hne hcb hnn hJOK
  obtain ⟨hd, hd2⟩ := apply_eq_dense p st hI hρ q γ hne
  -- the newest pair
  have hn := newest_slot st hI hne
  obtain ⟨older, hsplit⟩ : ∃ older, st.pairs = older ++ [st.slot (lbfgsPred st.history st.idx)] := by
    have hne' : st.pairs ≠ [] := by
      intro h0; rw [h0] at hn; simp at hn
    refine ⟨st.pairs.dropLast, ?_⟩
    have := List.dropLast_append_getLast hne'
    rw [List.getLast?_eq_some_getLast hne'] at hn
    rw [← Option.some.inj hn]; exact this.symm
  set c := st.slot (lbfgsPred st.history st.idx) with hc
  have hcv : validJ p (q.length == J.length) J c = true := by
    rw [hfJ]; exact hv c (by rw [hsplit]; simp)
  have hnofail : maskedFail p st q γ J = false := by
    by_contra hf
    have hf' : maskedFail p st q γ J = true := by simpa using hf
    have := ((maskedFail_iff p st q γ J).mp hf').2 c (by rw [hsplit]; simp)
    rw [this] at hcv; exact absurd hcv (by simp)
  obtain ⟨hG, _⟩ := hok hnofail
  rw [hnofail] at hout
  rw [hfJ] at hG
  simp only [G, if_true] at hG
  rw [restrictHist_full p J st hv] at hG
  -- the scalings agree
  have hγeq : maskedGamma p st q γ J = applyGamma p st γ := by
    by_cases hneg : maskedGamma0 p γ < 0
    · have h1 := (maskedGamma_newest_valid p st q γ J older [] c hsplit hneg (by simp) hcv).1
      rw [h1, hfJ]
      have hcond : (p.curvature || decide (γ < 0)) = true := by
        unfold maskedGamma0 at hneg
        cases hcu : p.curvature
        · simp [hcu] at hneg; simp [hneg]
        · simp
      unfold applyGamma
      rw [if_pos hcond]
      have hmem : c ∈ st.pairs := by rw [hsplit]; simp
      simp only [ratioJ, G, if_true, ← hc, hρ c hmem, sqNorm_eq_dot]
      simp [one_div, mul_inv, div_eq_mul_inv, mul_comm, dot_comm c.s c.y]
    · have hcu : p.curvature = false := by
        unfold maskedGamma0 at hneg
        cases hcu : p.curvature
        · rfl
        · simp [hcu] at hneg
      have hγ : ¬ γ < 0 := by simpa [maskedGamma0, hcu] using hneg
      rw [maskedGamma_external p st q γ J hcu hγ]
      unfold applyGamma
      simp [hcu, hγ]
  rw [hγeq] at hG
  refine ⟨?_, hd2⟩
  rw [hout, hd, ← hG]
  rfl

/-! ## all interleavings: the operation sequence refines the history-level specification -/

inductive Op (α : Type) where
  | updateSy (s y : Vec α) (pTp : α) (forced : Bool)
  | update (xk xn pk pn : Vec α) (positive forced : Bool)
  | apply (q : Vec α) (γ : α)
  | applyMasked (q : Vec α) (γ : α) (J : List Nat)
  | reset
  | resize (n : Nat)
  | scaleY (f : α)

/-- One operation on the ring model. -/
def step (p : Params α) (st : State α) : Op α → State α
  | .updateSy s y pTp forced => (updateSy p st s y pTp forced).1
  | .update xk xn pk pn pos forced => (update p st xk xn pk pn pos forced).1
  | .apply q γ => (C09.apply p st q γ).1
  | .applyMasked q γ J => maskedState st (applyMasked p st q γ J)
  | .reset => reset st
  | .resize n => (resize p n).getD st
  | .scaleY f => scaleY st f

/-- The same operation on the dense model's history. -/
def specStep (p : Params α) (h : List (Vec α × Vec α)) : Op α → List (Vec α × Vec α)
  | .updateSy s y pTp forced =>
      if forced || updateValid p (dot y s) (sqNorm s) pTp then lastN p.memory (h ++ [(s, y)]) else h
  | .update xk xn pk pn pos forced =>
      let s := vsub xn xk
      let y := if pos then vsub pn pk else vsub pk pn
      let pTp := if cbfgsEnabled p.cbfgsAlpha p.cbfgsEps then sqNorm pn else 0
      if forced || updateValid p (dot y s) (sqNorm s) pTp then lastN p.memory (h ++ [(s, y)]) else h
  | .apply _ _ => h
  | .applyMasked _ _ _ => h
  | .reset => []
  | .resize _ => []
  | .scaleY f => h.map fun sy => (sy.1, smul f sy.2)

/-- Invariant carried along a run: ring invariant, `memory` slots, consistent `ρ`. -/
def Good (p : Params α) (st : State α) : Prop :=
  Inv st ∧ st.slots.length = p.memory ∧ RhoOK st

theorem updateSy_step (p : Params α) (st : State α) (hG : Good p st) (s y : Vec α) (pTp : α)
    (forced : Bool) :
    Good p (updateSy p st s y pTp forced).1 ∧
    (updateSy p st s y pTp forced).1.abs =
      if forced || updateValid p (dot y s) (sqNorm s) pTp then lastN p.memory (st.abs ++ [(s, y)])
      else st.abs := by
  obtain ⟨hI, hm, hρ⟩ := hG
  refine ⟨⟨updateSy_inv p st hI s y pTp forced, by rw [updateSy_slots_length, hm],
    updateSy_rhoOK p st hI s y pTp forced hρ⟩, ?_⟩
  rw [updateSy_abs p st hI, hm]
  have := stored_iff p st s y pTp forced
  by_cases h : (updateSy p st s y pTp forced).2 = true
  · rw [if_pos h, if_pos (by simpa using this.mp h)]
  · rw [if_neg h, if_neg (by simpa using fun h' => h (this.mpr h'))]

/-- Every operation commutes with `abs` and keeps the invariant (for `memory ≥ 1`). -/
theorem step_refines (p : Params α) (hm : 1 ≤ p.memory) (st : State α) (hG : Good p st)
    (op : Op α) : Good p (step p st op) ∧ (step p st op).abs = specStep p st.abs op := by
  cases op with
  | updateSy s y pTp forced => exact updateSy_step p st hG s y pTp forced
  | update xk xn pk pn pos forced =>
    simp only [step, specStep, update_eq_updateSy]
    exact updateSy_step p st hG _ _ _ forced
  | apply q γ =>
    obtain ⟨hI, hmm, hρ⟩ := hG
    refine ⟨⟨apply_inv p st hI q γ, ?_, apply_rhoOK p st q γ hρ⟩, apply_abs p st q γ⟩
    simp only [step]; unfold C09.apply; split_ifs <;> exact hmm
  | applyMasked q γ J =>
    obtain ⟨hI, hmm, hρ⟩ := hG
    refine ⟨⟨applyMasked_inv p st hI q γ J, ?_, applyMasked_rhoOK p st q γ J hρ⟩,
      applyMasked_abs p st q γ J⟩
    obtain ⟨al, h, _⟩ := applyMasked_state p st q γ J
    simp only [step, h]; exact hmm
  | reset =>
    obtain ⟨hI, hmm, hρ⟩ := hG
    exact ⟨⟨reset_inv st hI, hmm, reset_rhoOK st⟩, reset_abs st⟩
  | resize n =>
    obtain ⟨st', h1, h2, h3, h4, _⟩ := (resize_spec p n).2 hm
    simp only [step, specStep, h1, Option.getD_some]
    refine ⟨⟨h2, h4, ?_⟩, h3⟩
    intro c hc
    have : st'.pairs = [] := by simpa [State.abs] using h3
    simp [this] at hc
  | scaleY f =>
    obtain ⟨hI, hmm, hρ⟩ := hG
    refine ⟨⟨scaleY_inv st hI f, ?_, scaleY_rhoOK st hI f hρ⟩, scaleY_abs st hI f⟩
    simp only [step, scaleY, List.length_append, List.length_map, List.length_take,
      List.length_drop]
    omega

/-- **Refinement for all interleavings** of update / forced update / apply / apply_masked / reset /
    resize / scale_y, of any length, for any `memory ≥ 1`: the ring state always abstracts to the history
    the dense model has, and stays `Good` (so `apply_eq_dense` applies at every point).  This part
    needs no side condition (ring bookkeeping only); that the history's dense BFGS matrix *exists*
    is `run_goodC` (under `RunOK`). -/
theorem run_refines (p : Params α) (hm : 1 ≤ p.memory) (ops : List (Op α)) (st : State α)
    (hG : Good p st) :
    Good p (ops.foldl (step p) st) ∧
    (ops.foldl (step p) st).abs = ops.foldl (specStep p) st.abs := by
  induction ops generalizing st with
  | nil => exact ⟨hG, rfl⟩
  | cons op ops ih =>
    obtain ⟨h1, h2⟩ := step_refines p hm st hG op
    simp only [List.foldl_cons]
    rw [← h2]
    exact ih _ h1

theorem lastN_lastN_snoc {β : Type} (m : Nat) (l : List β) (x : β) :
    lastN m (lastN m l ++ [x]) = lastN m (l ++ [x]) := by
  unfold lastN
  rw [← List.drop_append_of_le_length (by omega), List.drop_drop]
  congr 1
  simp only [List.length_append, List.length_drop, List.length_cons, List.length_nil]
  omega

/-- **Wrap-around**: after offering any sequence of pairs that are all stored (here: forced), the
    buffer holds exactly the most recent `memory` of them, in order. -/
theorem wraparound_keeps_most_recent (p : Params α) (hm : 1 ≤ p.memory)
    (ps : List (Vec α × Vec α)) (st : State α) (hG : Good p st) (h0 : st.abs = []) :
    (ps.foldl (fun st sy => (updateSy p st sy.1 sy.2 0 true).1) st).abs = lastN p.memory ps := by
  suffices h : ∀ (ps : List (Vec α × Vec α)) (st : State α) (pre : List (Vec α × Vec α)),
      Good p st → st.abs = lastN p.memory pre →
      (ps.foldl (fun st sy => (updateSy p st sy.1 sy.2 0 true).1) st).abs
        = lastN p.memory (pre ++ ps) by
    have := h ps st [] hG (by simp [h0, lastN])
    simpa using this
  intro ps
  induction ps with
  | nil => intro st pre _ h; simpa using h
  | cons sy ps ih =>
    intro st pre hG h
    obtain ⟨g1, g2⟩ := updateSy_step p st hG sy.1 sy.2 0 true
    simp only [List.foldl_cons]
    have := ih _ (pre ++ [sy]) g1 (by
      rw [g2]; simp only [Bool.true_or, if_true]; rw [h, lastN_lastN_snoc])
    simpa using this

/-! ## non-vacuity: concrete instances over ℚ -/

section examples

/-- A concrete 2-dimensional history with positive curvature. -/
example : WF 2 [(([1, 1] : Vec ℚ), ([1, 2] : Vec ℚ)), ([1, 0], [2, -1])] := by
  simp [WF]

example : ∀ sy ∈ [(([1, 1] : Vec ℚ), ([1, 2] : Vec ℚ)), ([1, 0], [2, -1])], 0 < dot sy.2 sy.1 := by
  simp [dot_cons]; norm_num

/-- The dense operator of the one-pair history `s = (1,1), y = (1,2)` with the curvature scaling
    `γ₀ = sᵀy/yᵀy = 3/5`, applied to `(1,0)` — the value the real code returns before the masked
    call of the §7-I scenario and fails to return after it. -/
example : H (3 / 5 : ℚ) [([1, 1], [1, 2])] [1, 0] = [13 / 15, 1 / 15] := by
  simp [H, Hrev, dot_cons]; norm_num

/-- Secant equation on that instance. -/
example : H (3 / 5 : ℚ) [([1, 1], [1, 2])] [1, 2] = [1, 1] := by
  simp [H, Hrev, dot_cons]; norm_num

/-- The acceptance test over ℚ (with any `isFinite ≡ true`, any `pow`) accepts `⟨y,s⟩ = 3, ⟨s,s⟩ = 2`
    and rejects the tie `⟨y,s⟩ = 0`. -/
local instance instRealLikeRat : RealLike ℚ := ⟨id, fun _ => false, fun _ => true⟩
local instance instPowLikeRat : PowLike ℚ := ⟨fun x _ => x⟩

example : lbfgsUpdateValid (0 : ℚ) 0 true 1 0 3 2 0 = true := by
  simp [lbfgsUpdateValid, cbfgsEnabled]

example : lbfgsUpdateValid (0 : ℚ) 0 true 1 0 0 2 0 = false := by
  simp [lbfgsUpdateValid, cbfgsEnabled]

/-- Hypotheses of `applyMasked_eq_restricted` are satisfiable: a carrier without NaN, a proper
    subset `J = {0}` of a 2-vector, and the restriction it induces. -/
example : ∀ x : ℚ, RealLike.isNaN x = false := fun _ => rfl

example : JOK false [0] 2 := fun _ => ⟨by simp, by simp⟩

example : G false [0] ([1, 2] : Vec ℚ) = [1] := by simp [G, vget]

/-- The §7-I scenario restricted to `J = {0}`: the pair `s = (1,1), y = (1,2)` becomes `([1],[1])`,
    whose dense operator (scaling `sᵀy/yᵀy = 1`) maps `(1)` to `(1)`. -/
example : H (1 : ℚ) [([1], [1])] [1] = [1] := by
  simp [H, Hrev, dot_cons]

/-- Ring index functions at memory 3: successor wraps, predecessor wraps, the traversal orders. -/
example : lbfgsSucc 3 2 = 0 ∧ lbfgsPred 3 0 = 2 ∧ lbfgsForeachFwd 3 1 true = [1, 2, 0] ∧
    lbfgsForeachRev 3 1 true = [0, 2, 1] ∧ lbfgsForeachFwd 3 2 false = [0, 1] := by decide

/-- `lastN` on a wrap-around. -/
example : lastN 2 [1, 2, 3, 4] = [3, 4] := by decide

end examples


/-! ## the non-zero-curvature invariant; dense-matrix properties of every reachable state (audit F7) -/

/-- A property of every stored slot. -/
def AllPairs (P : Slot α → Prop) (st : State α) : Prop := ∀ c ∈ st.pairs, P c

theorem mem_pairs_updateSy (p : Params α) (st : State α) (hI : Inv st) (s y : Vec α) (pTp : α)
    (forced : Bool) (c : Slot α) (hc : c ∈ (updateSy p st s y pTp forced).1.pairs) :
    c ∈ st.pairs ∨ ((updateSy p st s y pTp forced).2 = true ∧ c = ⟨s, y, 1 / dot y s⟩) := by
  simp only [updateSy] at hc ⊢
  split_ifs at hc ⊢ with h
  · exact Or.inl hc
  · have hp := pairs_push st hI ⟨s, y, 1 / dot y s⟩
    simp only at hp
    rw [hp] at hc
    rcases List.mem_append.mp (List.mem_of_mem_drop hc) with h1 | h1
    · exact Or.inl h1
    · exact Or.inr ⟨rfl, by simpa using h1⟩

theorem scaleY_pairs (st : State α) (hI : Inv st) (f : α) :
    (scaleY st f).pairs = st.pairs.map fun c => ⟨c.s, smul f c.y, c.rho * (1 / f)⟩ := by
  have hi := hI.idx_lt
  simp only [scaleY, State.pairs, State.history]
  rcases Bool.eq_false_or_eq_true st.full with hf | hf
  · simp only [hf, if_true, List.take_length, List.drop_length, List.append_nil]
    simp [List.map_drop, List.map_take]
  · simp only [hf, Bool.false_eq_true, if_false]
    rw [List.take_append_of_le_length (by simp; omega), List.take_of_length_le (by simp)]

theorem allPairs_updateSy (P : Slot α → Prop) (p : Params α) (st : State α) (hI : Inv st)
    (s y : Vec α) (pTp : α) (forced : Bool) (h : AllPairs P st)
    (hnew : (updateSy p st s y pTp forced).2 = true → P ⟨s, y, 1 / dot y s⟩) :
    AllPairs P (updateSy p st s y pTp forced).1 := by
  intro c hc
  rcases mem_pairs_updateSy p st hI s y pTp forced c hc with h1 | ⟨h1, rfl⟩
  · exact h c h1
  · exact hnew h1

theorem allPairs_apply (P : Slot α → Prop) (p : Params α) (st : State α) (q : Vec α) (γ : α)
    (h : AllPairs P st) : AllPairs P (apply p st q γ).1 := by
  unfold C09.apply; split_ifs <;> exact h

theorem allPairs_applyMasked (P : Slot α → Prop) (p : Params α) (st : State α) (q : Vec α) (γ : α)
    (J : List Nat) (h : AllPairs P st) : AllPairs P (maskedState st (applyMasked p st q γ J)) := by
  obtain ⟨al, h', _⟩ := applyMasked_state p st q γ J
  rw [h']; exact h

theorem allPairs_reset (P : Slot α → Prop) (st : State α) : AllPairs P (reset st) := by
  intro c hc; simp [reset, State.pairs] at hc

theorem allPairs_scaleY (P : Slot α → Prop) (st : State α) (hI : Inv st) (f : α) (h : AllPairs P st)
    (hsc : ∀ c, P c → P ⟨c.s, smul f c.y, c.rho * (1 / f)⟩) : AllPairs P (scaleY st f) := by
  intro c hc
  rw [scaleY_pairs st hI, List.mem_map] at hc
  obtain ⟨c0, hc0, rfl⟩ := hc
  exact hsc c0 (h c0 hc0)

/-- Every stored pair has non-zero curvature `⟨y,s⟩`: the condition under which the dense BFGS
    inverse Hessian of the history exists. -/
def CurvOK (st : State α) : Prop := AllPairs (fun c => dot c.y c.s ≠ 0) st
/-- Every stored pair has positive curvature. -/
def PosOK (st : State α) : Prop := AllPairs (fun c => 0 < dot c.y c.s) st
/-- Every stored vector has the dimension the object was resized to. -/
def DimOK (st : State α) : Prop := AllPairs (fun c => c.s.length = st.n ∧ c.y.length = st.n) st

def HistCurvOK (h : List (Vec α × Vec α)) : Prop := ∀ sy ∈ h, dot sy.2 sy.1 ≠ 0

theorem curvOK_abs (st : State α) : CurvOK st ↔ HistCurvOK st.abs := by
  simp only [CurvOK, AllPairs, HistCurvOK, State.abs, List.mem_map]
  constructor
  · rintro h sy ⟨c, hc, rfl⟩; exact h c hc
  · intro h c hc; exact h (c.s, c.y) ⟨c, hc, rfl⟩

theorem posOK_abs (st : State α) : PosOK st ↔ ∀ sy ∈ st.abs, 0 < dot sy.2 sy.1 := by
  simp only [PosOK, AllPairs, State.abs, List.mem_map]
  constructor
  · rintro h sy ⟨c, hc, rfl⟩; exact h c hc
  · intro h c hc; exact h (c.s, c.y) ⟨c, hc, rfl⟩

theorem dimOK_abs (st : State α) : DimOK st ↔ WF st.n st.abs := by
  simp only [DimOK, AllPairs, WF, State.abs, List.mem_map]
  constructor
  · rintro h sy ⟨c, hc, rfl⟩; exact h c hc
  · intro h c hc; exact h (c.s, c.y) ⟨c, hc, rfl⟩

theorem PosOK.curvOK {st : State α} (h : PosOK st) : CurvOK st := fun c hc => (h c hc).ne'


/-! ### side conditions of an operation; legal runs -/

/-- The `s`, `y`, `pᵀp` that `update(xₖ, xₙₑₓₜ, pₖ, pₙₑₓₜ, sign, ·)` hands to `update_sy_impl`. -/
def updS (xk xn : Vec α) : Vec α := vsub xn xk
def updY (pk pn : Vec α) (positive : Bool) : Vec α := if positive then vsub pn pk else vsub pk pn

/-- Side conditions of one operation in state `st` (the caller's obligations):
    vectors have the dimension the object was resized to; a **forced** update — which bypasses the
    acceptance test — must not have zero curvature; `scale_y` is not called with factor 0.
    (At the excluded points the C++ stores `ρ = 1/0 = ±inf` and every later `apply` returns NaN;
    the dense BFGS matrix of such a history does not exist.  `checks/c09.py` runs these points on
    the real code on every run.) -/
def OpOK (st : State α) : Op α → Prop
  | .updateSy s y _ forced => s.length = st.n ∧ y.length = st.n ∧ (forced = true → dot y s ≠ 0)
  | .update xk xn pk pn pos forced =>
      xk.length = st.n ∧ xn.length = st.n ∧ pk.length = st.n ∧ pn.length = st.n ∧
      (forced = true → dot (updY pk pn pos) (updS xk xn) ≠ 0)
  | .scaleY f => f ≠ 0
  | _ => True

/-- The same with "positive" in place of "non-zero" (for positive definiteness). -/
def OpPos (st : State α) : Op α → Prop
  | .updateSy s y _ forced => s.length = st.n ∧ y.length = st.n ∧ (forced = true → 0 < dot y s)
  | .update xk xn pk pn pos forced =>
      xk.length = st.n ∧ xn.length = st.n ∧ pk.length = st.n ∧ pn.length = st.n ∧
      (forced = true → 0 < dot (updY pk pn pos) (updS xk xn))
  | .scaleY f => 0 < f
  | _ => True

theorem OpPos.opOK {st : State α} {op : Op α} (h : OpPos st op) : OpOK st op := by
  cases op <;> simp only [OpPos, OpOK] at h ⊢
  · exact ⟨h.1, h.2.1, fun hf => (h.2.2 hf).ne'⟩
  · exact ⟨h.1, h.2.1, h.2.2.1, h.2.2.2.1, fun hf => (h.2.2.2.2 hf).ne'⟩
  · exact h.ne'

/-- A run all of whose operations satisfy their side condition in the state they are applied to. -/
def RunOK (p : Params α) : State α → List (Op α) → Prop
  | _, [] => True
  | st, op :: ops => OpOK st op ∧ RunOK p (step p st op) ops

def RunPos (p : Params α) : State α → List (Op α) → Prop
  | _, [] => True
  | st, op :: ops => OpPos st op ∧ RunPos p (step p st op) ops

theorem RunPos.runOK {p : Params α} {st : State α} {ops : List (Op α)} (h : RunPos p st ops) :
    RunOK p st ops := by
  induction ops generalizing st with
  | nil => trivial
  | cons op ops ih => exact ⟨h.1.opOK, ih h.2⟩

/-- `Good` plus: every stored curvature is non-zero, every stored vector has dimension `st.n`. -/
def GoodC (p : Params α) (st : State α) : Prop := Good p st ∧ CurvOK st ∧ DimOK st

theorem length_vsub_eq (a b : Vec α) (n : Nat) (ha : a.length = n) (hb : b.length = n) :
    (vsub a b).length = n := by rw [length_vsub a b (by rw [ha, hb]), ha]

theorem updateSy_n (p : Params α) (st : State α) (s y : Vec α) (pTp : α) (forced : Bool) :
    (updateSy p st s y pTp forced).1.n = st.n := by
  simp only [updateSy]; split_ifs <;> rfl

theorem scaleY_n (st : State α) (f : α) : (scaleY st f).n = st.n := rfl
theorem reset_n (st : State α) : (reset st).n = st.n := rfl
theorem apply_n (p : Params α) (st : State α) (q : Vec α) (γ : α) : (apply p st q γ).1.n = st.n := by
  unfold C09.apply; split_ifs <;> rfl
theorem applyMasked_n (p : Params α) (st : State α) (q : Vec α) (γ : α) (J : List Nat) :
    (maskedState st (applyMasked p st q γ J)).n = st.n := by
  obtain ⟨al, h', _⟩ := applyMasked_state p st q γ J
  rw [h']

/-- An un-forced stored pair has non-zero curvature when `min_div_fac ≥ 0`
    (`update_valid` rejects `|⟨y,s⟩| ≤ min_div_fac·‖s‖²`, in particular `⟨y,s⟩ = 0`). -/
theorem stored_curv_ne_zero (p : Params α) (hmd : 0 ≤ p.minDivFac) (st : State α) (s y : Vec α)
    (pTp : α) (forced : Bool) (hst : (updateSy p st s y pTp forced).2 = true)
    (hf : forced = true → dot y s ≠ 0) : dot y s ≠ 0 := by
  rcases (stored_iff p st s y pTp forced).mp hst with h | h
  · exact hf h
  · exact updateValid_ne_zero p _ _ _ h hmd (by rw [sqNorm_eq_dot]; exact dot_self_nonneg s)

/-- … and positive curvature when additionally `force_pos_def` is set. -/
theorem stored_curv_pos (p : Params α) (hfp : p.forcePosDef = true) (hmd : 0 ≤ p.minDivFac)
    (st : State α) (s y : Vec α) (pTp : α) (forced : Bool)
    (hst : (updateSy p st s y pTp forced).2 = true) (hf : forced = true → 0 < dot y s) :
    0 < dot y s := by
  rcases (stored_iff p st s y pTp forced).mp hst with h | h
  · exact hf h
  · exact updateValid_pos p _ _ _ h hfp hmd (by rw [sqNorm_eq_dot]; exact dot_self_nonneg s)

theorem updateSy_goodC (p : Params α) (hmd : 0 ≤ p.minDivFac) (st : State α) (hG : GoodC p st)
    (s y : Vec α) (pTp : α) (forced : Bool)
    (hop : s.length = st.n ∧ y.length = st.n ∧ (forced = true → dot y s ≠ 0)) :
    GoodC p (updateSy p st s y pTp forced).1 := by
  obtain ⟨hg, hc, hd⟩ := hG
  refine ⟨(updateSy_step p st hg s y pTp forced).1, ?_, ?_⟩
  · exact allPairs_updateSy _ p st hg.1 s y pTp forced hc
      (fun hst => stored_curv_ne_zero p hmd st s y pTp forced hst hop.2.2)
  · unfold DimOK; rw [updateSy_n]
    exact allPairs_updateSy _ p st hg.1 s y pTp forced hd (fun _ => ⟨hop.1, hop.2.1⟩)

/-- Every operation whose side condition holds keeps `GoodC` (for `memory ≥ 1`, `min_div_fac ≥ 0`). -/
theorem step_goodC (p : Params α) (hm : 1 ≤ p.memory) (hmd : 0 ≤ p.minDivFac) (st : State α)
    (hG : GoodC p st) (op : Op α) (hop : OpOK st op) : GoodC p (step p st op) := by
  have hgood := (step_refines p hm st hG.1 op).1
  obtain ⟨hg, hc, hd⟩ := hG
  cases op with
  | updateSy s y pTp forced => exact updateSy_goodC p hmd st ⟨hg, hc, hd⟩ s y pTp forced hop
  | update xk xn pk pn pos forced =>
    simp only [step, update_eq_updateSy]
    obtain ⟨h1, h2, h3, h4, h5⟩ := hop
    refine updateSy_goodC p hmd st ⟨hg, hc, hd⟩ _ _ _ forced ⟨length_vsub_eq _ _ _ h2 h1, ?_, h5⟩
    split_ifs
    · exact length_vsub_eq _ _ _ h4 h3
    · exact length_vsub_eq _ _ _ h3 h4
  | apply q γ =>
    refine ⟨hgood, allPairs_apply _ p st q γ hc, ?_⟩
    unfold DimOK; simp only [step]; rw [apply_n]; exact allPairs_apply _ p st q γ hd
  | applyMasked q γ J =>
    refine ⟨hgood, allPairs_applyMasked _ p st q γ J hc, ?_⟩
    unfold DimOK; simp only [step]; rw [applyMasked_n]; exact allPairs_applyMasked _ p st q γ J hd
  | reset => exact ⟨hgood, allPairs_reset _ st, allPairs_reset _ st⟩
  | resize n =>
    refine ⟨hgood, ?_, ?_⟩ <;>
    · obtain ⟨st', h1, h2, h3, h4, _⟩ := (resize_spec p n).2 hm
      simp only [step, h1, Option.getD_some]
      have : st'.pairs = [] := by simpa [State.abs] using h3
      intro c hc; simp [this] at hc
  | scaleY f =>
    have hf : f ≠ 0 := hop
    refine ⟨hgood, allPairs_scaleY _ st hg.1 f hc ?_, ?_⟩
    · intro c hc0
      show dot (smul f c.y) c.s ≠ 0
      rw [dot_smul_left]; exact mul_ne_zero hf hc0
    · unfold DimOK; simp only [step, scaleY_n]
      exact allPairs_scaleY _ st hg.1 f hd (fun c hc0 => ⟨hc0.1, by simpa using hc0.2⟩)

/-- **The non-zero-curvature invariant holds along every legal run** (any interleaving, any length,
    any `memory ≥ 1`), together with the refinement of `run_refines`. -/
theorem run_goodC (p : Params α) (hm : 1 ≤ p.memory) (hmd : 0 ≤ p.minDivFac) (ops : List (Op α))
    (st : State α) (hG : GoodC p st) (hrun : RunOK p st ops) :
    GoodC p (ops.foldl (step p) st) ∧
    (ops.foldl (step p) st).abs = ops.foldl (specStep p) st.abs := by
  refine ⟨?_, (run_refines p hm ops st hG.1).2⟩
  induction ops generalizing st with
  | nil => exact hG
  | cons op ops ih => exact ih _ (step_goodC p hm hmd st hG op hrun.1) hrun.2

/-- The freshly constructed / resized object satisfies `GoodC`. -/
theorem resize_goodC (p : Params α) (n : Nat) (st : State α) (h : resize p n = some st) :
    GoodC p st ∧ st.abs = [] ∧ st.n = n := by
  have hm : 1 ≤ p.memory := by
    by_contra hlt
    have := (resize_spec p n).1 (by omega)
    rw [this] at h; exact absurd h (by simp)
  obtain ⟨st', h1, h2, h3, h4, h5⟩ := (resize_spec p n).2 hm
  rw [h] at h1; cases h1
  have hp : st.pairs = [] := by simpa [State.abs] using h3
  refine ⟨⟨⟨h2, h4, ?_⟩, ?_, ?_⟩, h3, h5⟩ <;> (intro c hc; simp [hp] at hc)

/-! ### the dense operator of a reachable state: it exists, and is symmetric / secant / positive definite -/

theorem abs_snoc_of_nonempty (st : State α) (hI : Inv st) (hne : st.isEmpty = false) :
    ∃ older s y, st.abs = older ++ [(s, y)] := by
  have h : st.abs ≠ [] := by
    intro h0
    have := (isEmpty_iff st hI).mpr h0
    rw [hne] at this; exact absurd this (by simp)
  refine ⟨st.abs.dropLast, (st.abs.getLast h).1, (st.abs.getLast h).2, ?_⟩
  exact (List.dropLast_append_getLast h).symm

/-- **`apply` = dense BFGS inverse Hessian, for a state satisfying the invariant** (audit F7: the
    guarded form of `apply_eq_dense`).  Under `GoodC` every stored curvature `⟨y,s⟩` is non-zero, so
    every `ρ = 1/⟨y,s⟩` in `H` is a genuine reciprocal (`ρ·⟨y,s⟩ = 1`) and `H γ₀ st.abs` *is* the
    BFGS matrix `(I−ρsyᵀ)H(I−ρysᵀ)+ρssᵀ` of the stored pairs — no use of the field convention
    `1/0 = 0`.  Moreover that matrix is symmetric and satisfies the secant equation for the newest
    stored pair.  `hq`: the vector has the dimension the object was resized to (the C++ would index
    out of bounds otherwise; the list model would silently truncate — audit-2 B7); the result then
    has that dimension too. -/
theorem apply_eq_dense_bfgs (p : Params α) (st : State α) (hG : GoodC p st) (q : Vec α) (γ : α)
    (hq : q.length = st.n) (hne : st.isEmpty = false) :
    (apply p st q γ).2.1 = H (applyGamma p st γ) st.abs q ∧ (apply p st q γ).2.2 = true ∧
    HistCurvOK st.abs ∧ WF st.n st.abs ∧
    (∀ c ∈ st.pairs, c.rho * dot c.y c.s = 1) ∧
    (∀ γ0 u v, u.length = st.n → v.length = st.n →
      dot u (H γ0 st.abs v) = dot (H γ0 st.abs u) v) ∧
    (∃ older s y, st.abs = older ++ [(s, y)] ∧ dot y s ≠ 0 ∧ ∀ γ0, H γ0 st.abs y = s) ∧
    (apply p st q γ).2.1.length = st.n := by
  obtain ⟨⟨hI, hm, hρ⟩, hc, hd⟩ := hG
  have hcA := (curvOK_abs st).mp hc
  have hdA := (dimOK_abs st).mp hd
  obtain ⟨h1, h2⟩ := apply_eq_dense p st hI hρ q γ hne
  refine ⟨h1, h2, hcA, hdA, ?_, ?_, ?_, by rw [h1]; exact H_length _ _ hdA q hq⟩
  · intro c hcm
    rw [hρ c hcm]; exact one_div_mul_cancel (hc c hcm)
  · intro γ0 u v hu hv; exact H_symm γ0 st.abs hdA u v hu hv
  · obtain ⟨older, s, y, he⟩ := abs_snoc_of_nonempty st hI hne
    have hys : dot y s ≠ 0 := hcA (s, y) (by rw [he]; simp)
    refine ⟨older, s, y, he, hys, fun γ0 => ?_⟩
    rw [he]; exact H_secant γ0 older s y (he ▸ hdA) hys

/-- `sᵀy/yᵀy > 0` for a pair of positive curvature. -/
theorem ratio_pos (s y : Vec α) (h : 0 < dot y s) : 0 < dot y s / dot y y := by
  apply div_pos h
  apply dot_self_pos
  intro hz
  rw [hz, dot_zeros_left] at h
  exact lt_irrefl _ h

/-- With positive stored curvatures the initial scaling `apply` uses is positive (curvature policy,
    a negative `γ`, or a positive external `γ`). -/
theorem applyGamma_pos (p : Params α) (st : State α) (hG : GoodC p st) (hP : PosOK st) (γ : α)
    (hne : st.isEmpty = false) (hγ : p.curvature = true ∨ γ ≠ 0) : 0 < applyGamma p st γ := by
  obtain ⟨sy, hl, he⟩ := applyGamma_curvature p st hG.1.1 hG.1.2.2 γ hne
  have hpos : 0 < dot sy.2 sy.1 := (posOK_abs st).mp hP sy (List.mem_of_getLast? hl)
  rw [he]
  split_ifs with hc
  · exact ratio_pos _ _ hpos
  · rcases hγ with h | h
    · exact absurd (Or.inl h) hc
    · rcases lt_or_gt_of_ne h with h' | h'
      · exact absurd (Or.inr h') hc
      · exact h'

/-- **Positive definite when positive curvature is enforced**: in a state all of whose stored
    pairs have positive curvature, `⟨q, apply(q)⟩ > 0` for every `q ≠ 0`. -/
theorem apply_posdef (p : Params α) (st : State α) (hG : GoodC p st) (hP : PosOK st) (q : Vec α)
    (γ : α) (hne : st.isEmpty = false) (hγ : p.curvature = true ∨ γ ≠ 0) (hq : q.length = st.n)
    (hq0 : q ≠ List.replicate st.n 0) : 0 < dot q (apply p st q γ).2.1 := by
  rw [(apply_eq_dense_bfgs p st hG q γ hq hne).1]
  exact H_posdef _ (applyGamma_pos p st hG hP γ hne hγ) st.abs ((dimOK_abs st).mp hG.2.2)
    ((posOK_abs st).mp hP) q hq hq0

theorem updateSy_posOK (p : Params α) (hfp : p.forcePosDef = true) (hmd : 0 ≤ p.minDivFac)
    (st : State α) (hI : Inv st) (hP : PosOK st) (s y : Vec α) (pTp : α) (forced : Bool)
    (hop : forced = true → 0 < dot y s) : PosOK (updateSy p st s y pTp forced).1 :=
  allPairs_updateSy _ p st hI s y pTp forced hP
    (fun hst => stored_curv_pos p hfp hmd st s y pTp forced hst hop)

/-- Every operation keeps "all stored curvatures positive" when `force_pos_def` is set
    (`min_div_fac ≥ 0`): the acceptance test enforces it for un-forced updates. -/
theorem step_posOK (p : Params α) (hfp : p.forcePosDef = true) (hm : 1 ≤ p.memory)
    (hmd : 0 ≤ p.minDivFac) (st : State α) (hI : Inv st) (hP : PosOK st) (op : Op α)
    (hop : OpPos st op) : PosOK (step p st op) := by
  cases op with
  | updateSy s y pTp forced => exact updateSy_posOK p hfp hmd st hI hP s y pTp forced hop.2.2
  | update xk xn pk pn pos forced =>
    simp only [step, update_eq_updateSy]
    exact updateSy_posOK p hfp hmd st hI hP _ _ _ forced hop.2.2.2.2
  | apply q γ => exact allPairs_apply _ p st q γ hP
  | applyMasked q γ J => exact allPairs_applyMasked _ p st q γ J hP
  | reset => exact allPairs_reset _ st
  | resize n =>
    obtain ⟨st', h1, h2, h3, h4, _⟩ := (resize_spec p n).2 hm
    simp only [step, h1, Option.getD_some]
    have : st'.pairs = [] := by simpa [State.abs] using h3
    intro c hc; simp [this] at hc
  | scaleY f =>
    have hf : 0 < f := hop
    refine allPairs_scaleY _ st hI f hP ?_
    intro c hc0
    show 0 < dot (smul f c.y) c.s
    rw [dot_smul_left]; exact mul_pos hf hc0

theorem run_posOK (p : Params α) (hfp : p.forcePosDef = true) (hm : 1 ≤ p.memory)
    (hmd : 0 ≤ p.minDivFac) (ops : List (Op α)) (st : State α) (hG : GoodC p st) (hP : PosOK st)
    (hrun : RunPos p st ops) : PosOK (ops.foldl (step p) st) := by
  induction ops generalizing st with
  | nil => exact hP
  | cons op ops ih =>
    exact ih _ (step_goodC p hm hmd st hG op hrun.1.opOK)
      (step_posOK p hfp hm hmd st hG.1.1 hP op hrun.1) hrun.2

/-- **For every op history** (any interleaving of update / forced update / apply / apply_masked /
    reset / resize / scale_y from a freshly constructed object, `memory ≥ 1`, `min_div_fac ≥ 0`, the
    side conditions `RunOK`): whenever the reached state is non-empty, `apply` multiplies by the dense
    BFGS inverse Hessian of the history the dense model has (`specStep`), all of whose curvatures
    are non-zero; that matrix is symmetric and maps the newest stored `y` to the newest stored `s`. -/
theorem reachable_apply_dense (p : Params α) (hmd : 0 ≤ p.minDivFac) (n : Nat) (st0 : State α)
    (h0 : resize p n = some st0) (ops : List (Op α)) (hrun : RunOK p st0 ops) (q : Vec α) (γ : α)
    (hq : q.length = (ops.foldl (step p) st0).n)
    (hne : (ops.foldl (step p) st0).isEmpty = false) :
    (ops.foldl (step p) st0).abs = ops.foldl (specStep p) [] ∧
    HistCurvOK (ops.foldl (specStep p) []) ∧
    (apply p (ops.foldl (step p) st0) q γ).2.1
      = H (applyGamma p (ops.foldl (step p) st0) γ) (ops.foldl (specStep p) []) q ∧
    (apply p (ops.foldl (step p) st0) q γ).2.2 = true ∧
    (∀ γ0 u v, u.length = (ops.foldl (step p) st0).n → v.length = (ops.foldl (step p) st0).n →
      dot u (H γ0 (ops.foldl (specStep p) []) v) = dot (H γ0 (ops.foldl (specStep p) []) u) v) ∧
    (∃ older s y, ops.foldl (specStep p) [] = older ++ [(s, y)] ∧ dot y s ≠ 0 ∧
      ∀ γ0, H γ0 (ops.foldl (specStep p) []) y = s) ∧
    (apply p (ops.foldl (step p) st0) q γ).2.1.length = (ops.foldl (step p) st0).n := by
  have hm : 1 ≤ p.memory := by
    by_contra hlt
    have := (resize_spec p n).1 (by omega)
    rw [this] at h0; exact absurd h0 (by simp)
  obtain ⟨hG0, ha0, _⟩ := resize_goodC p n st0 h0
  obtain ⟨hG, habs⟩ := run_goodC p hm hmd ops st0 hG0 hrun
  rw [ha0] at habs
  have := apply_eq_dense_bfgs p _ hG q γ hq hne
  rw [habs] at this
  exact ⟨habs, this.2.2.1, this.1, this.2.1, this.2.2.2.2.2.1, this.2.2.2.2.2.2.1, this.2.2.2.2.2.2.2⟩

/-- **… and it is positive definite when positive curvature is enforced** (`force_pos_def`; forced
    updates and `scale_y` factors positive, `RunPos`): `⟨q, apply(q)⟩ > 0` for every `q ≠ 0`. -/
theorem reachable_apply_posdef (p : Params α) (hfp : p.forcePosDef = true) (hmd : 0 ≤ p.minDivFac)
    (n : Nat) (st0 : State α) (h0 : resize p n = some st0) (ops : List (Op α))
    (hrun : RunPos p st0 ops) (q : Vec α) (γ : α)
    (hne : (ops.foldl (step p) st0).isEmpty = false) (hγ : p.curvature = true ∨ γ ≠ 0)
    (hq : q.length = (ops.foldl (step p) st0).n)
    (hq0 : q ≠ List.replicate (ops.foldl (step p) st0).n 0) :
    (∀ sy ∈ ops.foldl (specStep p) [], 0 < dot sy.2 sy.1) ∧
    0 < dot q (apply p (ops.foldl (step p) st0) q γ).2.1 := by
  have hm : 1 ≤ p.memory := by
    by_contra hlt
    have := (resize_spec p n).1 (by omega)
    rw [this] at h0; exact absurd h0 (by simp)
  obtain ⟨hG0, ha0, _⟩ := resize_goodC p n st0 h0
  have hP0 : PosOK st0 := by
    have hp : st0.pairs = [] := by simpa [State.abs] using ha0
    intro c hc; simp [hp] at hc
  obtain ⟨hG, habs⟩ := run_goodC p hm hmd ops st0 hG0 hrun.runOK
  have hP := run_posOK p hfp hm hmd ops st0 hG0 hP0 hrun
  rw [ha0] at habs
  refine ⟨?_, apply_posdef p _ hG hP q γ hne hγ hq hq0⟩
  rw [← habs]; exact (posOK_abs _).mp hP

/-! ### the excluded points (covered explicitly) -/

/-- A **forced** update with zero curvature is stored (that is what `forced` means) and breaks the
    invariant: afterwards the history contains a pair for which no BFGS matrix exists.  The C++
    stores `ρ = 1/0 = +inf` there and `apply` returns NaN until the pair is evicted or the object
    is reset (run on the real code by `checks/c09.py` on every run, and counted).
    THIS POINT IS REACHABLE IN-TREE (audit-2 #3): `StructuredLBFGSDirection::update` always passes
    `forced = true` (structured-lbfgs.hpp), and its all-indices-free branch calls the unmasked
    `lbfgs.apply` (structured-lbfgs.tpp); with `y = 0` or `s = 0` (e.g. a linear `ψ`, or a step that
    did not move) the direction is NaN — PANOC / ZeroFPR then discard it (`q.allFinite()` test) and
    reset the provider.  The other in-tree caller of forced updates, `PANOCOCPSolver`, uses
    `apply_masked` only, which re-tests every pair on `J` and skips such pairs
    (`applyMasked_eq_restricted`, `restrictHist_curv`).  The theorems about `apply` therefore hold
    for runs satisfying `RunOK`, and the direction-provider theorems must carry `GoodC`, not `Good`. -/
theorem forced_zero_curvature_breaks (p : Params α) (st : State α) (hG : Good p st) (s y : Vec α)
    (pTp : α) (h0 : dot y s = 0) :
    (updateSy p st s y pTp true).2 = true ∧ ¬ CurvOK (updateSy p st s y pTp true).1 := by
  have hst : (updateSy p st s y pTp true).2 = true := (stored_iff p st s y pTp true).mpr (Or.inl rfl)
  refine ⟨hst, fun hc => ?_⟩
  have habs := updateSy_abs p st hG.1 s y pTp true
  rw [if_pos hst] at habs
  have hmem : (s, y) ∈ (updateSy p st s y pTp true).1.abs := by
    rw [habs, lastN]
    have hpos := hG.1.pos
    have hle : (st.abs ++ [(s, y)]).length - st.slots.length ≤ st.abs.length := by
      simp only [List.length_append, List.length_cons, List.length_nil]; omega
    rw [List.drop_append_of_le_length hle]
    simp
  exact (curvOK_abs _).mp hc (s, y) hmem h0

/-- `scale_y(0)` on a non-empty history likewise leaves only zero-curvature pairs (`y = 0`,
    C++: `ρ *= 1/0`).  The only in-tree caller (`LBFGSDirection::changed_γ`) passes `γₖ/old_γₖ`, a
    ratio of positive step sizes. -/
theorem scaleY_zero_breaks (st : State α) (hI : Inv st) (hne : st.isEmpty = false) :
    ¬ CurvOK (scaleY st 0) := by
  intro hc
  obtain ⟨older, s, y, he⟩ := abs_snoc_of_nonempty st hI hne
  have h1 := scaleY_abs st hI (0 : α)
  have hmem : (s, smul 0 y) ∈ (scaleY st 0).abs := by
    rw [h1, he]; simp
  have := (curvOK_abs _).mp hc _ hmem
  apply this
  show dot (smul 0 y) s = 0
  rw [dot_smul_left, zero_mul]

/-! ### the masked variant never meets a zero curvature (for `min_div_fac ≥ 0`) -/

/-- The pairs `apply_masked` uses (those valid on `J`, restricted to `J`) all have non-zero
    curvature when `min_div_fac ≥ 0` — also when the stored history contains forced pairs of zero
    curvature, which the `J`-wise acceptance test skips.  So the dense operator on the right-hand
    side of `applyMasked_eq_restricted` is a genuine BFGS matrix (no `1/0 = 0`).  With
    `force_pos_def` the curvatures are positive. -/
theorem restrictHist_curv (p : Params α) (hmd : 0 ≤ p.minDivFac) (fJ : Bool) (J : List Nat)
    (hist : List (Vec α × Vec α)) :
    HistCurvOK (restrictHist p fJ J hist) ∧
    (p.forcePosDef = true → ∀ sy ∈ restrictHist p fJ J hist, 0 < dot sy.2 sy.1) := by
  have key : ∀ sy ∈ restrictHist p fJ J hist, ∃ sy0, validJh p fJ J sy0 = true ∧
      dot sy.2 sy.1 = dotJ fJ J sy0.1 sy0.2 ∧ 0 ≤ dotJ fJ J sy0.1 sy0.1 := by
    intro sy hsy
    simp only [restrictHist, List.mem_map, List.mem_filter] at hsy
    obtain ⟨sy0, ⟨_, hv⟩, rfl⟩ := hsy
    refine ⟨sy0, hv, ?_, ?_⟩
    · show dot (G fJ J sy0.2) (G fJ J sy0.1) = _
      rw [dotJ_eq, dot_comm]
    · rw [dotJ_eq]; exact dot_self_nonneg _
  constructor
  · intro sy hsy
    obtain ⟨sy0, hv, he, hs⟩ := key sy hsy
    rw [he]
    exact updateValid_ne_zero p _ _ _ hv hmd hs
  · intro hfp sy hsy
    obtain ⟨sy0, hv, he, hs⟩ := key sy hsy
    rw [he]
    exact updateValid_pos p _ _ _ hv hfp hmd hs

/-! ### dimensions (audit-2 B7): nothing here relies on `zip` truncating an ill-sized argument -/

theorem axmyJ_length' (fJ : Bool) (J : List Nat) (a : α) (x y : Vec α)
    (h : fJ = true → x.length = y.length) : (axmyJ fJ J a x y).length = y.length := by
  cases fJ
  · exact axmyJ_length J a x y
  · simp only [axmyJ, if_true]
    rw [length_vsub _ _ (by rw [length_smul]; exact (h rfl).symm)]

theorem scalJ_length' (fJ : Bool) (J : List Nat) (a : α) (x : Vec α) :
    (scalJ fJ J a x).length = x.length := by
  cases fJ
  · exact scalJ_length J a x
  · simp [scalJ]

theorem mrev_q_length (p : Params α) (fJ : Bool) (J : List Nat) (slots : List (Slot α)) (n : Nat)
    (is : List Nat) (a : MaskAcc α) (ha : a.q.length = n)
    (hs : ∀ i ∈ is, fJ = true → (slots.getD i default).y.length = n) :
    (is.foldl (maskedRevStep p fJ J slots) a).q.length = n := by
  induction is generalizing a with
  | nil => exact ha
  | cons i is ih =>
    rw [List.foldl_cons]
    apply ih _ _ (fun k hk => hs k (List.mem_cons_of_mem _ hk))
    unfold maskedRevStep
    simp only []
    split_ifs
    all_goals first
      | exact ha
      | (show (axmyJ _ _ _ _ _).length = n
         rw [axmyJ_length' _ _ _ _ _ (fun hf => by rw [hs i (List.mem_cons_self) hf, ha]), ha])

theorem mfwd_q_length (fJ : Bool) (J : List Nat) (slots : List (Slot α)) (al : List α)
    (skip : List Bool) (n : Nat) (is : List Nat) (q : Vec α) (hq : q.length = n)
    (hs : ∀ i ∈ is, fJ = true → (slots.getD i default).s.length = n) :
    (is.foldl (maskedFwdStep fJ J slots al skip) q).length = n := by
  induction is generalizing q with
  | nil => exact hq
  | cons i is ih =>
    rw [List.foldl_cons]
    apply ih _ _ (fun k hk => hs k (List.mem_cons_of_mem _ hk))
    unfold maskedFwdStep
    simp only []
    split_ifs
    · exact hq
    · rw [axmyJ_length' _ _ _ _ _ (fun hf => by rw [hs i (List.mem_cons_self) hf, hq]), hq]

/-- `apply_masked` on a vector of the object's dimension returns a vector of that dimension
    (stored vectors have that dimension: `DimOK`). -/
theorem applyMasked_length (p : Params α) (st : State α) (hI : Inv st) (hd : DimOK st) (q : Vec α)
    (γ : α) (J : List Nat) (hq : q.length = st.n) (q' : Vec α) (ok : Bool)
    (h : maskedOut (applyMasked p st q γ J) = some (q', ok)) : q'.length = st.n := by
  have hmem : ∀ i ∈ st.revIdx, st.slots.getD i default ∈ st.pairs := by
    intro i hi
    have hmap : (st.revIdx.map fun i => st.slots.getD i default) = st.pairs.reverse :=
      revIdx_map_slot st hI
    have : st.slots.getD i default ∈ st.pairs.reverse := by
      rw [← hmap]; exact List.mem_map.mpr ⟨i, hi, rfl⟩
    exact List.mem_reverse.mp this
  have hrev : st.revIdx = st.fwdIdx.reverse := foreachRev_eq_reverse _ _ _ hI.idx_lt
  have hmemf : ∀ i ∈ st.fwdIdx, st.slots.getD i default ∈ st.pairs := by
    intro i hi; apply hmem; rw [hrev]; exact List.mem_reverse.mpr hi
  unfold applyMasked at h
  simp only [] at h
  generalize (if p.curvature then (-1 : α) else γ) = γ0 at h
  split_ifs at h with h1 h2 h3
  · simp only [maskedOut, Option.some.injEq, Prod.mk.injEq] at h; rw [← h.1]; exact hq
  · simp [maskedOut] at h
  · simp only [maskedOut, Option.some.injEq, Prod.mk.injEq] at h
    rw [← h.1]
    exact mrev_q_length p _ J st.slots st.n st.revIdx _ hq (fun i hi _ => (hd _ (hmem i hi)).2)
  · simp only [maskedOut, Option.some.injEq, Prod.mk.injEq] at h
    rw [← h.1]
    apply mfwd_q_length _ J st.slots _ _ st.n st.fwdIdx _ _ (fun i hi _ => (hd _ (hmemf i hi)).1)
    rw [scalJ_length']
    exact mrev_q_length p _ J st.slots st.n st.revIdx _ hq (fun i hi _ => (hd _ (hmem i hi)).2)

/-- **Masked variant, sized form (the property theorem; audit-2 B7)**: for a vector of the object's
    dimension (`hq`) and `J` duplicate-free and in range of that dimension (`hJ`) — what the C++
    requires, it would index out of bounds otherwise — `apply_masked` returns a vector of that
    dimension, together with everything `applyMasked_eq_restricted` states; the restricted history is
    well-formed of dimension `|J|` (or `n` when `J` is full), so no `zip` truncation is involved. -/
theorem applyMasked_eq_restricted_sized (p : Params α) (st : State α) (hI : Inv st) (hd : DimOK st)
    (q : Vec α) (γ : α) (J : List Nat) (hq : q.length = st.n) (hne : st.isEmpty = false)
    (hcb : cbfgsEnabled p.cbfgsAlpha p.cbfgsEps = false)
    (hnn : ∀ x : α, RealLike.isNaN x = false)
    (hJ : JOK (q.length == J.length) J st.n) :
    ∃ q', maskedOut (applyMasked p st q γ J) = some (q', !maskedFail p st q γ J) ∧
      q'.length = st.n ∧
      (maskedFail p st q γ J = true → q' = q) ∧
      (maskedFail p st q γ J = false →
        G (q.length == J.length) J q' =
          H (maskedGamma p st q γ J) (restrictHist p (q.length == J.length) J st.abs)
            (G (q.length == J.length) J q) ∧
        ((q.length == J.length) = false → ∀ j, j ∉ J → vget q' j = vget q j)) ∧
      WF (if (q.length == J.length) then st.n else J.length)
        (restrictHist p (q.length == J.length) J st.abs) := by
  obtain ⟨q', hout, hfq, hsp⟩ :=
    applyMasked_eq_restricted p st hI q γ J hne hcb hnn (hq ▸ hJ)
  refine ⟨q', hout, applyMasked_length p st hI hd q γ J hq q' _ hout, hfq, hsp, ?_⟩
  intro sy hsy
  simp only [restrictHist, List.mem_map, List.mem_filter] at hsy
  obtain ⟨sy0, ⟨hm0, _⟩, rfl⟩ := hsy
  have h0 := (dimOK_abs st).mp hd sy0 hm0
  cases hf : (q.length == J.length)
  · simp [G]
  · simp only [G, if_true]; exact h0

section reach_examples

local instance instRealLikeRat' : RealLike ℚ := ⟨id, fun _ => false, fun _ => true⟩
local instance instPowLikeRat' : PowLike ℚ := ⟨fun x _ => x⟩
local instance instHasNaNRat' : HasNaN ℚ := ⟨0⟩

/-- memory 2, dimension 2, defaults otherwise: `min_div_fac = min_abs_s = 0`, CBFGS off,
    `force_pos_def`, curvature-based step size. -/
def pEx : Params ℚ := ⟨2, 0, 0, 1, 0, true, true⟩
def st0Ex : State ℚ := ⟨2, [⟨[0, 0], [0, 0], 0⟩, ⟨[0, 0], [0, 0], 0⟩], [0, 0], 0, false⟩

/-- Three stored pairs in a ring of two slots (the third, a *forced* pair of positive curvature,
    overwrites slot 0: wrap-around), an `apply` in between, one pair offered and rejected
    (`⟨y,s⟩ = −1`), and a `scale_y`. -/
def opsEx : List (Op ℚ) :=
  [.updateSy [1, 1] [1, 2] 0 false, .updateSy [1, 0] [2, -1] 0 false, .apply [1, 0] (-1),
   .updateSy [1, 0] [-1, 5] 0 false, .updateSy [0, 1] [1, 3] 0 true, .scaleY 2]

theorem resize_ex : resize pEx 2 = some st0Ex := rfl

/-- `Good` is satisfiable (here: the freshly constructed object). -/
example : Good pEx st0Ex := (resize_goodC pEx 2 st0Ex resize_ex).1.1

theorem nEx : (opsEx.foldl (step pEx) st0Ex).n = 2 := by decide +kernel

theorem runPos_ex : RunPos pEx st0Ex opsEx := by
  simp only [RunPos, opsEx, OpPos, step, updateSy_n, apply_n]
  simp [st0Ex, dot_cons]

/-- The reached state is not empty, and holds the two newest stored pairs (`y` scaled by 2). -/
theorem reached_ex :
    (opsEx.foldl (step pEx) st0Ex).isEmpty = false ∧
    opsEx.foldl (specStep pEx) [] = [([1, 0], [4, -2]), ([0, 1], [2, 6])] := by
  constructor
  · decide +kernel
  · simp [opsEx, specStep, pEx, updateValid, lbfgsUpdateValid, cbfgsEnabled, lastN, dot_cons,
      sqNorm_eq_dot, smul_cons]
    norm_num

/-- `Good` / `GoodC` on a non-trivial reached state (ring wrapped, `ρ` rescaled by `scale_y`). -/
example : Good pEx (opsEx.foldl (step pEx) st0Ex) ∧ CurvOK (opsEx.foldl (step pEx) st0Ex) := by
  have h := (run_goodC pEx (by decide) (le_refl _) opsEx st0Ex (resize_goodC pEx 2 st0Ex resize_ex).1
    runPos_ex.runOK).1
  exact ⟨h.1, h.2.1⟩

/-- All hypotheses of `reachable_apply_dense` and `reachable_apply_posdef` at once, on a run with
    wrap-around, a forced pair, a rejected pair, an `apply` and a `scale_y`: the result of `apply`
    on `q = (1, 0)` is the dense BFGS matrix of the two newest pairs applied to `q`, which is
    symmetric, satisfies the secant equation `H·(2,6) = (0,1)`, and `⟨q, H q⟩ > 0`. -/
example :
    (apply pEx (opsEx.foldl (step pEx) st0Ex) [1, 0] (-1)).2.1
      = H (applyGamma pEx (opsEx.foldl (step pEx) st0Ex) (-1))
          [([1, 0], [4, -2]), ([0, 1], [2, 6])] [1, 0] ∧
    (∀ γ0 : ℚ, H γ0 [([1, 0], [4, -2]), ([0, 1], [2, 6])] [2, 6] = [0, 1]) ∧
    0 < dot [1, 0] (apply pEx (opsEx.foldl (step pEx) st0Ex) [1, 0] (-1)).2.1 := by
  have h := reachable_apply_dense pEx (le_refl _) 2 st0Ex resize_ex opsEx runPos_ex.runOK [1, 0] (-1)
    (by rw [nEx]; rfl) reached_ex.1
  have hp := reachable_apply_posdef pEx rfl (le_refl _) 2 st0Ex resize_ex opsEx runPos_ex [1, 0] (-1)
    reached_ex.1 (Or.inl rfl) (by rw [nEx]; rfl) (by rw [nEx]; simp)
  rw [reached_ex.2] at h
  refine ⟨h.2.2.1, ?_, hp.2⟩
  obtain ⟨older, s, y, he, _, hs⟩ := h.2.2.2.2.2.1
  have : older ++ [(s, y)] = [([1, 0], [4, -2])] ++ [([0, 1], [2, 6])] := he.symm
  obtain ⟨_, h2⟩ := List.append_inj' this rfl
  simp only [List.cons.injEq, Prod.mk.injEq, and_true] at h2
  obtain ⟨rfl, rfl⟩ := h2
  exact hs

/-- The concrete numbers: `γ₀ = sᵀy/yᵀy = 6/40`, and the dense matrix applied to `(1,0)`. -/
example : H (3 / 20 : ℚ) [([1, 0], [4, -2]), ([0, 1], [2, 6])] [1, 0] = [23 / 80, -23 / 240] := by
  simp [H, Hrev, dot_cons]; norm_num

/-- The excluded point on the same object: a forced pair with `⟨y,s⟩ = 0` is stored and breaks the
    invariant (C++: `ρ = inf`, `apply` → NaN). -/
example : (updateSy pEx st0Ex [1, 0] [0, 1] 0 true).2 = true ∧
    ¬ CurvOK (updateSy pEx st0Ex [1, 0] [0, 1] 0 true).1 :=
  forced_zero_curvature_breaks pEx st0Ex (resize_goodC pEx 2 st0Ex resize_ex).1.1 _ _ _
    (by simp [dot_cons])

/-- `maskedGamma_newest_valid` is not vacuous: on the one-pair state, `J = {0}`, the pair
    `s = (1,1), y = (1,2)` is valid on `J` and the scaling is `s₀y₀/y₀² = 1`. -/
example : validJ pEx false [0] (⟨[1, 1], [1, 2], 1 / 3⟩ : Slot ℚ) = true ∧
    ratioJ false [0] (⟨[1, 1], [1, 2], 1 / 3⟩ : Slot ℚ) = 1 := by
  constructor
  · simp [validJ, updateValid, lbfgsUpdateValid, cbfgsEnabled, pEx, dotJ, vget]
  · simp [ratioJ, G, vget, dot_cons]

/-- … and it covers a *negative* scaling: without `force_pos_def` the pair `s = (1,0), y = (−2,1)` is
    valid on the full index set with ratio `−2/5` — the case in which the unrepaired code took an
    older pair's scaling or failed after modifying `q` (known-findings
    `C09-apply_masked-negative-curvature-scaling-from-older-pair`, fixed). -/
example : validJ { pEx with forcePosDef := false } true [0, 1] (⟨[1, 0], [-2, 1], -1 / 2⟩ : Slot ℚ) = true ∧
    ratioJ true [0, 1] (⟨[1, 0], [-2, 1], -1 / 2⟩ : Slot ℚ) = -2 / 5 := by
  constructor
  · simp [validJ, updateValid, lbfgsUpdateValid, cbfgsEnabled, pEx, dotJ, dot_cons]
  · simp [ratioJ, G, dot_cons]; norm_num

/-- The regression scenario H of `checks/c09.py` in the model over `ℚ`: one stored pair of negative
    curvature, curvature step size, no `force_pos_def`, `J` = all indices, `q = (1,2)`:
    `apply_masked` succeeds and returns what `apply` returns, `(−1,−1)`. -/
def pNeg : Params ℚ := { pEx with forcePosDef := false }
def stNeg : State ℚ := (updateSy pNeg st0Ex [1, 0] [-2, 1] 0 false).1

example : maskedOut (applyMasked pNeg stNeg [1, 2] (-1) [0, 1]) = some ([-1, -1], true) ∧
    (apply pNeg stNeg [1, 2] (-1)).2.1 = [-1, -1] := by
  constructor <;> decide +kernel

/-- All hypotheses of `applyMasked_eq_restricted_sized` at once (dimension 2, `J = {0}` in range and
    duplicate-free, one stored pair of negative curvature, no `force_pos_def`): the call succeeds and
    returns a vector of dimension 2. -/
example : ∃ q' : Vec ℚ, maskedOut (applyMasked pNeg stNeg [1, 2] (-1) [0]) = some (q', true) ∧
    q'.length = 2 := by
  have hG : GoodC pNeg stNeg :=
    updateSy_goodC pNeg (le_refl _) st0Ex (resize_goodC pEx 2 st0Ex resize_ex).1 [1, 0] [-2, 1] 0 false
      ⟨rfl, rfl, by simp⟩
  obtain ⟨q', hout, hlen, _, _, _⟩ := applyMasked_eq_restricted_sized pNeg stNeg hG.1.1 hG.2.2 [1, 2] (-1) [0]
    (by decide +kernel) (by decide +kernel) rfl (fun _ => rfl)
    (fun _ => ⟨by simp, by intro j hj; simp at hj; subst hj; decide +kernel⟩)
  have hf : maskedFail pNeg stNeg [1, 2] (-1) [0] = false := by decide +kernel
  rw [hf] at hout
  exact ⟨q', hout, by rw [hlen]; decide +kernel⟩

end reach_examples

end Alpaqa.Props.C09
