/-
  C16 — Type-erased containers have value semantics under any copy/move/assign history.

  Three layers, all about definitions that are either regenerated from util/type-erasure.hpp on
  every run (`Alpaqa/Gen/C16.lean`) or are the executable model the driver runs against the real
  code (`Alpaqa/Model/C16Exec.lean`: `step` is an *interpreter of the regenerated programs*
  `Gen.C16.*P` over the checked ghost heap of `Alpaqa/Model/C16.lean`):

  1. `step_runs_generated_programs` — on every state and operation, executing the regenerated
                      program of the C++ function equals the hand-staged operation body the
                      invariant proofs work on (so a reordered / dropped / swapped statement of
                      the C++ changes the executable model and breaks this theorem, hence
                      `inv_step`); `shape_*`, `progs_match_paths` — the regenerated path tables,
                      the regenerated programs and the declared action order agree (decide).
  2. predicate / guard theorems about the regenerated decision predicates the lifetime logic
     hinges on (sentinels, ownership, const-ness, the four small-buffer comparisons, the guards
     in front of non-const dispatch), and `const_violation_throws`, `dispatch_own_object`.
  3. the invariant `Inv` (structural part `InvS` + id-level part `InvI`, both defined in
     `Alpaqa/Proofs/C16Inv.lean`, `…/C16Ids.lean`) of the pool over the checked ghost heap, proved
     preserved by *every* operation (`inv_step`), hence for every operation sequence of any
     length (`inv_run`, `no_error`), and its consequences: `construct_destroy_once`,
     `blocks_returned_to_origin`, `dispatch_own_object`, `copies_independent`, `refs_alias`,
     `throwing_copy_leaves_empty`.  Helper lemmas are in `Alpaqa/Proofs/C16*.lean`.
-/
import Alpaqa.Proofs.C16Shape

namespace Alpaqa.Props.C16
open Alpaqa.Gen.C16 Alpaqa.C16
open Alpaqa.Proofs.C16 hiding large_iff_not_small refSize_spec dispatch_own_object
  blocks_not_shared buffers_not_shared inv_init

/-! ### 1. The C++ (regenerated) follows the action order the model implements -/

theorem shape_copyCtor : copyCtor = expectedCopyCtor := by decide
theorem shape_copyCtorAlloc : copyCtorAlloc = expectedCopyCtorAlloc := by decide
theorem shape_copyAssign : copyAssign = expectedCopyAssign := by decide
theorem shape_moveCtor : moveCtor = expectedMoveCtor := by decide
theorem shape_moveCtorAlloc : moveCtorAlloc = expectedMoveCtorAlloc := by decide
theorem shape_moveAssign : moveAssign = expectedMoveAssign := by decide
theorem shape_cleanup : cleanupFn = expectedCleanup := by decide
theorem shape_deallocate : deallocateFn = expectedDeallocate := by decide
theorem shape_allocate : allocateFn = expectedAllocate := by decide
theorem shape_doCopyAssign : Gen.C16.doCopyAssign = expectedDoCopyAssign := by decide
theorem shape_constructInplace :
    constructInplacePtr = expectedConstructInplacePtr ∧
    constructInplaceObj = expectedConstructInplaceObj := by decide

/-- The regenerated *programs* (decisions and actions in statement order — what `step` executes)
    and the regenerated *path tables* describe the same control-flow paths. -/
theorem progs_match_paths :
    (∀ q ∈ [(copyCtorP, copyCtor), (copyCtorAllocP, copyCtorAlloc), (copyAssignP, copyAssign),
            (moveCtorP, moveCtor), (moveCtorAllocP, moveCtorAlloc), (moveAssignP, moveAssign),
            (cleanupFnP, cleanupFn), (deallocateFnP, deallocateFn), (allocateFnP, allocateFn),
            (doCopyAssignP, Gen.C16.doCopyAssign)],
      (progPaths q.1 [] []).length = q.2.length ∧ (∀ p ∈ progPaths q.1 [] [], p ∈ q.2) ∧
        ∀ p ∈ q.2, p ∈ progPaths q.1 [] []) := by decide

/-- **The model the driver runs is the regenerated description.**  `step` executes, for every
    operation, the program regenerated from the C++ function (`Gen.C16.copyCtorP`, `moveAssignP`,
    `cleanupFnP`, `doCopyAssignP`, `constructInplaceObj`, …; nested calls run the callee's
    regenerated program, the `storage_guard` destructor runs at scope exit); on every state and
    every operation this equals the hand-staged operation bodies (`stepH`: `opMoveAssign`,
    `opCopyAssign`, …) about which the invariant lemmas are proved.  Moving a statement of the C++
    (e.g. the allocator propagation before `cleanup()` in move assignment) changes `moveAssignP`,
    hence what `step` does, and this equality — on which `inv_step` rests — fails. -/
theorem step_runs_generated_programs (s : State) (op : Op) : step s op = stepH s op :=
  step_eq_stepH s op

/-- Every path of every lifetime function that move-constructs out of `other` also destroys the
    moved-from object and then resets `other.self` (by `nullOther` or through `other.deallocate()`),
    and every path that steals the pointer does so with `exchange(…, nullptr)`. -/
theorem moved_from_is_destroyed_and_nulled :
    ∀ p ∈ moveCtor ++ moveCtorAlloc ++ moveAssign,
      (.moveConstruct ∈ p.acts → .destroyOther ∈ p.acts ∧
        (.nullOther ∈ p.acts ∨ .otherDeallocate ∈ p.acts)) ∧ .aliasPtr ∉ p.acts := by decide

/-- `cleanup` destroys before it deallocates, and `deallocate` nulls `self` on both paths. -/
theorem cleanup_destroys_then_frees :
    (∀ p ∈ cleanupFn, p.acts = [] ∨ p.acts = [.nullSelf] ∨ p.acts = [.destroySelf, .selfDeallocate]) ∧
    (∀ p ∈ deallocateFn, .nullSelf ∈ p.acts) := by decide

/-! ### 2. Decision predicates (regenerated from the C++) -/

/-- The three sentinels are pairwise distinct. -/
theorem sentinels_distinct :
    invalidSize ≠ mutRefSize ∧ invalidSize ≠ constRefSize ∧ mutRefSize ≠ constRefSize := by decide

/-- A size indicates ownership iff it is neither reference sentinel. -/
theorem owns_iff (size : Nat) :
    ownsReferencedObject size = true ↔ size ≠ constRefSize ∧ size ≠ mutRefSize := by
  simp [ownsReferencedObject, sizeIndicatesOwnership]

/-- Pointer construction yields a non-owning size whose const flag is the pointee's. -/
theorem refSize_spec (c : Bool) :
    ownsReferencedObject (refSize c) = false ∧ referencedObjectIsConst (refSize c) = c :=
  Proofs.C16.refSize_spec c

/-- A const-referencing size never indicates ownership; the moved-from / default size does. -/
theorem const_not_owning (size : Nat) (h : referencedObjectIsConst size = true) :
    ownsReferencedObject size = false := by
  simp [referencedObjectIsConst, sizeIndicatesConst] at h
  subst h; decide

theorem invalid_owns : ownsReferencedObject invalidSize = true ∧
    referencedObjectIsConst invalidSize = false := by decide

/-- The comparison used by `deallocate` and by the three move paths is the exact complement of the
    one used by `allocate`: storage obtained from the allocator is the storage returned to it /
    stolen, storage in the small buffer is never passed to an allocator. -/
theorem large_iff_not_small (sz sbs : Nat) :
    deallocateUsesAllocator sz sbs = !allocateUsesSmallBuffer sz sbs ∧
    moveCtorLarge sz sbs = !allocateUsesSmallBuffer sz sbs ∧
    moveCtorAllocLarge sz sbs = !allocateUsesSmallBuffer sz sbs ∧
    moveAssignLarge sz sbs = !allocateUsesSmallBuffer sz sbs :=
  Proofs.C16.large_iff_not_small sz sbs

/-- The sentinels are larger than any buffer that fits the address space below them, so a stale
    sentinel in `size` is never mistaken for small-buffer storage. -/
theorem sentinels_not_small (sbs : Nat) (h : sbs < invalidSize) :
    allocateUsesSmallBuffer invalidSize sbs = false ∧ allocateUsesSmallBuffer mutRefSize sbs = false ∧
    allocateUsesSmallBuffer constRefSize sbs = false := by
  simp only [allocateUsesSmallBuffer, invalidSize, mutRefSize, constRefSize] at *
  refine ⟨?_, ?_, ?_⟩ <;> (apply decide_eq_false; omega)

example : allocateUsesSmallBuffer 32 32 = true ∧ allocateUsesSmallBuffer 33 32 = false ∧
    moveAssignLarge 32 32 = false ∧ moveAssignLarge 33 32 = true := by decide

/-- All non-const `call` overloads are guarded, no const one is. -/
theorem call_guards : nonConstCallGuards.all id = true ∧ constCallGuards.any id = false := by decide

/-- `as<T>() &` checks the type, then const-ness, then delivers; `get_pointer` checks const-ness. -/
theorem accessor_guards : asMut = [.typeCheck, .constCheck, .deliver] ∧
    asConst = [.typeCheck, .deliver] ∧ getPointer = [.constCheck, .deliver] := by decide

/-! ### `const_violation_throws` -/

/-- A non-const call through a wrapper that references a const object yields the exception
    outcome and performs nothing: the state (objects, log) is unchanged. -/
theorem const_violation_throws (s : State) (i v : Nat) (w : Wrapper) (p : Loc)
    (hw : s.wr i = some w) (hs : w.self = some p) (hc : referencedObjectIsConst w.size = true) :
    opSet s i v = (s, .excConst) := by
  simp [opSet, getW, hw, hs, hc, call_guards.1]

/-- Same for mutable `as<T>()` (when the type matches) and for `get_pointer()`. -/
theorem const_violation_throws_as (s : State) (i : Nat) (w : Wrapper) (p : Loc)
    (hw : s.wr i = some w) (hs : w.self = some p) (hc : referencedObjectIsConst w.size = true) :
    opAccess s asMut i w.vtTy = (s, .excConst) ∧ opAccess s getPointer i w.vtTy = (s, .excConst) := by
  simp [opAccess, getW, hw, hs, hc, accessor_guards.1, accessor_guards.2.2, runGuards]

/-- … and a type mismatch is reported as such, before anything else. -/
theorem type_violation_throws (s : State) (i ty : Nat) (w : Wrapper) (p : Loc)
    (hw : s.wr i = some w) (hs : w.self = some p) (ht : w.vtTy ≠ ty) :
    opAccess s asMut i ty = (s, .excType) ∧ opAccess s asConst i ty = (s, .excType) := by
  simp [opAccess, getW, hw, hs, ht, accessor_guards.1, accessor_guards.2.1, runGuards]

/-- Non-vacuity: a pool whose slot 0 holds a const reference to environment object 0. -/
example :
    let s := (step (initState ⟨32, false, false, false, 3⟩ 16 48) (.newPtr 0 0 0 true)).1
    (step s (.set 0 7)).2 = .excConst ∧ (step s (.get 0)).2 = .val 0 100 ∧
    (step s (.asMut 0 16)).2 = .excConst ∧ (step s (.asConst 0 16)).2 = .val 0 100 ∧
    (step s (.asConst 0 48)).2 = .excType := by decide

/-! ### 3. The invariant of the pool over the ghost heap, for every operation sequence -/

/-- The invariant: structural part (`InvS`: no ghost-heap error; every wrapper's `self`, `size`,
    allocator and storage are consistent; every live block is owned by exactly the wrapper
    recorded for it and was allocated by an allocator equal to the one it will be returned
    through; dead blocks were returned through an equal allocator) and id-level part (`InvI`:
    every id below `nextId` was constructed exactly once and is either alive at exactly one
    registered location with destruction count 0, or dead with destruction count 1). -/
def Inv (s : State) : Prop := InvS s ∧ InvI s

/-- The only restriction on operations: the payload type of an in-place construction is a
    genuine `sizeof`, not one of the two reference sentinels (in the C++ `sizeof(T)` cannot be
    `2^64-1` or `2^64-2`). -/
def validOp : Op → Prop
  | .newInPlace _ _ ty _ _ => ownsReferencedObject ty = true
  | _ => True

theorem inv_init (cfg : Cfg) (a b : Nat) (ha : ownsReferencedObject a = true)
    (hb : ownsReferencedObject b = true) : Inv (initState cfg a b) := by
  refine ⟨Proofs.C16.inv_init cfg a b ha hb, ?_⟩
  constructor
  · intro id l hl
    simp only [initState] at hl
    split at hl
    · rename_i e; subst e; cases hl
      exact ⟨by show 0 < 2; omega, rfl, ⟨0, 100, a⟩, by simp [objAt, initState], rfl⟩
    · split at hl
      · rename_i e; subst e; cases hl
        exact ⟨by show 1 < 2; omega, rfl, ⟨1, 101, b⟩, by simp [objAt, initState], rfl⟩
      · cases hl
  · intro id hl
    simp only [initState] at hl ⊢
    split at hl
    · cases hl
    · split at hl
      · cases hl
      · rename_i h0 h1
        have : ¬ id < 2 := by omega
        simp [this]
  · intro l o hl
    cases l with
    | buf i => simp [objAt, initState] at hl
    | blk b => simp [objAt, initState, deadBlock] at hl
    | env k =>
      simp only [objAt, initState] at hl ⊢
      split at hl
      · rename_i e; subst e; cases hl; rfl
      · split at hl
        · rename_i e; subst e; cases hl; rfl
        · cases hl
  · intro b _; simp [initState, deadBlock]
  · intro id; rfl

theorem free_none {s : State} {i : Nat} (h : free s i = true) : s.wr i = none := by
  simp only [free, Bool.and_eq_true, Option.isNone_iff_eq_none] at h; exact h.2

theorem has_some {s : State} {i : Nat} (h : has s i = true) : ∃ w, s.wr i = some w :=
  Option.isSome_iff_exists.mp h

/-- **Every operation preserves the invariant.** -/
theorem inv_step {s : State} (h : Inv s) (op : Op) (hv : validOp op) : Inv (step s op).1 := by
  rw [step_runs_generated_programs]
  obtain ⟨hS, hI⟩ := h
  cases op <;> simp only [stepH]
  case newDefault i a =>
    split
    · rename_i hf
      exact ⟨(newW_facts hS (free_none hf) a 0).1, invI_newW hI (free_none hf) a 0⟩
    · exact ⟨hS, hI⟩
  case newInPlace i a ty val thr =>
    split
    · rename_i hf
      exact ⟨invS_opNewInPlace hS (free_none hf) a ty val thr hv,
        invI_opNewInPlace hS hI (free_none hf) a ty val thr⟩
    · exact ⟨hS, hI⟩
  case newCopyEnv i a k thr =>
    split
    · rename_i hf
      exact ⟨invS_opNewCopyEnv hS (free_none hf) a k thr, invI_opNewCopyEnv hS hI (free_none hf) a k thr⟩
    · exact ⟨hS, hI⟩
  case newMoveEnv i a k =>
    split
    · rename_i hf
      exact ⟨invS_opNewMoveEnv hS (free_none hf) a k, invI_opNewMoveEnv hI (free_none hf) a k⟩
    · exact ⟨hS, hI⟩
  case newPtr i a k c =>
    split
    · rename_i hf
      exact ⟨invS_opNewPtr hS (free_none hf) a k c, invI_opNewPtr hI (free_none hf) a k c⟩
    · exact ⟨hS, hI⟩
  case copyCtor i j thr =>
    split
    · rename_i hg
      simp only [Bool.and_eq_true] at hg
      obtain ⟨wj, hj⟩ := has_some hg.2
      exact ⟨invS_opCopyCtorWith hS (free_none hg.1) hj _ thr,
        invI_opCopyCtorWith hS hI (free_none hg.1) hj _ thr⟩
    · exact ⟨hS, hI⟩
  case copyCtorAlloc i j a thr =>
    split
    · rename_i hg
      simp only [Bool.and_eq_true] at hg
      obtain ⟨wj, hj⟩ := has_some hg.2
      exact ⟨invS_opCopyCtorWith hS (free_none hg.1) hj a thr,
        invI_opCopyCtorWith hS hI (free_none hg.1) hj a thr⟩
    · exact ⟨hS, hI⟩
  case moveCtor i j =>
    split
    · rename_i hg
      simp only [Bool.and_eq_true] at hg
      obtain ⟨wj, hj⟩ := has_some hg.2
      exact ⟨invS_opMoveCtor hS (free_none hg.1) hj, invI_opMoveCtor hI (free_none hg.1) j⟩
    · exact ⟨hS, hI⟩
  case moveCtorAlloc i j a =>
    split
    · rename_i hg
      simp only [Bool.and_eq_true] at hg
      obtain ⟨wj, hj⟩ := has_some hg.2
      exact ⟨invS_opMoveCtorAlloc hS (free_none hg.1) hj a, invI_opMoveCtorAlloc hI (free_none hg.1) j a⟩
    · exact ⟨hS, hI⟩
  case copyAssign i j thr =>
    split
    · rename_i hg
      simp only [Bool.and_eq_true] at hg
      obtain ⟨wi, hi⟩ := has_some hg.1
      obtain ⟨wj, hj⟩ := has_some hg.2
      exact ⟨invS_opCopyAssign hS hi hj thr, invI_opCopyAssign hI i j thr⟩
    · exact ⟨hS, hI⟩
  case moveAssign i j =>
    split
    · rename_i hg
      simp only [Bool.and_eq_true] at hg
      obtain ⟨wi, hi⟩ := has_some hg.1
      obtain ⟨wj, hj⟩ := has_some hg.2
      exact ⟨invS_opMoveAssign hS hi hj, invI_opMoveAssign hI i j⟩
    · exact ⟨hS, hI⟩
  case del i =>
    split
    · rename_i hg
      obtain ⟨w, hw⟩ := has_some hg
      exact ⟨(inv_opDel hS hw).1, invI_opDel hS hI hw⟩
    · exact ⟨hS, hI⟩
  case get i =>
    split
    · rename_i hg
      obtain ⟨w, hw⟩ := has_some hg
      refine ⟨?_, invI_deref hI _⟩
      simpa [opGet, getW, hw] using inv_deref hS hw
    · exact ⟨hS, hI⟩
  case set i v =>
    split
    · rename_i hg
      obtain ⟨w, hw⟩ := has_some hg
      exact ⟨invS_opSet hS hw v, invI_opSet hI i v⟩
    · exact ⟨hS, hI⟩
  case asMut i ty =>
    split
    · rename_i hg
      obtain ⟨w, hw⟩ := has_some hg
      exact ⟨inv_opAccess hS _ _ hw, invI_opAccess hI _ _ _⟩
    · exact ⟨hS, hI⟩
  case asConst i ty =>
    split
    · rename_i hg
      obtain ⟨w, hw⟩ := has_some hg
      exact ⟨inv_opAccess hS _ _ hw, invI_opAccess hI _ _ _⟩
    · exact ⟨hS, hI⟩
  case getPtr i =>
    split
    · rename_i hg
      obtain ⟨w, hw⟩ := has_some hg
      exact ⟨inv_opAccess hS _ _ hw, invI_opAccess hI _ _ _⟩
    · exact ⟨hS, hI⟩

/-- **Every operation sequence of any length preserves the invariant.** -/
theorem inv_run {s : State} (h : Inv s) (ops : List Op) (hv : ∀ op ∈ ops, validOp op) :
    Inv (run s ops) := by
  induction ops generalizing s with
  | nil => exact h
  | cons o r ih =>
    exact ih (inv_step h o (hv o (by simp))) (fun op hop => hv op (by simp [hop]))

/-- No ghost-heap check ever fails, for any history: no double destroy, no destroy of an
    unconstructed object, no construction over a live object, no double free, no free through
    an unequal allocator, no dangling dispatch, no wrapper released with a live payload. -/
theorem no_error {s : State} (h : Inv s) (ops : List Op) (hv : ∀ op ∈ ops, validOp op) :
    (run s ops).err = none := (inv_run h ops hv).1.noErr

/-- Corollaries kept from the first round (operations that carry no side condition). -/
theorem inv_run_partial {s : State} (h : Inv s) (ops : List Op)
    (hp : ∀ op ∈ ops, ∀ i a ty v t, op ≠ .newInPlace i a ty v t) : Inv (run s ops) := by
  apply inv_run h ops
  intro op hop
  cases op <;> simp only [validOp]
  case newInPlace i a ty v t => exact absurd rfl (hp _ hop i a ty v t)

/-! ### Consequences of the invariant -/

/-- Two distinct slots never point to the same heap block. -/
theorem blocks_not_shared {s : State} (h : Inv s) {i j b : Nat} {wi wj : Wrapper}
    (hi : s.wr i = some wi) (hj : s.wr j = some wj)
    (si : wi.self = some (.blk b)) (sj : wj.self = some (.blk b)) : i = j :=
  Proofs.C16.blocks_not_shared h.1 hi hj si sj

/-- No wrapper's `self` points into another wrapper's small buffer. -/
theorem buffers_not_shared {s : State} (h : Inv s) {i j : Nat} {w : Wrapper}
    (hi : s.wr i = some w) (si : w.self = some (.buf j)) : j = i :=
  Proofs.C16.buffers_not_shared h.1 hi si

/-- `dispatch_own_object`: a call through a non-empty wrapper is never dangling; it reaches the
    object living in the wrapper's own buffer, in the block this slot owns, or the referenced
    environment object — and returns that object's id and value. -/
theorem dispatch_own_object {s : State} (h : Inv s) {i : Nat} {w : Wrapper} {p : Loc}
    (hw : s.wr i = some w) (hs : w.self = some p) :
    ∃ o, objAt s p = some o ∧ (opGet s i).2 = .val o.id o.val ∧ (opGet s i).1.err = none ∧
      (match p with
       | .buf j => j = i ∧ w.bufObj = some o
       | .blk b => (s.blk b).owner = i ∧ (s.blk b).live = true
       | .env _ => ownsReferencedObject w.size = false) :=
  Proofs.C16.dispatch_own_object h.1 hw hs

/-- `copies_independent` (general form): in every reachable state two distinct owning wrappers
    point to different storage holding objects with different ids — a call through one never
    reaches the other's object. -/
theorem owners_disjoint {s : State} (h : Inv s) {i j : Nat} {wi wj : Wrapper} {p q : Loc}
    (hij : i ≠ j) (hi : s.wr i = some wi) (hj : s.wr j = some wj)
    (oi : ownsReferencedObject wi.size = true) (_oj : ownsReferencedObject wj.size = true)
    (hp : wi.self = some p) (hq : wj.self = some q) :
    p ≠ q ∧ ∀ a b, objAt s p = some a → objAt s q = some b → a.id ≠ b.id := by
  have ki := h.1.wok i wi hi
  have kj := h.1.wok j wj hj
  have hne : p ≠ q := by
    intro e; subst e
    cases p with
    | buf k => exact hij (((ki.2.1 k hp).1).symm.trans (kj.2.1 k hq).1)
    | blk b => exact hij (Proofs.C16.blocks_not_shared h.1 hi hj hp hq)
    | env k => have := (ki.2.2.2 k hp).2.1; rw [oi] at this; cases this
  refine ⟨hne, ?_⟩
  intro a b ha hb e
  have r1 := h.2.objReg p a ha
  have r2 := h.2.objReg q b hb
  rw [e, r2] at r1
  cases r1; exact hne rfl

/-- A non-const call through an owning wrapper does not change what any other owning wrapper
    reads (copies are independent). -/
theorem set_is_local {s : State} (h : Inv s) {i j : Nat} {wi wj : Wrapper} {p q : Loc}
    (hij : i ≠ j) (hi : s.wr i = some wi) (hj : s.wr j = some wj)
    (oi : ownsReferencedObject wi.size = true) (oj : ownsReferencedObject wj.size = true)
    (hp : wi.self = some p) (hq : wj.self = some q) (v : Nat) :
    (opGet (opSet s i v).1 j).2 = (opGet s j).2 := by
  obtain ⟨hne, _⟩ := owners_disjoint h hij hi hj oi oj hp hq
  obtain ⟨o, ho, _⟩ := dispatch_own_object h hi hp
  have hnc : referencedObjectIsConst wi.size = false := by
    cases hc : referencedObjectIsConst wi.size with
    | false => rfl
    | true => have := const_not_owning _ hc; rw [oi] at this; cases this
  have hwr : ∀ i', p = .buf i' → (s.wr i').isSome = true := wr_some_of_objAt ho
  have hobj : ∀ l, l ≠ p → objAt (opSet s i v).1 l = objAt s l := by
    intro l hl
    simp only [opSet, getW, hi, Option.getD_some, hp, hnc, Bool.and_false, Bool.false_eq_true,
      ite_false, ho]
    have : objAt (emit (setObj s p (some { o with val := v })) (.write o.id v)) l =
        objAt (setObj s p (some { o with val := v })) l := objAt_congr rfl rfl rfl l
    rw [this, objAt_setObj hwr]; simp [hl]
  have hwj : ∃ wj', (opSet s i v).1.wr j = some wj' ∧ wj'.self = some q := by
    simp only [opSet, getW, hi, Option.getD_some, hp, hnc, Bool.and_false, Bool.false_eq_true,
      ite_false, ho]
    cases p with
    | buf k =>
      have hk : k = i := (h.1.wok i wi hi).2.1 k hp |>.1
      subst hk
      refine ⟨wj, ?_, hq⟩
      simp only [setObj, modW, hi, emit]
      rw [upd_ne _ _ (fun e => hij e.symm)]; exact hj
    | blk b => exact ⟨wj, by simp [setObj, emit, hj], hq⟩
    | env k => exact ⟨wj, by simp [setObj, emit, hj], hq⟩
  obtain ⟨wj', hwj', hq'⟩ := hwj
  simp only [opGet, deref, getW, hj, hwj', Option.getD_some, hq, hq', hobj q (fun e => hne e.symm)]
  cases objAt s q <;> rfl

/-- `refs_alias`: a call through a non-owning wrapper reaches the referenced environment object
    itself (so every reference to environment object `k`, however it was copied or moved,
    observes the same object). -/
theorem refs_alias {s : State} (h : Inv s) {i : Nat} {w : Wrapper} {p : Loc}
    (hw : s.wr i = some w) (hs : w.self = some p) (hn : ownsReferencedObject w.size = false) :
    ∃ k o, p = .env k ∧ s.env k = some o ∧ (opGet s i).2 = .val o.id o.val := by
  have k := h.1.wok i w hw
  cases p with
  | buf j => have := (k.2.1 j hs).2.2.1; rw [hn] at this; cases this
  | blk b => have := (k.2.2.1 b hs).2.1; rw [hn] at this; cases this
  | env e =>
    obtain ⟨o, ho, hg, _⟩ := dispatch_own_object h hw hs
    exact ⟨e, o, rfl, by simpa [objAt] using ho, hg⟩

/-- Copy construction from an owning, non-empty wrapper (payload copy constructor does not throw):
    the new wrapper owns a *different* object in its *own* storage, with the same value; the
    source is untouched. -/
theorem copies_independent {s : State} (h : Inv s) {i j : Nat} {wj : Wrapper} {p : Loc} {o : Obj}
    (hf : free s i = true) (hj : s.wr j = some wj) (hp : wj.self = some p)
    (ho : ownsReferencedObject wj.size = true) (hobj : objAt s p = some o) :
    let r := (step s (.copyCtor i j false)).1
    Inv r ∧ ∃ w' q o', r.wr i = some w' ∧ w'.self = some q ∧ ownsReferencedObject w'.size = true ∧
      objAt r q = some o' ∧ o'.val = o.val ∧ r.wr j = some wj ∧
      q ≠ p ∧ (∀ b, objAt r p = some b → o'.id ≠ b.id) := by
  intro r
  have hI : Inv r := inv_step h _ trivial
  have hfn := free_none hf
  have hij : i ≠ j := by intro e; subst e; rw [hfn] at hj; cases hj
  have hji : j ≠ i := fun e => hij e.symm
  have hhas : has s j = true := by simp [has, hj]
  obtain ⟨h1, hw1, hfr⟩ := newW_facts h.1 hfn (if s.cfg.socc = true then 0 else (getW s j).alloc)
    (getW s j).vtTy
  have hj1 : (newW s i (if s.cfg.socc = true then 0 else (getW s j).alloc) (getW s j).vtTy).wr j
      = some wj := by rw [hfr j hji]; exact hj
  have hobj1 : objAt (newW s i (if s.cfg.socc = true then 0 else (getW s j).alloc)
      (getW s j).vtTy) p = some o := by
    cases p with
    | buf k =>
      have hk : k = j := (h.1.wok j wj hj).2.1 k hp |>.1
      subst hk
      have hki : ¬ k = i := fun e => hij e.symm
      simp only [objAt, newW, upd, hki, if_false]
      simpa [objAt] using hobj
    | blk b => simpa [objAt, newW] using hobj
    | env k => simpa [objAt, newW] using hobj
  obtain ⟨_, _, _, q4⟩ := invS_doCopyAssign h1 hw1 rfl hj1 hij false false
  obtain ⟨w', q, n, r1, r2, r3, r4, r5⟩ := q4 rfl p o hp ho hobj1
  have hbeq : ((Alpaqa.C16.doCopyAssign (newW s i (if s.cfg.socc = true then 0 else (getW s j).alloc)
      (getW s j).vtTy) false i j false).2 == Out.excCopy) = false := by
    rw [doCopyAssign_snd_ok]; rfl
  have hr : r = (Alpaqa.C16.doCopyAssign (newW s i (if s.cfg.socc = true then 0 else (getW s j).alloc)
      (getW s j).vtTy) false i j false).1 := by
    show (step s (.copyCtor i j false)).1 = _
    rw [step_runs_generated_programs]
    simp only [stepH, hf, hhas, Bool.and_self, ite_true, opCopyCtorWith, hbeq, Bool.false_eq_true,
      ite_false]
  rw [hr] at hI ⊢
  have hw'o : ownsReferencedObject w'.size = true := by rw [r3]; exact ho
  obtain ⟨d1, d2⟩ := owners_disjoint hI hij r1 r5 hw'o ho r2 hp
  exact ⟨hI, w', q, _, r1, r2, hw'o, r4, rfl, r5, d1, fun b hb => d2 _ b r4 hb⟩

/-- Copy construction from a *reference* wrapper: the copy refers to the same environment
    object (references are shallow-copied, so they alias). -/
theorem copy_of_ref_aliases {s : State} (h : Inv s) {i j k : Nat} {wj : Wrapper}
    (hf : free s i = true) (hj : s.wr j = some wj) (hp : wj.self = some (.env k))
    (hn : ownsReferencedObject wj.size = false) :
    let r := (step s (.copyCtor i j false)).1
    Inv r ∧ (∃ w', r.wr i = some w' ∧ w'.self = some (.env k) ∧ w'.size = wj.size) ∧
      r.wr j = some wj ∧ r.env = s.env := by
  intro r
  have hI : Inv r := inv_step h _ trivial
  refine ⟨hI, ?_⟩
  have hfn := free_none hf
  have hij : i ≠ j := by intro e; subst e; rw [hfn] at hj; cases hj
  have hji : j ≠ i := fun e => hij e.symm
  have hhas : has s j = true := by simp [has, hj]
  obtain ⟨_, hw1, hfr⟩ := newW_facts h.1 hfn (if s.cfg.socc = true then 0 else (getW s j).alloc)
    (getW s j).vtTy
  have hg1 : getW (newW s i (if s.cfg.socc = true then 0 else (getW s j).alloc) (getW s j).vtTy) j
      = wj := by
    have := hfr j hji
    simp only [getW] at this ⊢
    rw [this, hj]; rfl
  have hD := doCopyAssign_ref (s := newW s i (if s.cfg.socc = true then 0 else (getW s j).alloc)
    (getW s j).vtTy) i j false (p := .env k) (by rw [hg1]; exact hp) (by rw [hg1]; exact hn)
  have hr : r = (modW (newW s i (if s.cfg.socc = true then 0 else (getW s j).alloc) (getW s j).vtTy) i
      fun w => { w with size := wj.size, self := wj.self }) := by
    show (step s (.copyCtor i j false)).1 = _
    rw [step_runs_generated_programs]
    simp only [stepH, hf, hhas, Bool.and_self, ite_true, opCopyCtorWith, hD, hg1]
    rfl
  rw [hr]
  refine ⟨?_, ?_, ?_⟩
  · rw [modW_wr hw1, upd_same]
    exact ⟨_, rfl, hp, rfl⟩
  · rw [modW_wr_other _ _ _ hji, hfr j hji]; exact hj
  · exact (modW_fields _ _ _).2.2.2.2.2.2.1

/-- `throwing_copy_leaves_empty`: copy assignment from an owning, non-empty wrapper whose
    payload copy constructor throws yields the exception outcome; afterwards the invariant holds
    (so nothing was destroyed that was not constructed, and the storage obtained for the copy was
    returned), the target wrapper is empty (`self` null, buffer empty), no live block is
    recorded for it, and the source wrapper is untouched. -/
theorem throwing_copy_leaves_empty {s : State} (h : Inv s) {i j : Nat} {wi wj : Wrapper} {p : Loc}
    (hi : s.wr i = some wi) (hj : s.wr j = some wj) (hij : i ≠ j) (hp : wj.self = some p)
    (ho : ownsReferencedObject wj.size = true) :
    let r := step s (.copyAssign i j true)
    r.2 = .excCopy ∧ Inv r.1 ∧
      (∃ w', r.1.wr i = some w' ∧ w'.self = none ∧ w'.bufObj = none) ∧
      (∀ b, (r.1.blk b).live = true → (r.1.blk b).owner ≠ i) ∧ r.1.wr j = some wj := by
  intro r
  have hI : Inv r.1 := inv_step h _ trivial
  have hji : j ≠ i := fun e => hij e.symm
  obtain ⟨h1, ⟨w1, hw1, hs1, _⟩, hfr⟩ := inv_wCleanup h.1 hi
  have hj1 : (wCleanup s i).wr j = some wj := by rw [hfr j hji]; exact hj
  have h2 := invS_modW_empty h1 hw1 hs1
    (fun w => { w with vtTy := (getW (wCleanup s i) j).vtTy }) ⟨hs1, rfl⟩
  have hw2 := modW_wr hw1 (fun w => { w with vtTy := (getW (wCleanup s i) j).vtTy })
  have hj2 : (modW (wCleanup s i) i fun w => { w with vtTy := (getW (wCleanup s i) j).vtTy }).wr j
      = some wj := by rw [hw2, upd_ne _ _ hji]; exact hj1
  have hi2 : (modW (wCleanup s i) i fun w => { w with vtTy := (getW (wCleanup s i) j).vtTy }).wr i
      = some { w1 with vtTy := (getW (wCleanup s i) j).vtTy } := by rw [hw2]; simp
  obtain ⟨q1, q2, _, _⟩ := invS_doCopyAssign h2 hi2 hs1 hj2 hij true true
  have hg2 : getW (modW (wCleanup s i) i fun w => { w with vtTy := (getW (wCleanup s i) j).vtTy }) j
      = wj := by
    have := hj2
    simp only [getW] at this ⊢
    rw [this]; rfl
  have hexc := doCopyAssign_snd_exc (s := modW (wCleanup s i) i fun w =>
      { w with vtTy := (getW (wCleanup s i) j).vtTy }) true i j (p := p)
    (by rw [hg2]; exact hp) (by rw [hg2]; exact ho)
  have hr : r = Alpaqa.C16.doCopyAssign
      (modW (wCleanup s i) i fun w => { w with vtTy := (getW (wCleanup s i) j).vtTy })
      true i j true := by
    show step s (.copyAssign i j true) = _
    rw [step_runs_generated_programs]
    simp only [stepH, has, hi, hj, Option.isSome_some, Bool.and_self, ite_true, opCopyAssign, hij,
      ite_false]
  obtain ⟨w', r1, r2⟩ := q2 hexc
  have hb := (q1.wok i w' r1).1 r2
  rw [hr] at hI ⊢
  refine ⟨hexc, hI, ⟨w', r1, r2, hb⟩, ?_, ?_⟩
  · intro b hb' e
    obtain ⟨w2, hw2', hs2'⟩ := q1.blkOwner b hb'
    rw [e, r1] at hw2'; cases hw2'; rw [r2] at hs2'; cases hs2'
  · rw [doCopyAssign_wr_other hi2 j hji]; exact hj2

theorem step_del (s : State) (n : Nat) :
    (step s (.del n)).1 = if has s n = true then (opDel s n).1 else s := by
  rw [step_runs_generated_programs]
  simp only [stepH]
  split <;> rfl

/-- Destroying every wrapper of the pool keeps the invariant and empties the slots. -/
theorem inv_delAll {s : State} (h : Inv s) (n : Nat) :
    Inv (delAll s n) ∧ (∀ i, i < n → (delAll s n).wr i = none) ∧
      ∀ i, n ≤ i → (delAll s n).wr i = s.wr i := by
  induction n generalizing s with
  | zero => exact ⟨h, fun i hi => by omega, fun i _ => rfl⟩
  | succ n ih =>
    simp only [delAll, step_del]
    by_cases hh : has s n = true
    · obtain ⟨w, hw⟩ := has_some hh
      obtain ⟨hI, hn, hfr⟩ := inv_opDel h.1 hw
      obtain ⟨a, b, c⟩ := ih ⟨hI, invI_opDel h.1 h.2 hw⟩
      simp only [hh, ite_true]
      refine ⟨a, ?_, ?_⟩
      · intro i hi
        by_cases hin : i < n
        · exact b i hin
        · have : i = n := by omega
          subst this; rw [c i (Nat.le_refl _)]; exact hn
      · intro i hi; rw [c i (by omega)]; exact hfr i (by omega)
    · obtain ⟨a, b, c⟩ := ih h
      simp only [hh, Bool.false_eq_true, ite_false]
      refine ⟨a, ?_, fun i hi => c i (by omega)⟩
      intro i hi
      by_cases hin : i < n
      · exact b i hin
      · have : i = n := by omega
        subst this; rw [c i (Nat.le_refl _)]
        simpa [has] using hh

/-- `blocks_returned_to_origin`: from *any* state satisfying the invariant (hence after any
    operation sequence), once every wrapper of the pool has been destroyed, every block ever
    allocated is dead and was deallocated through an allocator that compares equal to the one
    that allocated it. -/
theorem blocks_returned_to_origin {s : State} (h : Inv s)
    (hpool : ∀ i, s.cfg.npool ≤ i → s.wr i = none) :
    let f := delAll s s.cfg.npool
    f.err = none ∧ ∀ b, b < f.nblk → (f.blk b).live = false ∧
      ∃ a, (f.blk b).freedBy = some a ∧ cls a = cls (f.blk b).alloc := by
  obtain ⟨hI, hz, hk⟩ := inv_delAll h s.cfg.npool
  refine ⟨hI.1.noErr, ?_⟩
  intro b hb
  have hl : ((delAll s s.cfg.npool).blk b).live = false := by
    cases hlv : ((delAll s s.cfg.npool).blk b).live with
    | false => rfl
    | true =>
      obtain ⟨w, hw, _⟩ := hI.1.blkOwner b hlv
      by_cases hi : ((delAll s s.cfg.npool).blk b).owner < s.cfg.npool
      · rw [hz _ hi] at hw; cases hw
      · rw [hk _ (by omega), hpool _ (by omega)] at hw; cases hw
  exact ⟨hl, hI.1.freedOk b hb hl⟩

/-- `construct_destroy_once`: from any state satisfying the invariant (hence after any operation
    sequence), once every wrapper of the pool has been destroyed, every payload id ever handed
    out has exactly one construction, and exactly one destruction — except the objects the
    environment still owns, which are alive with no destruction. -/
theorem construct_destroy_once {s : State} (h : Inv s)
    (hpool : ∀ i, s.cfg.npool ≤ i → s.wr i = none) :
    let f := delAll s s.cfg.npool
    f.err = none ∧ ∀ id, id < f.nextId → f.ccnt id = 1 ∧
      (f.dcnt id = 1 ∨ (f.dcnt id = 0 ∧ ∃ k o, f.env k = some o ∧ o.id = id)) := by
  obtain ⟨hI, hz, hk⟩ := inv_delAll h s.cfg.npool
  have hnone : ∀ i, (delAll s s.cfg.npool).wr i = none := by
    intro i
    by_cases hi : i < s.cfg.npool
    · exact hz i hi
    · rw [hk i (by omega)]; exact hpool i (by omega)
  refine ⟨hI.1.noErr, ?_⟩
  intro id hid
  refine ⟨by have := hI.2.ctorOnce id; simpa [hid] using this, ?_⟩
  cases hw : (delAll s s.cfg.npool).where_ id with
  | none =>
    left
    have := hI.2.idDead id hw
    simpa [hid] using this
  | some l =>
    right
    obtain ⟨_, hd, o, ho, hoid⟩ := hI.2.idLive id l hw
    refine ⟨hd, ?_⟩
    cases l with
    | buf i => simp [objAt, hnone i] at ho
    | blk b =>
      simp only [objAt] at ho
      cases hlv : ((delAll s s.cfg.npool).blk b).live with
      | false => rw [hI.1.deadEmpty b hlv] at ho; cases ho
      | true =>
        obtain ⟨w, hw', _⟩ := hI.1.blkOwner b hlv
        rw [hnone] at hw'; cases hw'
    | env k => exact ⟨k, o, by simpa [objAt] using ho, hoid⟩

/-! ### Whole histories from the initial pool: no side conditions left -/

/-- No operation sequence changes the configuration (small-buffer size, allocator traits, pool
    size). -/
theorem run_cfg (s : State) (ops : List Op) : (run s ops).cfg = s.cfg := by
  induction ops generalizing s with
  | nil => rfl
  | cons o r ih =>
    simp only [run]
    rw [ih, step_runs_generated_programs]; exact (stepH_shape s o).1

/-- No operation sequence puts a wrapper into a slot outside the pool. -/
theorem run_pool (s : State) (ops : List Op) (h : ∀ i, s.cfg.npool ≤ i → s.wr i = none) :
    ∀ i, (run s ops).cfg.npool ≤ i → (run s ops).wr i = none := by
  induction ops generalizing s with
  | nil => exact h
  | cons o r ih =>
    simp only [run]
    apply ih
    intro i hi
    rw [step_runs_generated_programs] at hi ⊢
    rw [(stepH_shape s o).1] at hi
    have := (stepH_shape s o).2 i hi (by rw [h i hi]; rfl)
    exact Option.not_isSome_iff_eq_none.mp (by rw [this]; simp)

/-- The environment's objects are the two the pool started with: object `k` lives in slot `k`. -/
def EnvIds (s : State) : Prop := ∀ k o, s.env k = some o → o.id = k ∧ k < 2

theorem envIds_init (cfg : Cfg) (a b : Nat) : EnvIds (initState cfg a b) := by
  intro k o h
  simp only [initState] at h
  split at h
  · rename_i e; subst e; cases h; exact ⟨rfl, by omega⟩
  · split at h
    · rename_i e; subst e; cases h; exact ⟨rfl, by omega⟩
    · cases h

theorem envIds_of_le {s s' : State} (h : EnvIds s) (hl : EnvLe s s') : EnvIds s' := by
  intro k o' ho'
  obtain ⟨o, ho, hid⟩ := hl k o' ho'
  have := h k o ho
  exact ⟨hid ▸ this.1, this.2⟩

/-- No operation sequence constructs in, or changes the identity of, the environment's objects. -/
theorem run_envIds {s : State} (h : EnvIds s) (ops : List Op) : EnvIds (run s ops) := by
  induction ops generalizing s with
  | nil => exact h
  | cons o r ih =>
    simp only [run]
    apply ih
    rw [step_runs_generated_programs]
    exact envIds_of_le h (envLe_stepH s o)

theorem delAll_envIds {s : State} (h : EnvIds s) (n : Nat) : EnvIds (delAll s n) := by
  induction n generalizing s with
  | zero => exact h
  | succ n ih =>
    simp only [delAll]
    apply ih
    rw [step_runs_generated_programs]
    exact envIds_of_le h (envLe_stepH s _)

/-- **`construct_destroy_once` / `blocks_returned_to_origin` for every history**: from the initial
    pool, after *any* operation sequence (any length; copies, moves, assignments incl.
    self-assignment and empty operands, throwing copy / value constructors, any allocator ids) and
    the destruction of every wrapper: no ghost-heap check ever failed; every payload id ever
    handed out was constructed exactly once and destroyed exactly once — except the two objects
    the environment owns (ids 0 and 1, still in their slots `env 0`, `env 1`, never destroyed by a
    wrapper); and every block ever allocated is dead and was deallocated through an allocator
    equal to (same arena as) the one that allocated it. -/
theorem construct_destroy_once_run (cfg : Cfg) (a b : Nat) (ha : ownsReferencedObject a = true)
    (hb : ownsReferencedObject b = true) (ops : List Op) (hv : ∀ op ∈ ops, validOp op) :
    let f := delAll (run (initState cfg a b) ops) cfg.npool
    f.err = none ∧
    (∀ id, id < f.nextId → f.ccnt id = 1 ∧
      (f.dcnt id = 1 ∨ (f.dcnt id = 0 ∧ id < 2 ∧ ∃ o, f.env id = some o ∧ o.id = id))) ∧
    ∀ b', b' < f.nblk → (f.blk b').live = false ∧
      ∃ a', (f.blk b').freedBy = some a' ∧ cls a' = cls (f.blk b').alloc := by
  have hI := inv_run (inv_init cfg a b ha hb) ops hv
  have hcfg : (run (initState cfg a b) ops).cfg = cfg := run_cfg _ ops
  have hpool := run_pool (initState cfg a b) ops (fun _ _ => rfl)
  have hE := delAll_envIds (run_envIds (envIds_init cfg a b) ops) cfg.npool
  have h1 := construct_destroy_once hI hpool
  have h2 := blocks_returned_to_origin hI hpool
  rw [hcfg] at h1 h2
  refine ⟨h1.1, ?_, h2.2⟩
  intro id hid
  obtain ⟨hc, hd⟩ := h1.2 id hid
  refine ⟨hc, ?_⟩
  rcases hd with hd | ⟨hd, k, o, hk, ho⟩
  · exact Or.inl hd
  · obtain ⟨e1, e2⟩ := hE k o hk
    have : k = id := by omega
    subst this
    exact Or.inr ⟨hd, e2, o, hk, ho⟩

/-! ### Allocator identity: every block goes back to the arena it came from

  An allocator instance is an id; `cls` is `operator==` (ids `2c`, `2c+1` are copies working on
  the same arena `c`, any other pair is unequal).  A block records which instance allocated it
  (`Block.alloc`) and which instance deallocated it (`Block.freedBy`).  The harness's tracking
  arenas count the same events. -/

/-- At every point of every history: each outstanding block is held by exactly the wrapper
    recorded as its owner, whose *current* allocator (after whatever propagation took place —
    `propagate_on_container_{copy,move}_assignment` true or false, allocator-extended
    constructors with equal or unequal allocators) belongs to the arena the block came from —
    so `deallocate` will hand it back there; and each block no longer outstanding *was* handed
    back through an allocator of its own arena. -/
theorem blocks_track_arena_run (cfg : Cfg) (a b : Nat) (ha : ownsReferencedObject a = true)
    (hb : ownsReferencedObject b = true) (ops : List Op) (hv : ∀ op ∈ ops, validOp op) :
    let s := run (initState cfg a b) ops
    ∀ b', b' < s.nblk →
      ((s.blk b').live = true →
        ∃ w, s.wr (s.blk b').owner = some w ∧ w.self = some (.blk b') ∧
          cls w.alloc = cls (s.blk b').alloc) ∧
      ((s.blk b').live = false →
        ∃ a', (s.blk b').freedBy = some a' ∧ cls a' = cls (s.blk b').alloc) := by
  intro s b' hb'
  have hI : Inv s := inv_run (inv_init cfg a b ha hb) ops hv
  refine ⟨fun hl => ?_, fun hl => hI.1.freedOk b' hb' hl⟩
  obtain ⟨w, hw, hs⟩ := hI.1.blkOwner b' hl
  exact ⟨w, hw, hs, ((hI.1.wok _ w hw).2.2.1 b' hs).2.2.2.2.2.1.symm⟩

theorem countIf_congr {n : Nat} {p q : Nat → Bool} (h : ∀ b, b < n → p b = q b) :
    countIf n p = countIf n q := by
  unfold countIf
  rw [List.filter_congr (fun x hx => h x (List.mem_range.mp hx))]

theorem countIf_false {n : Nat} {p : Nat → Bool} (h : ∀ b, b < n → p b = false) : countIf n p = 0 := by
  rw [countIf_congr (q := fun _ => false) h]
  simp [countIf]

/-- **Per-arena ledger, for every history**: after any operation sequence and the destruction of
    every wrapper, each arena `c` got back exactly the blocks it handed out, and none is
    outstanding. -/
theorem arena_ledger_balanced_run (cfg : Cfg) (a b : Nat) (ha : ownsReferencedObject a = true)
    (hb : ownsReferencedObject b = true) (ops : List Op) (hv : ∀ op ∈ ops, validOp op) (c : Nat) :
    let f := delAll (run (initState cfg a b) ops) cfg.npool
    arenaFrees f c = arenaAllocs f c ∧ arenaLive f c = 0 := by
  intro f
  obtain ⟨_, _, h3⟩ := construct_destroy_once_run cfg a b ha hb ops hv
  constructor
  · apply countIf_congr
    intro b' hb'
    obtain ⟨_, a', e1, e2⟩ := h3 b' hb'
    show (match (f.blk b').freedBy with | some a => cls a == c | none => false) = _
    rw [e1]; simp only [e2]; rfl
  · apply countIf_false
    intro b' hb'
    obtain ⟨e0, _⟩ := h3 b' hb'
    show ((f.blk b').live && _) = false
    rw [e0]; rfl

/-! ### Non-vacuity: every hypothesis of the theorems above instantiated on concrete histories -/

instance (op : Op) : Decidable (validOp op) := by
  cases op <;> simp only [validOp] <;> infer_instance

/-- outcomes of an operation sequence (for the examples) -/
def runOuts (s : State) : List Op → List Out
  | [] => []
  | o :: r => (step s o).2 :: runOuts (step s o).1 r

/-- A heap payload and a small payload are constructed, moved, copied, a const reference is
    made, everything is destroyed: both blocks were returned to an equal allocator, no ghost
    error, every object constructed and destroyed exactly once. -/
example :
    let s0 := initState ⟨32, false, true, false, 3⟩ 16 48
    let s := run s0 [.newInPlace 0 2 48 7 false, .newInPlace 1 0 16 5 false, .moveAssign 1 0,
                     .copyCtor 2 1 false, .del 0, .newPtr 0 1 0 true, .del 1]
    let f := finish s
    f.err = none ∧ badIds f = 0 ∧ badBlocks f = 0 ∧ f.nblk = 2 ∧ f.nextId = 5 := by decide

/-- A history with **throwing constructors** (`thr = true`: value constructor, copy from the
    environment, copy construction, copy assignment — twice), unequal stateful allocators
    (ids 2, 3: arena 1; ids 0, 1: arena 0), allocator-extended copy / move construction, move
    assignment between unequal allocators (re-allocation in the destination's arena) and a
    move out of the environment. -/
def exThrowOps : List Op :=
  [.newInPlace 0 2 48 7 false, .newInPlace 1 0 16 5 true, .newCopyEnv 1 3 1 true,
   .newCopyEnv 1 3 1 false, .copyCtor 2 0 true, .copyAssign 1 0 true, .get 1,
   .copyCtorAlloc 2 0 1 false, .moveAssign 0 2, .copyAssign 2 0 true, .del 1, .moveCtorAlloc 1 0 0,
   .get 1, .del 0, .newMoveEnv 0 0 0, .get 0]

/-- non-propagating allocators: the exceptions are reported, the throwing operations leave the
    target empty / non-existent, nothing leaks, each arena gets back what it handed out -/
example :
    let s0 := initState ⟨32, false, false, false, 3⟩ 16 48
    let f := finish (run s0 exThrowOps)
    runOuts s0 exThrowOps =
      [.ok, .excCtor, .excCopy, .ok, .excCopy, .excCopy, .empty, .ok, .ok, .excCopy, .ok, .ok,
       .val 6 7, .ok, .ok, .val 7 100] ∧
    f.err = none ∧ badIds f = 0 ∧ badBlocks f = 0 ∧ f.nblk = 9 ∧ f.nextId = 8 ∧
    arenaAllocs f 0 = 3 ∧ arenaFrees f 0 = 3 ∧ arenaAllocs f 1 = 6 ∧ arenaFrees f 1 = 6 ∧
    arenaLive f 0 = 0 ∧ arenaLive f 1 = 0 := by decide

/-- the same history with `propagate_on_container_{copy,move}_assignment = true` -/
example :
    let s0 := initState ⟨32, true, true, false, 3⟩ 16 48
    let f := finish (run s0 exThrowOps)
    runOuts s0 exThrowOps =
      [.ok, .excCtor, .excCopy, .ok, .excCopy, .excCopy, .empty, .ok, .ok, .excCopy, .ok, .ok,
       .val 4 7, .ok, .ok, .val 5 100] ∧
    f.err = none ∧ badIds f = 0 ∧ badBlocks f = 0 ∧ f.nblk = 7 ∧ f.nextId = 6 ∧
    arenaAllocs f 0 = 2 ∧ arenaFrees f 0 = 2 ∧ arenaAllocs f 1 = 5 ∧ arenaFrees f 1 = 5 ∧
    arenaLive f 0 = 0 ∧ arenaLive f 1 = 0 := by decide

/-- … and the whole-history theorems apply to it (`validOp` holds for every operation). -/
example := construct_destroy_once_run ⟨32, true, true, false, 3⟩ 16 48 (by decide) (by decide)
  exThrowOps (by decide)
example := arena_ledger_balanced_run ⟨32, false, false, false, 3⟩ 16 48 (by decide) (by decide)
  exThrowOps (by decide) 1
example := blocks_track_arena_run ⟨32, false, true, false, 3⟩ 16 48 (by decide) (by decide)
  exThrowOps (by decide)

/-- The REAL wrappers `TypeErasedProblem` / `TypeErasedControlProblem` have `small_buffer_size = 0`
    (the harness `static_assert`s it): the same history with `sbs = 0` — every payload, also the
    16-byte one, lives in a heap block (11 blocks instead of 9; the throwing 16-byte value
    constructor allocates block 1 and gives it back), and all the conclusions hold. -/
example :
    let s0 := initState ⟨0, false, false, false, 3⟩ 16 48
    let f := finish (run s0 exThrowOps)
    runOuts s0 exThrowOps =
      [.ok, .excCtor, .excCopy, .ok, .excCopy, .excCopy, .empty, .ok, .ok, .excCopy, .ok, .ok,
       .val 6 7, .ok, .ok, .val 7 100] ∧
    f.err = none ∧ badIds f = 0 ∧ badBlocks f = 0 ∧ f.nblk = 11 ∧ f.nextId = 8 ∧
    arenaAllocs f 0 = 5 ∧ arenaFrees f 0 = 5 ∧ arenaAllocs f 1 = 6 ∧ arenaFrees f 1 = 6 ∧
    arenaLive f 0 = 0 ∧ arenaLive f 1 = 0 := by decide

example := construct_destroy_once_run ⟨0, true, true, false, 3⟩ 16 48 (by decide) (by decide)
  exThrowOps (by decide)
example := arena_ledger_balanced_run ⟨0, false, false, true, 3⟩ 16 48 (by decide) (by decide)
  exThrowOps (by decide) 0
example := blocks_track_arena_run ⟨0, false, true, false, 3⟩ 16 48 (by decide) (by decide)
  exThrowOps (by decide)

/-- Non-vacuity of the hypotheses of `inv_init` / `validOp` for the sizes the harness uses. -/
example : ownsReferencedObject 16 = true ∧ ownsReferencedObject 32 = true ∧
    ownsReferencedObject 48 = true ∧ validOp (.newInPlace 0 0 48 7 false) :=
  ⟨by decide, by decide, by decide, by simp only [validOp]; decide⟩

/-- A reachable pool with a heap-stored owner (slot 0, allocator 2), a small-buffer owner (slot 1,
    allocator 0) and a mutable reference to environment object 0 (slot 2); slot 3 is free. -/
def exOps : List Op := [.newInPlace 0 2 48 7 false, .newInPlace 1 0 16 5 false, .newPtr 2 1 0 false]
def exS : State := run (initState ⟨32, true, false, false, 4⟩ 16 48) exOps
theorem exS_inv : Inv exS := inv_run (inv_init _ _ _ (by decide) (by decide)) exOps (by decide)
def exW0 : Wrapper := ⟨some (.blk 0), 48, 2, 48, none⟩
def exW1 : Wrapper := ⟨some (.buf 1), 16, 0, 16, some ⟨3, 5, 16⟩⟩
def exW2 : Wrapper := ⟨some (.env 0), mutRefSize, 1, 16, none⟩

/-- `dispatch_own_object`, `owners_disjoint`, `set_is_local` on two distinct owners -/
example := dispatch_own_object exS_inv (i := 0) (w := exW0) (p := .blk 0) (by decide) rfl
example : Loc.blk 0 ≠ Loc.buf 1 ∧
    ∀ a b, objAt exS (.blk 0) = some a → objAt exS (.buf 1) = some b → a.id ≠ b.id :=
  owners_disjoint exS_inv (i := 0) (j := 1) (wi := exW0) (wj := exW1) (by decide) (by decide)
    (by decide) (by decide) (by decide) rfl rfl
example : (opGet (opSet exS 0 9).1 1).2 = (opGet exS 1).2 :=
  set_is_local exS_inv (i := 0) (j := 1) (wi := exW0) (wj := exW1) (p := .blk 0) (q := .buf 1)
    (by decide) (by decide) (by decide) (by decide) (by decide) rfl rfl 9
example : (opGet (opSet exS 0 9).1 1).2 = .val 3 5 ∧ (opGet (opSet exS 0 9).1 0).2 = .val 2 9 := by
  decide

/-- `refs_alias`, `copy_of_ref_aliases` on the reference in slot 2 -/
example : ∃ k o, Loc.env 0 = .env k ∧ exS.env k = some o ∧ (opGet exS 2).2 = .val o.id o.val :=
  refs_alias exS_inv (i := 2) (w := exW2) (p := .env 0) (by decide) rfl (by decide)
example := copy_of_ref_aliases exS_inv (i := 3) (j := 2) (k := 0) (wj := exW2) (by decide)
  (by decide) rfl (by decide)
/-- a write through the copy of the reference is seen through the original -/
example :
    let r := (step exS (.copyCtor 3 2 false)).1
    (opGet (opSet r 3 55).1 2).2 = .val 0 55 := by decide

/-- `copies_independent`: copy of the heap-stored owner (slot 0) into the free slot 3 -/
example := copies_independent exS_inv (i := 3) (j := 0) (wj := exW0) (p := .blk 0) (o := ⟨2, 7, 48⟩)
  (by decide) (by decide) rfl (by decide) (by decide)

/-- `throwing_copy_leaves_empty`, `const_violation_throws`: all hypotheses on concrete values -/
example := throwing_copy_leaves_empty exS_inv (i := 1) (j := 0) (wi := exW1) (wj := exW0)
  (p := .blk 0) (by decide) (by decide) (by decide) rfl (by decide)
example :
    let s := (step exS (.newPtr 3 0 1 true)).1
    opSet s 3 7 = (s, .excConst) :=
  const_violation_throws _ 3 7 ⟨some (.env 1), constRefSize, 0, 48, none⟩ (.env 1) (by decide) rfl
    (by decide)

end Alpaqa.Props.C16
