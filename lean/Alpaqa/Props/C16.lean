/-
  C16 — Type-erased containers have value semantics under any copy/move/assign history.

  Three layers, all about definitions that are either regenerated from util/type-erasure.hpp on
  every run (`Alpaqa/Gen/C16.lean`) or are the executable model the driver runs against the real
  code (`Alpaqa/Model/C16.lean`):

  1. `shape_*`      — the order of lifetime actions of every copy/move/assign/cleanup path of the
                      C++ (regenerated table) equals the order the model implements (decide).
  2. predicate / guard theorems about the regenerated decision predicates the lifetime logic
     hinges on (sentinels, ownership, const-ness, the four small-buffer comparisons, the guards
     in front of non-const dispatch), and `const_violation_throws`, `dispatch_own_object`.
  3. the structural invariant `Inv` of the pool over the checked ghost heap, proved preserved
     (no bound on the history) by the operations listed at `inv_step_partial`; see the comment
     there for the full statement and what is missing.
-/
import Alpaqa.Gen.C16
import Alpaqa.Model.C16

namespace Alpaqa.Props.C16
open Alpaqa.Gen.C16 Alpaqa.C16

/-! ### 1. The C++ (regenerated) follows the action order the model implements -/

theorem shape_copyCtor : copyCtor = expectedCopyCtor := by decide
theorem shape_copyCtorAlloc : copyCtorAlloc = expectedCopyCtorAlloc := by decide
theorem shape_copyAssign : copyAssign = expectedCopyAssign := by decide
theorem shape_moveCtor : moveCtor = expectedMoveCtor := by decide
theorem shape_moveCtorAlloc : moveCtorAlloc = expectedMoveCtorAlloc := by decide
theorem shape_moveAssign : moveAssign = expectedMoveAssign := by decide
theorem shape_cleanup : cleanupFn = expectedCleanup := by decide
theorem shape_deallocate : deallocateFn = expectedDeallocate := by decide
theorem shape_allocate : allocateFn = expectedAllocate := by decide
theorem shape_doCopyAssign : Gen.C16.doCopyAssign = expectedDoCopyAssign := by decide
theorem shape_constructInplace :
    constructInplacePtr = expectedConstructInplacePtr ∧
    constructInplaceObj = expectedConstructInplaceObj := by decide

/-- Every path of every lifetime function that move-constructs out of `other` also destroys the
    moved-from object and then resets `other.self` (by `nullOther` or through `other.deallocate()`),
    and every path that steals the pointer does so with `exchange(…, nullptr)`. -/
theorem moved_from_is_destroyed_and_nulled :
    ∀ p ∈ moveCtor ++ moveCtorAlloc ++ moveAssign,
      (.moveConstruct ∈ p.acts → .destroyOther ∈ p.acts ∧
        (.nullOther ∈ p.acts ∨ .otherDeallocate ∈ p.acts)) ∧ .aliasPtr ∉ p.acts := by decide

/-- `cleanup` destroys before it deallocates, and `deallocate` nulls `self` on both paths. -/
theorem cleanup_destroys_then_frees :
    (∀ p ∈ cleanupFn, p.acts = [] ∨ p.acts = [.nullSelf] ∨ p.acts = [.destroySelf, .selfDeallocate]) ∧
    (∀ p ∈ deallocateFn, .nullSelf ∈ p.acts) := by decide

/-! ### 2. Decision predicates (regenerated from the C++) -/

/-- The three sentinels are pairwise distinct. -/
theorem sentinels_distinct :
    invalidSize ≠ mutRefSize ∧ invalidSize ≠ constRefSize ∧ mutRefSize ≠ constRefSize := by decide

/-- A size indicates ownership iff it is neither reference sentinel. -/
theorem owns_iff (size : Nat) :
    ownsReferencedObject size = true ↔ size ≠ constRefSize ∧ size ≠ mutRefSize := by
  simp [ownsReferencedObject, sizeIndicatesOwnership]

/-- Pointer construction yields a non-owning size whose const flag is the pointee's. -/
theorem refSize_spec (c : Bool) :
    ownsReferencedObject (refSize c) = false ∧ referencedObjectIsConst (refSize c) = c := by
  cases c <;> decide

/-- A const-referencing size never indicates ownership; the moved-from / default size does. -/
theorem const_not_owning (size : Nat) (h : referencedObjectIsConst size = true) :
    ownsReferencedObject size = false := by
  simp [referencedObjectIsConst, sizeIndicatesConst] at h
  subst h; decide

theorem invalid_owns : ownsReferencedObject invalidSize = true ∧
    referencedObjectIsConst invalidSize = false := by decide

/-- The comparison used by `deallocate` and by the three move paths is the exact complement of the
    one used by `allocate`: storage obtained from the allocator is the storage returned to it /
    stolen, storage in the small buffer is never passed to an allocator. -/
theorem large_iff_not_small (sz sbs : Nat) :
    deallocateUsesAllocator sz sbs = !allocateUsesSmallBuffer sz sbs ∧
    moveCtorLarge sz sbs = !allocateUsesSmallBuffer sz sbs ∧
    moveCtorAllocLarge sz sbs = !allocateUsesSmallBuffer sz sbs ∧
    moveAssignLarge sz sbs = !allocateUsesSmallBuffer sz sbs := by
  simp only [deallocateUsesAllocator, moveCtorLarge, moveCtorAllocLarge, moveAssignLarge,
    allocateUsesSmallBuffer]
  by_cases h : sz ≤ sbs <;> simp [h] <;> omega

/-- The sentinels are larger than any buffer that fits the address space below them, so a stale
    sentinel in `size` is never mistaken for small-buffer storage. -/
theorem sentinels_not_small (sbs : Nat) (h : sbs < invalidSize) :
    allocateUsesSmallBuffer invalidSize sbs = false ∧ allocateUsesSmallBuffer mutRefSize sbs = false ∧
    allocateUsesSmallBuffer constRefSize sbs = false := by
  simp only [allocateUsesSmallBuffer, invalidSize, mutRefSize, constRefSize] at *
  refine ⟨?_, ?_, ?_⟩ <;> (apply decide_eq_false; omega)

example : allocateUsesSmallBuffer 32 32 = true ∧ allocateUsesSmallBuffer 33 32 = false ∧
    moveAssignLarge 32 32 = false ∧ moveAssignLarge 33 32 = true := by decide

/-- All non-const `call` overloads are guarded, no const one is. -/
theorem call_guards : nonConstCallGuards.all id = true ∧ constCallGuards.any id = false := by decide

/-- `as<T>() &` checks the type, then const-ness, then delivers; `get_pointer` checks const-ness. -/
theorem accessor_guards : asMut = [.typeCheck, .constCheck, .deliver] ∧
    asConst = [.typeCheck, .deliver] ∧ getPointer = [.constCheck, .deliver] := by decide

/-! ### `const_violation_throws` -/

/-- A non-const call through a wrapper that references a const object yields the exception
    outcome and performs nothing: the state (objects, log) is unchanged. -/
theorem const_violation_throws (s : State) (i v : Nat) (w : Wrapper) (p : Loc)
    (hw : s.wr i = some w) (hs : w.self = some p) (hc : referencedObjectIsConst w.size = true) :
    opSet s i v = (s, .excConst) := by
  simp [opSet, getW, hw, hs, hc, call_guards.1]

/-- Same for mutable `as<T>()` (when the type matches) and for `get_pointer()`. -/
theorem const_violation_throws_as (s : State) (i : Nat) (w : Wrapper) (p : Loc)
    (hw : s.wr i = some w) (hs : w.self = some p) (hc : referencedObjectIsConst w.size = true) :
    opAccess s asMut i w.vtTy = (s, .excConst) ∧ opAccess s getPointer i w.vtTy = (s, .excConst) := by
  simp [opAccess, getW, hw, hs, hc, accessor_guards.1, accessor_guards.2.2, runGuards]

/-- … and a type mismatch is reported as such, before anything else. -/
theorem type_violation_throws (s : State) (i ty : Nat) (w : Wrapper) (p : Loc)
    (hw : s.wr i = some w) (hs : w.self = some p) (ht : w.vtTy ≠ ty) :
    opAccess s asMut i ty = (s, .excType) ∧ opAccess s asConst i ty = (s, .excType) := by
  simp [opAccess, getW, hw, hs, ht, accessor_guards.1, accessor_guards.2.1, runGuards]

/-- Non-vacuity: a pool whose slot 0 holds a const reference to environment object 0. -/
example :
    let s := (step (initState ⟨32, false, false, false, 3⟩ 16 48) (.newPtr 0 0 0 true)).1
    (step s (.set 0 7)).2 = .excConst ∧ (step s (.get 0)).2 = .val 0 100 ∧
    (step s (.asMut 0 16)).2 = .excConst ∧ (step s (.asConst 0 16)).2 = .val 0 100 ∧
    (step s (.asConst 0 48)).2 = .excType := by decide

/-! ### 3. Structural invariant of the pool over the ghost heap -/

/-- What slot `i`'s wrapper must satisfy: empty ⇒ its buffer holds nothing; pointing into a
    small buffer ⇒ it is its *own* buffer, which holds a live object, and the size says
    "owned, small"; pointing to a block ⇒ the block is live, recorded for this slot, allocated by
    an allocator equal to the one this wrapper will deallocate with, holds a live object, and
    the size says "owned, large"; pointing outside ⇒ size says "not owned" and the target lives. -/
def WOk (s : State) (i : Nat) (w : Wrapper) : Prop :=
  (w.self = none → w.bufObj = none) ∧
  (∀ j, w.self = some (.buf j) → j = i ∧ w.bufObj.isSome = true ∧
      ownsReferencedObject w.size = true ∧ allocateUsesSmallBuffer w.size s.cfg.sbs = true) ∧
  (∀ b, w.self = some (.blk b) → w.bufObj = none ∧ ownsReferencedObject w.size = true ∧
      allocateUsesSmallBuffer w.size s.cfg.sbs = false ∧ (s.blk b).live = true ∧
      (s.blk b).owner = i ∧ cls (s.blk b).alloc = cls w.alloc ∧ (s.blk b).obj.isSome = true) ∧
  (∀ k, w.self = some (.env k) → w.bufObj = none ∧ ownsReferencedObject w.size = false ∧
      (s.env k).isSome = true)

structure Inv (s : State) : Prop where
  /-- no ghost-heap check has failed: no double destroy, no destroy of an unconstructed object,
      no construction over a live object, no double free, no free through an unequal allocator,
      no dangling dispatch, no wrapper storage released with a live payload -/
  noErr : s.err = none
  wok : ∀ i w, s.wr i = some w → WOk s i w
  /-- every live block is pointed to by the wrapper recorded as its owner (no leak; together
      with `wok` two wrappers never point to the same block) -/
  blkOwner : ∀ b, (s.blk b).live = true →
    ∃ w, s.wr (s.blk b).owner = some w ∧ w.self = some (.blk b)
  deadEmpty : ∀ b, (s.blk b).live = false → (s.blk b).obj = none
  fresh : ∀ b, s.nblk ≤ b → (s.blk b).live = false
  /-- a block that is no longer live was returned through an allocator equal to its origin -/
  freedOk : ∀ b, b < s.nblk → (s.blk b).live = false →
    ∃ a, (s.blk b).freedBy = some a ∧ cls a = cls (s.blk b).alloc

theorem inv_init (cfg : Cfg) (a b : Nat) : Inv (initState cfg a b) := by
  constructor <;> simp [initState, deadBlock]

/-- Two distinct slots never point to the same heap block. -/
theorem blocks_not_shared {s : State} (h : Inv s) {i j b : Nat} {wi wj : Wrapper}
    (hi : s.wr i = some wi) (hj : s.wr j = some wj)
    (si : wi.self = some (.blk b)) (sj : wj.self = some (.blk b)) : i = j := by
  have a := ((h.wok i wi hi).2.2.1 b si).2.2.2.2.1
  have c := ((h.wok j wj hj).2.2.1 b sj).2.2.2.2.1
  omega

/-- No wrapper's `self` points into another wrapper's small buffer. -/
theorem buffers_not_shared {s : State} (h : Inv s) {i j : Nat} {w : Wrapper}
    (hi : s.wr i = some w) (si : w.self = some (.buf j)) : j = i :=
  ((h.wok i w hi).2.1 j si).1

/-- `dispatch_own_object`: under the invariant a call through a non-empty wrapper is never
    dangling; it reaches the object living in the wrapper's own buffer, in the block this slot
    owns, or the referenced environment object — and returns that object's id and value. -/
theorem dispatch_own_object {s : State} (h : Inv s) {i : Nat} {w : Wrapper} {p : Loc}
    (hw : s.wr i = some w) (hs : w.self = some p) :
    ∃ o, objAt s p = some o ∧ (opGet s i).2 = .val o.id o.val ∧ (opGet s i).1.err = none ∧
      (match p with
       | .buf j => j = i ∧ w.bufObj = some o
       | .blk b => (s.blk b).owner = i ∧ (s.blk b).live = true
       | .env _ => ownsReferencedObject w.size = false) := by
  have k := h.wok i w hw
  cases p with
  | buf j =>
    obtain ⟨rfl, h2, _, _⟩ := k.2.1 j hs
    obtain ⟨o, ho⟩ := Option.isSome_iff_exists.mp h2
    exact ⟨o, by simp [objAt, hw, ho], by simp [opGet, deref, getW, hw, hs, objAt, ho],
      by simp [opGet, deref, getW, hw, hs, objAt, ho, emit, h.noErr], rfl, ho⟩
  | blk b =>
    obtain ⟨_, _, _, h5, h6, _, h8⟩ := k.2.2.1 b hs
    obtain ⟨o, ho⟩ := Option.isSome_iff_exists.mp h8
    exact ⟨o, by simp [objAt, ho], by simp [opGet, deref, getW, hw, hs, objAt, ho],
      by simp [opGet, deref, getW, hw, hs, objAt, ho, emit, h.noErr], h6, h5⟩
  | env k' =>
    obtain ⟨_, h3, h4⟩ := k.2.2.2 k' hs
    obtain ⟨o, ho⟩ := Option.isSome_iff_exists.mp h4
    exact ⟨o, by simp [objAt, ho], by simp [opGet, deref, getW, hw, hs, objAt, ho],
      by simp [opGet, deref, getW, hw, hs, objAt, ho, emit, h.noErr], h3⟩

/-! #### Frame lemmas -/

/-- `Inv` does not read the ghost counters, ids or the log. -/
theorem inv_ghost {s s' : State} (h : Inv s) (h1 : s'.cfg = s.cfg) (h2 : s'.wr = s.wr)
    (h3 : s'.blk = s.blk) (h4 : s'.env = s.env) (h5 : s'.nblk = s.nblk) (h6 : s'.err = s.err) :
    Inv s' := by
  obtain ⟨a, b, c, d, e, f⟩ := h
  constructor
  · rw [h6]; exact a
  · intro i w hw; rw [h2] at hw; have := b i w hw; simpa [WOk, h1, h3, h4] using this
  · intro b' hb; rw [h3] at hb ⊢; rw [h2]; exact c b' hb
  · intro b'; rw [h3]; exact d b'
  · intro b'; rw [h3, h5]; exact e b'
  · intro b'; rw [h3, h5]; exact f b'

/-- Replace the wrapper of slot `i` (or create it) by one that is fine w.r.t. the *same* heap and
    still points to every live block recorded for slot `i`. -/
theorem inv_setSlot {s : State} (h : Inv s) {i : Nat} (w' : Wrapper) (hok : WOk s i w')
    (hblk : ∀ b, (s.blk b).live = true → (s.blk b).owner = i → w'.self = some (.blk b)) :
    Inv { s with wr := upd s.wr i (some w') } := by
  obtain ⟨a, b, c, d, e, f⟩ := h
  constructor
  · exact a
  · intro j w hj
    simp only [upd] at hj
    split at hj
    · cases hj; subst_vars; exact hok
    · exact b j w hj
  · intro b' hb
    obtain ⟨w, hw1, hw2⟩ := c b' hb
    by_cases ho : (s.blk b').owner = i
    · exact ⟨w', by simp [upd, ho], hblk b' hb ho⟩
    · exact ⟨w, by simp [upd, ho, hw1], hw2⟩
  · exact d
  · exact e
  · exact f

/-- The owner wrapper of a live block recorded for slot `i` is the wrapper in slot `i`. -/
theorem owner_points {s : State} (h : Inv s) {i b : Nat} {w : Wrapper} (hw : s.wr i = some w)
    (hb : (s.blk b).live = true) (ho : (s.blk b).owner = i) : w.self = some (.blk b) := by
  obtain ⟨w2, h1, h2⟩ := h.blkOwner b hb
  rw [ho, hw] at h1; cases h1; exact h2

/-- A wrapper whose `self` is null (and buffer empty) can go away. -/
theorem inv_dropSlot {s : State} (h : Inv s) {i : Nat} {w : Wrapper} (hw : s.wr i = some w)
    (hs : w.self = none) : Inv { s with wr := upd s.wr i none } := by
  have hp := fun b hb ho => owner_points h hw (b := b) hb ho
  obtain ⟨a, b, c, d, e, f⟩ := h
  constructor
  · exact a
  · intro j w2 hj
    simp only [upd] at hj
    split at hj
    · cases hj
    · exact b j w2 hj
  · intro b' hb
    obtain ⟨w2, hw1, hw2⟩ := c b' hb
    by_cases ho : (s.blk b').owner = i
    · have := hp b' hb ho; rw [hs] at this; cases this
    · exact ⟨w2, by simp [upd, ho, hw1], hw2⟩
  · exact d
  · exact e
  · exact f

/-- Free the block slot `i` points to (after its object is gone) and null `self`. -/
theorem inv_freeBlock {s : State} (h : Inv s) {i b : Nat} {w : Wrapper} (hw : s.wr i = some w)
    (hs : w.self = some (.blk b)) (B : Block) (hB : B.live = false) (hO : B.obj = none)
    (hF : ∃ a, B.freedBy = some a ∧ cls a = cls B.alloc) :
    Inv { s with wr := upd s.wr i (some { w with self := none }), blk := upd s.blk b B } := by
  have hk := (h.wok i w hw).2.2.1 b hs
  have hns : ∀ {j w2}, s.wr j = some w2 → w2.self = some (.blk b) → j = i :=
    fun hj sj => blocks_not_shared h hj hw sj hs
  have hp := fun b' hb ho => owner_points h hw (b := b') hb ho
  obtain ⟨a, bb, c, d, e, f⟩ := h
  constructor
  · exact a
  · intro j w2 hj
    simp only [upd] at hj
    split at hj
    · cases hj
      refine ⟨fun _ => hk.1, ?_, ?_, ?_⟩ <;> intro x hx <;> simp at hx
    · rename_i hne
      have k2 := bb j w2 hj
      refine ⟨k2.1, k2.2.1, ?_, k2.2.2.2⟩
      intro b' hb'
      have hbb : b' ≠ b := by
        intro e'; subst e'; exact hne (hns hj hb')
      simpa [upd, hbb] using k2.2.2.1 b' hb'
  · intro b' hb
    by_cases hbb : b' = b
    · subst hbb; simp [upd, hB] at hb
    · simp only [upd, hbb, if_false] at hb ⊢
      obtain ⟨w2, hw1, hw2⟩ := c b' hb
      by_cases ho : (s.blk b').owner = i
      · have := hp b' hb ho; rw [hs] at this; cases this; exact absurd rfl hbb
      · exact ⟨w2, by simp [ho, hw1], hw2⟩
  · intro b' hb
    by_cases hbb : b' = b
    · subst hbb; simp [upd, hO]
    · simp only [upd, hbb, if_false] at hb ⊢; exact d b' hb
  · intro b' hb
    by_cases hbb : b' = b
    · subst hbb; simp [upd, hB]
    · simp only [upd, hbb, if_false]; exact e b' hb
  · intro b' hb hl
    by_cases hbb : b' = b
    · subst hbb; simpa [upd] using hF
    · simp only [upd, hbb, if_false] at hl ⊢; exact f b' hb hl

@[simp] theorem upd_same {β} (f : Nat → β) (i : Nat) (v : β) : upd f i v i = v := by simp [upd]

theorem upd_upd {β} (f : Nat → β) (i : Nat) (a b : β) : upd (upd f i a) i b = upd f i b := by
  funext j; simp only [upd]; split <;> rfl

/-- `cleanup()` keeps the invariant and leaves the wrapper empty (buffer empty, `self` null);
    other slots are untouched. -/
theorem inv_wCleanup {s : State} (h : Inv s) {i : Nat} {w : Wrapper} (hw : s.wr i = some w) :
    Inv (wCleanup s i) ∧ (∃ w', (wCleanup s i).wr i = some w' ∧ w'.self = none ∧
      w'.alloc = w.alloc) ∧ ∀ j, j ≠ i → (wCleanup s i).wr j = s.wr j := by
  have hk := h.wok i w hw
  cases hs : w.self with
  | none =>
    have hb := hk.1 hs
    by_cases ho : ownsReferencedObject w.size = true
    · simp only [wCleanup, getW, hw, Option.getD_some, ho, hs]
      exact ⟨by simpa using h, ⟨w, by simpa using hw, hs, rfl⟩, fun j _ => by simp⟩
    · simp only [wCleanup, getW, hw, Option.getD_some, ho, modW]
      have ho' : ownsReferencedObject w.size = false := by simpa using ho
      simp only [Bool.not_false, ite_true]
      refine ⟨?_, ⟨_, upd_same _ _ _, rfl, rfl⟩, fun j hj => by simp [upd, hj]⟩
      apply inv_setSlot h
      · exact ⟨fun _ => hb, by simp, by simp, by simp⟩
      · intro b hb' ho'; have := owner_points h hw hb' ho'; rw [hs] at this; cases this
  | some p =>
    cases p with
    | buf j =>
      obtain ⟨rfl, h2, h3, h4⟩ := hk.2.1 j hs
      obtain ⟨o, ho⟩ := Option.isSome_iff_exists.mp h2
      have hd : deallocateUsesAllocator w.size s.cfg.sbs = false := by
        rw [(large_iff_not_small _ _).1, h4]; rfl
      simp only [wCleanup, getW, hw, Option.getD_some, h3, hs, destroyAt, objAt, ho, setObj, modW,
        emit, wDeallocate, upd_same, hd, upd_upd, Bool.not_true, Bool.false_eq_true, ite_false]
      refine ⟨?_, ⟨{ w with self := none, bufObj := none }, rfl, rfl, rfl⟩,
        fun j hj => by simp [upd, hj]⟩
      have hI := inv_setSlot h (i := j) { w with self := none, bufObj := none }
        ⟨fun _ => rfl, by simp, by simp, by simp⟩
        (by intro b hb' ho'; have := owner_points h hw hb' ho'; rw [hs] at this; cases this)
      exact inv_ghost hI rfl rfl rfl rfl rfl rfl
    | blk b =>
      obtain ⟨h2, h3, h4, h5, h6, h7, h8⟩ := hk.2.2.1 b hs
      obtain ⟨o, ho⟩ := Option.isSome_iff_exists.mp h8
      have hd : deallocateUsesAllocator w.size s.cfg.sbs = true := by
        rw [(large_iff_not_small _ _).1, h4]; rfl
      simp only [wCleanup, getW, hw, Option.getD_some, h3, hs, destroyAt, objAt, ho, setObj, modW,
        emit, wDeallocate, upd_same, hd, upd_upd, heapFree, h5, h7, Bool.not_true,
        Bool.false_eq_true, ite_false, ite_true, bne_self_eq_false, Option.isSome_none]
      refine ⟨?_, ⟨{ w with self := none }, rfl, rfl, rfl⟩, fun j hj => by simp [upd, hj]⟩
      have hI := inv_freeBlock h hw hs
        ⟨(s.blk b).alloc, (s.blk b).size, false, none, (s.blk b).owner, some w.alloc⟩ rfl rfl
        ⟨w.alloc, rfl, h7.symm⟩
      exact inv_ghost hI rfl rfl rfl rfl rfl rfl
    | env k =>
      obtain ⟨h2, h3, h4⟩ := hk.2.2.2 k hs
      simp only [wCleanup, getW, hw, Option.getD_some, h3, modW, Bool.not_false, ite_true]
      refine ⟨?_, ⟨_, upd_same _ _ _, rfl, rfl⟩, fun j hj => by simp [upd, hj]⟩
      apply inv_setSlot h
      · exact ⟨fun _ => h2, by simp, by simp, by simp⟩
      · intro b hb' ho'; have := owner_points h hw hb' ho'; rw [hs] at this; cases this

/-- Destroying a wrapper (`~TypeErased`: cleanup, then the storage goes away). -/
theorem inv_opDel {s : State} (h : Inv s) {i : Nat} {w : Wrapper} (hw : s.wr i = some w) :
    Inv (opDel s i).1 ∧ (opDel s i).1.wr i = none ∧ ∀ j, j ≠ i → (opDel s i).1.wr j = s.wr j := by
  obtain ⟨hI, ⟨w', hw', hs', _⟩, hfr⟩ := inv_wCleanup h hw
  have hb := (hI.wok i w' hw').1 hs'
  simp only [opDel, dropW, getW, hw', Option.getD_some, hb, hs', Option.isSome_none,
    Bool.false_eq_true, ite_false]
  exact ⟨inv_dropSlot hI hw' hs', by simp, fun j hj => by simp [upd, hj, hfr j hj]⟩

theorem inv_emit {s : State} (h : Inv s) (e : Ev) : Inv (emit s e) :=
  inv_ghost h rfl rfl rfl rfl rfl rfl

theorem inv_newW {s : State} (h : Inv s) {i : Nat} (hf : s.wr i = none) (w' : Wrapper)
    (hok : WOk s i w') : Inv { s with wr := upd s.wr i (some w') } := by
  apply inv_setSlot h w' hok
  intro b hb ho
  obtain ⟨w, hw1, _⟩ := h.blkOwner b hb
  rw [ho, hf] at hw1; cases hw1

theorem inv_deref {s : State} (h : Inv s) {i : Nat} {w : Wrapper} (hw : s.wr i = some w) :
    Inv (deref s w).1 := by
  cases hs : w.self with
  | none => simpa [deref, hs] using h
  | some p =>
    obtain ⟨o, ho, _, _, _⟩ := dispatch_own_object h hw hs
    simpa [deref, hs, ho] using inv_emit h _

theorem inv_opAccess {s : State} (h : Inv s) (gs : List Guard) {i : Nat} (ty : Nat) {w : Wrapper}
    (hw : s.wr i = some w) : Inv (opAccess s gs i ty).1 := by
  simp only [opAccess, getW, hw, Option.getD_some]
  split
  · exact h
  · split
    · exact inv_deref h hw
    · exact h

/-- The operations for which preservation of `Inv` is proved here. -/
def proved : Op → Bool
  | .newDefault .. | .newPtr .. | .del _ | .get _ | .asMut .. | .asConst .. | .getPtr _ => true
  | .copyAssign i j _ => i == j
  | .moveAssign i j => i == j
  | _ => false

/-- **Partial.**  `Inv` is preserved by wrapper destruction (`cleanup()` on every storage shape:
    empty, small buffer, heap block, reference — the path every assignment starts with),
    default / pointer construction, const and non-const accessors, and self-assignment.

    Full statement (not reached in this file; the remaining operations are tied to the real code by
    event-log correspondence and checked by the monitors only):
      `theorem inv_step (h : Inv s) (op : Op) : Inv (step s op).1`
      `theorem inv_run (h : Inv s) (ops : List Op) : Inv (run s ops)`
    Missing: the preservation lemmas for `doCopyAssign` (guarded allocate / copy-construct /
    release, incl. the throwing branch), `steal`, `moveSmall`, `moveRealloc` and for `opSet`,
    i.e. the ops `newInPlace newCopyEnv newMoveEnv copyCtor copyCtorAlloc moveCtor moveCtorAlloc
    copyAssign moveAssign set`; and the id-level conjuncts (`where_`, `dcnt`) needed for
    `construct_destroy_once`.  The frame lemmas `inv_setSlot`, `inv_freeBlock`, `inv_ghost` above
    are the ones those proofs need. -/
theorem inv_step_partial {s : State} (h : Inv s) (op : Op) (hp : proved op = true) :
    Inv (step s op).1 := by
  cases op <;> simp only [proved, Bool.false_eq_true] at hp
  case newDefault i a =>
    simp only [step]; split
    · rename_i hf
      simp only [free, Bool.and_eq_true, Option.isNone_iff_eq_none] at hf
      exact inv_newW h hf.2 _ ⟨fun _ => rfl, by simp [blankW], by simp [blankW], by simp [blankW]⟩
    · exact h
  case newPtr i a k c =>
    simp only [step]; split
    · rename_i hf
      simp only [free, Bool.and_eq_true, Option.isNone_iff_eq_none] at hf
      simp only [opNewPtr]
      cases he : s.env k with
      | none => exact h
      | some o =>
        simp only [newW, modW, upd_same, upd_upd]
        apply inv_newW h hf.2
        refine ⟨by simp, by simp, by simp, ?_⟩
        intro k' hk'
        simp only [Option.some.injEq, Loc.env.injEq] at hk'
        subst hk'
        exact ⟨rfl, (refSize_spec c).1, by simp [he]⟩
    · exact h
  case del i =>
    simp only [step]; split
    · rename_i hh
      obtain ⟨w, hw⟩ := Option.isSome_iff_exists.mp hh
      exact (inv_opDel h hw).1
    · exact h
  case get i =>
    simp only [step]; split
    · rename_i hh
      obtain ⟨w, hw⟩ := Option.isSome_iff_exists.mp hh
      simpa [opGet, getW, hw] using inv_deref h hw
    · exact h
  case asMut i ty =>
    simp only [step]; split
    · rename_i hh
      obtain ⟨w, hw⟩ := Option.isSome_iff_exists.mp hh
      exact inv_opAccess h _ _ hw
    · exact h
  case asConst i ty =>
    simp only [step]; split
    · rename_i hh
      obtain ⟨w, hw⟩ := Option.isSome_iff_exists.mp hh
      exact inv_opAccess h _ _ hw
    · exact h
  case getPtr i =>
    simp only [step]; split
    · rename_i hh
      obtain ⟨w, hw⟩ := Option.isSome_iff_exists.mp hh
      exact inv_opAccess h _ _ hw
    · exact h
  case copyAssign i j t =>
    have : i = j := by simpa using hp
    subst this
    simp only [step, opCopyAssign]; split <;> simpa using h
  case moveAssign i j =>
    have : i = j := by simpa using hp
    subst this
    simp only [step, opMoveAssign]; split <;> simpa using h

/-- Unbounded histories over the proved operations: the invariant holds after every sequence,
    in particular no ghost-heap check ever fails. -/
theorem inv_run_partial {s : State} (h : Inv s) (ops : List Op) (hp : ∀ op ∈ ops, proved op = true) :
    Inv (run s ops) := by
  induction ops generalizing s with
  | nil => exact h
  | cons o r ih =>
    exact ih (inv_step_partial h o (hp o (by simp))) (fun op hop => hp op (by simp [hop]))

theorem no_error_partial {s : State} (h : Inv s) (ops : List Op) (hp : ∀ op ∈ ops, proved op = true) :
    (run s ops).err = none := (inv_run_partial h ops hp).noErr

/-- Destroying every wrapper of the pool keeps the invariant and empties the slots. -/
theorem inv_delAll {s : State} (h : Inv s) (n : Nat) :
    Inv (delAll s n) ∧ (∀ i, i < n → (delAll s n).wr i = none) ∧
      ∀ i, n ≤ i → (delAll s n).wr i = s.wr i := by
  induction n generalizing s with
  | zero => exact ⟨h, fun i hi => by omega, fun i _ => rfl⟩
  | succ n ih =>
    simp only [delAll]
    by_cases hh : has s n = true
    · obtain ⟨w, hw⟩ := Option.isSome_iff_exists.mp hh
      obtain ⟨hI, hn, hfr⟩ := inv_opDel h hw
      obtain ⟨a, b, c⟩ := ih hI
      simp only [hh, ite_true]
      refine ⟨a, ?_, ?_⟩
      · intro i hi
        by_cases hin : i < n
        · exact b i hin
        · have : i = n := by omega
          subst this; rw [c i (Nat.le_refl _)]; exact hn
      · intro i hi; rw [c i (by omega)]; exact hfr i (by omega)
    · obtain ⟨a, b, c⟩ := ih h
      simp only [hh, Bool.false_eq_true, ite_false]
      refine ⟨a, ?_, fun i hi => c i (by omega)⟩
      intro i hi
      by_cases hin : i < n
      · exact b i hin
      · have : i = n := by omega
        subst this; rw [c i (Nat.le_refl _)]
        simpa [has] using hh

/-- `blocks_returned_to_origin`: from *any* state satisfying the invariant, once every wrapper
    of the pool has been destroyed, every block ever allocated is dead and was deallocated
    through an allocator that compares equal to the one that allocated it. -/
theorem blocks_returned_to_origin {s : State} (h : Inv s) (hpool : ∀ i, s.cfg.npool ≤ i → s.wr i = none) :
    let f := delAll s s.cfg.npool
    f.err = none ∧ ∀ b, b < f.nblk → (f.blk b).live = false ∧
      ∃ a, (f.blk b).freedBy = some a ∧ cls a = cls (f.blk b).alloc := by
  obtain ⟨hI, hz, hk⟩ := inv_delAll h s.cfg.npool
  refine ⟨hI.noErr, ?_⟩
  intro b hb
  have hl : ((delAll s s.cfg.npool).blk b).live = false := by
    cases hlv : ((delAll s s.cfg.npool).blk b).live with
    | false => rfl
    | true =>
      obtain ⟨w, hw, _⟩ := hI.blkOwner b hlv
      by_cases hi : ((delAll s s.cfg.npool).blk b).owner < s.cfg.npool
      · rw [hz _ hi] at hw; cases hw
      · rw [hk _ (by omega), hpool _ (by omega)] at hw; cases hw
  exact ⟨hl, hI.freedOk b hb hl⟩

/-- Non-vacuity: a heap payload and a small payload are constructed, a const reference is made,
    everything is destroyed: both blocks were returned to an equal allocator, no
    ghost error, every object destroyed exactly once. -/
example :
    let s0 := initState ⟨32, false, true, false, 3⟩ 16 48
    let s := run s0 [.newInPlace 0 2 48 7 false, .newInPlace 1 0 16 5 false, .moveAssign 1 0,
                     .copyCtor 2 1 false, .del 0, .newPtr 0 1 0 true, .del 1]
    let f := finish s
    f.err = none ∧ badIds f = 0 ∧ badBlocks f = 0 ∧ f.nblk = 2 ∧ f.nextId = 5 := by decide

end Alpaqa.Props.C16
