/-
  C11 — Trust-region step (Steihaug CG, Newton-TR) is feasible and beats the Cauchy point.

  Model: `Alpaqa/Model/C11.lean` (`steihaug`, `newtonTR`: the loop of `SteihaugCG::solve` and
  `NewtonTRDirection::apply`), built from kernels regenerated from the C++ on every run
  (`Alpaqa/Gen/C11.lean`).  The theorems are over any linearly ordered field with a lawful `sqrt`
  (`Lawful`: `sqrt a * sqrt a = a`, `0 ≤ sqrt a` for `a ≥ 0`; nothing is NaN; `copysign x y = ±|x|`
  with the sign of `y ≠ 0`) — `ℝ` is an instance (`Proofs/C11Real.lean`, used in the examples below).

  Hypotheses of the Steihaug theorems, as in DESIGN §6 C11:
    `SymLin n B`   B(u+v) = Bu+Bv, B(c u) = c Bu, ⟨u,Bv⟩ = ⟨Bu,v⟩ on vectors of dimension n
                   (any symmetric operator: PD, singular, indefinite, zero)
    `0 < Δ`
    `g ≠ 0`        only in the loop-level statements (invariants, monotonicity, interior / boundary
                   classification): for `g = 0` the repaired `solve`
                   (fixes/C11-steihaug-zero-gradient.diff; known-findings
                   `C11-steihaug-zero-gradient-returns-nan`, fixed) returns the origin with value 0
                   before the loop — `steihaug_zero_gradient`.  The guarantees themselves are stated
                   for EVERY gradient in `steihaug_every_gradient`; `newtonTR_value_is_full_model` has
                   no hypothesis on the reduced gradient any more.
  The two statements at the top of the file need no hypothesis at all and hold for every carrier,
  `Float` included.

  Newton-TR: `newtonTR_active_eq_fb` (`q_K = p_K`, `q_J` = Steihaug step) and
  `newtonTR_value_is_full_model`: the returned value is `m(q) = ⟨R_γ, q⟩ + ½⟨q, B q⟩` of the FULL
  quadratic model (`mFull`: `R_γ = −p/γ`, `B = [H_JJ, f·H_JK; f·H_KJ, I/γ]`, built from the full
  Hessian operator) at the COMBINED step `q` that `apply` writes.  `newtonTR_model_decrease` is only
  the reduced, as-coded form.
-/
import Alpaqa.Proofs.C11Loop
import Alpaqa.Proofs.C11Real
import Alpaqa.Proofs.C11Restrict

namespace Alpaqa.Props.C11
open Alpaqa Alpaqa.C11 Alpaqa.Gen.C11
set_option linter.unusedSectionVars false
set_option linter.unusedVariables false

/-! ### Facts that hold for every carrier (IEEE doubles included) -/
section anycarrier
variable {α : Type} [Add α] [Sub α] [Mul α] [Div α] [Neg α] [LT α] [LE α] [DecidableLT α]
  [DecidableLE α] [BEq α] [RealLike α] [NatCast α] [OfScientific α]
  [OfNat α 0] [OfNat α 1] [OfNat α 2] [OfNat α 4]
variable (cs : α → α → α) (B : Vec α → Vec α) (g : Vec α) (Δ tol : α) (maxIter : Int)

/-- One pass through the loop body either returns (never with the artificial `fuel` exit, and —
    unless `alpha` was not finite — with the value `eval(s)` of the very step it returns), or
    continues with `i + 1` and only if the cap `i > max_iter` was not reached. -/
theorem cgStep_shape (st : St α) :
    match cgStep cs B g Δ tol maxIter st with
    | .inl res => res.exit ≠ .fuel ∧ (res.exit ≠ .alphaNaN → res.q = cgEval B g res.s) ∧ res.st.i = st.i
    | .inr st' => st'.i = st.i + 1 ∧ ¬ Int.ofNat st.i > maxIter := by
  unfold cgStep
  simp only []
  split_ifs with h1 h2 h3 h4 h5 <;> simp_all [cgNext, cgInteriorExit]

theorem cgLoop_shape (fuel : Nat) (st : St α) (hf : 1 ≤ fuel ∧ maxIter + 2 ≤ (st.i : Int) + fuel) :
    (cgLoop cs B g Δ tol maxIter fuel st).exit ≠ .fuel ∧
    ((cgLoop cs B g Δ tol maxIter fuel st).exit ≠ .alphaNaN →
      (cgLoop cs B g Δ tol maxIter fuel st).q = cgEval B g (cgLoop cs B g Δ tol maxIter fuel st).s) ∧
    (Int.ofNat (cgLoop cs B g Δ tol maxIter fuel st).st.i ≤ max (maxIter + 1) (Int.ofNat st.i)) := by
  induction fuel generalizing st with
  | zero => omega
  | succ f ih =>
    rw [cgLoop]
    have hs := cgStep_shape cs B g Δ tol maxIter st
    cases hc : cgStep cs B g Δ tol maxIter st with
    | inl res =>
      rw [hc] at hs
      refine ⟨hs.1, hs.2.1, ?_⟩
      show Int.ofNat res.st.i ≤ _
      rw [hs.2.2]; exact le_max_right _ _
    | inr st' =>
      rw [hc] at hs
      obtain ⟨hi, hne⟩ := hs
      have hne' : (st.i : Int) ≤ maxIter := by
        have : Int.ofNat st.i = (st.i : Int) := rfl
        omega
      have := ih st' (by constructor <;> (try rw [hi]) <;> (try push_cast) <;> omega)
      refine ⟨this.1, this.2.1, le_trans this.2.2 ?_⟩
      rw [hi]
      have : Int.ofNat (st.i + 1) = (st.i : Int) + 1 := rfl
      have h2 : Int.ofNat st.i = (st.i : Int) := rfl
      omega

/-- `while (true)` terminates: the model's recursion budget is never what ends a run, and the loop
    performs at most `max(max_iter, -1) + 2` iterations (none for a zero gradient). -/
theorem never_fuel (tolMax tolScale tolRoot : α) :
    (steihaug cs B g Δ tolMax tolScale tolRoot maxIter).exit ≠ .fuel ∧
    Int.ofNat (steihaug cs B g Δ tolMax tolScale tolRoot maxIter).st.i ≤ max (maxIter + 1) 0 := by
  have := cgLoop_shape cs B g Δ (cgTolerance tolMax tolScale tolRoot (cgInit g).2.2.2) maxIter
    (cgFuel maxIter) (cgStart g) (by simp only [cgFuel, cgStart]; omega)
  unfold steihaug
  split_ifs
  · exact ⟨by simp, by simp [cgStart]⟩
  · exact ⟨this.1, this.2.2⟩

/-- `model_value_exact`, carrier-independent form: unless the NaN exit was taken (or the gradient is
    zero: then step and value are both `0`), the returned value is `eval` (i.e.
    `p·g + 0.5 * p·(B p)`, the generated `cgEval`) of the returned step — the code recomputes it from
    the step and never carries it along. -/
theorem value_is_eval_of_step (tolMax tolScale tolRoot : α)
    (h : (steihaug cs B g Δ tolMax tolScale tolRoot maxIter).exit ≠ .alphaNaN)
    (hz : (steihaug cs B g Δ tolMax tolScale tolRoot maxIter).exit ≠ .zeroGrad) :
    (steihaug cs B g Δ tolMax tolScale tolRoot maxIter).q =
      cgEval B g (steihaug cs B g Δ tolMax tolScale tolRoot maxIter).s := by
  unfold steihaug at h hz ⊢
  split_ifs at h hz ⊢ with hc
  · exact absurd rfl hz
  · exact (cgLoop_shape cs B g Δ (cgTolerance tolMax tolScale tolRoot (cgInit g).2.2.2) maxIter
      (cgFuel maxIter) (cgStart g) (by simp only [cgFuel, cgStart]; omega)).2.1 h

/-- Zero gradient, every carrier (IEEE doubles included): when the test `‖g‖ == 0` of `solve` fires,
    the result is the origin with value `0`, and no Hessian product is evaluated. -/
theorem zero_gradient_any_carrier (tolMax tolScale tolRoot : α)
    (h : cgZeroGrad (cgInit g).2.2.2 = true) :
    steihaug cs B g Δ tolMax tolScale tolRoot maxIter = ⟨zeros g.length, 0, .zeroGrad, cgStart g, 0⟩ := by
  unfold steihaug; rw [if_pos h]

end anycarrier

/-! ### Steihaug CG over an ordered field with a lawful square root -/
section steihaug
variable {α : Type} [Field α] [LinearOrder α] [IsStrictOrderedRing α] [RealLike α]
variable {cs : α → α → α} {n : Nat} {B : Vec α → Vec α} {g : Vec α} {Δ : α}
variable (tolMax tolScale tolRoot : α) (maxIter : Int)
variable (L : Lawful cs) (hB : SymLin n B) (hg : g.length = n) (hΔ : 0 < Δ) (hg0 : g ≠ zeros g.length)

/-- The tolerance of the run: `fmin(tol_max, tol_scale * ‖g‖ * fmin(tol_scale_root, sqrt ‖g‖))`. -/
abbrev runTol (tolMax tolScale tolRoot : α) (g : Vec α) : α :=
  cgTolerance tolMax tolScale tolRoot (norm2 g)

/-- The tolerance is the documented rule
    `min(tol_max, tol_scale · ‖g‖ · min(tol_scale_root, √‖g‖))` (`SteihaugCGParams::tol_scale`). -/
theorem tolerance_rule (L : Lawful cs) (tolMax tolScale tolRoot : α) (g : Vec α) :
    runTol tolMax tolScale tolRoot g =
      min tolMax (tolScale * norm2 g * min tolRoot (RealLike.sqrt (norm2 g))) := by
  unfold runTol cgTolerance
  rw [fminS_eq_min L, fminS_eq_min L]

/-- States the loop visits in the run on `(B, g, Δ, params)`. -/
abbrev Visited (cs : α → α → α) (B : Vec α → Vec α) (g : Vec α) (Δ : α)
    (tolMax tolScale tolRoot : α) (maxIter : Int) : St α → Prop :=
  Reach cs B g Δ (runTol tolMax tolScale tolRoot g) maxIter

include L hB hg hΔ hg0

/-- **Invariants** at the head of every iteration `k`: `r_k = g + B z_k`, `r_sq = ‖r_k‖²`,
    `⟨r_k, d_k⟩ = −‖r_k‖²`, the iterate is strictly inside the region and `r_k ≠ 0`. -/
theorem invariants {st : St α} (h : Visited cs B g Δ tolMax tolScale tolRoot maxIter st) :
    st.r = vadd g (B st.z) ∧ st.rsq = sqNorm st.r ∧ dot st.r st.d = -sqNorm st.r ∧
      sqNorm st.z < Δ * Δ ∧ 0 < sqNorm st.r := by
  have I := reach_inv L hB hg hΔ (sqNorm_pos_of_ne_zeros g hg0) h
  exact ⟨I.r_eq, I.rsq_eq, I.rd, I.inside, I.r_pos⟩

/-- `⟨r_{k+1}, d_k⟩ = 0`, `z_{k+1} = z_k + α_k d_k` with `α_k = ‖r_k‖²/d_kᵀBd_k`, `d_kᵀBd_k > 0`. -/
theorem residual_orthogonal {st st' : St α} (h : Visited cs B g Δ tolMax tolScale tolRoot maxIter st)
    (hs : cgStep cs B g Δ (runTol tolMax tolScale tolRoot g) maxIter st = .inr st') :
    dot st'.r st.d = 0 ∧ 0 < dot st.d (B st.d) ∧
      st'.z = vadd st.z (smul (sqNorm st.r / dot st.d (B st.d)) st.d) := by
  have C := reach_cont L hB hg hΔ (sqNorm_pos_of_ne_zeros g hg0) h hs
  exact ⟨C.orth, C.pos, C.z_eq⟩

/-- The run ends with a `return` taken from a visited state (the link between the invariants
    and the value `steihaug` returns). -/
theorem run_returns_from_visited :
    ∃ st, Visited cs B g Δ tolMax tolScale tolRoot maxIter st ∧
      cgStep cs B g Δ (runTol tolMax tolScale tolRoot g) maxIter st =
        .inl (steihaug cs B g Δ tolMax tolScale tolRoot maxIter) :=
  steihaug_exit L hB hg hΔ (sqNorm_pos_of_ne_zeros g hg0) tolMax tolScale tolRoot

/-- Every run ends by negative curvature, an over-long step, or an interior exit. -/
theorem exit_kinds :
    (steihaug cs B g Δ tolMax tolScale tolRoot maxIter).exit.isBoundary = true ∨
    (steihaug cs B g Δ tolMax tolScale tolRoot maxIter).exit = .interior := by
  obtain ⟨st, hr, hs⟩ := run_returns_from_visited tolMax tolScale tolRoot maxIter L hB hg hΔ hg0
  have E := reach_exit L hB hg hΔ (sqNorm_pos_of_ne_zeros g hg0) hr hs
  have h1 := E.not_fuel; have h2 := E.not_nan; have h3 := E.not_zero
  cases h : (steihaug cs B g Δ tolMax tolScale tolRoot maxIter).exit <;> simp_all [Exit.isBoundary]

/-- **step_in_region**: `‖s‖² ≤ Δ²`; boundary returns have `‖s‖² = Δ²`, interior ones `‖s‖² < Δ²`. -/
theorem step_in_region :
    (steihaug cs B g Δ tolMax tolScale tolRoot maxIter).s.length = n ∧
    sqNorm (steihaug cs B g Δ tolMax tolScale tolRoot maxIter).s ≤ Δ * Δ ∧
    ((steihaug cs B g Δ tolMax tolScale tolRoot maxIter).exit.isBoundary = true →
      sqNorm (steihaug cs B g Δ tolMax tolScale tolRoot maxIter).s = Δ * Δ) ∧
    ((steihaug cs B g Δ tolMax tolScale tolRoot maxIter).exit = .interior →
      sqNorm (steihaug cs B g Δ tolMax tolScale tolRoot maxIter).s < Δ * Δ) := by
  obtain ⟨st, hr, hs⟩ := run_returns_from_visited tolMax tolScale tolRoot maxIter L hB hg hΔ hg0
  have E := reach_exit L hB hg hΔ (sqNorm_pos_of_ne_zeros g hg0) hr hs
  refine ⟨E.len, ?_, E.bdry, fun h => (E.inter h).1⟩
  rcases exit_kinds tolMax tolScale tolRoot maxIter L hB hg hΔ hg0 with h | h
  · exact (E.bdry h).le
  · exact (E.inter h).1.le

/-- **model_value_exact**: the returned value is `⟨g,s⟩ + ½⟨s,Bs⟩` for the returned `s`. -/
theorem model_value_exact :
    (steihaug cs B g Δ tolMax tolScale tolRoot maxIter).q =
      dot g (steihaug cs B g Δ tolMax tolScale tolRoot maxIter).s +
        1 / 2 * dot (steihaug cs B g Δ tolMax tolScale tolRoot maxIter).s
          (B (steihaug cs B g Δ tolMax tolScale tolRoot maxIter).s) := by
  obtain ⟨st, hr, hs⟩ := run_returns_from_visited tolMax tolScale tolRoot maxIter L hB hg hΔ hg0
  exact (reach_exit L hB hg hΔ (sqNorm_pos_of_ne_zeros g hg0) hr hs).val

/-- **model_monotone**: `m(z_{k+1}) ≤ m(z_k)` for every continued iteration … -/
theorem model_monotone {st st' : St α} (h : Visited cs B g Δ tolMax tolScale tolRoot maxIter st)
    (hs : cgStep cs B g Δ (runTol tolMax tolScale tolRoot g) maxIter st = .inr st') :
    model B g st'.z ≤ model B g st.z :=
  (reach_cont L hB hg hΔ (sqNorm_pos_of_ne_zeros g hg0) h hs).le_prev

/-- … and for every `return`, boundary exits included: the returned value is `≤ m(z_k)` of the
    iterate it left from, and in fact `≤ m(z_k + t d_k)` for every `t ≥ 0` that stays in the region. -/
theorem model_monotone_exit {st : St α} {res : Res α}
    (h : Visited cs B g Δ tolMax tolScale tolRoot maxIter st)
    (hs : cgStep cs B g Δ (runTol tolMax tolScale tolRoot g) maxIter st = .inl res) :
    res.q ≤ model B g st.z ∧
    ∀ t : α, 0 ≤ t → sqNorm (vadd st.z (smul t st.d)) ≤ Δ * Δ →
      res.q ≤ model B g (vadd st.z (smul t st.d)) := by
  have E := reach_exit L hB hg hΔ (sqNorm_pos_of_ne_zeros g hg0) h hs
  exact ⟨E.le_prev, E.ray⟩

/-- The value is never positive. -/
theorem value_le_zero : (steihaug cs B g Δ tolMax tolScale tolRoot maxIter).q ≤ 0 := by
  obtain ⟨st, hr, hs⟩ := run_returns_from_visited tolMax tolScale tolRoot maxIter L hB hg hΔ hg0
  have E := reach_exit L hB hg hΔ (sqNorm_pos_of_ne_zeros g hg0) hr hs
  exact le_trans E.le_prev (reach_le_zero L hB hg hΔ (sqNorm_pos_of_ne_zeros g hg0) hr)

/-- **le_cauchy** (sqrt-free form): the returned value is `≤` the model at *every* point `−t g`,
    `t ≥ 0`, of the steepest-descent ray inside the region — the Cauchy point is by definition the
    best of these. -/
theorem le_cauchy (t : α) (ht : 0 ≤ t) (hin : t * t * sqNorm g ≤ Δ * Δ) :
    (steihaug cs B g Δ tolMax tolScale tolRoot maxIter).q ≤ model B g (smul (-t) g) := by
  obtain ⟨st, hr, hs⟩ := run_returns_from_visited tolMax tolScale tolRoot maxIter L hB hg hΔ hg0
  have E := reach_exit L hB hg hΔ (sqNorm_pos_of_ne_zeros g hg0) hr hs
  rcases reach_ray L hB hg hΔ (sqNorm_pos_of_ne_zeros g hg0) hr with h0 | h1
  · have := E.ray t ht
    rw [h0, cgStart_eq] at this
    simp only [ray_start] at this
    apply this
    rw [sqNorm_eq_dot, dot_smul_left, dot_smul_right, ← sqNorm_eq_dot]
    linarith
  · exact le_trans E.le_prev (h1 t)

/-- Step length of the Cauchy point: `Δ/‖g‖` if `gᵀBg ≤ 0`, else `min(‖g‖²/gᵀBg, Δ/‖g‖)`. -/
def cauchyLen (B : Vec α → Vec α) (g : Vec α) (Δ : α) : α :=
  if dot g (B g) ≤ 0 then Δ / norm2 g else min (sqNorm g / dot g (B g)) (Δ / norm2 g)

/-- **le_cauchy**, explicit form: value `≤` model at the Cauchy point `−τ g`, which is `≤ 0`. -/
theorem le_cauchy_point :
    (steihaug cs B g Δ tolMax tolScale tolRoot maxIter).q ≤ model B g (smul (-(cauchyLen B g Δ)) g) := by
  have hpos := sqNorm_pos_of_ne_zeros g hg0
  have hN0 := L.sqrt_nonneg _ hpos.le
  have hNN := L.sqrt_mul_self _ hpos.le
  have hN : 0 < norm2 g := by
    rcases hN0.lt_or_eq with h | h
    · exact h
    · exfalso; rw [← h] at hNN; linarith
  have hq : Δ / norm2 g * (Δ / norm2 g) * sqNorm g = Δ * Δ := by
    have : sqNorm g = norm2 g * norm2 g := hNN.symm
    rw [this]; field_simp
  have hq0 : 0 ≤ Δ / norm2 g := (div_pos hΔ hN).le
  apply le_cauchy tolMax tolScale tolRoot maxIter L hB hg hΔ hg0
  · unfold cauchyLen; split_ifs with h
    · exact hq0
    · rw [not_le] at h; exact le_min (div_pos hpos h).le hq0
  · unfold cauchyLen; split_ifs with h
    · exact hq.le
    · rw [not_le] at h
      have h1 : 0 ≤ min (sqNorm g / dot g (B g)) (Δ / norm2 g) := le_min (div_pos hpos h).le hq0
      have h2 : min (sqNorm g / dot g (B g)) (Δ / norm2 g) ≤ Δ / norm2 g := min_le_right _ _
      calc _ ≤ Δ / norm2 g * (Δ / norm2 g) * sqNorm g := by
              apply mul_le_mul_of_nonneg_right _ hpos.le
              exact mul_le_mul h2 h2 h1 hq0
        _ = Δ * Δ := hq

/-- **interior_exit_reason**: a step strictly inside the region was returned because the residual of
    *that step*, `‖g + B s‖`, is below the tolerance rule or zero, or the iteration cap `i > max_iter`
    was hit (`i` = completed iterations). -/
theorem interior_exit_reason
    (h : sqNorm (steihaug cs B g Δ tolMax tolScale tolRoot maxIter).s < Δ * Δ) :
    (steihaug cs B g Δ tolMax tolScale tolRoot maxIter).exit = .interior ∧
    (norm2 (vadd g (B (steihaug cs B g Δ tolMax tolScale tolRoot maxIter).s)) < runTol tolMax tolScale tolRoot g ∨
     norm2 (vadd g (B (steihaug cs B g Δ tolMax tolScale tolRoot maxIter).s)) = 0 ∨
     Int.ofNat (steihaug cs B g Δ tolMax tolScale tolRoot maxIter).st.i > maxIter) := by
  obtain ⟨st, hr, hs⟩ := run_returns_from_visited tolMax tolScale tolRoot maxIter L hB hg hΔ hg0
  have E := reach_exit L hB hg hΔ (sqNorm_pos_of_ne_zeros g hg0) hr hs
  have hint : (steihaug cs B g Δ tolMax tolScale tolRoot maxIter).exit = .interior := by
    rcases exit_kinds tolMax tolScale tolRoot maxIter L hB hg hΔ hg0 with hb | hi
    · exact absurd (E.bdry hb) (ne_of_lt h)
    · exact hi
  obtain ⟨_, hreq, hwhy⟩ := E.inter hint
  rw [hreq, ← E.iters] at hwhy
  exact ⟨hint, hwhy⟩

/-- **boundary answers**: negative curvature (`d_kᵀBd_k ≤ 0` at the state the run returned from) and
    an over-long step (`‖z_k + α_k d_k‖² ≥ Δ²`, `d_kᵀBd_k > 0`) are the only boundary exits, and both
    return a point with `‖s‖² = Δ²`. -/
theorem boundary_answers :
    ∃ st, Visited cs B g Δ tolMax tolScale tolRoot maxIter st ∧
      (dot st.d (B st.d) ≤ 0 →
        ((steihaug cs B g Δ tolMax tolScale tolRoot maxIter).exit = .negCurvA ∨
         (steihaug cs B g Δ tolMax tolScale tolRoot maxIter).exit = .negCurvB) ∧
        sqNorm (steihaug cs B g Δ tolMax tolScale tolRoot maxIter).s = Δ * Δ) ∧
      ((steihaug cs B g Δ tolMax tolScale tolRoot maxIter).exit = .overLong →
        0 < dot st.d (B st.d) ∧
        Δ * Δ ≤ sqNorm (vadd st.z (smul (sqNorm st.r / dot st.d (B st.d)) st.d)) ∧
        sqNorm (steihaug cs B g Δ tolMax tolScale tolRoot maxIter).s = Δ * Δ) := by
  obtain ⟨st, hr, hs⟩ := run_returns_from_visited tolMax tolScale tolRoot maxIter L hB hg hΔ hg0
  have E := reach_exit L hB hg hΔ (sqNorm_pos_of_ne_zeros g hg0) hr hs
  refine ⟨st, hr, ?_, ?_⟩
  · intro hneg
    have hk : (steihaug cs B g Δ tolMax tolScale tolRoot maxIter).exit = .negCurvA ∨
        (steihaug cs B g Δ tolMax tolScale tolRoot maxIter).exit = .negCurvB := by
      have hp := E.pos; have h1 := E.not_fuel; have h2 := E.not_nan; have h3 := E.not_zero
      cases hx : (steihaug cs B g Δ tolMax tolScale tolRoot maxIter).exit <;> simp_all <;>
        (exfalso; linarith)
    refine ⟨hk, E.bdry ?_⟩
    rcases hk with h | h <;> simp [h, Exit.isBoundary]
  · intro ho
    exact ⟨E.pos (Or.inl ho), E.over ho, E.bdry (by simp [ho, Exit.isBoundary])⟩

end steihaug

/-! ### Steihaug CG for **every** gradient (zero included) -/
section everygradient
variable {α : Type} [Field α] [LinearOrder α] [IsStrictOrderedRing α] [RealLike α]
variable {cs : α → α → α} {n : Nat} {B : Vec α → Vec α} {g : Vec α} {Δ : α}
variable (tolMax tolScale tolRoot : α) (maxIter : Int)
variable (L : Lawful cs) (hB : SymLin n B) (hg : g.length = n) (hΔ : 0 < Δ)

theorem sqNorm_zeros (k : Nat) : sqNorm (zeros k : Vec α) = 0 := by
  rw [sqNorm_eq_dot, dot_zeros_left]

include L in
/-- **Zero gradient** (the point the code used to answer with NaN): `solve` returns the origin with
    value `0`, before the loop — no Hessian product, no division. -/
theorem steihaug_zero_gradient (h0 : g = zeros g.length) :
    (steihaug cs B g Δ tolMax tolScale tolRoot maxIter).s = zeros g.length ∧
    (steihaug cs B g Δ tolMax tolScale tolRoot maxIter).q = 0 ∧
    (steihaug cs B g Δ tolMax tolScale tolRoot maxIter).exit = .zeroGrad := by
  have hs : sqNorm g = 0 := by rw [h0]; exact sqNorm_zeros _
  rw [steihaug_zero_grad L tolMax tolScale tolRoot hs]
  exact ⟨rfl, rfl, rfl⟩

include L hB hg hΔ in
/-- **The trust-region guarantees for every gradient** — symmetric `B` (PD, singular, indefinite,
    zero), radius `> 0`, all dimensions and parameters, `g = 0` included: the returned step has the
    right dimension and norm `≤ Δ`; the returned value is `gᵀs + ½sᵀBs` of that very step, is `≤ 0`
    and `≤` the model at every point `−t g`, `t ≥ 0`, of the steepest-descent ray inside the region
    (hence `≤` the Cauchy point); and the run ended on the boundary, by an interior exit, or — only
    for `g = 0` — with the origin. -/
theorem steihaug_every_gradient :
    (steihaug cs B g Δ tolMax tolScale tolRoot maxIter).s.length = n ∧
    sqNorm (steihaug cs B g Δ tolMax tolScale tolRoot maxIter).s ≤ Δ * Δ ∧
    (steihaug cs B g Δ tolMax tolScale tolRoot maxIter).q =
      dot g (steihaug cs B g Δ tolMax tolScale tolRoot maxIter).s +
        1 / 2 * dot (steihaug cs B g Δ tolMax tolScale tolRoot maxIter).s
          (B (steihaug cs B g Δ tolMax tolScale tolRoot maxIter).s) ∧
    (steihaug cs B g Δ tolMax tolScale tolRoot maxIter).q ≤ 0 ∧
    (∀ t : α, 0 ≤ t → t * t * sqNorm g ≤ Δ * Δ →
      (steihaug cs B g Δ tolMax tolScale tolRoot maxIter).q ≤ model B g (smul (-t) g)) ∧
    ((steihaug cs B g Δ tolMax tolScale tolRoot maxIter).exit.isBoundary = true ∨
     (steihaug cs B g Δ tolMax tolScale tolRoot maxIter).exit = .interior ∨
     ((steihaug cs B g Δ tolMax tolScale tolRoot maxIter).exit = .zeroGrad ∧ g = zeros g.length)) := by
  by_cases h0 : g = zeros g.length
  · obtain ⟨hs, hq, he⟩ := steihaug_zero_gradient tolMax tolScale tolRoot maxIter L (B := B) (Δ := Δ) h0
    rw [hs, hq, he]
    refine ⟨by rw [length_zeros, hg], by rw [sqNorm_zeros]; exact (mul_pos hΔ hΔ).le, ?_, le_refl _, ?_,
      Or.inr (Or.inr ⟨rfl, h0⟩)⟩
    · rw [dot_zeros_right, dot_zeros_left]; ring
    · intro t _ _
      unfold model
      rw [h0, dot_zeros_left, dot_smul_left, dot_zeros_left]
      simp
  · have hr := step_in_region tolMax tolScale tolRoot maxIter L hB hg hΔ h0
    refine ⟨hr.1, hr.2.1, model_value_exact tolMax tolScale tolRoot maxIter L hB hg hΔ h0,
      value_le_zero tolMax tolScale tolRoot maxIter L hB hg hΔ h0,
      fun t ht hin => le_cauchy tolMax tolScale tolRoot maxIter L hB hg hΔ h0 t ht hin, ?_⟩
    rcases exit_kinds tolMax tolScale tolRoot maxIter L hB hg hΔ h0 with h | h
    · exact Or.inl h
    · exact Or.inr (Or.inl h)

end everygradient

/-! ### Newton-TR (`NewtonTRDirection::apply`, exact-Hessian branch) -/
section ntr
variable {α : Type} [Field α] [LinearOrder α] [IsStrictOrderedRing α] [RealLike α]

theorem length_overlay (base : Vec α) (J : List Nat) (w : Vec α) :
    (overlay base J w).length = base.length := by simp [overlay]

theorem vget_overlay_of_not_mem (base : Vec α) (J : List Nat) (w : Vec α) (i : Nat)
    (hi : i < base.length) (hJ : i ∉ J) : vget (overlay base J w) i = vget base i := by
  have hnone : J.findIdx? (· == i) = none := by
    rw [List.findIdx?_eq_none_iff]
    intro x hx
    exact beq_eq_false_iff_ne.mpr (fun h => hJ (h ▸ hx))
  simp [overlay, vget, List.getD_eq_getElem?_getD, List.getElem?_map, List.getElem?_range hi, hnone]

theorem vget_overlay_of_mem (base : Vec α) (J : List Nat) (w : Vec α) (k : Nat)
    (hk : k < J.length) (hn : J.Nodup) (hlt : J[k] < base.length) :
    vget (overlay base J w) J[k] = vget w k := by
  have hsome : J.findIdx? (· == J[k]) = some k := by
    rw [List.findIdx?_eq_some_iff_getElem]
    refine ⟨hk, by simp, ?_⟩
    intro j hj
    simp only [beq_iff_eq]
    intro h
    have := (hn.getElem_inj_iff).mp h
    omega
  simp [overlay, vget, List.getD_eq_getElem?_getD, List.getElem?_map, List.getElem?_range hlt, hsome]

/-- `J` and `K = compute_complement(J)` partition `{0, …, n−1}`. -/
theorem mem_complement (J : List Nat) (n i : Nat) : i ∈ complement J n ↔ i < n ∧ i ∉ J := by
  simp [complement]

variable (cs : α → α → α) (H : Vec α → Vec α) (J : List Nat) (γ : α) (p : Vec α)
  (hvf radius epsMach tolMax tolScale tolRoot : α) (maxIter : Int)

/-- The reduced Hessian operator `hess_vec_mult` and the reduced gradient `rJ` that `apply` hands to
    `SteihaugCG::solve`. -/
def ntrB (H : Vec α → Vec α) (J : List Nat) (n : Nat) : Vec α → Vec α :=
  fun v => gather J (H (overlay (zeros n) J v))
def ntrG (H : Vec α → Vec α) (J : List Nat) (γ : α) (p : Vec α) (hvf : α) : Vec α :=
  if ntrUseHess hvf then
    ntrRhsHess (ntrRhs γ (gather J p)) (gather J (H (overlay p J (zeros J.length)))) hvf
  else ntrRhs γ (gather J p)

/-- The reduced gradient handed to Steihaug is `r_J = −p_J/γ + hessian_vec_factor · (∇²ψ · q⁰)_J`, where
    `q⁰` is `p` on the active set `K` and `0` on `J` (equation (9) of the PANTR paper); the Hessian term
    is skipped when the factor is zero. -/
theorem newtonTR_reduced_gradient :
    ntrG H J γ p hvf =
      if hvf ≠ 0 then
        vadd (smul (-(1 / γ)) (gather J p)) (smul hvf (gather J (H (overlay p J (zeros J.length)))))
      else smul (-(1 / γ)) (gather J p) := by
  have h1 : ntrRhs γ (gather J p) = smul (-(1 / γ)) (gather J p) := by
    unfold ntrRhs; rw [neg_div]
  unfold ntrG
  by_cases h : hvf = 0
  · simp [ntrUseHess, h, h1]
  · simp [ntrUseHess, h, h1, ntrRhsHess]

/-- `apply` throws exactly on a non-finite or too small radius; otherwise it returns the result of
    the Steihaug run on `(ntrB, ntrG, radius)`, scattered into `q(J)`, with
    value `= steihaug value − ‖p_K‖² / (2γ)` as the code computes it. -/
theorem newtonTR_eq :
    newtonTR cs H J γ p hvf radius epsMach tolMax tolScale tolRoot maxIter =
      if ntrRadiusNotFinite radius = true ∨ ntrRadiusTooSmall radius epsMach = true then none
      else
        some ⟨overlay (overlay p J (zeros J.length)) J
                (steihaug cs (ntrB H J p.length) (ntrG H J γ p hvf) radius tolMax tolScale tolRoot maxIter).s,
              (steihaug cs (ntrB H J p.length) (ntrG H J γ p hvf) radius tolMax tolScale tolRoot maxIter).q -
                sqNorm (gather (complement J p.length) p) / (2 * γ),
              steihaug cs (ntrB H J p.length) (ntrG H J γ p hvf) radius tolMax tolScale tolRoot maxIter⟩ := by
  unfold newtonTR ntrB ntrG
  by_cases h1 : ntrRadiusNotFinite radius = true
  · simp [h1]
  · by_cases h2 : ntrRadiusTooSmall radius epsMach = true
    · simp [h1, h2]
    · simp only [h1, h2, or_self, ntrReturn, ntrNormQK]
      rfl

variable {cs H J γ p hvf radius epsMach tolMax tolScale tolRoot maxIter}

/-- **newtonTR_active_eq_fb**: the active components (`K`, the complement of `J`) of the direction
    equal the forward-backward step, `q_K = p_K`; the inactive ones carry the Steihaug step. -/
theorem newtonTR_active_eq_fb {o : NtrOut α}
    (h : newtonTR cs H J γ p hvf radius epsMach tolMax tolScale tolRoot maxIter = some o) :
    o.q.length = p.length ∧
    (∀ i, i ∈ complement J p.length → vget o.q i = vget p i) ∧
    (J.Nodup → ∀ k (hk : k < J.length), J[k] < p.length → vget o.q J[k] = vget o.cg.s k) := by
  rw [newtonTR_eq] at h
  split_ifs at h with hc
  simp only [Option.some.injEq] at h
  subst h
  refine ⟨by simp [length_overlay], ?_, ?_⟩
  · intro i hi
    obtain ⟨hlt, hnot⟩ := (mem_complement J p.length i).mp hi
    show vget (overlay (overlay p J (zeros J.length)) J _) i = _
    rw [vget_overlay_of_not_mem _ _ _ _ (by simpa [length_overlay] using hlt) hnot,
        vget_overlay_of_not_mem _ _ _ _ hlt hnot]
  · intro hn k hk hlt
    exact vget_overlay_of_mem _ _ _ _ hk hn (by simpa [length_overlay] using hlt)

/-- **newtonTR_return**: returned value `= steihaug value − ‖p_K‖²/(2γ)`, where the Steihaug run is the
    one on the reduced operator / gradient. -/
theorem newtonTR_return {o : NtrOut α}
    (h : newtonTR cs H J γ p hvf radius epsMach tolMax tolScale tolRoot maxIter = some o) :
    o.cg = steihaug cs (ntrB H J p.length) (ntrG H J γ p hvf) radius tolMax tolScale tolRoot maxIter ∧
    o.val = o.cg.q - sqNorm (gather (complement J p.length) p) / (2 * γ) := by
  rw [newtonTR_eq] at h
  split_ifs at h with hc
  simp only [Option.some.injEq] at h
  subst h
  exact ⟨rfl, rfl⟩

/-- The reduced operator is linear and symmetric whenever `∇²ψ` is, for any duplicate-free in-range
    index set `J` (what `eval_inactive_indices_res_lna` returns). -/
theorem newtonTR_operator_symLin {n : Nat} (hH : SymLin n H) (hn : J.Nodup) (hJ : ∀ j ∈ J, j < n) :
    SymLin J.length (ntrB H J n) :=
  restricted_symLin hH J hn hJ

theorem length_ntrG : (ntrG H J γ p hvf).length = J.length := by
  unfold ntrG ntrRhs ntrRhsHess
  split_ifs <;> simp [gather]

/-- Reduced (as-coded) form — LEMMA; the property theorem is `newtonTR_value_is_full_model` below.
    For a linear symmetric `∇²ψ` the value Newton-TR returns is
    `⟨r_J, q_J⟩ + ½⟨q_J, H_JJ q_J⟩ − ‖p_K‖²/(2γ)` in the *reduced* quantities the code itself works with,
    with `‖q_J‖² ≤ radius²` and a non-positive Steihaug part; it is non-positive as soon as `γ > 0`.
    (`r_J ≠ 0` is Steihaug's forced hypothesis; see the header.) -/
theorem newtonTR_model_decrease (L : Lawful cs) {o : NtrOut α}
    (h : newtonTR cs H J γ p hvf radius epsMach tolMax tolScale tolRoot maxIter = some o)
    (hH : SymLin p.length H) (hn : J.Nodup) (hJ : ∀ j ∈ J, j < p.length)
    (hrad : 0 < radius) (hg0 : ntrG H J γ p hvf ≠ zeros (ntrG H J γ p hvf).length) :
    o.val = dot (ntrG H J γ p hvf) o.cg.s + 1 / 2 * dot o.cg.s (ntrB H J p.length o.cg.s) -
        sqNorm (gather (complement J p.length) p) / (2 * γ) ∧
    sqNorm o.cg.s ≤ radius * radius ∧ o.cg.q ≤ 0 ∧ (0 < γ → o.val ≤ 0) := by
  have hB := newtonTR_operator_symLin (H := H) hH hn hJ
  have hlen := length_ntrG (H := H) (J := J) (γ := γ) (p := p) (hvf := hvf)
  obtain ⟨h1, h2⟩ := newtonTR_return h
  have hq := value_le_zero tolMax tolScale tolRoot maxIter L hB hlen hrad hg0
  rw [h2, h1]
  refine ⟨by rw [model_value_exact tolMax tolScale tolRoot maxIter L hB hlen hrad hg0],
    (step_in_region tolMax tolScale tolRoot maxIter L hB hlen hrad hg0).2.1, hq, ?_⟩
  intro hγ
  have : 0 ≤ sqNorm (gather (complement J p.length) p) / (2 * γ) :=
    div_nonneg (sqNorm_nonneg _) (by linarith)
  linarith

end ntr

/-! ### Non-vacuity: the hypotheses hold for concrete non-trivial instances -/
section examples

/-- An indefinite symmetric 2×2 matrix (eigenvalues of both signs) is a `SymLin` operator over any
    field — in particular over `ℚ` and `ℝ`. -/
theorem symLin_indefinite (α : Type) [Field α] :
    SymLin 2 (matVec ([[2, 1], [1, -3]] : List (Vec α))) where
  len := by intro v _; simp [matVec]
  add := by
    intro u v hu hv
    match u, v, hu, hv with
    | [a, b], [c, d], _, _ =>
      simp only [matVec, List.map, vadd_cons, vadd_nil_left, dot_cons, dot_nil_left, List.cons.injEq, and_true]
      constructor <;> ring
  smul := by
    intro c v hv
    match v, hv with
    | [a, b], _ =>
      simp only [matVec, List.map, smul_cons, smul_nil, dot_cons, dot_nil_left, List.cons.injEq, and_true]
      constructor <;> ring
  sym := by
    intro u v hu hv
    match u, v, hu, hv with
    | [a, b], [c, d], _, _ =>
      simp only [matVec, List.map, dot_cons, dot_nil_left]
      ring

example : SymLin 2 (matVec ([[2, 1], [1, -3]] : List (Vec ℚ))) := symLin_indefinite ℚ
example : Lawful csReal := lawful_real
example : ([1, 0] : Vec ℝ) ≠ zeros ([1, 0] : Vec ℝ).length := by simp [zeros]
example : ([1, 0] : Vec ℚ) ≠ zeros ([1, 0] : Vec ℚ).length := by decide

/-- All hypotheses at once (indefinite `B`, `g = e₁`, `Δ = 1`, default parameters): the theorems apply
    to this run over `ℝ`. -/
example :
    sqNorm (steihaug csReal (matVec [[2, 1], [1, -3]]) [1, 0] 1 1 1 (1/2) 2).s ≤ 1 * 1 ∧
    (steihaug csReal (matVec [[2, 1], [1, -3]]) [1, 0] 1 1 1 (1/2) 2).q ≤ 0 :=
  ⟨(step_in_region 1 1 (1/2) 2 lawful_real (symLin_indefinite ℝ) rfl one_pos (by simp [zeros])).2.1,
   value_le_zero 1 1 (1/2) 2 lawful_real (symLin_indefinite ℝ) rfl one_pos (by simp [zeros])⟩

theorem ntrG_example :
    ntrG (matVec ([[2, 1], [1, -3]] : List (Vec ℝ))) [1] 1 [1, 2] 1 = [-1] := by
  rw [newtonTR_reduced_gradient]
  norm_num [gather, overlay, matVec, zeros, vget, List.findIdx?, List.range, List.range.loop,
    dot_cons, List.findIdx?.go]

/-- Newton-TR hypotheses at once: indefinite `∇²ψ`, `J = {1}`, `K = {0}`, `p = (1, 2)`, `γ = 1`. -/
example (o : NtrOut ℝ) (eps : ℝ)
    (h : newtonTR csReal (matVec [[2, 1], [1, -3]]) [1] 1 [1, 2] 1 1 eps 1 1 (1/2) 1 = some o) :
    o.val ≤ 0 ∧ vget o.q 0 = 1 := by
  have hg : ntrG (matVec ([[2, 1], [1, -3]] : List (Vec ℝ))) [1] 1 [1, 2] 1 ≠
      zeros (ntrG (matVec ([[2, 1], [1, -3]] : List (Vec ℝ))) [1] 1 [1, 2] 1).length := by
    rw [ntrG_example]; simp [zeros]
  refine ⟨(newtonTR_model_decrease lawful_real h (symLin_indefinite ℝ) (by decide) (by decide)
    one_pos hg).2.2.2 one_pos, ?_⟩
  have := (newtonTR_active_eq_fb h).2.1 0 (by decide)
  simpa [vget] using this

end examples

/-! ### Newton-TR: the returned value is the full quadratic model at the combined step (audit F8) -/
section fullmodel
variable {α : Type} [Field α] [LinearOrder α] [IsStrictOrderedRing α] [RealLike α]

/-- Block `H_AB` of the Hessian operator `H` on `n`-vectors: takes a vector indexed by `B`
    (scattered into an `n`-vector of zeros), returns the components indexed by `A`. -/
def blk (H : Vec α → Vec α) (n : Nat) (A B : List Nat) (v : Vec α) : Vec α :=
  gather A (H (overlay (zeros n) B v))

/-- Gradient of the full quadratic model: the fixed-point residual `R_γ(x) = −p/γ`
    (`p = x̂ − x` is the forward-backward step; on the inactive set `J` of a box `−p_J/γ = ∇ψ(x)_J`). -/
def fullG (γ : α) (p : Vec α) : Vec α := smul (-(1 / γ)) p

/-- Hessian of the full quadratic model the direction documents (equation (9) of the PANTR paper with
    the factor `hessian_vec_factor = f` in front of the coupling term):
    `B = [ H_JJ , f·H_JK ; f·H_KJ , (1/γ)·I_KK ]`, `K` = complement of `J` — the Hessian of `ψ` on the
    inactive set, the identity scaled by `1/γ` on the active set (where the proximal mapping is
    constant), the coupling blocks scaled by `f`. -/
def fullB (H : Vec α → Vec α) (J : List Nat) (γ f : α) (n : Nat) (v : Vec α) : Vec α :=
  vadd
    (overlay (zeros n) J
      (vadd (blk H n J J (gather J v)) (smul f (blk H n J (complement J n) (gather (complement J n) v)))))
    (overlay (zeros n) (complement J n)
      (vadd (smul f (blk H n (complement J n) J (gather J v))) (smul (1 / γ) (gather (complement J n) v))))

/-- The full quadratic model `m(q) = ⟨R_γ, q⟩ + ½⟨q, B q⟩` on `n`-vectors. -/
def mFull (H : Vec α → Vec α) (J : List Nat) (γ f : α) (p q : Vec α) : α :=
  dot (fullG γ p) q + 1 / 2 * dot q (fullB H J γ f p.length q)

theorem ntrB_eq_blk (H : Vec α → Vec α) (J : List Nat) (n : Nat) : ntrB H J n = blk H n J J := rfl

/-- Algebraic core: for **any** `J`-vector `s`, the full model at the combined step
    `q_K = p_K`, `q_J = s` equals the expression `apply` evaluates:
    `⟨r_J, s⟩ + ½⟨s, H_JJ s⟩ − ‖p_K‖²/(2γ)` with `r_J` the reduced gradient it hands to Steihaug.
    Needs `H` symmetric: the coupling term enters `r_J` once with factor `f`, the full model twice
    (`H_JK` and `H_KJ`) at `½`. -/
theorem mFull_combined (H : Vec α → Vec α) (J : List Nat) (γ f : α) (p s : Vec α)
    (hH : SymLin p.length H) (hn : J.Nodup) (hJ : ∀ j ∈ J, j < p.length) (hs : s.length = J.length)
    (hγ : γ ≠ 0) :
    mFull H J γ f p (overlay (overlay p J (zeros J.length)) J s) =
      dot (ntrG H J γ p f) s + 1 / 2 * dot s (ntrB H J p.length s) -
        sqNorm (gather (complement J p.length) p) / (2 * γ) := by
  set n := p.length with hn'
  set K := complement J n with hK
  have hKn : K.Nodup := complement_nodup J n
  have hKlt : ∀ j ∈ K, j < n := complement_lt J n
  set q0 := overlay p J (zeros J.length) with hq0
  set q := overlay q0 J s with hq
  have lq0 : q0.length = n := by rw [hq0, length_overlay']
  have lq : q.length = n := by rw [hq, length_overlay', lq0]
  have hqJ : gather J q = s := gather_overlay_self q0 J s hn (by rw [lq0]; exact hJ) hs
  have hqK : gather K q = gather K p := by
    have h1 := gather_overlay_compl q0 J s
    have h2 := gather_overlay_compl p J (zeros J.length)
    rw [lq0] at h1
    rw [hK, hq, h1, hq0, h2]
  set pK := gather K p with hpK
  set pJ := gather J p with hpJ
  have lpK : pK.length = K.length := length_gather K p
  have lpJ : pJ.length = J.length := length_gather J p
  -- scattered parts
  have lSJ : ∀ v : Vec α, (overlay (zeros n) J v).length = n := fun v => by rw [length_overlay', length_zeros]
  have lSK : ∀ v : Vec α, (overlay (zeros n) K v).length = n := fun v => by rw [length_overlay', length_zeros]
  have lblk : ∀ (A B : List Nat) (v : Vec α), (blk H n A B v).length = A.length :=
    fun A B v => length_gather A _
  -- the two adjoint identities
  have adjJ : ∀ (x v : Vec α), x.length = n → v.length = J.length →
      dot x (overlay (zeros n) J v) = dot (gather J x) v :=
    fun x v hx hv => (gather_scatter_adjoint n J hn hJ x v hx hv).symm
  have adjK : ∀ (x v : Vec α), x.length = n → v.length = K.length →
      dot x (overlay (zeros n) K v) = dot (gather K x) v :=
    fun x v hx hv => (gather_scatter_adjoint n K hKn hKlt x v hx hv).symm
  -- ⟨q, B q⟩
  have hB : dot q (fullB H J γ f n q) =
      dot s (blk H n J J s) + f * dot s (blk H n J K pK) + f * dot pK (blk H n K J s)
        + 1 / γ * dot pK pK := by
    unfold fullB
    rw [← hK, hqJ, hqK]
    rw [dot_vadd_right _ _ _ (by rw [lSJ, lSK]),
        adjJ q _ lq (by rw [length_vadd, lblk, length_smul, lblk, min_self]),
        adjK q _ lq (by rw [length_vadd, length_smul, lblk, length_smul, lpK, min_self]),
        hqJ, hqK,
        dot_vadd_right _ _ _ (by rw [lblk, length_smul, lblk]),
        dot_vadd_right _ _ _ (by rw [length_smul, lblk, length_smul, lpK]),
        dot_smul_right, dot_smul_right, dot_smul_right]
    ring
  -- symmetry of the coupling blocks
  have hsym : dot pK (blk H n K J s) = dot s (blk H n J K pK) := by
    unfold blk
    rw [dot_comm pK, gather_scatter_adjoint n K hKn hKlt _ pK (hH.len _ (lSJ s)) lpK,
        dot_comm s, gather_scatter_adjoint n J hn hJ _ s (hH.len _ (lSK pK)) hs,
        ← hH.sym _ _ (lSJ s) (lSK pK), dot_comm]
  -- ⟨p, q⟩
  have hpq : dot p q = dot pJ s + dot pK pK := by
    have hpart := scatter_partition J n q lq
    rw [hqJ, ← hK, hqK] at hpart
    rw [← hpart, dot_vadd_right _ _ _ (by rw [lSJ, lSK]), adjJ p s rfl hs, adjK p pK rfl lpK]
  -- the reduced gradient
  have hq0K : q0 = overlay (zeros n) K pK := overlay_zero_eq_scatterK J p
  have hG : dot (ntrG H J γ p f) s = -(1 / γ) * dot pJ s + f * dot s (blk H n J K pK) := by
    rw [newtonTR_reduced_gradient]
    by_cases hf : f = 0
    · simp only [hf, ne_eq, not_true_eq_false, if_false, zero_mul, add_zero]
      rw [dot_smul_left]
    · simp only [ne_eq, hf, not_false_eq_true, if_true]
      rw [dot_vadd_left _ _ _ (by rw [length_smul, length_smul, length_gather, length_gather]),
          dot_smul_left, dot_smul_left, ← hq0, hq0K, dot_comm s (blk H n J K pK)]
      rfl
  unfold mFull fullG
  rw [dot_smul_left, hpq, ← hn', hB, hsym, hG, ntrB_eq_blk, sqNorm_eq_dot]
  field_simp; ring

theorem overlay_overlay (base : Vec α) (J : List Nat) (w w' : Vec α) :
    overlay (overlay base J w) J w' = overlay base J w' := by
  unfold overlay
  simp only [List.length_map, List.length_range]
  apply List.map_congr_left
  intro i hi
  have hin : i < base.length := List.mem_range.mp hi
  cases hf : J.findIdx? (· == i) with
  | some k => rfl
  | none =>
    have := vget_overlay base J w i hin
    rw [hf] at this
    exact this

variable {cs : α → α → α} {H : Vec α → Vec α} {J : List Nat} {γ : α} {p : Vec α}
  {hvf radius epsMach tolMax tolScale tolRoot : α} {maxIter : Int}

/-- **newtonTR_value_is_full_model** (audit F8): the value `NewtonTRDirection::apply` returns is the
    value `m(q) = ⟨R_γ, q⟩ + ½⟨q, B q⟩` of the *full* quadratic model at the *combined* step `q` it
    writes (`q_K = p_K` the forward-backward step on the active set, `q_J` = the Steihaug step), where
    `R_γ = −p/γ` and `B = [H_JJ, f·H_JK; f·H_KJ, I/γ]` is built from the full Hessian operator
    `H = ∇²ψ(x)` (`f = hessian_vec_factor`) — not from the reduced quantities the code works with.
    It is the model *decrease*: `m(0) = 0`.  Moreover the combined step is at least as good, in this
    model, as the pure active-set step `q_K = p_K, q_J = 0`.
    Hypotheses: `H` linear and symmetric (the coupling term is in the code once, in the model twice);
    `J` duplicate-free and in range (what `eval_inactive_indices_res_lna` returns); `γ ≠ 0` (guard:
    the code divides by `γ`; PANTR passes `γ > 0`); `0 < radius` and `r_J ≠ 0` are Steihaug's
    hypotheses (at `r_J = 0` the real code returns NaN, see the header). -/
theorem newtonTR_value_is_full_model (L : Lawful cs) {o : NtrOut α}
    (h : newtonTR cs H J γ p hvf radius epsMach tolMax tolScale tolRoot maxIter = some o)
    (hH : SymLin p.length H) (hn : J.Nodup) (hJ : ∀ j ∈ J, j < p.length) (hγ : γ ≠ 0)
    (hrad : 0 < radius) :
    o.val = mFull H J γ hvf p o.q ∧
    mFull H J γ hvf p o.q ≤ mFull H J γ hvf p (overlay p J (zeros J.length)) ∧
    mFull H J γ hvf p (overlay p J (zeros J.length))
      = -(sqNorm (gather (complement J p.length) p) / (2 * γ)) := by
  have hB := newtonTR_operator_symLin (H := H) hH hn hJ
  have hlen := length_ntrG (H := H) (J := J) (γ := γ) (p := p) (hvf := hvf)
  obtain ⟨h1, h2⟩ := newtonTR_return h
  have hall := steihaug_every_gradient tolMax tolScale tolRoot maxIter L hB hlen hrad
  have hq : o.q = overlay (overlay p J (zeros J.length)) J o.cg.s := by
    rw [newtonTR_eq] at h
    split_ifs at h with hc
    simp only [Option.some.injEq] at h
    subst h; rfl
  have hsl : o.cg.s.length = J.length := by
    rw [h1]; exact hall.1
  have hval : o.val = mFull H J γ hvf p o.q := by
    rw [hq, mFull_combined H J γ hvf p o.cg.s hH hn hJ hsl hγ, h2]
    congr 1
    rw [h1]
    exact hall.2.2.1
  have hz : mFull H J γ hvf p (overlay p J (zeros J.length))
      = -(sqNorm (gather (complement J p.length) p) / (2 * γ)) := by
    have := mFull_combined H J γ hvf p (zeros J.length) hH hn hJ (length_zeros _) hγ
    rw [overlay_overlay] at this
    rw [this]
    simp
  refine ⟨hval, ?_, hz⟩
  rw [← hval, hz, h2]
  have : o.cg.q ≤ 0 := by
    rw [h1]; exact hall.2.2.2.1
  linarith

end fullmodel

section fullexamples
open Alpaqa.C11

/-- The full model is not the reduced expression in disguise: on the instance of the examples below
    (`∇²ψ = [[2,1],[1,−3]]` indefinite, `J = {1}`, `K = {0}`, `p = (1,2)`, `γ = 1`, factor 1) the coupling
    block is `H_JK = (1) ≠ 0`, `B = [[1/γ, 1],[1, −3]]`, `R_γ = (−1,−2)`, and for the combined step
    `q = (p_K, t) = (1, t)`: `m(q) = −½ − t − (3/2)t²` (the `−t` is `−2t` from the gradient plus `+t` from
    the two coupling entries at `½`). -/
example (t : ℚ) : mFull (matVec ([[2, 1], [1, -3]] : List (Vec ℚ))) [1] 1 1 [1, 2] [1, t]
    = -1 / 2 - t - 3 / 2 * t ^ 2 := by
  simp [mFull, fullG, fullB, blk, gather, overlay, complement, matVec, zeros, vget, List.range,
    List.range.loop, dot_cons, List.findIdx?, List.findIdx?.go]
  ring

example : blk (matVec ([[2, 1], [1, -3]] : List (Vec ℚ))) 2 [1] [0] [1] = [1] := by
  simp [blk, gather, overlay, matVec, zeros, vget, List.range, List.range.loop, dot_cons,
    List.findIdx?, List.findIdx?.go]

/-- **All hypotheses of `newtonTR_value_is_full_model` at once, with the call itself exhibited** (no
    hypothesis left): indefinite `∇²ψ`, `J = {1}`, `K = {0}` (`|J| ≥ 1`, `|K| ≥ 1`, coupling `≠ 0`),
    `p = (1,2)`, `γ = 1`, `hessian_vec_factor = 1`, `radius = 1 ≥ eps = 2⁻⁵²`. -/
example : ∃ o : NtrOut ℝ,
    newtonTR csReal (matVec [[2, 1], [1, -3]]) [1] 1 [1, 2] 1 1 (1 / 2 ^ 52) 1 1 (1 / 2) 1 = some o ∧
    o.val = mFull (matVec [[2, 1], [1, -3]]) [1] 1 1 [1, 2] o.q ∧
    vget o.q 0 = 1 ∧ o.val ≤ -(1 / 2) := by
  have hsome : ∃ o : NtrOut ℝ,
      newtonTR csReal (matVec [[2, 1], [1, -3]]) [1] 1 [1, 2] 1 1 (1 / 2 ^ 52) 1 1 (1 / 2) 1 = some o := by
    rw [newtonTR_eq]
    have h1 : ntrRadiusNotFinite (1 : ℝ) = false := by simp [ntrRadiusNotFinite, RealLike.isFinite]
    have h2 : ntrRadiusTooSmall (1 : ℝ) (1 / 2 ^ 52) = false := by
      simp only [ntrRadiusTooSmall, decide_eq_false_iff_not, not_lt]
      norm_num
    rw [h1, h2]
    simp
  obtain ⟨o, ho⟩ := hsome
  obtain ⟨hv, hle, hz⟩ := newtonTR_value_is_full_model lawful_real ho (symLin_indefinite ℝ)
    (by decide) (by decide) one_ne_zero one_pos
  refine ⟨o, ho, hv, ?_, ?_⟩
  · have := (newtonTR_active_eq_fb ho).2.1 0 (by decide)
    simpa [vget] using this
  · rw [hv]
    refine le_trans hle ?_
    rw [hz]
    have hK : gather (complement [1] ([1, 2] : Vec ℝ).length) ([1, 2] : Vec ℝ) = [1] := by
      simp [gather, complement, vget, List.range, List.range.loop]
    rw [hK]
    norm_num [sqNorm_eq_dot, dot_cons]

/-- The zero gradient itself, over `ℝ`: `solve` on `g = (0,0)`, indefinite `B`, radius 1 returns the
    origin with value 0 (the unrepaired code returned NaN here), and all conclusions of
    `steihaug_every_gradient` hold for it. -/
example :
    (steihaug csReal (matVec [[2, 1], [1, -3]]) [0, 0] 1 1 1 (1/2) 2).s = [0, 0] ∧
    (steihaug csReal (matVec [[2, 1], [1, -3]]) [0, 0] 1 1 1 (1/2) 2).q = 0 ∧
    sqNorm (steihaug csReal (matVec [[2, 1], [1, -3]]) [0, 0] 1 1 1 (1/2) 2).s ≤ 1 * 1 := by
  obtain ⟨hs, hq, _⟩ := steihaug_zero_gradient (B := matVec ([[2, 1], [1, -3]] : List (Vec ℝ))) (Δ := 1)
    1 1 (1/2) 2 lawful_real (g := ([0, 0] : Vec ℝ)) rfl
  exact ⟨hs, hq, (steihaug_every_gradient 1 1 (1/2) 2 lawful_real (symLin_indefinite ℝ) rfl one_pos).2.1⟩

end fullexamples

end Alpaqa.Props.C11
