/-
  C01 for PANTR over the problem it is actually handed: the vtable `resolve B P` built by C04
  (`Props/C01_C04.lean`), for every basic problem `B`, every one of the provider mixes of C04, wrapped
  as PANTR's problem record — completed slots (`vtProblem`) and RAW slots with arbitrary workspace
  content (`vtProblemRaw`).  Corollaries of `Props/C01_Pantr.pantr_satisfies_inner_contract` and
  `OracleContractPantr.ofGrad` / `.ofPanoc`; the oracle contract is discharged by C01_C04.
-/
import Alpaqa.Props.C01_Pantr
import Alpaqa.Props.C01_C04

namespace Alpaqa.Props.C01PantrC04
open Alpaqa Alpaqa.Gen Alpaqa.C07 Alpaqa.C04 Alpaqa.Props.C01 Alpaqa.Props.C07 Alpaqa.Props.C01Alm
open Alpaqa.Props.C01C04 Alpaqa.Props.C01Pantr
set_option linter.unusedSectionVars false
set_option linter.unusedVariables false

variable {α A Dd : Type} [Field α] [LinearOrder α] [IsStrictOrderedRing α] [RealLike α]
  [Alpaqa.Proofs.C07.NoNaN α]

/-- the constructed vtable, wrapped as PANTR's problem, meets PANTR's oracle contract — every mix -/
theorem resolve_meets_oracleContractPantr (B : Basic α) (hB : WF B) (P : Provided α) (hP : P.Sound B)
    (C : BoxC α) (D : BoxD α) (hbox : IsBoxProblem B C D) (w : Vec α) (hw : w.length = B.m) :
    OracleContractPantr (pbOf B C D) B.n B.m (fun y Sig => ofPanoc (vtProblem (resolve B P) C w y Sig)) :=
  OracleContractPantr.ofPanoc (resolve_meets_oracleContract B hB P hP C D hbox w hw)

/-- … and so do its RAW slots (no guard off the domain; `W`: whatever `eval_ψ_grad_ψ` leaves in `work_m`,
    only its size is assumed) -/
theorem resolve_raw_meets_oracleContractPantr (B : Basic α) (hB : WF B) (P : Provided α) (hP : P.Sound B)
    (C : BoxC α) (D : BoxD α) (hbox : IsBoxProblem B C D)
    (W : Vec α → Vec α → Vec α → Vec α) (w : Vec α) (hw : w.length = B.m)
    (hWl : ∀ x y Sig, x.length = B.n → y.length = B.m → Sig.length = B.m → (W x y Sig).length = B.m) :
    OracleContractPantr (pbOf B C D) B.n B.m
      (fun y Sig => ofPanoc (vtProblemRaw (resolve B P) C W w y Sig)) :=
  OracleContractPantr.ofGrad (resolve_raw_meets_oracleContractGrad B hB P hP C D hbox W w hw true hWl)

/-- **PANTR over the raw slots of the constructed vtable satisfies ALM's inner-solver contract, for every
    provider mix and any workspace content.**  Hypotheses about provider, parameters, constants as in
    `pantr_satisfies_inner_contract`; nothing is assumed about the run, the stop schedule or fuel. -/
theorem pantr_on_raw_vtable_satisfies_inner_contract (B : Basic α) (hB : WF B) (P : Provided α)
    (hP : P.Sound B) (C : BoxC α) (D : BoxD α) (hbox : IsBoxProblem B C D)
    (W : Vec α → Vec α → Vec α → Vec α) (w : Vec α) (hw : w.length = B.m)
    (hWl : ∀ x y Sig, x.length = B.n → y.length = B.m → Sig.length = B.m → (W x y Sig).length = B.m)
    (co : Pantr.Consts α) (hinf : 0 ≤ co.inf)
    (dir : Pantr.Direction Dd α) (R : Dd → Prop) (hD : Pantr.DirSized B.n dir R) (d0 : Dd) (hR0 : R d0)
    (pr : Pantr.Params α) (hp : Pantr.ParamsOK pr) (hcrit : pr.stopCrit = .ApproxKKT)
    (stop : InnerCall α → Nat → Bool) (oot clock almStop : InnerCall α → Bool) (gV : Vec α) :
    InnerContract (pbOf B C D) B.n B.m
      (pantrInner co (fun y Sig => ofPanoc (vtProblemRaw (resolve B P) C W w y Sig)) dir d0 pr stop oot
        clock almStop gV) :=
  pantr_satisfies_inner_contract (pbOf B C D) B.n B.m _
    (resolve_raw_meets_oracleContractPantr B hB P hP C D hbox W w hw hWl) co hinf dir R hD d0 hR0 pr hp
    hcrit stop oot clock almStop gV

/-- the same over the completed slots (`vtProblem`) -/
theorem pantr_on_vtable_satisfies_inner_contract (B : Basic α) (hB : WF B) (P : Provided α)
    (hP : P.Sound B) (C : BoxC α) (D : BoxD α) (hbox : IsBoxProblem B C D) (w : Vec α)
    (hw : w.length = B.m)
    (co : Pantr.Consts α) (hinf : 0 ≤ co.inf)
    (dir : Pantr.Direction Dd α) (R : Dd → Prop) (hD : Pantr.DirSized B.n dir R) (d0 : Dd) (hR0 : R d0)
    (pr : Pantr.Params α) (hp : Pantr.ParamsOK pr) (hcrit : pr.stopCrit = .ApproxKKT)
    (stop : InnerCall α → Nat → Bool) (oot clock almStop : InnerCall α → Bool) (gV : Vec α) :
    InnerContract (pbOf B C D) B.n B.m
      (pantrInner co (fun y Sig => ofPanoc (vtProblem (resolve B P) C w y Sig)) dir d0 pr stop oot
        clock almStop gV) :=
  pantr_satisfies_inner_contract (pbOf B C D) B.n B.m _
    (resolve_meets_oracleContractPantr B hB P hP C D hbox w hw) co hinf dir R hD d0 hR0 pr hp
    hcrit stop oot clock almStop gV

/-- **C01 end to end for ALM over PANTR over the raw vtable (`m ≠ 0`)**: `Converged` only with the KKT
    certificate of the returned pair, stated with `B`'s `f, ∇f, g, ∇g·y`, `C`, `D` only. -/
theorem alm_pantr_on_raw_vtable_certifies_kkt (nan inf : α) (acc0 : A) (accAdd : A → Pantr.Stats α → A)
    (Pa : ALMParams α) (prob : C07.Problem α) (x y : Vec α) (Sig0 : Option (Vec α))
    (B : Basic α) (hB : WF B) (P : Provided α) (hP : P.Sound B) (C : BoxC α) (D : BoxD α)
    (hbox : IsBoxProblem B C D) (hpm : prob.m = B.m)
    (W : Vec α → Vec α → Vec α → Vec α) (w : Vec α) (hw : w.length = B.m)
    (hWl : ∀ x y Sig, x.length = B.n → y.length = B.m → Sig.length = B.m → (W x y Sig).length = B.m)
    (co : Pantr.Consts α) (hinf : 0 ≤ co.inf)
    (dir : Pantr.Direction Dd α) (R : Dd → Prop) (hD : Pantr.DirSized B.n dir R) (d0 : Dd) (hR0 : R d0)
    (pr : Pantr.Params α) (hp : Pantr.ParamsOK pr) (hcrit : pr.stopCrit = .ApproxKKT)
    (stop : InnerCall α → Nat → Bool) (oot clock almStop : InnerCall α → Bool) (gV : Vec α)
    (hm : prob.m ≠ 0)
    (hC : ∀ b ∈ C, ∀ l u, b.1 = some l → b.2 = some u → l ≤ u)
    (hDb : ∀ i, i < prob.m → BndOK (lbAt D i) (ubAt D i))
    (hmin : 0 < Pa.min_penalty) (hmm : Pa.min_penalty ≤ Pa.max_penalty)
    (hlen : SigmaLen prob.m Sig0) (hx : x.length = B.n) (hy : y.length = prob.m)
    (hconv : (C07.run nan inf acc0 accAdd Pa prob x y Sig0
      (pantrInner co (fun y Sig => ofPanoc (vtProblemRaw (resolve B P) C W w y Sig)) dir d0 pr stop oot
        clock almStop gV)).stats.status = .Converged) :
    KKTCert (pbOf B C D) prob.m Pa.tolerance Pa.dual_tolerance
      (C07.run nan inf acc0 accAdd Pa prob x y Sig0
        (pantrInner co (fun y Sig => ofPanoc (vtProblemRaw (resolve B P) C W w y Sig)) dir d0 pr stop oot
          clock almStop gV)).x
      (C07.run nan inf acc0 accAdd Pa prob x y Sig0
        (pantrInner co (fun y Sig => ofPanoc (vtProblemRaw (resolve B P) C W w y Sig)) dir d0 pr stop oot
          clock almStop gV)).y := by
  have hI := pantr_on_raw_vtable_satisfies_inner_contract B hB P hP C D hbox W w hw hWl co hinf dir R hD
    d0 hR0 pr hp hcrit stop oot clock almStop gV
  rw [← hpm] at hI
  exact alm_converged_certifies_kkt nan inf acc0 accAdd Pa prob x y Sig0 _ (pbOf B C D) B.n hI hm hC hDb
    hmin hmm hlen hx hy hconv

end Alpaqa.Props.C01PantrC04
