/-
  C01 for the PANTR inner solver: the PANTR loop model (`Alpaqa/Model/Pantr.lean`, tied to pantr.tpp by
  bit-exact trace replay) satisfies the `InnerContract` of `Props/C01_Alm.lean`, hence
  `alm_converged_certifies_kkt` applies to ALM over PANTR: `Converged ⇒ (x, y)` is an approximate KKT point.

  * `OracleContractPantr`: the problem oracles PANTR is handed equal the user's closed forms on well-sized
    arguments (`ŷ` of `eval_ψ`, `eval_grad_L`, prox = box projection step) and are sized
    (`Pantr.ProblemSized`).  Unlike PANOC's `OracleContract` there is NO consistency law between
    `eval_ψ_grad_ψ` and the other oracles: with the ApproxKKT criterion pantr.tpp evaluates
    `∇ψ(x̂) = eval_grad_L(x̂, ŷ)` afresh at every loop head (`headStep`, `requiresGradHat`), from the `ŷ`
    that `eval_ψ(x̂)` left — there is no lazy / eager distinction and no `∇ψ(x̂)` buffer to carry an invariant
    about.  `cfProblemPantr_contract`: the oracles built from the closed forms meet it.
  * `pantr_satisfies_inner_contract`: for every trust-region direction provider meeting its size contract on
    the states PANTR reaches (`Pantr.DirSized n dir R`, `R d₀`), parameters with `0 < Lγ_factor, L_min, L_max`
    (`Pantr.ParamsOK`; needed for `γ > 0`), `inf ≥ 0` (the value the C++ writes for a failed trust-region
    step — needed for the size invariant only), the ApproxKKT criterion, EVERY stop schedule, clock, ALM stop
    oracle, garbage content.  NO fuel hypothesis and NO monotonicity of the stop flag are needed (contrary
    to PANOC): the main loop's fuel `max_iter + 1` suffices unconditionally (`Proofs/PantrDoc.run_exit_inv`),
    and the invariants used (`Good`: consistent prox step and `ŷ`; `GammaOK`: `γ > 0`; `SizedInv`) survive a
    `backtrack_qub` that ran out of model fuel.  `pantr_satisfies_inner_contract_fuelOK` is the same statement
    with the hypotheses of the PANOC theorem (`FuelOK`, `StopMono`) added, for uniformity, plus the fact they
    buy: the model's fuel flag stays `false`.
    Nothing is assumed about the run itself.
  * `alm_pantr_certifies_kkt` / `alm_pantr_m0_certifies_kkt`: the composed statements.
  * `OracleContractPantr.ofGrad` / `.ofPanoc`: every PANOC oracle contract (already the weakest,
    `OracleContractGrad`) yields PANTR's for the same oracles (`ofPanoc`) — used by `Props/C01_Pantr_C04.lean`.
  * closed non-vacuity over `ℚ` at the end: the contract for the closed-form oracles of `pbEx`
    (`Props/C01_Alm`) with every hypothesis discharged, `Converged` PANTR calls (at the solution: first head;
    from `x = 3`: 5 iterations, one accepted and four rejected trust-region steps, 3 backtracks), and the whole
    stack ALM → PANTR returning `Converged` and certified by `alm_pantr_certifies_kkt`.
  Real-number semantics (ordered field, no NaN); IEEE rounding is not modelled.
-/
import Alpaqa.Props.C01_Alm
import Alpaqa.Proofs.PantrSized
import Alpaqa.Proofs.PantrFuel
import Alpaqa.Proofs.PantrExampleQ
import Alpaqa.Props.C06_Pantr

namespace Alpaqa.Props.C01Pantr
open Alpaqa Alpaqa.Gen Alpaqa.C07 Alpaqa.C04 Alpaqa.Props.C01 Alpaqa.Props.C07 Alpaqa.Props.C01Alm
set_option linter.unusedSectionVars false
set_option linter.unusedVariables false

variable {α A : Type} [Field α] [LinearOrder α] [IsStrictOrderedRing α] [RealLike α]
  [Alpaqa.Proofs.C07.NoNaN α] {Dd : Type}

/-- The problem oracles PANTR is handed (for multipliers `y` and penalties `Σ` of size `m`) equal the
    closed forms on well-sized arguments: `eval_ψ`'s `ŷ` (`Props/C04.yhat_closed_kernel`), `eval_grad_L`
    (`grad_L_closed`), the prox step is the box projection step (`Props/C15`, `Props/C01.projStepO_some`);
    and they return vectors of the right size (`Pantr.ProblemSized`).  Nothing relates `eval_ψ_grad_ψ` /
    `eval_grad_ψ` to the other oracles (beyond sizes): their values only steer the iteration. -/
structure OracleContractPantr (pb : ProblemCF α) (n m : Nat) (Pf : Vec α → Vec α → Pantr.Problem α) :
    Prop where
  yhat : ∀ y Sig x, y.length = m → Sig.length = m → x.length = n →
    ((Pf y Sig).psi x).2 = yhatCF pb x y Sig
  gradL : ∀ y Sig x yh, y.length = m → Sig.length = m → x.length = n → yh.length = m →
    (Pf y Sig).gradL x yh = pb.gradL x yh
  prox : ∀ y Sig γ x g, y.length = m → Sig.length = m → x.length = n → g.length = n →
    ((Pf y Sig).prox γ x g).2.1 = vadd x (projStepVO γ x g pb.C) ∧
    ((Pf y Sig).prox γ x g).2.2 = projStepVO γ x g pb.C
  sized : ∀ y Sig, y.length = m → Sig.length = m → Pantr.ProblemSized n m (Pf y Sig)

/-- PANTR's parameters for an inner call: tolerance and `always_overwrite_results` from the options -/
def pantrParams (pr : Pantr.Params α) (c : InnerCall α) : Pantr.Params α :=
  { pr with tolerance := c.opts.tolerance, alwaysOverwrite := c.opts.always_overwrite_results }

/-- the PANTR run an inner call triggers: tolerance and `always_overwrite_results` from the options,
    `y`, `Σ`, `x`, the `err_z` buffer from the call; stop schedule and clock are arbitrary oracles,
    `gV` the arbitrary content of never-written vector storage -/
def pantrRun (co : Pantr.Consts α) (Pf : Vec α → Vec α → Pantr.Problem α) (dir : Pantr.Direction Dd α)
    (d0 : Dd) (pr : Pantr.Params α) (stop : InnerCall α → Nat → Bool) (oot : InnerCall α → Bool)
    (gV : Vec α) (c : InnerCall α) : Pantr.Result α Dd :=
  Pantr.run co (Pf c.y c.sigma) dir d0 (pantrParams pr c) (stop c) (oot c) c.x c.y c.sigma c.errBuf gV

/-- `PANTRSolver::operator()` as an inner-solver function of the ALM model.  `stop` is PANTR's own flag
    as a function of the tick, `clock` / `almStop` the two oracle bits ALM reads after the inner solve
    (arbitrary, and not related to `stop`). -/
def pantrInner (co : Pantr.Consts α) (Pf : Vec α → Vec α → Pantr.Problem α) (dir : Pantr.Direction Dd α)
    (d0 : Dd) (pr : Pantr.Params α) (stop : InnerCall α → Nat → Bool)
    (oot clock almStop : InnerCall α → Bool) (gV : Vec α) (c : InnerCall α) :
    InnerResult α (Pantr.Stats α) :=
  let r := pantrRun co Pf dir d0 pr stop oot gV c
  ⟨r.stats.status, r.stats.eps, r.x, r.y, r.errz, r.stats, clock c, almStop c⟩

/-! ### The invariant of the loop heads used for C01 -/

/-- consistent prox step and `ŷ`, positive step size, sizes, provider in an `R`-state -/
def C01Inv (n m : Nat) (R : Dd → Prop) (P : Pantr.Problem α) (pr : Pantr.Params α)
    (s : Pantr.St α Dd) : Prop :=
  Pantr.Good P s.curr ∧ Pantr.GammaOK pr s.curr ∧ Pantr.SizedInv n m R s

theorem c01Inv_headInv {n m : Nat} {P : Pantr.Problem α} (hP : Pantr.ProblemSized n m P)
    {dir : Pantr.Direction Dd α} {R : Dd → Prop} (hD : Pantr.DirSized n dir R) (co : Pantr.Consts α)
    (hinf : ¬ co.inf < 0) (pr : Pantr.Params α) (stop : Nat → Bool) (oot : Bool) :
    Pantr.HeadInv (C01Inv n m R P pr) co P dir pr stop oot := by
  have hS := Pantr.sizedInv_headInv hP hD co hinf pr stop oot
  constructor
  · intro s h
    refine ⟨?_, ?_, hS.head s h.2.2⟩
    · rw [(Pantr.headStep_same P pr stop oot s).1]; exact h.1
    · rw [(Pantr.headStep_same P pr stop oot s).1]; exact h.2.1
  · intro s eps h
    exact ⟨(Pantr.iterBody_spec co P dir pr stop s eps).1,
      h.2.1.of_GL (Pantr.iterBody_GL co P dir pr stop s eps), hS.iter s eps h.2.2⟩

/-- what the exit block writes back on `Converged` -/
theorem exitBlock_converged (co : Pantr.Consts α) (pr : Pantr.Params α) (s : Pantr.St α Dd) (eps : α)
    (x0 y Sig errz0 : Vec α) :
    (Pantr.exitBlock co pr s eps .Converged x0 y Sig errz0).x = s.curr.xhat ∧
    (Pantr.exitBlock co pr s eps .Converged x0 y Sig errz0).y = s.curr.yhat ∧
    (0 < errz0.length →
      (Pantr.exitBlock co pr s eps .Converged x0 y Sig errz0).errz = vdiv (vsub s.curr.yhat y) Sig) := by
  unfold Pantr.exitBlock
  simp only []
  refine ⟨by simp, by simp, fun h => ?_⟩
  simp [h]

/-- **What a converged PANTR run looks like** (ApproxKKT criterion): the exit head's current iterate
    `it` has `γ > 0`, `x̂ = x + p`, `p` the projected-gradient step at `(γ, x, grad_ψ)`, `ŷ = ŷ(x̂)`; `x̂`, `ŷ`
    are written back, `err_z = (ŷ − y)/Σ`, `ε` is the ApproxKKT residual with `∇ψ(x̂) = ∇L(x̂, ŷ)`, and
    `ε ≤` the tolerance of the call when that is positive. -/
theorem pantr_converged_run (pb : ProblemCF α) (n m : Nat)
    (Pf : Vec α → Vec α → Pantr.Problem α) (hO : OracleContractPantr pb n m Pf)
    (co : Pantr.Consts α) (hinf : 0 ≤ co.inf)
    (dir : Pantr.Direction Dd α) (R : Dd → Prop) (hD : Pantr.DirSized n dir R) (d0 : Dd) (hR0 : R d0)
    (pr : Pantr.Params α) (hp : Pantr.ParamsOK pr) (hcrit : pr.stopCrit = .ApproxKKT)
    (stop : InnerCall α → Nat → Bool) (oot : InnerCall α → Bool) (gV : Vec α)
    (c : InnerCall α) (hwf : WFCall n m c)
    (hc : (pantrRun co Pf dir d0 pr stop oot gV c).stats.status = .Converged) :
    ∃ it : Pantr.Iterate α, 0 < it.gamma ∧
      it.xhat = vadd it.x (projStepVO it.gamma it.x it.gradPsi pb.C) ∧
      it.p = projStepVO it.gamma it.x it.gradPsi pb.C ∧
      it.yhat = yhatCF pb it.xhat c.y c.sigma ∧
      (pantrRun co Pf dir d0 pr stop oot gV c).x = it.xhat ∧
      (pantrRun co Pf dir d0 pr stop oot gV c).y = it.yhat ∧
      (pantrRun co Pf dir d0 pr stop oot gV c).stats.eps =
        stopCrit_ApproxKKT (fun _ v _ => (v, v)) it.p it.gamma it.x it.xhat it.yhat it.gradPsi
          (pb.gradL it.xhat it.yhat) ∧
      (0 < c.errBuf.length → (pantrRun co Pf dir d0 pr stop oot gV c).errz =
        vdiv (vsub it.yhat c.y) c.sigma) ∧
      (0 < c.opts.tolerance →
        (pantrRun co Pf dir d0 pr stop oot gV c).stats.eps ≤ c.opts.tolerance) := by
  have hPs := hO.sized c.y c.sigma hwf.y hwf.sigma
  unfold pantrRun at hc ⊢
  generalize hpr' : pantrParams pr c = pr' at hc ⊢
  have hp' : Pantr.ParamsOK pr' := by subst hpr'; exact ⟨hp.lgf, hp.lmin, hp.lmax⟩
  have hcrit' : pr'.stopCrit = .ApproxKKT := by subst hpr'; exact hcrit
  have htol' : pr'.tolerance = c.opts.tolerance := by subst hpr'; rfl
  set P := Pf c.y c.sigma with hP
  cases hi : Pantr.initState co P d0 pr' (stop c) c.x gV with
  | inl t =>
    have := (Alpaqa.Props.C06_Pantr.pantr_early_exit co P dir d0 pr' (stop c) (oot c) c.x c.y c.sigma
      c.errBuf gV t hi).1
    rw [this] at hc; cases hc
  | inr s0 =>
    have h0s := Pantr.initState_sized hPs co d0 pr' (stop c) c.x gV hwf.x s0 hi
    obtain ⟨s', ⟨hgood, hgam, hsz, -⟩, -, -, he⟩ := Pantr.run_exit_inv (C01Inv n m R P pr') co P dir d0 pr'
      (stop c) (oot c) (c01Inv_headInv hPs hD co (not_lt.mpr hinf) pr' (stop c) (oot c))
      c.x c.y c.sigma c.errBuf gV s0 hi
      ⟨(Pantr.initState_good co P d0 pr' (stop c) c.x gV s0 hi).1,
        Pantr.initState_gammaOK co P d0 pr' (stop c) c.x gV hp' s0 hi, h0s.1, by rw [h0s.2]; exact hR0⟩
    have hf := Pantr.exitBlock_fields co pr' (Pantr.headStep P pr' (stop c) (oot c) s').1
      (Pantr.headStep P pr' (stop c) (oot c) s').2.1 (Pantr.headStep P pr' (stop c) (oot c) s').2.2
      c.x c.y c.sigma c.errBuf
    have hh := Pantr.headStep_same P pr' (stop c) (oot c) s'
    have hε := Pantr.headStep_eps P pr' (stop c) (oot c) s'
    have hst := Pantr.headStep_status P pr' (stop c) (oot c) s'
    rw [he] at hc ⊢
    rw [hf.2.1] at hc
    rw [hc]
    have hw := exitBlock_converged co pr' (Pantr.headStep P pr' (stop c) (oot c) s').1
      (Pantr.headStep P pr' (stop c) (oot c) s').2.1 c.x c.y c.sigma c.errBuf
    rw [hh.1] at hw
    have hprox := hO.prox c.y c.sigma s'.curr.gamma s'.curr.x s'.curr.gradPsi hwf.y hwf.sigma hsz.x hsz.g
    have hyh : s'.curr.yhat = yhatCF pb s'.curr.xhat c.y c.sigma := by
      rw [hgood.2.2]; exact hO.yhat c.y c.sigma _ hwf.y hwf.sigma hsz.xhat
    have hgh : (Pantr.headStep P pr' (stop c) (oot c) s').1.gradPsiHat =
        pb.gradL s'.curr.xhat s'.curr.yhat := by
      rw [hε.2 (by rw [hcrit']; rfl)]
      exact hO.gradL c.y c.sigma _ _ hwf.y hwf.sigma hsz.xhat hsz.yhat
    have heps : (Pantr.headStep P pr' (stop c) (oot c) s').2.1 =
        stopCrit_ApproxKKT (fun _ v _ => (v, v)) s'.curr.p s'.curr.gamma s'.curr.x s'.curr.xhat
          s'.curr.yhat s'.curr.gradPsi (pb.gradL s'.curr.xhat s'.curr.yhat) := by
      rw [hε.1, ← hgh]; unfold Pantr.epsOf; rw [hcrit']; rfl
    have hfe : (Pantr.exitBlock co pr' (Pantr.headStep P pr' (stop c) (oot c) s').1
        (Pantr.headStep P pr' (stop c) (oot c) s').2.1 .Converged c.x c.y c.sigma c.errBuf).stats.eps =
        (Pantr.headStep P pr' (stop c) (oot c) s').2.1 :=
      (Pantr.exitBlock_fields co pr' _ _ _ c.x c.y c.sigma c.errBuf).2.2.2.1
    refine ⟨s'.curr, hgam.1, ?_, ?_, hyh, hw.1, hw.2.1, ?_, hw.2.2, ?_⟩
    · rw [hgood.1.2.1]; exact hprox.1
    · rw [hgood.1.2.2]; exact hprox.2
    · rw [hfe]; exact heps
    · intro ht
      rw [hfe]
      rw [hst] at hc
      have := (Alpaqa.Props.C06.converged_iff _ _ _ _ _ _ _ _).mp hc
      unfold Alpaqa.Props.C06.effTol at this
      rw [htol', if_pos ht] at this
      exact this

/-- **PANTR satisfies `InnerContract`** for the ApproxKKT criterion (the default; part of the property
    statement), for every trust-region direction provider meeting its size contract on the states PANTR
    reaches (`Pantr.DirSized n dir R` with `R d₀`), EVERY stop schedule (monotone or not), clock, ALM stop
    oracle, every `L_0` (finite-difference estimate included), every trust-region / ratio / radius
    parameter and flag, every `qubFuel`, and parameters with `0 < Lγ_factor`, `0 < L_min`, `0 < L_max`
    (`Pantr.ParamsOK`, needed for `γ > 0`); `inf ≥ 0` is the constant written for a failed trust-region step.
    Nothing is assumed about the run itself: which iterate is written back, that `ε` is the ApproxKKT
    criterion of exactly that iterate with `∇ψ(x̂) = ∇L(x̂, ŷ)`, `γ > 0`, `y = ŷ(x̂)`, `err_z = (ŷ − y)/Σ`,
    `Converged ⇒ ε ≤ tolerance`, and the sizes of `x`, `y`, `err_z` (`Proofs/PantrSized`) are all proved
    from the loop model.  No fuel hypothesis: every return of the model's main loop is a head exit
    (`Proofs/PantrDoc.run_exit_inv`), and a `backtrack_qub` that ran out of model fuel still leaves a
    consistent iterate. -/
theorem pantr_satisfies_inner_contract (pb : ProblemCF α) (n m : Nat)
    (Pf : Vec α → Vec α → Pantr.Problem α) (hO : OracleContractPantr pb n m Pf)
    (co : Pantr.Consts α) (hinf : 0 ≤ co.inf)
    (dir : Pantr.Direction Dd α) (R : Dd → Prop) (hD : Pantr.DirSized n dir R) (d0 : Dd) (hR0 : R d0)
    (pr : Pantr.Params α) (hp : Pantr.ParamsOK pr) (hcrit : pr.stopCrit = .ApproxKKT)
    (stop : InnerCall α → Nat → Bool) (oot clock almStop : InnerCall α → Bool) (gV : Vec α) :
    InnerContract pb n m (pantrInner co Pf dir d0 pr stop oot clock almStop gV) := by
  have hsize : ∀ c, WFCall n m c → Pantr.OutSized n m (pantrRun co Pf dir d0 pr stop oot gV c) :=
    fun c hwf => Pantr.run_sized (hO.sized c.y c.sigma hwf.y hwf.sigma) hD co (not_lt.mpr hinf) d0 hR0
      (pantrParams pr c) (stop c) (oot c) c.x c.y c.sigma c.errBuf gV hwf.x hwf.y hwf.sigma hwf.errBuf
  have key := fun c hwf hc =>
    pantr_converged_run pb n m Pf hO co hinf dir R hD d0 hR0 pr hp hcrit stop oot gV c hwf hc
  refine ⟨?_, ?_, fun c hwf => (hsize c hwf).x, fun c hwf => (hsize c hwf).y,
    fun c hwf => (hsize c hwf).errz⟩
  · intro c hwf hc
    obtain ⟨it, hγ, hxh, hpp, hyh, hx, hy, heps, herr, _⟩ := key c hwf hc
    refine ⟨it.gamma, it.x, it.gradPsi, hγ, ?_, ?_, ?_, ?_⟩
    · show (pantrRun co Pf dir d0 pr stop oot gV c).x = _
      rw [hx]; exact hxh
    · show (pantrRun co Pf dir d0 pr stop oot gV c).stats.eps = stopCrit_ApproxKKT _ _ _ _
        (pantrRun co Pf dir d0 pr stop oot gV c).x (pantrRun co Pf dir d0 pr stop oot gV c).y _
        (pb.gradL (pantrRun co Pf dir d0 pr stop oot gV c).x (pantrRun co Pf dir d0 pr stop oot gV c).y)
      rw [heps, hx, hy, ← hpp]
    · show (pantrRun co Pf dir d0 pr stop oot gV c).y =
        yhatCF pb (pantrRun co Pf dir d0 pr stop oot gV c).x c.y c.sigma
      rw [hy, hx]; exact hyh
    · intro hl
      show (pantrRun co Pf dir d0 pr stop oot gV c).errz =
        vdiv (vsub (pantrRun co Pf dir d0 pr stop oot gV c).y c.y) c.sigma
      rw [herr hl, hy]
  · intro c hwf ht hc
    obtain ⟨_, _, _, _, _, _, _, _, _, htol⟩ := key c hwf hc
    exact htol ht

theorem fuelOK_pantrParams {pr : Pantr.Params α} {N : Nat} (h : Pantr.FuelOK pr N) (c : InnerCall α) :
    Pantr.FuelOK (pantrParams pr c) N := by
  obtain ⟨h1, h2, h3, h4⟩ := h
  exact ⟨h1, h2, h3, h4⟩

/-- The same with the hypotheses of `panoc_satisfies_inner_contract` (`FuelOK`, monotone stop flag) —
    which PANTR's contract does not need — and what `FuelOK` buys in addition: no `backtrack_qub` of the
    model ever runs out of fuel on any call (`Proofs/PantrFuel.pantr_fuel_suffices`), i.e. every run the
    contract speaks about is a run of the C++ loop, not of a truncated one. -/
theorem pantr_satisfies_inner_contract_fuelOK (pb : ProblemCF α) (n m : Nat)
    (Pf : Vec α → Vec α → Pantr.Problem α) (hO : OracleContractPantr pb n m Pf)
    (co : Pantr.Consts α) (hinf : 0 ≤ co.inf)
    (dir : Pantr.Direction Dd α) (R : Dd → Prop) (hD : Pantr.DirSized n dir R) (d0 : Dd) (hR0 : R d0)
    (pr : Pantr.Params α) (hp : Pantr.ParamsOK pr) (N : Nat) (hF : Pantr.FuelOK pr N)
    (hcrit : pr.stopCrit = .ApproxKKT)
    (stop : InnerCall α → Nat → Bool) (hmono : ∀ c, Pantr.StopMono (stop c))
    (oot clock almStop : InnerCall α → Bool) (gV : Vec α) :
    InnerContract pb n m (pantrInner co Pf dir d0 pr stop oot clock almStop gV) ∧
    ∀ c, (pantrRun co Pf dir d0 pr stop oot gV c).fuelOut = false :=
  ⟨pantr_satisfies_inner_contract pb n m Pf hO co hinf dir R hD d0 hR0 pr hp hcrit stop oot clock almStop gV,
    fun c => Pantr.pantr_fuel_suffices co (Pf c.y c.sigma) dir d0 (pantrParams pr c) (stop c) (oot c)
      c.x c.y c.sigma c.errBuf gV N (fuelOK_pantrParams hF c)⟩

/-! ### The oracles built from the closed forms meet `OracleContractPantr` -/

/-- The problem oracles PANTR is handed, built from the user's closed forms.  `ψ` and the gradient `gψ`
    returned by `eval_ψ_grad_ψ` / `eval_grad_ψ` are ARBITRARY (of size `n`): the contract does not constrain
    them. -/
def cfProblemPantr (pb : ProblemCF α) (ψ : Vec α → Vec α → Vec α → α)
    (gψ : Vec α → Vec α → Vec α → Vec α) (y Sig : Vec α) : Pantr.Problem α where
  psiGradPsi x := (ψ y Sig x, gψ y Sig x, yhatCF pb x y Sig)
  psi x := (ψ y Sig x, yhatCF pb x y Sig)
  gradPsi x := gψ y Sig x
  gradL x yh := pb.gradL x yh
  prox γ x g := (0, vadd x (projStepVO γ x g pb.C), projStepVO γ x g pb.C)

/-- **`OracleContractPantr` holds for the closed-form oracles** of every problem with `|C| = n` whose `∇L`
    returns vectors of size `n`, with any `ψ` and any `n`-sized `eval_ψ_grad_ψ` gradient. -/
theorem cfProblemPantr_contract (pb : ProblemCF α) (ψ : Vec α → Vec α → Vec α → α)
    (gψ : Vec α → Vec α → Vec α → Vec α) (n m : Nat) (hC : pb.C.length = n)
    (hgL : ∀ x y, x.length = n → y.length = m → (pb.gradL x y).length = n)
    (hgψ : ∀ y Sig x, y.length = m → Sig.length = m → x.length = n → (gψ y Sig x).length = n) :
    OracleContractPantr pb n m (cfProblemPantr pb ψ gψ) := by
  refine ⟨fun _ _ _ _ _ _ => rfl, fun _ _ _ _ _ _ _ _ => rfl, fun _ _ _ _ _ _ _ _ _ => ⟨rfl, rfl⟩, ?_⟩
  intro y Sig hy hS
  have hyl : ∀ x, (yhatCF pb x y Sig).length = m := fun x => by rw [yhatCF_length, hy]
  refine ⟨fun x hx => hgψ y Sig x hy hS hx, fun x _ => hyl x, fun x _ => hyl x,
    fun x hx => hgψ y Sig x hy hS hx, fun x yh hx hyh => hgL _ _ hx hyh, ?_, ?_⟩
  · intro γ x g hx hg
    show (vadd x (projStepVO γ x g pb.C)).length = n
    rw [Pantr.vadd_length, projStepVO_length, hx, hg, hC]; simp
  · intro γ x g hx hg
    show (projStepVO γ x g pb.C).length = n
    rw [projStepVO_length, hx, hg, hC]; simp

/-- the consistent choice `eval_ψ_grad_ψ`'s gradient `= ∇L(x, ŷ(x))` -/
def gradPsiCF (pb : ProblemCF α) (y Sig x : Vec α) : Vec α := pb.gradL x (yhatCF pb x y Sig)

theorem gradPsiCF_length (pb : ProblemCF α) (n m : Nat)
    (hgL : ∀ x y, x.length = n → y.length = m → (pb.gradL x y).length = n)
    (y Sig x : Vec α) (hy : y.length = m) (hS : Sig.length = m) (hx : x.length = n) :
    (gradPsiCF pb y Sig x).length = n :=
  hgL _ _ hx (by rw [yhatCF_length, hy])

/-! ### PANOC's problem record handed to PANTR -/

/-- The same five oracles as a PANTR problem record (`Panoc.Problem` and `Pantr.Problem` have the same
    fields: both model the `TypeErasedProblem` calls of the respective .tpp). -/
def ofPanoc (P : Panoc.Problem α) : Pantr.Problem α :=
  ⟨P.psiGradPsi, P.psi, P.gradPsi, P.gradL, P.prox⟩

/-- **Every PANOC oracle contract yields PANTR's**: already the weakest one (`OracleContractGrad`, in
    either mode) contains it — its consistency clause is simply dropped.  So everything
    `Props/C01_C04.lean` proves about the problem PANOC is handed (the vtable `resolve B P` for every
    provider mix, raw slots included) transfers to PANTR (`Props/C01_Pantr_C04.lean`). -/
theorem OracleContractPantr.ofGrad {pb : ProblemCF α} {n m : Nat} {e : Bool}
    {Pf : Vec α → Vec α → Panoc.Problem α} (h : OracleContractGrad pb n m e Pf) :
    OracleContractPantr pb n m (fun y Sig => ofPanoc (Pf y Sig)) :=
  ⟨h.yhat, h.gradL, h.prox, fun y Sig hy hS =>
    let hs := h.sized y Sig hy hS
    ⟨hs.pgp_grad, hs.pgp_work, hs.psi_yhat, hs.gradPsi, hs.gradL, hs.prox_xhat, hs.prox_p⟩⟩

theorem OracleContractPantr.ofPanoc {pb : ProblemCF α} {n m : Nat}
    {Pf : Vec α → Vec α → Panoc.Problem α} (h : OracleContract pb n m Pf) :
    OracleContractPantr pb n m (fun y Sig => C01Pantr.ofPanoc (Pf y Sig)) :=
  OracleContractPantr.ofGrad (h.on true).grad

/-! ### Composition with ALM (`Props/C01_Alm`) -/
section composed
variable (nan inf : α) (acc0 : A) (accAdd : A → Pantr.Stats α → A) (P : ALMParams α)
  (prob : C07.Problem α) (x y : Vec α) (Sig0 : Option (Vec α))

/-- **C01 for ALM over PANTR** (`m ≠ 0`): whenever the ALM model over the PANTR loop model returns
    `Converged`, the returned `(x, y)` carries the KKT certificate with `tolerance` / `dual_tolerance` —
    for every provider, parameter set, stop schedule etc. as in `pantr_satisfies_inner_contract`, and any
    ALM parameters with `0 < min_penalty ≤ max_penalty`. -/
theorem alm_pantr_certifies_kkt (pb : ProblemCF α) (n : Nat)
    (Pf : Vec α → Vec α → Pantr.Problem α) (hO : OracleContractPantr pb n prob.m Pf)
    (co : Pantr.Consts α) (hinf : 0 ≤ co.inf)
    (dir : Pantr.Direction Dd α) (R : Dd → Prop) (hD : Pantr.DirSized n dir R) (d0 : Dd) (hR0 : R d0)
    (pr : Pantr.Params α) (hp : Pantr.ParamsOK pr) (hcrit : pr.stopCrit = .ApproxKKT)
    (stop : InnerCall α → Nat → Bool) (oot clock almStop : InnerCall α → Bool) (gV : Vec α)
    (hm : prob.m ≠ 0)
    (hC : ∀ b ∈ pb.C, ∀ l u, b.1 = some l → b.2 = some u → l ≤ u)
    (hDb : ∀ i, i < prob.m → BndOK (lbAt pb.D i) (ubAt pb.D i))
    (hmin : 0 < P.min_penalty) (hmm : P.min_penalty ≤ P.max_penalty)
    (hlen : SigmaLen prob.m Sig0) (hx : x.length = n) (hy : y.length = prob.m)
    (hconv : (C07.run nan inf acc0 accAdd P prob x y Sig0
      (pantrInner co Pf dir d0 pr stop oot clock almStop gV)).stats.status = .Converged) :
    KKTCert pb prob.m P.tolerance P.dual_tolerance
      (C07.run nan inf acc0 accAdd P prob x y Sig0
        (pantrInner co Pf dir d0 pr stop oot clock almStop gV)).x
      (C07.run nan inf acc0 accAdd P prob x y Sig0
        (pantrInner co Pf dir d0 pr stop oot clock almStop gV)).y :=
  alm_converged_certifies_kkt nan inf acc0 accAdd P prob x y Sig0 _ pb n
    (pantr_satisfies_inner_contract pb n prob.m Pf hO co hinf dir R hD d0 hR0 pr hp hcrit stop oot clock
      almStop gV) hm hC hDb hmin hmm hlen hx hy hconv

/-- **C01 for ALM over PANTR, `m = 0`**: ALM passes PANTR's status through; `Converged` certifies
    stationarity within `tolerance` and `x ∈ C`. -/
theorem alm_pantr_m0_certifies_kkt (pb : ProblemCF α) (n : Nat)
    (Pf : Vec α → Vec α → Pantr.Problem α) (hO : OracleContractPantr pb n 0 Pf)
    (co : Pantr.Consts α) (hinf : 0 ≤ co.inf)
    (dir : Pantr.Direction Dd α) (R : Dd → Prop) (hD : Pantr.DirSized n dir R) (d0 : Dd) (hR0 : R d0)
    (pr : Pantr.Params α) (hp : Pantr.ParamsOK pr) (hcrit : pr.stopCrit = .ApproxKKT)
    (stop : InnerCall α → Nat → Bool) (oot clock almStop : InnerCall α → Bool) (gV : Vec α)
    (hm : prob.m = 0) (h0 : P.max_iter ≠ 0)
    (hC : ∀ b ∈ pb.C, ∀ l u, b.1 = some l → b.2 = some u → l ≤ u)
    (htol : 0 < P.tolerance) (hδ : 0 ≤ P.dual_tolerance) (hx : x.length = n) (hy : y.length = prob.m)
    (hconv : (C07.run nan inf acc0 accAdd P prob x y Sig0
      (pantrInner co Pf dir d0 pr stop oot clock almStop gV)).stats.status = .Converged) :
    KKTCert pb 0 P.tolerance P.dual_tolerance
      (C07.run nan inf acc0 accAdd P prob x y Sig0
        (pantrInner co Pf dir d0 pr stop oot clock almStop gV)).x
      (C07.run nan inf acc0 accAdd P prob x y Sig0
        (pantrInner co Pf dir d0 pr stop oot clock almStop gV)).y :=
  alm_m0_converged_certifies_kkt nan inf acc0 accAdd P prob x y Sig0 _ pb n
    (pantr_satisfies_inner_contract pb n 0 Pf hO co hinf dir R hD d0 hR0 pr hp hcrit stop oot clock
      almStop gV) hm h0 hC htol hδ hx hy hconv

end composed

/-! ### Non-vacuity (closed, over `ℚ`): problem `pbEx` of `Props/C01_Alm` (minimise `(x − 2)²` s.t. `x ≥ 0`,
    `x ≤ 1`; solution `x = 1`, `y = 2`), provider / constants / base parameters of `Proofs/PantrExampleQ` -/
section examples
open Alpaqa.Pantr.ExampleQ

local instance : Alpaqa.Proofs.C07.NoNaN ℚ := ⟨fun _ => rfl⟩

/-- PANTR parameters: those of `Proofs/PantrExampleQ` (`L_0 = 1/2`: a quarter of the true curvature of the
    augmented-Lagrangian cost `psiEx`, so the initial `backtrack_qub` doubles `L` three times) with the
    ApproxKKT criterion and `max_iter = 20` -/
def prK : Pantr.Params ℚ := { prq with stopCrit := .ApproxKKT, maxIter := 20 }

/-- the closed-form oracles of `pbEx`, with the augmented-Lagrangian cost `psiEx` and its gradient
    `∇L(x, ŷ(x))` for `eval_ψ_grad_ψ`, meet the oracle contract (`n = m = 1`) -/
theorem pbEx_contractPantr : OracleContractPantr pbEx 1 1 (cfProblemPantr pbEx psiEx (gradPsiCF pbEx)) :=
  cfProblemPantr_contract pbEx psiEx (gradPsiCF pbEx) 1 1 rfl (fun _ _ _ _ => rfl) (fun _ _ _ _ _ _ => rfl)

/-- PANTR over the closed-form oracles of `pbEx` as an inner solver (never interrupted, no time limit) -/
def pantrEx : InnerCall ℚ → InnerResult ℚ (Pantr.Stats ℚ) :=
  pantrInner coq (cfProblemPantr pbEx psiEx (gradPsiCF pbEx)) dirq 0 prK (fun _ _ => false)
    (fun _ => false) (fun _ => false) (fun _ => false) [0]

/-- **the PANTR loop model over the closed-form oracles of `pbEx` satisfies the inner contract** — no
    hypothesis left: oracle contract, provider size contract, parameter conditions are all proved for this
    instance -/
theorem pantrEx_contract : InnerContract pbEx 1 1 pantrEx :=
  pantr_satisfies_inner_contract pbEx 1 1 _ pbEx_contractPantr coq (by norm_num [coq]) dirq (fun _ => True)
    dirSized 0 trivial prK ⟨by norm_num [prK, prq], by norm_num [prK, prq], by norm_num [prK, prq]⟩ rfl
    (fun _ _ => false) (fun _ => false) (fun _ => false) (fun _ => false) [0]

/-- … and the `FuelOK` form: `L_max = 100 ≤ L_0·2⁸`, `8 < qubFuel = 16`; the flag is monotone -/
example : InnerContract pbEx 1 1 pantrEx ∧
    ∀ c, (pantrRun coq (cfProblemPantr pbEx psiEx (gradPsiCF pbEx)) dirq 0 prK (fun _ _ => false)
      (fun _ => false) [0] c).fuelOut = false :=
  pantr_satisfies_inner_contract_fuelOK pbEx 1 1 _ pbEx_contractPantr coq (by norm_num [coq]) dirq
    (fun _ => True) dirSized 0 trivial prK
    ⟨by norm_num [prK, prq], by norm_num [prK, prq], by norm_num [prK, prq]⟩ 8
    ⟨by norm_num [prK, prq], by norm_num [prK, prq], by norm_num [prK, prq], by norm_num [prK, prq]⟩ rfl
    (fun _ _ => false) (fun _ s t _ h => by cases h) (fun _ => false) (fun _ => false) (fun _ => false) [0]

/-- the contract is not vacuous there: on the well-formed call at the solution the PANTR model reports
    `Converged` at the first loop head with `x = [1]`, `y = [2]`, `err_z = [0]` -/
example : (pantrEx ⟨[1], [2], [1], [7], ⟨true, 1/10, 0, false⟩⟩).status = .Converged ∧
    (pantrEx ⟨[1], [2], [1], [7], ⟨true, 1/10, 0, false⟩⟩).x = [1] ∧
    (pantrEx ⟨[1], [2], [1], [7], ⟨true, 1/10, 0, false⟩⟩).y = [2] ∧
    (pantrEx ⟨[1], [2], [1], [7], ⟨true, 1/10, 0, false⟩⟩).errz = [0] := by decide +kernel

/-- … and from `x = [3]` (outside `D`): `Converged` after 5 iterations — one accepted trust-region step,
    four rejected ones (forward-backward fallback), three step-size backtracks —, `ε ≤ 1/10` -/
example : (pantrEx ⟨[3], [2], [1], [7], ⟨true, 1/10, 0, false⟩⟩).status = .Converged ∧
    (pantrEx ⟨[3], [2], [1], [7], ⟨true, 1/10, 0, false⟩⟩).stats.iterations = 5 ∧
    (pantrEx ⟨[3], [2], [1], [7], ⟨true, 1/10, 0, false⟩⟩).stats.acceleratedStepRejected = 4 ∧
    (pantrEx ⟨[3], [2], [1], [7], ⟨true, 1/10, 0, false⟩⟩).stats.stepsizeBacktracks = 3 ∧
    (pantrEx ⟨[3], [2], [1], [7], ⟨true, 1/10, 0, false⟩⟩).x = [134197 / 131072] ∧
    (pantrEx ⟨[3], [2], [1], [7], ⟨true, 1/10, 0, false⟩⟩).y = [265269 / 131072] ∧
    (pantrEx ⟨[3], [2], [1], [7], ⟨true, 1/10, 0, false⟩⟩).errz = [3125 / 131072] ∧
    (pantrEx ⟨[3], [2], [1], [7], ⟨true, 1/10, 0, false⟩⟩).eps ≤ 1/10 := by decide +kernel

/-- the ALM model (`Props/C07`) over the PANTR loop model on `pbEx`, from `x = [3]`, `y = [2]` -/
def almPantrEx : C07.Result ℚ (Pantr.Stats ℚ) (Pantr.Stats ℚ) :=
  C07.run (0 : ℚ) 0 (Pantr.stats0 coq) (fun _ s => s) almEx probEx [3] [2] none pantrEx

theorem almPantrEx_converged : almPantrEx.stats.status = .Converged := by decide +kernel

/-- **the whole stack, closed**: ALM over PANTR on `pbEx` returns `Converged`, and
    `alm_pantr_certifies_kkt`, every hypothesis discharged, certifies the returned pair -/
example : KKTCert pbEx 1 (1/10) (1/100) almPantrEx.x almPantrEx.y :=
  alm_pantr_certifies_kkt (0 : ℚ) 0 (Pantr.stats0 coq) (fun _ s => s) almEx probEx [3] [2] none pbEx 1 _
    pbEx_contractPantr coq (by norm_num [coq]) dirq (fun _ => True) dirSized 0 trivial prK
    ⟨by norm_num [prK, prq], by norm_num [prK, prq], by norm_num [prK, prq]⟩ rfl
    (fun _ _ => false) (fun _ => false) (fun _ => false) (fun _ => false) [0]
    (by decide) pbEx_C pbEx_D (by norm_num [almEx]) (by norm_num [almEx]) trivial rfl rfl
    almPantrEx_converged

/-- the pair it certifies (`x ≈ 1.0069`, `y ≈ 2.0514`; `|g(x) − 1| ≤ 1/100`) -/
example : almPantrEx.x = [16892841 / 16777216] ∧ almPantrEx.y = [8604233 / 4194304] := by decide +kernel

end examples

end Alpaqa.Props.C01Pantr
