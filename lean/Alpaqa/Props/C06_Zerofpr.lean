/-
  C06 (ZeroFPR) — Exit status, iteration count and reported residual mean what is documented.

  Loop-level facts about the ZeroFPR model (`Alpaqa/Model/Zerofpr.lean`): how many iterations a
  solve can report, and that the returned status / ε are the *generated* status chain
  (`Gen.C06.statusChain`) and the *generated* stopping criterion (`Gen.C06.calcErrorStopCrit`)
  evaluated at the last loop head on the data of the iterate that is returned.  Pure structure:
  any carrier (IEEE doubles included), any oracles, any stop schedule, any budget.
  What the chain and the criteria themselves mean is `Props/C06.lean`.

  `…_fuel` theorems carry the hypothesis `fuelOut = false` (asserted by the replay on every recorded
  run); the plain names at the end of the file discharge it over an ordered field from `FuelOK pr N M`
  and a stop flag that is never lowered (`Proofs/ZerofprFuel.lean`).

  `zerofpr_eps_is_documented`: the returned ε equals `Props/C06.docCrit` — the independent specification of
  the documented formulas — evaluated at the final iterate's data `(x, x̂, γ, ∇ψ(x), ∇ψ(x̂), ŷ)`, and that
  data is the proximal data of the written-back point (`x̂ = Π_C(x − γ∇ψ(x))`, `p = x̂ − x`, the gradients
  are the gradient oracle at `x` / `x̂`, `ŷ = ŷ(x̂)`, `γ > 0`); hypotheses `ProxIsProj`, `GradOracles`
  (`Proofs/ZerofprDoc.lean`), no NaN.

  The no-progress counter is pinned to the *reported* iterates: it is `npRun` (`Props/C06.lean`) of
  the flags `xₖ == xₖ₊₁` between the `x` of consecutive progress callbacks
  (`zerofpr_no_progress_counter`), so `NoProgress` is returned only after more than
  `max_no_progress` consecutive reported iterates with identical `x`
  (`zerofpr_noProgress_needs_consecutive`).
-/
import Alpaqa.Proofs.ZerofprInv
import Alpaqa.Proofs.ZerofprChain
import Alpaqa.Proofs.ZerofprFuel
import Alpaqa.Proofs.ZerofprDoc
import Alpaqa.Proofs.ZerofprExample
import Alpaqa.Props.C06

namespace Alpaqa.Props.C06_Zerofpr
open Alpaqa Alpaqa.Zerofpr Alpaqa.Gen
set_option linter.unusedSectionVars false

variable {α D : Type} [Add α] [Sub α] [Mul α] [Div α] [Neg α] [LT α] [LE α] [DecidableLT α]
  [DecidableLE α] [BEq α] [RealLike α] [NatCast α] [OfScientific α]
  [OfNat α 0] [OfNat α 1] [OfNat α 2] [OfNat α 100]

/-- One pass of the loop body advances `k` by one, or (interrupted line search) not at all. -/
theorem iterBody_k (P : Problem α) (dir : Direction D α) (pr : Params α) (stop : Nat → Bool)
    (s : St α D) (eps : α) :
    (iterBody P dir pr stop s eps).k = s.k ∨ (iterBody P dir pr stop s eps).k = s.k + 1 := by
  by_cases h : stop (lsOf P dir pr stop s).tick = true
  · exact .inl (iterBody_interrupted P dir pr stop s eps h).2.2.1
  · exact .inr (iterBody_completed P dir pr stop s eps (by simpa using h)).2.1

/-- `k ≤ max_iter` is an invariant of "loop head, `Busy`, loop body": the generated chain is
    never `Busy` at `k = max_iter`. -/
theorem k_le_step (P : Problem α) (dir : Direction D α) (pr : Params α) (stop : Nat → Bool)
    (oot : Bool) (s : St α D) (h : s.k ≤ pr.maxIter)
    (hb : (headStep P pr stop oot s).2.2 = .Busy) :
    (iterBody P dir pr stop (headStep P pr stop oot s).1 (headStep P pr stop oot s).2.1).k
      ≤ pr.maxIter := by
  have hs := headStep_same P pr stop oot s
  rw [(headStep_spec P pr stop oot s).2.2] at hb
  have hne := (chain_busy_only_if _ _ _ _ _ _ _ _ hb).1
  rcases iterBody_k P dir pr stop (headStep P pr stop oot s).1 (headStep P pr stop oot s).2.1
    with hk | hk <;> rw [hk, hs.2.1] <;> omega

/-- **The reported number of iterations never exceeds `max_iter`** — unconditionally (every
    oracle, stop schedule, budget; even if the model's fuel ran out). -/
theorem zerofpr_iterations_le_max_iter (P : Problem α) (dir : Direction D α) (d0 : D)
    (pr : Params α) (stop : Nat → Bool) (oot : Bool) (x0 y Sig errz0 gV : Vec α) (gS iS : α) :
    (run P dir d0 pr stop oot x0 y Sig errz0 gV gS iS).stats.iterations ≤ pr.maxIter := by
  unfold run
  cases hi : initState P d0 pr stop x0 gV gS with
  | inl t => simp [stats0]
  | inr s =>
    simp only []
    have hk0 : s.k ≤ pr.maxIter := by rw [(initState_good P d0 pr stop x0 gV gS s hi).2.1]; omega
    rcases mainLoop_cases P dir pr stop oot x0 y Sig errz0 (fun s => s.k ≤ pr.maxIter)
      (fun s hs hb => k_le_step P dir pr stop oot s hs hb) (pr.maxIter + 2) s hk0
      with ⟨s', hI, _, he⟩ | ⟨s', hI, he⟩
    · rw [he, (exitBlock_spec pr _ _ _ x0 y Sig errz0).2.2.1, (headStep_same P pr stop oot s').2.1]
      exact hI
    · rw [he]
      show (exitBlock pr s' s'.stats.eps .Exception x0 y Sig errz0).stats.iterations ≤ pr.maxIter
      rw [(exitBlock_spec pr _ _ _ x0 y Sig errz0).2.2.1]
      exact hI

/-- **Returned status and ε are the generated chain / criterion at the last loop head.**
    If the solve got past the initial Lipschitz estimate there is an iterate `c` — the one that
    was current at exit, `final` — and a loop-head poll of the stop flag at tick `t` (the event
    right before the final progress callback) such that
    * `ε` is the generated `calc_error_stop_crit` on `c`'s own data with `∇ψ(x̂)` the ψ-gradient
      oracle at `(c.x̂, c.ŷ)`;
    * `status` is the generated `check_all_stop_conditions` chain at `(k, ε, no_progress)` with
      `k` the reported iteration count — and it is not `Busy`. -/
theorem zerofpr_status_eps_at_last_head_fuel (P : Problem α) (dir : Direction D α) (d0 : D)
    (pr : Params α) (stop : Nat → Bool) (oot : Bool) (x0 y Sig errz0 gV : Vec α) (gS iS : α)
    (s0 : St α D) (hinit : initState P d0 pr stop x0 gV gS = .inr s0)
    (hfuel : (run P dir d0 pr stop oot x0 y Sig errz0 gV gS iS).fuelOut = false) :
    ∃ c np t,
      (run P dir d0 pr stop oot x0 y Sig errz0 gV gS iS).final = some c ∧
      (run P dir d0 pr stop oot x0 y Sig errz0 gV gS iS).stats.eps
        = epsOf P pr c (P.gradL c.xhat c.yhat) ∧
      (run P dir d0 pr stop oot x0 y Sig errz0 gV gS iS).stats.status
        = statusChain pr.tolerance pr.maxIter pr.maxNoProgress
            (run P dir d0 pr stop oot x0 y Sig errz0 gV gS iS).stats.iterations
            (run P dir d0 pr stop oot x0 y Sig errz0 gV gS iS).stats.eps np oot (stop t) ∧
      (run P dir d0 pr stop oot x0 y Sig errz0 gV gS iS).ticks = t + 1 ∧
      (run P dir d0 pr stop oot x0 y Sig errz0 gV gS iS).stats.status ≠ .Busy := by
  unfold run at hfuel ⊢
  simp only [hinit] at hfuel ⊢
  rcases mainLoop_cases P dir pr stop oot x0 y Sig errz0 (fun _ => True)
    (fun _ _ _ => trivial) (pr.maxIter + 2) s0 trivial with ⟨s', _, hnb, he⟩ | ⟨s', _, he⟩
  · have hs := headStep_same P pr stop oot s'
    have hp := headStep_spec P pr stop oot s'
    have hx := exitBlock_spec pr (headStep P pr stop oot s').1 (headStep P pr stop oot s').2.1
      (headStep P pr stop oot s').2.2 x0 y Sig errz0
    refine ⟨s'.curr, s'.noProgress, s'.tick + 2 + epsTicks pr.stopCrit, ?_, ?_, ?_, ?_, ?_⟩
    · rw [he, hx.2.2.2.2.1, hs.1]
    · rw [he, hx.2.2.2.1, hp.2.1]
    · rw [he, hx.2.1, hx.2.2.1, hx.2.2.2.1, hs.2.1]; exact hp.2.2
    · rw [he, hx.2.2.2.2.2.2.1, hs.2.2.2.2.2]
    · rw [he, hx.2.1]; exact hnb
  · rw [he] at hfuel; simp at hfuel

/-- The final progress callback reports exactly what is returned: the iterate that is written
    back, the returned ε, status and iteration count, and the `∇ψ(x̂)` the criterion was
    evaluated with. -/
theorem zerofpr_final_callback_fuel (P : Problem α) (dir : Direction D α) (d0 : D)
    (pr : Params α) (stop : Nat → Bool) (oot : Bool) (x0 y Sig errz0 gV : Vec α) (gS iS : α)
    (s0 : St α D) (hinit : initState P d0 pr stop x0 gV gS = .inr s0)
    (hfuel : (run P dir d0 pr stop oot x0 y Sig errz0 gV gS iS).fuelOut = false) :
    ∃ cb, (run P dir d0 pr stop oot x0 y Sig errz0 gV gS iS).callbacks.getLast? = some cb ∧
      (run P dir d0 pr stop oot x0 y Sig errz0 gV gS iS).final = some cb.it ∧
      cb.eps = (run P dir d0 pr stop oot x0 y Sig errz0 gV gS iS).stats.eps ∧
      cb.status = (run P dir d0 pr stop oot x0 y Sig errz0 gV gS iS).stats.status ∧
      cb.k = (run P dir d0 pr stop oot x0 y Sig errz0 gV gS iS).stats.iterations ∧
      cb.gradPsiHat = P.gradL cb.it.xhat cb.it.yhat := by
  unfold run at hfuel ⊢
  simp only [hinit] at hfuel ⊢
  rcases mainLoop_cases P dir pr stop oot x0 y Sig errz0 (fun _ => True)
    (fun _ _ _ => trivial) (pr.maxIter + 2) s0 trivial with ⟨s', _, hnb, he⟩ | ⟨s', _, he⟩
  · rw [he]
    have hp := (headStep_spec P pr stop oot s').1
    have hs := (headStep_same P pr stop oot s').1
    unfold exitBlock
    simp only [List.getLast?_reverse, List.head?_cons]
    refine ⟨_, rfl, rfl, rfl, rfl, rfl, ?_⟩
    simp only []
    rw [hp, hs]
  · rw [he] at hfuel; simp at hfuel

/-- The early return (non-finite Lipschitz estimate): `NotFinite`, zero iterations, `ε = inf` (the
    value `Stats::ε` is initialised with), no callback, nothing written. -/
theorem zerofpr_early_not_finite (P : Problem α) (dir : Direction D α) (d0 : D)
    (pr : Params α) (stop : Nat → Bool) (oot : Bool) (x0 y Sig errz0 gV : Vec α) (gS iS : α)
    (t : Nat) (hinit : initState P d0 pr stop x0 gV gS = .inl t) :
    (run P dir d0 pr stop oot x0 y Sig errz0 gV gS iS).stats.status = .NotFinite ∧
    (run P dir d0 pr stop oot x0 y Sig errz0 gV gS iS).stats.iterations = 0 ∧
    (run P dir d0 pr stop oot x0 y Sig errz0 gV gS iS).stats.eps = iS ∧
    (run P dir d0 pr stop oot x0 y Sig errz0 gV gS iS).callbacks = [] ∧
    (run P dir d0 pr stop oot x0 y Sig errz0 gV gS iS).wrote = false := by
  unfold run; simp only [hinit]
  refine ⟨?_, ?_, ?_, ?_, ?_⟩ <;> first | rfl | trivial

/-- …which happens exactly when the initial Lipschitz estimate is not finite. -/
theorem zerofpr_early_iff (P : Problem α) (d0 : D) (pr : Params α) (stop : Nat → Bool)
    (x0 gV : Vec α) (gS : α) :
    (∃ t, initState P d0 pr stop x0 gV gS = .inl t) ↔
      RealLike.isFinite (initLipschitz P pr x0 gV gS).1.L = false := by
  unfold initState
  simp only []
  cases h : RealLike.isFinite (initLipschitz P pr x0 gV gS).1.L <;> simp

/-- Consequences through the generated chain: what each returned status certifies. -/
theorem zerofpr_status_meaning_fuel (P : Problem α) (dir : Direction D α) (d0 : D)
    (pr : Params α) (stop : Nat → Bool) (oot : Bool) (x0 y Sig errz0 gV : Vec α) (gS iS : α)
    (s0 : St α D) (hinit : initState P d0 pr stop x0 gV gS = .inr s0)
    (hfuel : (run P dir d0 pr stop oot x0 y Sig errz0 gV gS iS).fuelOut = false) :
    ((run P dir d0 pr stop oot x0 y Sig errz0 gV gS iS).stats.status = .Converged ↔
      (run P dir d0 pr stop oot x0 y Sig errz0 gV gS iS).stats.eps
        ≤ (if pr.tolerance > 0 then pr.tolerance else (1e-8 : α))) ∧
    ((run P dir d0 pr stop oot x0 y Sig errz0 gV gS iS).stats.status = .MaxIter →
      (run P dir d0 pr stop oot x0 y Sig errz0 gV gS iS).stats.iterations = pr.maxIter) ∧
    ((run P dir d0 pr stop oot x0 y Sig errz0 gV gS iS).stats.status = .MaxTime → oot = true) ∧
    ((run P dir d0 pr stop oot x0 y Sig errz0 gV gS iS).stats.status = .NotFinite →
      RealLike.isFinite (run P dir d0 pr stop oot x0 y Sig errz0 gV gS iS).stats.eps = false) ∧
    ((run P dir d0 pr stop oot x0 y Sig errz0 gV gS iS).stats.status = .Interrupted →
      stop ((run P dir d0 pr stop oot x0 y Sig errz0 gV gS iS).ticks - 1) = true) ∧
    (run P dir d0 pr stop oot x0 y Sig errz0 gV gS iS).stats.status ≠ .Exception ∧
    (run P dir d0 pr stop oot x0 y Sig errz0 gV gS iS).stats.status ≠ .Busy := by
  obtain ⟨c, np, t, _, _, hst, ht, hnb⟩ :=
    zerofpr_status_eps_at_last_head_fuel P dir d0 pr stop oot x0 y Sig errz0 gV gS iS s0 hinit hfuel
  have ho := chain_only_if pr.tolerance pr.maxIter pr.maxNoProgress
    (run P dir d0 pr stop oot x0 y Sig errz0 gV gS iS).stats.iterations
    (run P dir d0 pr stop oot x0 y Sig errz0 gV gS iS).stats.eps np oot (stop t)
  rw [← hst] at ho
  refine ⟨?_, ho.2.1, ho.1, ho.2.2.1, ?_, ho.2.2.2.2.2, hnb⟩
  · rw [hst]; exact chain_converged_iff _ _ _ _ _ _ _ _
  · intro h; rw [ht, Nat.add_sub_cancel]; exact ho.2.2.2.2.1 h

/-- The no-progress counter is advanced by the generated update with the flag
    `xₖ == xₖ₊₁` (bitwise-value comparison of the two iterates' `x`), once per completed
    iteration. -/
theorem zerofpr_no_progress_update (P : Problem α) (dir : Direction D α) (pr : Params α)
    (stop : Nat → Bool) (s : St α D) (eps : α) (h : stop (lsOf P dir pr stop s).tick = false) :
    (iterBody P dir pr stop s eps).noProgress =
      noProgressUpdate s.noProgress s.k pr.maxNoProgress
        (s.curr.x == (iterBody P dir pr stop s eps).curr.x) := by
  rw [(iterBody_completed P dir pr stop s eps h).2.2.1, (iterBody_completed P dir pr stop s eps h).1]

/-! ### The no-progress counter, in terms of the reported iterates -/

/-- The "iterate unchanged" flags between consecutive progress callbacks: `xₖ == xₖ₊₁` for the `x`
    reported by callback `k` and by the next one (the final callback included). -/
def cbFlags (cbs : List (Callback α)) : List Bool := pairFlags (cbs.map (·.it.x))

theorem npRun_append (M k np : Nat) (fl : List Bool) (f : Bool) :
    C06.npRun M k np (fl ++ [f]) = noProgressUpdate (C06.npRun M k np fl) (k + fl.length) M f := by
  induction fl generalizing k np with
  | nil => simp [C06.npRun]
  | cons s ss ih =>
    simp only [List.cons_append, C06.npRun, List.length_cons]
    rw [ih]
    congr 1
    omega

/-- Loop invariant: `k` is the number of callbacks made so far, and the counter is `npRun` of the
    flags between the reported `x`s followed by the current `x`. -/
def NpInv (pr : Params α) (s : St α D) : Prop :=
  s.k = s.cbs.length ∧
  s.noProgress = C06.npRun pr.maxNoProgress 0 0
    (pairFlags ((s.cbs.map (·.it.x)).reverse ++ [s.curr.x]))

theorem npInv_step (P : Problem α) (dir : Direction D α) (pr : Params α) (stop : Nat → Bool)
    (oot : Bool) (s : St α D) (h : NpInv pr s) :
    NpInv pr (iterBody P dir pr stop (headStep P pr stop oot s).1 (headStep P pr stop oot s).2.1) := by
  have hs := headStep_same P pr stop oot s
  generalize hs' : (headStep P pr stop oot s).1 = s' at hs
  generalize (headStep P pr stop oot s).2.1 = eps
  have h' : NpInv pr s' := by
    unfold NpInv at h ⊢
    rw [hs.1, hs.2.1, hs.2.2.1, hs.2.2.2.1]; exact h
  by_cases hst : stop (lsOf P dir pr stop s').tick = true
  · have hd := iterBody_interrupted P dir pr stop s' eps hst
    unfold NpInv at h' ⊢
    rw [hd.1, hd.2.2.1, hd.2.2.2.1, hd.2.2.2.2.1]; exact h'
  · have hst' : stop (lsOf P dir pr stop s').tick = false := by simpa using hst
    have hd := iterBody_completed P dir pr stop s' eps hst'
    obtain ⟨cb, hcbs, _, _, _, _, hit⟩ := hd.2.2.2
    have hx : cb.it.x = s'.curr.x := by rw [hit]; exact updateStage_x P dir pr _ _ _
    unfold NpInv at h' ⊢
    rw [hd.1, hd.2.1, hd.2.2.1, hcbs]
    refine ⟨by rw [h'.1]; simp, ?_⟩
    simp only [List.map_cons, List.reverse_cons]
    rw [hx, pairFlags_snoc, npRun_append, ← h'.2, pairFlags_length]
    simp only [List.length_reverse, List.length_map, Nat.zero_add]
    rw [← h'.1]

/-- **The no-progress counter the status chain sees is `npRun` of the "iterate unchanged" flags of the
    reported iterates** — one flag per completed iteration, comparing the `x` handed to callback `k`
    with the `x` handed to the next callback; the reported iteration count is the number of flags.
    Together with the chain: the returned status is the generated `check_all_stop_conditions` at
    `(k, ε, that counter)`. -/
theorem zerofpr_no_progress_counter_fuel (P : Problem α) (dir : Direction D α) (d0 : D)
    (pr : Params α) (stop : Nat → Bool) (oot : Bool) (x0 y Sig errz0 gV : Vec α) (gS iS : α)
    (s0 : St α D) (hinit : initState P d0 pr stop x0 gV gS = .inr s0)
    (hfuel : (run P dir d0 pr stop oot x0 y Sig errz0 gV gS iS).fuelOut = false) :
    ∃ t,
      (run P dir d0 pr stop oot x0 y Sig errz0 gV gS iS).stats.status
        = statusChain pr.tolerance pr.maxIter pr.maxNoProgress
            (run P dir d0 pr stop oot x0 y Sig errz0 gV gS iS).stats.iterations
            (run P dir d0 pr stop oot x0 y Sig errz0 gV gS iS).stats.eps
            (C06.npRun pr.maxNoProgress 0 0
              (cbFlags (run P dir d0 pr stop oot x0 y Sig errz0 gV gS iS).callbacks)) oot (stop t) ∧
      (run P dir d0 pr stop oot x0 y Sig errz0 gV gS iS).ticks = t + 1 ∧
      (run P dir d0 pr stop oot x0 y Sig errz0 gV gS iS).stats.iterations
        = (cbFlags (run P dir d0 pr stop oot x0 y Sig errz0 gV gS iS).callbacks).length := by
  rcases run_cases P dir d0 pr stop oot x0 y Sig errz0 gV gS iS (NpInv pr)
    (fun s hi => by
      have hk := initState_good P d0 pr stop x0 gV gS s hi
      unfold NpInv
      rw [hk.2.1, hk.2.2.1, hk.2.2.2]
      simp [pairFlags, C06.npRun])
    (fun s hI _ => npInv_step P dir pr stop oot s hI) hfuel with ⟨t, ht⟩ | ⟨s', hI, _, he⟩
  · rw [hinit] at ht; exact absurd ht (by simp)
  · have hs := headStep_same P pr stop oot s'
    have hp := headStep_spec P pr stop oot s'
    have hx := exitBlock_spec pr (headStep P pr stop oot s').1 (headStep P pr stop oot s').2.1
      (headStep P pr stop oot s').2.2 x0 y Sig errz0
    have hcb : cbFlags (run P dir d0 pr stop oot x0 y Sig errz0 gV gS iS).callbacks =
        pairFlags ((s'.cbs.map (·.it.x)).reverse ++ [s'.curr.x]) := by
      rw [he, exitBlock_callbacks, hs.2.2.2.1, hs.1]
      unfold cbFlags
      simp only [List.map_append, List.map_reverse, List.map_cons, List.map_nil]
    refine ⟨s'.tick + 2 + epsTicks pr.stopCrit, ?_, ?_, ?_⟩
    · rw [hcb, ← hI.2, he, hx.2.1, hx.2.2.1, hx.2.2.2.1, hs.2.1]; exact hp.2.2
    · rw [he, hx.2.2.2.2.2.2.1, hs.2.2.2.2.2]
    · rw [hcb, pairFlags_length, he, hx.2.2.1, hs.2.1, hI.1]; simp

/-- **`NoProgress` is returned only after more than `max_no_progress` consecutive sampled iterations
    without any change of the iterate**: the last `max_no_progress + 1` (or more) flags
    `xₖ == xₖ₊₁` between the `x` of consecutive progress callbacks are all true. -/
theorem zerofpr_noProgress_needs_consecutive_fuel (P : Problem α) (dir : Direction D α) (d0 : D)
    (pr : Params α) (stop : Nat → Bool) (oot : Bool) (x0 y Sig errz0 gV : Vec α) (gS iS : α)
    (hfuel : (run P dir d0 pr stop oot x0 y Sig errz0 gV gS iS).fuelOut = false)
    (hs : (run P dir d0 pr stop oot x0 y Sig errz0 gV gS iS).stats.status = .NoProgress) :
    pr.maxNoProgress <
      ((cbFlags (run P dir d0 pr stop oot x0 y Sig errz0 gV gS iS).callbacks).reverse.takeWhile
        (· = true)).length := by
  cases hi : initState P d0 pr stop x0 gV gS with
  | inl t =>
    have := (zerofpr_early_not_finite P dir d0 pr stop oot x0 y Sig errz0 gV gS iS t hi).1
    rw [this] at hs; exact absurd hs (by decide)
  | inr s0 =>
    obtain ⟨t, hst, _, _⟩ :=
      zerofpr_no_progress_counter_fuel P dir d0 pr stop oot x0 y Sig errz0 gV gS iS s0 hi hfuel
    rw [hst] at hs
    have h1 := (chain_only_if _ _ _ _ _ _ _ _).2.2.2.1 hs
    have h2 := C06.no_progress_counts_consecutive pr.maxNoProgress
      (cbFlags (run P dir d0 pr stop oot x0 y Sig errz0 gV gS iS).callbacks) 0
    omega

/-! ### Non-vacuity: the chain the theorems refer to takes every value it can -/
section examples
local instance : RealLike Rat := ⟨id, fun _ => false, fun _ => true⟩
example : statusChain (1 : Rat) 10 5 10 2 0 false false = SolverStatus.MaxIter := by decide +kernel
example : statusChain (1 : Rat) 10 5 3 0 0 false true = SolverStatus.Converged := by decide +kernel
example : statusChain (1 : Rat) 10 5 3 2 0 false true = SolverStatus.Interrupted := by decide +kernel

open Alpaqa.Zerofpr.Example in
/-- the concrete solve of `Proofs/ZerofprExample.lean`: three iterations, `MaxIter`, and the
    reported ε is `‖p‖∞/γ` of the final iterate (`p = 1/32 − 1/16`, `γ = 1/2`). -/
example : (exRun (fun _ => false)).fuelOut = false ∧
    (exRun (fun _ => false)).stats.iterations = 3 ∧ exPr.maxIter = 3 ∧
    (exRun (fun _ => false)).stats.status = SolverStatus.MaxIter ∧
    (exRun (fun _ => false)).stats.eps = 1/16 ∧
    (exRun (fun _ => false)).callbacks.length = 4 := by
  decide +kernel
end examples

/-! ### The same statements with the fuel hypothesis discharged (ordered field) -/
section field
variable {α D : Type} [Field α] [LinearOrder α] [IsStrictOrderedRing α] [RealLike α]

/-- **Returned status and ε are the generated chain / criterion at the last loop head**, with the
    no-progress counter of the reported iterates — fuel hypothesis discharged. -/
theorem zerofpr_status_eps_at_last_head (P : Problem α) (dir : Direction D α) (d0 : D)
    (pr : Params α) (stop : Nat → Bool) (hm : StopMono stop) (N M : Nat) (hF : FuelOK pr N M)
    (oot : Bool) (x0 y Sig errz0 gV : Vec α) (gS iS : α)
    (s0 : St α D) (hinit : initState P d0 pr stop x0 gV gS = .inr s0) :
    (∃ c np t,
      (run P dir d0 pr stop oot x0 y Sig errz0 gV gS iS).final = some c ∧
      (run P dir d0 pr stop oot x0 y Sig errz0 gV gS iS).stats.eps
        = epsOf P pr c (P.gradL c.xhat c.yhat) ∧
      (run P dir d0 pr stop oot x0 y Sig errz0 gV gS iS).stats.status
        = statusChain pr.tolerance pr.maxIter pr.maxNoProgress
            (run P dir d0 pr stop oot x0 y Sig errz0 gV gS iS).stats.iterations
            (run P dir d0 pr stop oot x0 y Sig errz0 gV gS iS).stats.eps np oot (stop t) ∧
      (run P dir d0 pr stop oot x0 y Sig errz0 gV gS iS).ticks = t + 1 ∧
      (run P dir d0 pr stop oot x0 y Sig errz0 gV gS iS).stats.status ≠ .Busy) ∧
    (∃ t,
      (run P dir d0 pr stop oot x0 y Sig errz0 gV gS iS).stats.status
        = statusChain pr.tolerance pr.maxIter pr.maxNoProgress
            (run P dir d0 pr stop oot x0 y Sig errz0 gV gS iS).stats.iterations
            (run P dir d0 pr stop oot x0 y Sig errz0 gV gS iS).stats.eps
            (C06.npRun pr.maxNoProgress 0 0
              (cbFlags (run P dir d0 pr stop oot x0 y Sig errz0 gV gS iS).callbacks)) oot (stop t) ∧
      (run P dir d0 pr stop oot x0 y Sig errz0 gV gS iS).ticks = t + 1 ∧
      (run P dir d0 pr stop oot x0 y Sig errz0 gV gS iS).stats.iterations
        = (cbFlags (run P dir d0 pr stop oot x0 y Sig errz0 gV gS iS).callbacks).length) :=
  have hf := run_fuel P dir d0 pr stop hm N M hF oot x0 y Sig errz0 gV gS iS
  ⟨zerofpr_status_eps_at_last_head_fuel P dir d0 pr stop oot x0 y Sig errz0 gV gS iS s0 hinit hf,
   zerofpr_no_progress_counter_fuel P dir d0 pr stop oot x0 y Sig errz0 gV gS iS s0 hinit hf⟩

/-- What each returned status certifies — fuel hypothesis discharged. -/
theorem zerofpr_status_meaning (P : Problem α) (dir : Direction D α) (d0 : D)
    (pr : Params α) (stop : Nat → Bool) (hm : StopMono stop) (N M : Nat) (hF : FuelOK pr N M)
    (oot : Bool) (x0 y Sig errz0 gV : Vec α) (gS iS : α)
    (s0 : St α D) (hinit : initState P d0 pr stop x0 gV gS = .inr s0) :
    ((run P dir d0 pr stop oot x0 y Sig errz0 gV gS iS).stats.status = .Converged ↔
      (run P dir d0 pr stop oot x0 y Sig errz0 gV gS iS).stats.eps
        ≤ (if pr.tolerance > 0 then pr.tolerance else (1e-8 : α))) ∧
    ((run P dir d0 pr stop oot x0 y Sig errz0 gV gS iS).stats.status = .MaxIter →
      (run P dir d0 pr stop oot x0 y Sig errz0 gV gS iS).stats.iterations = pr.maxIter) ∧
    ((run P dir d0 pr stop oot x0 y Sig errz0 gV gS iS).stats.status = .MaxTime → oot = true) ∧
    ((run P dir d0 pr stop oot x0 y Sig errz0 gV gS iS).stats.status = .NotFinite →
      RealLike.isFinite (run P dir d0 pr stop oot x0 y Sig errz0 gV gS iS).stats.eps = false) ∧
    ((run P dir d0 pr stop oot x0 y Sig errz0 gV gS iS).stats.status = .Interrupted →
      stop ((run P dir d0 pr stop oot x0 y Sig errz0 gV gS iS).ticks - 1) = true) ∧
    (run P dir d0 pr stop oot x0 y Sig errz0 gV gS iS).stats.status ≠ .Exception ∧
    (run P dir d0 pr stop oot x0 y Sig errz0 gV gS iS).stats.status ≠ .Busy :=
  zerofpr_status_meaning_fuel P dir d0 pr stop oot x0 y Sig errz0 gV gS iS s0 hinit
    (run_fuel P dir d0 pr stop hm N M hF oot x0 y Sig errz0 gV gS iS)

/-- The final progress callback reports exactly what is returned — fuel hypothesis discharged. -/
theorem zerofpr_final_callback (P : Problem α) (dir : Direction D α) (d0 : D)
    (pr : Params α) (stop : Nat → Bool) (hm : StopMono stop) (N M : Nat) (hF : FuelOK pr N M)
    (oot : Bool) (x0 y Sig errz0 gV : Vec α) (gS iS : α)
    (s0 : St α D) (hinit : initState P d0 pr stop x0 gV gS = .inr s0) :
    ∃ cb, (run P dir d0 pr stop oot x0 y Sig errz0 gV gS iS).callbacks.getLast? = some cb ∧
      (run P dir d0 pr stop oot x0 y Sig errz0 gV gS iS).final = some cb.it ∧
      cb.eps = (run P dir d0 pr stop oot x0 y Sig errz0 gV gS iS).stats.eps ∧
      cb.status = (run P dir d0 pr stop oot x0 y Sig errz0 gV gS iS).stats.status ∧
      cb.k = (run P dir d0 pr stop oot x0 y Sig errz0 gV gS iS).stats.iterations ∧
      cb.gradPsiHat = P.gradL cb.it.xhat cb.it.yhat :=
  zerofpr_final_callback_fuel P dir d0 pr stop oot x0 y Sig errz0 gV gS iS s0 hinit
    (run_fuel P dir d0 pr stop hm N M hF oot x0 y Sig errz0 gV gS iS)

/-- **`NoProgress` only after more than `max_no_progress` consecutive reported iterates with
    identical `x`** — fuel hypothesis discharged. -/
theorem zerofpr_noProgress_needs_consecutive (P : Problem α) (dir : Direction D α) (d0 : D)
    (pr : Params α) (stop : Nat → Bool) (hm : StopMono stop) (N M : Nat) (hF : FuelOK pr N M)
    (oot : Bool) (x0 y Sig errz0 gV : Vec α) (gS iS : α)
    (hs : (run P dir d0 pr stop oot x0 y Sig errz0 gV gS iS).stats.status = .NoProgress) :
    pr.maxNoProgress <
      ((cbFlags (run P dir d0 pr stop oot x0 y Sig errz0 gV gS iS).callbacks).reverse.takeWhile
        (· = true)).length :=
  zerofpr_noProgress_needs_consecutive_fuel P dir d0 pr stop oot x0 y Sig errz0 gV gS iS
    (run_fuel P dir d0 pr stop hm N M hF oot x0 y Sig errz0 gV gS iS) hs

/-! ### ε is the documented formula, recomputed from the final iterate's proximal data -/

/-- **The reported ε equals the documented formula of the selected criterion, recomputed from the final
    iterate data `(x, x̂, γ, ∇ψ(x), ∇ψ(x̂), ŷ)`** — and that data is the proximal data of the written-back
    point.  For every solve that reached the main loop there is an iterate `c` (the one current at
    exit) such that
    * `ε = docCrit Π_C crit γ x x̂ ŷ ∇ψ(x) ∇ψ(x̂)` — `Props/C06.docCrit`, the independent specification
      of the ten criteria — with `∇ψ(·)` the problem's gradient oracle evaluated at `c.x` and `c.x̂`;
    * `γ > 0`, `x̂ = Π_C(x − γ∇ψ(x))`, `p = x̂ − x`, the iterate's `∇ψ(x)` member is `∇ψ(c.x)`,
      `ŷ = ŷ(x̂)` (what `eval_ψ` returns at `x̂`);
    * whenever the outputs are written, `x_out = x̂` and `y_out = ŷ`.
    Hypotheses: `ProxIsProj` (the prox step is the projected-gradient step of a map `Π_C`),
    `GradOracles` (the three gradient entry points agree), no NaN in the carrier, positivity of
    `Lγ_factor`, `L_min`, `L_max`. -/
theorem zerofpr_eps_is_documented_fuel (hnn : ∀ a : α, RealLike.isNaN a = false) (PC : Vec α → Vec α)
    (P : Problem α)
    (hP : C06.ProxIsProj PC (fun g x gr => ((P.prox g x gr).2.1, (P.prox g x gr).2.2)))
    (hO : GradOracles P) (dir : Direction D α) (d0 : D) (pr : Params α)
    (hmin : 0 < pr.Lmin) (hmax : 0 < pr.Lmax) (hfac : 0 < pr.LgammaFactor)
    (stop : Nat → Bool) (oot : Bool) (x0 y Sig errz0 gV : Vec α) (gS iS : α)
    (s0 : St α D) (hinit : initState P d0 pr stop x0 gV gS = .inr s0)
    (hfuel : (run P dir d0 pr stop oot x0 y Sig errz0 gV gS iS).fuelOut = false) :
    ∃ c, (run P dir d0 pr stop oot x0 y Sig errz0 gV gS iS).final = some c ∧
      (run P dir d0 pr stop oot x0 y Sig errz0 gV gS iS).stats.eps =
        C06.docCrit PC pr.stopCrit c.gamma c.x c.xhat c.yhat (P.gradPsi c.x) (P.gradPsi c.xhat) ∧
      0 < c.gamma ∧ c.xhat = PC (vsub c.x (smul c.gamma (P.gradPsi c.x))) ∧
      c.p = vsub c.xhat c.x ∧ c.gradPsi = P.gradPsi c.x ∧ c.yhat = (P.psi c.xhat).2 ∧
      ((run P dir d0 pr stop oot x0 y Sig errz0 gV gS iS).wrote = true →
        (run P dir d0 pr stop oot x0 y Sig errz0 gV gS iS).x = c.xhat ∧
        (run P dir d0 pr stop oot x0 y Sig errz0 gV gS iS).y = c.yhat) := by
  rcases run_cases P dir d0 pr stop oot x0 y Sig errz0 gV gS iS
    (fun s => s.fuelOut = true ∨ DocInv P s)
    (fun s hi => .inr ⟨(initState_good P d0 pr stop x0 gV gS s hi).1,
      initState_gradAt P hO d0 pr stop x0 gV gS s hi,
      (initState_gammaInv P d0 pr stop x0 gV gS hmin hmax hfac s hi).1⟩)
    (fun s hI _ => by
      have hs := headStep_same P pr stop oot s
      rcases hI with hI | hI
      · left; rw [iterBody_fuelOut, hs.2.2.2.2.1, hI]; rfl
      · cases hfo : (iterBody P dir pr stop (headStep P pr stop oot s).1
            (headStep P pr stop oot s).2.1).fuelOut
        · exact .inr (docInv_step P hO dir pr stop oot s hI hfo)
        · left; rfl)
    hfuel with ⟨t, ht⟩ | ⟨s', hI, _, he⟩
  · rw [hinit] at ht; exact absurd ht (by simp)
  · have hs := headStep_same P pr stop oot s'
    have hp := headStep_spec P pr stop oot s'
    have hx := exitBlock_spec pr (headStep P pr stop oot s').1 (headStep P pr stop oot s').2.1
      (headStep P pr stop oot s').2.2 x0 y Sig errz0
    rw [he] at hfuel
    rw [hx.2.2.2.2.2.1, hs.2.2.2.2.1] at hfuel
    rcases hI with hI | hI
    · rw [hI] at hfuel; exact absurd hfuel (by decide)
    · obtain ⟨⟨⟨hh, hxh, hpp⟩, hy⟩, hg, hγ⟩ := hI
      have hxh' : s'.curr.xhat = PC (vsub s'.curr.x (smul s'.curr.gamma s'.curr.gradPsi)) := by
        rw [hxh]; exact congrArg Prod.fst (hP s'.curr.gamma s'.curr.x s'.curr.gradPsi)
      have hpp' : s'.curr.p = vsub s'.curr.xhat s'.curr.x := by
        rw [hpp, hxh']; exact congrArg Prod.snd (hP s'.curr.gamma s'.curr.x s'.curr.gradPsi)
      have hgh : P.gradL s'.curr.xhat s'.curr.yhat = P.gradPsi s'.curr.xhat := by
        rw [hy]; exact hO.gradL _
      refine ⟨s'.curr, by rw [he, hx.2.2.2.2.1, hs.1], ?_, hγ, by rw [← hg]; exact hxh', hpp', hg, hy, ?_⟩
      · rw [he, hx.2.2.2.1, hp.2.1, hgh, ← hg]
        unfold epsOf
        exact C06.calcErrorStopCrit_eq_doc hnn PC _ hP pr.stopCrit _ (ne_of_gt hγ) _ _ _ _ _ _ ⟨hxh', hpp'⟩
      · intro hw
        rw [he] at hw ⊢
        unfold exitBlock at hw ⊢
        simp only [] at hw ⊢
        rw [hs.1]
        exact ⟨by simp [hw], by simp [hw]⟩

/-- `zerofpr_eps_is_documented_fuel` with the fuel hypothesis discharged. -/
theorem zerofpr_eps_is_documented (hnn : ∀ a : α, RealLike.isNaN a = false) (PC : Vec α → Vec α)
    (P : Problem α)
    (hP : C06.ProxIsProj PC (fun g x gr => ((P.prox g x gr).2.1, (P.prox g x gr).2.2)))
    (hO : GradOracles P) (dir : Direction D α) (d0 : D) (pr : Params α)
    (stop : Nat → Bool) (hm : StopMono stop) (N M : Nat) (hF : FuelOK pr N M)
    (hfac : 0 < pr.LgammaFactor) (oot : Bool) (x0 y Sig errz0 gV : Vec α) (gS iS : α)
    (s0 : St α D) (hinit : initState P d0 pr stop x0 gV gS = .inr s0) :
    ∃ c, (run P dir d0 pr stop oot x0 y Sig errz0 gV gS iS).final = some c ∧
      (run P dir d0 pr stop oot x0 y Sig errz0 gV gS iS).stats.eps =
        C06.docCrit PC pr.stopCrit c.gamma c.x c.xhat c.yhat (P.gradPsi c.x) (P.gradPsi c.xhat) ∧
      0 < c.gamma ∧ c.xhat = PC (vsub c.x (smul c.gamma (P.gradPsi c.x))) ∧
      c.p = vsub c.xhat c.x ∧ c.gradPsi = P.gradPsi c.x ∧ c.yhat = (P.psi c.xhat).2 ∧
      ((run P dir d0 pr stop oot x0 y Sig errz0 gV gS iS).wrote = true →
        (run P dir d0 pr stop oot x0 y Sig errz0 gV gS iS).x = c.xhat ∧
        (run P dir d0 pr stop oot x0 y Sig errz0 gV gS iS).y = c.yhat) :=
  zerofpr_eps_is_documented_fuel hnn PC P hP hO dir d0 pr hF.lmin hF.lmax hfac stop oot x0 y Sig errz0
    gV gS iS s0 hinit (run_fuel P dir d0 pr stop hm N M hF oot x0 y Sig errz0 gV gS iS)

section examples
open Alpaqa.Zerofpr.Example

/-- a direction provider that always proposes `q = 2` -/
def dirBack : Direction Unit Rat where
  init d _ _ _ _ _ := d
  hasInitial _ := true
  apply d _ _ _ _ _ _ := (d, true, [2])
  update d _ _ _ _ _ _ _ _ := (d, true)
  changedGamma d _ _ := d
  reset d := d

/-- strictness 0, `max_no_progress = 1`: from `x₀ = 3` the step `x̂₀ + q = 1 + 2` returns to `x₀` and
    is accepted (no decrease demanded) -/
def prNP : Params Rat :=
  { exPr with lsStrictness := 0, maxNoProgress := 1, maxIter := 10, lsFuel := 4096 }

def runNP : Result Rat Unit :=
  run exP dirBack () prNP (fun _ => false) false [3] [5] [2] [7] [] 0 1000000

/-- a solve that ends with `NoProgress`: three reported iterates with the same `x = 3`, both flags
    true, counter `2 > max_no_progress = 1`; all hypotheses of the theorem hold. -/
example : runNP.stats.status = SolverStatus.NoProgress ∧ runNP.stats.iterations = 2 ∧
    runNP.callbacks.map (·.it.x) = [[3], [3], [3]] ∧ cbFlags runNP.callbacks = [true, true] ∧
    C06.npRun prNP.maxNoProgress 0 0 (cbFlags runNP.callbacks) = 2 ∧ runNP.fuelOut = false := by
  decide +kernel

example : prNP.maxNoProgress < ((cbFlags runNP.callbacks).reverse.takeWhile (· = true)).length :=
  zerofpr_noProgress_needs_consecutive exP dirBack () prNP (fun _ => false) (fun _ _ _ h => h) 7 9
    ⟨by norm_num [prNP, exPr], by norm_num [prNP, exPr], by norm_num [prNP, exPr],
     by norm_num [prNP, exPr], by norm_num, by decide⟩ false [3] [5] [2] [7] [] 0 1000000
    (by decide +kernel)

/-- `status_meaning` / `status_eps_at_last_head` / `final_callback` instantiated on the `NoProgress`
    solve (all hypotheses: `Mono`, `FuelOK`, the solve reached the main loop) -/
example : runNP.stats.status ≠ SolverStatus.Exception ∧ runNP.stats.status ≠ SolverStatus.Busy :=
  have h := zerofpr_status_meaning exP dirBack () prNP (fun _ => false) (fun _ _ _ h => h) 7 9
    ⟨by norm_num [prNP, exPr], by norm_num [prNP, exPr], by norm_num [prNP, exPr],
     by norm_num [prNP, exPr], by norm_num, by decide⟩ false [3] [5] [2] [7] [] 0 1000000 _ rfl
  ⟨h.2.2.2.2.2.1, h.2.2.2.2.2.2⟩

example : ∃ cb, runNP.callbacks.getLast? = some cb ∧ runNP.final = some cb.it ∧
    cb.eps = runNP.stats.eps ∧ cb.status = runNP.stats.status ∧ cb.k = runNP.stats.iterations ∧
    cb.gradPsiHat = exP.gradL cb.it.xhat cb.it.yhat :=
  zerofpr_final_callback exP dirBack () prNP (fun _ => false) (fun _ _ _ h => h) 7 9
    ⟨by norm_num [prNP, exPr], by norm_num [prNP, exPr], by norm_num [prNP, exPr],
     by norm_num [prNP, exPr], by norm_num, by decide⟩ false [3] [5] [2] [7] [] 0 1000000 _ rfl

/-- `exP` with its prox step written as the projected-gradient step of `Π_C = clamp to [−1, 1]`
    componentwise: `ProxIsProj` holds by definition, the gradient oracles of `exP` agree (`∇ψ(x) = x`
    from all three entry points), `ℚ` has no NaN. -/
def pcQ (v : Vec Rat) : Vec Rat := v.map clampQ

def exPD : Problem Rat :=
  { exP with prox := fun γ x g => (0, pcQ (vsub x (smul γ g)), vsub (pcQ (vsub x (smul γ g))) x) }

theorem exPD_gradOracles : GradOracles exPD := ⟨fun _ => rfl, fun _ => rfl⟩

/-- `eps_is_documented` with every hypothesis instantiated (three iterations, `FPRNorm`) … -/
example : ∃ c, (run exPD exDir () { exPr with lsFuel := 4096 } (fun _ => false) false [3] [5] [2] [7] []
      0 1000000).final = some c ∧
    (run exPD exDir () { exPr with lsFuel := 4096 } (fun _ => false) false [3] [5] [2] [7] [] 0
      1000000).stats.eps =
      C06.docCrit pcQ .FPRNorm c.gamma c.x c.xhat c.yhat (exPD.gradPsi c.x) (exPD.gradPsi c.xhat) := by
  obtain ⟨c, h1, h2, _⟩ := zerofpr_eps_is_documented (fun _ => rfl) pcQ exPD (fun _ _ _ => rfl)
    exPD_gradOracles exDir () { exPr with lsFuel := 4096 } (fun _ => false) (fun _ _ _ h => h) 7 9
    ⟨by norm_num [exPr], by norm_num [exPr], by norm_num [exPr], by norm_num [exPr], by norm_num,
     by decide⟩ (by norm_num [exPr]) false [3] [5] [2] [7] [] 0 1000000 _ rfl
  exact ⟨c, h1, h2⟩

/-- … and the number: the final iterate is `x = 1/16`, `x̂ = 1/32`, `γ = 1/2`, and
    `ε = γ⁻¹·‖x − Π_C(x − γ∇ψ(x))‖∞ = 2·(1/16 − 1/32) = 1/16`. -/
example : (run exPD exDir () { exPr with lsFuel := 4096 } (fun _ => false) false [3] [5] [2] [7] [] 0
      1000000).stats.eps = 1/16 ∧
    C06.docCrit pcQ .FPRNorm (1/2) [1/16] [1/32] [1/32] [1/16] [1/32] = 1/16 := by
  constructor
  · decide +kernel
  · norm_num [C06.docCrit, pcQ, clampQ, vsub, vzip, smul, C06Spec.maxAbs]

/-- an interrupted solve and one that runs out of iterations meet the hypotheses too -/
example : (∃ s0, initState exP () exPr stopAt9 [3] [] 0 = .inr s0) ∧
    (exRun stopAt9).stats.status = SolverStatus.Interrupted ∧ (exRun stopAt9).fuelOut = false := by
  refine ⟨⟨_, rfl⟩, ?_⟩; decide +kernel

end examples
end field

end Alpaqa.Props.C06_Zerofpr
