/-
  C06 (ZeroFPR) — Exit status, iteration count and reported residual mean what is documented.

  Loop-level facts about the ZeroFPR model (`Alpaqa/Model/Zerofpr.lean`): how many iterations a
  solve can report, and that the returned status / ε are the *generated* status chain
  (`Gen.C06.statusChain`) and the *generated* stopping criterion (`Gen.C06.calcErrorStopCrit`)
  evaluated at the last loop head on the data of the iterate that is returned.  Pure structure:
  any carrier (IEEE doubles included), any oracles, any stop schedule, any budget.
  What the chain and the criteria themselves mean is `Props/C06.lean`.
-/
import Alpaqa.Proofs.ZerofprInv
import Alpaqa.Proofs.ZerofprExample

namespace Alpaqa.Props.C06_Zerofpr
open Alpaqa Alpaqa.Zerofpr Alpaqa.Gen
set_option linter.unusedSectionVars false

variable {α D : Type} [Add α] [Sub α] [Mul α] [Div α] [Neg α] [LT α] [LE α] [DecidableLT α]
  [DecidableLE α] [BEq α] [RealLike α] [NatCast α] [OfScientific α]
  [OfNat α 0] [OfNat α 1] [OfNat α 2] [OfNat α 100]

/-- One pass of the loop body advances `k` by one, or (interrupted line search) not at all. -/
theorem iterBody_k (P : Problem α) (dir : Direction D α) (pr : Params α) (stop : Nat → Bool)
    (s : St α D) (eps : α) :
    (iterBody P dir pr stop s eps).k = s.k ∨ (iterBody P dir pr stop s eps).k = s.k + 1 := by
  by_cases h : stop (lsOf P dir pr stop s).tick = true
  · exact .inl (iterBody_interrupted P dir pr stop s eps h).2.2.1
  · exact .inr (iterBody_completed P dir pr stop s eps (by simpa using h)).2.1

/-- `k ≤ max_iter` is an invariant of "loop head, `Busy`, loop body": the generated chain is
    never `Busy` at `k = max_iter`. -/
theorem k_le_step (P : Problem α) (dir : Direction D α) (pr : Params α) (stop : Nat → Bool)
    (oot : Bool) (s : St α D) (h : s.k ≤ pr.maxIter)
    (hb : (headStep P pr stop oot s).2.2 = .Busy) :
    (iterBody P dir pr stop (headStep P pr stop oot s).1 (headStep P pr stop oot s).2.1).k
      ≤ pr.maxIter := by
  have hs := headStep_same P pr stop oot s
  rw [(headStep_spec P pr stop oot s).2.2] at hb
  have hne := (chain_busy_only_if _ _ _ _ _ _ _ _ hb).1
  rcases iterBody_k P dir pr stop (headStep P pr stop oot s).1 (headStep P pr stop oot s).2.1
    with hk | hk <;> rw [hk, hs.2.1] <;> omega

/-- **The reported number of iterations never exceeds `max_iter`** — unconditionally (every
    oracle, stop schedule, budget; even if the model's fuel ran out). -/
theorem zerofpr_iterations_le_max_iter (P : Problem α) (dir : Direction D α) (d0 : D)
    (pr : Params α) (stop : Nat → Bool) (oot : Bool) (x0 y Sig errz0 gV : Vec α) (gS : α) :
    (run P dir d0 pr stop oot x0 y Sig errz0 gV gS).stats.iterations ≤ pr.maxIter := by
  unfold run
  cases hi : initState P d0 pr stop x0 gV gS with
  | inl t => simp [stats0]
  | inr s =>
    simp only []
    have hk0 : s.k ≤ pr.maxIter := by rw [(initState_good P d0 pr stop x0 gV gS s hi).2.1]; omega
    rcases mainLoop_cases P dir pr stop oot x0 y Sig errz0 (fun s => s.k ≤ pr.maxIter)
      (fun s hs hb => k_le_step P dir pr stop oot s hs hb) (pr.maxIter + 2) s hk0
      with ⟨s', hI, _, he⟩ | ⟨s', hI, he⟩
    · rw [he, (exitBlock_spec pr _ _ _ x0 y Sig errz0).2.2.1, (headStep_same P pr stop oot s').2.1]
      exact hI
    · rw [he]
      show (exitBlock pr s' s'.stats.eps .Exception x0 y Sig errz0).stats.iterations ≤ pr.maxIter
      rw [(exitBlock_spec pr _ _ _ x0 y Sig errz0).2.2.1]
      exact hI

/-- **Returned status and ε are the generated chain / criterion at the last loop head.**
    If the solve got past the initial Lipschitz estimate there is an iterate `c` — the one that
    was current at exit, `final` — and a loop-head poll of the stop flag at tick `t` (the event
    right before the final progress callback) such that
    * `ε` is the generated `calc_error_stop_crit` on `c`'s own data with `∇ψ(x̂)` the ψ-gradient
      oracle at `(c.x̂, c.ŷ)`;
    * `status` is the generated `check_all_stop_conditions` chain at `(k, ε, no_progress)` with
      `k` the reported iteration count — and it is not `Busy`. -/
theorem zerofpr_status_eps_at_last_head (P : Problem α) (dir : Direction D α) (d0 : D)
    (pr : Params α) (stop : Nat → Bool) (oot : Bool) (x0 y Sig errz0 gV : Vec α) (gS : α)
    (s0 : St α D) (hinit : initState P d0 pr stop x0 gV gS = .inr s0)
    (hfuel : (run P dir d0 pr stop oot x0 y Sig errz0 gV gS).fuelOut = false) :
    ∃ c np t,
      (run P dir d0 pr stop oot x0 y Sig errz0 gV gS).final = some c ∧
      (run P dir d0 pr stop oot x0 y Sig errz0 gV gS).stats.eps
        = epsOf P pr c (P.gradL c.xhat c.yhat) ∧
      (run P dir d0 pr stop oot x0 y Sig errz0 gV gS).stats.status
        = statusChain pr.tolerance pr.maxIter pr.maxNoProgress
            (run P dir d0 pr stop oot x0 y Sig errz0 gV gS).stats.iterations
            (run P dir d0 pr stop oot x0 y Sig errz0 gV gS).stats.eps np oot (stop t) ∧
      (run P dir d0 pr stop oot x0 y Sig errz0 gV gS).ticks = t + 1 ∧
      (run P dir d0 pr stop oot x0 y Sig errz0 gV gS).stats.status ≠ .Busy := by
  unfold run at hfuel ⊢
  simp only [hinit] at hfuel ⊢
  rcases mainLoop_cases P dir pr stop oot x0 y Sig errz0 (fun _ => True)
    (fun _ _ _ => trivial) (pr.maxIter + 2) s0 trivial with ⟨s', _, hnb, he⟩ | ⟨s', _, he⟩
  · have hs := headStep_same P pr stop oot s'
    have hp := headStep_spec P pr stop oot s'
    have hx := exitBlock_spec pr (headStep P pr stop oot s').1 (headStep P pr stop oot s').2.1
      (headStep P pr stop oot s').2.2 x0 y Sig errz0
    refine ⟨s'.curr, s'.noProgress, s'.tick + 2 + epsTicks pr.stopCrit, ?_, ?_, ?_, ?_, ?_⟩
    · rw [he, hx.2.2.2.2.1, hs.1]
    · rw [he, hx.2.2.2.1, hp.2.1]
    · rw [he, hx.2.1, hx.2.2.1, hx.2.2.2.1, hs.2.1]; exact hp.2.2
    · rw [he, hx.2.2.2.2.2.2.1, hs.2.2.2.2.2]
    · rw [he, hx.2.1]; exact hnb
  · rw [he] at hfuel; simp at hfuel

/-- The final progress callback reports exactly what is returned: the iterate that is written
    back, the returned ε, status and iteration count, and the `∇ψ(x̂)` the criterion was
    evaluated with. -/
theorem zerofpr_final_callback (P : Problem α) (dir : Direction D α) (d0 : D)
    (pr : Params α) (stop : Nat → Bool) (oot : Bool) (x0 y Sig errz0 gV : Vec α) (gS : α)
    (s0 : St α D) (hinit : initState P d0 pr stop x0 gV gS = .inr s0)
    (hfuel : (run P dir d0 pr stop oot x0 y Sig errz0 gV gS).fuelOut = false) :
    ∃ cb, (run P dir d0 pr stop oot x0 y Sig errz0 gV gS).callbacks.getLast? = some cb ∧
      (run P dir d0 pr stop oot x0 y Sig errz0 gV gS).final = some cb.it ∧
      cb.eps = (run P dir d0 pr stop oot x0 y Sig errz0 gV gS).stats.eps ∧
      cb.status = (run P dir d0 pr stop oot x0 y Sig errz0 gV gS).stats.status ∧
      cb.k = (run P dir d0 pr stop oot x0 y Sig errz0 gV gS).stats.iterations ∧
      cb.gradPsiHat = P.gradL cb.it.xhat cb.it.yhat := by
  unfold run at hfuel ⊢
  simp only [hinit] at hfuel ⊢
  rcases mainLoop_cases P dir pr stop oot x0 y Sig errz0 (fun _ => True)
    (fun _ _ _ => trivial) (pr.maxIter + 2) s0 trivial with ⟨s', _, hnb, he⟩ | ⟨s', _, he⟩
  · rw [he]
    have hp := (headStep_spec P pr stop oot s').1
    have hs := (headStep_same P pr stop oot s').1
    unfold exitBlock
    simp only [List.getLast?_reverse, List.head?_cons]
    refine ⟨_, rfl, rfl, rfl, rfl, rfl, ?_⟩
    simp only []
    rw [hp, hs]
  · rw [he] at hfuel; simp at hfuel

/-- The early return (non-finite Lipschitz estimate): `NotFinite`, zero iterations, no callback,
    nothing written. -/
theorem zerofpr_early_not_finite (P : Problem α) (dir : Direction D α) (d0 : D)
    (pr : Params α) (stop : Nat → Bool) (oot : Bool) (x0 y Sig errz0 gV : Vec α) (gS : α)
    (t : Nat) (hinit : initState P d0 pr stop x0 gV gS = .inl t) :
    (run P dir d0 pr stop oot x0 y Sig errz0 gV gS).stats.status = .NotFinite ∧
    (run P dir d0 pr stop oot x0 y Sig errz0 gV gS).stats.iterations = 0 ∧
    (run P dir d0 pr stop oot x0 y Sig errz0 gV gS).callbacks = [] ∧
    (run P dir d0 pr stop oot x0 y Sig errz0 gV gS).wrote = false := by
  unfold run; simp only [hinit]
  refine ⟨?_, ?_, ?_, ?_⟩ <;> first | rfl | trivial

/-- …which happens exactly when the initial Lipschitz estimate is not finite. -/
theorem zerofpr_early_iff (P : Problem α) (d0 : D) (pr : Params α) (stop : Nat → Bool)
    (x0 gV : Vec α) (gS : α) :
    (∃ t, initState P d0 pr stop x0 gV gS = .inl t) ↔
      RealLike.isFinite (initLipschitz P pr x0 gV gS).1.L = false := by
  unfold initState
  simp only []
  cases h : RealLike.isFinite (initLipschitz P pr x0 gV gS).1.L <;> simp

/-- Consequences through the generated chain: what each returned status certifies. -/
theorem zerofpr_status_meaning (P : Problem α) (dir : Direction D α) (d0 : D)
    (pr : Params α) (stop : Nat → Bool) (oot : Bool) (x0 y Sig errz0 gV : Vec α) (gS : α)
    (s0 : St α D) (hinit : initState P d0 pr stop x0 gV gS = .inr s0)
    (hfuel : (run P dir d0 pr stop oot x0 y Sig errz0 gV gS).fuelOut = false) :
    ((run P dir d0 pr stop oot x0 y Sig errz0 gV gS).stats.status = .Converged ↔
      (run P dir d0 pr stop oot x0 y Sig errz0 gV gS).stats.eps
        ≤ (if pr.tolerance > 0 then pr.tolerance else (1e-8 : α))) ∧
    ((run P dir d0 pr stop oot x0 y Sig errz0 gV gS).stats.status = .MaxIter →
      (run P dir d0 pr stop oot x0 y Sig errz0 gV gS).stats.iterations = pr.maxIter) ∧
    ((run P dir d0 pr stop oot x0 y Sig errz0 gV gS).stats.status = .MaxTime → oot = true) ∧
    ((run P dir d0 pr stop oot x0 y Sig errz0 gV gS).stats.status = .NotFinite →
      RealLike.isFinite (run P dir d0 pr stop oot x0 y Sig errz0 gV gS).stats.eps = false) ∧
    ((run P dir d0 pr stop oot x0 y Sig errz0 gV gS).stats.status = .Interrupted →
      stop ((run P dir d0 pr stop oot x0 y Sig errz0 gV gS).ticks - 1) = true) ∧
    (run P dir d0 pr stop oot x0 y Sig errz0 gV gS).stats.status ≠ .Exception ∧
    (run P dir d0 pr stop oot x0 y Sig errz0 gV gS).stats.status ≠ .Busy := by
  obtain ⟨c, np, t, _, _, hst, ht, hnb⟩ :=
    zerofpr_status_eps_at_last_head P dir d0 pr stop oot x0 y Sig errz0 gV gS s0 hinit hfuel
  have ho := chain_only_if pr.tolerance pr.maxIter pr.maxNoProgress
    (run P dir d0 pr stop oot x0 y Sig errz0 gV gS).stats.iterations
    (run P dir d0 pr stop oot x0 y Sig errz0 gV gS).stats.eps np oot (stop t)
  rw [← hst] at ho
  refine ⟨?_, ho.2.1, ho.1, ho.2.2.1, ?_, ho.2.2.2.2.2, hnb⟩
  · rw [hst]; exact chain_converged_iff _ _ _ _ _ _ _ _
  · intro h; rw [ht, Nat.add_sub_cancel]; exact ho.2.2.2.2.1 h

/-- The no-progress counter is advanced by the generated update with the flag
    `xₖ == xₖ₊₁` (bitwise-value comparison of the two iterates' `x`), once per completed
    iteration. -/
theorem zerofpr_no_progress_update (P : Problem α) (dir : Direction D α) (pr : Params α)
    (stop : Nat → Bool) (s : St α D) (eps : α) (h : stop (lsOf P dir pr stop s).tick = false) :
    (iterBody P dir pr stop s eps).noProgress =
      noProgressUpdate s.noProgress s.k pr.maxNoProgress
        (s.curr.x == (iterBody P dir pr stop s eps).curr.x) := by
  rw [(iterBody_completed P dir pr stop s eps h).2.2.1, (iterBody_completed P dir pr stop s eps h).1]

/-! ### Non-vacuity: the chain the theorems refer to takes every value it can -/
section examples
local instance : RealLike Rat := ⟨id, fun _ => false, fun _ => true⟩
example : statusChain (1 : Rat) 10 5 10 2 0 false false = SolverStatus.MaxIter := by decide +kernel
example : statusChain (1 : Rat) 10 5 3 0 0 false true = SolverStatus.Converged := by decide +kernel
example : statusChain (1 : Rat) 10 5 3 2 0 false true = SolverStatus.Interrupted := by decide +kernel

open Alpaqa.Zerofpr.Example in
/-- the concrete solve of `Proofs/ZerofprExample.lean`: three iterations, `MaxIter`, and the
    reported ε is `‖p‖∞/γ` of the final iterate (`p = 1/32 − 1/16`, `γ = 1/2`). -/
example : (exRun (fun _ => false)).fuelOut = false ∧
    (exRun (fun _ => false)).stats.iterations = 3 ∧ exPr.maxIter = 3 ∧
    (exRun (fun _ => false)).stats.status = SolverStatus.MaxIter ∧
    (exRun (fun _ => false)).stats.eps = 1/16 ∧
    (exRun (fun _ => false)).callbacks.length = 4 := by
  decide +kernel
end examples

end Alpaqa.Props.C06_Zerofpr
