/-
  C19 (ZeroFPR) — `stop()` interrupts promptly, leaving valid results.

  The stop flag is the oracle `stop : Nat → Bool` of the loop model (`Alpaqa/Model/Zerofpr.lean`):
  the value a poll of the atomic flag returns after `t` events.  A flag that is never lowered is a
  *monotone* `stop`; the theorems that need this say so (`Mono stop`), the others hold for every
  schedule.  Four places poll the flag: the condition of the initial step-size loop, the loop head
  (inside the status chain), the condition of the line-search `while`, and the
  `if (stop_signal.stop_requested()) continue;` after it.

  * once the flag is visible the initial step-size loop makes no further call
    (`zerofpr_init_loop_noop`); with a flag that is never lowered the initialisation ends at tick
    `≤ max 4 (t₀ + 1)` whatever the number of backtracks still needed (`zerofpr_init_ticks_after_stop`)
    and the solve then returns from its first loop head, `≤ 4` calls later
    (`zerofpr_init_interrupted_exits`);

  * a stop request visible at a loop-head check ends the solve at that check — no direction call,
    no line search, no further iteration (`zerofpr_stop_at_head_exits`);
  * once the flag is visible the line search evaluates nothing (`zerofpr_linesearch_noop`);
  * a stop request raised *during* the line search makes the solver discard the candidate
    (`zerofpr_interrupted_linesearch_discards`), and the next loop head exits, returning the
    iterate that was current when the line search began (`zerofpr_interrupted_linesearch_exits`);
  * whatever the landing point, the returned x / y / err_z satisfy the exit contract
    (`Props/C03_Zerofpr.lean`, which quantifies over all stop schedules);
  * **whole-run bound**: with a flag that is never lowered and visible from tick `t₀` on, the solve
    makes at most `max 8 (t₀ + 7)` events in all (`zerofpr_at_most_one_iteration_after_stop`) — "at
    most one further iteration's worth of evaluations", wherever the request lands;
  * **final status**: if the request was visible early enough before the end (`t₀ + 1 ≤ ticks`) the
    status is `Interrupted`, or the natural status whose condition held at the last head
    (`zerofpr_interrupted_or_natural`).
  Not modelled: data-race freedom of the flag (C++ memory model).
-/
import Alpaqa.Proofs.ZerofprInv
import Alpaqa.Proofs.ZerofprTicks
import Alpaqa.Proofs.ZerofprFuel
import Alpaqa.Props.C06_Zerofpr
import Alpaqa.Proofs.ZerofprExample

namespace Alpaqa.Props.C19_Zerofpr
open Alpaqa Alpaqa.Zerofpr Alpaqa.Gen
set_option linter.unusedSectionVars false

variable {α D : Type} [Add α] [Sub α] [Mul α] [Div α] [Neg α] [LT α] [LE α] [DecidableLT α]
  [DecidableLE α] [BEq α] [RealLike α] [NatCast α] [OfScientific α]
  [OfNat α 0] [OfNat α 1] [OfNat α 2] [OfNat α 100]

/-- The flag is never lowered. -/
def Mono (stop : Nat → Bool) : Prop := ∀ t t', t ≤ t' → stop t = true → stop t' = true

/-- The tick at which the loop head that starts in state `s` polls the stop flag. -/
def headPollTick (pr : Params α) (s : St α D) : Nat := s.tick + 2 + epsTicks pr.stopCrit

/-- **A stop request visible at a loop-head check ends the solve at that check.**
    The status is not `Busy`: it is `Interrupted`, unless the chain would have ended the solve at
    this very check anyway (converged, out of time / iterations, not finite, no progress), in
    which case that status is reported.  The result is the exit block of *this* head: the reported
    iteration count is the current `k`, the only further callback is the final one, the only
    further events are the head's own evaluations (no direction call, no line search). -/
theorem zerofpr_stop_at_head_exits (P : Problem α) (dir : Direction D α) (pr : Params α)
    (stop : Nat → Bool) (oot : Bool) (x0 y Sig errz0 : Vec α) (fuel : Nat) (s : St α D)
    (h : stop (headPollTick pr s) = true) :
    (headStep P pr stop oot s).2.2 ≠ .Busy ∧
    (headStep P pr stop oot s).2.2 =
      (if statusChain pr.tolerance pr.maxIter pr.maxNoProgress s.k (headStep P pr stop oot s).2.1
            s.noProgress oot false = .Busy then .Interrupted
       else statusChain pr.tolerance pr.maxIter pr.maxNoProgress s.k (headStep P pr stop oot s).2.1
            s.noProgress oot false) ∧
    mainLoop P dir pr stop oot x0 y Sig errz0 (fuel + 1) s =
      exitBlock pr (headStep P pr stop oot s).1 (headStep P pr stop oot s).2.1
        (headStep P pr stop oot s).2.2 x0 y Sig errz0 ∧
    (mainLoop P dir pr stop oot x0 y Sig errz0 (fuel + 1) s).stats.iterations = s.k ∧
    (mainLoop P dir pr stop oot x0 y Sig errz0 (fuel + 1) s).ticks = headPollTick pr s + 1 ∧
    (mainLoop P dir pr stop oot x0 y Sig errz0 (fuel + 1) s).callbacks.reverse.tail = s.cbs := by
  have hp := (headStep_spec P pr stop oot s).2.2
  unfold headPollTick at h ⊢
  rw [h] at hp
  have hnb : (headStep P pr stop oot s).2.2 ≠ .Busy := by
    rw [hp]; exact chain_stop_not_busy _ _ _ _ _ _ _
  have hml : mainLoop P dir pr stop oot x0 y Sig errz0 (fuel + 1) s =
      exitBlock pr (headStep P pr stop oot s).1 (headStep P pr stop oot s).2.1
        (headStep P pr stop oot s).2.2 x0 y Sig errz0 := by
    rw [mainLoop]
    have : ((headStep P pr stop oot s).2.2 != SolverStatus.Busy) = true := by simpa using hnb
    simp only [this, if_true]
  have hs := headStep_same P pr stop oot s
  have hx := exitBlock_spec pr (headStep P pr stop oot s).1 (headStep P pr stop oot s).2.1
    (headStep P pr stop oot s).2.2 x0 y Sig errz0
  refine ⟨hnb, ?_, hml, ?_, ?_, ?_⟩
  · rw [hp]; exact chain_stop _ _ _ _ _ _ _
  · rw [hml, hx.2.2.1, hs.2.1]
  · rw [hml, hx.2.2.2.2.2.2.1, hs.2.2.2.2.2]
  · rw [hml, hx.2.2.2.2.2.2.2, hs.2.2.2.1]

/-- **Once the flag is visible the line search evaluates nothing**: polled at its loop condition,
    a set flag makes the loop return its state unchanged — no problem evaluation, no direction
    call (the event counter does not move), no statistics update, the candidate is not touched. -/
theorem zerofpr_linesearch_noop (P : Problem α) (dir : Direction D α) (pr : Params α)
    (stop : Nat → Bool) (c : Iterate α) (px : ProxIterate α) (q : Vec α) (tauInit : α)
    (fuel : Nat) (s : LS α D) (h : stop s.tick = true) :
    lineSearch P dir pr stop c px q tauInit (fuel + 1) s = s :=
  lineSearch_stop_noop P dir pr stop c px q tauInit fuel s h

/-- …in particular when the flag became visible between the loop-head check and the first pass
    (the landing point that used to swap in the never-initialised second iterate): the whole
    line search of that iteration is empty. -/
theorem zerofpr_linesearch_noop_first_pass (P : Problem α) (dir : Direction D α) (pr : Params α)
    (stop : Nat → Bool) (s : St α D) (hfuel : pr.lsFuel ≠ 0)
    (h : stop (directionStage dir s).2.1 = true) :
    lsOf P dir pr stop s =
      lsInit pr s (directionStage dir s).1 (directionStage dir s).2.1 (directionStage dir s).2.2.2.1 := by
  unfold lsOf
  obtain ⟨f, hf⟩ := Nat.exists_eq_succ_of_ne_zero hfuel
  simp only [hf]
  exact lineSearch_stop_noop P dir pr stop _ _ _ _ f _ h

/-- **Interrupted during the line search ⇒ the candidate is discarded.**  If the flag is set when
    the line search ends, the loop body `continue`s: the current iterate, `*prox`, the iteration
    counter, the no-progress counter and the callbacks are what they were at the loop head; no
    progress callback is made, `curr` and `next` are *not* swapped. -/
theorem zerofpr_interrupted_linesearch_discards (P : Problem α) (dir : Direction D α)
    (pr : Params α) (stop : Nat → Bool) (s : St α D) (eps : α)
    (h : stop (lsOf P dir pr stop s).tick = true) :
    (iterBody P dir pr stop s eps).curr = s.curr ∧ (iterBody P dir pr stop s eps).prox = s.prox ∧
    (iterBody P dir pr stop s eps).k = s.k ∧
    (iterBody P dir pr stop s eps).noProgress = s.noProgress ∧
    (iterBody P dir pr stop s eps).cbs = s.cbs ∧
    (iterBody P dir pr stop s eps).tick = (lsOf P dir pr stop s).tick :=
  iterBody_interrupted P dir pr stop s eps h

/-- **…and the next loop head exits** (flag never lowered): the solve returns from the head that
    follows the interrupted line search, with the iteration count and the iterate of the
    interrupted iteration — so what is written back is that iterate's `x̂`, `ŷ`. -/
theorem zerofpr_interrupted_linesearch_exits (P : Problem α) (dir : Direction D α)
    (pr : Params α) (stop : Nat → Bool) (hmono : Mono stop) (oot : Bool)
    (x0 y Sig errz0 : Vec α) (fuel : Nat) (s : St α D) (eps : α)
    (h : stop (lsOf P dir pr stop s).tick = true) :
    (mainLoop P dir pr stop oot x0 y Sig errz0 (fuel + 1) (iterBody P dir pr stop s eps)).stats.status
        ≠ .Busy ∧
    (mainLoop P dir pr stop oot x0 y Sig errz0 (fuel + 1) (iterBody P dir pr stop s eps)).stats.iterations
        = s.k ∧
    (mainLoop P dir pr stop oot x0 y Sig errz0 (fuel + 1) (iterBody P dir pr stop s eps)).final
        = some s.curr ∧
    (mainLoop P dir pr stop oot x0 y Sig errz0 (fuel + 1) (iterBody P dir pr stop s eps)).callbacks.reverse.tail
        = s.cbs := by
  have hd := iterBody_interrupted P dir pr stop s eps h
  have hpoll : stop (headPollTick pr (iterBody P dir pr stop s eps)) = true := by
    unfold headPollTick
    rw [hd.2.2.2.2.2]
    exact hmono _ _ (by omega) h
  have he := zerofpr_stop_at_head_exits P dir pr stop oot x0 y Sig errz0 fuel _ hpoll
  have hx := exitBlock_spec pr (headStep P pr stop oot (iterBody P dir pr stop s eps)).1
    (headStep P pr stop oot (iterBody P dir pr stop s eps)).2.1
    (headStep P pr stop oot (iterBody P dir pr stop s eps)).2.2 x0 y Sig errz0
  have hs := headStep_same P pr stop oot (iterBody P dir pr stop s eps)
  refine ⟨?_, ?_, ?_, ?_⟩
  · rw [he.2.2.1, hx.2.1]; exact he.1
  · rw [he.2.2.2.1, hd.2.2.1]
  · rw [he.2.2.1, hx.2.2.2.2.1, hs.1, hd.1]
  · rw [he.2.2.2.2.2, hd.2.2.2.2.1]

/-- With a flag that is never lowered, a stop request visible when an iteration's loop head
    *starts* is also visible at that head's check: no further iteration is started. -/
theorem zerofpr_no_further_iteration (P : Problem α) (dir : Direction D α) (pr : Params α)
    (stop : Nat → Bool) (hmono : Mono stop) (oot : Bool) (x0 y Sig errz0 : Vec α) (fuel : Nat)
    (s : St α D) (h : stop s.tick = true) :
    (mainLoop P dir pr stop oot x0 y Sig errz0 (fuel + 1) s).stats.iterations = s.k ∧
    (mainLoop P dir pr stop oot x0 y Sig errz0 (fuel + 1) s).callbacks.reverse.tail = s.cbs :=
  have hp : stop (headPollTick pr s) = true := hmono _ _ (by unfold headPollTick; omega) h
  ⟨(zerofpr_stop_at_head_exits P dir pr stop oot x0 y Sig errz0 fuel s hp).2.2.2.1,
   (zerofpr_stop_at_head_exits P dir pr stop oot x0 y Sig errz0 fuel s hp).2.2.2.2.2⟩

/-! ### The initial step-size loop -/

/-- **Once the flag is visible the initial step-size loop makes no further call**: the loop
    `while (!stop_requested() && L < L_max && qub_violated)` polls the flag first. -/
theorem zerofpr_init_loop_noop (P : Problem α) (pr : Params α) (stop : Nat → Bool) (f : Nat)
    (c : Iterate α) (t b : Nat) (h : stop t = true) :
    initQub P pr stop (f + 1) c t b = (c, t, b, false) :=
  initQub_stop_noop P pr stop f c t b h

/-- **The initialisation is interruptible**: with a flag that is never lowered and visible from tick
    `t₀` on, the initialisation ends at tick `≤ max 4 (t₀ + 1)`, whatever the number of step-size
    backtracks the quadratic upper bound would still ask for (`4` = Lipschitz estimate `≤ 2` + first
    proximal-gradient step and `ψ(x̂)`, made before the first poll). -/
theorem zerofpr_init_ticks_after_stop (P : Problem α) (d0 : D) (pr : Params α) (stop : Nat → Bool)
    (hmono : Mono stop) (t0 : Nat) (h0 : stop t0 = true) (x0 gV : Vec α) (gS : α) (s : St α D)
    (hi : initState P d0 pr stop x0 gV gS = .inr s) : s.tick ≤ max 4 (t0 + 1) := by
  have hc : (initLipschitz P pr x0 gV gS).2.2 ≤ 2 := by
    unfold initLipschitz; simp only []; split_ifs <;> simp
  unfold initState at hi
  simp only [] at hi
  split_ifs at hi
  injection hi with hi; subst hi
  simp only []
  exact Nat.le_trans (initQub_tick_bound P pr stop hmono t0 h0 _ _ _ _) (by omega)

/-- **A solve whose initial step-size loop was cut short returns from its first loop head** (flag
    never lowered): zero iterations, the single final callback, the initial iterate returned, and at
    most `4` further calls (the head's `∇ψ(x̂)`, `p̂`, the criterion's unit step, the callback). -/
theorem zerofpr_init_interrupted_exits (P : Problem α) (dir : Direction D α) (d0 : D)
    (pr : Params α) (stop : Nat → Bool) (hmono : Mono stop) (oot : Bool)
    (x0 y Sig errz0 gV : Vec α) (gS iS : α) (s : St α D)
    (hi : initState P d0 pr stop x0 gV gS = .inr s) (h : stop s.tick = true) :
    (run P dir d0 pr stop oot x0 y Sig errz0 gV gS iS).stats.status ≠ .Busy ∧
    (run P dir d0 pr stop oot x0 y Sig errz0 gV gS iS).stats.iterations = 0 ∧
    (run P dir d0 pr stop oot x0 y Sig errz0 gV gS iS).final = some s.curr ∧
    (run P dir d0 pr stop oot x0 y Sig errz0 gV gS iS).callbacks.length = 1 ∧
    (run P dir d0 pr stop oot x0 y Sig errz0 gV gS iS).ticks ≤ s.tick + 4 := by
  have hg := initState_good P d0 pr stop x0 gV gS s hi
  have hp : stop (headPollTick pr s) = true := hmono _ _ (by unfold headPollTick; omega) h
  have he := zerofpr_stop_at_head_exits P dir pr stop oot x0 y Sig errz0 (pr.maxIter + 1) s hp
  have hx := exitBlock_spec pr (headStep P pr stop oot s).1 (headStep P pr stop oot s).2.1
    (headStep P pr stop oot s).2.2 x0 y Sig errz0
  have hs := headStep_same P pr stop oot s
  have hr : run P dir d0 pr stop oot x0 y Sig errz0 gV gS iS =
      mainLoop P dir pr stop oot x0 y Sig errz0 (pr.maxIter + 1 + 1) s := by
    unfold run; rw [hi]
  have he' : epsTicks pr.stopCrit ≤ 1 := by cases pr.stopCrit <;> simp [epsTicks]
  refine ⟨?_, ?_, ?_, ?_, ?_⟩
  · rw [hr, he.2.2.1, hx.2.1]; exact he.1
  · rw [hr, he.2.2.2.1]; exact hg.2.1
  · rw [hr, he.2.2.1, hx.2.2.2.2.1, hs.1]
  · have ht := he.2.2.2.2.2
    rw [← hr, hg.2.2.1] at ht
    have hl := congrArg List.length ht
    simp only [List.length_tail, List.length_reverse, List.length_nil] at hl
    have hne : (run P dir d0 pr stop oot x0 y Sig errz0 gV gS iS).callbacks ≠ [] := by
      rw [hr, he.2.2.1]; unfold exitBlock; simp
    have := List.length_pos_iff.mpr hne
    omega
  · rw [hr, he.2.2.2.2.1]; unfold headPollTick; omega

/-! ### Whole-run bound and final status -/

/-- Tick bound for the main loop: with a flag that is never lowered and visible from tick `t₀` on, a
    solve that is at a loop head at tick `s.tick` ends at tick `≤ max (s.tick + 4) (t₀ + 7)`
    (`4` = head `≤ 3` + final callback; `7` = `≤ 3` calls of the stage in flight when the flag became
    visible, then that head and the final callback). -/
theorem zerofpr_mainLoop_ticks_after_stop (P : Problem α) (dir : Direction D α) (pr : Params α)
    (stop : Nat → Bool) (hmono : Mono stop) (t0 : Nat) (h0 : stop t0 = true) (oot : Bool)
    (x0 y Sig errz0 : Vec α) (fuel : Nat) (s : St α D) :
    (mainLoop P dir pr stop oot x0 y Sig errz0 fuel s).ticks ≤ max (s.tick + 4) (t0 + 7) :=
  mainLoop_ticks_after_stop P dir pr stop hmono t0 h0 oot x0 y Sig errz0 fuel s

/-- **At most one further iteration's worth of evaluations after `stop()`** — wherever the request
    lands, the initialisation included: if the flag (never lowered) is visible from tick `t₀` on, the
    solve ends at tick `≤ max 8 (t₀ + 7)`, independent of the number of step-size backtracks or
    line-search passes still pending, and without any fuel hypothesis.
    `8` = a request already visible at the first poll: `≤ 4` calls before that poll (Lipschitz
    estimate, first proximal-gradient step) + first head (`≤ 3`) + final callback;
    `t₀ + 7`: see `zerofpr_mainLoop_ticks_after_stop`. -/
theorem zerofpr_at_most_one_iteration_after_stop (P : Problem α) (dir : Direction D α) (d0 : D)
    (pr : Params α) (stop : Nat → Bool) (hmono : Mono stop) (t0 : Nat) (h0 : stop t0 = true)
    (oot : Bool) (x0 y Sig errz0 gV : Vec α) (gS iS : α) :
    (run P dir d0 pr stop oot x0 y Sig errz0 gV gS iS).ticks ≤ max 8 (t0 + 7) := by
  unfold run
  cases hi : initState P d0 pr stop x0 gV gS with
  | inl t =>
    simp only []
    have hc : (initLipschitz P pr x0 gV gS).2.2 ≤ 2 := by
      unfold initLipschitz; simp only []; split_ifs <;> simp
    unfold initState at hi
    simp only [] at hi
    split_ifs at hi
    injection hi with hi
    omega
  | inr s =>
    simp only []
    have h1 := zerofpr_init_ticks_after_stop P d0 pr stop hmono t0 h0 x0 gV gS s hi
    have h2 := zerofpr_mainLoop_ticks_after_stop P dir pr stop hmono t0 h0 oot x0 y Sig errz0
      (pr.maxIter + 2) s
    omega

/-- The bound in the form `t₀ + c`: `≤ t₀ + 8` always, `≤ t₀ + 7` for a request that lands during or
    after the first oracle call (`t₀ ≥ 1` — every request made while the solve is running). -/
theorem zerofpr_ticks_after_stop_le (P : Problem α) (dir : Direction D α) (d0 : D)
    (pr : Params α) (stop : Nat → Bool) (hmono : Mono stop) (t0 : Nat) (h0 : stop t0 = true)
    (oot : Bool) (x0 y Sig errz0 gV : Vec α) (gS iS : α) :
    (run P dir d0 pr stop oot x0 y Sig errz0 gV gS iS).ticks ≤ t0 + 8 ∧
    (1 ≤ t0 → (run P dir d0 pr stop oot x0 y Sig errz0 gV gS iS).ticks ≤ t0 + 7) := by
  have := zerofpr_at_most_one_iteration_after_stop P dir d0 pr stop hmono t0 h0 oot x0 y Sig errz0
    gV gS iS
  constructor
  · omega
  · intro h1; omega

/-- With the stop flag visible, the chain returns `Interrupted` unless one of the higher-priority
    conditions holds — and then it returns exactly that condition's status. -/
theorem chain_with_stop (tol : α) (maxIter maxNP k : Nat) (ε : α) (np : Nat) (oot : Bool) :
    statusChain tol maxIter maxNP k ε np oot true = .Interrupted ∨
    (statusChain tol maxIter maxNP k ε np oot true = .Converged ∧ ε ≤ C06.effTol tol) ∨
    (statusChain tol maxIter maxNP k ε np oot true = .MaxTime ∧ oot = true) ∨
    (statusChain tol maxIter maxNP k ε np oot true = .MaxIter ∧ k = maxIter) ∨
    (statusChain tol maxIter maxNP k ε np oot true = .NotFinite ∧ RealLike.isFinite ε = false) ∨
    (statusChain tol maxIter maxNP k ε np oot true = .NoProgress ∧ np > maxNP) := by
  unfold statusChain C06.effTol
  simp only []
  split_ifs <;> simp_all

/-- **Final status is `Interrupted` unless a higher-priority chain condition holds at that head**:
    if the flag (never lowered) was visible from tick `t₀` and the solve made more than `t₀` events in
    all (`t₀ + 1 ≤ ticks`; in particular whenever `t₀ + 2 ≤ ticks`) — i.e. it did not finish before
    the request could be seen (the last head polls at tick `ticks − 1`, the exit block adds the final
    callback) — the returned status is `Interrupted`, or it is the natural status whose condition
    held at the last head: `Converged ∧ ε ≤ tol'`, `MaxTime`, `MaxIter ∧ iterations = max_iter`,
    `NotFinite ∧ ε not finite`, `NoProgress ∧ counter > max_no_progress` with the counter of the
    reported iterates (`Props/C06_Zerofpr.cbFlags`). -/
theorem zerofpr_interrupted_or_natural_fuel (P : Problem α) (dir : Direction D α) (d0 : D)
    (pr : Params α) (stop : Nat → Bool) (hmono : Mono stop) (t0 : Nat) (h0 : stop t0 = true)
    (oot : Bool) (x0 y Sig errz0 gV : Vec α) (gS iS : α) (s0 : St α D)
    (hinit : initState P d0 pr stop x0 gV gS = .inr s0)
    (hfuel : (run P dir d0 pr stop oot x0 y Sig errz0 gV gS iS).fuelOut = false)
    (hlate : t0 + 1 ≤ (run P dir d0 pr stop oot x0 y Sig errz0 gV gS iS).ticks) :
    (run P dir d0 pr stop oot x0 y Sig errz0 gV gS iS).stats.status = .Interrupted ∨
    ((run P dir d0 pr stop oot x0 y Sig errz0 gV gS iS).stats.status = .Converged ∧
      (run P dir d0 pr stop oot x0 y Sig errz0 gV gS iS).stats.eps ≤ C06.effTol pr.tolerance) ∨
    ((run P dir d0 pr stop oot x0 y Sig errz0 gV gS iS).stats.status = .MaxTime ∧ oot = true) ∨
    ((run P dir d0 pr stop oot x0 y Sig errz0 gV gS iS).stats.status = .MaxIter ∧
      (run P dir d0 pr stop oot x0 y Sig errz0 gV gS iS).stats.iterations = pr.maxIter) ∨
    ((run P dir d0 pr stop oot x0 y Sig errz0 gV gS iS).stats.status = .NotFinite ∧
      RealLike.isFinite (run P dir d0 pr stop oot x0 y Sig errz0 gV gS iS).stats.eps = false) ∨
    ((run P dir d0 pr stop oot x0 y Sig errz0 gV gS iS).stats.status = .NoProgress ∧
      C06.npRun pr.maxNoProgress 0 0
        (C06_Zerofpr.cbFlags (run P dir d0 pr stop oot x0 y Sig errz0 gV gS iS).callbacks)
          > pr.maxNoProgress) := by
  obtain ⟨t, hst, ht, _⟩ := C06_Zerofpr.zerofpr_no_progress_counter_fuel P dir d0 pr stop oot
    x0 y Sig errz0 gV gS iS s0 hinit hfuel
  have hstop : stop t = true := hmono t0 t (by omega) h0
  rw [hstop] at hst
  rw [hst]
  exact chain_with_stop _ _ _ _ _ _ _

/-- Non-vacuity of `Mono`: the schedule the replay uses, `t ≥ stoptick`. -/
example (k : Nat) : Mono (fun t => decide (t ≥ k)) := by
  intro t t' h1 h2; simp only [decide_eq_true_eq] at *; omega

example : Mono (fun _ => false) := by intro t t' _ h; exact h

section examples
open Alpaqa.Zerofpr.Example

example : Mono stopAt9 := by
  intro t t' h1 h2; unfold stopAt9 at *; simp only [decide_eq_true_eq] at *; omega

/-- the concrete solve of `Proofs/ZerofprExample.lean`, stop request during event 9 (inside the
    line search of iteration 0): candidate discarded, exit at the next head with `Interrupted`,
    zero iterations, a single (final) callback, 12 events in total instead of 30. -/
example : (exRun stopAt9).stats.status = SolverStatus.Interrupted ∧
    (exRun stopAt9).stats.iterations = 0 ∧ (exRun stopAt9).callbacks.length = 1 ∧
    (exRun stopAt9).ticks = 12 ∧ (exRun (fun _ => false)).ticks = 30 := by
  decide +kernel

/-- `L_0 = 1/16`: the initial step-size loop would backtrack 4 times; a request landing inside it
    (flag visible from tick 4, i.e. during the first backtrack) ends it after that backtrack, and the
    first head returns `Interrupted` at tick 8 = 4 + 4 with the single final callback; undisturbed the
    solve takes 38 events. -/
example :
    let r := fun stop => run exP exDir () { exPr with L0 := 1/16 } stop false [3] [5] [2] [7] [] 0 1000000
    (r (fun t => decide (t ≥ 4))).stats.status = SolverStatus.Interrupted ∧
    (r (fun t => decide (t ≥ 4))).stats.stepsizeBacktracks = 1 ∧
    (r (fun t => decide (t ≥ 4))).ticks = 8 ∧ (r (fun t => decide (t ≥ 4))).callbacks.length = 1 ∧
    (r (fun t => decide (t ≥ 4))).stats.iterations = 0 ∧
    (r (fun _ => false)).stats.stepsizeBacktracks = 4 ∧ (r (fun _ => false)).ticks = 38 := by
  decide +kernel

end examples

/-! ### Fuel hypothesis discharged (ordered field) -/
section field
variable {α D : Type} [Field α] [LinearOrder α] [IsStrictOrderedRing α] [RealLike α]

/-- `zerofpr_interrupted_or_natural_fuel` with the fuel hypothesis discharged from `FuelOK`. -/
theorem zerofpr_interrupted_or_natural (P : Problem α) (dir : Direction D α) (d0 : D)
    (pr : Params α) (stop : Nat → Bool) (hmono : Mono stop) (N M : Nat) (hF : FuelOK pr N M)
    (t0 : Nat) (h0 : stop t0 = true)
    (oot : Bool) (x0 y Sig errz0 gV : Vec α) (gS iS : α) (s0 : St α D)
    (hinit : initState P d0 pr stop x0 gV gS = .inr s0)
    (hlate : t0 + 1 ≤ (run P dir d0 pr stop oot x0 y Sig errz0 gV gS iS).ticks) :
    (run P dir d0 pr stop oot x0 y Sig errz0 gV gS iS).stats.status = .Interrupted ∨
    ((run P dir d0 pr stop oot x0 y Sig errz0 gV gS iS).stats.status = .Converged ∧
      (run P dir d0 pr stop oot x0 y Sig errz0 gV gS iS).stats.eps ≤ C06.effTol pr.tolerance) ∨
    ((run P dir d0 pr stop oot x0 y Sig errz0 gV gS iS).stats.status = .MaxTime ∧ oot = true) ∨
    ((run P dir d0 pr stop oot x0 y Sig errz0 gV gS iS).stats.status = .MaxIter ∧
      (run P dir d0 pr stop oot x0 y Sig errz0 gV gS iS).stats.iterations = pr.maxIter) ∨
    ((run P dir d0 pr stop oot x0 y Sig errz0 gV gS iS).stats.status = .NotFinite ∧
      RealLike.isFinite (run P dir d0 pr stop oot x0 y Sig errz0 gV gS iS).stats.eps = false) ∨
    ((run P dir d0 pr stop oot x0 y Sig errz0 gV gS iS).stats.status = .NoProgress ∧
      C06.npRun pr.maxNoProgress 0 0
        (C06_Zerofpr.cbFlags (run P dir d0 pr stop oot x0 y Sig errz0 gV gS iS).callbacks)
          > pr.maxNoProgress) :=
  zerofpr_interrupted_or_natural_fuel P dir d0 pr stop hmono t0 h0 oot x0 y Sig errz0 gV gS iS s0
    hinit (run_fuel P dir d0 pr stop hmono N M hF oot x0 y Sig errz0 gV gS iS) hlate

/-- **The model's fuel never runs out** for parameters satisfying `FuelOK` and a flag that is never
    lowered — in particular the main loop never ends in the model's artificial `Exception` exit. -/
theorem zerofpr_fuel_suffices (P : Problem α) (dir : Direction D α) (d0 : D) (pr : Params α)
    (stop : Nat → Bool) (hmono : Mono stop) (N M : Nat) (hF : FuelOK pr N M) (oot : Bool)
    (x0 y Sig errz0 gV : Vec α) (gS iS : α) :
    (run P dir d0 pr stop oot x0 y Sig errz0 gV gS iS).fuelOut = false :=
  run_fuel P dir d0 pr stop hmono N M hF oot x0 y Sig errz0 gV gS iS

section examples
open Alpaqa.Zerofpr.Example

/-- the concrete solve with the flag visible from tick 9: all hypotheses hold (`FuelOK`, `Mono`, the
    solve reached the main loop, `9 + 1 ≤ 12 = ticks`), the status is `Interrupted`, and the whole-run
    bound `12 ≤ max 8 (9 + 7)` is met. -/
example : (∃ s0, initState exP () { exPr with lsFuel := 4096 } stopAt9 [3] [] 0 = .inr s0) ∧
    (run exP exDir () { exPr with lsFuel := 4096 } stopAt9 false [3] [5] [2] [7] [] 0 1000000).ticks = 12 ∧
    (run exP exDir () { exPr with lsFuel := 4096 } stopAt9 false [3] [5] [2] [7] [] 0
      1000000).stats.status = SolverStatus.Interrupted := by
  refine ⟨⟨_, rfl⟩, ?_⟩; decide +kernel

end examples
end field

end Alpaqa.Props.C19_Zerofpr
