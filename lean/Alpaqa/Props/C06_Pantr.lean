/-
  C06 (PANTR) — Exit status, iteration count and reported residual mean what is documented.

  Loop-level facts about the PANTR model (`Alpaqa/Model/Pantr.lean`), for every problem oracle,
  direction provider, stop schedule, budget and parameter set, over any carrier.  The chain
  (`statusChain`) and the criteria (`calcErrorStopCrit`, `requiresGradHat`) are the generated ones
  (`Gen/C06.lean`); what they mean is `Props/C06.lean` — the corollaries below instantiate those
  theorems at PANTR's exit.

  **PANTR-SPECIFIC — THE NO-PROGRESS CLAUSE IS VACUOUS.**  pantr.tpp declares `unsigned no_progress = 0`,
  hands it to `check_all_stop_conditions` and NEVER updates it (there is no `++no_progress` / reset in
  the file).  The chain therefore always sees the counter 0: `NoProgress` is never reported
  (`pantr_never_noProgress`), the property's clause "NoProgress only after more than max_no_progress
  consecutive sampled iterations without any change of the iterate" holds vacuously, and
  `PANTRParams::max_no_progress` is a dead parameter of this solver.  The property text constrains only
  WHEN `NoProgress` may be reported, so this is not a violation of C06; but a PANTR run whose iterate
  no longer changes is not stopped by it: it runs on to `max_iter` (or the time limit) — exhibited on
  the real solver, see `checks/loop_pantr.py: stall_experiment`.  PANOC / ZeroFPR return `NoProgress`
  on the same problem.

  `pantr_eps_is_documented` (ordered field): the returned `ε` is the DOCUMENTED formula (`Props/C06.docCrit`,
  an independent specification with mathematical norms and the projection `Π_C`) of the final iterate's
  `(x, x̂, γ, ∇ψ(x), ∇ψ(x̂), ŷ)`, where that iterate is consistent: `x̂ = Π_C(x − γ∇ψ(x))`, `p = x̂ − x`,
  `grad_ψ = ∇ψ(x)`, `ŷ = ŷ(x̂)`, `γ > 0`, and `x̂`, `ŷ` are what is written back.  Hypotheses: no NaN
  (`RealLike.isNaN` constantly false: ordered-field semantics), `ProxIsProj PC prox` (the prox oracle is the
  projected-gradient step of `Π_C`), `GradOracles P` (`eval_ψ_grad_ψ`, `eval_grad_ψ`, `eval_grad_L(·, ŷ(·))`
  return the same gradient), `ParamsOK` (`0 < Lγ_factor, L_min, L_max`).  No fuel hypothesis, every stop
  schedule, every direction provider.
-/
import Alpaqa.Proofs.PantrInv
import Alpaqa.Proofs.PantrDoc
import Alpaqa.Proofs.PantrExample
import Alpaqa.Proofs.PantrExampleQ
import Alpaqa.Props.C06

namespace Alpaqa.Props.C06_Pantr
open Alpaqa Alpaqa.Pantr Alpaqa.Gen
set_option linter.unusedSectionVars false

section structural
variable {α D : Type} [Add α] [Sub α] [Mul α] [Div α] [Neg α] [LT α] [LE α] [DecidableLT α]
  [DecidableLE α] [BEq α] [RealLike α] [NatCast α] [OfScientific α]
  [OfNat α 0] [OfNat α 1] [OfNat α 2] [OfNat α 100]

/-- **Every return from the main loop is an exit at a loop head** (never the model's loop fuel):
    there is a state `s'` with `k ≤ max_iter` whose head check returned a non-`Busy` status, and the
    result is the exit block run on that head. -/
theorem pantr_exit_is_head_exit (co : Consts α) (P : Problem α) (dir : Direction D α) (d0 : D)
    (pr : Params α) (stop : Nat → Bool) (oot : Bool) (x0 y Sig errz0 gV : Vec α) (s : St α D)
    (hi : initState co P d0 pr stop x0 gV = .inr s) :
    ∃ s' : St α D, s'.k ≤ pr.maxIter ∧ Good P s'.curr ∧ (headStep P pr stop oot s').2.2 ≠ .Busy ∧
      run co P dir d0 pr stop oot x0 y Sig errz0 gV =
        exitBlock co pr (headStep P pr stop oot s').1 (headStep P pr stop oot s').2.1
          (headStep P pr stop oot s').2.2 x0 y Sig errz0 := by
  have hs := initState_good co P d0 pr stop x0 gV s hi
  obtain ⟨s', h1, -, h3, h4, h5⟩ := mainLoop_exit_at_head co P dir pr stop oot x0 y Sig errz0
    (pr.maxIter + 1) s (by rw [hs.2.2.1]; omega) (by omega) hs.1
  refine ⟨s', h1, h3, h4, ?_⟩
  unfold run; simp only [hi]; exact h5

/-- **The iteration count never exceeds `max_iter`** (budget 0 included). -/
theorem pantr_iterations_le_max_iter (co : Consts α) (P : Problem α) (dir : Direction D α) (d0 : D)
    (pr : Params α) (stop : Nat → Bool) (oot : Bool) (x0 y Sig errz0 gV : Vec α) :
    (run co P dir d0 pr stop oot x0 y Sig errz0 gV).stats.iterations ≤ pr.maxIter := by
  cases hi : initState co P d0 pr stop x0 gV with
  | inl t => unfold run; simp [hi, stats0]
  | inr s =>
    obtain ⟨s', h1, -, -, he⟩ := pantr_exit_is_head_exit co P dir d0 pr stop oot x0 y Sig errz0 gV s hi
    rw [he, (exitBlock_fields co pr _ _ _ x0 y Sig errz0).2.2.1, (headStep_same P pr stop oot s').2.2.1]
    exact h1

/-- **The returned status is the generated chain evaluated at the last head**: at the returned
    iteration count, the returned `ε`, `no_progress = 0`, and the stop flag as polled at the last
    event before the final callback. -/
theorem pantr_status_is_chain (co : Consts α) (P : Problem α) (dir : Direction D α) (d0 : D)
    (pr : Params α) (stop : Nat → Bool) (oot : Bool) (x0 y Sig errz0 gV : Vec α) (s : St α D)
    (hi : initState co P d0 pr stop x0 gV = .inr s) :
    (run co P dir d0 pr stop oot x0 y Sig errz0 gV).stats.status =
      statusChain pr.tolerance pr.maxIter pr.maxNoProgress
        (run co P dir d0 pr stop oot x0 y Sig errz0 gV).stats.iterations
        (run co P dir d0 pr stop oot x0 y Sig errz0 gV).stats.eps 0 oot
        (stop ((run co P dir d0 pr stop oot x0 y Sig errz0 gV).ticks - 1)) := by
  obtain ⟨s', -, -, -, he⟩ := pantr_exit_is_head_exit co P dir d0 pr stop oot x0 y Sig errz0 gV s hi
  have hf := exitBlock_fields co pr (headStep P pr stop oot s').1 (headStep P pr stop oot s').2.1
    (headStep P pr stop oot s').2.2 x0 y Sig errz0
  rw [he, hf.2.1, hf.2.2.1, hf.2.2.2.1, hf.2.2.2.2.2.1, Nat.add_sub_cancel]
  exact headStep_status P pr stop oot s'

/-- **The returned `ε` is the generated criterion of the final iterate**: with `c` the iterate that
    was current at exit (the one whose `x̂`, `ŷ` are written back), `ε` is `calc_error_stop_crit` of
    `c`'s own `(p, γ, x, x̂, ŷ, ∇ψ(x))` and a vector `gh` which *is* `∇ψ(x̂) = eval_grad_L(x̂, ŷ)`,
    freshly evaluated, whenever the criterion reads it (`requires_grad_hat_sound` of `Props/C06`
    shows the other criteria do not depend on `gh`).  `c` is consistent (`Good`). -/
theorem pantr_eps_is_crit_of_final (co : Consts α) (P : Problem α) (dir : Direction D α) (d0 : D)
    (pr : Params α) (stop : Nat → Bool) (oot : Bool) (x0 y Sig errz0 gV : Vec α) (s : St α D)
    (hi : initState co P d0 pr stop x0 gV = .inr s) :
    ∃ (c : Iterate α) (gh : Vec α),
      (run co P dir d0 pr stop oot x0 y Sig errz0 gV).final = some c ∧ Good P c ∧
      (run co P dir d0 pr stop oot x0 y Sig errz0 gV).stats.eps =
        calcErrorStopCrit pr.stopCrit (fun g x gr => ((P.prox g x gr).2.1, (P.prox g x gr).2.2))
          c.p c.gamma c.x c.xhat c.yhat c.gradPsi gh ∧
      (requiresGradHat pr.stopCrit = true → gh = P.gradL c.xhat c.yhat) := by
  obtain ⟨s', -, hg, -, he⟩ := pantr_exit_is_head_exit co P dir d0 pr stop oot x0 y Sig errz0 gV s hi
  have hf := exitBlock_fields co pr (headStep P pr stop oot s').1 (headStep P pr stop oot s').2.1
    (headStep P pr stop oot s').2.2 x0 y Sig errz0
  have hh := headStep_same P pr stop oot s'
  have hε := headStep_eps P pr stop oot s'
  refine ⟨s'.curr, (headStep P pr stop oot s').1.gradPsiHat, ?_, hg, ?_, hε.2⟩
  · rw [he, hf.2.2.2.2.1, hh.1]
  · rw [he, hf.2.2.2.1, hε.1]; rfl

/-- The final progress callback reports exactly the returned status, `ε`, iteration count and the
    final iterate. -/
theorem pantr_final_callback (co : Consts α) (P : Problem α) (dir : Direction D α) (d0 : D)
    (pr : Params α) (stop : Nat → Bool) (oot : Bool) (x0 y Sig errz0 gV : Vec α) (s : St α D)
    (hi : initState co P d0 pr stop x0 gV = .inr s) :
    ∃ cb : Callback α,
      (run co P dir d0 pr stop oot x0 y Sig errz0 gV).callbacks.getLast? = some cb ∧
      cb.status = (run co P dir d0 pr stop oot x0 y Sig errz0 gV).stats.status ∧
      cb.eps = (run co P dir d0 pr stop oot x0 y Sig errz0 gV).stats.eps ∧
      cb.k = (run co P dir d0 pr stop oot x0 y Sig errz0 gV).stats.iterations ∧
      some cb.it = (run co P dir d0 pr stop oot x0 y Sig errz0 gV).final := by
  obtain ⟨s', -, -, -, he⟩ := pantr_exit_is_head_exit co P dir d0 pr stop oot x0 y Sig errz0 gV s hi
  rw [he]
  unfold exitBlock
  simp only [List.reverse_cons, List.getLast?_append, List.getLast?_singleton, Option.some_or]
  exact ⟨_, rfl, rfl, rfl, rfl, rfl⟩

/-! ### What the status means (instances of `Props/C06` at PANTR's exit) -/
section meaning
variable (co : Consts α) (P : Problem α) (dir : Direction D α) (d0 : D)
    (pr : Params α) (stop : Nat → Bool) (oot : Bool) (x0 y Sig errz0 gV : Vec α) (s : St α D)
    (hi : initState co P d0 pr stop x0 gV = .inr s)
include s hi

local notation "R" => run co P dir d0 pr stop oot x0 y Sig errz0 gV

/-- `Converged` exactly when the returned `ε ≤ tolerance'` — so a satisfied tolerance wins over
    every limit reached at the same moment, and (`Props/C06.nonfinite_never_converged`) a non-finite
    `ε` is never `Converged`. -/
theorem pantr_converged_iff : (R).stats.status = .Converged ↔ (R).stats.eps ≤ C06.effTol pr.tolerance := by
  rw [pantr_status_is_chain co P dir d0 pr stop oot x0 y Sig errz0 gV s hi]
  exact C06.converged_iff _ _ _ _ _ _ _ _

theorem pantr_maxIter_only_if (h : (R).stats.status = .MaxIter) : (R).stats.iterations = pr.maxIter := by
  rw [pantr_status_is_chain co P dir d0 pr stop oot x0 y Sig errz0 gV s hi] at h
  exact C06.maxIter_only_if _ _ _ _ _ _ _ _ h

theorem pantr_maxTime_only_if (h : (R).stats.status = .MaxTime) : oot = true := by
  rw [pantr_status_is_chain co P dir d0 pr stop oot x0 y Sig errz0 gV s hi] at h
  exact C06.maxTime_only_if _ _ _ _ _ _ _ _ h

theorem pantr_notFinite_only_if (h : (R).stats.status = .NotFinite) :
    RealLike.isFinite (R).stats.eps = false := by
  rw [pantr_status_is_chain co P dir d0 pr stop oot x0 y Sig errz0 gV s hi] at h
  exact C06.notFinite_only_if _ _ _ _ _ _ _ _ h

/-- `Interrupted` only if the stop flag was visible at the last head check. -/
theorem pantr_interrupted_only_if (h : (R).stats.status = .Interrupted) :
    stop ((R).ticks - 1) = true := by
  rw [pantr_status_is_chain co P dir d0 pr stop oot x0 y Sig errz0 gV s hi] at h
  exact C06.interrupted_only_if _ _ _ _ _ _ _ _ h

/-- PANTR never reports `NoProgress`: its counter is the constant 0. -/
theorem pantr_never_noProgress : (R).stats.status ≠ .NoProgress := by
  intro h
  rw [pantr_status_is_chain co P dir d0 pr stop oot x0 y Sig errz0 gV s hi] at h
  exact absurd (C06.noProgress_only_if _ _ _ _ _ _ _ _ h) (by omega)

/-- … and never `Busy` or `Exception`. -/
theorem pantr_status_final : (R).stats.status ≠ .Busy ∧ (R).stats.status ≠ .Exception := by
  obtain ⟨s', -, -, hb, he⟩ := pantr_exit_is_head_exit co P dir d0 pr stop oot x0 y Sig errz0 gV s hi
  constructor
  · rw [he, (exitBlock_fields co pr _ _ _ x0 y Sig errz0).2.1]; exact hb
  · rw [pantr_status_is_chain co P dir d0 pr stop oot x0 y Sig errz0 gV s hi]
    exact C06.never_exception _ _ _ _ _ _ _ _

end meaning

/-- The early return (non-finite Lipschitz estimate, before the loop): `NotFinite`, 0 iterations,
    `ε = inf` (the default of `Stats`), outputs untouched. -/
theorem pantr_early_exit (co : Consts α) (P : Problem α) (dir : Direction D α) (d0 : D)
    (pr : Params α) (stop : Nat → Bool) (oot : Bool) (x0 y Sig errz0 gV : Vec α) (t : Nat)
    (hi : initState co P d0 pr stop x0 gV = .inl t) :
    (run co P dir d0 pr stop oot x0 y Sig errz0 gV).stats.status = .NotFinite ∧
    (run co P dir d0 pr stop oot x0 y Sig errz0 gV).stats.iterations = 0 ∧
    (run co P dir d0 pr stop oot x0 y Sig errz0 gV).stats.eps = co.inf ∧
    (run co P dir d0 pr stop oot x0 y Sig errz0 gV).wrote = false := by
  unfold run; simp [hi, stats0]

end structural

/-! ### The returned ε is the documented formula of the final iterate (ordered field) -/
section documented
variable {α D : Type} [Field α] [LinearOrder α] [IsStrictOrderedRing α] [RealLike α]

/-- The documented formulas of the criteria that do not read `∇ψ(x̂)` do not mention it: for those the
    (possibly stale) content of the solver's `grad_ψx̂` buffer is immaterial. -/
theorem docCrit_gh_irrel (PC : Vec α → Vec α) (c : PANOCStopCrit) (h : requiresGradHat c = false)
    (γ : α) (x xh yh g gh gh' : Vec α) :
    C06.docCrit PC c γ x xh yh g gh = C06.docCrit PC c γ x xh yh g gh' := by
  cases c <;> simp [requiresGradHat] at h <;> rfl

/-- **ε equals the documented formula of the selected criterion recomputed from the final iterate data
    `(x, x̂, γ, ∇ψ(x), ∇ψ(x̂), ŷ)`** — for every run that reached the main loop, every stop schedule,
    direction provider, budget and exit status.  `c` is the iterate that was current at exit; it is
    consistent (`γ > 0`, `x̂ = Π_C(x − γ∇ψ(x))`, `p = x̂ − x`, `grad_ψ = ∇ψ(x)`, `ŷ = ŷ(x̂)`), and its `x̂`,
    `ŷ` are what the caller's `x`, `y` hold if the outputs were overwritten.  The gradients in the formula
    are the problem's `eval_grad_ψ` at `c.x` and at `c.xhat` — not whatever the solver's buffers hold. -/
theorem pantr_eps_is_documented (hnn : ∀ a : α, RealLike.isNaN a = false) (PC : Vec α → Vec α)
    (co : Consts α) (P : Problem α)
    (hP : C06.ProxIsProj PC (fun g x gr => ((P.prox g x gr).2.1, (P.prox g x gr).2.2)))
    (hO : GradOracles P) (dir : Direction D α) (d0 : D) (pr : Params α) (hp : ParamsOK pr)
    (stop : Nat → Bool) (oot : Bool) (x0 y Sig errz0 gV : Vec α) (s0 : St α D)
    (hi : initState co P d0 pr stop x0 gV = .inr s0) :
    ∃ c : Iterate α,
      (run co P dir d0 pr stop oot x0 y Sig errz0 gV).final = some c ∧
      (run co P dir d0 pr stop oot x0 y Sig errz0 gV).stats.eps =
        C06.docCrit PC pr.stopCrit c.gamma c.x c.xhat c.yhat (P.gradPsi c.x) (P.gradPsi c.xhat) ∧
      0 < c.gamma ∧ c.xhat = PC (vsub c.x (smul c.gamma (P.gradPsi c.x))) ∧ c.p = vsub c.xhat c.x ∧
      c.gradPsi = P.gradPsi c.x ∧ c.yhat = (P.psi c.xhat).2 ∧
      ((run co P dir d0 pr stop oot x0 y Sig errz0 gV).wrote = true →
        (run co P dir d0 pr stop oot x0 y Sig errz0 gV).x = c.xhat ∧
        (run co P dir d0 pr stop oot x0 y Sig errz0 gV).y = c.yhat) := by
  obtain ⟨s', ⟨hgood, hgam, hgc⟩, -, -, he⟩ := run_exit_inv (DocInv P pr) co P dir d0 pr stop oot
    (docInv_headInv co P hO dir pr stop oot) x0 y Sig errz0 gV s0 hi
    (initState_docInv co P hO d0 pr hp stop x0 gV s0 hi)
  have hf := exitBlock_fields co pr (headStep P pr stop oot s').1 (headStep P pr stop oot s').2.1
    (headStep P pr stop oot s').2.2 x0 y Sig errz0
  have hh := headStep_same P pr stop oot s'
  have hε := headStep_eps P pr stop oot s'
  have hprox := hP s'.curr.gamma s'.curr.x s'.curr.gradPsi
  simp only [Prod.mk.injEq] at hprox
  have hxh : s'.curr.xhat = PC (vsub s'.curr.x (smul s'.curr.gamma s'.curr.gradPsi)) := by
    rw [hgood.1.2.1]; exact hprox.1
  have hpp : s'.curr.p = vsub s'.curr.xhat s'.curr.x := by
    rw [hgood.1.2.2, hxh]; exact hprox.2
  have hcons : C06.Consistent PC s'.curr.gamma s'.curr.p s'.curr.x s'.curr.xhat s'.curr.gradPsi :=
    ⟨hxh, hpp⟩
  refine ⟨s'.curr, by rw [he, hf.2.2.2.2.1, hh.1], ?_, hgam.1, by rw [← hgc]; exact hxh, hpp, hgc,
    hgood.2.2, fun hw => ?_⟩
  · rw [he, hf.2.2.2.1, hε.1]
    unfold epsOf
    rw [C06.calcErrorStopCrit_eq_doc hnn PC _ hP pr.stopCrit s'.curr.gamma (ne_of_gt hgam.1) s'.curr.p s'.curr.x
      s'.curr.xhat s'.curr.yhat s'.curr.gradPsi _ hcons, ← hgc]
    by_cases hr : requiresGradHat pr.stopCrit = true
    · rw [hε.2 hr, hgood.2.2, hO.gradL]
    · exact docCrit_gh_irrel PC pr.stopCrit (by simpa using hr) _ _ _ _ _ _ _
  · rw [he] at hw ⊢
    unfold exitBlock at hw ⊢
    simp only [] at hw ⊢
    simp only [hw, if_true, hh.1]
    exact ⟨trivial, trivial⟩

end documented

/-! ### Non-vacuity -/
section examples
open Alpaqa.Pantr.Example

example : (solve 2 false 1 0).stats.iterations ≤ 2 ∧ (solve 2 false 1 0).stats.status = .Converged := by
  decide
example : (solve 0 false (-1) 0).stats.status = .MaxIter ∧ (solve 0 false (-1) 0).stats.iterations = 0 := by
  decide
example : ∃ s, initState co P () (pr 3 false) (fun _ => false) [5] [0] = .inr s := ⟨_, rfl⟩

end examples

/-! ### Non-vacuity of `pantr_eps_is_documented` (`Proofs/PantrExampleQ.lean`: `Π_C` = clamp to `[−1, 10]`,
    two iterations — one accepted, one rejected step —, exit `MaxIter`) -/
section examplesQ
open Alpaqa.Pantr.ExampleQ

example : C06.ProxIsProj PCq (fun g x gr => ((Pq.prox g x gr).2.1, (Pq.prox g x gr).2.2)) :=
  fun _ _ _ => rfl

/-- every hypothesis instantiated, criterion `ProjGradNorm` (does not read `∇ψ(x̂)`) … -/
example : ∃ c : Iterate ℚ, (rq none).final = some c ∧
    (rq none).stats.eps = C06.docCrit PCq prq.stopCrit c.gamma c.x c.xhat c.yhat (Pq.gradPsi c.x)
      (Pq.gradPsi c.xhat) ∧
    0 < c.gamma ∧ c.xhat = PCq (vsub c.x (smul c.gamma (Pq.gradPsi c.x))) ∧ c.p = vsub c.xhat c.x ∧
    c.gradPsi = Pq.gradPsi c.x ∧ c.yhat = (Pq.psi c.xhat).2 ∧
    ((rq none).wrote = true → (rq none).x = c.xhat ∧ (rq none).y = c.yhat) :=
  pantr_eps_is_documented (fun _ => rfl) PCq coq Pq (fun _ _ _ => rfl) gradOracles dirq 0 prq paramsOK
    (stopAt none) false [4] [5] [2] [7] [0] _ rfl

/-- … the numbers: final iterate `x = 1/2`, `γ = 1/2`, `∇ψ(x) = 1/2`, `x̂ = Π_C(1/4) = 1/4`, `ŷ = 1/4`;
    `ε = ‖x − Π_C(x − γ∇ψ(x))‖∞ = 1/4` -/
example : (rq none).final.map (fun c => (c.x, c.gamma, c.gradPsi, c.xhat, c.yhat)) =
      some ([1/2], 1/2, [1/2], [1/4], [1/4]) ∧ (rq none).stats.eps = 1/4 ∧
    C06.docCrit PCq .ProjGradNorm (1/2) [1/2] [1/4] [1/4] [1/2] [1/4] = 1/4 := by decide +kernel

/-- … and with a criterion that reads `∇ψ(x̂)` (`ApproxKKT`; the head evaluates it with `eval_grad_L(x̂, ŷ)`),
    interrupted inside the first iteration (flag visible from tick 8): final iterate `x = 1`, `x̂ = 1/2`,
    `ε = ‖γ⁻¹(x − x̂) + ∇ψ(x̂) − ∇ψ(x)‖∞ = |2·(1/2) + 1/2 − 1| = 1/2`, and `x̂ = 1/2` is written back -/
def rqK (t0 : Option Nat) : Result ℚ Nat :=
  run coq Pq dirq 0 { prq with stopCrit := .ApproxKKT } (stopAt t0) false [4] [5] [2] [7] [0]

example : ∃ c : Iterate ℚ, (rqK (some 8)).final = some c ∧
    (rqK (some 8)).stats.eps = C06.docCrit PCq .ApproxKKT c.gamma c.x c.xhat c.yhat (Pq.gradPsi c.x)
      (Pq.gradPsi c.xhat) ∧
    0 < c.gamma ∧ c.xhat = PCq (vsub c.x (smul c.gamma (Pq.gradPsi c.x))) ∧ c.p = vsub c.xhat c.x ∧
    c.gradPsi = Pq.gradPsi c.x ∧ c.yhat = (Pq.psi c.xhat).2 ∧
    ((rqK (some 8)).wrote = true → (rqK (some 8)).x = c.xhat ∧ (rqK (some 8)).y = c.yhat) :=
  pantr_eps_is_documented (fun _ => rfl) PCq coq Pq (fun _ _ _ => rfl) gradOracles dirq 0
    { prq with stopCrit := .ApproxKKT } ⟨by norm_num [prq], by norm_num [prq], by norm_num [prq]⟩
    (stopAt (some 8)) false [4] [5] [2] [7] [0] _ rfl

example : (rqK (some 8)).stats.status = .Interrupted ∧ (rqK (some 8)).wrote = true ∧
    (rqK (some 8)).final.map (fun c => (c.x, c.gamma, c.xhat)) = some ([1], 1/2, [1/2]) ∧
    (rqK (some 8)).stats.eps = 1/2 ∧ (rqK (some 8)).x = [1/2] ∧
    C06.docCrit PCq .ApproxKKT (1/2) [1] [1/2] [1/2] [1] [1/2] = 1/2 := by decide +kernel

end examplesQ

end Alpaqa.Props.C06_Pantr
