/-
  C06 (PANTR) — Exit status, iteration count and reported residual mean what is documented.

  Loop-level facts about the PANTR model (`Alpaqa/Model/Pantr.lean`), for every problem oracle,
  direction provider, stop schedule, budget and parameter set, over any carrier.  The chain
  (`statusChain`) and the criteria (`calcErrorStopCrit`, `requiresGradHat`) are the generated ones
  (`Gen/C06.lean`); what they mean is `Props/C06.lean` — the corollaries below instantiate those
  theorems at PANTR's exit.

  PANTR-specific: pantr.tpp declares `unsigned no_progress = 0`, hands it to the chain and never
  updates it.  Hence `NoProgress` is never reported (`pantr_never_noProgress`); the property's
  clause "NoProgress only after more than max_no_progress unchanged iterations" holds vacuously and
  `max_no_progress` is a dead parameter of this solver (reported, not a violation of C06).
-/
import Alpaqa.Proofs.PantrInv
import Alpaqa.Proofs.PantrExample
import Alpaqa.Props.C06

namespace Alpaqa.Props.C06_Pantr
open Alpaqa Alpaqa.Pantr Alpaqa.Gen
set_option linter.unusedSectionVars false

variable {α D : Type} [Add α] [Sub α] [Mul α] [Div α] [Neg α] [LT α] [LE α] [DecidableLT α]
  [DecidableLE α] [BEq α] [RealLike α] [NatCast α] [OfScientific α]
  [OfNat α 0] [OfNat α 1] [OfNat α 2] [OfNat α 100]

/-- **Every return from the main loop is an exit at a loop head** (never the model's loop fuel):
    there is a state `s'` with `k ≤ max_iter` whose head check returned a non-`Busy` status, and the
    result is the exit block run on that head. -/
theorem pantr_exit_is_head_exit (co : Consts α) (P : Problem α) (dir : Direction D α) (d0 : D)
    (pr : Params α) (stop : Nat → Bool) (oot : Bool) (x0 y Sig errz0 gV : Vec α) (s : St α D)
    (hi : initState co P d0 pr stop x0 gV = .inr s) :
    ∃ s' : St α D, s'.k ≤ pr.maxIter ∧ Good P s'.curr ∧ (headStep P pr stop oot s').2.2 ≠ .Busy ∧
      run co P dir d0 pr stop oot x0 y Sig errz0 gV =
        exitBlock co pr (headStep P pr stop oot s').1 (headStep P pr stop oot s').2.1
          (headStep P pr stop oot s').2.2 x0 y Sig errz0 := by
  have hs := initState_good co P d0 pr stop x0 gV s hi
  obtain ⟨s', h1, -, h3, h4, h5⟩ := mainLoop_exit_at_head co P dir pr stop oot x0 y Sig errz0
    (pr.maxIter + 1) s (by rw [hs.2.2.1]; omega) (by omega) hs.1
  refine ⟨s', h1, h3, h4, ?_⟩
  unfold run; simp only [hi]; exact h5

/-- **The iteration count never exceeds `max_iter`** (budget 0 included). -/
theorem pantr_iterations_le_max_iter (co : Consts α) (P : Problem α) (dir : Direction D α) (d0 : D)
    (pr : Params α) (stop : Nat → Bool) (oot : Bool) (x0 y Sig errz0 gV : Vec α) :
    (run co P dir d0 pr stop oot x0 y Sig errz0 gV).stats.iterations ≤ pr.maxIter := by
  cases hi : initState co P d0 pr stop x0 gV with
  | inl t => unfold run; simp [hi, stats0]
  | inr s =>
    obtain ⟨s', h1, -, -, he⟩ := pantr_exit_is_head_exit co P dir d0 pr stop oot x0 y Sig errz0 gV s hi
    rw [he, (exitBlock_fields co pr _ _ _ x0 y Sig errz0).2.2.1, (headStep_same P pr stop oot s').2.2.1]
    exact h1

/-- **The returned status is the generated chain evaluated at the last head**: at the returned
    iteration count, the returned `ε`, `no_progress = 0`, and the stop flag as polled at the last
    event before the final callback. -/
theorem pantr_status_is_chain (co : Consts α) (P : Problem α) (dir : Direction D α) (d0 : D)
    (pr : Params α) (stop : Nat → Bool) (oot : Bool) (x0 y Sig errz0 gV : Vec α) (s : St α D)
    (hi : initState co P d0 pr stop x0 gV = .inr s) :
    (run co P dir d0 pr stop oot x0 y Sig errz0 gV).stats.status =
      statusChain pr.tolerance pr.maxIter pr.maxNoProgress
        (run co P dir d0 pr stop oot x0 y Sig errz0 gV).stats.iterations
        (run co P dir d0 pr stop oot x0 y Sig errz0 gV).stats.eps 0 oot
        (stop ((run co P dir d0 pr stop oot x0 y Sig errz0 gV).ticks - 1)) := by
  obtain ⟨s', -, -, -, he⟩ := pantr_exit_is_head_exit co P dir d0 pr stop oot x0 y Sig errz0 gV s hi
  have hf := exitBlock_fields co pr (headStep P pr stop oot s').1 (headStep P pr stop oot s').2.1
    (headStep P pr stop oot s').2.2 x0 y Sig errz0
  rw [he, hf.2.1, hf.2.2.1, hf.2.2.2.1, hf.2.2.2.2.2.1, Nat.add_sub_cancel]
  exact headStep_status P pr stop oot s'

/-- **The returned `ε` is the generated criterion of the final iterate**: with `c` the iterate that
    was current at exit (the one whose `x̂`, `ŷ` are written back), `ε` is `calc_error_stop_crit` of
    `c`'s own `(p, γ, x, x̂, ŷ, ∇ψ(x))` and a vector `gh` which *is* `∇ψ(x̂) = eval_grad_L(x̂, ŷ)`,
    freshly evaluated, whenever the criterion reads it (`requires_grad_hat_sound` of `Props/C06`
    shows the other criteria do not depend on `gh`).  `c` is consistent (`Good`). -/
theorem pantr_eps_is_crit_of_final (co : Consts α) (P : Problem α) (dir : Direction D α) (d0 : D)
    (pr : Params α) (stop : Nat → Bool) (oot : Bool) (x0 y Sig errz0 gV : Vec α) (s : St α D)
    (hi : initState co P d0 pr stop x0 gV = .inr s) :
    ∃ (c : Iterate α) (gh : Vec α),
      (run co P dir d0 pr stop oot x0 y Sig errz0 gV).final = some c ∧ Good P c ∧
      (run co P dir d0 pr stop oot x0 y Sig errz0 gV).stats.eps =
        calcErrorStopCrit pr.stopCrit (fun g x gr => ((P.prox g x gr).2.1, (P.prox g x gr).2.2))
          c.p c.gamma c.x c.xhat c.yhat c.gradPsi gh ∧
      (requiresGradHat pr.stopCrit = true → gh = P.gradL c.xhat c.yhat) := by
  obtain ⟨s', -, hg, -, he⟩ := pantr_exit_is_head_exit co P dir d0 pr stop oot x0 y Sig errz0 gV s hi
  have hf := exitBlock_fields co pr (headStep P pr stop oot s').1 (headStep P pr stop oot s').2.1
    (headStep P pr stop oot s').2.2 x0 y Sig errz0
  have hh := headStep_same P pr stop oot s'
  have hε := headStep_eps P pr stop oot s'
  refine ⟨s'.curr, (headStep P pr stop oot s').1.gradPsiHat, ?_, hg, ?_, hε.2⟩
  · rw [he, hf.2.2.2.2.1, hh.1]
  · rw [he, hf.2.2.2.1, hε.1]; rfl

/-- The final progress callback reports exactly the returned status, `ε`, iteration count and the
    final iterate. -/
theorem pantr_final_callback (co : Consts α) (P : Problem α) (dir : Direction D α) (d0 : D)
    (pr : Params α) (stop : Nat → Bool) (oot : Bool) (x0 y Sig errz0 gV : Vec α) (s : St α D)
    (hi : initState co P d0 pr stop x0 gV = .inr s) :
    ∃ cb : Callback α,
      (run co P dir d0 pr stop oot x0 y Sig errz0 gV).callbacks.getLast? = some cb ∧
      cb.status = (run co P dir d0 pr stop oot x0 y Sig errz0 gV).stats.status ∧
      cb.eps = (run co P dir d0 pr stop oot x0 y Sig errz0 gV).stats.eps ∧
      cb.k = (run co P dir d0 pr stop oot x0 y Sig errz0 gV).stats.iterations ∧
      some cb.it = (run co P dir d0 pr stop oot x0 y Sig errz0 gV).final := by
  obtain ⟨s', -, -, -, he⟩ := pantr_exit_is_head_exit co P dir d0 pr stop oot x0 y Sig errz0 gV s hi
  rw [he]
  unfold exitBlock
  simp only [List.reverse_cons, List.getLast?_append, List.getLast?_singleton, Option.some_or]
  exact ⟨_, rfl, rfl, rfl, rfl, rfl⟩

/-! ### What the status means (instances of `Props/C06` at PANTR's exit) -/
section meaning
variable (co : Consts α) (P : Problem α) (dir : Direction D α) (d0 : D)
    (pr : Params α) (stop : Nat → Bool) (oot : Bool) (x0 y Sig errz0 gV : Vec α) (s : St α D)
    (hi : initState co P d0 pr stop x0 gV = .inr s)
include s hi

local notation "R" => run co P dir d0 pr stop oot x0 y Sig errz0 gV

/-- `Converged` exactly when the returned `ε ≤ tolerance'` — so a satisfied tolerance wins over
    every limit reached at the same moment, and (`Props/C06.nonfinite_never_converged`) a non-finite
    `ε` is never `Converged`. -/
theorem pantr_converged_iff : (R).stats.status = .Converged ↔ (R).stats.eps ≤ C06.effTol pr.tolerance := by
  rw [pantr_status_is_chain co P dir d0 pr stop oot x0 y Sig errz0 gV s hi]
  exact C06.converged_iff _ _ _ _ _ _ _ _

theorem pantr_maxIter_only_if (h : (R).stats.status = .MaxIter) : (R).stats.iterations = pr.maxIter := by
  rw [pantr_status_is_chain co P dir d0 pr stop oot x0 y Sig errz0 gV s hi] at h
  exact C06.maxIter_only_if _ _ _ _ _ _ _ _ h

theorem pantr_maxTime_only_if (h : (R).stats.status = .MaxTime) : oot = true := by
  rw [pantr_status_is_chain co P dir d0 pr stop oot x0 y Sig errz0 gV s hi] at h
  exact C06.maxTime_only_if _ _ _ _ _ _ _ _ h

theorem pantr_notFinite_only_if (h : (R).stats.status = .NotFinite) :
    RealLike.isFinite (R).stats.eps = false := by
  rw [pantr_status_is_chain co P dir d0 pr stop oot x0 y Sig errz0 gV s hi] at h
  exact C06.notFinite_only_if _ _ _ _ _ _ _ _ h

/-- `Interrupted` only if the stop flag was visible at the last head check. -/
theorem pantr_interrupted_only_if (h : (R).stats.status = .Interrupted) :
    stop ((R).ticks - 1) = true := by
  rw [pantr_status_is_chain co P dir d0 pr stop oot x0 y Sig errz0 gV s hi] at h
  exact C06.interrupted_only_if _ _ _ _ _ _ _ _ h

/-- PANTR never reports `NoProgress`: its counter is the constant 0. -/
theorem pantr_never_noProgress : (R).stats.status ≠ .NoProgress := by
  intro h
  rw [pantr_status_is_chain co P dir d0 pr stop oot x0 y Sig errz0 gV s hi] at h
  exact absurd (C06.noProgress_only_if _ _ _ _ _ _ _ _ h) (by omega)

/-- … and never `Busy` or `Exception`. -/
theorem pantr_status_final : (R).stats.status ≠ .Busy ∧ (R).stats.status ≠ .Exception := by
  obtain ⟨s', -, -, hb, he⟩ := pantr_exit_is_head_exit co P dir d0 pr stop oot x0 y Sig errz0 gV s hi
  constructor
  · rw [he, (exitBlock_fields co pr _ _ _ x0 y Sig errz0).2.1]; exact hb
  · rw [pantr_status_is_chain co P dir d0 pr stop oot x0 y Sig errz0 gV s hi]
    exact C06.never_exception _ _ _ _ _ _ _ _

end meaning

/-- The early return (non-finite Lipschitz estimate, before the loop): `NotFinite`, 0 iterations,
    `ε = inf` (the default of `Stats`), outputs untouched. -/
theorem pantr_early_exit (co : Consts α) (P : Problem α) (dir : Direction D α) (d0 : D)
    (pr : Params α) (stop : Nat → Bool) (oot : Bool) (x0 y Sig errz0 gV : Vec α) (t : Nat)
    (hi : initState co P d0 pr stop x0 gV = .inl t) :
    (run co P dir d0 pr stop oot x0 y Sig errz0 gV).stats.status = .NotFinite ∧
    (run co P dir d0 pr stop oot x0 y Sig errz0 gV).stats.iterations = 0 ∧
    (run co P dir d0 pr stop oot x0 y Sig errz0 gV).stats.eps = co.inf ∧
    (run co P dir d0 pr stop oot x0 y Sig errz0 gV).wrote = false := by
  unfold run; simp [hi, stats0]

/-! ### Non-vacuity -/
section examples
open Alpaqa.Pantr.Example

example : (solve 2 false 1 0).stats.iterations ≤ 2 ∧ (solve 2 false 1 0).stats.status = .Converged := by
  decide
example : (solve 0 false (-1) 0).stats.status = .MaxIter ∧ (solve 0 false (-1) 0).stats.iterations = 0 := by
  decide
example : ∃ s, initState co P () (pr 3 false) (fun _ => false) [5] [0] = .inr s := ⟨_, rfl⟩

end examples

end Alpaqa.Props.C06_Pantr
