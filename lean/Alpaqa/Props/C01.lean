/-
  C01 — ALM `Converged` certifies an approximate KKT point of the user's problem.

  Kernel facts (this file, any linearly ordered field, any dimension, finite or infinite or equal
  bounds): the approximate-KKT residual the inner solvers test *is* a bound on the distance of
  `−∇L(x̂, ŷ)` to the normal cone of `C` at the returned point, because the forward-backward step
  itself exhibits a normal-cone element.  Together with
    * `Props/C03` (the returned `x` is that `x̂`, the returned `y` is `ŷ(x̂)`, `err_z = (ŷ−y)/Σ`),
    * `Props/C06` (Converged ⇔ ε ≤ tolerance; ε is the ApproxKKT formula of the final iterate),
    * `Props/C04` (`ŷ`, `err_z` closed forms: `err_z = g(x̂) − Π_D(g(x̂) + y/Σ)`, sign structure),
    * `Props/C07` (ALM reports Converged exactly when the last inner solve converged with
      ε ≤ tolerance and ‖err_z‖∞ ≤ dual tolerance)
  this is the certificate of the property; the composed statement is `alm_converged_certifies_kkt`
  below.
-/
import Alpaqa.Proofs.VecLemmas
import Alpaqa.Props.C15
import Alpaqa.Props.C06
import Alpaqa.Gen.C01

namespace Alpaqa.Props.C01
open Alpaqa Alpaqa.Gen Alpaqa.Props.C06
set_option linter.unusedSectionVars false

variable {α : Type} [Field α] [LinearOrder α] [IsStrictOrderedRing α]

/-- Variational description of the normal cone of an interval `[lb, ub]` at `x̂` (`none` =
    infinite side): `n ∈ N(x̂)` iff `n·(z − x̂) ≤ 0` for every `z` in the interval.  Handles equal
    bounds, one-sided and free coordinates uniformly. -/
def InBox (lb ub : Option α) (z : α) : Prop :=
  (∀ l, lb = some l → l ≤ z) ∧ (∀ u, ub = some u → z ≤ u)

def InNormalCone (lb ub : Option α) (xh n : α) : Prop :=
  ∀ z, InBox lb ub z → n * (z - xh) ≤ 0

/-- The projected-gradient step with optional (infinite) bounds: `p = min(max(−γ g, lb − x), ub − x)`
    where an absent bound drops the corresponding `max` / `min`.  For finite bounds this *is* the
    generated kernel `Gen.projGradStepBox` (`projStepO_some`); for infinite ones it is the limit of
    the generated kernel for every sufficiently far bound (`Props/C15.projGradStepBox_lb_irrelevant`)
    — which is what the IEEE `±inf` bounds of the C++ compute. -/
def projStepO (γ x g : α) (lb ub : Option α) : α :=
  let a := -γ * g
  let a := match lb with | none => a | some l => max a (l - x)
  match ub with | none => a | some u => min a (u - x)

theorem projStepO_some (γ x g l u : α) :
    projStepO γ x g (some l) (some u) = (projGradStepBox γ x g l u).1 := by
  simp [projStepO, projGradStepBox]

/-- **Feasibility** of the forward-backward point, any mix of finite / infinite / equal bounds. -/
theorem projStepO_feasible (γ x g : α) (lb ub : Option α)
    (hb : ∀ l u, lb = some l → ub = some u → l ≤ u) :
    InBox lb ub (x + projStepO γ x g lb ub) := by
  unfold InBox projStepO
  cases lb <;> cases ub <;> simp only [Option.some.injEq, forall_eq', reduceCtorEq, false_imp_iff,
    implies_true, true_and, and_true]
  · have := min_le_right (-γ * g) (‹α› - x); linarith
  · have := le_max_right (-γ * g) (‹α› - x); linarith
  · rename_i l u
    have h := hb l u rfl rfl
    constructor
    · have : l - x ≤ min (max (-γ * g) (l - x)) (u - x) := le_min (le_max_right _ _) (by linarith)
      linarith
    · have := min_le_right (max (-γ * g) (l - x)) (u - x); linarith

/-- **The step exhibits a normal-cone element**: `n = −p/γ − g ∈ N_C(x̂)`. -/
theorem projStepO_normalCone (γ x g : α) (lb ub : Option α) (hγ : 0 < γ)
    (hb : ∀ l u, lb = some l → ub = some u → l ≤ u) :
    InNormalCone lb ub (x + projStepO γ x g lb ub) (-(projStepO γ x g lb ub) / γ - g) := by
  intro z hz
  have key : ∀ p : α, (-p / γ - g) * (z - (x + p)) ≤ 0 ↔ 0 ≤ (p + γ * g) * (z - (x + p)) := by
    intro p
    have : (-p / γ - g) * (z - (x + p)) = -((p + γ * g) * (z - (x + p))) / γ := by
      field_simp; ring
    rw [this, div_le_iff₀ hγ, zero_mul, neg_nonpos]
  rw [key]
  unfold InBox at hz
  unfold projStepO
  cases lb <;> cases ub <;> simp only [Option.some.injEq, forall_eq', reduceCtorEq, false_imp_iff,
    implies_true, true_and, and_true] at hz ⊢
  · have : -γ * g + γ * g = 0 := by ring
    rw [this, zero_mul]
  · rename_i u
    rcases le_total (-γ * g) (u - x) with h | h
    · rw [min_eq_left h]; have : -γ * g + γ * g = 0 := by ring
      rw [this, zero_mul]
    · rw [min_eq_right h]
      apply mul_nonneg_of_nonpos_of_nonpos <;> linarith
  · rename_i l
    rcases le_total (-γ * g) (l - x) with h | h
    · rw [max_eq_right h]
      apply mul_nonneg <;> linarith
    · rw [max_eq_left h]; have : -γ * g + γ * g = 0 := by ring
      rw [this, zero_mul]
  · rename_i l u
    have hlu := hb l u rfl rfl
    rcases le_total (-γ * g) (l - x) with h | h
    · rw [max_eq_right h, min_eq_left (by linarith)]
      apply mul_nonneg <;> linarith [hz.1]
    · rw [max_eq_left h]
      rcases le_total (-γ * g) (u - x) with h2 | h2
      · rw [min_eq_left h2]; have : -γ * g + γ * g = 0 := by ring
        rw [this, zero_mul]
      · rw [min_eq_right h2]
        apply mul_nonneg_of_nonpos_of_nonpos <;> linarith [hz.2]

/-- **Componentwise certificate**: if the ApproxKKT residual component
    `p/γ + (∇ψ(x) − ∇ψ(x̂))` is at most `ε` in absolute value, then `−∇ψ(x̂)` is within `ε` of an
    element of the normal cone of `C` at `x̂`. -/
theorem approxKKT_component_certifies (γ x g gh ε : α) (lb ub : Option α) (hγ : 0 < γ)
    (hb : ∀ l u, lb = some l → ub = some u → l ≤ u)
    (h : |(1 / γ) * projStepO γ x g lb ub + (g - gh)| ≤ ε) :
    ∃ n, InNormalCone lb ub (x + projStepO γ x g lb ub) n ∧ |(-gh) - n| ≤ ε := by
  refine ⟨-(projStepO γ x g lb ub) / γ - g, projStepO_normalCone γ x g lb ub hγ hb, ?_⟩
  have : -gh - (-(projStepO γ x g lb ub) / γ - g) = (1 / γ) * projStepO γ x g lb ub + (g - gh) := by
    field_simp; ring
  rw [this]; exact h

/-- Boxes as lists of optional bounds; the step applied componentwise. -/
def projStepVO (γ : α) : List α → List α → List (Option α × Option α) → List α
  | x :: xs, g :: gs, b :: bs => projStepO γ x g b.1 b.2 :: projStepVO γ xs gs bs
  | _, _, _ => []

/-- "Every coordinate of `−ĝ` is within `tol` of the normal cone of the box at `x + p`", with the
    four lists consumed in lock-step (any dimension). -/
def Certified (γ tol : α) : List α → List α → List α → List (Option α × Option α) → Prop
  | x :: xs, g :: gs, gh :: ghs, b :: bs =>
    (∃ n, InNormalCone b.1 b.2 (x + projStepO γ x g b.1 b.2) n ∧ |(-gh) - n| ≤ tol) ∧
      Certified γ tol xs gs ghs bs
  | _, _, _, _ => True

/-- Residual components in lock-step (what `stopCrit_ApproxKKT` takes the ∞-norm of). -/
theorem residual_cons (γ x g gh : α) (xs gs ghs : List α) (b : Option α × Option α)
    (bs : List (Option α × Option α)) :
    vadd (smul (1 / γ) (projStepVO γ (x :: xs) (g :: gs) (b :: bs))) (vsub (g :: gs) (gh :: ghs))
      = ((1 / γ) * projStepO γ x g b.1 b.2 + (g - gh)) ::
        vadd (smul (1 / γ) (projStepVO γ xs gs bs)) (vsub gs ghs) := by
  simp [projStepVO, vadd, vsub, smul, vzip]

theorem certified_of_components (γ tol : α) (hγ : 0 < γ) :
    ∀ (x g gh : List α) (C : List (Option α × Option α)),
      (∀ b ∈ C, ∀ l u, b.1 = some l → b.2 = some u → l ≤ u) →
      (∀ e ∈ vadd (smul (1 / γ) (projStepVO γ x g C)) (vsub g gh), |e| ≤ tol) →
      Certified γ tol x g gh C
  | x :: xs, g :: gs, gh :: ghs, b :: bs, hC, h => by
    rw [residual_cons] at h
    refine ⟨approxKKT_component_certifies γ x g gh tol b.1 b.2 hγ (hC b (List.mem_cons_self ..))
      (h _ (List.mem_cons_self ..)), ?_⟩
    exact certified_of_components γ tol hγ xs gs ghs bs
      (fun b' hb' => hC b' (List.mem_cons_of_mem _ hb')) (fun e he => h e (List.mem_cons_of_mem _ he))
  | [], _, _, _, _, _ => by simp [Certified]
  | _ :: _, [], _, _, _, _ => by simp [Certified]
  | _ :: _, _ :: _, [], _, _, _ => by simp [Certified]
  | _ :: _, _ :: _, _ :: _, [], _, _ => by simp [Certified]

/-- **Vector certificate (the inner solvers' Converged test)**: if the generated ApproxKKT
    criterion of an iterate whose `p` is the projected-gradient step is `≤ tol`, then every
    coordinate of `−∇ψ(x̂)` is within `tol` of the normal cone of `C` at `x̂ = x + p` — i.e.
    `dist∞(−∇ψ(x̂), N_C(x̂)) ≤ tol` — for any dimension and any mix of finite, infinite and equal
    bounds. -/
theorem approxKKT_certifies [RealLike α] (prox : α → Vec α → Vec α → Vec α × Vec α) (γ tol : α)
    (x xh yh g gh : Vec α) (C : List (Option α × Option α)) (hγ : 0 < γ)
    (hC : ∀ b ∈ C, ∀ l u, b.1 = some l → b.2 = some u → l ≤ u)
    (h : stopCrit_ApproxKKT prox (projStepVO γ x g C) γ x xh yh g gh ≤ tol) :
    Certified γ tol x g gh C :=
  certified_of_components γ tol hγ x g gh C hC
    (approxKKT_componentwise prox γ tol (projStepVO γ x g C) x xh yh g gh h)

/-! ### The library's KKT-error utility (`compute_kkt_error`, kkt-error.hpp → `Gen.computeKktError`)

What the four reported numbers are, for a problem whose `eval_prox_grad_step` is the projected-gradient
step onto `C` (no ℓ₁ term) and whose `eval_proj_diff_g` is `z − Π_D(z)` (`BoxConstrProblem`), any
dimension, any mix of finite / infinite / equal bounds:

* `stationarity = ‖Π_C(x − ∇L(x,y)) − x‖∞` — the projected-gradient residual with step size 1.  It is
  *not* the distance of `−∇L(x,y)` to `N_C(x)` (at an interior point next to a bound it is smaller),
  but it certifies the same thing one projected-gradient step further: `stationarity ≤ ε` implies
  that every coordinate of `−∇L(x,y)` is within `ε` of the normal cone of `C` at
  `x̂ = Π_C(x − ∇L(x,y))` (`Certified 1 ε x ∇L ∇L C`, by `projStepO_normalCone`), and
  `‖x̂ − x‖∞ ≤ ε`;
* `constr_violation = ‖g(x) − Π_D(g(x))‖∞ = dist∞(g(x), D)`;
* `complementarity = max_j |y_j · (g_j(x) − Π_D(g(x))_j)|` (zero whenever `g(x) ∈ D`, whatever `y`);
* `bounds_violation = ‖Π_C(x) − x‖∞`, zero exactly when `x ∈ C`. -/

/-- Projection of one coordinate onto an interval with optional bounds: `min(max(v, lb), ub)`. -/
def projO (v : α) (lb ub : Option α) : α :=
  let a := match lb with | none => v | some l => max v l
  match ub with | none => a | some u => min a u

/-- the projection applied componentwise (lock-step) -/
def projVO : List α → List (Option α × Option α) → List α
  | v :: vs, b :: bs => projO v b.1 b.2 :: projVO vs bs
  | _, _ => []

/-- `z − Π_D(z)` componentwise (`projecting_difference`, lock-step) -/
def projDiffVO : List α → List (Option α × Option α) → List α
  | z :: zs, b :: bs => (z - projO z b.1 b.2) :: projDiffVO zs bs
  | _, _ => []

/-- the step with `γ = 1` *is* `Π(x − g) − x` -/
theorem projStepO_one (x g : α) (lb ub : Option α) :
    projStepO 1 x g lb ub = projO (x - g) lb ub - x := by
  unfold projStepO projO
  cases lb <;> cases ub <;> simp only []
  · ring
  · rw [← min_sub_sub_right]; congr 1; ring
  · rw [← max_sub_sub_right]; congr 1; ring
  · rw [← min_sub_sub_right, ← max_sub_sub_right]; congr 2; ring

theorem projStepVO_one : ∀ (x g : List α) (C : List (Option α × Option α)),
    projStepVO 1 x g C = vsub (projVO (vsub x g) C) x
  | x :: xs, g :: gs, b :: bs => by
    simp only [projStepVO, vsub, vzip, List.zipWith_cons_cons, projVO]
    rw [projStepO_one]
    exact congrArg _ (projStepVO_one xs gs bs)
  | [], _, _ => by simp [projStepVO, vsub, vzip, projVO]
  | _ :: _, [], _ => by simp [projStepVO, vsub, vzip, projVO]
  | _ :: _, _ :: _, [] => by simp [projStepVO, vsub, vzip, projVO]

/-- the projection lands in the interval … -/
theorem projO_inBox (v : α) (lb ub : Option α) (hb : ∀ l u, lb = some l → ub = some u → l ≤ u) :
    InBox lb ub (projO v lb ub) := by
  unfold InBox projO
  cases lb <;> cases ub <;> simp only [Option.some.injEq, forall_eq', reduceCtorEq, false_imp_iff,
    implies_true, true_and, and_true]
  · exact min_le_right _ _
  · exact le_max_right _ _
  · rename_i l u
    exact ⟨le_min (le_max_right _ _) (hb l u rfl rfl), min_le_right _ _⟩

/-- … and is a nearest point of it: `|v − Π(v)| = dist(v, [lb, ub])`. -/
theorem projO_nearest (v w : α) (lb ub : Option α) (hw : InBox lb ub w) :
    |v - projO v lb ub| ≤ |v - w| := by
  unfold InBox at hw
  unfold projO
  cases lb <;> cases ub <;> simp only [Option.some.injEq, forall_eq', reduceCtorEq, false_imp_iff,
    implies_true, true_and, and_true] at hw ⊢
  · simp
  · rename_i u
    rcases le_total v u with h | h
    · rw [min_eq_left h]; simp
    · rw [min_eq_right h, abs_of_nonneg (by linarith), abs_of_nonneg (by linarith)]; linarith
  · rename_i l
    rcases le_total l v with h | h
    · rw [max_eq_left h]; simp
    · rw [max_eq_right h, abs_of_nonpos (by linarith), abs_of_nonpos (by linarith)]; linarith
  · rename_i l u
    rcases le_total l v with h | h
    · rw [max_eq_left h]
      rcases le_total v u with h2 | h2
      · rw [min_eq_left h2]; simp
      · rw [min_eq_right h2, abs_of_nonneg (by linarith), abs_of_nonneg (by linarith [hw.2])]
        linarith [hw.2]
    · rw [max_eq_right h]
      have hlu : l ≤ u := le_trans hw.1 hw.2
      rw [min_eq_left hlu, abs_of_nonpos (by linarith), abs_of_nonpos (by linarith [hw.1])]
      linarith [hw.1]

/-- a point is its own projection exactly when it lies in the interval -/
theorem projO_eq_self_iff (v : α) (lb ub : Option α) (hb : ∀ l u, lb = some l → ub = some u → l ≤ u) :
    projO v lb ub = v ↔ InBox lb ub v := by
  constructor
  · intro h; rw [← h]; exact projO_inBox v lb ub hb
  · intro h
    have := projO_nearest v v lb ub h
    simp only [sub_self, abs_zero, abs_nonpos_iff, sub_eq_zero] at this
    exact this.symm

/-- the NaN-ignoring running maximum of absolute values is `≤ c` iff every entry is (no NaN) -/
theorem foldl_fmaxS_abs_le_iff [RealLike α] (hnn : ∀ a : α, RealLike.isNaN a = false) (c : α) :
    ∀ (l : List α) (a : α),
      l.foldl (fun acc ye => fmaxS acc (eabs ye)) a ≤ c ↔ a ≤ c ∧ ∀ ye ∈ l, |ye| ≤ c
  | [], a => by simp
  | ye :: l, a => by
    simp only [List.foldl_cons]
    rw [foldl_fmaxS_abs_le_iff hnn c l, fmaxS_eq_max hnn, eabs_eq_abs, max_le_iff]
    simp only [List.mem_cons, forall_eq_or_imp]
    tauto

section kkt
variable [RealLike α] (nan : α) (gradL : Vec α → Vec α → Vec α) (evalG : Vec α → Vec α)
  (C D : List (Option α × Option α)) (x y : Vec α)

/-- the utility on a box-constrained problem: `eval_prox_grad_step` = the projected-gradient step onto
    `C`, `eval_proj_diff_g z = z − Π_D(z)`, `project(·, C)` -/
def kktErrorBox : KKTError α :=
  computeKktError nan gradL (fun γ x g => projStepVO γ x g C) evalG (fun z => projDiffVO z D) true
    (fun v => projVO v C) x y

/-- **kktError_sound.**  What `compute_kkt_error` reports (generated text, box-constrained problem):
    (1) `stationarity = ‖Π_C(x − ∇L) − x‖∞`;
    (2) `stationarity ≤ ε` ⇒ every coordinate of `−∇L(x,y)` is within `ε` of the normal cone of `C` at
        `x̂ = Π_C(x − ∇L(x,y))` (`Certified` with step size 1: `x + p = x̂`);
    (3) `constr_violation = ‖g(x) − Π_D(g(x))‖∞`, and `≤ δ` iff every row is within `δ` of its
        interval (`projO_nearest`: that difference is the distance);
    (4) `complementarity ≤ δ` iff `|y_j·(g_j − Π_D(g)_j)| ≤ δ` for every row;
    (5) `bounds_violation = ‖Π_C(x) − x‖∞`, and `≤ δ` iff every coordinate is within `δ` of `C`. -/
theorem kktError_sound (hnn : ∀ a : α, RealLike.isNaN a = false)
    (hC : ∀ b ∈ C, ∀ l u, b.1 = some l → b.2 = some u → l ≤ u) :
    (kktErrorBox nan gradL evalG C D x y).stationarity
        = normInf (vsub (projVO (vsub x (gradL x y)) C) x) ∧
    (∀ ε, (kktErrorBox nan gradL evalG C D x y).stationarity ≤ ε →
      Certified 1 ε x (gradL x y) (gradL x y) C) ∧
    (kktErrorBox nan gradL evalG C D x y).constr_violation = normInf (projDiffVO (evalG x) D) ∧
    (∀ δ, 0 ≤ δ → ((kktErrorBox nan gradL evalG C D x y).constr_violation ≤ δ ↔
      ∀ e ∈ projDiffVO (evalG x) D, |e| ≤ δ)) ∧
    (∀ δ, 0 ≤ δ → ((kktErrorBox nan gradL evalG C D x y).complementarity ≤ δ ↔
      ∀ ye ∈ vzip (· * ·) y (projDiffVO (evalG x) D), |ye| ≤ δ)) ∧
    (kktErrorBox nan gradL evalG C D x y).bounds_violation = normInf (vsub (projVO x C) x) ∧
    (∀ δ, 0 ≤ δ → ((kktErrorBox nan gradL evalG C D x y).bounds_violation ≤ δ ↔
      ∀ e ∈ vsub (projVO x C) x, |e| ≤ δ)) := by
  have hs : (kktErrorBox nan gradL evalG C D x y).stationarity
      = normInf (projStepVO 1 x (gradL x y) C) := rfl
  refine ⟨by rw [hs, projStepVO_one], fun ε h => ?_, rfl, fun δ hδ => normInf_le_iff _ _ hδ,
    fun δ hδ => ?_, rfl, fun δ hδ => normInf_le_iff _ _ hδ⟩
  · rw [hs] at h
    apply certified_of_components 1 ε one_pos x (gradL x y) (gradL x y) C hC
    intro e he
    -- the residual `p/1 + (∇L − ∇L)` is the step itself
    have hε : 0 ≤ ε := le_trans (normInf_nonneg _) h
    have key : ∀ (p g : List α), (∀ a ∈ p, |a| ≤ ε) →
        ∀ e ∈ vadd (smul (1 / (1:α)) p) (vsub g g), |e| ≤ ε := by
      intro p
      induction p with
      | nil => intro g _ e he; simp [vadd, smul, vzip] at he
      | cons a as ih =>
        intro g hp e he
        cases g with
        | nil => simp [vadd, vsub, smul, vzip] at he
        | cons b bs =>
          simp only [vadd, vsub, smul, vzip, List.map_cons, List.zipWith_cons_cons, List.mem_cons] at he
          rcases he with rfl | he
          · have : 1 / (1:α) * a + (b - b) = a := by ring
            rw [this]; exact hp a (List.mem_cons_self ..)
          · exact ih bs (fun a' ha' => hp a' (List.mem_cons_of_mem _ ha')) e
              (by simpa [vadd, vsub, smul, vzip] using he)
    exact key _ _ ((normInf_le_iff _ _ hε).mp h) e he
  · show (vzip (· * ·) y (projDiffVO (evalG x) D)).foldl (fun acc ye => fmaxS acc (eabs ye)) 0 ≤ δ ↔ _
    rw [foldl_fmaxS_abs_le_iff hnn δ]
    exact ⟨fun h => h.2, fun h => ⟨hδ, h⟩⟩

/-- the certified point of (2) is the projected-gradient point, and it is within `stationarity` of `x` -/
theorem kktError_shift (ε : α) (h : (kktErrorBox nan gradL evalG C D x y).stationarity ≤ ε) :
    ∀ e ∈ projStepVO 1 x (gradL x y) C, |e| ≤ ε :=
  fun e he => le_trans (abs_le_normInf _ e he) h

end kkt

/-! ### Non-vacuity -/
section
local instance instRealLikeRatKkt : RealLike ℚ := ⟨id, fun _ => false, fun _ => true⟩

/-- `C = [0, ∞) × {2} × [0, 1]`, `x = (0, 2, ½)`, `∇L = (4, −7, −10)`, `g(x) = (3, −1)`,
    `D = (−∞, 1] × [−1, −1]`, `y = (5, 9)`: stationarity `‖(0, 0, ½)‖∞ = ½` although the distance of
    `−∇L` to `N_C(x)` is 10 (third coordinate interior); violation 2, complementarity `|5·2| = 10`,
    `x ∈ C` -/
def kktEx : KKTError ℚ := kktErrorBox (0 : ℚ) (fun _ _ => [4, -7, -10]) (fun _ => [3, -1])
      [(some 0, none), (some 2, some 2), (some 0, some 1)] [(none, some 1), (some (-1), some (-1))]
      [0, 2, 1/2] [5, 9]
example : kktEx.stationarity = 1/2 ∧ kktEx.constr_violation = 2 ∧ kktEx.complementarity = 10 ∧
    kktEx.bounds_violation = 0 := by decide +kernel

/-- `kktError_sound` (2) on that instance, every hypothesis discharged: `−∇L` is within ½ of the normal
    cone at `x̂ = (0, 2, 1)` -/
example : Certified (1 : ℚ) (1/2) [0, 2, 1/2] [4, -7, -10] [4, -7, -10]
    [(some 0, none), (some 2, some 2), (some 0, some 1)] :=
  (kktError_sound (0 : ℚ) (fun _ _ => [4, -7, -10]) (fun _ => [3, -1])
      [(some 0, none), (some 2, some 2), (some 0, some 1)] [(none, some 1), (some (-1), some (-1))]
      [0, 2, 1/2] [5, 9] (fun _ => rfl)
      (by intro b hb l u h1 h2
          simp only [List.mem_cons, List.mem_nil_iff, or_false] at hb
          rcases hb with rfl | rfl | rfl
          · cases h2
          · cases h1; cases h2; exact le_refl _
          · cases h1; cases h2; norm_num)).2.1 (1/2) (by decide +kernel)
end

example : InNormalCone (some (0:ℚ)) none (0 + projStepO (1/2) 0 4 (some 0) none) (-(projStepO (1/2 : ℚ) 0 4 (some 0) none) / (1/2) - 4) :=
  projStepO_normalCone _ _ _ _ _ (by norm_num) (by simp)
example : projStepO (1/2 : ℚ) 0 4 (some 0) none = 0 := by norm_num [projStepO]
example : projStepO (1 : ℚ) 3 1 (some 2) (some 2) = -1 := by norm_num [projStepO]

section
local instance instRealLikeRatC01 : RealLike ℚ := ⟨id, fun _ => false, fun _ => true⟩

/-- `approxKKT_certifies` on a two-dimensional instance with a one-sided and an equal-bounds row:
    `x = (0, 3)`, `∇ψ = (4, 1)`, `γ = ½`, `C = [0, ∞) × {2}`: `p = (0, −1)`, the criterion is
    `‖p/γ + ∇ψ(x) − ∇ψ(x̂)‖∞ = 2` -/
example : stopCrit_ApproxKKT (fun _ v _ => (v, v))
      (projStepVO (1/2 : ℚ) [0, 3] [4, 1] [(some 0, none), (some 2, some 2)]) (1/2) [0, 3] [0, 2] []
      [4, 1] [4, 1] = 2 := by decide +kernel

example : Certified (1/2 : ℚ) 2 [0, 3] [4, 1] [4, 1] [(some 0, none), (some 2, some 2)] :=
  approxKKT_certifies (fun _ v _ => (v, v)) (1/2) 2 [0, 3] [0, 2] [] [4, 1] [4, 1]
    [(some 0, none), (some 2, some 2)] (by norm_num)
    (by intro b hb l u h1 h2
        simp only [List.mem_cons, List.mem_nil_iff, or_false] at hb
        rcases hb with rfl | rfl
        · cases h2
        · cases h1; cases h2; exact le_refl _)
    (by decide +kernel)
end

end Alpaqa.Props.C01
