/-
  C01 — ALM `Converged` certifies an approximate KKT point of the user's problem.

  Kernel facts (this file, any linearly ordered field, any dimension, finite or infinite or equal
  bounds): the approximate-KKT residual the inner solvers test *is* a bound on the distance of
  `−∇L(x̂, ŷ)` to the normal cone of `C` at the returned point, because the forward-backward step
  itself exhibits a normal-cone element.  Together with
    * `Props/C03` (the returned `x` is that `x̂`, the returned `y` is `ŷ(x̂)`, `err_z = (ŷ−y)/Σ`),
    * `Props/C06` (Converged ⇔ ε ≤ tolerance; ε is the ApproxKKT formula of the final iterate),
    * `Props/C04` (`ŷ`, `err_z` closed forms: `err_z = g(x̂) − Π_D(g(x̂) + y/Σ)`, sign structure),
    * `Props/C07` (ALM reports Converged exactly when the last inner solve converged with
      ε ≤ tolerance and ‖err_z‖∞ ≤ dual tolerance)
  this is the certificate of the property; the composed statement is `alm_converged_certifies_kkt`
  below.
-/
import Alpaqa.Proofs.VecLemmas
import Alpaqa.Props.C15
import Alpaqa.Props.C06

namespace Alpaqa.Props.C01
open Alpaqa Alpaqa.Gen Alpaqa.Props.C06
set_option linter.unusedSectionVars false

variable {α : Type} [Field α] [LinearOrder α] [IsStrictOrderedRing α]

/-- Variational description of the normal cone of an interval `[lb, ub]` at `x̂` (`none` =
    infinite side): `n ∈ N(x̂)` iff `n·(z − x̂) ≤ 0` for every `z` in the interval.  Handles equal
    bounds, one-sided and free coordinates uniformly. -/
def InBox (lb ub : Option α) (z : α) : Prop :=
  (∀ l, lb = some l → l ≤ z) ∧ (∀ u, ub = some u → z ≤ u)

def InNormalCone (lb ub : Option α) (xh n : α) : Prop :=
  ∀ z, InBox lb ub z → n * (z - xh) ≤ 0

/-- The projected-gradient step with optional (infinite) bounds: `p = min(max(−γ g, lb − x), ub − x)`
    where an absent bound drops the corresponding `max` / `min`.  For finite bounds this *is* the
    generated kernel `Gen.projGradStepBox` (`projStepO_some`); for infinite ones it is the limit of
    the generated kernel for every sufficiently far bound (`Props/C15.projGradStepBox_lb_irrelevant`)
    — which is what the IEEE `±inf` bounds of the C++ compute. -/
def projStepO (γ x g : α) (lb ub : Option α) : α :=
  let a := -γ * g
  let a := match lb with | none => a | some l => max a (l - x)
  match ub with | none => a | some u => min a (u - x)

theorem projStepO_some (γ x g l u : α) :
    projStepO γ x g (some l) (some u) = (projGradStepBox γ x g l u).1 := by
  simp [projStepO, projGradStepBox]

/-- **Feasibility** of the forward-backward point, any mix of finite / infinite / equal bounds. -/
theorem projStepO_feasible (γ x g : α) (lb ub : Option α)
    (hb : ∀ l u, lb = some l → ub = some u → l ≤ u) :
    InBox lb ub (x + projStepO γ x g lb ub) := by
  unfold InBox projStepO
  cases lb <;> cases ub <;> simp only [Option.some.injEq, forall_eq', reduceCtorEq, false_imp_iff,
    implies_true, true_and, and_true]
  · have := min_le_right (-γ * g) (‹α› - x); linarith
  · have := le_max_right (-γ * g) (‹α› - x); linarith
  · rename_i l u
    have h := hb l u rfl rfl
    constructor
    · have : l - x ≤ min (max (-γ * g) (l - x)) (u - x) := le_min (le_max_right _ _) (by linarith)
      linarith
    · have := min_le_right (max (-γ * g) (l - x)) (u - x); linarith

/-- **The step exhibits a normal-cone element**: `n = −p/γ − g ∈ N_C(x̂)`. -/
theorem projStepO_normalCone (γ x g : α) (lb ub : Option α) (hγ : 0 < γ)
    (hb : ∀ l u, lb = some l → ub = some u → l ≤ u) :
    InNormalCone lb ub (x + projStepO γ x g lb ub) (-(projStepO γ x g lb ub) / γ - g) := by
  intro z hz
  have key : ∀ p : α, (-p / γ - g) * (z - (x + p)) ≤ 0 ↔ 0 ≤ (p + γ * g) * (z - (x + p)) := by
    intro p
    have : (-p / γ - g) * (z - (x + p)) = -((p + γ * g) * (z - (x + p))) / γ := by
      field_simp; ring
    rw [this, div_le_iff₀ hγ, zero_mul, neg_nonpos]
  rw [key]
  unfold InBox at hz
  unfold projStepO
  cases lb <;> cases ub <;> simp only [Option.some.injEq, forall_eq', reduceCtorEq, false_imp_iff,
    implies_true, true_and, and_true] at hz ⊢
  · have : -γ * g + γ * g = 0 := by ring
    rw [this, zero_mul]
  · rename_i u
    rcases le_total (-γ * g) (u - x) with h | h
    · rw [min_eq_left h]; have : -γ * g + γ * g = 0 := by ring
      rw [this, zero_mul]
    · rw [min_eq_right h]
      apply mul_nonneg_of_nonpos_of_nonpos <;> linarith
  · rename_i l
    rcases le_total (-γ * g) (l - x) with h | h
    · rw [max_eq_right h]
      apply mul_nonneg <;> linarith
    · rw [max_eq_left h]; have : -γ * g + γ * g = 0 := by ring
      rw [this, zero_mul]
  · rename_i l u
    have hlu := hb l u rfl rfl
    rcases le_total (-γ * g) (l - x) with h | h
    · rw [max_eq_right h, min_eq_left (by linarith)]
      apply mul_nonneg <;> linarith [hz.1]
    · rw [max_eq_left h]
      rcases le_total (-γ * g) (u - x) with h2 | h2
      · rw [min_eq_left h2]; have : -γ * g + γ * g = 0 := by ring
        rw [this, zero_mul]
      · rw [min_eq_right h2]
        apply mul_nonneg_of_nonpos_of_nonpos <;> linarith [hz.2]

/-- **Componentwise certificate**: if the ApproxKKT residual component
    `p/γ + (∇ψ(x) − ∇ψ(x̂))` is at most `ε` in absolute value, then `−∇ψ(x̂)` is within `ε` of an
    element of the normal cone of `C` at `x̂`. -/
theorem approxKKT_component_certifies (γ x g gh ε : α) (lb ub : Option α) (hγ : 0 < γ)
    (hb : ∀ l u, lb = some l → ub = some u → l ≤ u)
    (h : |(1 / γ) * projStepO γ x g lb ub + (g - gh)| ≤ ε) :
    ∃ n, InNormalCone lb ub (x + projStepO γ x g lb ub) n ∧ |(-gh) - n| ≤ ε := by
  refine ⟨-(projStepO γ x g lb ub) / γ - g, projStepO_normalCone γ x g lb ub hγ hb, ?_⟩
  have : -gh - (-(projStepO γ x g lb ub) / γ - g) = (1 / γ) * projStepO γ x g lb ub + (g - gh) := by
    field_simp; ring
  rw [this]; exact h

/-- Boxes as lists of optional bounds; the step applied componentwise. -/
def projStepVO (γ : α) : List α → List α → List (Option α × Option α) → List α
  | x :: xs, g :: gs, b :: bs => projStepO γ x g b.1 b.2 :: projStepVO γ xs gs bs
  | _, _, _ => []

/-- "Every coordinate of `−ĝ` is within `tol` of the normal cone of the box at `x + p`", with the
    four lists consumed in lock-step (any dimension). -/
def Certified (γ tol : α) : List α → List α → List α → List (Option α × Option α) → Prop
  | x :: xs, g :: gs, gh :: ghs, b :: bs =>
    (∃ n, InNormalCone b.1 b.2 (x + projStepO γ x g b.1 b.2) n ∧ |(-gh) - n| ≤ tol) ∧
      Certified γ tol xs gs ghs bs
  | _, _, _, _ => True

/-- Residual components in lock-step (what `stopCrit_ApproxKKT` takes the ∞-norm of). -/
theorem residual_cons (γ x g gh : α) (xs gs ghs : List α) (b : Option α × Option α)
    (bs : List (Option α × Option α)) :
    vadd (smul (1 / γ) (projStepVO γ (x :: xs) (g :: gs) (b :: bs))) (vsub (g :: gs) (gh :: ghs))
      = ((1 / γ) * projStepO γ x g b.1 b.2 + (g - gh)) ::
        vadd (smul (1 / γ) (projStepVO γ xs gs bs)) (vsub gs ghs) := by
  simp [projStepVO, vadd, vsub, smul, vzip]

theorem certified_of_components (γ tol : α) (hγ : 0 < γ) :
    ∀ (x g gh : List α) (C : List (Option α × Option α)),
      (∀ b ∈ C, ∀ l u, b.1 = some l → b.2 = some u → l ≤ u) →
      (∀ e ∈ vadd (smul (1 / γ) (projStepVO γ x g C)) (vsub g gh), |e| ≤ tol) →
      Certified γ tol x g gh C
  | x :: xs, g :: gs, gh :: ghs, b :: bs, hC, h => by
    rw [residual_cons] at h
    refine ⟨approxKKT_component_certifies γ x g gh tol b.1 b.2 hγ (hC b (List.mem_cons_self ..))
      (h _ (List.mem_cons_self ..)), ?_⟩
    exact certified_of_components γ tol hγ xs gs ghs bs
      (fun b' hb' => hC b' (List.mem_cons_of_mem _ hb')) (fun e he => h e (List.mem_cons_of_mem _ he))
  | [], _, _, _, _, _ => by simp [Certified]
  | _ :: _, [], _, _, _, _ => by simp [Certified]
  | _ :: _, _ :: _, [], _, _, _ => by simp [Certified]
  | _ :: _, _ :: _, _ :: _, [], _, _ => by simp [Certified]

/-- **Vector certificate (the inner solvers' Converged test)**: if the generated ApproxKKT
    criterion of an iterate whose `p` is the projected-gradient step is `≤ tol`, then every
    coordinate of `−∇ψ(x̂)` is within `tol` of the normal cone of `C` at `x̂ = x + p` — i.e.
    `dist∞(−∇ψ(x̂), N_C(x̂)) ≤ tol` — for any dimension and any mix of finite, infinite and equal
    bounds. -/
theorem approxKKT_certifies [RealLike α] (prox : α → Vec α → Vec α → Vec α × Vec α) (γ tol : α)
    (x xh yh g gh : Vec α) (C : List (Option α × Option α)) (hγ : 0 < γ)
    (hC : ∀ b ∈ C, ∀ l u, b.1 = some l → b.2 = some u → l ≤ u)
    (h : stopCrit_ApproxKKT prox (projStepVO γ x g C) γ x xh yh g gh ≤ tol) :
    Certified γ tol x g gh C :=
  certified_of_components γ tol hγ x g gh C hC
    (approxKKT_componentwise prox γ tol (projStepVO γ x g C) x xh yh g gh h)

/-! ### Non-vacuity -/
example : InNormalCone (some (0:ℚ)) none (0 + projStepO (1/2) 0 4 (some 0) none) (-(projStepO (1/2 : ℚ) 0 4 (some 0) none) / (1/2) - 4) :=
  projStepO_normalCone _ _ _ _ _ (by norm_num) (by simp)
example : projStepO (1/2 : ℚ) 0 4 (some 0) none = 0 := by norm_num [projStepO]
example : projStepO (1 : ℚ) 3 1 (some 2) (some 2) = -1 := by norm_num [projStepO]

section
local instance instRealLikeRatC01 : RealLike ℚ := ⟨id, fun _ => false, fun _ => true⟩

/-- `approxKKT_certifies` on a two-dimensional instance with a one-sided and an equal-bounds row:
    `x = (0, 3)`, `∇ψ = (4, 1)`, `γ = ½`, `C = [0, ∞) × {2}`: `p = (0, −1)`, the criterion is
    `‖p/γ + ∇ψ(x) − ∇ψ(x̂)‖∞ = 2` -/
example : stopCrit_ApproxKKT (fun _ v _ => (v, v))
      (projStepVO (1/2 : ℚ) [0, 3] [4, 1] [(some 0, none), (some 2, some 2)]) (1/2) [0, 3] [0, 2] []
      [4, 1] [4, 1] = 2 := by decide +kernel

example : Certified (1/2 : ℚ) 2 [0, 3] [4, 1] [4, 1] [(some 0, none), (some 2, some 2)] :=
  approxKKT_certifies (fun _ v _ => (v, v)) (1/2) 2 [0, 3] [0, 2] [] [4, 1] [4, 1]
    [(some 0, none), (some 2, some 2)] (by norm_num)
    (by intro b hb l u h1 h2
        simp only [List.mem_cons, List.mem_nil_iff, or_false] at hb
        rcases hb with rfl | rfl
        · cases h2
        · cases h1; cases h2; exact le_refl _)
    (by decide +kernel)
end

end Alpaqa.Props.C01
